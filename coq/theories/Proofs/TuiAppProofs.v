(* Lemmas for C17: the selection invariant of the TuiApp model (Tui/App.v) is established by the first
   frame and preserved by every data change, method call, key event and frame; no step faults. *)
From Coq Require Import Permutation.
From TV Require Import Base.Result Tui.Privacy Tui.App.
Import TuiPrivacy TuiApp.

(* ------------------------------------------------------------------ small facts *)

Lemma zlen_nonneg : forall A (l : list A), 0 <= zlen l.
Proof. intros; unfold zlen; lia. Qed.

Lemma zindex_ok : forall A (l : list A) i, 0 <= i < zlen l ->
  exists x, zindex i l = Ok x /\ nth_error l (Z.to_nat i) = Some x.
Proof.
  intros A l i [H0 H1]. unfold zindex, index, zlen in *.
  destruct (0 <=? i) eqn:E; [|lia].
  destruct (nth_error l (Z.to_nat i)) eqn:N.
  - eauto.
  - apply nth_error_None in N. lia.
Qed.

Lemma zindex_inv : forall A (l : list A) i x, zindex i l = Ok x ->
  0 <= i < zlen l /\ nth_error l (Z.to_nat i) = Some x.
Proof.
  intros A l i x H. unfold zindex, index in H.
  destruct (0 <=? i) eqn:E; [|discriminate].
  destruct (nth_error l (Z.to_nat i)) eqn:N; [|discriminate].
  inversion H; subst. split; [|reflexivity].
  assert (Z.to_nat i < length l)%nat by (apply nth_error_Some; congruence).
  unfold zlen; lia.
Qed.

Lemma sub_w_ok : forall a b, b <= a -> sub_w a b = Ok (a - b).
Proof. intros; unfold sub_w. destruct (b <=? a) eqn:E; [reflexivity|lia]. Qed.

Lemma upd_nth_length : forall A i (v : A) l, length (upd_nth i v l) = length l.
Proof. induction i; destruct l; simpl; intros; auto. Qed.

Lemma upd_nth_Forall : forall A (P : A -> Prop) i v l, Forall P l -> P v -> Forall P (upd_nth i v l).
Proof.
  induction i; destruct l; simpl; intros; auto.
  - inversion H; constructor; auto.
  - inversion H; constructor; auto.
Qed.

(* ------------------------------------------------------------------ shapes *)

Definition has_flow (d : shape) (f : Z) : Prop := exists x, find_flow (sh_flows d) f = Ok x.

(* the environment assumption: what trippy-core's State guarantees about its own shape *)
Definition wf_shape (d : shape) : Prop :=
  has_flow d 0 /\
  (forall id, In id (sh_registry d) -> has_flow d id /\ id <> 0) /\
  zlen (sh_registry d) <= sh_max_flows d /\
  (sh_registry d <> [] -> In 1 (sh_registry d)) /\
  (forall f x, find_flow (sh_flows d) f = Ok x -> zlen (fs_hops x) <= 254).

Definition wf_traces (w : traces) : Prop := Forall wf_shape w /\ 0 < zlen w.

Lemma clear_shape_wf : forall s, wf_shape s -> wf_shape (clear_shape s).
Proof.
  intros s (H0 & H1 & H2 & H3 & H4). unfold wf_shape, clear_shape, has_flow; simpl.
  repeat split.
  - eexists; reflexivity.
  - destruct H.
  - destruct H.
  - pose proof (zlen_nonneg _ (sh_registry s)). unfold zlen in *; simpl; lia.
  - intros C; congruence.
  - intros f x. simpl. destruct f; intros H; inversion H; subst. unfold zlen; simpl; lia.
Qed.

Lemma has_flow_hops : forall d f, has_flow d f -> exists hs, hops_for_flow d f = Ok hs.
Proof. intros d f [x H]. unfold hops_for_flow. rewrite H. simpl. eauto. Qed.

Lemma hops_has_flow : forall d f hs, hops_for_flow d f = Ok hs -> has_flow d f.
Proof.
  intros d f hs H. unfold hops_for_flow in H. unfold has_flow.
  destruct (find_flow (sh_flows d) f); simpl in H; try discriminate. eauto.
Qed.

Lemma wf_hops_len : forall d f hs, wf_shape d -> hops_for_flow d f = Ok hs -> zlen hs <= 254.
Proof.
  intros d f hs (_ & _ & _ & _ & H) E. unfold hops_for_flow in E.
  destruct (find_flow (sh_flows d) f) eqn:F; simpl in E; try discriminate.
  inversion E; subst. eapply H; eauto.
Qed.

Lemma existsb_eqb_In : forall l x, existsb (fun id => id =? x) l = true <-> In x l.
Proof.
  intros l x. rewrite existsb_exists. split.
  - intros [y [Hy E]]. apply Z.eqb_eq in E. subst; auto.
  - intros H. exists x. split; auto. apply Z.eqb_refl.
Qed.

(* ------------------------------------------------------------------ the invariant *)

Definition item_count (tab : Z) (cols : list (Z * bool)) : Z :=
  if tab =? SETTINGS_TAB_COLUMNS then zlen cols else nth (Z.to_nat tab) settings_tabs 0.

(* the selected hop and hop address exist in the displayed data *)
Definition hop_ok (d : shape) (s : sel) : Prop :=
  match table_sel s with
  | None => hop_addr s = 0
  | Some i => exists hs h, hops_for_flow d (sel_flow s) = Ok hs /\ 0 <= i < zlen hs /\
                           nth_error hs (Z.to_nat i) = Some h /\ 0 <= hop_addr s < Z.max 1 (hs_addrs h)
  end.

(* weaker: what survives a change of flow or data *)
Definition sel_nonneg (s : sel) : Prop :=
  0 <= hop_addr s /\ match table_sel s with Some i => 0 <= i | None => True end.

Definition flows_ok (d : shape) (s : sel) : Prop :=
  has_flow d (sel_flow s) /\
  (forall id, In id (map fst (flow_counts s)) <-> In id (sh_registry d)) /\
  (show_flows s = true -> In (sel_flow s) (map fst (flow_counts s))).

Definition sel_inv (d : shape) (nt : Z) (s : sel) : Prop :=
  0 <= trace_selected s < nt /\ flows_ok d s /\ hop_ok d s.

Definition sett_inv (st : sett) : Prop :=
  0 <= settings_tab st < 7 /\
  0 < zlen (columns st) /\
  match setting_sel st with None => True | Some i => 0 <= i < item_count (settings_tab st) (columns st) end.

(* every selection refers to an existing entry of the data being displayed *)
Definition valid (w : traces) (a : app) : Prop :=
  wf_traces w /\ wf_shape (data a) /\ sel_inv (data a) (zlen w) (a_sel a) /\ sett_inv (a_sett a).

Lemma hop_ok_nonneg : forall d s, hop_ok d s -> sel_nonneg s.
Proof.
  unfold hop_ok, sel_nonneg. intros d s H. destruct (table_sel s).
  - destruct H as (hs & h & _ & Hi & _ & Ha). split; lia.
  - split; [lia|auto].
Qed.

Lemma item_count_pos : forall tab cols, 0 <= tab < 7 -> 0 < zlen cols -> 0 < item_count tab cols.
Proof.
  intros tab cols Ht Hc. unfold item_count, SETTINGS_TAB_COLUMNS.
  destruct (tab =? 6) eqn:E; [assumption|].
  apply Z.eqb_neq in E.
  assert (tab = 0 \/ tab = 1 \/ tab = 2 \/ tab = 3 \/ tab = 4 \/ tab = 5) as C by lia.
  destruct C as [C|[C|[C|[C|[C|C]]]]]; subst; simpl; lia.
Qed.

Lemma settings_tabs_index : forall tab, 0 <= tab < 7 ->
  zindex tab settings_tabs = Ok (nth (Z.to_nat tab) settings_tabs 0).
Proof.
  intros tab Ht.
  assert (tab = 0 \/ tab = 1 \/ tab = 2 \/ tab = 3 \/ tab = 4 \/ tab = 5 \/ tab = 6) as C by lia.
  destruct C as [C|[C|[C|[C|[C|[C|C]]]]]]; subst; reflexivity.
Qed.

(* ------------------------------------------------------------------ clamp_selected_hop *)

Lemma selected_hop_some : forall a i hs h,
  table_sel (a_sel a) = Some i -> hops_for_flow (data a) (sel_flow (a_sel a)) = Ok hs ->
  0 <= i < zlen hs -> nth_error hs (Z.to_nat i) = Some h -> selected_hop a = Ok (Some h).
Proof.
  intros a i hs h Hs Hh Hi Hn. unfold selected_hop. rewrite Hs, Hh. simpl.
  destruct (zindex_ok _ hs i Hi) as (x & Hx & Hx'). rewrite Hx. simpl. congruence.
Qed.

(* clamp_selected_hop never faults when the selected flow exists, keeps everything but the hop
   selection, and establishes hop_ok *)
Lemma clamp_selected_hop_ok : forall a,
  has_flow (data a) (sel_flow (a_sel a)) -> sel_nonneg (a_sel a) ->
  exists s', clamp_selected_hop a = Ok (with_sel a s') /\
    trace_selected s' = trace_selected (a_sel a) /\ sel_flow s' = sel_flow (a_sel a) /\
    flow_counts s' = flow_counts (a_sel a) /\ show_flows s' = show_flows (a_sel a) /\
    hop_ok (data a) s'.
Proof.
  intros a Hf [Hna Hni]. destruct (has_flow_hops _ _ Hf) as [hs Hhs].
  unfold clamp_selected_hop. rewrite Hhs. cbn [bind].
  destruct a as [d s st v]. cbn [data a_sel a_sett a_view] in *.
  destruct s as [ts tsel ha fl fc sf]. cbn [table_sel hop_addr sel_flow flow_counts show_flows trace_selected] in *.
  destruct tsel as [i|].
  - destruct (zlen hs =? 0) eqn:E0.
    + (* no hops: selection cleared *)
      cbn [bind with_sel set_table_sel a_sel data a_sett a_view table_sel hop_addr sel_flow flow_counts show_flows trace_selected selected_hop].
      eexists. split; [reflexivity|].
      cbn. repeat split; auto. unfold hop_ok; cbn. lia.
    + apply Z.eqb_neq in E0. pose proof (zlen_nonneg _ hs).
      rewrite sub_w_ok by lia. cbn [bind].
      destruct (i >? zlen hs - 1) eqn:Eg.
      * (* clamped to the last hop *)
        assert (0 <= zlen hs - 1 < zlen hs) as Hm by lia.
        destruct (zindex_ok _ hs _ Hm) as (h & Hz & Hn).
        cbn [bind with_sel set_table_sel a_sel data a_sett a_view].
        erewrite selected_hop_some; [| reflexivity | exact Hhs | exact Hm | exact Hn].
        cbn [bind]. eexists. split; [reflexivity|].
        cbn. repeat split; auto. unfold hop_ok; cbn.
        exists hs, h. repeat split; auto; lia.
      * assert (0 <= i < zlen hs) as Hm by lia.
        destruct (zindex_ok _ hs _ Hm) as (h & Hz & Hn).
        cbn [bind].
        erewrite selected_hop_some; [| reflexivity | exact Hhs | exact Hm | exact Hn].
        cbn [bind]. eexists. split; [reflexivity|].
        cbn. repeat split; auto. unfold hop_ok; cbn.
        exists hs, h. repeat split; auto; lia.
  - cbn [bind selected_hop a_sel table_sel]. eexists. split; [reflexivity|].
    cbn. repeat split; auto. unfold hop_ok; cbn. lia.
Qed.

(* ------------------------------------------------------------------ update_order_flow_counts *)

Lemma insert_flow_perm : forall x l, Permutation (insert_flow x l) (x :: l).
Proof.
  induction l as [|y t IH]; simpl; auto.
  destruct (order_flows_le x y); auto.
  eapply perm_trans; [apply perm_skip, IH|apply perm_swap].
Qed.

Lemma sort_flows_perm : forall l, Permutation (sort_flows l) l.
Proof.
  induction l as [|x t IH]; simpl; auto.
  eapply perm_trans; [apply insert_flow_perm|]. auto.
Qed.

Lemma map_r_counts : forall d l,
  (forall id, In id l -> has_flow d id) ->
  exists r, map_r (fun id => let* c := round_count d id in Ok (id, c)) l = Ok r /\ map fst r = l.
Proof.
  induction l as [|x t IH]; intros H; simpl.
  - exists []; auto.
  - destruct (H x (or_introl eq_refl)) as [fx Hx].
    unfold round_count at 1. rewrite Hx. cbn [bind].
    destruct IH as (r & Hr & Hm); [intros; apply H; right; auto|].
    rewrite Hr. cbn [bind]. eexists; split; [reflexivity|]. simpl. congruence.
Qed.

Lemma firstn_all_z : forall A (l : list A) n, zlen l <= n -> firstn (Z.to_nat n) l = l.
Proof. intros A l n H. apply firstn_all2. unfold zlen in H. lia. Qed.

Lemma update_order_flow_counts_ok : forall a, wf_shape (data a) ->
  exists fc, update_order_flow_counts a = Ok (with_sel a (set_flow_counts (a_sel a) fc)) /\
    (forall id, In id (map fst fc) <-> In id (sh_registry (data a))).
Proof.
  intros a (H0 & H1 & H2 & H3 & H4). unfold update_order_flow_counts, flows, max_flows.
  destruct (map_r_counts (data a) (sh_registry (data a))) as (r & Hr & Hm).
  { intros id Hid. apply H1; auto. }
  rewrite Hr. cbn [bind]. eexists. split; [reflexivity|].
  intros id.
  assert (Permutation (rev (sort_flows r)) r) as P.
  { eapply perm_trans; [apply Permutation_sym, Permutation_rev|apply sort_flows_perm]. }
  rewrite firstn_all_z.
  - rewrite <- Hm. split; intro Hin.
    + eapply Permutation_in; [apply Permutation_map, P|auto].
    + eapply Permutation_in; [apply Permutation_map, Permutation_sym, P|auto].
  - unfold zlen in *. rewrite (Permutation_length P). rewrite <- (map_length fst r), Hm. lia.
Qed.

(* ------------------------------------------------------------------ the prologue *)

Lemma find_position_ok : forall l f i, In f (map fst l) ->
  exists c, find_position l f i = Ok c /\ i <= c < i + zlen l.
Proof.
  induction l as [|x t IH]; intros f i H; simpl in *; [contradiction|].
  unfold zlen; simpl length.
  destruct (fst x =? f) eqn:E.
  - exists i. split; auto. lia.
  - apply Z.eqb_neq in E. destruct H as [H|H]; [congruence|].
    destruct (IH f (i + 1) H) as (c & Hc & Hr). exists c. split; auto. unfold zlen in Hr. lia.
Qed.

Lemma valid_traces_index : forall w t, wf_traces w -> 0 <= t < zlen w ->
  exists d, zindex t w = Ok d /\ wf_shape d.
Proof.
  intros w t [Hf _] Ht. destruct (zindex_ok _ w t Ht) as (d & Hd & Hn).
  exists d. split; auto. rewrite Forall_forall in Hf. apply Hf. eapply nth_error_In; eauto.
Qed.

Lemma prologue_ok : forall w a,
  wf_traces w -> 0 <= trace_selected (a_sel a) < zlen w -> sel_nonneg (a_sel a) ->
  (show_flows (a_sel a) = true -> sel_flow (a_sel a) <> 0) ->
  exists d s', prologue w a = Ok (mk_app d s' (a_sett a) (a_view a)) /\
    wf_shape d /\ sel_inv d (zlen w) s' /\ (show_flows s' = true -> sel_flow s' <> 0).
Proof.
  intros w a Hw Ht Hnn Hsf.
  destruct (valid_traces_index w _ Hw Ht) as (d & Hd & Hwd).
  unfold prologue, snapshot_trace_data, tracer_config. rewrite Hd. cbn [bind].
  (* after clamp_selected_flow the selected flow exists *)
  set (a1 := clamp_selected_flow (with_data a d)).
  assert (data a1 = d /\ a_sett a1 = a_sett a /\ a_view a1 = a_view a /\
          trace_selected (a_sel a1) = trace_selected (a_sel a) /\
          has_flow d (sel_flow (a_sel a1)) /\ sel_nonneg (a_sel a1) /\
          (show_flows (a_sel a1) = true -> In (sel_flow (a_sel a1)) (sh_registry d))) as H1.
  { subst a1. unfold clamp_selected_flow, with_data, flows. cbn [a_sel data a_sett a_view].
    destruct Hwd as (H0 & Hreg & _).
    destruct (negb (sel_flow (a_sel a) =? 0)) eqn:E0; cbn [andb].
    - destruct (existsb (fun id => id =? sel_flow (a_sel a)) (sh_registry d)) eqn:Ex; cbn [negb].
      + apply existsb_eqb_In in Ex.
        cbn. repeat split; auto; try apply Hnn. apply Hreg; auto.
      + cbn. repeat split; auto; try apply Hnn; try lia. intros C; discriminate.
    - apply negb_false_iff, Z.eqb_eq in E0.
      cbn. repeat split; auto; try apply Hnn.
      + rewrite E0; auto.
      + intros S. exfalso. apply (Hsf S). auto. }
  destruct H1 as (Hd1 & Hst1 & Hv1 & Hts1 & Hf1 & Hnn1 & Hsh1).
  destruct (clamp_selected_hop_ok a1) as (s2 & Hc & Hts2 & Hfl2 & Hfc2 & Hsf2 & Hhop2).
  { rewrite Hd1; auto. }
  { auto. }
  rewrite Hc. cbn [bind].
  set (a2 := with_sel a1 s2).
  destruct (update_order_flow_counts_ok a2) as (fc & Hu & Hfc).
  { subst a2; unfold with_sel; cbn. rewrite Hd1; auto. }
  rewrite Hu.
  exists d, (set_flow_counts s2 fc).
  assert (data a2 = d) as Hd2 by (subst a2; unfold with_sel; cbn; exact Hd1).
  rewrite Hd2 in Hfc.
  subst a2. unfold with_sel. cbn [a_sel data a_sett a_view]. rewrite Hd1, Hst1, Hv1.
  split; [reflexivity|]. split; [auto|].
  rewrite Hd1 in Hhop2.
  assert (Hin : show_flows s2 = true -> In (sel_flow s2) (sh_registry d)).
  { intros S. rewrite Hfl2. apply Hsh1. congruence. }
  split.
  - unfold sel_inv, flows_ok, hop_ok in *. destruct s2; cbn in *. repeat split; try lia.
    + rewrite Hfl2; auto.
    + apply Hfc.
    + apply Hfc.
    + intros S. apply Hfc. auto.
    + exact Hhop2.
  - destruct s2; cbn in *. intros S.
    destruct Hwd as (_ & Hreg & _). apply Hreg. auto.
Qed.

(* ------------------------------------------------------------------ consequences of the invariant *)

Lemma valid_show_flows_nonzero : forall d nt s, wf_shape d -> sel_inv d nt s ->
  show_flows s = true -> sel_flow s <> 0.
Proof.
  intros d nt s (_ & Hreg & _) (_ & (_ & Hfc & Hsh) & _) S.
  apply Hreg. apply Hfc. auto.
Qed.

Lemma valid_with_view : forall w a v, valid w a -> valid w (with_view a v).
Proof. intros w a v H. exact H. Qed.

Lemma valid_hops : forall w a, valid w a -> exists hs, hops_for_flow (data a) (sel_flow (a_sel a)) = Ok hs /\ zlen hs <= 254.
Proof.
  intros w a (Hw & Hd & (Ht & (Hf & _) & Hh) & Hst).
  destruct (has_flow_hops _ _ Hf) as [hs Hhs]. exists hs. split; auto. eapply wf_hops_len; eauto.
Qed.

Lemma valid_selected_hop : forall w a, valid w a ->
  match table_sel (a_sel a) with
  | None => selected_hop a = Ok None
  | Some i => exists h, selected_hop a = Ok (Some h) /\ 0 <= hop_addr (a_sel a) < Z.max 1 (hs_addrs h)
  end.
Proof.
  intros w a (Hw & Hd & (Ht & Hfl & Hh) & Hst). unfold hop_ok in Hh. unfold selected_hop.
  destruct (table_sel (a_sel a)) as [i|] eqn:E; auto.
  destruct Hh as (hs & h & Hhs & Hi & Hn & Ha). exists h. rewrite Hhs. cbn [bind].
  destruct (zindex_ok _ hs i Hi) as (x & Hx & Hx'). rewrite Hx. cbn [bind]. split; [congruence|auto].
Qed.

Lemma draw_ok : forall w a, valid w a -> draw w a = Ok tt.
Proof.
  intros w a V. pose proof V as (Hw & Hd & (Ht & (Hf & _) & Hh) & (Htab & _)).
  unfold draw. destruct (valid_hops w a V) as (hs & Hhs & _). rewrite Hhs. cbn [bind].
  destruct (valid_traces_index w _ Hw Ht) as (d & Hdx & _). unfold tracer_config. rewrite Hdx. cbn [bind].
  assert ((if sh_error (data a) then Ok tt else let* _ := hops (data a) in Ok tt) = Ok tt) as E.
  { destruct (sh_error (data a)); auto. destruct Hd as (H0 & _).
    destruct (has_flow_hops _ _ H0) as [h0 Hh0]. unfold hops. rewrite Hh0. reflexivity. }
  rewrite E. cbn [bind].
  pose proof (valid_selected_hop w a V) as Hs.
  assert (selected_hop_or_target a = Ok tt) as E2.
  { unfold selected_hop_or_target. unfold hop_ok in Hh. destruct (table_sel (a_sel a)) as [i|].
    - destruct Hh as (hs' & h & Hhs' & Hi & _). rewrite Hhs'. cbn [bind].
      destruct (zindex_ok _ hs' i Hi) as (x & Hx & _). rewrite Hx. reflexivity.
    - unfold flow_lookup. destruct Hf as [x Hx]. rewrite Hx. reflexivity. }
  destruct (table_sel (a_sel a)) as [i|].
  - destruct Hs as (h & Hs & _). rewrite Hs. cbn [bind]. rewrite E2. cbn [bind].
    destruct (show_settings (a_view a)); auto. rewrite settings_tabs_index by assumption. reflexivity.
  - rewrite Hs. cbn [bind]. rewrite E2. cbn [bind].
    destruct (show_settings (a_view a)); auto. rewrite settings_tabs_index by assumption. reflexivity.
Qed.

(* the first frame establishes the invariant, every later frame keeps it *)
Lemma frame_ok : forall w a,
  wf_traces w -> 0 <= trace_selected (a_sel a) < zlen w -> sel_nonneg (a_sel a) ->
  (show_flows (a_sel a) = true -> sel_flow (a_sel a) <> 0) -> sett_inv (a_sett a) ->
  (frozen (a_view a) = true -> valid w a) ->
  exists a', frame w a = Ok a' /\ valid w a'.
Proof.
  intros w a Hw Ht Hnn Hsf Hst Hfz. unfold frame.
  destruct (frozen (a_view a)) eqn:F.
  - cbn [bind]. rewrite (draw_ok w a) by auto. cbn [bind]. eauto.
  - destruct (prologue_ok w a Hw Ht Hnn Hsf) as (d & s' & Hp & Hwd & Hsi & _).
    rewrite Hp. cbn [bind].
    assert (valid w (mk_app d s' (a_sett a) (a_view a))) as V.
    { unfold valid. cbn [data a_sel a_sett]. split; [exact Hw|]. split; [exact Hwd|]. split; [exact Hsi|exact Hst]. }
    rewrite (draw_ok _ _ V). cbn [bind]. eauto.
Qed.

Lemma frame_valid : forall w a, valid w a -> exists a', frame w a = Ok a' /\ valid w a'.
Proof.
  intros w a V. pose proof V as (Hw & Hd & (Ht & Hfl & Hh) & Hst).
  apply frame_ok.
  - exact Hw.
  - exact Ht.
  - eapply hop_ok_nonneg; eauto.
  - apply (valid_show_flows_nonzero (data a) (zlen w)); [exact Hd|]. split; [exact Ht|]. split; [exact Hfl|exact Hh].
  - exact Hst.
  - intros _. exact V.
Qed.

(* ------------------------------------------------------------------ selection commands *)

Ltac unpack V := pose proof V as (Hw & Hd & (Ht & (Hf & Hfc & Hsh) & Hh) & Hst).

Lemma valid_intro : forall w a s, valid w a -> 0 <= trace_selected s < zlen w ->
  flows_ok (data a) s -> hop_ok (data a) s -> valid w (with_sel a s).
Proof.
  intros w a s (Hw & Hd & _ & Hst) Ht Hfl Hh. unfold valid, with_sel. cbn [data a_sel a_sett].
  split; [exact Hw|]. split; [exact Hd|]. split; [|exact Hst]. split; [exact Ht|]. split; [exact Hfl|exact Hh].
Qed.

Lemma flows_ok_same : forall d s s', sel_flow s' = sel_flow s -> flow_counts s' = flow_counts s ->
  show_flows s' = show_flows s -> flows_ok d s -> flows_ok d s'.
Proof. intros d s s' E1 E2 E3 H. unfold flows_ok in *. rewrite E1, E2, E3. exact H. Qed.

Lemma hop_ok_set : forall d s i h hs x,
  hops_for_flow d (sel_flow s) = Ok hs -> 0 <= i < zlen hs -> nth_error hs (Z.to_nat i) = Some h ->
  0 <= x < Z.max 1 (hs_addrs h) -> hop_ok d (set_hop_addr (set_table_sel s (Some i)) x).
Proof.
  intros d s i h hs x Hhs Hi Hn Hx. destruct s. unfold hop_ok. cbn in *.
  exists hs, h. split; [exact Hhs|]. split; [exact Hi|]. split; [exact Hn|exact Hx].
Qed.

Lemma valid_set_hop : forall w a i h hs x,
  valid w a -> hops_for_flow (data a) (sel_flow (a_sel a)) = Ok hs -> 0 <= i < zlen hs ->
  nth_error hs (Z.to_nat i) = Some h -> 0 <= x < Z.max 1 (hs_addrs h) ->
  valid w (with_sel a (set_hop_addr (set_table_sel (a_sel a) (Some i)) x)).
Proof.
  intros w a i h hs x V Hhs Hi Hn Hx. unpack V. apply valid_intro; [exact V| | |].
  - destruct (a_sel a); exact Ht.
  - eapply flows_ok_same; [| | |split; [exact Hf|split; [exact Hfc|exact Hsh]]]; destruct (a_sel a); reflexivity.
  - eapply hop_ok_set; eauto.
Qed.

Lemma valid_clear : forall w a, valid w a -> valid w (clear a).
Proof.
  intros w a V. unpack V. unfold clear. apply valid_intro; [exact V| | |].
  - destruct (a_sel a); exact Ht.
  - eapply flows_ok_same; [| | |split; [exact Hf|split; [exact Hfc|exact Hsh]]]; destruct (a_sel a); reflexivity.
  - destruct (a_sel a); unfold hop_ok; reflexivity.
Qed.

Lemma next_hop_ok : forall w a, valid w a -> exists a', next_hop a = Ok a' /\ valid w a'.
Proof.
  intros w a V. unpack V. destruct (valid_hops w a V) as (hs & Hhs & _).
  unfold next_hop. rewrite Hhs. cbn [bind].
  destruct (zlen hs =? 0) eqn:E0; [eauto|]. apply Z.eqb_neq in E0. pose proof (zlen_nonneg _ hs).
  eexists. split; [reflexivity|].
  unfold hop_ok in Hh. destruct (table_sel (a_sel a)) as [i|] eqn:Es.
  - destruct Hh as (hs' & h & Hhs' & Hi & Hn & Ha). rewrite Hhs in Hhs'. inversion Hhs'; subst hs'.
    destruct (i <? Z.max 0 (Z.max 0 (zlen hs - 1))) eqn:El.
    + assert (0 <= i + 1 < zlen hs) as Hi' by lia.
      destruct (zindex_ok _ hs _ Hi') as (h' & _ & Hn').
      eapply valid_set_hop; eauto. lia.
    + eapply valid_set_hop; eauto. lia.
  - assert (0 <= 0 < zlen hs) as Hi' by lia.
    destruct (zindex_ok _ hs _ Hi') as (h' & _ & Hn').
    eapply valid_set_hop; eauto. lia.
Qed.

Lemma previous_hop_ok : forall w a, valid w a -> exists a', previous_hop a = Ok a' /\ valid w a'.
Proof.
  intros w a V. unpack V. destruct (valid_hops w a V) as (hs & Hhs & _).
  unfold previous_hop. rewrite Hhs. cbn [bind].
  destruct (zlen hs =? 0) eqn:E0; [eauto|]. apply Z.eqb_neq in E0. pose proof (zlen_nonneg _ hs).
  eexists. split; [reflexivity|].
  unfold hop_ok in Hh. destruct (table_sel (a_sel a)) as [i|] eqn:Es.
  - destruct Hh as (hs' & h & Hhs' & Hi & Hn & Ha). rewrite Hhs in Hhs'. inversion Hhs'; subst hs'.
    destruct (i >? 0) eqn:El.
    + assert (0 <= i - 1 < zlen hs) as Hi' by lia.
      destruct (zindex_ok _ hs _ Hi') as (h' & _ & Hn').
      eapply valid_set_hop; eauto. lia.
    + eapply valid_set_hop; eauto. lia.
  - assert (0 <= Z.max 0 (Z.max 0 (zlen hs - 1)) < zlen hs) as Hi' by lia.
    destruct (zindex_ok _ hs _ Hi') as (h' & _ & Hn').
    eapply valid_set_hop; eauto. lia.
Qed.

Lemma valid_set_trace : forall w a t, valid w a -> 0 <= t < zlen w ->
  valid w (clear (with_sel a (set_trace_selected (a_sel a) t))).
Proof.
  intros w a t V Htt. unpack V. unfold clear, with_sel. cbn [a_sel data a_sett a_view].
  apply (valid_intro w a); [exact V| | |].
  - destruct (a_sel a); exact Htt.
  - eapply flows_ok_same; [| | |split; [exact Hf|split; [exact Hfc|exact Hsh]]]; destruct (a_sel a); reflexivity.
  - destruct (a_sel a); unfold hop_ok; reflexivity.
Qed.

Lemma next_trace_ok : forall w a, valid w a -> exists a', next_trace w a = Ok a' /\ valid w a'.
Proof.
  intros w a V. unpack V. unfold next_trace.
  destruct (1 <? zlen w) eqn:E1; [|eauto].
  rewrite sub_w_ok by lia. cbn [bind].
  destruct (trace_selected (a_sel a) <? zlen w - 1) eqn:E2; [|eauto].
  eexists. split; [reflexivity|]. apply valid_set_trace; auto. lia.
Qed.

Lemma previous_trace_ok : forall w a, valid w a -> exists a', previous_trace w a = Ok a' /\ valid w a'.
Proof.
  intros w a V. unpack V. unfold previous_trace.
  destruct ((1 <? zlen w) && (trace_selected (a_sel a) >? 0)) eqn:E1; [|eauto].
  apply andb_true_iff in E1. destruct E1 as [E1 E2].
  rewrite sub_w_ok by lia. cbn [bind].
  eexists. split; [reflexivity|]. apply valid_set_trace; auto. lia.
Qed.

Lemma set_table_sel_same : forall s i x, table_sel s = Some i ->
  set_hop_addr (set_table_sel s (Some i)) x = set_hop_addr s x.
Proof. intros s i x H. destruct s; simpl in *; subst; reflexivity. Qed.

Lemma valid_set_addr : forall w a x, valid w a ->
  (forall i h, table_sel (a_sel a) = Some i -> selected_hop a = Ok (Some h) -> 0 <= x < Z.max 1 (hs_addrs h)) ->
  table_sel (a_sel a) <> None ->
  valid w (with_sel a (set_hop_addr (a_sel a) x)).
Proof.
  intros w a x V Hx Hne. unpack V. pose proof (valid_selected_hop w a V) as Hs.
  unfold hop_ok in Hh. destruct (table_sel (a_sel a)) as [i|] eqn:Es; [|congruence].
  destruct Hs as (h0 & Hs0 & _).
  destruct Hh as (hs & h & Hhs & Hi & Hn & Ha).
  assert (h0 = h).
  { unfold selected_hop in Hs0. rewrite Es, Hhs in Hs0. cbn [bind] in Hs0.
    destruct (zindex_ok _ hs i Hi) as (y & Hy & Hy'). rewrite Hy in Hs0. cbn [bind] in Hs0. congruence. }
  subst h0. specialize (Hx i h eq_refl Hs0).
  rewrite <- (set_table_sel_same (a_sel a) i x Es).
  eapply valid_set_hop; eauto.
Qed.

Lemma next_hop_address_ok : forall w a, valid w a -> exists a', next_hop_address a = Ok a' /\ valid w a'.
Proof.
  intros w a V. pose proof (valid_selected_hop w a V) as Hs. unfold next_hop_address.
  destruct (table_sel (a_sel a)) as [i|] eqn:Es.
  - destruct Hs as (h & Hs & Ha). rewrite Hs. cbn [bind].
    destruct (hop_addr (a_sel a) + 1 <? hs_addrs h) eqn:E; [|eauto].
    eexists. split; [reflexivity|]. apply valid_set_addr; auto; [|congruence].
    intros i' h' _ Hs'. rewrite Hs in Hs'. inversion Hs'; subst. lia.
  - rewrite Hs. cbn [bind]. eauto.
Qed.

Lemma previous_hop_address_ok : forall w a, valid w a -> exists a', previous_hop_address a = Ok a' /\ valid w a'.
Proof.
  intros w a V. pose proof (valid_selected_hop w a V) as Hs. unfold previous_hop_address.
  destruct (table_sel (a_sel a)) as [i|] eqn:Es.
  - destruct Hs as (h & Hs & Ha). rewrite Hs. cbn [bind].
    destruct (hop_addr (a_sel a) >? 0) eqn:E; [|eauto].
    rewrite sub_w_ok by lia. cbn [bind].
    eexists. split; [reflexivity|]. apply valid_set_addr; auto; [|congruence].
    intros i' h' _ Hs'. rewrite Hs in Hs'. inversion Hs'; subst. lia.
  - rewrite Hs. cbn [bind]. eauto.
Qed.

(* switching to a flow that exists in the data and in flow_counts (or to flow 0 with the flows hidden) *)
Lemma switch_flow_ok : forall w a f sf x,
  valid w a -> has_flow (data a) f -> 0 <= x ->
  (sf = true -> In f (map fst (flow_counts (a_sel a)))) ->
  exists a', clamp_selected_hop (with_sel a (set_hop_addr (set_show_flows (set_sel_flow (a_sel a) f) sf) x)) = Ok a' /\ valid w a'.
Proof.
  intros w a f sf x V Hf' Hx Hin. unpack V.
  set (s1 := set_hop_addr (set_show_flows (set_sel_flow (a_sel a) f) sf) x).
  pose proof (hop_ok_nonneg _ _ Hh) as [Hn1 Hn2].
  assert (E : trace_selected s1 = trace_selected (a_sel a) /\ sel_flow s1 = f /\ flow_counts s1 = flow_counts (a_sel a) /\
              show_flows s1 = sf /\ hop_addr s1 = x /\ table_sel s1 = table_sel (a_sel a)).
  { subst s1. destruct (a_sel a). cbn. repeat split. }
  destruct E as (E1 & E2 & E3 & E4 & E5 & E6).
  destruct (clamp_selected_hop_ok (with_sel a s1)) as (s' & Hc & Hts & Hfl & Hfc' & Hsf' & Hhop).
  { unfold with_sel. cbn [data a_sel]. rewrite E2. exact Hf'. }
  { unfold with_sel. cbn [a_sel]. split; [lia|]. rewrite E6. exact Hn2. }
  rewrite Hc. eexists. split; [reflexivity|].
  unfold with_sel in *. cbn [data a_sel a_sett a_view] in *.
  apply (valid_intro w a); [exact V| | |].
  - rewrite Hts, E1. exact Ht.
  - unfold flows_ok. rewrite Hfl, Hfc', Hsf', E2, E3, E4. split; [exact Hf'|]. split; [exact Hfc|exact Hin].
  - exact Hhop.
Qed.

Lemma in_map_fst_nth : forall (l : list (Z * Z)) i e, nth_error l i = Some e -> In (fst e) (map fst l).
Proof. intros l i e H. apply in_map. eapply nth_error_In; eauto. Qed.

Lemma valid_fc_has_flow : forall w a id, valid w a -> In id (map fst (flow_counts (a_sel a))) -> has_flow (data a) id.
Proof. intros w a id V Hin. unpack V. destruct Hd as (_ & Hreg & _). apply Hreg. apply Hfc. auto. Qed.

Lemma with_sel_same_addr : forall a f,
  with_sel a (set_sel_flow (a_sel a) f) =
  with_sel a (set_hop_addr (set_show_flows (set_sel_flow (a_sel a) f) (show_flows (a_sel a))) (hop_addr (a_sel a))).
Proof. intros a f. destruct a as [d s st v]; destruct s; reflexivity. Qed.

Lemma next_flow_ok : forall w a, valid w a -> exists a', next_flow a = Ok a' /\ valid w a'.
Proof.
  intros w a V. unpack V. unfold next_flow.
  destruct (show_flows (a_sel a)) eqn:S; [|eauto].
  destruct (find_position_ok (flow_counts (a_sel a)) (sel_flow (a_sel a)) 0 (Hsh eq_refl)) as (c & Hc & Hr).
  rewrite Hc. cbn [bind]. rewrite sub_w_ok by lia. cbn [bind].
  destruct (c <? zlen (flow_counts (a_sel a)) - 1) eqn:E; [|eauto].
  assert (0 <= c + 1 < zlen (flow_counts (a_sel a))) as Hi by lia.
  destruct (zindex_ok _ _ _ Hi) as (e & He & Hn). rewrite He. cbn [bind].
  rewrite with_sel_same_addr.
  pose proof (hop_ok_nonneg _ _ Hh) as [Hn1 _].
  apply switch_flow_ok; auto.
  - eapply valid_fc_has_flow; eauto. eapply in_map_fst_nth; eauto.
  - intros _. eapply in_map_fst_nth; eauto.
Qed.

Lemma previous_flow_ok : forall w a, valid w a -> exists a', previous_flow a = Ok a' /\ valid w a'.
Proof.
  intros w a V. unpack V. unfold previous_flow.
  destruct (show_flows (a_sel a)) eqn:S; [|eauto].
  destruct (find_position_ok (flow_counts (a_sel a)) (sel_flow (a_sel a)) 0 (Hsh eq_refl)) as (c & Hc & Hr).
  rewrite Hc. cbn [bind].
  destruct (c >? 0) eqn:E; [|eauto].
  rewrite sub_w_ok by lia. cbn [bind].
  assert (0 <= c - 1 < zlen (flow_counts (a_sel a))) as Hi by lia.
  destruct (zindex_ok _ _ _ Hi) as (e & He & Hn). rewrite He. cbn [bind].
  rewrite with_sel_same_addr.
  pose proof (hop_ok_nonneg _ _ Hh) as [Hn1 _].
  apply switch_flow_ok; auto.
  - eapply valid_fc_has_flow; eauto. eapply in_map_fst_nth; eauto.
  - intros _. eapply in_map_fst_nth; eauto.
Qed.

Lemma toggle_flows_ok : forall w a, valid w a -> exists a', toggle_flows w a = Ok a' /\ valid w a'.
Proof.
  intros w a V. unpack V. unfold toggle_flows.
  destruct ((zlen w =? 1) && (1 <? max_flows (data a))); [|eauto].
  destruct (show_flows (a_sel a)) eqn:S.
  - destruct Hd as (H0 & _). apply switch_flow_ok; [exact V|exact H0|lia|intros C; discriminate C].
  - destruct (flow_count a >? 0) eqn:E; [|eauto].
    assert (In 1 (sh_registry (data a))) as H1.
    { destruct Hd as (_ & _ & _ & H1 & _). apply H1. unfold flow_count, flows, zlen in E.
      destruct (sh_registry (data a)); [simpl in E; lia|congruence]. }
    apply switch_flow_ok; [exact V| |lia|].
    + destruct Hd as (_ & Hreg & _). apply Hreg; auto.
    + intros _. apply Hfc. auto.
Qed.

(* ------------------------------------------------------------------ settings dialog *)

Lemma valid_with_sett : forall w a st, valid w a -> sett_inv st -> valid w (with_sett a st).
Proof.
  intros w a st (Hw & Hd & Hs & _) H. unfold valid, with_sett. cbn [data a_sel a_sett].
  split; [exact Hw|]. split; [exact Hd|]. split; [exact Hs|exact H].
Qed.

Lemma get_settings_items_count_ok : forall a, sett_inv (a_sett a) ->
  get_settings_items_count a = Ok (item_count (settings_tab (a_sett a)) (columns (a_sett a))).
Proof.
  intros a (Ht & _). unfold get_settings_items_count, item_count.
  destruct (settings_tab (a_sett a) =? SETTINGS_TAB_COLUMNS); auto. apply settings_tabs_index; auto.
Qed.

Lemma sett_tab_zero : forall st tab, sett_inv st -> 0 <= tab < 7 ->
  sett_inv (set_setting_sel (set_settings_tab st tab) (Some 0)).
Proof.
  intros st tab (Ht & Hc & Hs) Htab. destruct st; unfold sett_inv; cbn in *.
  split; [lia|]. split; [lia|]. split; [lia|]. apply item_count_pos; auto.
Qed.

Lemma sett_same_tab_zero : forall st, sett_inv st -> sett_inv (set_setting_sel st (Some 0)).
Proof.
  intros st (Ht & Hc & Hs). destruct st; unfold sett_inv; cbn in *.
  split; [lia|]. split; [lia|]. split; [lia|]. apply item_count_pos; auto.
Qed.

Lemma next_settings_tab_ok : forall w a, valid w a -> exists a', next_settings_tab a = Ok a' /\ valid w a'.
Proof.
  intros w a V. unpack V. pose proof Hst as (Htab & _). unfold next_settings_tab.
  change (zlen settings_tabs) with 7. rewrite sub_w_ok by lia. cbn [bind].
  eexists. split; [reflexivity|]. apply valid_with_sett; auto.
  destruct (settings_tab (a_sett a) <? 7 - 1) eqn:E.
  - replace (set_setting_sel (set_settings_tab (a_sett a) (settings_tab (a_sett a) + 1)) (Some 0))
      with (set_setting_sel (set_settings_tab (a_sett a) (settings_tab (a_sett a) + 1)) (Some 0)) by reflexivity.
    apply sett_tab_zero; auto. lia.
  - apply sett_same_tab_zero; auto.
Qed.

Lemma previous_settings_tab_ok : forall w a, valid w a -> exists a', previous_settings_tab a = Ok a' /\ valid w a'.
Proof.
  intros w a V. unpack V. pose proof Hst as (Htab & _). unfold previous_settings_tab.
  destruct (settings_tab (a_sett a) >? 0) eqn:E.
  - rewrite sub_w_ok by lia. cbn [bind]. eexists. split; [reflexivity|].
    apply valid_with_sett; auto. apply sett_tab_zero; auto. lia.
  - cbn [bind]. eexists. split; [reflexivity|].
    apply valid_with_sett; auto. apply sett_same_tab_zero; auto.
Qed.

Lemma sett_set_sel : forall st i, sett_inv st -> 0 <= i < item_count (settings_tab st) (columns st) ->
  sett_inv (set_setting_sel st (Some i)).
Proof.
  intros st i (Ht & Hc & Hs) Hi. destruct st; unfold sett_inv; cbn in *.
  split; [lia|]. split; [lia|]. exact Hi.
Qed.

Lemma next_settings_item_ok : forall w a, valid w a -> exists a', next_settings_item a = Ok a' /\ valid w a'.
Proof.
  intros w a V. unpack V. pose proof Hst as (Htab & Hc & Hsel). unfold next_settings_item.
  rewrite get_settings_items_count_ok by auto. cbn [bind].
  eexists. split; [reflexivity|]. apply valid_with_sett; auto. apply sett_set_sel; auto.
  pose proof (item_count_pos _ _ Htab Hc).
  destruct (setting_sel (a_sett a)) as [i|]; [|lia].
  destruct (i <? Z.max 0 (Z.max 0 (item_count (settings_tab (a_sett a)) (columns (a_sett a)) - 1))) eqn:E; lia.
Qed.

Lemma previous_settings_item_ok : forall w a, valid w a -> exists a', previous_settings_item a = Ok a' /\ valid w a'.
Proof.
  intros w a V. unpack V. pose proof Hst as (Htab & Hc & Hsel). unfold previous_settings_item.
  rewrite get_settings_items_count_ok by auto. cbn [bind].
  eexists. split; [reflexivity|]. apply valid_with_sett; auto. apply sett_set_sel; auto.
  pose proof (item_count_pos _ _ Htab Hc).
  destruct (setting_sel (a_sett a)) as [i|]; [|lia].
  destruct (i >? 0) eqn:E; lia.
Qed.

Lemma firstn_skipn_len : forall A (l : list A) i (x : A), (i < length l)%nat ->
  length (firstn i l ++ x :: skipn (S i) l) = length l.
Proof.
  intros A l i x H. rewrite app_length, firstn_length_le by lia. cbn [length]. rewrite skipn_length. lia.
Qed.

Lemma columns_toggle_ok : forall cols i, 0 <= i < zlen cols ->
  exists c, columns_toggle cols i = Ok c /\ zlen c = zlen cols.
Proof.
  intros cols i Hi. unfold columns_toggle. destruct (zindex_ok _ cols i Hi) as (x & Hx & _).
  rewrite Hx. cbn [bind]. eexists. split; [reflexivity|].
  unfold zlen in *. rewrite firstn_skipn_len; auto. lia.
Qed.

Lemma vec_remove_ok : forall A (l : list A) i, 0 <= i < zlen l ->
  exists x l', vec_remove i l = Ok (x, l') /\ zlen l' = zlen l - 1.
Proof.
  intros A l i Hi. unfold vec_remove. destruct (zindex_ok _ l i Hi) as (x & Hx & _).
  rewrite Hx. cbn [bind]. eexists _, _. split; [reflexivity|].
  unfold zlen in *. rewrite app_length, firstn_length_le, skipn_length by lia. lia.
Qed.

Lemma vec_insert_ok : forall A (l : list A) i (x : A), 0 <= i <= zlen l ->
  exists l', vec_insert i x l = Ok l' /\ zlen l' = zlen l + 1.
Proof.
  intros A l i x Hi. unfold vec_insert.
  destruct ((0 <=? i) && (i <=? zlen l)) eqn:E.
  - eexists. split; [reflexivity|]. unfold zlen in *.
    rewrite app_length, firstn_length_le by lia. cbn [length]. rewrite skipn_length. lia.
  - apply andb_false_iff in E. destruct E as [E|E]; lia.
Qed.

Lemma sett_set_cols : forall st c sel, sett_inv st -> zlen c = zlen (columns st) ->
  match sel with None => True | Some i => 0 <= i < item_count (settings_tab st) c end ->
  sett_inv (set_setting_sel (set_columns st c) sel).
Proof.
  intros st c sel (Ht & Hc & Hs) Hl Hsel. destruct st; unfold sett_inv; cbn in *.
  split; [lia|]. split; [lia|]. exact Hsel.
Qed.

Lemma set_columns_keep_sel : forall st c, set_columns st c = set_setting_sel (set_columns st c) (setting_sel st).
Proof. destruct st; reflexivity. Qed.

Lemma toggle_column_visibility_ok : forall w a, valid w a -> exists a', toggle_column_visibility a = Ok a' /\ valid w a'.
Proof.
  intros w a V. unpack V. pose proof Hst as (Htab & Hc & Hsel). unfold toggle_column_visibility.
  destruct (settings_tab (a_sett a) =? SETTINGS_TAB_COLUMNS) eqn:E; [|eauto].
  destruct (setting_sel (a_sett a)) as [i|] eqn:Es; [|eauto].
  unfold item_count in Hsel. rewrite E in Hsel.
  destruct (columns_toggle_ok _ _ Hsel) as (c & Hcc & Hl). rewrite Hcc. cbn [bind].
  eexists. split; [reflexivity|]. apply valid_with_sett; auto.
  rewrite set_columns_keep_sel. apply sett_set_cols; auto. rewrite Es.
  unfold item_count. rewrite E. lia.
Qed.

Lemma move_column_down_ok : forall w a, valid w a -> exists a', move_column_down a = Ok a' /\ valid w a'.
Proof.
  intros w a V. unpack V. pose proof Hst as (Htab & Hc & Hsel). unfold move_column_down.
  destruct (settings_tab (a_sett a) =? SETTINGS_TAB_COLUMNS) eqn:E; [|eauto].
  destruct (setting_sel (a_sett a)) as [i|] eqn:Es; [|eauto].
  unfold item_count in Hsel. rewrite E in Hsel.
  rewrite sub_w_ok by lia. cbn [bind].
  destruct (i <? zlen (columns (a_sett a)) - 1) eqn:El; [|eauto].
  unfold columns_move_down.
  destruct (i <? zlen (columns (a_sett a))) eqn:El2; [|lia].
  destruct (vec_remove_ok _ (columns (a_sett a)) i Hsel) as (x & l' & Hr & Hl'). rewrite Hr. cbn [bind fst snd].
  destruct (vec_insert_ok _ l' (i + 1) x) as (l'' & Hi' & Hl''); [lia|]. rewrite Hi'. cbn [bind].
  eexists. split; [reflexivity|]. apply valid_with_sett; auto.
  apply sett_set_cols; auto; [lia|]. unfold item_count. rewrite E. lia.
Qed.

Lemma move_column_up_ok : forall w a, valid w a -> exists a', move_column_up a = Ok a' /\ valid w a'.
Proof.
  intros w a V. unpack V. pose proof Hst as (Htab & Hc & Hsel). unfold move_column_up.
  destruct (settings_tab (a_sett a) =? SETTINGS_TAB_COLUMNS) eqn:E; [|eauto].
  destruct (setting_sel (a_sett a)) as [i|] eqn:Es; [|eauto].
  unfold item_count in Hsel. rewrite E in Hsel.
  destruct (i >? 0) eqn:El; [|eauto].
  unfold columns_move_up. rewrite El.
  destruct (vec_remove_ok _ (columns (a_sett a)) i Hsel) as (x & l' & Hr & Hl'). rewrite Hr. cbn [bind fst snd].
  rewrite sub_w_ok by lia. cbn [bind].
  destruct (vec_insert_ok _ l' (i - 1) x) as (l'' & Hi' & Hl''); [lia|]. rewrite Hi'. cbn [bind].
  eexists. split; [reflexivity|]. apply valid_with_sett; auto.
  apply sett_set_cols; auto; [lia|]. unfold item_count. rewrite E. lia.
Qed.

Lemma show_settings_columns_ok : forall w a i, valid w a -> 0 <= i < 7 -> valid w (show_settings_columns i a).
Proof.
  intros w a i V Hi. unpack V. unfold show_settings_columns.
  cbn [with_view a_sett]. destruct (negb (settings_tab (a_sett a) =? i)).
  - apply (valid_with_sett w (with_view a (set_show_settings (a_view a) true))); auto.
    apply sett_tab_zero; auto.
  - apply valid_with_view; auto.
Qed.

(* ------------------------------------------------------------------ the rest *)

Lemma expand_privacy_ok : forall w a, valid w a -> exists a', expand_privacy a = Ok a' /\ valid w a'.
Proof.
  intros w a V. destruct (valid_hops w a V) as (hs & Hhs & Hl). unfold expand_privacy.
  rewrite Hhs. cbn [bind]. unfold expand_privacy_step.
  destruct (privacy (a_view a)) as [p|].
  - destruct (p <? zlen hs) eqn:E.
    + unfold add8, add_w. destruct (p + 1 <? 256) eqn:E2; [|lia]. cbn [bind]. eauto using valid_with_view.
    + cbn [bind]. eauto using valid_with_view.
  - cbn [bind]. eauto using valid_with_view.
Qed.

Lemma max_hosts_ok : forall w a, valid w a -> exists m, max_hosts a = Ok m /\ match m with Some x => 0 < x <= 255 | None => True end.
Proof.
  intros w a V. destruct (valid_hops w a V) as (hs & Hhs & _). unfold max_hosts. rewrite Hhs. cbn [bind].
  destruct hs as [|h0 t].
  - exists None. split; [reflexivity|exact I].
  - destruct (fold_right (fun h acc => Z.max (hs_addrs h) acc) 0 (h0 :: t) <=? 255) eqn:E;
      destruct (0 <? fold_right (fun h acc => Z.max (hs_addrs h) acc) 0 (h0 :: t)) eqn:E0; cbn [andb].
    + eexists. split; [reflexivity|]. apply Z.leb_le in E. apply Z.ltb_lt in E0. split; assumption.
    + exists None. split; [reflexivity|exact I].
    + exists None. split; [reflexivity|exact I].
    + exists None. split; [reflexivity|exact I].
Qed.

Lemma expand_hosts_ok : forall w a, valid w a -> exists a', expand_hosts a = Ok a' /\ valid w a'.
Proof.
  intros w a V. unfold expand_hosts.
  destruct (max_addrs (a_view a)) as [i|].
  - destruct (max_hosts_ok w a V) as (m & Hm & Hb). rewrite Hm. cbn [bind].
    destruct (opt_lt (Some i) m) eqn:E.
    + unfold opt_lt, opt_gt in E. destruct m as [x|]; [|discriminate].
      unfold add8, add_w. destruct (i + 1 <? 256) eqn:E2; [|lia]. cbn [bind]. eauto using valid_with_view.
    + cbn [bind]. eauto using valid_with_view.
  - cbn [bind]. eauto using valid_with_view.
Qed.

Lemma expand_hosts_max_ok : forall w a, valid w a -> exists a', expand_hosts_max a = Ok a' /\ valid w a'.
Proof.
  intros w a V. unfold expand_hosts_max. destruct (max_hosts_ok w a V) as (m & Hm & _).
  rewrite Hm. cbn [bind]. eauto using valid_with_view.
Qed.

Lemma valid_world : forall w w' a, valid w a -> wf_traces w' -> zlen w' = zlen w -> valid w' a.
Proof.
  intros w w' a (Hw & Hd & (Ht & Hs) & Hst) Hw' Hl. unfold valid.
  split; [exact Hw'|]. split; [exact Hd|]. split; [|exact Hst]. split; [lia|exact Hs].
Qed.

Lemma upd_nth_wf : forall w i s, wf_traces w -> wf_shape s -> wf_traces (upd_nth i s w) /\ zlen (upd_nth i s w) = zlen w.
Proof.
  intros w i s [Hf Hl] Hs. unfold wf_traces, zlen in *. rewrite upd_nth_length. repeat split; auto.
  apply upd_nth_Forall; auto.
Qed.

Lemma clear_trace_data_ok : forall w a, valid w a -> exists w', clear_trace_data w a = Ok w' /\ valid w' a.
Proof.
  intros w a V. unpack V. unfold clear_trace_data, tracer_config.
  destruct (valid_traces_index w _ Hw Ht) as (d & Hdx & Hwd). rewrite Hdx. cbn [bind].
  eexists. split; [reflexivity|].
  destruct (upd_nth_wf w (Z.to_nat (trace_selected (a_sel a))) (clear_shape d) Hw (clear_shape_wf _ Hwd)) as [H1 H2].
  eapply valid_world; eauto.
Qed.

(* ------------------------------------------------------------------ methods, keys, histories *)

Definition method_wf (m : method) : Prop :=
  match m with MShowSettingsColumns i => 0 <= i < 7 | _ => True end.

Lemma exec_method_ok : forall m w a, valid w a -> method_wf m ->
  exists w' a', exec_method m w a = Ok (w', a') /\ valid w' a'.
Proof.
  intros m w a V Hm.
  assert (forall r, (exists a', r = Ok a' /\ valid w a') ->
          exists w' a', (let* a' := r in Ok (w, a')) = Ok (w', a') /\ valid w' a') as K.
  { intros r (a' & Hr & Hv). subst r. cbn [bind]. eauto. }
  destruct m; cbn [exec_method]; try (apply K);
    eauto using next_hop_ok, previous_hop_ok, next_trace_ok, previous_trace_ok, next_hop_address_ok,
      previous_hop_address_ok, next_flow_ok, previous_flow_ok, next_settings_tab_ok, previous_settings_tab_ok,
      next_settings_item_ok, previous_settings_item_ok, toggle_column_visibility_ok, move_column_down_ok,
      move_column_up_ok, toggle_flows_ok, expand_privacy_ok, expand_hosts_ok, expand_hosts_max_ok,
      valid_clear, valid_with_view, show_settings_columns_ok.
  - (* toggle_asinfo *) unfold toggle_asinfo. destruct (resolver_system (a_view a)); eauto using valid_with_view.
  - (* zoom_in *) unfold zoom_in. destruct (zoom (a_view a) <? MAX_ZOOM_FACTOR); eauto using valid_with_view.
  - (* zoom_out *) unfold zoom_out. destruct (zoom (a_view a) >? 1); eauto using valid_with_view.
  - (* clear_trace_data *) destruct (clear_trace_data_ok w a V) as (w' & Hc & Hv). rewrite Hc. cbn [bind]. eauto.
Qed.

Definition key_wf (k : key) : Prop :=
  match k with KToggleSettingsTab i => 0 <= i < 7 | _ => True end.

Lemma dispatch_wf : forall k a, key_wf k -> Forall method_wf (dispatch k a).
Proof.
  intros k a Hk. unfold dispatch.
  destruct (show_help (a_view a)); [|destruct (show_settings (a_view a))];
    destruct k; cbn in *; try destruct (show_flows (a_sel a)); repeat constructor; try exact I; auto; lia.
Qed.

Lemma exec_methods_ok : forall ms w a, valid w a -> Forall method_wf ms ->
  exists w' a', exec_methods ms w a = Ok (w', a') /\ valid w' a'.
Proof.
  induction ms as [|m t IH]; intros w a V Hm; cbn [exec_methods]; [eauto|].
  inversion Hm as [|? ? Hm1 Hm2]; subst.
  destruct (exec_method_ok m w a V) as (w1 & a1 & E1 & V1); auto.
  rewrite E1. cbn [bind fst snd]. apply IH; auto.
Qed.

Definition op_wf (o : op) : Prop :=
  match o with
  | OData _ s => wf_shape s
  | OMethod m => method_wf m
  | OKey k => key_wf k
  | OFrame => True
  end.

Lemma step_ok : forall o w a, valid w a -> op_wf o ->
  exists w' a', step o w a = Ok (w', a') /\ valid w' a'.
Proof.
  intros o w a V Ho. destruct o; cbn [step].
  - (* data change: the snapshot the app displays is not affected *)
    eexists _, _. split; [reflexivity|].
    destruct ((0 <=? t) && (t <? zlen w)); auto.
    destruct (upd_nth_wf w (Z.to_nat t) s) as [H1 H2]; [apply V|exact Ho|].
    eapply valid_world; eauto.
  - apply exec_method_ok; auto.
  - unfold handle_key. apply exec_methods_ok; auto. apply dispatch_wf; auto.
  - destruct (frame_valid w a V) as (a' & Hf & Hv). rewrite Hf. cbn [bind]. eauto.
Qed.

Lemma run_ok : forall ops w a, valid w a -> Forall op_wf ops ->
  exists w' a', run ops w a = Ok (w', a') /\ valid w' a'.
Proof.
  induction ops as [|o t IH]; intros w a V Ho; cbn [run]; [eauto|].
  inversion Ho as [|? ? Ho1 Ho2]; subst.
  destruct (step_ok o w a V) as (w1 & a1 & E1 & V1); auto.
  rewrite E1. cbn [bind fst snd]. apply IH; auto.
Qed.

(* every intermediate state of a history is valid and no step is a fault *)
Lemma run_trace_ok : forall ops w a, valid w a -> Forall op_wf ops ->
  Forall (fun r => exists a', r = Ok a' /\ exists w', valid w' a') (run_trace ops w a) /\
  length (run_trace ops w a) = length ops.
Proof.
  induction ops as [|o t IH]; intros w a V Ho; cbn [run_trace]; [split; auto|].
  inversion Ho as [|? ? Ho1 Ho2]; subst.
  destruct (step_ok o w a V) as (w1 & a1 & E1 & V1); auto.
  rewrite E1. cbn [fst snd]. destruct (IH w1 a1 V1) as [IH1 IH2]; auto.
  split; [constructor; eauto|simpl; congruence].
Qed.

(* TuiApp::new followed by the first frame *)
Lemma first_frame_ok : forall w cols p m mode asinfo sys,
  wf_traces w -> 0 < zlen cols ->
  exists a', frame w (tui_new cols p m mode asinfo sys) = Ok a' /\ valid w a'.
Proof.
  intros w cols p m mode asinfo sys Hw Hc. apply frame_ok.
  - exact Hw.
  - cbn. destruct Hw; lia.
  - cbn. unfold sel_nonneg; cbn. split; [lia|exact I].
  - cbn. intros C; discriminate C.
  - unfold sett_inv; cbn. split; [lia|]. split; [exact Hc|exact I].
  - cbn. intros C; discriminate C.
Qed.
