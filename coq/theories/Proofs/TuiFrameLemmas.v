(* C17 / C18: what each TuiApp command, key and frame leaves untouched (frame lemmas over Tui/App.v).
   No validity assumption: these hold whenever the step returns at all. *)
From Coq Require Import ZifyBool.
From TV Require Import Base.Result Tui.Privacy Tui.App Proofs.TuiAppProofs.
Import TuiPrivacy TuiApp.


(* destruct every match / if / bind in hypothesis H, dropping the faulting branches *)
Ltac split_matches H :=
  repeat match type of H with
  | context [match ?x with _ => _ end] => destruct x eqn:?; cbn [bind] in H; try discriminate H
  | context [if ?x then _ else _] => destruct x eqn:?; cbn [bind] in H; try discriminate H
  end.

Lemma clamp_selected_hop_frame : forall a a', clamp_selected_hop a = Ok a' ->
  data a' = data a /\ a_sett a' = a_sett a /\ a_view a' = a_view a /\
  trace_selected (a_sel a') = trace_selected (a_sel a) /\ sel_flow (a_sel a') = sel_flow (a_sel a) /\
  flow_counts (a_sel a') = flow_counts (a_sel a) /\ show_flows (a_sel a') = show_flows (a_sel a).
Proof.
  intros a a' H. unfold clamp_selected_hop in H.
  destruct (hops_for_flow (data a) (sel_flow (a_sel a))) as [hs| |]; cbn [bind] in H; try discriminate H.
  destruct a as [d s st v]. destruct s as [ts tsel ha fl fc sf].
  cbn [a_sel table_sel] in H.
  destruct tsel as [i|].
  - destruct (zlen hs =? 0).
    + cbn [bind] in H. destruct (selected_hop _); cbn [bind] in H; try discriminate H.
      inversion H; subst. cbn. repeat split.
    + destruct (sub_w (zlen hs) 1); cbn [bind] in H; try discriminate H.
      destruct (i >? a); cbn [bind] in H; destruct (selected_hop _); cbn [bind] in H; try discriminate H;
        inversion H; subst; cbn; repeat split.
  - cbn [bind] in H. destruct (selected_hop _); cbn [bind] in H; try discriminate H.
    inversion H; subst. cbn. repeat split.
Qed.

(* the methods that only touch tui_config / the show_* flags / zoom (and, for show_settings_columns, the settings dialog) *)
Definition is_view_method (m : method) : bool :=
  match m with
  | MToggleHelp | MToggleSettings | MShowSettingsColumns _ | MToggleHopDetails | MToggleFreeze | MToggleChart
  | MToggleMap | MExpandPrivacy | MContractPrivacy | MToggleAsinfo | MExpandHosts | MContractHosts | MZoomIn
  | MZoomOut | MExpandHostsMax | MContractHostsMin | MAddressMode _ => true
  | _ => false
  end.

Ltac finish_frame E :=
  split_matches E;
  first [ inversion E; subst; cbn; repeat split; reflexivity
        | apply clamp_selected_hop_frame in E; cbn in E; destruct E as (? & ? & ? & _); repeat split; assumption ].

(* selection and settings commands: the displayed data and the whole view part are untouched *)
Lemma exec_method_sel_frame : forall m w a w' a', exec_method m w a = Ok (w', a') -> is_view_method m = false ->
  data a' = data a /\ a_view a' = a_view a.
Proof.
  intros m w a w' a' H Hm. destruct m; try discriminate Hm; cbn [exec_method] in H.
  - destruct (next_hop a) eqn:E; cbn [bind] in H; try discriminate H. inversion H; subst.
    unfold next_hop, bind in E. finish_frame E.
  - destruct (previous_hop a) eqn:E; cbn [bind] in H; try discriminate H. inversion H; subst.
    unfold previous_hop, bind in E. finish_frame E.
  - destruct (next_trace w a) eqn:E; cbn [bind] in H; try discriminate H. inversion H; subst.
    unfold next_trace, bind, clear in E. finish_frame E.
  - destruct (previous_trace w a) eqn:E; cbn [bind] in H; try discriminate H. inversion H; subst.
    unfold previous_trace, bind, clear in E. finish_frame E.
  - destruct (next_hop_address a) eqn:E; cbn [bind] in H; try discriminate H. inversion H; subst.
    unfold next_hop_address, bind in E. finish_frame E.
  - destruct (previous_hop_address a) eqn:E; cbn [bind] in H; try discriminate H. inversion H; subst.
    unfold previous_hop_address, bind in E. finish_frame E.
  - destruct (next_flow a) eqn:E; cbn [bind] in H; try discriminate H. inversion H; subst.
    unfold next_flow, bind in E. finish_frame E.
  - destruct (previous_flow a) eqn:E; cbn [bind] in H; try discriminate H. inversion H; subst.
    unfold previous_flow, bind in E. finish_frame E.
  - destruct (next_settings_tab a) eqn:E; cbn [bind] in H; try discriminate H. inversion H; subst.
    unfold next_settings_tab, bind in E. finish_frame E.
  - destruct (previous_settings_tab a) eqn:E; cbn [bind] in H; try discriminate H. inversion H; subst.
    unfold previous_settings_tab, bind in E. finish_frame E.
  - destruct (next_settings_item a) eqn:E; cbn [bind] in H; try discriminate H. inversion H; subst.
    unfold next_settings_item, bind in E. finish_frame E.
  - destruct (previous_settings_item a) eqn:E; cbn [bind] in H; try discriminate H. inversion H; subst.
    unfold previous_settings_item, bind in E. finish_frame E.
  - destruct (toggle_column_visibility a) eqn:E; cbn [bind] in H; try discriminate H. inversion H; subst.
    unfold toggle_column_visibility, bind in E. finish_frame E.
  - destruct (move_column_down a) eqn:E; cbn [bind] in H; try discriminate H. inversion H; subst.
    unfold move_column_down, bind in E. finish_frame E.
  - destruct (move_column_up a) eqn:E; cbn [bind] in H; try discriminate H. inversion H; subst.
    unfold move_column_up, bind in E. finish_frame E.
  - inversion H; subst. split; reflexivity.
  - destruct (toggle_flows w a) eqn:E; cbn [bind] in H; try discriminate H. inversion H; subst.
    unfold toggle_flows, bind in E. finish_frame E.
  - destruct (clear_trace_data w a) eqn:E; cbn [bind] in H; try discriminate H. inversion H; subst. split; reflexivity.
Qed.

Ltac view_case H :=
  first [ match type of H with
          | (let* _ := ?r in _) = _ => destruct r eqn:E; cbn [bind] in H; try discriminate H; inversion H; subst; clear H
          end
        | inversion H; subst; clear H ].

Ltac fin := cbn; repeat split; intros; auto; try congruence; try lia.

(* view commands: the displayed data, the world and the selection are untouched; zoom stays within 1..16
   and moves only by the zoom commands; privacy moves only by expand / contract privacy *)
Lemma exec_method_view_frame : forall m w a w' a', exec_method m w a = Ok (w', a') -> is_view_method m = true ->
  data a' = data a /\ a_sel a' = a_sel a /\ w' = w /\
  (m <> MZoomIn -> m <> MZoomOut -> zoom (a_view a') = zoom (a_view a)) /\
  (1 <= zoom (a_view a) <= 16 -> 1 <= zoom (a_view a') <= 16) /\
  (m <> MExpandPrivacy -> m <> MContractPrivacy -> privacy (a_view a') = privacy (a_view a)).
Proof.
  intros m w a w' a' H Hm. destruct m; try discriminate Hm; cbn [exec_method] in H; view_case H.
  - (* toggle_help *) fin.
  - fin.
  - (* show_settings_columns *) unfold show_settings_columns. cbn [with_view a_sett].
    destruct (negb (settings_tab (a_sett a) =? i)); fin.
  - (* toggle_hop_details *) unfold toggle_hop_details. destruct (show_details (a_view a)); fin.
  - fin.
  - fin.
  - fin.
  - (* expand_privacy *) unfold expand_privacy, bind in E. split_matches E. inversion E; subst. fin.
  - (* contract_privacy *) fin.
  - (* toggle_asinfo *) unfold toggle_asinfo. destruct (resolver_system (a_view a)); fin.
  - (* expand_hosts *) unfold expand_hosts, bind in E. split_matches E; inversion E; subst; fin.
  - fin.
  - (* zoom_in *) unfold zoom_in, MAX_ZOOM_FACTOR. destruct (zoom (a_view a) <? 16) eqn:Z; fin.
  - (* zoom_out *) unfold zoom_out. destruct (zoom (a_view a) >? 1) eqn:Z; fin.
  - (* expand_hosts_max *) unfold expand_hosts_max, bind in E. split_matches E; inversion E; subst; fin.
  - fin.
  - fin.
Qed.

Lemma clamp_selected_flow_frame : forall a,
  data (clamp_selected_flow a) = data a /\ a_sett (clamp_selected_flow a) = a_sett a /\
  a_view (clamp_selected_flow a) = a_view a /\
  trace_selected (a_sel (clamp_selected_flow a)) = trace_selected (a_sel a).
Proof.
  intros a. unfold clamp_selected_flow.
  destruct (negb (sel_flow (a_sel a) =? 0) && negb (existsb (fun id => id =? sel_flow (a_sel a)) (flows (data a)))).
  - destruct a as [d s st v]; destruct s; cbn. repeat split.
  - repeat split.
Qed.

Lemma update_order_flow_counts_frame : forall a a', update_order_flow_counts a = Ok a' ->
  exists fc, a' = with_sel a (set_flow_counts (a_sel a) fc).
Proof.
  intros a a' H. unfold update_order_flow_counts in H.
  destruct (map_r _ (flows (data a))); cbn [bind] in H; try discriminate H. inversion H. eauto.
Qed.

(* a frame: the view part and the settings dialog are untouched; a frozen frame changes nothing at all;
   a frame that is not frozen displays exactly the current data of the selected trace *)
Lemma frame_frame : forall w a a', frame w a = Ok a' ->
  a_view a' = a_view a /\ a_sett a' = a_sett a /\
  trace_selected (a_sel a') = trace_selected (a_sel a) /\
  (frozen (a_view a) = true -> a' = a) /\
  (frozen (a_view a) = false -> zindex (trace_selected (a_sel a)) w = Ok (data a')).
Proof.
  intros w a a' H. unfold frame in H. destruct (frozen (a_view a)) eqn:F.
  - cbn [bind] in H. destruct (draw w a); cbn [bind] in H; try discriminate H. inversion H; subst.
    repeat split; auto. intros C; discriminate C.
  - destruct (prologue w a) as [a3| |] eqn:P; cbn [bind] in H; try discriminate H.
    destruct (draw w a3); cbn [bind] in H; try discriminate H. inversion H; subst a3. clear H.
    unfold prologue, snapshot_trace_data, tracer_config in P.
    destruct (zindex (trace_selected (a_sel a)) w) as [d| |] eqn:Z; cbn [bind] in P; try discriminate P.
    destruct (clamp_selected_hop (clamp_selected_flow (with_data a d))) as [a2| |] eqn:C; cbn [bind] in P; try discriminate P.
    destruct (clamp_selected_hop_frame _ _ C) as (D2 & S2 & V2 & T2 & _).
    destruct (clamp_selected_flow_frame (with_data a d)) as (D1 & S1 & V1 & T1).
    destruct (update_order_flow_counts_frame _ _ P) as (fc & E). subst a'.
    unfold with_sel. cbn [a_view a_sett a_sel data].
    assert (trace_selected (set_flow_counts (a_sel a2) fc) = trace_selected (a_sel a2)) as Tfc by (destruct (a_sel a2); reflexivity).
    rewrite Tfc, V2, V1, S2, S1, D2, D1, T2, T1. cbn [with_data a_view a_sett a_sel data].
    repeat split; auto. intros C'; discriminate C'.
Qed.

(* ------------------------------------------------------------------ zoom, privacy along any history *)

Definition zoom_ok (a : app) : Prop := 1 <= zoom (a_view a) <= 16.

Lemma exec_method_zoom : forall m w a w' a', exec_method m w a = Ok (w', a') -> zoom_ok a -> zoom_ok a'.
Proof.
  intros m w a w' a' H Z. unfold zoom_ok in *. destruct (is_view_method m) eqn:V.
  - destruct (exec_method_view_frame _ _ _ _ _ H V) as (_ & _ & _ & _ & Hz & _). auto.
  - destruct (exec_method_sel_frame _ _ _ _ _ H V) as (_ & Hv). rewrite Hv. exact Z.
Qed.

Definition privacy_method (m : method) : bool :=
  match m with MExpandPrivacy | MContractPrivacy => true | _ => false end.

Lemma exec_method_privacy : forall m w a w' a', exec_method m w a = Ok (w', a') -> privacy_method m = false ->
  privacy (a_view a') = privacy (a_view a).
Proof.
  intros m w a w' a' H P. destruct (is_view_method m) eqn:V.
  - destruct (exec_method_view_frame _ _ _ _ _ H V) as (_ & _ & _ & _ & _ & Hp).
    apply Hp; intros C; subst m; discriminate P.
  - destruct (exec_method_sel_frame _ _ _ _ _ H V) as (_ & Hv). rewrite Hv. reflexivity.
Qed.

Lemma exec_methods_zoom : forall ms w a w' a', exec_methods ms w a = Ok (w', a') -> zoom_ok a -> zoom_ok a'.
Proof.
  induction ms as [|m t IH]; intros w a w' a' H Z; cbn [exec_methods] in H.
  - inversion H; subst. exact Z.
  - destruct (exec_method m w a) as [[w1 a1]| |] eqn:E; cbn [bind fst snd] in H; try discriminate H.
    eapply IH; [exact H|]. eapply exec_method_zoom; eauto.
Qed.

Lemma exec_methods_privacy : forall ms w a w' a', exec_methods ms w a = Ok (w', a') ->
  forallb (fun m => negb (privacy_method m)) ms = true -> privacy (a_view a') = privacy (a_view a).
Proof.
  induction ms as [|m t IH]; intros w a w' a' H P; cbn [exec_methods] in H.
  - inversion H; subst. reflexivity.
  - cbn [forallb] in P. apply andb_true_iff in P. destruct P as [P1 P2]. apply negb_true_iff in P1.
    destruct (exec_method m w a) as [[w1 a1]| |] eqn:E; cbn [bind fst snd] in H; try discriminate H.
    rewrite (IH _ _ _ _ H P2). eapply exec_method_privacy; eauto.
Qed.

Definition privacy_key (k : key) : bool :=
  match k with KExpandPrivacy | KContractPrivacy => true | _ => false end.

(* only the two privacy keys dispatch to a privacy method, and only while no dialog is open *)
Lemma dispatch_privacy : forall k a,
  (privacy_key k = false \/ show_help (a_view a) = true \/ show_settings (a_view a) = true) ->
  forallb (fun m => negb (privacy_method m)) (dispatch k a) = true.
Proof.
  intros k a H. unfold dispatch.
  destruct (show_help (a_view a)) eqn:Hh.
  { destruct k; reflexivity. }
  destruct (show_settings (a_view a)) eqn:Hs.
  { destruct k; reflexivity. }
  destruct H as [H|[H|H]]; try discriminate H.
  destruct k; try discriminate H; try reflexivity; destruct (show_flows (a_sel a)); reflexivity.
Qed.

Lemma dispatch_privacy_key : forall a, show_help (a_view a) = false -> show_settings (a_view a) = false ->
  dispatch KExpandPrivacy a = [MExpandPrivacy] /\ dispatch KContractPrivacy a = [MContractPrivacy].
Proof. intros a Hh Hs. unfold dispatch. rewrite Hh, Hs. split; reflexivity. Qed.

(* which ops can move the privacy level *)
Definition privacy_op (o : op) (a : app) : bool :=
  match o with
  | OMethod m => privacy_method m
  | OKey k => privacy_key k && negb (show_help (a_view a)) && negb (show_settings (a_view a))
  | _ => false
  end.

Lemma step_zoom : forall o w a w' a', step o w a = Ok (w', a') -> zoom_ok a -> zoom_ok a'.
Proof.
  intros o w a w' a' H Z. destruct o; cbn [step] in H.
  - inversion H; subst. exact Z.
  - eapply exec_method_zoom; eauto.
  - unfold handle_key in H. eapply exec_methods_zoom; eauto.
  - destruct (frame w a) as [a1| |] eqn:F; cbn [bind] in H; try discriminate H. inversion H; subst.
    destruct (frame_frame _ _ _ F) as (V & _). unfold zoom_ok. rewrite V. exact Z.
Qed.

Lemma step_privacy : forall o w a w' a', step o w a = Ok (w', a') -> privacy_op o a = false ->
  privacy (a_view a') = privacy (a_view a).
Proof.
  intros o w a w' a' H P. destruct o; cbn [step] in H; cbn [privacy_op] in P.
  - inversion H; subst. reflexivity.
  - eapply exec_method_privacy; eauto.
  - unfold handle_key in H. eapply exec_methods_privacy; [exact H|]. apply dispatch_privacy.
    destruct (privacy_key k); [|left; reflexivity]. right.
    destruct (show_help (a_view a)); [left; reflexivity|]. destruct (show_settings (a_view a)); [right; reflexivity|discriminate P].
  - destruct (frame w a) as [a1| |] eqn:F; cbn [bind] in H; try discriminate H. inversion H; subst.
    destruct (frame_frame _ _ _ F) as (V & _). rewrite V. reflexivity.
Qed.

Lemma run_zoom : forall ops w a w' a', run ops w a = Ok (w', a') -> zoom_ok a -> zoom_ok a'.
Proof.
  induction ops as [|o t IH]; intros w a w' a' H Z; cbn [run] in H.
  - inversion H; subst. exact Z.
  - destruct (step o w a) as [[w1 a1]| |] eqn:E; cbn [bind fst snd] in H; try discriminate H.
    eapply IH; [exact H|]. eapply step_zoom; eauto.
Qed.

(* the level after a history in which no op is a privacy op in the state where it is executed *)
Fixpoint run_no_privacy_op (ops : list op) (w : traces) (a : app) : Prop :=
  match ops with
  | [] => True
  | o :: t => privacy_op o a = false /\
              match step o w a with Ok r => run_no_privacy_op t (fst r) (snd r) | _ => True end
  end.

Lemma run_privacy : forall ops w a w' a', run ops w a = Ok (w', a') -> run_no_privacy_op ops w a ->
  privacy (a_view a') = privacy (a_view a).
Proof.
  induction ops as [|o t IH]; intros w a w' a' H P; cbn [run] in H.
  - inversion H; subst. reflexivity.
  - destruct P as [P1 P2].
    destruct (step o w a) as [[w1 a1]| |] eqn:E; cbn [bind fst snd] in H; try discriminate H.
    cbn [fst snd] in P2. rewrite (IH _ _ _ _ H P2). eapply step_privacy; eauto.
Qed.

(* from TuiApp::new (zoom_factor = 1) along any history: chart.rs divides max_samples by zoom_factor *)
Lemma run_zoom_new : forall ops w cols p m mode asinfo sys w' a',
  run ops w (tui_new cols p m mode asinfo sys) = Ok (w', a') -> 1 <= zoom (a_view a') <= 16.
Proof.
  intros ops w cols p m mode asinfo sys w' a' H. apply (run_zoom _ _ _ _ _ H). unfold zoom_ok. cbn. lia.
Qed.
