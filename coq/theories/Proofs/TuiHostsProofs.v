(* C17: `max_addrs = Some(0)` and the row-height clamp of the hop table.

   table.rs render_hostname computes the height of a row as `hop.addr_count().clamp(1, max_addr)`;
   `Ord::clamp` panics when max < min, i.e. for max_addrs = Some(0).  The configuration layer maps
   `--tui-max-addrs 0` to None, but TuiApp::expand_hosts_max stores max_hosts(), which is Some(0) when
   the selected flow shows hops none of which has an address.
   That was a DEFECT (F21): the strategy does publish such States - after the target distance is known it keeps
   reporting the carried path length while nothing answers, and a clear during the outage leaves hops without
   any address.  REPAIRED in /repo (max_hosts() filters 0) and in Tui/App.v.
   PROVED for the repaired code: along EVERY history max_addrs is never Some 0, so the clamp never panics;
   the former counterexample (silent hops, `expand_hosts_max`, a hop answers) now keeps max_addrs = None. *)
From Coq Require Import ZifyBool.
From TV Require Import Base.Result Tui.Privacy Tui.App Tui.Views Proofs.TuiAppProofs Proofs.TuiFrameLemmas.
Import TuiPrivacy TuiApp.


(* every flow that shows hops shows one with an address *)
Definition answered (d : shape) : Prop :=
  forall f hs, hops_for_flow d f = Ok hs -> hs <> [] -> exists h, In h hs /\ 1 <= hs_addrs h.

Definition hosts_inv (a : app) : Prop := forall m, max_addrs (a_view a) = Some m -> 1 <= m.

Lemma fold_max_ge : forall hs h, In h hs -> hs_addrs h <= fold_right (fun h acc => Z.max (hs_addrs h) acc) 0 hs.
Proof.
  induction hs as [|x t IH]; intros h H; [contradiction|]. cbn [fold_right]. destruct H as [H|H]; [subst; lia|].
  specialize (IH h H). lia.
Qed.

Lemma max_hosts_positive : forall a m, max_hosts a = Ok (Some m) -> 1 <= m.
Proof.
  intros a m H. unfold max_hosts in H.
  destruct (hops_for_flow (data a) (sel_flow (a_sel a))) as [hs| |] eqn:E; cbn [bind] in H; try discriminate H.
  destruct hs as [|h0 t]; [inversion H|].
  set (M := fold_right (fun h acc => Z.max (hs_addrs h) acc) 0 (h0 :: t)) in *.
  destruct (M <=? 255) eqn:E1; destruct (0 <? M) eqn:E2; cbn [andb] in H; inversion H; subst. lia.
Qed.

Lemma clear_shape_answered : forall s, answered (clear_shape s).
Proof.
  intros s f hs H Hne. unfold hops_for_flow, clear_shape in H. cbn [sh_flows find_flow fs_id] in H.
  destruct (0 =? f); cbn [bind fs_hops] in H; [inversion H; subst; congruence|discriminate H].
Qed.

Lemma exec_method_hosts : forall m w a w' a', exec_method m w a = Ok (w', a') ->
  hosts_inv a -> hosts_inv a'.
Proof.
  intros m w a w' a' H P. destruct (is_view_method m) eqn:V.
  - unfold hosts_inv in *. destruct m; try discriminate V; cbn [exec_method] in H;
      try (inversion H; subst; cbn; exact P).
    + (* show_settings_columns *) inversion H; subst. unfold show_settings_columns. cbn [with_view a_sett].
      destruct (negb (settings_tab (a_sett a) =? i)); cbn; exact P.
    + (* toggle_hop_details *) inversion H; subst. unfold toggle_hop_details.
      destruct (show_details (a_view a)); cbn; intros m E; inversion E; lia.
    + (* expand_privacy *) destruct (expand_privacy a) eqn:E; cbn [bind] in H; try discriminate H. inversion H; subst.
      unfold expand_privacy, bind in E. split_matches E. inversion E; subst. cbn. exact P.
    + (* toggle_asinfo *) inversion H; subst. unfold toggle_asinfo. destruct (resolver_system (a_view a)); cbn; exact P.
    + (* expand_hosts *) destruct (expand_hosts a) eqn:E; cbn [bind] in H; try discriminate H. inversion H; subst.
      unfold expand_hosts in E. destruct (max_addrs (a_view a)) as [i|] eqn:Em.
      * specialize (P i eq_refl). destruct (max_hosts a) as [mh| |]; cbn [bind] in E; try discriminate E.
        destruct (opt_lt (Some i) mh).
        -- unfold add8, add_w in E. destruct (i + 1 <? 256); cbn [bind] in E; try discriminate E.
           inversion E; subst. cbn. intros m Hm. inversion Hm; lia.
        -- cbn [bind] in E. inversion E; subst. cbn. intros m Hm. inversion Hm; lia.
      * cbn [bind] in E. inversion E; subst. cbn. intros m Hm. inversion Hm; lia.
    + (* contract_hosts *) inversion H; subst. unfold contract_hosts. cbn.
      destruct (max_addrs (a_view a)) as [i|]; [|intros m E; discriminate E].
      destruct (i >? 1) eqn:G; intros m E; [inversion E; lia|discriminate E].
    + (* zoom_in *) inversion H; subst. unfold zoom_in. destruct (zoom (a_view a) <? MAX_ZOOM_FACTOR); cbn; exact P.
    + (* zoom_out *) inversion H; subst. unfold zoom_out. destruct (zoom (a_view a) >? 1); cbn; exact P.
    + (* expand_hosts_max *) destruct (expand_hosts_max a) eqn:E; cbn [bind] in H; try discriminate H. inversion H; subst.
      unfold expand_hosts_max in E. destruct (max_hosts a) as [mh| |] eqn:Em; cbn [bind] in E; try discriminate E.
      inversion E; subst. cbn. intros m Hm. subst mh. eapply max_hosts_positive; eauto.
    + (* contract_hosts_min *) inversion H; subst. cbn. intros m E; inversion E; lia.
  - destruct (exec_method_sel_frame _ _ _ _ _ H V) as (_ & Hv). unfold hosts_inv. rewrite Hv. exact P.
Qed.

Lemma exec_method_data : forall m w a w' a', exec_method m w a = Ok (w', a') -> data a' = data a.
Proof.
  intros m w a w' a' H. destruct (is_view_method m) eqn:V.
  - apply (exec_method_view_frame _ _ _ _ _ H V).
  - apply (exec_method_sel_frame _ _ _ _ _ H V).
Qed.

Lemma exec_method_world : forall (P : shape -> Prop) m w a w' a', exec_method m w a = Ok (w', a') ->
  (forall s, P (clear_shape s)) -> Forall P w -> Forall P w'.
Proof.
  intros P m w a w' a' H Hc Hw.
  destruct m; cbn [exec_method] in H;
    try (match type of H with (let* _ := ?r in _) = _ => destruct r eqn:E; cbn [bind] in H; try discriminate H end);
    inversion H; subst; try assumption.
  (* clear_trace_data *)
  unfold clear_trace_data in E. destruct (tracer_config w a'); cbn [bind] in E; try discriminate E.
  inversion E; subst. apply upd_nth_Forall; auto.
Qed.

Lemma exec_methods_hosts : forall ms w a w' a', exec_methods ms w a = Ok (w', a') -> hosts_inv a -> hosts_inv a'.
Proof.
  induction ms as [|m t IH]; intros w a w' a' H I; cbn [exec_methods] in H.
  - inversion H; subst. exact I.
  - destruct (exec_method m w a) as [[w1 a1]| |] eqn:E; cbn [bind fst snd] in H; try discriminate H.
    eapply IH; [exact H|]. eapply exec_method_hosts; eauto.
Qed.

Lemma step_hosts : forall o w a w' a', step o w a = Ok (w', a') -> hosts_inv a -> hosts_inv a'.
Proof.
  intros o w a w' a' H I. destruct o; cbn [step] in H.
  - inversion H; subst. exact I.
  - apply (exec_methods_hosts [m] w a w' a'); [|exact I]. cbn [exec_methods]. rewrite H. reflexivity.
  - unfold handle_key in H. eapply exec_methods_hosts; eauto.
  - destruct (frame w a) as [a1| |] eqn:F; cbn [bind] in H; try discriminate H. inversion H; subst.
    destruct (frame_frame _ _ _ F) as (Vw & _). unfold hosts_inv. rewrite Vw. exact I.
Qed.

Lemma run_hosts : forall ops w a w' a', run ops w a = Ok (w', a') -> hosts_inv a -> hosts_inv a'.
Proof.
  induction ops as [|o t IH]; intros w a w' a' H I; cbn [run] in H.
  - inversion H; subst. exact I.
  - destruct (step o w a) as [[w1 a1]| |] eqn:E; cbn [bind fst snd] in H; try discriminate H.
    eapply IH; [exact H|]. eapply step_hosts; eauto.
Qed.

(* the view configuration of an app state *)
Definition cfg_of (a : app) : TuiViews.vcfg :=
  TuiViews.mk_vcfg (privacy (a_view a)) (max_addrs (a_view a)) (addr_mode (a_view a)) (as_info (a_view a)) 0 false
    (fun _ _ => TuiViews.DPending) (fun _ => None) (fun l => l).

(* under the invariant no row height faults *)
Lemma host_rows_ok : forall a h, hosts_inv a -> exists n, TuiViews.host_rows (cfg_of a) h = Ok n /\ 1 <= n.
Proof.
  intros a h P. unfold TuiViews.host_rows, cfg_of. cbn [TuiViews.c_privacy TuiViews.c_max_addrs].
  destruct (h_total_recv h >? 0); [|exists 1; split; [reflexivity|lia]].
  destruct (hidden (privacy (a_view a)) (h_ttl h)); [exists 1; split; [reflexivity|lia]|].
  unfold TuiViews.clamp_r. destruct (max_addrs (a_view a)) as [m|] eqn:E.
  - specialize (P m E). destruct (1 <=? m) eqn:G; [|lia]. eexists. split; [reflexivity|lia].
  - cbn. eexists. split; [reflexivity|lia].
Qed.

(* along EVERY history max_addrs is never Some 0 and no row height faults *)
Lemma run_hosts_ok : forall ops w a w' a', run ops w a = Ok (w', a') -> hosts_inv a ->
  hosts_inv a' /\ max_addrs (a_view a') <> Some 0 /\
  forall h, exists n, TuiViews.host_rows (cfg_of a') h = Ok n /\ 1 <= n.
Proof.
  intros ops w a w' a' H Hi.
  pose proof (run_hosts _ _ _ _ _ H Hi) as I.
  split; [exact I|]. split; [intros C; specialize (I 0 C); lia|]. intros h. apply host_rows_ok. exact I.
Qed.

(* ------------------------------------------------------------------ the former counterexample, after the repair *)

(* a State that shows two hops, neither of which ever answered (an outage after a clear, the carried path length 2) *)
Definition silent_shape : shape := mk_shape 1 false [] [mk_flow 0 1 [mk_hop 0 1; mk_hop 0 2]].

Lemma silent_shape_wf : wf_shape silent_shape.
Proof.
  unfold wf_shape, has_flow, silent_shape. cbn [sh_flows sh_registry sh_max_flows].
  split; [eexists; reflexivity|]. split; [intros id []|]. split; [unfold zlen; cbn; lia|]. split; [intros C; congruence|].
  intros f x H. cbn [find_flow fs_id] in H. destruct (0 =? f); [inversion H; subst; unfold zlen; cbn; lia|discriminate H].
Qed.

Definition silent_app : app :=
  match run [OFrame; OKey KExpandHostsMax] [silent_shape] (tui_new [(104, true)] None None 0 false true) with
  | Ok r => snd r | _ => tui_new [] None None 0 false true end.

Lemma expand_hosts_max_silent :
  exists w ops w' a', wf_traces w /\ Forall op_wf ops /\
    run (OFrame :: ops) w (tui_new [(104, true)] None None 0 false true) = Ok (w', a') /\ valid w' a' /\
    max_addrs (a_view a') = None /\
    forall h, exists n, TuiViews.host_rows (cfg_of a') h = Ok n /\ 1 <= n.
Proof.
  assert (wf_traces [silent_shape]) as Hw.
  { split; [constructor; [exact silent_shape_wf|constructor]|unfold zlen; cbn; lia]. }
  exists [silent_shape], [OKey KExpandHostsMax].
  destruct (run [OFrame; OKey KExpandHostsMax] [silent_shape] (tui_new [(104, true)] None None 0 false true)) as [[w' a']| |] eqn:E;
    try (vm_compute in E; discriminate E).
  exists w', a'. split; [exact Hw|]. split; [repeat constructor|]. split; [reflexivity|].
  assert (valid w' a') as V.
  { assert (0 < zlen [(104, true)]) as Hc by (unfold zlen; cbn; lia).
    destruct (first_frame_ok [silent_shape] [(104, true)] None None 0 false true Hw Hc) as (a1 & Hf & V1).
    destruct (run_ok [OKey KExpandHostsMax] _ a1 V1 ltac:(repeat constructor)) as (w2 & a2 & Hr & V2).
    cbn [run step] in E. rewrite Hf in E. cbn [bind fst snd] in E. cbn [run step] in Hr. rewrite Hr in E. inversion E; subst. exact V2. }
  split; [exact V|].
  assert (hosts_inv a') as I.
  { eapply run_hosts; [exact E|]. intros m Hm. cbn in Hm. discriminate Hm. }
  vm_compute in E. inversion E; subst. split; [reflexivity|]. intros h. apply host_rows_ok. exact I.
Qed.
