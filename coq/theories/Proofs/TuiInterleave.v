(* C17: the full interleaving statement.

   Events are `Cmd k` (a key of the binding table, through the run_app dispatch) and `Data t s` (tracer
   t's State is now s - a new round was published, the trace was cleared, the tracer failed - followed
   by the per-frame prologue and draw of the run_app loop).  The State s is ANY State the core model
   can reach (TuiShapeOfState.reach), so nothing is assumed about the data but what trippy-core itself
   guarantees.  The selection invariant holds after the first frame and after every event of every
   finite interleaving, and no event is a fault. *)
From Coq Require Import ZifyBool Permutation.
From TV Require Import Base.Result Core.Types Core.Strategy Core.Flows Core.State Tui.Privacy Tui.App
  Proofs.FlowsProofs Proofs.StateProofs Proofs.TuiAppProofs Proofs.TuiShapeOfState Proofs.TuiFrameLemmas.
Import TuiPrivacy TuiApp.


(* ------------------------------------------------------------------ events *)

Inductive ev :=
| Cmd (k : key)
| Data (t : Z) (s : state).

(* a State some tracer (with its own max_samples / max_flows) can hold *)
Definition core_state (s : state) : Prop := exists ms mf, 0 <= mf /\ reach ms mf s.

Definition ev_ok (e : ev) : Prop :=
  match e with Cmd k => key_wf k | Data _ s => core_state s end.

(* what the run_app loop does for an event *)
Definition ev_ops (e : ev) : list op :=
  match e with
  | Cmd k => [OKey k]
  | Data t s => match shape_of_state s with Ok d => [OData t d; OFrame] | _ => [OFrame] end
  end.

Lemma core_state_shape : forall s, core_state s -> exists d, shape_of_state s = Ok d /\ wf_shape d.
Proof. intros s (ms & mf & Hmf & R). eapply reach_shape_wf; eauto. Qed.

Lemma ev_ops_wf : forall e, ev_ok e -> Forall op_wf (ev_ops e).
Proof.
  intros [k|t s] H; cbn [ev_ops ev_ok] in *.
  - constructor; [exact H|constructor].
  - destruct (core_state_shape s H) as (d & E & W). rewrite E.
    constructor; [exact W|]. constructor; [exact I|constructor].
Qed.

Lemma evs_ops_wf : forall evs, Forall ev_ok evs -> Forall op_wf (flat_map ev_ops evs).
Proof.
  induction evs as [|e t IH]; intros H; cbn [flat_map]; [constructor|].
  inversion H as [|? ? H1 H2]; subst. apply Forall_app. split; [apply ev_ops_wf; exact H1|apply IH; exact H2].
Qed.

(* the world the TUI starts with: the snapshots of the tracers' initial States *)
Lemma world_of_states_wf : forall (ss : list state) (w : traces),
  Forall2 (fun s d => core_state s /\ shape_of_state s = Ok d) ss w -> ss <> [] -> wf_traces w.
Proof.
  intros ss w H Hne. split.
  - clear Hne. induction H as [|s d ss' w' [Hc Hs] _ IH]; constructor.
    + destruct (core_state_shape s Hc) as (d' & E & W). rewrite Hs in E. inversion E; subst. exact W.
    + exact IH.
  - destruct H; [congruence|]. unfold zlen. cbn [length]. lia.
Qed.

(* one event from a valid state *)
Lemma ev_step_ok : forall e w a, valid w a -> ev_ok e ->
  exists w' a', run (ev_ops e) w a = Ok (w', a') /\ valid w' a'.
Proof. intros e w a V H. apply run_ok; [exact V|apply ev_ops_wf; exact H]. Qed.

(* the state after each event of an interleaving *)
Fixpoint ev_trace (evs : list ev) (w : traces) (a : app) : list (result (traces * app)) :=
  match evs with
  | [] => []
  | e :: t => match run (ev_ops e) w a with
              | Ok r => Ok r :: ev_trace t (fst r) (snd r)
              | Err x => [Err x]
              | Fault f => [Fault f]
              end
  end.

Lemma ev_trace_ok : forall evs w a, valid w a -> Forall ev_ok evs ->
  length (ev_trace evs w a) = length evs /\
  Forall (fun r => exists w' a', r = Ok (w', a') /\ valid w' a') (ev_trace evs w a).
Proof.
  induction evs as [|e t IH]; intros w a V H; cbn [ev_trace]; [split; [reflexivity|constructor]|].
  inversion H as [|? ? H1 H2]; subst.
  destruct (ev_step_ok e w a V H1) as (w1 & a1 & E & V1). rewrite E. cbn [fst snd].
  destruct (IH w1 a1 V1 H2) as [L F]. split; [cbn [length]; congruence|].
  constructor; [eauto|exact F].
Qed.

Lemma run_app_cat : forall o1 o2 w a, run (o1 ++ o2) w a = let* r := run o1 w a in run o2 (fst r) (snd r).
Proof.
  induction o1 as [|o t IH]; intros o2 w a; cbn [List.app run bind]; [reflexivity|].
  destruct (step o w a) as [[w1 a1]| |]; cbn [bind fst snd]; [apply IH|reflexivity|reflexivity].
Qed.

(* ------------------------------------------------------------------ every index expression under the invariant *)

Lemma valid_index_arithmetic : forall w a, valid w a ->
  (* tracer_config(): trace_info[trace_selected] *)
  (exists d, tracer_config w a = Ok d) /\
  (* hops_for_flow(selected_flow): the map has the key *)
  (exists hs, hops_for_flow (data a) (sel_flow (a_sel a)) = Ok hs /\
     (* table_state.selected() = Some i: hops[i] exists, `hop_count - 1` does not underflow and i is within it *)
     (forall i, table_sel (a_sel a) = Some i ->
        (exists h, zindex i hs = Ok h /\ 0 <= hop_addr (a_sel a) < Z.max 1 (hs_addrs h)) /\
        sub_w (zlen hs) 1 = Ok (zlen hs - 1) /\ 0 <= i <= zlen hs - 1)) /\
  (* next_flow / previous_flow: find_position().unwrap(), `len - 1`, flow_counts[cur +- 1] and the flow behind it *)
  (show_flows (a_sel a) = true ->
     exists cur, find_position (flow_counts (a_sel a)) (sel_flow (a_sel a)) 0 = Ok cur /\
       0 <= cur < zlen (flow_counts (a_sel a)) /\
       sub_w (zlen (flow_counts (a_sel a))) 1 = Ok (zlen (flow_counts (a_sel a)) - 1) /\
       (cur < zlen (flow_counts (a_sel a)) - 1 ->
          exists e, zindex (cur + 1) (flow_counts (a_sel a)) = Ok e /\ has_flow (data a) (fst e)) /\
       (cur > 0 -> sub_w cur 1 = Ok (cur - 1) /\
          exists e, zindex (cur - 1) (flow_counts (a_sel a)) = Ok e /\ has_flow (data a) (fst e))) /\
  (* next_trace / previous_trace: `len - 1`, `trace_selected - 1` *)
  (sub_w (zlen w) 1 = Ok (zlen w - 1) /\ (trace_selected (a_sel a) > 0 -> sub_w (trace_selected (a_sel a)) 1 = Ok (trace_selected (a_sel a) - 1))) /\
  (* settings: settings_tabs()[tab].1, `tabs.len() - 1`, the item count of the tab, the selected item within it *)
  (exists n, get_settings_items_count a = Ok n /\ 0 < n /\
     zindex (settings_tab (a_sett a)) settings_tabs = Ok (nth (Z.to_nat (settings_tab (a_sett a))) settings_tabs 0) /\
     sub_w (zlen settings_tabs) 1 = Ok 6 /\
     (forall s, setting_sel (a_sett a) = Some s -> 0 <= s < n)) /\
  (* columns tab: Columns::toggle / move_down / move_up index an existing column, `count - 1` is fine *)
  (settings_tab (a_sett a) = SETTINGS_TAB_COLUMNS -> forall s, setting_sel (a_sett a) = Some s ->
     (exists c, zindex s (columns (a_sett a)) = Ok c) /\
     sub_w (zlen (columns (a_sett a))) 1 = Ok (zlen (columns (a_sett a)) - 1) /\
     (s < zlen (columns (a_sett a)) - 1 -> exists c, columns_move_down (columns (a_sett a)) s = Ok c /\ zlen c = zlen (columns (a_sett a))) /\
     (s > 0 -> exists c, columns_move_up (columns (a_sett a)) s = Ok c /\ zlen c = zlen (columns (a_sett a)))).
Proof.
  intros w a V. pose proof V as (Hw & Hd & (Ht & (Hf & Hfc & Hsh) & Hh) & (Htab & Hc & Hsel)).
  split.
  { destruct (valid_traces_index w _ Hw Ht) as (d & E & _). exists d. exact E. }
  split.
  { destruct (valid_hops w a V) as (hs & Hhs & _). exists hs. split; [exact Hhs|].
    intros i Ei. unfold hop_ok in Hh. rewrite Ei in Hh. destruct Hh as (hs' & h & Hhs' & Hi & Hn & Ha).
    rewrite Hhs in Hhs'. inversion Hhs'; subst hs'.
    split; [|split; [apply sub_w_ok; lia|lia]].
    destruct (zindex_ok _ hs i Hi) as (x & Hx & Hx'). exists h. rewrite Hx. split; [congruence|exact Ha]. }
  split.
  { intros S. destruct (find_position_ok (flow_counts (a_sel a)) (sel_flow (a_sel a)) 0 (Hsh S)) as (c & Ec & Hr).
    exists c. split; [exact Ec|]. split; [lia|]. split; [apply sub_w_ok; lia|]. split.
    - intros Hlt. assert (0 <= c + 1 < zlen (flow_counts (a_sel a))) as Hi by lia.
      destruct (zindex_ok _ _ _ Hi) as (e & He & Hn). exists e. split; [exact He|].
      eapply valid_fc_has_flow; [exact V|]. eapply in_map_fst_nth; eauto.
    - intros Hgt. split; [apply sub_w_ok; lia|]. assert (0 <= c - 1 < zlen (flow_counts (a_sel a))) as Hi by lia.
      destruct (zindex_ok _ _ _ Hi) as (e & He & Hn). exists e. split; [exact He|].
      eapply valid_fc_has_flow; [exact V|]. eapply in_map_fst_nth; eauto. }
  split.
  { destruct Hw as [_ Hl]. split; [apply sub_w_ok; lia|]. intros G. apply sub_w_ok. lia. }
  split.
  { exists (item_count (settings_tab (a_sett a)) (columns (a_sett a))).
    split; [apply get_settings_items_count_ok; split; [exact Htab|split; [exact Hc|exact Hsel]]|].
    split; [apply item_count_pos; assumption|]. split; [apply settings_tabs_index; exact Htab|].
    split; [reflexivity|]. intros s Es. rewrite Es in Hsel. exact Hsel. }
  intros Et s Es. rewrite Es in Hsel. unfold item_count in Hsel. rewrite Et in Hsel. cbn in Hsel.
  split.
  { destruct (zindex_ok _ (columns (a_sett a)) s Hsel) as (c & Ec & _). eauto. }
  split; [apply sub_w_ok; lia|]. split.
  - intros Hlt. unfold columns_move_down. destruct (s <? zlen (columns (a_sett a))) eqn:El; [|lia].
    destruct (vec_remove_ok _ (columns (a_sett a)) s Hsel) as (x & l' & Hr & Hl'). rewrite Hr. cbn [bind fst snd].
    destruct (vec_insert_ok _ l' (s + 1) x) as (l'' & Hi' & Hl''); [lia|]. exists l''. split; [exact Hi'|lia].
  - intros Hgt. unfold columns_move_up. destruct (s >? 0) eqn:El; [|lia].
    destruct (vec_remove_ok _ (columns (a_sett a)) s Hsel) as (x & l' & Hr & Hl'). rewrite Hr. cbn [bind fst snd].
    rewrite sub_w_ok by lia. cbn [bind].
    destruct (vec_insert_ok _ l' (s - 1) x) as (l'' & Hi' & Hl''); [lia|]. exists l''. split; [exact Hi'|lia].
Qed.

(* ------------------------------------------------------------------ the interleaving theorem *)

Lemma interleaving_ok : forall w cols p m mode asinfo sys evs,
  wf_traces w -> 0 < zlen cols -> Forall ev_ok evs ->
  exists a1, frame w (tui_new cols p m mode asinfo sys) = Ok a1 /\ valid w a1 /\
    length (ev_trace evs w a1) = length evs /\
    Forall (fun r => exists w' a', r = Ok (w', a') /\ valid w' a') (ev_trace evs w a1) /\
    exists w' a', run (OFrame :: flat_map ev_ops evs) w (tui_new cols p m mode asinfo sys) = Ok (w', a') /\ valid w' a'.
Proof.
  intros w cols p m mode asinfo sys evs Hw Hc He.
  destruct (first_frame_ok w cols p m mode asinfo sys Hw Hc) as (a1 & Hf & V1).
  exists a1. split; [exact Hf|]. split; [exact V1|].
  destruct (ev_trace_ok evs w a1 V1 He) as [L F]. split; [exact L|]. split; [exact F|].
  cbn [run step]. rewrite Hf. cbn [bind fst snd]. apply run_ok; [exact V1|apply evs_ops_wf; exact He].
Qed.

(* ------------------------------------------------------------------ what a frame displays *)

Lemma frame_decompose : forall w a a', frame w a = Ok a' -> frozen (a_view a) = false ->
  exists d a2, zindex (trace_selected (a_sel a)) w = Ok d /\ data a2 = d /\
    update_order_flow_counts a2 = Ok a' /\ sel_flow (a_sel a') = sel_flow (a_sel a2).
Proof.
  intros w a a' H F. unfold frame in H. rewrite F in H.
  destruct (prologue w a) as [a3| |] eqn:P; cbn [bind] in H; try discriminate H.
  destruct (draw w a3); cbn [bind] in H; try discriminate H. inversion H; subst a3. clear H.
  unfold prologue, snapshot_trace_data, tracer_config in P.
  destruct (zindex (trace_selected (a_sel a)) w) as [d| |] eqn:Z; cbn [bind] in P; try discriminate P.
  destruct (clamp_selected_hop (clamp_selected_flow (with_data a d))) as [a2| |] eqn:C; cbn [bind] in P; try discriminate P.
  exists d, a2. split; [reflexivity|].
  destruct (clamp_selected_hop_frame _ _ C) as (D2 & _).
  destruct (clamp_selected_flow_frame (with_data a d)) as (D1 & _).
  split; [rewrite D2, D1; reflexivity|]. split; [exact P|].
  destruct (update_order_flow_counts_frame _ _ P) as (fc & E). subst a'. destruct a2 as [d2 s2 st2 v2]; destruct s2; reflexivity.
Qed.

Lemma map_r_counts_spec : forall d l r,
  map_r (fun id => let* c := round_count d id in Ok (id, c)) l = Ok r ->
  map fst r = l /\ Forall (fun pr => round_count d (fst pr) = Ok (snd pr)) r.
Proof.
  induction l as [|x t IH]; intros r H; cbn [map_r] in H.
  - inversion H; subst. split; [reflexivity|constructor].
  - destruct (round_count d x) as [c| |] eqn:E; cbn [bind] in H; try discriminate H.
    destruct (map_r _ t) as [r'| |] eqn:E2; cbn [bind] in H; try discriminate H. inversion H; subst.
    destruct (IH r' eq_refl) as [I1 I2]. split; [cbn; congruence|]. constructor; [exact E|exact I2].
Qed.

(* update_order_flow_counts on well-formed data: one bar per registered flow, none dropped by
   `take(max_flows)`, none invented, each with the round count of its flow *)
Lemma update_order_flow_counts_spec : forall a a', wf_shape (data a) -> update_order_flow_counts a = Ok a' ->
  Permutation (map fst (flow_counts (a_sel a'))) (sh_registry (data a)) /\
  Forall (fun pr => round_count (data a) (fst pr) = Ok (snd pr)) (flow_counts (a_sel a')) /\
  data a' = data a.
Proof.
  intros a a' (H0 & H1 & H2 & H3 & H4) H. unfold update_order_flow_counts, flows, max_flows in H.
  destruct (map_r _ (sh_registry (data a))) as [l| |] eqn:E; cbn [bind] in H; try discriminate H.
  destruct (map_r_counts_spec _ _ _ E) as [Hm Hc]. inversion H; subst a'. clear H.
  assert (Permutation (rev (sort_flows l)) l) as P.
  { eapply perm_trans; [apply Permutation_sym, Permutation_rev|apply sort_flows_perm]. }
  assert (firstn (Z.to_nat (sh_max_flows (data a))) (rev (sort_flows l)) = rev (sort_flows l)) as Fa.
  { apply firstn_all_z. unfold zlen in *. rewrite (Permutation_length P). rewrite <- (map_length fst l), Hm. lia. }
  destruct a as [d s st v]; destruct s. cbn [with_sel set_flow_counts a_sel flow_counts data] in *. rewrite Fa.
  split; [rewrite <- Hm; apply Permutation_map; exact P|]. split; [|reflexivity].
  eapply Permutation_Forall; [apply Permutation_sym; exact P|exact Hc].
Qed.

(* a frame that is not frozen: the data on display is the current State of the selected trace and the
   flow bars are exactly its registered flows *)
Lemma frame_display : forall w a a', valid w a -> frame w a = Ok a' -> frozen (a_view a) = false ->
  zindex (trace_selected (a_sel a')) w = Ok (data a') /\
  Permutation (map fst (flow_counts (a_sel a'))) (sh_registry (data a')) /\
  Forall (fun pr => round_count (data a') (fst pr) = Ok (snd pr)) (flow_counts (a_sel a')).
Proof.
  intros w a a' V H F. destruct (frame_frame _ _ _ H) as (_ & _ & T & _ & Hz).
  destruct (frame_decompose _ _ _ H F) as (d & a2 & Z & D2 & U & _).
  pose proof V as (Hw & _ & (Ht & _) & _).
  destruct (valid_traces_index w _ Hw Ht) as (d' & Z' & Wd). rewrite Z in Z'. inversion Z'; subst d'.
  assert (wf_shape (data a2)) as W2 by (rewrite D2; exact Wd).
  destruct (update_order_flow_counts_spec a2 a' W2 U) as (P & C & D).
  rewrite T. split; [apply Hz; exact F|]. rewrite D. split; [exact P|exact C].
Qed.

(* a frozen frame: nothing moves *)
Lemma frame_frozen : forall w a a', frame w a = Ok a' -> frozen (a_view a) = true -> a' = a.
Proof. intros w a a' H F. destruct (frame_frame _ _ _ H) as (_ & _ & _ & Hf & _). apply Hf. exact F. Qed.

(* ------------------------------------------------------------------ concrete worlds from the core model *)

Definition lv_state : state :=
  match update_from_round (state_new 10 4) ex_round with Ok s => s | _ => state_new 10 4 end.
Definition lv_shape : shape :=
  match shape_of_state lv_state with Ok d => d | _ => default_shape end.
Definition lv_clear : shape :=
  match shape_of_state (state_new 10 4) with Ok d => d | _ => default_shape end.

Lemma lv_state_core : core_state lv_state.
Proof.
  exists 10, 4. split; [lia|]. unfold lv_state.
  destruct (update_from_round (state_new 10 4) ex_round) eqn:E; try apply reach_new.
  eapply reach_round; [apply reach_new|apply ex_round_wf|exact E].
Qed.

Lemma lv_shape_wf : wf_shape lv_shape.
Proof.
  destruct (core_state_shape _ lv_state_core) as (d & E & W). unfold lv_shape. rewrite E. exact W.
Qed.

Lemma lv_clear_wf : wf_shape lv_clear.
Proof.
  assert (core_state (state_new 10 4)) as C by (exists 10, 4; split; [lia|apply reach_new]).
  destruct (core_state_shape _ C) as (d & E & W). unfold lv_clear. rewrite E. exact W.
Qed.

Definition lv_cols : list (Z * bool) := [(104, true); (111, true)].
Definition lv_new : app := tui_new lv_cols None None 0 false true.

Lemma lv_world_wf : wf_traces [lv_shape].
Proof. split; [constructor; [exact lv_shape_wf|constructor]|unfold zlen; cbn; lia]. Qed.

Lemma lv_world2_wf : wf_traces [lv_shape; lv_clear].
Proof. split; [constructor; [exact lv_shape_wf|constructor; [exact lv_clear_wf|constructor]]|unfold zlen; cbn; lia]. Qed.

(* run from TuiApp::new: first frame, then ops *)
Lemma lv_run_valid : forall w ops w' a', wf_traces w -> Forall op_wf ops ->
  run (OFrame :: ops) w lv_new = Ok (w', a') -> valid w' a'.
Proof.
  intros w ops w' a' Hw Ho H.
  assert (0 < zlen lv_cols) as Hc by (unfold zlen; cbn; lia).
  destruct (first_frame_ok w lv_cols None None 0 false true Hw Hc) as (a1 & Hf & V1).
  destruct (run_ok ops w a1 V1 Ho) as (w2 & a2 & Hr & V2).
  cbn [run step] in H. unfold lv_new in H. rewrite Hf in H. cbn [bind fst snd] in H. rewrite Hr in H.
  inversion H; subst. exact V2.
Qed.

(* the app after: first frame, three times `next_hop` (row 2 selected), a frame *)
Definition lv_ops1 : list op := [OKey KNextHop; OKey KNextHop; OKey KNextHop; OFrame].
Definition lv_app : app := match run (OFrame :: lv_ops1) [lv_shape] lv_new with Ok r => snd r | _ => lv_new end.

Lemma lv_run1 : run (OFrame :: lv_ops1) [lv_shape] lv_new = Ok ([lv_shape], lv_app).
Proof. vm_compute. reflexivity. Qed.

Lemma lv_app_valid : valid [lv_shape] lv_app.
Proof. apply (lv_run_valid [lv_shape] lv_ops1); [exact lv_world_wf|repeat constructor|exact lv_run1]. Qed.

(* Sel is an invariant of (app, SNAPSHOT): relative to the LIVE data of the tracer it is broken by a
   data event (here Tracer::clear while row 2 is selected) until the next frame re-clamps *)
Lemma live_data_counterexample :
  exists (w : traces) (a : app) (d : shape),
    valid w a /\ wf_shape d /\ table_sel (a_sel a) = Some 2 /\
    valid (upd_nth 0 d w) a /\                       (* still valid for the snapshot it displays *)
    ~ hop_ok d (a_sel a) /\                          (* but row 2 does not exist in the live data *)
    exists a', frame (upd_nth 0 d w) a = Ok a' /\ data a' = d /\ table_sel (a_sel a') = None /\ valid (upd_nth 0 d w) a'.
Proof.
  exists [lv_shape], lv_app, lv_clear.
  split; [exact lv_app_valid|]. split; [exact lv_clear_wf|]. split; [vm_compute; reflexivity|].
  assert (valid (upd_nth 0 lv_clear [lv_shape]) lv_app) as V2.
  { destruct (upd_nth_wf [lv_shape] 0%nat lv_clear lv_world_wf lv_clear_wf) as [H1 H2].
    eapply valid_world; [exact lv_app_valid|exact H1|exact H2]. }
  split; [exact V2|]. split.
  { unfold hop_ok. replace (table_sel (a_sel lv_app)) with (Some 2) by (vm_compute; reflexivity).
    intros (hs & h & Hhs & Hi & _). vm_compute in Hhs. inversion Hhs; subst hs. unfold zlen in Hi. cbn in Hi. lia. }
  destruct (frame_valid _ _ V2) as (a' & F & V'). exists a'. split; [exact F|].
  assert (frame (upd_nth 0 lv_clear [lv_shape]) lv_app = Ok a') as F2 by exact F.
  vm_compute in F2. inversion F2; subst a'. split; [vm_compute; reflexivity|]. split; [reflexivity|].
  exact V'.
Qed.

(* frozen display and two traces: `next_trace` moves trace_selected while the frozen snapshot stays, so
   the header / tabs / settings (tracer_config()) are those of trace 1 while the hop table still shows
   the data of trace 0 - no index is invalid, but what is displayed is not the selected trace *)
Definition lv_ops2 : list op := [OKey KToggleFreeze; OKey KNextTrace; OFrame].

Lemma frozen_trace_switch_counterexample :
  exists (w : traces) (ops : list op) (w' : traces) (a' : app),
    wf_traces w /\ Forall op_wf ops /\ run (OFrame :: ops) w lv_new = Ok (w', a') /\ valid w' a' /\
    trace_selected (a_sel a') = 1 /\ frozen (a_view a') = true /\
    zindex 0 w' = Ok (data a') /\ zindex (trace_selected (a_sel a')) w' <> Ok (data a').
Proof.
  exists [lv_shape; lv_clear], lv_ops2.
  destruct (run (OFrame :: lv_ops2) [lv_shape; lv_clear] lv_new) as [[w' a']| |] eqn:E; try (vm_compute in E; discriminate E).
  exists w', a'. split; [exact lv_world2_wf|]. split; [repeat constructor|]. split; [reflexivity|].
  split; [apply (lv_run_valid _ lv_ops2 _ _ lv_world2_wf); [repeat constructor|exact E]|].
  vm_compute in E. inversion E; subst. repeat split; try reflexivity. vm_compute. intros C. discriminate C.
Qed.
