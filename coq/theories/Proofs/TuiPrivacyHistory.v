(* C18 over the TuiApp model (Tui/App.v): how the privacy level moves along histories of the
   application - which events can move it at all, what the two privacy keys do, that it never leaves
   the range of a u8 (no `privacy_max_ttl + 1` overflow), monotonicity of what is hidden, and the
   limit of the keyboard (the hop COUNT, not the highest ttl). *)
From Coq Require Import ZifyBool.
From TV Require Import Base.Result Tui.Privacy Tui.App Proofs.TuiPrivacyProofs Proofs.TuiAppProofs Proofs.TuiFrameLemmas.
Import TuiPrivacy TuiApp.


(* ------------------------------------------------------------------ what is hidden grows with the level *)

Lemma hidden_monotone : forall p q t, level p <= level q -> (forall n, p = Some n -> 0 <= n) ->
  hidden p t = true -> hidden q t = true.
Proof.
  intros [n|] [m|] t Hl Hn H; cbn in *; try discriminate H.
  - lia.
  - specialize (Hn n eq_refl). lia.
Qed.

(* the hidden hops are a prefix of the table *)
Lemma hidden_prefix : forall p t t', hidden p t = true -> t' <= t -> hidden p t' = true.
Proof. intros [n|] t t' H Hle; cbn in *; [lia|discriminate H]. Qed.

Lemma expand_hides_more : forall hc p q t, expand_privacy_step hc p = Ok q -> hidden p t = true -> hidden q t = true.
Proof.
  intros hc [n|] q t H Hh; cbn in *; [|discriminate Hh].
  destruct (n <? hc).
  - unfold add8, add_w in H. destruct (n + 1 <? 256); cbn [bind] in H; [|discriminate H]. inversion H; subst. cbn. lia.
  - inversion H; subst. cbn. exact Hh.
Qed.

Lemma contract_reveals_more : forall p t, hidden (contract_privacy_step p) t = true -> hidden p t = true.
Proof.
  intros [n|] t H; cbn in *; [|discriminate H]. destruct (n >? 0) eqn:E; cbn in H; [lia|discriminate H].
Qed.

(* ------------------------------------------------------------------ the two keys *)

Lemma key_expand_privacy : forall w a, valid w a ->
  show_help (a_view a) = false -> show_settings (a_view a) = false ->
  exists hs q, hops_for_flow (data a) (sel_flow (a_sel a)) = Ok hs /\ zlen hs <= 254 /\
    expand_privacy_step (zlen hs) (privacy (a_view a)) = Ok q /\
    handle_key KExpandPrivacy w a = Ok (w, with_view a (set_privacy (a_view a) q)).
Proof.
  intros w a V Hh Hs. destruct (valid_hops w a V) as (hs & Hhs & Hl). exists hs.
  assert (exists q, expand_privacy_step (zlen hs) (privacy (a_view a)) = Ok q) as (q & Hq).
  { unfold expand_privacy_step. destruct (privacy (a_view a)) as [p|]; [|eauto].
    destruct (p <? zlen hs) eqn:E; [|eauto]. unfold add8, add_w. destruct (p + 1 <? 256) eqn:E2; [|lia]. cbn [bind]. eauto. }
  exists q. split; [exact Hhs|]. split; [exact Hl|]. split; [exact Hq|].
  unfold handle_key. destruct (dispatch_privacy_key a Hh Hs) as [D _]. rewrite D.
  cbn [exec_methods exec_method]. unfold expand_privacy. rewrite Hhs. cbn [bind]. rewrite Hq. reflexivity.
Qed.

Lemma key_contract_privacy : forall w a,
  show_help (a_view a) = false -> show_settings (a_view a) = false ->
  handle_key KContractPrivacy w a = Ok (w, with_view a (set_privacy (a_view a) (contract_privacy_step (privacy (a_view a))))).
Proof.
  intros w a Hh Hs. unfold handle_key. destruct (dispatch_privacy_key a Hh Hs) as [_ D]. rewrite D. reflexivity.
Qed.

(* with a dialog open no key moves the level *)
Lemma key_dialog_keeps_privacy : forall k w a w' a',
  (show_help (a_view a) = true \/ show_settings (a_view a) = true) ->
  handle_key k w a = Ok (w', a') -> privacy (a_view a') = privacy (a_view a).
Proof.
  intros k w a w' a' Hd H. unfold handle_key in H. eapply exec_methods_privacy; [exact H|].
  apply dispatch_privacy. right. exact Hd.
Qed.

(* ------------------------------------------------------------------ the level stays a u8 along every history *)

(* B: the level the application was started with (--tui-privacy-max-ttl, a u8) *)
Definition priv_inv (B : Z) (a : app) : Prop :=
  forall n, privacy (a_view a) = Some n -> 0 <= n <= Z.max B 254.

Lemma exec_method_priv_inv : forall B m w a w' a', valid w a -> exec_method m w a = Ok (w', a') ->
  priv_inv B a -> priv_inv B a'.
Proof.
  intros B m w a w' a' V H P. destruct (privacy_method m) eqn:Pm.
  - destruct m; try discriminate Pm; cbn [exec_method] in H.
    + (* expand *) destruct (valid_hops w a V) as (hs & Hhs & Hl).
      unfold expand_privacy in H. rewrite Hhs in H. cbn [bind] in H. unfold expand_privacy_step in H.
      unfold priv_inv in *. destruct (privacy (a_view a)) as [p|] eqn:Ep.
      * specialize (P p eq_refl). destruct (p <? zlen hs) eqn:E.
        -- unfold add8, add_w in H. destruct (p + 1 <? 256); cbn [bind] in H; [|discriminate H].
           inversion H; subst. cbn. intros n En. inversion En; subst. lia.
        -- cbn [bind] in H. inversion H; subst. cbn. intros n En. inversion En; subst. lia.
      * cbn [bind] in H. inversion H; subst. cbn. intros n En. inversion En; subst. lia.
    + (* contract *) inversion H; subst. unfold priv_inv, contract_privacy in *. cbn.
      destruct (privacy (a_view a)) as [p|] eqn:Ep; cbn; [|intros n En; discriminate En].
      specialize (P p eq_refl). destruct (p >? 0) eqn:E; intros n En; [inversion En; subst; lia|discriminate En].
  - unfold priv_inv. rewrite (exec_method_privacy _ _ _ _ _ H Pm). exact P.
Qed.

Lemma exec_methods_priv_inv : forall B ms w a w' a', valid w a -> Forall method_wf ms ->
  exec_methods ms w a = Ok (w', a') -> priv_inv B a -> priv_inv B a'.
Proof.
  induction ms as [|m t IH]; intros w a w' a' V Hm H P; cbn [exec_methods] in H.
  - inversion H; subst. exact P.
  - inversion Hm as [|? ? Hm1 Hm2]; subst.
    destruct (exec_method_ok m w a V Hm1) as (w1 & a1 & E1 & V1). rewrite E1 in H. cbn [bind fst snd] in H.
    eapply IH; [exact V1|exact Hm2|exact H|]. exact (exec_method_priv_inv B m w a w1 a1 V E1 P).
Qed.

Lemma step_priv_inv : forall B o w a w' a', valid w a -> op_wf o -> step o w a = Ok (w', a') ->
  priv_inv B a -> priv_inv B a'.
Proof.
  intros B o w a w' a' V Ho H P. destruct o; cbn [step] in H.
  - inversion H; subst. exact P.
  - exact (exec_method_priv_inv B m w a w' a' V H P).
  - unfold handle_key in H. exact (exec_methods_priv_inv B _ w a w' a' V (dispatch_wf k a Ho) H P).
  - destruct (frame w a) as [a1| |] eqn:F; cbn [bind] in H; try discriminate H. inversion H; subst.
    destruct (frame_frame _ _ _ F) as (Vw & _). unfold priv_inv. rewrite Vw. exact P.
Qed.

Lemma run_priv_inv : forall B ops w a w' a', valid w a -> Forall op_wf ops -> run ops w a = Ok (w', a') ->
  priv_inv B a -> priv_inv B a'.
Proof.
  induction ops as [|o t IH]; intros w a w' a' V Ho H P; cbn [run] in H.
  - inversion H; subst. exact P.
  - inversion Ho as [|? ? Ho1 Ho2]; subst.
    destruct (step_ok o w a V Ho1) as (w1 & a1 & E1 & V1). rewrite E1 in H. cbn [bind fst snd] in H.
    eapply IH; [exact V1|exact Ho2|exact H|]. exact (step_priv_inv B o w a w1 a1 V Ho1 E1 P).
Qed.

(* ------------------------------------------------------------------ the keyboard stops at the hop COUNT *)

(* however often expand / contract are pressed while the flow shows hc hops, a hop whose ttl is above
   hc is never hidden *)
Lemma walk_never_above_count : forall hc steps, 0 <= hc <= 254 -> Forall (pstep_ok hc) steps ->
  exists r, privacy_walk steps None = Ok r /\ length r = length steps /\
    Forall (fun q => forall t, hc < t -> hidden q t = false) r.
Proof.
  intros hc steps Hhc Hs.
  destruct (privacy_walk_range hc steps None) as (r & Hr & Hl & Hf); [lia|exact Hs|cbn; lia|intros n E; discriminate E|].
  exists r. split; [exact Hr|]. split; [exact Hl|]. eapply Forall_impl; [|exact Hf].
  intros [n|] Hq t Ht; cbn in *; [|reflexivity]. destruct (t <=? n) eqn:E; [lia|reflexivity].
Qed.

(* the claim "the keyboard can hide every displayed hop" is false when the trace starts above ttl 1
   (--first-ttl 3): the table shows ttl 3, 4, 5 (three hops), expand stops at 3, ttl 4 and 5 stay visible *)
Lemma first_ttl_tail_never_hidden :
  exists first_ttl hc ttl, 1 < first_ttl /\ first_ttl <= ttl < first_ttl + hc /\
    forall steps, Forall (pstep_ok hc) steps ->
      exists r, privacy_walk steps None = Ok r /\ Forall (fun q => hidden q ttl = false) r.
Proof.
  exists 3, 3, 5. split; [lia|]. split; [lia|]. intros steps Hs.
  destruct (walk_never_above_count 3 steps ltac:(lia) Hs) as (r & Hr & _ & Hf).
  exists r. split; [exact Hr|]. eapply Forall_impl; [|exact Hf]. intros q Hq. apply Hq. lia.
Qed.
