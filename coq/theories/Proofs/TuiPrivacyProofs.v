(* Lemmas for C18: the privacy comparison and the step functions (Tui/Privacy.v). *)
From Coq Require Import ZifyBool.
From TV Require Import Base.Result Tui.Privacy.
Import TuiPrivacy.

Lemma hidden_some : forall n ttl, hidden (Some n) ttl = (ttl <=? n).
Proof. reflexivity. Qed.

Lemma hidden_none : forall ttl, hidden None ttl = false.
Proof. reflexivity. Qed.

Lemma hidden_iff : forall p ttl, hidden p ttl = true <-> exists n, p = Some n /\ ttl <= n.
Proof.
  intros [n|] ttl; cbn.
  - rewrite Z.leb_le. split; [eauto|]. intros (m & E & H). inversion E; subst. exact H.
  - split; [discriminate|]. intros (m & E & _). discriminate E.
Qed.

Lemma map_pin_shown_false : forall n hs, (forall t, In t hs -> t <= n) -> map_pin_shown (Some n) hs = false.
Proof.
  intros n hs H. unfold map_pin_shown. induction hs as [|t r IH]; [reflexivity|].
  cbn [existsb opt_gt]. assert (t <= n) by (apply H; left; reflexivity).
  destruct (n <? t) eqn:E; [lia|]. cbn [orb]. apply IH. intros u Hu. apply H. right. exact Hu.
Qed.

Lemma map_pin_shown_true : forall p hs t, In t hs -> hidden p t = false -> map_pin_shown p hs = true.
Proof.
  intros p hs t Hin Hh. unfold map_pin_shown. apply existsb_exists. exists t. split; [exact Hin|].
  destruct p as [n|]; cbn in *; [|reflexivity]. destruct (t <=? n) eqn:E; [discriminate|]. lia.
Qed.

Lemma expand_step_spec : forall hc p, 0 <= hc <= 255 ->
  exists q, expand_privacy_step hc p = Ok q /\
    (level p < hc -> level q = level p + 1) /\ (hc <= level p -> q = p) /\ q <> None.
Proof.
  intros hc [n|] Hhc; cbn [expand_privacy_step level].
  - destruct (n <? hc) eqn:E.
    + unfold add8, add_w. destruct (n + 1 <? 256) eqn:E2; [|lia]. cbn [bind]. eexists. split; [reflexivity|].
      cbn [level]. split; [lia|]. split; [lia|discriminate].
    + eexists. split; [reflexivity|]. split; [lia|]. split; [reflexivity|discriminate].
  - eexists. split; [reflexivity|]. cbn [level]. split; [lia|]. split; [lia|discriminate].
Qed.

Lemma contract_step_spec : forall p, (forall n, p = Some n -> 0 <= n) ->
  (0 <= level p -> level (contract_privacy_step p) = level p - 1) /\
  (p = None -> contract_privacy_step p = None) /\
  (forall n, contract_privacy_step p = Some n -> 0 <= n).
Proof.
  intros [n|] Hn; cbn [contract_privacy_step level].
  - specialize (Hn n eq_refl). destruct (n >? 0) eqn:E; cbn [level].
    + split; [lia|]. split; [discriminate|]. intros m Hm. inversion Hm. lia.
    + split; [lia|]. split; [discriminate|]. intros m Hm. discriminate Hm.
  - split; [lia|]. split; [reflexivity|]. intros m Hm. discriminate Hm.
Qed.

(* a walk: expand (with the hop count of the moment) or contract *)
Inductive pstep := PExpand (hop_count : Z) | PContract.

Fixpoint privacy_walk (steps : list pstep) (p : option Z) : result (list (option Z)) :=
  match steps with
  | [] => Ok []
  | PExpand hc :: t => let* q := expand_privacy_step hc p in let* r := privacy_walk t q in Ok (q :: r)
  | PContract :: t => let q := contract_privacy_step p in let* r := privacy_walk t q in Ok (q :: r)
  end.

Definition pstep_ok (H : Z) (s : pstep) : Prop := match s with PExpand hc => 0 <= hc <= H | PContract => True end.

Lemma privacy_walk_range : forall H steps p, H <= 254 -> Forall (pstep_ok H) steps -> -1 <= level p <= H ->
  (forall n, p = Some n -> 0 <= n) ->
  exists r, privacy_walk steps p = Ok r /\ length r = length steps /\ Forall (fun q => -1 <= level q <= H) r.
Proof.
  intros H steps. induction steps as [|s t IH]; intros p HH Hs Hp Hn; cbn [privacy_walk].
  - exists []. split; [reflexivity|]. split; [reflexivity|constructor].
  - inversion Hs as [|? ? Hs1 Hs2]; subst. destruct s as [hc|]; cbn [pstep_ok] in Hs1.
    + destruct (expand_step_spec hc p) as (q & Hq & Hup & Hstay & Hne); [lia|]. rewrite Hq. cbn [bind].
      assert (-1 <= level q <= H) as Hq'.
      { destruct (Z.lt_ge_cases (level p) hc) as [L|L]; [rewrite (Hup L); lia|rewrite (Hstay L); lia]. }
      assert (forall n, q = Some n -> 0 <= n) as Hqn.
      { intros n E. subst q. destruct (Z.lt_ge_cases (level p) hc) as [L|L].
        - specialize (Hup L). cbn [level] in Hup. lia.
        - specialize (Hstay L). apply Hn. auto. }
      destruct (IH q HH Hs2 Hq' Hqn) as (r & Hr & Hl & Hf). rewrite Hr. cbn [bind].
      eexists. split; [reflexivity|]. split; [simpl; congruence|constructor; auto].
    + destruct (contract_step_spec p Hn) as (Hdown & Hnone & Hqn).
      assert (-1 <= level (contract_privacy_step p) <= H) as Hq'.
      { destruct p as [n|]; [specialize (Hn n eq_refl); cbn [level] in *; specialize (Hdown Hn); lia|].
        rewrite (Hnone eq_refl). cbn [level]. lia. }
      destruct (IH _ HH Hs2 Hq' Hqn) as (r & Hr & Hl & Hf). rewrite Hr. cbn [bind].
      eexists. split; [reflexivity|]. split; [simpl; congruence|constructor; auto].
Qed.
