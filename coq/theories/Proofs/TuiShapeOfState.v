(* C17: the environment assumption of the TuiApp model discharged.

   Tui/App.v works on the SHAPE of a trippy-core State (which flow ids the map has, how many hops
   each flow shows, how many addresses each hop has, the registered flows, max_flows) and
   Proofs/TuiAppProofs.v assumes every shape it is given is well formed (wf_shape).  Here the shape
   is computed from the State model of Core/State.v (shape_of_state: what `Tracer::snapshot()` hands
   to the TUI) and wf_shape is PROVED for every State the core can be in: State::new, any number of
   published rounds (update_from_round, rounds as the strategy publishes them: StateProofs.wf_round,
   which PublishWf.strategy_rounds_wf proves of the strategy model), Tracer::clear, set_error - in
   any order.  On the way: update_from_round never faults on such a State, `hops()` never faults, and
   the number of rows a flow shows never decreases while rounds arrive (only clear shrinks a path). *)
From Coq Require Import ZifyBool.
From TV Require Import Base.Result Core.Types Core.Strategy Core.Flows Core.State Tui.Privacy Tui.App
  Proofs.FlowsProofs Proofs.StateProofs Proofs.TuiAppProofs.


(* ------------------------------------------------------------------ the shape of a core State *)

Definition hop_shape_of (h : State.hop) : TuiApp.hop_shape :=
  TuiApp.mk_hop (Z.of_nat (length (h_addrs h))) (State.h_ttl h).

Definition flow_shape_of (id : Z) (f : flow_state) : result TuiApp.flow_shape :=
  let* hs := fs_hops_view f in Ok (TuiApp.mk_flow id (fs_round_count f) (map hop_shape_of hs)).

Fixpoint flows_shape_of (l : list (Z * flow_state)) : result (list TuiApp.flow_shape) :=
  match l with
  | [] => Ok []
  | (id, f) :: t => let* x := flow_shape_of id f in let* r := flows_shape_of t in Ok (x :: r)
  end.

(* what the TUI sees of a snapshot *)
Definition shape_of_state (s : state) : result TuiApp.shape :=
  let* fl := flows_shape_of (st_flows s) in
  Ok (TuiApp.mk_shape (st_max_flows s) (match st_error s with Some _ => true | None => false end)
        (ids (reg_flows (st_registry s))) fl).

(* State::set_error *)
Definition set_error (s : state) (e : option Z) : state :=
  {| st_max_samples := st_max_samples s; st_max_flows := st_max_flows s; st_round_flow_id := st_round_flow_id s;
     st_flows := st_flows s; st_registry := st_registry s; st_error := e |}.

(* every State a tracer can hold: new, rounds, clear (= new again), error set / reset *)
Inductive reach (ms mf : Z) : state -> Prop :=
| reach_new : reach ms mf (state_new ms mf)
| reach_round : forall s r s', reach ms mf s -> wf_round r -> update_from_round s r = Ok s' -> reach ms mf s'
| reach_clear : forall s, reach ms mf s -> reach ms mf (state_new ms mf)
| reach_error : forall s e, reach ms mf s -> reach ms mf (set_error s e).

(* ------------------------------------------------------------------ the state invariant *)

Definition SInv (s : state) : Prop :=
  dense (st_registry s) /\
  Z.of_nat (length (reg_flows (st_registry s))) <= st_max_flows s /\
  Forall (fun kv => WInv (snd kv)) (st_flows s) /\
  flows_get (st_flows s) 0 <> None /\
  (forall id, In id (ids (reg_flows (st_registry s))) -> flows_get (st_flows s) id <> None).

Lemma flows_get_set_eq : forall l id v, flows_get (flows_set l id v) id = Some v.
Proof.
  induction l as [|[k x] t IH]; intros id v; cbn [flows_set flows_get].
  - rewrite Z.eqb_refl. reflexivity.
  - destruct (k =? id) eqn:E; cbn [flows_get]; rewrite E; [reflexivity|apply IH].
Qed.

Lemma flows_get_set_neq : forall l id v id', id' <> id -> flows_get (flows_set l id v) id' = flows_get l id'.
Proof.
  induction l as [|[k x] t IH]; intros id v id' Hne; cbn [flows_set flows_get].
  - destruct (id =? id') eqn:E; [lia|reflexivity].
  - destruct (k =? id) eqn:E; cbn [flows_get].
    + destruct (k =? id') eqn:E2; [lia|reflexivity].
    + destruct (k =? id'); [reflexivity|apply IH; exact Hne].
Qed.

Lemma flows_get_set_some : forall l id v id', flows_get l id' <> None -> flows_get (flows_set l id v) id' <> None.
Proof.
  intros l id v id' H. destruct (Z.eq_dec id' id) as [E|E].
  - subst. rewrite flows_get_set_eq. discriminate.
  - rewrite flows_get_set_neq by exact E. exact H.
Qed.

Lemma flows_get_In : forall l id f, flows_get l id = Some f -> In (id, f) l.
Proof.
  induction l as [|[k x] t IH]; intros id f H; cbn [flows_get] in H; [discriminate|].
  destruct (k =? id) eqn:E.
  - inversion H; subst. left. f_equal. lia.
  - right. apply IH. exact H.
Qed.

Lemma flows_set_Forall : forall (P : Z * flow_state -> Prop) l id v,
  Forall P l -> (forall k, P (k, v)) -> Forall P (flows_set l id v).
Proof.
  induction l as [|[k x] t IH]; intros id v Hl Hv; cbn [flows_set].
  - constructor; [apply Hv|constructor].
  - inversion Hl as [|? ? H1 H2]; subst. destruct (k =? id).
    + constructor; [apply Hv|exact H2].
    + constructor; [exact H1|apply IH; assumption].
Qed.

Lemma zseq_In : forall n a x, In x (zseq a n) -> a <= x < a + Z.of_nat n.
Proof.
  induction n as [|n IH]; intros a x H; cbn [zseq] in H; [contradiction|].
  destruct H as [H|H]; [lia|]. apply IH in H. lia.
Qed.

(* one flow updated by one round *)
Lemma update_trace_flow_ok : forall s id r,
  Forall (fun kv => WInv (snd kv)) (st_flows s) -> wf_round r ->
  exists f', update_trace_flow s id r = Ok
      {| st_max_samples := st_max_samples s; st_max_flows := st_max_flows s; st_round_flow_id := st_round_flow_id s;
         st_flows := flows_set (st_flows s) id f'; st_registry := st_registry s; st_error := st_error s |} /\
    WInv f' /\
    (forall f, flows_get (st_flows s) id = Some f ->
       fs_highest_ttl f' = Z.max (fs_highest_ttl f) (rr_largest_ttl r) /\
       fs_lowest_ttl f' = fold_left update_lowest (ttls (rr_probes r)) (fs_lowest_ttl f) /\
       fs_round_count f' = fs_round_count f + 1).
Proof.
  intros s id r HF Hr. unfold update_trace_flow.
  set (f := match flows_get (st_flows s) id with Some f => f | None => flow_state_new (st_max_samples s) end).
  assert (WInv f) as HW.
  { subst f. destruct (flows_get (st_flows s) id) as [f0|] eqn:E; [|apply WInv_new].
    apply flows_get_In in E. rewrite Forall_forall in HF. apply (HF _ E). }
  destruct (fs_apply_window f r HW Hr) as (f' & Ha & HW' & Hh & _ & Hc & Hl & _).
  rewrite Ha. cbn [bind]. exists f'. split; [reflexivity|]. split; [exact HW'|].
  intros f0 E. subst f. rewrite E in *. split; [exact Hh|]. split; [exact Hl|exact Hc].
Qed.

Lemma register_ids : forall r f r' id, dense r -> register r f = (r', id) ->
  In id (ids (reg_flows r')) /\
  (forall x, In x (ids (reg_flows r')) -> In x (ids (reg_flows r)) \/ x = id).
Proof.
  intros r f r' id [Hd1 Hd2] H. unfold register in H.
  destruct (find_merge (reg_flows r) f) as [[fl id']|] eqn:Ef.
  - inversion H; subst. destruct (find_merge_spec _ _ _ _ Ef) as (H1 & H2 & _).
    cbn [reg_flows]. rewrite H1. split; [exact H2|]. intros x Hx. left. exact Hx.
  - inversion H; subst. cbn [reg_flows]. unfold ids. rewrite map_app. cbn [map snd]. split.
    + apply in_or_app. right. left. reflexivity.
    + intros x Hx. apply in_app_or in Hx. destruct Hx as [Hx|[Hx|[]]]; [left; exact Hx|right; symmetry; exact Hx].
Qed.

Lemma register_existing_ids : forall r f r' id, dense r -> register_existing r f = (r', Some id) ->
  In id (ids (reg_flows r')) /\ ids (reg_flows r') = ids (reg_flows r).
Proof.
  intros r f r' id _ H. unfold register_existing in H.
  destruct (find_merge (reg_flows r) f) as [[fl id']|] eqn:Ef; [|inversion H].
  inversion H; subst. destruct (find_merge_spec _ _ _ _ Ef) as (H1 & H2 & _).
  cbn [reg_flows]. rewrite H1. split; [exact H2|reflexivity].
Qed.

(* a round applied to a State that satisfies the invariant: never a fault, invariant kept *)
Lemma update_from_round_SInv : forall s r, SInv s -> wf_round r ->
  exists s', update_from_round s r = Ok s' /\ SInv s' /\
    st_max_flows s' = st_max_flows s /\ st_max_samples s' = st_max_samples s /\ st_error s' = st_error s.
Proof.
  intros s r (Hd & Hlen & HF & H0 & Hreg) Hr. unfold update_from_round.
  destruct (update_trace_flow_ok s 0 r HF Hr) as (f0 & E0 & HW0 & _). rewrite E0. cbn [bind].
  set (s1 := {| st_max_samples := st_max_samples s; st_max_flows := st_max_flows s; st_round_flow_id := st_round_flow_id s;
                st_flows := flows_set (st_flows s) 0 f0; st_registry := st_registry s; st_error := st_error s |}).
  assert (HF1 : Forall (fun kv => WInv (snd kv)) (st_flows s1)).
  { subst s1. cbn [st_flows]. apply flows_set_Forall; [exact HF|intros k; exact HW0]. }
  cbn [st_registry st_max_flows s1].
  destruct (Z.of_nat (length (reg_flows (st_registry s))) <? st_max_flows s) eqn:El.
  - destruct (register (st_registry s) (round_flow r)) as [reg id] eqn:Er.
    destruct (register_spec _ _ _ _ Hd Er) as (Hd' & _ & Hl' & _).
    destruct (register_ids _ _ _ _ Hd Er) as (Hin & Hids).
    destruct (update_trace_flow_ok (with_registry s1 reg id) id r) as (f1 & E1 & HW1 & _); [exact HF1|exact Hr|].
    rewrite E1. eexists. split; [reflexivity|]. cbn [with_registry st_max_samples st_max_flows st_round_flow_id st_flows st_registry st_error s1].
    split; [|repeat split; reflexivity].
    unfold SInv. cbn [st_registry st_max_flows st_flows].
    split; [exact Hd'|]. split; [lia|]. split.
    { apply flows_set_Forall; [exact HF1|intros k; exact HW1]. }
    split.
    { apply flows_get_set_some. apply flows_get_set_some. exact H0. }
    intros x Hx. destruct (Hids x Hx) as [Hold|Hnew].
    + apply flows_get_set_some. apply flows_get_set_some. apply Hreg. exact Hold.
    + subst x. rewrite flows_get_set_eq. discriminate.
  - destruct (register_existing (st_registry s) (round_flow r)) as [reg o] eqn:Er.
    destruct (register_existing_spec _ _ _ _ Hd Er) as (Hd' & Hl' & _ & _).
    destruct o as [id|].
    + destruct (register_existing_ids _ _ _ _ Hd Er) as (Hin & Hids).
      destruct (update_trace_flow_ok (with_registry s1 reg id) id r) as (f1 & E1 & HW1 & _); [exact HF1|exact Hr|].
      rewrite E1. eexists. split; [reflexivity|]. cbn [with_registry st_max_samples st_max_flows st_round_flow_id st_flows st_registry st_error s1].
      split; [|repeat split; reflexivity].
      unfold SInv. cbn [st_registry st_max_flows st_flows].
      split; [exact Hd'|]. split; [lia|]. split.
      { apply flows_set_Forall; [exact HF1|intros k; exact HW1]. }
      split.
      { apply flows_get_set_some. apply flows_get_set_some. exact H0. }
      intros x Hx. rewrite Hids in Hx. apply flows_get_set_some. apply flows_get_set_some. apply Hreg. exact Hx.
    + eexists. split; [reflexivity|]. subst s1. cbn [st_max_samples st_max_flows st_error].
      split; [|repeat split; reflexivity].
      unfold SInv. cbn [st_registry st_max_flows st_flows].
      split; [exact Hd|]. split; [exact Hlen|]. split; [exact HF1|]. split.
      { apply flows_get_set_some. exact H0. }
      intros x Hx. apply flows_get_set_some. apply Hreg. exact Hx.
Qed.

Lemma SInv_new : forall ms mf, 0 <= mf -> SInv (state_new ms mf).
Proof.
  intros ms mf Hmf. unfold SInv, state_new. cbn [st_registry st_max_flows st_flows].
  split; [apply dense_new|]. split; [cbn; lia|]. split.
  { constructor; [apply WInv_new|constructor]. }
  split; [cbn; discriminate|]. intros id H. cbn in H. contradiction.
Qed.

Lemma reach_SInv : forall ms mf s, 0 <= mf -> reach ms mf s ->
  SInv s /\ st_max_flows s = mf /\ st_max_samples s = ms.
Proof.
  intros ms mf s Hmf R. induction R as [|s r s' R IH Hr E|s R IH|s e R IH].
  - split; [apply SInv_new; exact Hmf|split; reflexivity].
  - destruct IH as (I & M1 & M2). destruct (update_from_round_SInv s r I Hr) as (s2 & E2 & I2 & M3 & M4 & _).
    rewrite E in E2. inversion E2; subst s2. split; [exact I2|]. split; congruence.
  - split; [apply SInv_new; exact Hmf|split; reflexivity].
  - destruct IH as (I & M1 & M2). split; [exact I|]. split; assumption.
Qed.

(* ------------------------------------------------------------------ shape of a State with the invariant *)

Lemma flows_shape_of_ok : forall l, Forall (fun kv => WInv (snd kv)) l ->
  exists fl, flows_shape_of l = Ok fl /\
    forall id, match flows_get l id with
               | Some f => exists hs, fs_hops_view f = Ok hs /\
                             TuiApp.find_flow fl id = Ok (TuiApp.mk_flow id (fs_round_count f) (map hop_shape_of hs))
               | None => TuiApp.find_flow fl id = Fault MissingKey
               end.
Proof.
  induction l as [|[k f] t IH]; intros HF; cbn [flows_shape_of].
  - exists []. split; [reflexivity|]. intros id. reflexivity.
  - inversion HF as [|? ? H1 H2]; subst. cbn [snd] in H1.
    destruct (hops_view_window f H1) as (hs & Hhs & _).
    destruct (IH H2) as (fl & Hfl & Hget).
    unfold flow_shape_of. rewrite Hhs. cbn [bind]. rewrite Hfl. cbn [bind].
    eexists. split; [reflexivity|]. intros id. cbn [flows_get TuiApp.find_flow TuiApp.fs_id].
    destruct (k =? id) eqn:E.
    + exists hs. split; [exact Hhs|]. f_equal. f_equal. lia.
    + apply Hget.
Qed.

Lemma hops_view_len : forall f hs, WInv f -> fs_hops_view f = Ok hs -> Z.of_nat (length hs) <= 254.
Proof.
  intros f hs HW E. pose proof HW as (_ & Hhi & HJ & _).
  destruct (hops_view_window f HW) as (hs' & E' & Hemp & Hwin & _).
  rewrite E in E'. inversion E'; subst hs'.
  destruct (Z.eq_dec (fs_lowest_ttl f) 0) as [L|L]; [rewrite Hemp by (left; exact L); cbn; lia|].
  destruct (Z.eq_dec (fs_highest_ttl f) 0) as [H|H]; [rewrite Hemp by (right; exact H); cbn; lia|].
  destruct (Hwin L H) as (_ & Hlen & _). lia.
Qed.

(* the shape of a State with the invariant exists and is well formed *)
Lemma SInv_shape_wf : forall s, SInv s -> exists d, shape_of_state s = Ok d /\ wf_shape d.
Proof.
  intros s (Hd & Hlen & HF & H0 & Hreg). unfold shape_of_state.
  destruct (flows_shape_of_ok _ HF) as (fl & Hfl & Hget). rewrite Hfl. cbn [bind].
  eexists. split; [reflexivity|].
  assert (Hhas : forall id, flows_get (st_flows s) id <> None ->
            has_flow (TuiApp.mk_shape (st_max_flows s) (match st_error s with Some _ => true | None => false end)
                        (ids (reg_flows (st_registry s))) fl) id).
  { intros id Hne. specialize (Hget id). destruct (flows_get (st_flows s) id) as [f|]; [|congruence].
    destruct Hget as (hs & _ & Hfind). unfold has_flow. cbn [TuiApp.sh_flows]. eexists. exact Hfind. }
  destruct Hd as [Hd1 Hd2].
  unfold wf_shape. cbn [TuiApp.sh_flows TuiApp.sh_registry TuiApp.sh_max_flows].
  split; [apply Hhas; exact H0|]. split.
  { intros id Hin. split; [apply Hhas; apply Hreg; exact Hin|]. rewrite Hd1 in Hin. apply zseq_In in Hin. lia. }
  split.
  { unfold TuiApp.zlen, ids. rewrite map_length. exact Hlen. }
  split.
  { intros Hne. rewrite Hd1 in *. destruct (length (reg_flows (st_registry s))); [cbn in Hne; congruence|]. left. reflexivity. }
  intros f x Hfind. specialize (Hget f).
  destruct (flows_get (st_flows s) f) as [fs|] eqn:Eg; [|rewrite Hget in Hfind; discriminate].
  destruct Hget as (hs & Hhs & Hx). rewrite Hx in Hfind. inversion Hfind; subst x. cbn [TuiApp.fs_hops].
  unfold TuiApp.zlen. rewrite map_length. apply (hops_view_len fs); [|exact Hhs].
  apply flows_get_In in Eg. rewrite Forall_forall in HF. apply (HF _ Eg).
Qed.

(* MAIN: every State the core can be in has a well-formed shape *)
Lemma reach_shape_wf : forall ms mf s, 0 <= mf -> reach ms mf s ->
  exists d, shape_of_state s = Ok d /\ wf_shape d.
Proof. intros ms mf s Hmf R. apply SInv_shape_wf. apply (reach_SInv ms mf s Hmf R). Qed.

(* ... and the next published round never faults on it *)
Lemma reach_round_total : forall ms mf s r, 0 <= mf -> reach ms mf s -> wf_round r ->
  exists s', update_from_round s r = Ok s' /\ reach ms mf s'.
Proof.
  intros ms mf s r Hmf R Hr. destruct (reach_SInv ms mf s Hmf R) as (I & _).
  destruct (update_from_round_SInv s r I Hr) as (s' & E & _). exists s'. split; [exact E|].
  eapply reach_round; eauto.
Qed.

(* Tracer::clear gives exactly the shape the model's clear_trace_data writes (clear_shape) *)
Lemma shape_of_state_new : forall ms mf d, TuiApp.sh_max_flows d = mf ->
  shape_of_state (state_new ms mf) = Ok (TuiApp.clear_shape d).
Proof. intros ms mf d E. subst mf. reflexivity. Qed.

(* set_error only flips the error flag of the shape *)
Lemma shape_of_set_error : forall s e d, shape_of_state s = Ok d ->
  shape_of_state (set_error s e) =
    Ok (TuiApp.mk_shape (TuiApp.sh_max_flows d) (match e with Some _ => true | None => false end) (TuiApp.sh_registry d) (TuiApp.sh_flows d)).
Proof.
  intros s e d H. unfold shape_of_state in *. cbn [set_error st_flows st_max_flows st_error st_registry].
  destruct (flows_shape_of (st_flows s)); cbn [bind] in *; try discriminate. inversion H; subst. reflexivity.
Qed.

(* ------------------------------------------------------------------ paths only grow while rounds arrive *)

Definition hop_count_of (s : state) (id : Z) : Z :=
  match flows_get (st_flows s) id with
  | Some f => match fs_hops_view f with Ok hs => Z.of_nat (length hs) | _ => 0 end
  | None => 0
  end.

Lemma hops_view_count : forall f, WInv f ->
  match fs_hops_view f with Ok hs => Z.of_nat (length hs) | _ => 0 end =
  if (fs_lowest_ttl f =? 0) || (fs_highest_ttl f =? 0) then 0 else fs_highest_ttl f - fs_lowest_ttl f + 1.
Proof.
  intros f HW. destruct (hops_view_window f HW) as (hs & E & Hemp & Hwin & _). rewrite E.
  destruct (Z.eq_dec (fs_lowest_ttl f) 0) as [L|L].
  { rewrite Hemp by (left; exact L). rewrite L. reflexivity. }
  destruct (Z.eq_dec (fs_highest_ttl f) 0) as [H|H].
  { rewrite Hemp by (right; exact H). rewrite H. rewrite orb_true_r. reflexivity. }
  destruct (Hwin L H) as (_ & Hlen & _). rewrite Hlen.
  destruct (fs_lowest_ttl f =? 0) eqn:E1; [lia|]. destruct (fs_highest_ttl f =? 0) eqn:E2; [lia|]. reflexivity.
Qed.

Lemma fold_lowest_le : forall l lo, 0 <= lo -> Forall (fun t => 1 <= t <= 254) l ->
  (lo = 0 -> 0 <= fold_left update_lowest l lo) /\ (lo <> 0 -> 1 <= fold_left update_lowest l lo <= lo) /\
  (fold_left update_lowest l lo = 0 -> lo = 0).
Proof.
  induction l as [|t r IH]; intros lo Hlo Hl; cbn [fold_left].
  - repeat split; intros; lia.
  - inversion Hl as [|? ? Ht Hr]; subst.
    assert (1 <= update_lowest lo t /\ (lo <> 0 -> update_lowest lo t <= lo)) as [U1 U2].
    { unfold update_lowest. destruct (lo =? 0) eqn:E; lia. }
    destruct (IH (update_lowest lo t)) as (_ & I2 & I3); [lia|exact Hr|].
    assert (J := I2 ltac:(lia)).
    split; [intros; lia|]. split; [intros H; specialize (U2 H); lia|].
    intros H. specialize (I3 H). lia.
Qed.

(* one flow, one round: the window lowest..highest only widens *)
Lemma fs_apply_count_mono : forall f r f', WInv f -> wf_round r -> fs_apply f r = Ok f' ->
  (if (fs_lowest_ttl f =? 0) || (fs_highest_ttl f =? 0) then 0 else fs_highest_ttl f - fs_lowest_ttl f + 1) <=
  (if (fs_lowest_ttl f' =? 0) || (fs_highest_ttl f' =? 0) then 0 else fs_highest_ttl f' - fs_lowest_ttl f' + 1).
Proof.
  intros f r f' HW Hr E. pose proof HW as (_ & Hhi & HJ & _). pose proof Hr as (Hok & Hl & _).
  destruct (fs_apply_window f r HW Hr) as (f2 & E2 & HW2 & Hh & _ & _ & Hlo & _).
  rewrite E in E2. inversion E2; subst f2. pose proof HW2 as (_ & Hhi2 & HJ2 & _).
  destruct (fold_lowest_le (ttls (rr_probes r)) (fs_lowest_ttl f)) as (L1 & L2 & L3); [lia|exact Hok|].
  rewrite <- Hlo in L1, L2, L3.
  destruct ((fs_lowest_ttl f =? 0) || (fs_highest_ttl f =? 0)) eqn:Ea.
  - destruct ((fs_lowest_ttl f' =? 0) || (fs_highest_ttl f' =? 0)) eqn:Eb; [lia|].
    apply orb_false_iff in Eb. destruct Eb as [Eb1 Eb2]. lia.
  - apply orb_false_iff in Ea. destruct Ea as [Ea1 Ea2].
    specialize (L2 ltac:(lia)).
    destruct ((fs_lowest_ttl f' =? 0) || (fs_highest_ttl f' =? 0)) eqn:Eb; [|lia].
    apply orb_true_iff in Eb. destruct Eb as [Eb|Eb]; lia.
Qed.

Lemma hop_count_of_nonneg : forall s id, 0 <= hop_count_of s id.
Proof.
  intros s id. unfold hop_count_of. destruct (flows_get (st_flows s) id); [|lia].
  destruct (fs_hops_view f); lia.
Qed.

Lemma update_trace_flow_count_mono : forall s id r s',
  Forall (fun kv => WInv (snd kv)) (st_flows s) -> wf_round r -> update_trace_flow s id r = Ok s' ->
  Forall (fun kv => WInv (snd kv)) (st_flows s') /\ forall x, hop_count_of s x <= hop_count_of s' x.
Proof.
  intros s id r s' HF Hr E. unfold update_trace_flow in E.
  set (f := match flows_get (st_flows s) id with Some f => f | None => flow_state_new (st_max_samples s) end) in E.
  assert (WInv f) as HW.
  { subst f. destruct (flows_get (st_flows s) id) as [f0|] eqn:E0; [|apply WInv_new].
    apply flows_get_In in E0. rewrite Forall_forall in HF. apply (HF _ E0). }
  destruct (fs_apply_window f r HW Hr) as (f' & Ha & HW' & _).
  rewrite Ha in E. cbn [bind] in E. inversion E; subst s'. cbn [st_flows]. split.
  { apply flows_set_Forall; [exact HF|intros k; exact HW']. }
  intros x. unfold hop_count_of at 2. cbn [st_flows].
  destruct (Z.eq_dec x id) as [Ex|Ex].
  - subst x. rewrite flows_get_set_eq. rewrite (hops_view_count f' HW').
    unfold hop_count_of. destruct (flows_get (st_flows s) id) as [f0|] eqn:E0.
    + subst f. rewrite (hops_view_count f0 HW). apply (fs_apply_count_mono f0 r f' HW Hr Ha).
    + destruct ((fs_lowest_ttl f' =? 0) || (fs_highest_ttl f' =? 0)) eqn:Eb; [lia|].
      pose proof HW' as (_ & _ & HJ & _). apply orb_false_iff in Eb. destruct Eb as [Eb1 Eb2]. lia.
  - rewrite flows_get_set_neq by exact Ex. unfold hop_count_of. lia.
Qed.

(* a published round never removes a row from any flow: a path only shrinks through Tracer::clear *)
Lemma update_from_round_count_mono : forall s r s', SInv s -> wf_round r -> update_from_round s r = Ok s' ->
  forall id, hop_count_of s id <= hop_count_of s' id.
Proof.
  intros s r s' (Hd & Hlen & HF & H0 & Hreg) Hr E id. unfold update_from_round in E.
  destruct (update_trace_flow s 0 r) as [s1| |] eqn:E1; cbn [bind] in E; try discriminate.
  destruct (update_trace_flow_count_mono _ _ _ _ HF Hr E1) as (HF1 & M1).
  destruct (Z.of_nat (length (reg_flows (st_registry s1))) <? st_max_flows s1).
  - destruct (register (st_registry s1) (round_flow r)) as [reg fid].
    assert (HFw : Forall (fun kv => WInv (snd kv)) (st_flows (with_registry s1 reg fid))) by exact HF1.
    destruct (update_trace_flow_count_mono _ _ _ _ HFw Hr E) as (_ & M2).
    specialize (M1 id). specialize (M2 id). unfold hop_count_of in *. cbn [with_registry st_flows] in M2. lia.
  - destruct (register_existing (st_registry s1) (round_flow r)) as [reg [fid|]].
    + assert (HFw : Forall (fun kv => WInv (snd kv)) (st_flows (with_registry s1 reg fid))) by exact HF1.
      destruct (update_trace_flow_count_mono _ _ _ _ HFw Hr E) as (_ & M2).
      specialize (M1 id). specialize (M2 id). unfold hop_count_of in *. cbn [with_registry st_flows] in M2. lia.
    + inversion E; subst s'. apply M1.
Qed.

(* the number of rows of the shape is hop_count_of *)
Lemma shape_hop_count : forall s d id hs, SInv s -> shape_of_state s = Ok d ->
  TuiApp.hops_for_flow d id = Ok hs -> TuiApp.zlen hs = hop_count_of s id.
Proof.
  intros s d id hs (_ & _ & HF & _) Hd Hh. unfold shape_of_state in Hd.
  destruct (flows_shape_of_ok _ HF) as (fl & Hfl & Hget). rewrite Hfl in Hd. cbn [bind] in Hd.
  inversion Hd; subst d. unfold TuiApp.hops_for_flow in Hh. cbn [TuiApp.sh_flows] in Hh.
  specialize (Hget id). unfold hop_count_of.
  destruct (flows_get (st_flows s) id) as [f|]; [|rewrite Hget in Hh; discriminate].
  destruct Hget as (hs0 & Hv & Hfind). rewrite Hfind in Hh. cbn [bind TuiApp.fs_hops] in Hh.
  inversion Hh; subst hs. rewrite Hv. unfold TuiApp.zlen. rewrite map_length. reflexivity.
Qed.

Lemma reach_count_mono : forall ms mf s r s', 0 <= mf -> reach ms mf s -> wf_round r ->
  update_from_round s r = Ok s' -> forall id, hop_count_of s id <= hop_count_of s' id.
Proof.
  intros ms mf s r s' Hmf R Hr E id. destruct (reach_SInv ms mf s Hmf R) as (I & _).
  eapply update_from_round_count_mono; eauto.
Qed.

Lemma reach_shape_hop_count : forall ms mf s d id hs, 0 <= mf -> reach ms mf s -> shape_of_state s = Ok d ->
  TuiApp.hops_for_flow d id = Ok hs -> TuiApp.zlen hs = hop_count_of s id.
Proof.
  intros ms mf s d id hs Hmf R Hd Hh. destruct (reach_SInv ms mf s Hmf R) as (I & _).
  eapply shape_hop_count; eauto.
Qed.

(* ------------------------------------------------------------------ non-vacuity *)

Definition ex_probe (t : Z) : probe :=
  {| p_sequence := 33000 + t; p_identifier := 1; p_src_port := 0; p_dest_port := 0; p_ttl := t; p_round := 0; p_sent := 0; p_flags := 0 |}.
Definition ex_complete (t : Z) (a : addr) : pstatus :=
  Complete {| c_probe := ex_probe t; c_host := a; c_received := 5; c_icmp := ITimeExceeded 0; c_tos := None;
              c_expected := None; c_actual := None; c_exts := None |}.
(* three hops, the second silent *)
Definition ex_round : round_rec :=
  {| rr_probes := [ex_complete 1 [10;0;0;1]; Awaited (ex_probe 2); ex_complete 3 [10;0;0;3]]; rr_largest_ttl := 3; rr_reason := TargetFound |}.

Example ex_round_wf : wf_round ex_round.
Proof.
  unfold wf_round, ttls_ok. cbn. split; [repeat constructor; lia|]. split; [lia|]. right. exists 1. split; [left; reflexivity|lia].
Qed.

Example ex_reach_shape :
  match update_from_round (state_new 10 4) ex_round with
  | Ok s => match shape_of_state s with
            | Ok d => TuiApp.sh_registry d = [1] /\ TuiApp.hops_for_flow d 1 = Ok [TuiApp.mk_hop 1 1; TuiApp.mk_hop 0 2; TuiApp.mk_hop 1 3]
            | _ => False end
  | _ => False
  end.
Proof. vm_compute. split; reflexivity. Qed.
