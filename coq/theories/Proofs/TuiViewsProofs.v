(* Lemmas for C18 over the view model Tui/Views.v: whatever the application state, no fragment of a
   frame tells the address, host names, AS or GeoIP data of a hop inside the hidden range; the source
   is on screen only with privacy off; hops beyond the limit are drawn exactly as without privacy; a
   hidden row is independent of the hidden hop's addresses (text and height); map pins belong to
   locations with a visible hop.  Refuted: the selection box of the map is drawn for a hidden
   selected hop when a visible hop shares its location. *)
From Coq Require Import ZifyBool.
From TV Require Import Base.Result Tui.Privacy Tui.Views Proofs.TuiPrivacyProofs.
Import TuiPrivacy TuiViews.


(* ------------------------------------------------------------------ what may be on screen *)

(* a fragment is admissible under privacy p: literals and targets always (F18: the target is not
   covered by the feature), the source only with privacy off, hop data only for hops that are not hidden *)
Definition frag_ok (p : option Z) (f : frag) : Prop :=
  match f with
  | FLit _ | FNum _ | FPct _ _ | FDest _ => True
  | FSrc => p = None
  | FAddr t _ | FHost t _ | FAs t _ _ | FGeo t _ _ | FLoc t _ => hidden p t = false
  end.

Definition frags_ok (p : option Z) (l : list frag) : Prop := Forall (frag_ok p) l.

(* all hop data in l is about the hop with ttl t; no source *)
Definition about (t : Z) (l : list frag) : Prop :=
  Forall (fun f => f <> FSrc /\ (frag_ttl f = None \/ frag_ttl f = Some t)) l.

Lemma frag_ok_ttl : forall p f, frag_ok p f -> forall t, frag_ttl f = Some t -> hidden p t = false.
Proof. intros p f H t E. destruct f; cbn in *; try discriminate E; inversion E; subst; exact H. Qed.

Lemma about_ok : forall p t l, hidden p t = false -> about t l -> frags_ok p l.
Proof.
  intros p t l Hh Ha. unfold frags_ok, about in *. eapply Forall_impl; [|exact Ha].
  intros f [Hs [Hn|Ht]]; destruct f; cbn in *; try exact I; try congruence; try discriminate Hn;
    inversion Ht; subst; exact Hh.
Qed.

Lemma about_app : forall t a b, about t a -> about t b -> about t (a ++ b).
Proof. intros. apply Forall_app. split; assumption. Qed.

Lemma about_flat_map : forall A t (f : A -> list frag) l, (forall x, about t (f x)) -> about t (flat_map f l).
Proof. intros A t f l H. induction l as [|x r IH]; cbn [flat_map]; [constructor|apply about_app; auto]. Qed.

Ltac about_one := split; [discriminate | first [left; reflexivity | right; reflexivity]].
Ltac about_list := unfold about; repeat (apply Forall_cons; [about_one|]); try apply Forall_nil.
(* lists built with ++ from explicit pieces *)
Ltac about_auto :=
  unfold about, angle;
  repeat first [ apply Forall_nil | apply Forall_cons; [about_one|] | apply Forall_app; split ].

Lemma about_join : forall t sep ls, about t sep -> Forall (about t) ls -> about t (join_frags sep ls).
Proof.
  intros t sep ls Hs H. induction H as [|l r Hl Hr IH]; [constructor|].
  cbn [join_frags]. destruct r as [|l2 r2]; [exact Hl|].
  apply about_app; [exact Hl|]. apply about_app; [exact Hs|exact IH].
Qed.

Lemma format_dns_entry_about : forall t a e b, about t (format_dns_entry t a e b).
Proof.
  intros t a e b. unfold about, format_dns_entry.
  destruct e as [|[[|]|]|[[|]|]| |]; try destruct b; cbn [andb negb]; about_list.
Qed.

Lemma format_address_about : forall c h af, about (h_ttl h) (format_address c h af).
Proof.
  intros c h af. unfold format_address. apply about_app; [|apply about_app].
  - destruct (c_addr_mode c =? 0); [unfold about; about_list|].
    destruct (c_addr_mode c =? 1); [apply format_dns_entry_about|].
    apply about_app; [apply format_dns_entry_about|unfold about; about_list].
  - destruct (c_geo_mode c =? 0); [constructor|]. destruct (c_geo c (fst af)); unfold about; about_list.
  - destruct (zlen (h_info h) >? 1); unfold about; about_list.
Qed.

Lemma host_lines_about : forall c h, about (h_ttl h) (host_lines c h).
Proof.
  intros c h. unfold host_lines. apply about_join; [about_list|].
  apply Forall_forall. intros l Hl. apply in_map_iff in Hl. destruct Hl as (af & E & _). subst l. apply format_address_about.
Qed.

Lemma format_details_about : forall c h o, about (h_ttl h) (format_details c h o).
Proof.
  intros c h o. unfold format_details. destruct (nth_error (h_info h) (Z.to_nat o)) as [af|]; [|about_list].
  destruct (c_dns c (c_as_info c) (fst af)) as [|asinfo|asinfo| |]; try (about_list; fail);
    try (destruct asinfo as [[|]|]); destruct (c_as_info c); destruct (c_geo c (fst af)); about_auto.
Qed.

Lemma lit_ok : forall p n, frag_ok p (FLit n).
Proof. intros; exact I. Qed.

(* ------------------------------------------------------------------ the hop table *)

Lemma host_cell_ok : forall c h, frags_ok (c_privacy c) (host_cell c h).
Proof.
  intros c h. unfold host_cell, render_hostname.
  destruct (h_total_recv h >? 0); [|repeat constructor].
  destruct (hidden (c_privacy c) (h_ttl h)) eqn:E; [repeat constructor|].
  cbn [text_frags]. apply (about_ok _ (h_ttl h)); [exact E|]. apply host_lines_about.
Qed.

Lemma host_cell_details_ok : forall c h o, frags_ok (c_privacy c) (host_cell_details c h o).
Proof.
  intros c h o. unfold host_cell_details, render_hostname_with_details.
  destruct (h_total_recv h >? 0); [|repeat constructor].
  destruct (hidden (c_privacy c) (h_ttl h)) eqn:E; [repeat constructor|].
  cbn [text_frags]. apply (about_ok _ (h_ttl h)); [exact E|]. apply format_details_about.
Qed.

Lemma cells_ok : forall p cell (n : Z) cols, frags_ok p cell ->
  frags_ok p (flat_map (fun col => if col =? COL_HOST then fst (cell, n) else [FLit col]) cols).
Proof.
  intros p cell n cols Hc. cbn [fst]. induction cols as [|col t IH]; cbn [flat_map]; [constructor|].
  apply Forall_app. split; [|exact IH]. destruct (col =? COL_HOST); [exact Hc|repeat constructor].
Qed.

Lemma table_row_ok : forall st sel h r, table_row st sel h = Ok r -> frags_ok (c_privacy (s_cfg st)) (fst r).
Proof.
  intros st sel h r H. unfold table_row in H.
  set (is_sel := match sel with Some s => h_ttl s =? h_ttl h | None => false end) in H.
  destruct (is_sel && s_details st).
  - cbn [bind] in H. inversion H; subst. cbn [fst snd].
    exact (cells_ok _ _ 0 _ (host_cell_details_ok _ _ _)).
  - destruct (host_rows (s_cfg st) h); cbn [bind] in H; try discriminate H. inversion H; subst. cbn [fst snd].
    exact (cells_ok _ _ 0 _ (host_cell_ok _ _)).
Qed.

Lemma map_r_Forall : forall A B (f : A -> result B) (P : B -> Prop) l r,
  map_r f l = Ok r -> (forall x y, f x = Ok y -> P y) -> Forall P r.
Proof.
  induction l as [|x t IH]; intros r H HP; cbn [map_r] in H.
  - inversion H. constructor.
  - destruct (f x) eqn:E; cbn [bind] in H; try discriminate H.
    destruct (map_r f t) eqn:E2; cbn [bind] in H; try discriminate H. inversion H; subst.
    constructor; [eapply HP; eauto|eapply IH; eauto].
Qed.

Lemma frags_ok_flat_map : forall A p (f : A -> list frag) l, Forall (fun x => frags_ok p (f x)) l -> frags_ok p (flat_map f l).
Proof.
  intros A p f l H. induction H as [|x r H1 H2 IH]; cbn [flat_map]; [constructor|]. apply Forall_app. split; assumption.
Qed.

Lemma lits_ok : forall p l, frags_ok p (map FLit l).
Proof. intros p l. induction l; cbn; constructor; [exact I|assumption]. Qed.

Lemma table_rows_ok : forall st rows, table_rows st = Ok rows ->
  Forall (fun r => frags_ok (c_privacy (s_cfg st)) (fst r)) rows.
Proof.
  intros st rows H. unfold table_rows in H.
  destruct (selected_hop st) as [sel| |]; cbn [bind] in H; try discriminate H.
  eapply map_r_Forall; [exact H|]. intros x y Hy. eapply table_row_ok; eauto.
Qed.

Lemma table_view_ok : forall st t, table_view st = Ok t -> frags_ok (c_privacy (s_cfg st)) t.
Proof.
  intros st t H. unfold table_view in H.
  destruct (table_rows st) as [rows| |] eqn:E; cbn [bind] in H; try discriminate H.
  inversion H; subst. apply Forall_app. split; [apply lits_ok|].
  apply frags_ok_flat_map. eapply table_rows_ok; exact E.
Qed.

(* ------------------------------------------------------------------ the map *)

Lemma map_info_ok : forall c es sel, frags_ok (c_privacy c) (map_info c es sel).
Proof.
  intros c es sel. unfold map_info. apply Forall_app. split; [repeat constructor|].
  unfold render_map_info_panel. destruct (hidden (c_privacy c) (h_ttl sel)) eqn:E; [repeat constructor|].
  cbn [text_frags]. destruct (negb (c_mmdb c)); [repeat constructor|].
  destruct (filter _ es) as [|e [|e2 r]].
  - destruct (zlen (h_info sel) >? 0); [|repeat constructor].
    apply Forall_app. split; [repeat constructor|]. apply Forall_app. split; [|repeat constructor].
    apply (about_ok _ (h_ttl sel)); [exact E|]. apply about_join; [about_list|].
    apply Forall_forall. intros l Hl. apply in_map_iff in Hl. destruct Hl as (af & El & _). subst l. about_list.
  - constructor; [exact E|constructor].
  - repeat constructor.
Qed.

(* a pin (and its circle and selection box) is only drawn for a location one of whose hops is visible *)
Lemma map_marks_visible : forall c es sel_ttl m, In m (map_marks c es sel_ttl) ->
  exists e, In e es /\ (m = MPin (fst e) \/ m = MRadius (fst e) \/ m = MSelBox (fst e) sel_ttl) /\
            exists t, In t (snd e) /\ hidden (c_privacy c) t = false.
Proof.
  intros c es sel_ttl m H. unfold map_marks in H. apply in_flat_map in H. destruct H as (e & He & Hm).
  exists e. split; [exact He|].
  destruct (map_pin_shown (c_privacy c) (snd e)) eqn:P; [|contradiction].
  split.
  - destruct Hm as [Hm|[Hm|Hm]]; [left; auto|right; left; auto|].
    destruct (existsb (fun t => t =? sel_ttl) (snd e)); [|contradiction]. destruct Hm as [Hm|[]]. right. right. auto.
  - unfold map_pin_shown in P. apply existsb_exists in P. destruct P as (t & Ht & Hg). exists t. split; [exact Ht|].
    destruct (c_privacy c) as [n|]; cbn in *; [|reflexivity]. destruct (t <=? n) eqn:E; [lia|reflexivity].
Qed.

(* a location all of whose hops are hidden leaves no mark at all *)
Lemma map_marks_hidden_entry : forall c name ts sel_ttl,
  (forall t, In t ts -> hidden (c_privacy c) t = true) -> map_marks c [(name, ts)] sel_ttl = [].
Proof.
  intros c name ts sel_ttl H. unfold map_marks. cbn [flat_map snd fst].
  assert (map_pin_shown (c_privacy c) ts = false) as E.
  { unfold map_pin_shown. destruct (existsb _ ts) eqn:X; [|reflexivity].
    apply existsb_exists in X. destruct X as (t & Ht & Hg). specialize (H t Ht).
    destruct (c_privacy c) as [n|]; cbn in *; [lia|discriminate H]. }
  rewrite E. reflexivity.
Qed.

(* ------------------------------------------------------------------ the whole frame *)

Lemma render_inv : forall st fr mk, render st = Ok (fr, mk) ->
  exists bt ft, body_view st = Ok (bt, mk) /\ footer_view st = Ok ft /\
    fr = header_view st ++ (if 1 <? s_ntraces st then tabs_view st else if s_flows st then flows_view st else []) ++
         bt ++ ft ++ bar_view st ++ dialog_view st.
Proof.
  intros st fr mk H. unfold render in H.
  destruct (body_view st) as [[bt bm]| |] eqn:B; try discriminate H.
  destruct (footer_view st) as [ft| |] eqn:F; try discriminate H.
  exists bt, ft. unfold bind in H. injection H as Hfr Hmk. subst. repeat split; reflexivity.
Qed.

Lemma render_ok : forall st fr mk, render st = Ok (fr, mk) -> frags_ok (c_privacy (s_cfg st)) fr.
Proof.
  intros st fr mk H. destruct (render_inv _ _ _ H) as (bt & ft & B & F & E). subst fr. clear H.
  assert (Hb : frags_ok (c_privacy (s_cfg st)) bt).
  { unfold body_view in B.
    destruct (s_error st); [inversion B; repeat constructor|].
    destruct (s_no_data st); [inversion B; repeat constructor|].
    destruct (s_chart st).
    { unfold chart_view in B. destruct (selected_hop_or_target st); cbn [bind] in B; try discriminate B. inversion B; subst.
      apply Forall_app. split; [|repeat constructor]. apply frags_ok_flat_map. apply Forall_forall. intros i _. repeat constructor. }
    destruct (s_map st).
    { unfold world_view in B. destruct (selected_hop_or_target st); cbn [bind] in B; try discriminate B. inversion B; subst.
      apply map_info_ok. }
    destruct (table_view st) eqn:T; cbn [bind] in B; try discriminate B. inversion B; subst. eapply table_view_ok; eauto. }
  assert (Hf : frags_ok (c_privacy (s_cfg st)) ft).
  { unfold footer_view in F. destruct (selected_hop_or_target st); cbn [bind] in F; try discriminate F. inversion F. repeat constructor. }
  unfold frags_ok in *.
  apply Forall_app; split.
  { (* header *) unfold header_view, target_line, render_source, render_destination.
    destruct (c_privacy (s_cfg st)); cbn [text_frags List.app]; repeat constructor. }
  apply Forall_app; split.
  { (* tabs / flows *) destruct (1 <? s_ntraces st).
    + unfold tabs_view. induction (seq 0 (Z.to_nat (s_ntraces st))); cbn [map]; constructor; [exact I|assumption].
    + destruct (s_flows st); [|constructor]. unfold flows_view. apply frags_ok_flat_map. apply Forall_forall. intros x _. repeat constructor. }
  apply Forall_app; split; [exact Hb|]. apply Forall_app; split; [exact Hf|]. apply Forall_app; split.
  { (* bar *) unfold bar_view. repeat constructor. }
  (* dialogs *) unfold dialog_view. destruct (s_settings st); [repeat constructor|]. destruct (s_help st); repeat constructor.
Qed.

(* in the words of the property: with privacy ttl n in force no fragment of the frame is the address,
   host name, AS or GeoIP text of a hop with ttl <= n, and the source is not on screen *)
Lemma render_no_hidden_hop_data : forall st fr mk n, render st = Ok (fr, mk) -> c_privacy (s_cfg st) = Some n ->
  (forall f t, In f fr -> frag_ttl f = Some t -> n < t) /\ ~ In FSrc fr.
Proof.
  intros st fr mk n H Hp. pose proof (render_ok _ _ _ H) as Hok. rewrite Hp in Hok. unfold frags_ok in Hok.
  rewrite Forall_forall in Hok. split.
  - intros f t Hin Ht. pose proof (frag_ok_ttl _ _ (Hok f Hin) t Ht) as Hh. rewrite hidden_some in Hh.
    destruct (t <=? n) eqn:E; [discriminate Hh|lia].
  - intros Hin. specialize (Hok _ Hin). cbn in Hok. discriminate Hok.
Qed.

(* the marks of a frame: only the map draws any, and each belongs to a location with a visible hop *)
Lemma render_marks : forall st fr mk m, render st = Ok (fr, mk) -> In m mk ->
  exists name ts, In (name, ts) (build_map_entries (s_cfg st) (s_hops st)) /\
    (exists t, In t ts /\ hidden (c_privacy (s_cfg st)) t = false) /\
    (m = MPin name \/ m = MRadius name \/ exists t, m = MSelBox name t).
Proof.
  intros st fr mk m H Hm. destruct (render_inv _ _ _ H) as (bt & ft & B & F & E). clear H E. unfold body_view in B.
  destruct (s_error st); [inversion B; subst; contradiction|].
  destruct (s_no_data st); [inversion B; subst; contradiction|].
  destruct (s_chart st).
  { destruct (chart_view st); cbn [bind] in B; try discriminate B. inversion B; subst. contradiction. }
  destruct (s_map st).
  - unfold world_view in B. destruct (selected_hop_or_target st) as [sel| |]; cbn [bind] in B; try discriminate B.
    inversion B; subst. destruct (map_marks_visible _ _ _ _ Hm) as (e & He & Hk & Hv).
    exists (fst e), (snd e). split; [destruct e; exact He|]. split; [exact Hv|].
    destruct Hk as [K|[K|K]]; [left; exact K|right; left; exact K|right; right; eauto].
  - destruct (table_view st); cbn [bind] in B; try discriminate B. inversion B; subst. contradiction.
Qed.

(* ------------------------------------------------------------------ beyond the limit: as without privacy *)

Definition st_with_privacy (st : vstate) (p : option Z) : vstate :=
  mk_vstate (with_privacy (s_cfg st) p) (s_cols st) (s_hops st) (s_sel st) (s_hop_addr st) (s_target st)
    (s_details st) (s_chart st) (s_map st) (s_help st) (s_settings st) (s_flows st) (s_error st) (s_no_data st)
    (s_ntraces st) (s_trace_sel st) (s_flow_counts st).

Lemma hidden_above : forall n t, n < t -> hidden (Some n) t = false.
Proof. intros n t H. rewrite hidden_some. destruct (t <=? n) eqn:E; [lia|reflexivity]. Qed.

Lemma table_row_above : forall st sel h n, n < h_ttl h ->
  table_row (st_with_privacy st (Some n)) sel h = table_row (st_with_privacy st None) sel h.
Proof.
  intros st sel h n H. unfold table_row. cbn [s_cfg st_with_privacy s_details s_hop_addr s_cols].
  assert (host_cell (with_privacy (s_cfg st) (Some n)) h = host_cell (with_privacy (s_cfg st) None) h) as E1.
  { unfold host_cell, render_hostname. cbn [c_privacy with_privacy]. rewrite hidden_above by exact H. rewrite hidden_none. reflexivity. }
  assert (host_rows (with_privacy (s_cfg st) (Some n)) h = host_rows (with_privacy (s_cfg st) None) h) as E2.
  { unfold host_rows. cbn [c_privacy with_privacy c_max_addrs]. rewrite hidden_above by exact H. rewrite hidden_none. reflexivity. }
  assert (forall o, host_cell_details (with_privacy (s_cfg st) (Some n)) h o = host_cell_details (with_privacy (s_cfg st) None) h o) as E3.
  { intros o. unfold host_cell_details, render_hostname_with_details. cbn [c_privacy with_privacy]. rewrite hidden_above by exact H. rewrite hidden_none. reflexivity. }
  rewrite E1, E2, E3. reflexivity.
Qed.

Lemma map_info_above : forall c es sel n, n < h_ttl sel ->
  map_info (with_privacy c (Some n)) es sel = map_info (with_privacy c None) es sel.
Proof.
  intros c es sel n H. unfold map_info, render_map_info_panel. cbn [c_privacy with_privacy c_mmdb].
  rewrite hidden_above by exact H. rewrite hidden_none. reflexivity.
Qed.

Lemma map_marks_above : forall c name ts sel_ttl n t, In t ts -> n < t ->
  map_marks (with_privacy c (Some n)) [(name, ts)] sel_ttl = map_marks (with_privacy c None) [(name, ts)] sel_ttl.
Proof.
  intros c name ts sel_ttl n t Hin Hlt. unfold map_marks. cbn [flat_map fst snd c_privacy with_privacy].
  rewrite (map_pin_shown_true (Some n) ts t Hin (hidden_above n t Hlt)).
  rewrite (map_pin_shown_true None ts t Hin (hidden_none t)). reflexivity.
Qed.

(* ------------------------------------------------------------------ a hidden row does not depend on the hop's addresses *)

Lemma table_row_hidden_independent : forall st sel h1 h2,
  h_ttl h1 = h_ttl h2 -> h_total_recv h1 = h_total_recv h2 -> hidden (c_privacy (s_cfg st)) (h_ttl h1) = true ->
  table_row st sel h1 = table_row st sel h2 /\
  (0 < h_total_recv h1 -> forall r, table_row st sel h1 = Ok r ->
     snd r = (if match sel with Some s => h_ttl s =? h_ttl h1 | None => false end && s_details st then 7 else 1)).
Proof.
  intros st sel h1 h2 Et Er Hh. unfold table_row.
  assert (host_cell (s_cfg st) h1 = host_cell (s_cfg st) h2) as E1.
  { unfold host_cell, render_hostname. rewrite <- Et, <- Er, Hh. destruct (h_total_recv h1 >? 0); reflexivity. }
  assert (host_rows (s_cfg st) h1 = host_rows (s_cfg st) h2) as E2.
  { unfold host_rows. rewrite <- Et, <- Er, Hh. destruct (h_total_recv h1 >? 0); reflexivity. }
  assert (forall o, host_cell_details (s_cfg st) h1 o = host_cell_details (s_cfg st) h2 o) as E3.
  { intros o. unfold host_cell_details, render_hostname_with_details. rewrite <- Et, <- Er, Hh. destruct (h_total_recv h1 >? 0); reflexivity. }
  split.
  - rewrite <- Et, E1, E2, E3. reflexivity.
  - intros R r H.
    destruct (match sel with Some s => h_ttl s =? h_ttl h1 | None => false end && s_details st).
    + cbn [bind] in H. inversion H; subst. reflexivity.
    + unfold host_rows in H. destruct (h_total_recv h1 >? 0) eqn:G; [|lia]. rewrite Hh in H. cbn [bind] in H.
      inversion H; subst. reflexivity.
Qed.

(* ------------------------------------------------------------------ refuted: the selection box *)

Definition ex_cfg (p : option Z) : vcfg :=
  mk_vcfg p None 0 false 0 true (fun _ _ => DPending) (fun a => Some (7, true)) (fun l => l).
(* hops 2 and 5 geolocated at the same place (location 7); hop 2 selected; map shown *)
Definition ex_map_state (p : option Z) : vstate :=
  mk_vstate (ex_cfg p) [1; 0; 2] [mk_hop_view 2 4 [(21, 4)]; mk_hop_view 5 4 [(51, 4)]] (Some 0) 0 (mk_hop_view 5 4 [(51, 4)])
    false false true false false false false false 1 0 [].

Lemma map_selection_box_leak :
  exists st fr mk name t, render st = Ok (fr, mk) /\ In (MSelBox name t) mk /\ hidden (c_privacy (s_cfg st)) t = true /\
    In (name, [t; 5]) (build_map_entries (s_cfg st) (s_hops st)).
Proof.
  exists (ex_map_state (Some 3)). eexists. eexists. exists 7, 2.
  split; [vm_compute; reflexivity|]. split; [right; right; left; reflexivity|]. split; [reflexivity|]. left. reflexivity.
Qed.

(* the same state in the table view, with the columns #, Host, Loss%: hop 2 hidden, hop 5 printed *)
Definition ex_table_state (p : option Z) : vstate :=
  mk_vstate (ex_cfg p) [1; 0; 2] [mk_hop_view 2 4 [(21, 4)]; mk_hop_view 5 4 [(51, 4)]] (Some 0) 0 (mk_hop_view 5 4 [(51, 4)])
    true false false false false false false false 1 0 [].

Example ex_table_frame :
  table_view (ex_table_state (Some 3)) =
    Ok [FLit 1; FLit 0; FLit 2;  FLit 1; FLit L_HIDDEN; FLit 2;  FLit 1; FAddr 5 51; FLit 2].
Proof. vm_compute. reflexivity. Qed.

