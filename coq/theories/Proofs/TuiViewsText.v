(* Lemmas for C18 over the TEXT level of the view model (Tui/Views.v as refined for the comparison with the real
   frames, Tui/Frames.v): the part of the model that the harness compares text for text with the reference
   screens of the real TuiApp.

   - whatever strings the hidden hops (and, with privacy on, the source) have, the text of the frame / of every
     table row / of the map's info panel is the same (two renderers that agree on the admissible fragments
     produce the same text);
   - a hidden row is the placeholder and nothing else, one line, in every configuration; so is the map panel
     of a hidden hop (title "Hop n" + placeholder);
   - the Host cell has exactly as many lines as the row is high (nothing is clipped, no line of another
     row is uncovered), the detail cell never more than its 7;
   - the structured body the correspondence extracts (body_struct) is the body of `render`;
   - a reference screen computed from ANY state of the application model, with any overrides of the display
     settings, is admissible for the application's privacy level;
   - raising the level never makes more text admissible; a visible hop's shown addresses are on screen. *)
From Coq Require Import ZifyBool.
From TV Require Import Base.Result Tui.Privacy Tui.App Tui.Views Tui.Frames Proofs.TuiPrivacyProofs Proofs.TuiViewsProofs.
Import TuiPrivacy TuiViews.

(* ------------------------------------------------------------------ text: a renderer of fragments *)

(* the text of a list of fragments under a renderer (S: characters) *)
Definition text_of {S : Type} (txt : frag -> list S) (l : list frag) : list S := flat_map txt l.

Lemma text_of_agree : forall (S : Type) p (t1 t2 : frag -> list S) l,
  frags_ok p l -> (forall f, frag_ok p f -> t1 f = t2 f) -> text_of t1 l = text_of t2 l.
Proof.
  intros S p t1 t2 l H A. unfold text_of. induction H as [|f r Hf Hr IH]; [reflexivity|].
  cbn [flat_map]. rewrite (A f Hf), IH. reflexivity.
Qed.

(* the whole frame *)
Lemma render_text_independent : forall (S : Type) st fr mk (t1 t2 : frag -> list S),
  render st = Ok (fr, mk) -> (forall f, frag_ok (c_privacy (s_cfg st)) f -> t1 f = t2 f) ->
  text_of t1 fr = text_of t2 fr.
Proof. intros S st fr mk t1 t2 H A. eapply text_of_agree; [eapply render_ok; exact H|exact A]. Qed.

(* ------------------------------------------------------------------ the structured body *)

Definition body_ok (p : option Z) (b : body) : Prop :=
  match b with
  | BError | BSplash => True
  | BChart t => frags_ok p t
  | BMap info marks => frags_ok p info
  | BTable rows => Forall (fun r => frags_ok p (fst r)) rows
  end.

(* what body_view makes of it *)
Definition body_flat (cols : list Z) (b : body) : list frag * list mark :=
  match b with
  | BError | BSplash => ([FLit L_LABEL], [])
  | BChart t => (t, [])
  | BMap info marks => (info, marks)
  | BTable rows => (map FLit cols ++ flat_map fst rows, [])
  end.

Lemma body_view_struct : forall st, body_view st = let* b := body_struct st in Ok (body_flat (s_cols st) b).
Proof.
  intros st. unfold body_view, body_struct.
  destruct (s_error st); [reflexivity|]. destruct (s_no_data st); [reflexivity|].
  destruct (s_chart st).
  { destruct (chart_view st); reflexivity. }
  destruct (s_map st).
  { destruct (world_view st) as [[i m]| |]; reflexivity. }
  unfold table_view. destruct (table_rows st); reflexivity.
Qed.

Lemma body_struct_ok : forall st b, body_struct st = Ok b -> body_ok (c_privacy (s_cfg st)) b.
Proof.
  intros st b H. unfold body_struct in H.
  destruct (s_error st); [inversion H; exact I|]. destruct (s_no_data st); [inversion H; exact I|].
  destruct (s_chart st).
  { unfold chart_view in H. destruct (selected_hop_or_target st); cbn [bind] in H; try discriminate H. inversion H; subst. cbn [body_ok].
    apply Forall_app. split; [|repeat constructor]. apply frags_ok_flat_map. apply Forall_forall. intros i _. repeat constructor. }
  destruct (s_map st).
  { unfold world_view in H. destruct (selected_hop_or_target st); cbn [bind] in H; try discriminate H. inversion H; subst. cbn [body_ok fst].
    apply map_info_ok. }
  destruct (table_rows st) eqn:T; cbn [bind] in H; try discriminate H. inversion H; subst. cbn [body_ok].
  eapply table_rows_ok; exact T.
Qed.

(* row by row / panel: the text does not depend on what the inadmissible fragments would print *)
Lemma body_text_independent : forall (S : Type) st b (t1 t2 : frag -> list S),
  body_struct st = Ok b -> (forall f, frag_ok (c_privacy (s_cfg st)) f -> t1 f = t2 f) ->
  match b with
  | BTable rows => map (fun r => text_of t1 (fst r)) rows = map (fun r => text_of t2 (fst r)) rows
  | BMap info _ => text_of t1 info = text_of t2 info
  | BChart t => text_of t1 t = text_of t2 t
  | _ => True
  end.
Proof.
  intros S st b t1 t2 H A. pose proof (body_struct_ok _ _ H) as Hok. destruct b; cbn [body_ok] in Hok; try exact I.
  - exact (text_of_agree _ _ _ _ _ Hok A).
  - exact (text_of_agree _ _ _ _ _ Hok A).
  - clear H. induction Hok as [|r rs Hr Hrs IH]; [reflexivity|]. cbn [map]. rewrite IH. f_equal. exact (text_of_agree _ _ _ _ _ Hr A).
Qed.

(* ------------------------------------------------------------------ hidden rows, hidden panel: the placeholder, nothing else *)

Lemma hidden_row_text : forall c h o, 0 < h_total_recv h -> hidden (c_privacy c) (h_ttl h) = true ->
  host_cell c h = [FLit L_HIDDEN] /\ host_cell_details c h o = [FLit L_HIDDEN] /\ host_rows c h = Ok 1.
Proof.
  intros c h o R Hh. unfold host_cell, host_cell_details, host_rows, render_hostname, render_hostname_with_details.
  destruct (h_total_recv h >? 0) eqn:G; [|lia]. rewrite Hh. repeat split; reflexivity.
Qed.

Lemma silent_row_text : forall c h o, h_total_recv h <= 0 ->
  host_cell c h = [FLit L_NO_RESPONSE] /\ host_cell_details c h o = [FLit L_NO_RESPONSE] /\ host_rows c h = Ok 1.
Proof.
  intros c h o R. unfold host_cell, host_cell_details, host_rows, render_hostname, render_hostname_with_details.
  destruct (h_total_recv h >? 0) eqn:G; [lia|]. repeat split; reflexivity.
Qed.

Lemma hidden_panel_text : forall c es sel, hidden (c_privacy c) (h_ttl sel) = true ->
  map_info c es sel = [FLit L_HOP; FLit L_SP; FNum (h_ttl sel); FLit L_NL; FLit L_HIDDEN].
Proof. intros c es sel Hh. unfold map_info, render_map_info_panel. rewrite Hh. reflexivity. Qed.

(* the "Target: source -> destination" line of the header, as computed from a state of the application model *)
Lemma target_line_text : forall a,
  (TuiApp.privacy (TuiApp.a_view a) <> None ->
     TuiFrames.frame_target_line a = [FLit L_TARGET; FLit L_COLON; FLit L_HIDDEN; FLit L_ARROW; FDest (TuiApp.trace_selected (TuiApp.a_sel a))]) /\
  (TuiApp.privacy (TuiApp.a_view a) = None ->
     TuiFrames.frame_target_line a = [FLit L_TARGET; FLit L_COLON; FSrc; FLit L_ARROW; FDest (TuiApp.trace_selected (TuiApp.a_sel a))]).
Proof.
  intros a. unfold TuiFrames.frame_target_line, target_line, render_source, render_destination.
  destruct (TuiApp.privacy (TuiApp.a_view a)); split; intros H; try congruence; reflexivity.
Qed.

(* ------------------------------------------------------------------ lines and heights *)

Definition is_nl (f : frag) : bool := match f with FLit n => n =? L_NL | _ => false end.
(* number of text lines of a cell *)
Definition nlines (l : list frag) : Z := 1 + zlen (filter is_nl l).
Definition nl_free (l : list frag) : Prop := filter is_nl l = [].

Lemma nl_free_app : forall a b, nl_free a -> nl_free b -> nl_free (a ++ b).
Proof. intros a b Ha Hb. unfold nl_free in *. rewrite filter_app, Ha, Hb. reflexivity. Qed.

Lemma format_dns_entry_nl_free : forall t a e b, nl_free (format_dns_entry t a e b).
Proof. intros t a e b. unfold format_dns_entry. destruct e as [|[[|]|]|[[|]|]| |]; try destruct b; reflexivity. Qed.

Lemma format_address_nl_free : forall c h af, nl_free (format_address c h af).
Proof.
  intros c h af. unfold format_address. apply nl_free_app; [|apply nl_free_app].
  - destruct (c_addr_mode c =? 0); [reflexivity|]. destruct (c_addr_mode c =? 1); [apply format_dns_entry_nl_free|].
    apply nl_free_app; [apply format_dns_entry_nl_free|reflexivity].
  - destruct (c_geo_mode c =? 0); [reflexivity|]. destruct (c_geo c (fst af)); reflexivity.
  - destruct (zlen (h_info h) >? 1); reflexivity.
Qed.

Lemma filter_nl_join : forall ls, Forall nl_free ls ->
  length (filter is_nl (join_frags [FLit L_NL] ls)) = (length ls - 1)%nat.
Proof.
  intros ls H. induction H as [|l r Hl Hr IH]; [reflexivity|].
  cbn [join_frags]. destruct r as [|l2 r2].
  - rewrite Hl. reflexivity.
  - rewrite filter_app. rewrite Hl. cbn [List.app]. change ([FLit L_NL] ++ join_frags [FLit L_NL] (l2 :: r2)) with (FLit L_NL :: join_frags [FLit L_NL] (l2 :: r2)).
    cbn [filter is_nl]. change (L_NL =? L_NL) with true. cbn [length]. rewrite IH. cbn [length]. lia.
Qed.

Lemma host_lines_nlines : forall c h, (1 <= length (shown_addrs c h))%nat -> nlines (host_lines c h) = Z.of_nat (length (shown_addrs c h)).
Proof.
  intros c h H. unfold nlines, host_lines, zlen. rewrite filter_nl_join.
  - rewrite map_length. lia.
  - apply Forall_forall. intros l Hl. apply in_map_iff in Hl. destruct Hl as (af & E & _). subst l. apply format_address_nl_free.
Qed.

(* the Host cell of a row has exactly as many lines as render_hostname makes the row high *)
Lemma host_cell_lines_eq_height : forall c h n,
  (0 < h_total_recv h -> hidden (c_privacy c) (h_ttl h) = false -> 1 <= zlen (h_info h) <= 255) ->
  (forall l, length (c_order c l) = length l) ->
  host_rows c h = Ok n -> nlines (host_cell c h) = n.
Proof.
  intros c h n Hlen Hord H. unfold host_rows in H. unfold host_cell, render_hostname.
  destruct (h_total_recv h >? 0) eqn:G; [|inversion H; reflexivity].
  destruct (hidden (c_privacy c) (h_ttl h)) eqn:Hh; [inversion H; reflexivity|].
  assert (1 <= zlen (h_info h) <= 255) as L by (apply Hlen; [lia|reflexivity]). unfold zlen in L.
  cbn [text_frags]. unfold clamp_r in H.
  destruct (c_max_addrs c) as [m|] eqn:M.
  - destruct (1 <=? m) eqn:Em; [|discriminate H]. inversion H; subst n. clear H.
    assert (length (shown_addrs c h) = Nat.min (Z.to_nat m) (length (h_info h))) as E.
    { unfold shown_addrs. rewrite M. rewrite firstn_length. rewrite Hord. reflexivity. }
    rewrite host_lines_nlines; rewrite E; unfold zlen; lia.
  - inversion H; subst n. clear H.
    assert (shown_addrs c h = h_info h) as E by (unfold shown_addrs; rewrite M; reflexivity).
    rewrite host_lines_nlines; rewrite E; unfold zlen; lia.
Qed.

(* the detail cell (row height 7) has 7 lines, or 1 (placeholder, no response, failed / timed-out lookup, stale index) *)
Lemma host_cell_details_lines : forall c h o,
  nlines (host_cell_details c h o) = 7 \/ nlines (host_cell_details c h o) = 1.
Proof.
  intros c h o. unfold host_cell_details, render_hostname_with_details.
  destruct (h_total_recv h >? 0); [|right; reflexivity].
  destruct (hidden (c_privacy c) (h_ttl h)); [right; reflexivity|].
  cbn [text_frags]. unfold format_details.
  destruct (nth_error (h_info h) (Z.to_nat o)) as [af|]; [|right; reflexivity].
  destruct (c_dns c (c_as_info c) (fst af)) as [|asinfo|asinfo| |]; try (right; reflexivity);
    try (destruct asinfo as [[|]|]); destruct (c_as_info c); destruct (c_geo c (fst af)); left; reflexivity.
Qed.

(* ------------------------------------------------------------------ from the application model to the reference screens *)

Lemma vstate_of_app_inv : forall a nt o d hops target st, TuiFrames.vstate_of_app a nt o d hops target = Ok st ->
  c_privacy (s_cfg st) = TuiApp.privacy (TuiApp.a_view a) /\ s_hops st = hops /\ s_target st = target /\
  exists sh, TuiApp.hops_for_flow (TuiApp.data a) (TuiApp.sel_flow (TuiApp.a_sel a)) = Ok sh /\ TuiFrames.hops_agree sh hops = true.
Proof.
  intros a nt o d hops target st H. unfold TuiFrames.vstate_of_app in H.
  destruct (TuiApp.hops_for_flow (TuiApp.data a) (TuiApp.sel_flow (TuiApp.a_sel a))) as [sh| |] eqn:E1; cbn [bind] in H; try discriminate H.
  destruct (TuiApp.hops (TuiApp.data a)) as [ah| |] eqn:E2; cbn [bind] in H; try discriminate H.
  destruct (TuiFrames.hops_agree sh hops) eqn:A; cbn [negb] in H; [|discriminate H].
  inversion H; subst st. cbn. repeat split. exists sh. split; [reflexivity|exact A].
Qed.

Lemma frame_body_ok : forall a nt o d hops target b, TuiFrames.frame_body a nt o d hops target = Ok b ->
  body_ok (TuiApp.privacy (TuiApp.a_view a)) b.
Proof.
  intros a nt o d hops target b H. unfold TuiFrames.frame_body in H.
  destruct (TuiFrames.vstate_of_app a nt o d hops target) as [st| |] eqn:E; cbn [bind] in H; try discriminate H.
  destruct (vstate_of_app_inv _ _ _ _ _ _ _ E) as (Hp & _). rewrite <- Hp. apply body_struct_ok. exact H.
Qed.

(* the data given to frame_body fits the shape the application keeps: row for row the same ttl and number of addresses *)
Lemma hops_agree_spec : forall sh hops, TuiFrames.hops_agree sh hops = true ->
  Forall2 (fun s h => TuiApp.hs_ttl s = h_ttl h /\ TuiApp.hs_addrs s = zlen (h_info h)) sh hops.
Proof.
  induction sh as [|s r IH]; intros [|h hs] H; cbn [TuiFrames.hops_agree] in H; try discriminate H; [constructor|].
  apply andb_prop in H. destruct H as [H1 H2]. unfold TuiFrames.hop_agrees in H1. apply andb_prop in H1. destruct H1 as [Ha Hb].
  constructor; [split; lia|apply IH; exact H2].
Qed.

(* ------------------------------------------------------------------ monotone in the level *)

Lemma frag_ok_mono : forall p q f, level p <= level q -> (forall n, p = Some n -> 0 <= n) -> frag_ok q f -> frag_ok p f.
Proof.
  intros p q f L Hn H.
  assert (forall t, hidden q t = false -> hidden p t = false) as M.
  { intros t Hq. destruct (hidden p t) eqn:Hp; [|reflexivity].
    destruct p as [n|]; [|discriminate Hp]. specialize (Hn n eq_refl). rewrite hidden_some in Hp.
    destruct q as [m|]; cbn [level] in L; [|lia]. rewrite hidden_some in Hq. lia. }
  destruct f; cbn [frag_ok] in *; auto.
  subst q. destruct p as [n|]; [|reflexivity]. specialize (Hn n eq_refl). cbn [level] in L. lia.
Qed.

Lemma frags_ok_mono : forall p q l, level p <= level q -> (forall n, p = Some n -> 0 <= n) -> frags_ok q l -> frags_ok p l.
Proof. intros p q l L Hn H. unfold frags_ok in *. eapply Forall_impl; [|exact H]. intros f. apply frag_ok_mono; assumption. Qed.

(* ------------------------------------------------------------------ visible hops are shown *)

Lemma in_join : forall f sep ls l, In l ls -> In f l -> In f (join_frags sep ls).
Proof.
  intros f sep ls. induction ls as [|x r IH]; intros l Hl Hf; [contradiction|].
  cbn [join_frags]. destruct r as [|y r'].
  - destruct Hl as [E|[]]. subst. exact Hf.
  - apply in_or_app. destruct Hl as [E|Hl]; [left; subst; exact Hf|]. right. apply in_or_app. right. eapply IH; eauto.
Qed.

Lemma format_address_names_the_address : forall c h af,
  In (FAddr (h_ttl h) (fst af)) (format_address c h af) \/ In (FHost (h_ttl h) (fst af)) (format_address c h af).
Proof.
  intros c h af. unfold format_address.
  destruct (c_addr_mode c =? 0); [left; left; reflexivity|].
  destruct (c_addr_mode c =? 1).
  - unfold format_dns_entry. destruct (c_dns c (c_as_info c) (fst af)) as [|[[|]|]|[[|]|]| |]; destruct (c_as_info c); cbn [andb negb];
      first [left; apply in_or_app; left; cbn; tauto | right; apply in_or_app; left; cbn; tauto].
  - left. apply in_or_app. left. apply in_or_app. right. right. left. reflexivity.
Qed.

Lemma visible_row_names_every_shown_address : forall c h af,
  0 < h_total_recv h -> hidden (c_privacy c) (h_ttl h) = false -> In af (shown_addrs c h) ->
  In (FAddr (h_ttl h) (fst af)) (host_cell c h) \/ In (FHost (h_ttl h) (fst af)) (host_cell c h).
Proof.
  intros c h af R Hh Hin. unfold host_cell, render_hostname. destruct (h_total_recv h >? 0) eqn:G; [|lia]. rewrite Hh.
  cbn [text_frags]. unfold host_lines.
  destruct (format_address_names_the_address c h af) as [H|H]; [left|right];
    (eapply in_join; [apply in_map; exact Hin|exact H]).
Qed.

(* ------------------------------------------------------------------ the hop table is a function of the visible hops' data *)

(* the same state showing other hops *)
Definition with_hops (st : vstate) (hs : list vhop) : vstate :=
  mk_vstate (s_cfg st) (s_cols st) hs (s_sel st) (s_hop_addr st) (s_target st)
    (s_details st) (s_chart st) (s_map st) (s_help st) (s_settings st) (s_flows st) (s_error st) (s_no_data st)
    (s_ntraces st) (s_trace_sel st) (s_flow_counts st).

(* two hops that may differ only in what a hidden hop's addresses are *)
Definition same_visible (p : option Z) (h1 h2 : vhop) : Prop :=
  h_ttl h1 = h_ttl h2 /\ h_total_recv h1 = h_total_recv h2 /\ (hidden p (h_ttl h1) = false -> h_info h1 = h_info h2).

Lemma table_row_sel_ttl : forall st s1 s2 h, option_map h_ttl s1 = option_map h_ttl s2 -> table_row st s1 h = table_row st s2 h.
Proof.
  intros st s1 s2 h E. unfold table_row. cbv zeta.
  destruct s1 as [a|], s2 as [b|]; cbn [option_map] in E; try discriminate E; [inversion E as [E']; rewrite E'|]; reflexivity.
Qed.

Lemma table_row_same_visible : forall st sel h1 h2, same_visible (c_privacy (s_cfg st)) h1 h2 -> table_row st sel h1 = table_row st sel h2.
Proof.
  intros st sel h1 h2 (Et & Er & Ei). destruct (hidden (c_privacy (s_cfg st)) (h_ttl h1)) eqn:Hh.
  - exact (proj1 (table_row_hidden_independent st sel h1 h2 Et Er Hh)).
  - specialize (Ei eq_refl). destruct h1 as [t1 r1 i1], h2 as [t2 r2 i2]. cbn in Et, Er, Ei. subst. reflexivity.
Qed.

Lemma zindex_same_visible : forall p hs1 hs2 i, Forall2 (same_visible p) hs1 hs2 ->
  match zindex i hs1, zindex i hs2 with
  | Ok a, Ok b => h_ttl a = h_ttl b
  | Fault f, Fault g => f = g
  | _, _ => False
  end.
Proof.
  intros p hs1 hs2 i H. unfold zindex. destruct (0 <=? i); [|reflexivity]. unfold index.
  generalize (Z.to_nat i). intros n. revert n. induction H as [|a b r1 r2 Hab Hr IH]; intros [|n]; cbn [nth_error]; try reflexivity.
  - exact (proj1 Hab).
  - apply IH.
Qed.

Lemma map_r_table_row_same_visible : forall st s1 s2 hs1 hs2, option_map h_ttl s1 = option_map h_ttl s2 ->
  Forall2 (same_visible (c_privacy (s_cfg st))) hs1 hs2 -> map_r (table_row st s1) hs1 = map_r (table_row st s2) hs2.
Proof.
  intros st s1 s2 hs1 hs2 E H. induction H as [|a b r1 r2 Hab Hr IH]; [reflexivity|].
  cbn [map_r]. rewrite IH. rewrite (table_row_sel_ttl st s1 s2 a E). rewrite (table_row_same_visible st s2 a b Hab). reflexivity.
Qed.

Lemma table_rows_same_visible : forall st hs1 hs2, Forall2 (same_visible (c_privacy (s_cfg st))) hs1 hs2 ->
  table_rows (with_hops st hs1) = table_rows (with_hops st hs2).
Proof.
  intros st hs1 hs2 H. unfold table_rows, selected_hop. cbn [s_sel s_hops with_hops].
  assert (forall s hs, map_r (table_row (with_hops st hs) s) = map_r (table_row st s)) as W by reflexivity.
  destruct (s_sel st) as [i|].
  - pose proof (zindex_same_visible _ _ _ i H) as Z.
    destruct (zindex i hs1) as [a| |f], (zindex i hs2) as [b| |g]; try contradiction; cbn [bind].
    + rewrite !W. apply map_r_table_row_same_visible; [cbn [option_map]; rewrite Z; reflexivity|exact H].
    + subst g. reflexivity.
  - cbn [bind]. rewrite !W. apply map_r_table_row_same_visible; [reflexivity|exact H].
Qed.

(* ------------------------------------------------------------------ the keys move the placeholder by one row *)

Lemma expand_hides_next_row : forall hc p q c h o, expand_privacy_step hc p = Ok q -> level p < hc -> (forall n, p = Some n -> 0 <= n) ->
  c_privacy c = q -> h_ttl h <= level p + 1 -> 0 < h_total_recv h ->
  host_cell c h = [FLit L_HIDDEN] /\ host_cell_details c h o = [FLit L_HIDDEN] /\ host_rows c h = Ok 1.
Proof.
  intros hc p q c h o E L Hn Hc Ht R. apply hidden_row_text; [exact R|]. rewrite Hc.
  destruct p as [n|]; cbn [expand_privacy_step level] in *.
  - destruct (n <? hc) eqn:X; [|lia]. unfold add8, add_w in E. destruct (n + 1 <? 256); cbn [bind] in E; inversion E. rewrite hidden_some. lia.
  - inversion E. rewrite hidden_some. lia.
Qed.

Lemma contract_reveals_last_row : forall p c h, 0 <= level p -> c_privacy c = contract_privacy_step p -> level p <= h_ttl h -> 0 < h_total_recv h ->
  host_cell c h = host_lines c h.
Proof.
  intros p c h L Hc Ht R. unfold host_cell, render_hostname. destruct (h_total_recv h >? 0) eqn:G; [|lia]. rewrite Hc.
  destruct p as [n|]; cbn [level contract_privacy_step] in *; [|lia].
  destruct (n >? 0) eqn:X; [rewrite hidden_some; destruct (h_ttl h <=? n - 1) eqn:Y; [lia|reflexivity]|reflexivity].
Qed.

(* ------------------------------------------------------------------ examples *)

(* two addresses at ttl 4, the second seen 1 time of 4: host name in front of the address, GeoIP short name, frequency;
   the hop at ttl 2 hidden; three text lines in all *)
Definition ex_text_cfg (p : option Z) : vcfg :=
  mk_vcfg p None 2 true 1 true (fun _ a => if a =? 41 then DResolved (Some false) else DNotFound None)
    (fun a => if a =? 41 then Some (40, true) else None) (fun l => l).

Example ex_text_rows :
  table_rows (mk_vstate (ex_text_cfg (Some 3)) [COL_HOST] [mk_hop_view 2 4 [(21, 4)]; mk_hop_view 4 4 [(41, 3); (42, 1)]] None 0
                (mk_hop_view 4 4 [(41, 3); (42, 1)]) false false false false false false false false 1 0 []) =
  Ok [([FLit L_HIDDEN], 1);
      ([FAs 4 41 AS_TABLE; FLit L_SP; FHost 4 41; FLit L_LPAR; FAddr 4 41; FLit L_RPAR; FLit L_LBR; FGeo 4 41 1; FLit L_RBR; FLit L_LBR; FPct 3 4; FLit L_RBR;
        FLit L_NL;
        FAddr 4 42; FLit L_LPAR; FAddr 4 42; FLit L_RPAR; FLit L_LBR; FPct 1 4; FLit L_RBR], 2)].
Proof. vm_compute. reflexivity. Qed.

(* two renderers that print different strings for the hidden hop 2 (and agree elsewhere) *)
Definition ex_txt (secret : Z) (f : frag) : list Z :=
  match f with
  | FAddr t a => if t <=? 3 then [secret; a] else [a]
  | FHost t a => if t <=? 3 then [secret; a; a] else [a; a]
  | FLit n => [n]
  | _ => [0]
  end.

Example ex_txt_agree : forall f, frag_ok (Some 3) f -> ex_txt 111 f = ex_txt 222 f.
Proof.
  intros f H. destruct f; cbn [ex_txt frag_ok] in *; try reflexivity; rewrite hidden_some in H; rewrite H; reflexivity.
Qed.

Example ex_details_lines :
  nlines (host_cell_details (ex_text_cfg None) (mk_hop_view 4 4 [(41, 3); (42, 1)]) 0) = 7 /\
  nlines (host_cell_details (ex_text_cfg (Some 4)) (mk_hop_view 4 4 [(41, 3); (42, 1)]) 0) = 1.
Proof. split; vm_compute; reflexivity. Qed.

(* the hop at ttl 2 answers from other addresses: the rows are the same *)
Example ex_same_visible :
  Forall2 (same_visible (Some 3)) [mk_hop_view 2 4 [(21, 4)]; mk_hop_view 4 4 [(41, 3); (42, 1)]]
                                  [mk_hop_view 2 4 [(22, 1); (23, 3)]; mk_hop_view 4 4 [(41, 3); (42, 1)]].
Proof.
  repeat constructor; cbn; try reflexivity; intros H; try discriminate H; reflexivity.
Qed.

(* a reference screen computed from a state of the application model *)
Definition ex_app : TuiApp.app :=
  TuiApp.mk_app (TuiApp.mk_shape 1 false [] [TuiApp.mk_flow 0 1 [TuiApp.mk_hop 1 2; TuiApp.mk_hop 2 4]])
    (TuiApp.mk_sel 0 (Some 1) 0 0 [] false) (TuiApp.mk_sett 0 None [])
    (TuiApp.mk_view false false true false false false 1 (Some 3) None 0 false true).
Definition ex_oracle : TuiFrames.oracle :=
  TuiFrames.mk_oracle 0 true (fun _ _ => DPending) (fun _ => None) (fun l => l).
Definition ex_draw : TuiFrames.draw := TuiFrames.mk_draw false None None None None None.

Example ex_frame_body :
  TuiFrames.frame_body ex_app 1 ex_oracle ex_draw [mk_hop_view 2 4 [(21, 4)]; mk_hop_view 4 4 [(41, 3); (42, 1)]] (mk_hop_view 4 4 [(41, 3); (42, 1)]) =
  Ok (BTable [([FLit L_HIDDEN], 1);
              ([FAddr 4 41; FLit L_LBR; FNum 1; FLit L_OF; FNum 2; FLit L_RBR; FLit L_NL;
                FLit L_HOST; FLit L_COLON; FLit L_LT; FLit L_AWAITED; FLit L_GT; FLit L_NL;
                FLit L_AS; FLit L_NAME; FLit L_COLON; FLit L_LT; FLit L_NOT_ENABLED; FLit L_GT; FLit L_NL;
                FLit L_AS; FLit L_INFO; FLit L_COLON; FLit L_LT; FLit L_NOT_ENABLED; FLit L_GT; FLit L_NL;
                FLit L_GEO; FLit L_COLON; FLit L_LT; FLit L_NOT_FOUND; FLit L_GT; FLit L_NL;
                FLit L_POS; FLit L_COLON; FLit L_LT; FLit L_NOT_FOUND; FLit L_GT; FLit L_NL;
                FLit L_EXT; FLit L_COLON; FLit L_LT; FLit L_NONE; FLit L_GT], 7)]).
Proof. vm_compute. reflexivity. Qed.

(* ... and refused when the data does not fit the shape (three addresses where the application knows of two) *)
Example ex_frame_body_refused :
  TuiFrames.frame_body ex_app 1 ex_oracle ex_draw [mk_hop_view 2 4 [(21, 4)]; mk_hop_view 4 4 [(41, 2); (42, 1); (43, 1)]] (mk_hop_view 4 4 []) = Err EOther.
Proof. vm_compute. reflexivity. Qed.
