(* C04, packet half: the minimum-size test of new_view is what keeps the accessors inside the buffer - on a
   buffer below the minimum some accessor of every view (but one) does fault; the one exception never faults. *)
From TV Require Import Base.Result Packet.ByteOps Packet.IcmpExt Packet.Views Proofs.IcmpExtProofs.

Lemma size_check_needed v : v <> VMplsLabelStack ->
  exists r f, In r (view_accessors v []) /\ r = Fault f /\ (length (@nil Z) < view_min v)%nat.
Proof.
  intro Hv.
  destruct v as [| | | | | | |fam|fam| | | | |]; try congruence; try destruct fam;
    (exists (Fault OutOfBounds), OutOfBounds; split; [vm_compute; left; reflexivity|split; [reflexivity|vm_compute; lia]]).
Qed.

Lemma label_stack_view_never_faults buf r f : In r (view_accessors VMplsLabelStack buf) -> r <> Fault f.
Proof.
  cbn [view_accessors In]. intros [<-|[]]. destruct (members_total buf) as (items & -> & _). discriminate.
Qed.
