(* Packet half of C04: every non-mutating accessor of every trippy-packet view returns a value (never a fault)
   on EVERY buffer of at least the view's minimum size.  Lemmas only; Props/C04.v is assembled from these
   (and from the receive-path lemmas).  [is_total r] is stronger than "r is not a Fault": r is Ok. *)
From Coq Require Import ZifyBool.
From TV Require Import Base.Result Base.Bytes Packet.ByteOps Packet.IcmpExt Packet.Views Proofs.IcmpExtProofs.
Ltac Zify.zify_post_hook ::= Z.div_mod_to_equations.

Definition is_total {A} (r : result A) : Prop := exists v, r = Ok v.

Lemma total_not_fault {A} (r : result A) : is_total r -> forall f, r <> Fault f.
Proof. intros [v ->] f. discriminate. Qed.

Lemma total_is_fault {A} (r : result A) : is_total r -> is_fault r = false.
Proof. intros [v ->]. reflexivity. Qed.

Lemma buf_get_bytes_ok n : forall off buf, (off + n <= length buf)%nat -> is_total (buf_get_bytes n off buf).
Proof.
  induction n as [|n IH]; intros off buf H; [eexists; reflexivity|].
  cbn [buf_get_bytes]. destruct (buf_read_lt buf off) as [b ->]; [lia|]. cbn [bind].
  destruct (IH (S off) buf) as [t ->]; [lia|]. cbn [bind]. eexists; reflexivity.
Qed.

Lemma buf_get_u16_total off buf : (off + 2 <= length buf)%nat -> is_total (buf_get_u16 off buf).
Proof. intro H. unfold buf_get_u16. destruct (buf_get_bytes_ok 2 off buf H) as [bs ->]. eexists; reflexivity. Qed.

Lemma buf_get_u32_total off buf : (off + 4 <= length buf)%nat -> is_total (buf_get_u32 off buf).
Proof. intro H. unfold buf_get_u32. destruct (buf_get_bytes_ok 4 off buf H) as [bs ->]. eexists; reflexivity. Qed.

Lemma buf_read_total off buf : (off < length buf)%nat -> is_total (pv_buf_read off buf).
Proof. apply buf_read_lt. Qed.

Ltac mins := unfold ipv4_min, ipv6_min, udp_min, tcp_min, icmp_min, icmp_error_min in *.

(* a byte read followed by pure arithmetic *)
Ltac reads :=
  repeat match goal with
         | |- context [pv_buf_read ?k ?buf] =>
           let b := fresh "b" in destruct (buf_read_lt buf k) as [b ->]; [mins; lia|]; cbn [bind]
         end.
Ltac done_total := eexists; reflexivity.

(* ---------------- Ipv4Packet (minimum 20) ---------------- *)
Lemma ipv4_get_version_total buf : (ipv4_min <= length buf)%nat -> is_total (pv_ipv4_get_version buf).
Proof. intro H. unfold pv_ipv4_get_version. reads. done_total. Qed.
Lemma ipv4_get_header_length_total buf : (ipv4_min <= length buf)%nat -> is_total (pv_ipv4_get_header_length buf).
Proof. intro H. unfold pv_ipv4_get_header_length. reads. done_total. Qed.
Lemma ipv4_get_dscp_total buf : (ipv4_min <= length buf)%nat -> is_total (pv_ipv4_get_dscp buf).
Proof. intro H. unfold pv_ipv4_get_dscp. reads. done_total. Qed.
Lemma ipv4_get_ecn_total buf : (ipv4_min <= length buf)%nat -> is_total (pv_ipv4_get_ecn buf).
Proof. intro H. unfold pv_ipv4_get_ecn. reads. done_total. Qed.
Lemma ipv4_get_tos_total buf : (ipv4_min <= length buf)%nat -> is_total (pv_ipv4_get_tos buf).
Proof. intro H. unfold pv_ipv4_get_tos, pv_ipv4_get_dscp, pv_ipv4_get_ecn. reads. done_total. Qed.
Lemma ipv4_get_total_length_total buf : (ipv4_min <= length buf)%nat -> is_total (pv_ipv4_get_total_length buf).
Proof. intro H. apply buf_get_u16_total. mins. lia. Qed.
Lemma ipv4_get_identification_total buf : (ipv4_min <= length buf)%nat -> is_total (pv_ipv4_get_identification buf).
Proof. intro H. apply buf_get_u16_total. mins. lia. Qed.
Lemma ipv4_get_flags_and_fragment_offset_total buf : (ipv4_min <= length buf)%nat -> is_total (pv_ipv4_get_flags_and_fragment_offset buf).
Proof. intro H. apply buf_get_u16_total. mins. lia. Qed.
Lemma ipv4_get_ttl_total buf : (ipv4_min <= length buf)%nat -> is_total (pv_ipv4_get_ttl buf).
Proof. intro H. apply buf_read_total. mins. lia. Qed.
Lemma ipv4_get_protocol_total buf : (ipv4_min <= length buf)%nat -> is_total (pv_ipv4_get_protocol buf).
Proof. intro H. apply buf_read_total. mins. lia. Qed.
Lemma ipv4_get_checksum_total buf : (ipv4_min <= length buf)%nat -> is_total (pv_ipv4_get_checksum buf).
Proof. intro H. apply buf_get_u16_total. mins. lia. Qed.
Lemma ipv4_get_source_total buf : (ipv4_min <= length buf)%nat -> is_total (pv_ipv4_get_source buf).
Proof. intro H. apply buf_get_bytes_ok. mins. lia. Qed.
Lemma ipv4_get_destination_total buf : (ipv4_min <= length buf)%nat -> is_total (pv_ipv4_get_destination buf).
Proof. intro H. apply buf_get_bytes_ok. mins. lia. Qed.
Lemma ipv4_options_length_total buf : (ipv4_min <= length buf)%nat -> is_total (pv_ipv4_options_length buf).
Proof. intro H. unfold pv_ipv4_options_length, pv_ipv4_get_header_length. reads. done_total. Qed.
Lemma ipv4_get_options_raw_total buf : (ipv4_min <= length buf)%nat -> is_total (ipv4_get_options_raw buf).
Proof.
  intro H. unfold ipv4_get_options_raw. destruct (ipv4_options_length_total buf H) as [ol ->]. cbn [bind].
  mins. rewrite slice_ok by lia. done_total.
Qed.
(* the IHL-derived payload: is_total for EVERY header length 0..15 and every buffer (after C04_fix_1) *)
Lemma ipv4_payload_total buf : (ipv4_min <= length buf)%nat -> is_total (ipv4_payload buf).
Proof.
  intro H. unfold ipv4_payload. destruct (ipv4_options_length_total buf H) as [ol ->]. cbn [bind].
  destruct (Nat.leb_spec (length buf) (20 + ol)); [done_total|]. rewrite slice_from_ok by lia. done_total.
Qed.

(* ---------------- Ipv6Packet (minimum 40) ---------------- *)
Lemma ipv6_get_version_total buf : (ipv6_min <= length buf)%nat -> is_total (pv_ipv6_get_version buf).
Proof. intro H. unfold pv_ipv6_get_version. reads. done_total. Qed.
Lemma ipv6_get_traffic_class_total buf : (ipv6_min <= length buf)%nat -> is_total (pv_ipv6_get_traffic_class buf).
Proof. intro H. unfold pv_ipv6_get_traffic_class. reads. done_total. Qed.
Lemma ipv6_get_flow_label_total buf : (ipv6_min <= length buf)%nat -> is_total (pv_ipv6_get_flow_label buf).
Proof. intro H. unfold pv_ipv6_get_flow_label. reads. done_total. Qed.
Lemma ipv6_get_payload_length_total buf : (ipv6_min <= length buf)%nat -> is_total (pv_ipv6_get_payload_length buf).
Proof. intro H. apply buf_get_u16_total. mins. lia. Qed.
Lemma ipv6_get_next_header_total buf : (ipv6_min <= length buf)%nat -> is_total (pv_ipv6_get_next_header buf).
Proof. intro H. apply buf_read_total. mins. lia. Qed.
Lemma ipv6_get_hop_limit_total buf : (ipv6_min <= length buf)%nat -> is_total (pv_ipv6_get_hop_limit buf).
Proof. intro H. apply buf_read_total. mins. lia. Qed.
Lemma ipv6_get_source_address_total buf : (ipv6_min <= length buf)%nat -> is_total (pv_ipv6_get_source_address buf).
Proof. intro H. apply buf_get_bytes_ok. mins. lia. Qed.
Lemma ipv6_get_destination_address_total buf : (ipv6_min <= length buf)%nat -> is_total (pv_ipv6_get_destination_address buf).
Proof. intro H. apply buf_get_bytes_ok. mins. lia. Qed.
Lemma ipv6_payload_total buf : (ipv6_min <= length buf)%nat -> is_total (ipv6_payload buf).
Proof.
  intro H. unfold ipv6_payload. destruct (ipv6_get_payload_length_total buf H) as [pl ->]. cbn [bind].
  destruct (Nat.leb_spec (length buf) 40); [done_total|]. rewrite slice_ok by lia. done_total.
Qed.

(* ---------------- UdpPacket (minimum 8) ---------------- *)
Lemma udp_get_source_total buf : (udp_min <= length buf)%nat -> is_total (pv_udp_get_source buf).
Proof. intro H. apply buf_get_u16_total. mins. lia. Qed.
Lemma udp_get_destination_total buf : (udp_min <= length buf)%nat -> is_total (pv_udp_get_destination buf).
Proof. intro H. apply buf_get_u16_total. mins. lia. Qed.
Lemma udp_get_length_total buf : (udp_min <= length buf)%nat -> is_total (pv_udp_get_length buf).
Proof. intro H. apply buf_get_u16_total. mins. lia. Qed.
Lemma udp_get_checksum_total buf : (udp_min <= length buf)%nat -> is_total (pv_udp_get_checksum buf).
Proof. intro H. apply buf_get_u16_total. mins. lia. Qed.
Lemma udp_payload_total buf : (udp_min <= length buf)%nat -> is_total (pv_udp_payload buf).
Proof. intro H. unfold pv_udp_payload. mins. rewrite slice_from_ok by lia. done_total. Qed.

(* ---------------- TcpPacket (minimum 20) ---------------- *)
Lemma tcp_get_source_total buf : (tcp_min <= length buf)%nat -> is_total (pv_tcp_get_source buf).
Proof. intro H. apply buf_get_u16_total. mins. lia. Qed.
Lemma tcp_get_destination_total buf : (tcp_min <= length buf)%nat -> is_total (pv_tcp_get_destination buf).
Proof. intro H. apply buf_get_u16_total. mins. lia. Qed.
Lemma tcp_get_sequence_total buf : (tcp_min <= length buf)%nat -> is_total (pv_tcp_get_sequence buf).
Proof. intro H. apply buf_get_u32_total. mins. lia. Qed.
Lemma tcp_get_acknowledgement_total buf : (tcp_min <= length buf)%nat -> is_total (pv_tcp_get_acknowledgement buf).
Proof. intro H. apply buf_get_u32_total. mins. lia. Qed.
Lemma tcp_get_data_offset_total buf : (tcp_min <= length buf)%nat -> is_total (pv_tcp_get_data_offset buf).
Proof. intro H. unfold pv_tcp_get_data_offset. reads. done_total. Qed.
Lemma tcp_get_reserved_total buf : (tcp_min <= length buf)%nat -> is_total (pv_tcp_get_reserved buf).
Proof. intro H. unfold pv_tcp_get_reserved. reads. done_total. Qed.
Lemma tcp_get_flags_total buf : (tcp_min <= length buf)%nat -> is_total (pv_tcp_get_flags buf).
Proof. intro H. unfold pv_tcp_get_flags. reads. done_total. Qed.
Lemma tcp_get_window_size_total buf : (tcp_min <= length buf)%nat -> is_total (pv_tcp_get_window_size buf).
Proof. intro H. apply buf_get_u16_total. mins. lia. Qed.
Lemma tcp_get_checksum_total buf : (tcp_min <= length buf)%nat -> is_total (pv_tcp_get_checksum buf).
Proof. intro H. apply buf_get_u16_total. mins. lia. Qed.
Lemma tcp_get_urgent_pointer_total buf : (tcp_min <= length buf)%nat -> is_total (pv_tcp_get_urgent_pointer buf).
Proof. intro H. apply buf_get_u16_total. mins. lia. Qed.
(* the data-offset arithmetic `data_offset * 4 - 20` is only evaluated when data_offset > 5: no underflow *)
Lemma tcp_options_length_total buf : (tcp_min <= length buf)%nat -> is_total (tcp_options_length buf).
Proof.
  intro H. unfold tcp_options_length. destruct (tcp_get_data_offset_total buf H) as [d ->]. cbn [bind].
  destruct (Z.ltb_spec 5 d); [|done_total]. unfold sub_w. destruct (Z.leb_spec 20 (d * 4)); [|lia]. done_total.
Qed.
Lemma tcp_get_options_raw_total buf : (tcp_min <= length buf)%nat -> is_total (tcp_get_options_raw buf).
Proof.
  intro H. unfold tcp_get_options_raw. destruct (tcp_options_length_total buf H) as [ol ->]. cbn [bind].
  mins. rewrite slice_ok by lia. done_total.
Qed.
Lemma tcp_payload_total buf : (tcp_min <= length buf)%nat -> is_total (tcp_payload buf).
Proof.
  intro H. unfold tcp_payload. destruct (tcp_options_length_total buf H) as [ol ->]. cbn [bind].
  destruct (Nat.leb_spec (length buf) (20 + ol)); [done_total|]. rewrite slice_from_ok by lia. done_total.
Qed.

(* ---------------- IcmpPacket / Echo* (minimum 8, both families) ---------------- *)
Lemma icmp_get_icmp_type_total buf : (icmp_min <= length buf)%nat -> is_total (icmp_get_icmp_type buf).
Proof. intro H. apply buf_read_total. mins. lia. Qed.
Lemma icmp_get_icmp_code_total buf : (icmp_min <= length buf)%nat -> is_total (icmp_get_icmp_code buf).
Proof. intro H. apply buf_read_total. mins. lia. Qed.
Lemma icmp_get_checksum_total buf : (icmp_min <= length buf)%nat -> is_total (icmp_get_checksum buf).
Proof. intro H. apply buf_get_u16_total. mins. lia. Qed.
Lemma echo_get_identifier_total buf : (icmp_min <= length buf)%nat -> is_total (echo_get_identifier buf).
Proof. intro H. apply buf_get_u16_total. mins. lia. Qed.
Lemma echo_get_sequence_total buf : (icmp_min <= length buf)%nat -> is_total (echo_get_sequence buf).
Proof. intro H. apply buf_get_u16_total. mins. lia. Qed.
Lemma echo_payload_total buf : (icmp_min <= length buf)%nat -> is_total (echo_payload buf).
Proof. intro H. unfold echo_payload. mins. rewrite slice_from_ok by lia. done_total. Qed.
Lemma destination_unreachable_get_next_hop_mtu_total buf : (icmp_min <= length buf)%nat -> is_total (destination_unreachable_get_next_hop_mtu buf).
Proof. intro H. apply buf_get_u16_total. mins. lia. Qed.

(* ---------------- TimeExceededPacket / DestinationUnreachablePacket (minimum 8) ---------------- *)
Lemma icmp_error_get_length_total fam buf : (icmp_min <= length buf)%nat -> is_total (icmp_error_get_length fam buf).
Proof. intro H. apply buf_read_total. mins. destruct fam; cbn; lia. Qed.
Lemma icmp_error_payload_raw_total buf : (icmp_min <= length buf)%nat -> is_total (icmp_error_payload_raw buf).
Proof. intro H. unfold icmp_error_payload_raw, icmp_error_min. mins. rewrite slice_from_ok by lia. done_total. Qed.
(* is_total for EVERY value of the RFC 4884 length octet (after C14_fix_1) *)
Lemma split_payload_extension_total fam buf : (icmp_min <= length buf)%nat -> is_total (split_payload_extension fam buf).
Proof. intro H. destruct (split_payload_extension_within fam buf H) as (n & e & Hs & _). rewrite Hs. done_total. Qed.
Lemma icmp_error_payload_total fam buf : (icmp_min <= length buf)%nat -> is_total (icmp_error_payload fam buf).
Proof. intro H. unfold icmp_error_payload. destruct (split_payload_extension_total fam buf H) as [pe ->]. done_total. Qed.
Lemma icmp_error_extension_total fam buf : (icmp_min <= length buf)%nat -> is_total (icmp_error_extension fam buf).
Proof. intro H. unfold icmp_error_extension. destruct (split_payload_extension_total fam buf H) as [pe ->]. done_total. Qed.

(* ---------------- extension views (minimum 4) ---------------- *)
Lemma extensions_header_total buf : (4 <= length buf)%nat -> is_total (extensions_header buf).
Proof. intro H. unfold extensions_header. rewrite slice_ok by lia. done_total. Qed.
Lemma extensions_objects_total buf : is_total (extensions_objects buf).
Proof. destruct (objects_total buf) as (items & H & _). exists items. exact H. Qed.
Lemma extension_header_get_version_total buf : (4 <= length buf)%nat -> is_total (extension_header_get_version buf).
Proof. intro H. unfold extension_header_get_version. reads. done_total. Qed.
Lemma extension_header_get_checksum_total buf : (4 <= length buf)%nat -> is_total (extension_header_get_checksum buf).
Proof. intro H. apply buf_get_u16_total. lia. Qed.
Lemma extension_object_get_length_total buf : (4 <= length buf)%nat -> is_total (extension_object_get_length buf).
Proof. intro H. apply buf_get_u16_total. lia. Qed.
Lemma extension_object_get_class_num_total buf : (4 <= length buf)%nat -> is_total (extension_object_get_class_num buf).
Proof. intro H. apply buf_read_total. lia. Qed.
Lemma extension_object_get_class_subtype_total buf : (4 <= length buf)%nat -> is_total (extension_object_get_class_subtype buf).
Proof. intro H. apply buf_read_total. lia. Qed.
(* is_total for EVERY value of the object length field (after C04_fix_2) *)
Lemma extension_object_payload_total buf : (4 <= length buf)%nat -> is_total (extension_object_payload buf).
Proof. apply object_payload_ok. Qed.
Lemma mpls_label_stack_members_total buf : is_total (mpls_label_stack_members buf).
Proof. destruct (members_total buf) as (items & H & _). exists items. exact H. Qed.
Lemma mpls_member_get_label_total buf : (4 <= length buf)%nat -> is_total (pv_mpls_member_get_label buf).
Proof. intro H. unfold pv_mpls_member_get_label. reads. done_total. Qed.
Lemma mpls_member_get_exp_total buf : (4 <= length buf)%nat -> is_total (pv_mpls_member_get_exp buf).
Proof. intro H. unfold pv_mpls_member_get_exp. reads. done_total. Qed.
Lemma mpls_member_get_bos_total buf : (4 <= length buf)%nat -> is_total (pv_mpls_member_get_bos buf).
Proof. intro H. unfold pv_mpls_member_get_bos. reads. done_total. Qed.
Lemma mpls_member_get_ttl_total buf : (4 <= length buf)%nat -> is_total (pv_mpls_member_get_ttl buf).
Proof. intro H. apply buf_read_total. lia. Qed.

(* ---------------- the table: every accessor of every view ---------------- *)
Lemma aint_total r : is_total r -> is_total (aint r).
Proof. intros [v ->]. done_total. Qed.
Lemma abytes_total r : is_total r -> is_total (abytes r).
Proof. intros [v ->]. done_total. Qed.
Lemma aopt_total r : is_total r -> is_total (aopt r).
Proof. intros [v ->]. done_total. Qed.
Lemma aitems_total r : is_total r -> is_total (aitems r).
Proof. intros [v ->]. done_total. Qed.

Lemma icmp_common_total buf : (icmp_min <= length buf)%nat -> Forall is_total (icmp_common buf).
Proof.
  intro H. unfold icmp_common. repeat constructor; apply aint_total;
    [apply icmp_get_icmp_type_total|apply icmp_get_icmp_code_total|apply icmp_get_checksum_total]; exact H.
Qed.

Ltac acc_total H :=
  lazymatch goal with
  | |- is_total (aint _) => apply aint_total
  | |- is_total (abytes _) => apply abytes_total
  | |- is_total (aopt _) => apply aopt_total
  | |- is_total (aitems _) => apply aitems_total
  end;
  lazymatch goal with
  | |- is_total (extensions_objects _) => apply extensions_objects_total
  | |- is_total (mpls_label_stack_members _) => apply mpls_label_stack_members_total
  | |- is_total (pv_ipv4_get_version _) => apply ipv4_get_version_total; exact H
  | |- is_total (pv_ipv4_get_header_length _) => apply ipv4_get_header_length_total; exact H
  | |- is_total (pv_ipv4_get_dscp _) => apply ipv4_get_dscp_total; exact H
  | |- is_total (pv_ipv4_get_ecn _) => apply ipv4_get_ecn_total; exact H
  | |- is_total (pv_ipv4_get_tos _) => apply ipv4_get_tos_total; exact H
  | |- is_total (pv_ipv4_get_total_length _) => apply ipv4_get_total_length_total; exact H
  | |- is_total (pv_ipv4_get_identification _) => apply ipv4_get_identification_total; exact H
  | |- is_total (pv_ipv4_get_flags_and_fragment_offset _) => apply ipv4_get_flags_and_fragment_offset_total; exact H
  | |- is_total (pv_ipv4_get_ttl _) => apply ipv4_get_ttl_total; exact H
  | |- is_total (pv_ipv4_get_protocol _) => apply ipv4_get_protocol_total; exact H
  | |- is_total (pv_ipv4_get_checksum _) => apply ipv4_get_checksum_total; exact H
  | |- is_total (pv_ipv4_get_source _) => apply ipv4_get_source_total; exact H
  | |- is_total (pv_ipv4_get_destination _) => apply ipv4_get_destination_total; exact H
  | |- is_total (ipv4_get_options_raw _) => apply ipv4_get_options_raw_total; exact H
  | |- is_total (ipv4_payload _) => apply ipv4_payload_total; exact H
  | |- is_total (pv_ipv6_get_version _) => apply ipv6_get_version_total; exact H
  | |- is_total (pv_ipv6_get_traffic_class _) => apply ipv6_get_traffic_class_total; exact H
  | |- is_total (pv_ipv6_get_flow_label _) => apply ipv6_get_flow_label_total; exact H
  | |- is_total (pv_ipv6_get_payload_length _) => apply ipv6_get_payload_length_total; exact H
  | |- is_total (pv_ipv6_get_next_header _) => apply ipv6_get_next_header_total; exact H
  | |- is_total (pv_ipv6_get_hop_limit _) => apply ipv6_get_hop_limit_total; exact H
  | |- is_total (pv_ipv6_get_source_address _) => apply ipv6_get_source_address_total; exact H
  | |- is_total (pv_ipv6_get_destination_address _) => apply ipv6_get_destination_address_total; exact H
  | |- is_total (ipv6_payload _) => apply ipv6_payload_total; exact H
  | |- is_total (pv_udp_get_source _) => apply udp_get_source_total; exact H
  | |- is_total (pv_udp_get_destination _) => apply udp_get_destination_total; exact H
  | |- is_total (pv_udp_get_length _) => apply udp_get_length_total; exact H
  | |- is_total (pv_udp_get_checksum _) => apply udp_get_checksum_total; exact H
  | |- is_total (pv_udp_payload _) => apply udp_payload_total; exact H
  | |- is_total (pv_tcp_get_source _) => apply tcp_get_source_total; exact H
  | |- is_total (pv_tcp_get_destination _) => apply tcp_get_destination_total; exact H
  | |- is_total (pv_tcp_get_sequence _) => apply tcp_get_sequence_total; exact H
  | |- is_total (pv_tcp_get_acknowledgement _) => apply tcp_get_acknowledgement_total; exact H
  | |- is_total (pv_tcp_get_data_offset _) => apply tcp_get_data_offset_total; exact H
  | |- is_total (pv_tcp_get_reserved _) => apply tcp_get_reserved_total; exact H
  | |- is_total (pv_tcp_get_flags _) => apply tcp_get_flags_total; exact H
  | |- is_total (pv_tcp_get_window_size _) => apply tcp_get_window_size_total; exact H
  | |- is_total (pv_tcp_get_checksum _) => apply tcp_get_checksum_total; exact H
  | |- is_total (pv_tcp_get_urgent_pointer _) => apply tcp_get_urgent_pointer_total; exact H
  | |- is_total (tcp_get_options_raw _) => apply tcp_get_options_raw_total; exact H
  | |- is_total (tcp_payload _) => apply tcp_payload_total; exact H
  | |- is_total (echo_get_identifier _) => apply echo_get_identifier_total; exact H
  | |- is_total (echo_get_sequence _) => apply echo_get_sequence_total; exact H
  | |- is_total (echo_payload _) => apply echo_payload_total; exact H
  | |- is_total (destination_unreachable_get_next_hop_mtu _) => apply destination_unreachable_get_next_hop_mtu_total; exact H
  | |- is_total (icmp_error_get_length _ _) => apply icmp_error_get_length_total; exact H
  | |- is_total (icmp_error_payload_raw _) => apply icmp_error_payload_raw_total; exact H
  | |- is_total (icmp_error_payload _ _) => apply icmp_error_payload_total; exact H
  | |- is_total (icmp_error_extension _ _) => apply icmp_error_extension_total; exact H
  | |- is_total (extensions_header _) => apply extensions_header_total; exact H
  | |- is_total (extension_header_get_version _) => apply extension_header_get_version_total; exact H
  | |- is_total (extension_header_get_checksum _) => apply extension_header_get_checksum_total; exact H
  | |- is_total (extension_object_get_length _) => apply extension_object_get_length_total; exact H
  | |- is_total (extension_object_get_class_num _) => apply extension_object_get_class_num_total; exact H
  | |- is_total (extension_object_get_class_subtype _) => apply extension_object_get_class_subtype_total; exact H
  | |- is_total (extension_object_payload _) => apply extension_object_payload_total; exact H
  | |- is_total (pv_mpls_member_get_label _) => apply mpls_member_get_label_total; exact H
  | |- is_total (pv_mpls_member_get_exp _) => apply mpls_member_get_exp_total; exact H
  | |- is_total (pv_mpls_member_get_bos _) => apply mpls_member_get_bos_total; exact H
  | |- is_total (pv_mpls_member_get_ttl _) => apply mpls_member_get_ttl_total; exact H
  end.

(* for every packet view and every non-mutating accessor: length buf >= min -> the accessor returns a value *)
Theorem view_accessors_total : forall v buf, (view_min v <= length buf)%nat -> Forall is_total (view_accessors v buf).
Proof.
  intros v buf H. destruct v; cbn [view_min view_accessors] in *;
    try (apply Forall_app; split; [apply icmp_common_total; exact H|]);
    try (apply icmp_common_total; exact H);
    repeat (apply Forall_cons; [acc_total H|]); apply Forall_nil.
Qed.

Corollary view_accessors_no_fault : forall v buf r f,
  (view_min v <= length buf)%nat -> In r (view_accessors v buf) -> r <> Fault f.
Proof.
  intros v buf r f H Hin. pose proof (view_accessors_total v buf H) as Hall.
  rewrite Forall_forall in Hall. apply total_not_fault, Hall, Hin.
Qed.

(* including new_view: for ANY buffer, the view is refused (Err) or every accessor returns a value *)
Corollary view_all_no_fault : forall v buf,
  view_all v buf = Err EPacket \/ exists accs, view_all v buf = Ok accs /\ Forall is_total accs.
Proof.
  intros v buf. unfold view_all, new_view.
  destruct (Nat.leb_spec (view_min v) (length buf)) as [H|H]; [right|left; reflexivity].
  cbn [bind]. eexists; split; [reflexivity|]. apply view_accessors_total, H.
Qed.
