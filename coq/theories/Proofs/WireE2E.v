(* C02 end to end: strategy -> dispatch -> wire -> conforming router / target -> receive path -> acceptance test.
   For every builder-accepted configuration [sc], every probe [p] an iteration of the strategy issues in a reachable
   state ([issued sc p]), the datagram [b] that one send_probe of the channel model hands to the socket (or, where
   the kernel builds headers, every datagram that satisfies the stated kernel predicate), quoted by any conforming
   peer of Net/RfcPeer.v and handed to the receive path of THIS tracer, is recognised as the response to exactly
   p's sequence. *)
From TV Require Import Base.Result Base.Bytes Core.Types Core.TracerState Core.Strategy Core.Builder Packet.Checksum.
From TV Require Import Net.Wire Net.Rfc Net.Sock Net.Dispatch4 Net.Dispatch6 Net.ChannelSend Net.SendSpec.
From TV Require Import Net.RecvCommon Net.Recv4 Net.Recv6 Net.Recv Net.RfcPeer Net.ProbeShape.
From TV Require Import Proofs.ChecksumProofs Proofs.WireProofs Proofs.Dispatch4Proofs Proofs.Dispatch6Proofs Proofs.ChannelSendProofs
  Proofs.StrategyInv Proofs.StrategyProps Proofs.IssuedProbes Proofs.RecvProofs Proofs.RecvRoundtrip Proofs.WireShapes.
From Coq Require Import ZifyBool.
Ltac Zify.zify_post_hook ::= Z.div_mod_to_equations.

(* ---------------------------------------------------------------- vocabulary *)
(* [p] is handed to the network by some iteration of the strategy loop in a reachable state of an accepted configuration *)
Definition issued (sc : scfg) (p : probe) : Prop :=
  Accept sc /\ exists s i s' ev e, reach sc s /\ step sc s i = Ok (s', ev, e) /\ In p (ev_probes ev).

(* the strategy configuration, the channel configuration and the receive-path configuration describe the same trace
   (Builder::build derives all three from one set of values) *)
Record same_trace (sc : scfg) (cfg : chan_cfg) (rc : rcfg) : Prop := {
  st_target : cc_target cfg = target_addr sc;
  st_proto : cc_protocol cfg = proto sc;
  st_init : cc_initial_sequence cfg = initial_sequence sc;
  st_rsrc : rc_src rc = cc_source cfg;
  st_rdest : rc_dest rc = cc_target cfg;
  st_rproto : rc_proto rc = cc_protocol cfg;
  st_rpat : rc_pattern rc = cc_payload_pattern cfg;
}.

(* what "recognised as the response to p, sent back by [from]" means *)
Definition answers (sc : scfg) (res : result (option response)) (p : probe) (from : addr) : Prop :=
  exists r, res = Ok (Some r) /\ recognised sc r (p_sequence p) /\ r_addr (resp_data_of r) = from.

(* ---------------------------------------------------------------- what is known of an issued probe *)
Lemma issued_probe_data sc p : issued sc p ->
  exists ts, probe_data sc ts = Ok (p_src_port p, p_dest_port p, p_identifier p, p_flags p) /\ sequence ts = p_sequence p.
Proof.
  intros (HA & s & i & s' & ev & e & HR & Hs & Hin).
  pose proof (step_P sc (fun q => exists ts, probe_data sc ts = Ok (p_src_port q, p_dest_port q, p_identifier q, p_flags q)
                                             /\ sequence ts = p_sequence q)) as H.
  assert (HP : forall s0 d t sent, probe_data sc s0 = Ok d ->
               exists ts, probe_data sc ts = Ok (p_src_port (mk_probe s0 d t sent), p_dest_port (mk_probe s0 d t sent),
                                                 p_identifier (mk_probe s0 d t sent), p_flags (mk_probe s0 d t sent))
                          /\ sequence ts = p_sequence (mk_probe s0 d t sent)).
  { intros s0 [[[sp dp] id] fl] t sent Hd. exists s0. split; [exact Hd | reflexivity]. }
  specialize (H HP s i s' ev e Hs). rewrite Forall_forall in H. exact (H p Hin).
Qed.

Lemma issued_wf sc p : issued sc p -> probe_wf p.
Proof.
  intros (HA & s & i & s' & ev & e & HR & Hs & Hin).
  exact (proj1 (Forall_forall _ _) (issued_probe_wf_lemma sc s i s' ev e HA HR Hs) p Hin).
Qed.

Lemma issued_fields sc p : issued sc p -> prescribed_fields sc p.
Proof.
  intros (HA & s & i & s' & ev & e & HR & Hs & Hin).
  exact (proj1 (Forall_forall _ _) (issued_probe_fields_lemma sc s i s' ev e Hs) p Hin).
Qed.

Lemma issued_sequence_range sc p : issued sc p -> 0 <= initial_sequence sc <= p_sequence p /\ p_sequence p < 65535.
Proof.
  intros (HA & s & i & s' & ev & e & HR & Hs & Hin).
  destruct (c07_consecutive_lemma sc s i s' ev e HA HR Hs) as (_ & Hseq).
  destruct (c07_invariant_lemma sc s HA HR) as (_ & Hlo & _).
  pose proof (accept_facts sc HA) as (_ & _ & Hinit & _).
  rewrite Forall_forall in Hseq. pose proof (Hseq (p_sequence p) (in_map p_sequence _ _ Hin)). lia.
Qed.

Lemma issued_dublin6_fits sc cfg p : issued sc p -> proto sc = Udp -> multipath sc = Dublin -> is_v6 (target_addr sc) = true ->
  cc_initial_sequence cfg = initial_sequence sc -> dublin_v6_fits cfg p.
Proof.
  intros (HA & s & i & s' & ev & e & HR & Hs & Hin) Hp Hm Hv Hi.
  pose proof (proj1 (Forall_forall _ _) (c07_dublin_payload_lemma sc s i s' ev e HA HR Hp Hm Hv Hs)
                (p_sequence p) (in_map p_sequence _ _ Hin)) as Hfit. cbv beta in Hfit.
  unfold dublin_v6_fits. rewrite Hi. exact Hfit.
Qed.

Lemma has_flag_paris p : has_flag (p_flags p) 1 = flag_paris p.
Proof. unfold has_flag, flag_paris. rewrite Z.div_1_r, Z.bit0_odd. reflexivity. Qed.

Lemma zlen_len {A} (l : list A) : zlen l = Z.of_nat (length l).
Proof. reflexivity. Qed.

(* ================================================================ IPv4 *)
(* ---- ICMP: Time Exceeded / Destination Unreachable quoting the echo request, and the Echo Reply to it *)
Theorem e2e_icmp4 sc cfg rc p :
  issued sc p -> proto sc = Icmp -> same_trace sc cfg rc -> cfg_v4 cfg -> 28 <= cc_packet_size cfg <= 1024 ->
  exists b ick,
    run_send BoNetwork cfg [] p = (connect_ops false cfg ++ [SendTo b (cc_target cfg) 0], Ok tt) /\
    b = icmp4_probe (cc_source cfg) (cc_target cfg) (cc_tos cfg) (p_ttl p) 0 (trace_identifier sc) (p_sequence p) ick
          (repeat (cc_payload_pattern cfg) (Z.to_nat (cc_packet_size cfg - 28))) /\
    (forall now me peer, peer4_conforming me peer -> zlen (quote4 me peer b) <= 1024 ->
       answers sc (recv4 rc now (quote4 me peer b)) p (q_router peer)) /\
    (forall now me o_tos o_id o_fl o_ttl o_ck o_opts ck, length me = 4%nat ->
       zlen o_opts = 4 * (zlen o_opts / 4) -> zlen o_opts <= 40 ->
       let reply := echo_reply4 me (cc_target cfg) o_tos o_id o_fl o_ttl o_ck o_opts ck (u16 b 24) (u16 b 26) (skipn 28 b) in
       zlen reply <= 1024 -> answers sc (recv4 rc now reply) p (cc_target cfg)).
Proof.
  intros Hiss Hpr [Ht Hp Hi Hrs Hrd Hrp Hrpat] Hcfg Hsz.
  pose proof Hcfg as (Hs & Hd & Hbs & Hbd & Htos & Hpat). unfold SendSpec.u8 in *.
  pose proof (issued_fields sc p Hiss) as Hf. unfold prescribed_fields in Hf. rewrite Hpr in Hf. destruct Hf as (Hid & _).
  pose proof (issued_wf sc p Hiss) as (Httl & Hseq & Hidr & _). unfold SendSpec.u16 in *.
  assert (Hproto : cc_protocol cfg = Icmp) by congruence.
  assert (Hrproto : rc_proto rc = Icmp) by congruence.
  assert (Hrd4 : length (rc_dest rc) = 4%nat) by (rewrite Hrd; exact Hd).
  eexists. eexists. split; [apply run_send_icmp4; assumption|].
  rewrite icmp4_datagram_shape by (try assumption; lia). rewrite Hid.
  set (n := Z.to_nat (cc_packet_size cfg - 28)).
  set (ick := icmp_ipv4_checksum _).
  split; [reflexivity|]. split.
  - intros now me peer Hpeer Hlen. rewrite <- Hrd in *.
    apply (final_icmp4 rc sc now me peer (cc_source cfg) (cc_tos cfg) (p_ttl p) 0 (p_sequence p) ick
             (repeat (cc_payload_pattern cfg) n) [] (cc_payload_pattern cfg) n); try assumption.
    split; [reflexivity|]. split; [cbn; lia|]. split; [lia|]. unfold n. lia.
  - intros now me o_tos o_id o_fl o_ttl o_ck o_opts ck Hme Ho1 Ho2 Hlen.
    destruct (len4 _ Hs) as (s0 & s1 & s2 & s3 & Es). destruct (len4 _ Hd) as (d0 & d1 & d2 & d3 & Ed).
    assert (Hid16 : u16 (icmp4_probe (cc_source cfg) (cc_target cfg) (cc_tos cfg) (p_ttl p) 0 (trace_identifier sc) (p_sequence p) ick
                           (repeat (cc_payload_pattern cfg) n)) 24 = trace_identifier sc).
    { rewrite Es, Ed. unfold u16. cbn [icmp4_probe ipv4_hdr icmp_echo be_bytes app nth]. rewrite Hid in Hidr. lia. }
    assert (Hsq16 : u16 (icmp4_probe (cc_source cfg) (cc_target cfg) (cc_tos cfg) (p_ttl p) 0 (trace_identifier sc) (p_sequence p) ick
                           (repeat (cc_payload_pattern cfg) n)) 26 = p_sequence p).
    { rewrite Es, Ed. unfold u16. cbn [icmp4_probe ipv4_hdr icmp_echo be_bytes app nth]. lia. }
    rewrite Hid16, Hsq16 in *. rewrite <- Hrd in *.
    apply (roundtrip_echo_reply4 rc sc now me o_tos o_id o_fl o_ttl o_ck o_opts ck (p_sequence p)); assumption.
Qed.

(* ---- UDP over a raw socket: classic (sequence in a port), Paris (in the UDP checksum), Dublin (in the IP identification) *)
Theorem e2e_udp4 sc cfg rc p :
  issued sc p -> proto sc = Udp -> same_trace sc cfg rc -> cfg_v4 cfg -> cc_privilege cfg = Privileged ->
  28 <= cc_packet_size cfg <= 1024 ->
  exists b uck payload,
    run_send BoNetwork cfg [] p = (connect_ops false cfg ++ [SendTo b (cc_target cfg) (p_dest_port p)], Ok tt) /\
    b = udp4_probe (cc_source cfg) (cc_target cfg) (cc_tos cfg) (p_ttl p) 0 (p_identifier p) (p_src_port p) (p_dest_port p) uck payload /\
    (multipath sc = Paris -> uck = p_sequence p /\ zlen payload = 2) /\
    (multipath sc <> Paris -> payload = repeat (cc_payload_pattern cfg) (Z.to_nat (cc_packet_size cfg - 28)) /\
                              uck = udp4_wire_checksum cfg p payload) /\
    (multipath sc = Dublin -> p_identifier p = p_sequence p) /\
    (forall now me peer, peer4_conforming me peer -> zlen (quote4 me peer b) <= 1024 ->
       answers sc (recv4 rc now (quote4 me peer b)) p (q_router peer)).
Proof.
  intros Hiss Hpr [Ht Hp Hi Hrs Hrd Hrp Hrpat] Hcfg Hpriv Hsz.
  pose proof Hcfg as (Hs & Hd & Hbs & Hbd & Htos & Hpat). unfold SendSpec.u8 in *.
  pose proof (issued_fields sc p Hiss) as Hf. unfold prescribed_fields in Hf. rewrite Hpr in Hf.
  pose proof (issued_wf sc p Hiss) as (Httl & Hseq & Hidr & _). unfold SendSpec.u16 in *.
  destruct (issued_probe_data sc p Hiss) as (ts & Hpd & Hq).
  assert (Hproto : cc_protocol cfg = Udp) by congruence.
  assert (Hrproto : rc_proto rc = Udp) by congruence.
  assert (Hrd4 : length (rc_dest rc) = 4%nat) by (rewrite Hrd; exact Hd).
  assert (Htr : target_addr sc = rc_dest rc) by congruence.
  destruct (flag_paris p) eqn:Hfp.
  - (* Paris *)
    assert (Hm : multipath sc = Paris).
    { destruct (multipath sc); [destruct Hf as (Hfl & _)|reflexivity|destruct Hf as (Hfl & _)];
        unfold flag_paris in Hfp; rewrite Hfl in Hfp; discriminate. }
    eexists. eexists. eexists. split; [apply run_send_udp4_paris; assumption|].
    rewrite paris4_datagram_shape by assumption.
    split; [reflexivity|]. split; [intros _; split; reflexivity|]. split; [congruence|]. split; [congruence|].
    intros now me peer Hpeer Hlen. rewrite <- Hrd in *. rewrite <- Hq.
    pose proof (final_udp4 rc sc now me peer ts (cc_source cfg) (cc_tos cfg) (p_ttl p) 0 0 (paris4_wire_payload cfg p)
                  (paris4_wire_payload cfg p) 0 0 (p_src_port p) (p_dest_port p) (p_identifier p) (p_flags p)
                  Htr Hpr Hrproto Hs Hrd4 Hpeer Hpd) as F.
    rewrite has_flag_paris, Hfp, Hq in F. rewrite Hq. apply F; [|exact Hlen].
    split; [cbn [repeat]; rewrite app_nil_r; reflexivity|]. split; [cbn; lia|]. split; lia.
  - (* classic / Dublin *)
    assert (Hm : multipath sc <> Paris).
    { intros Hm. rewrite Hm in Hf. destruct Hf as (Hfl & _). unfold flag_paris in Hfp. rewrite Hfl in Hfp. discriminate. }
    eexists. eexists. eexists. split; [apply run_send_udp4_raw; assumption|].
    rewrite udp4_datagram_shape by assumption.
    split; [reflexivity|]. split; [intros Hm'; contradiction|]. split; [intros _; split; reflexivity|].
    split; [intros Hd'; rewrite Hd' in Hf; destruct Hf as (_ & Hf); exact Hf|].
    intros now me peer Hpeer Hlen. rewrite <- Hrd in *. unfold answers. rewrite <- Hq.
    set (n := Z.to_nat (cc_packet_size cfg - 28)) in *.
    pose proof (final_udp4 rc sc now me peer ts (cc_source cfg) (cc_tos cfg) (p_ttl p) 0
                  (udp4_wire_checksum cfg p (repeat (cc_payload_pattern cfg) n)) (repeat (cc_payload_pattern cfg) n)
                  [] (cc_payload_pattern cfg) n (p_src_port p) (p_dest_port p) (p_identifier p) (p_flags p)
                  Htr Hpr Hrproto Hs Hrd4 Hpeer Hpd) as F.
    rewrite has_flag_paris, Hfp in F. apply F; [|exact Hlen].
    split; [reflexivity|]. split; [cbn; lia|]. split; [lia|]. unfold n. lia.
Qed.

(* ---- UDP through a datagram socket (unprivileged): the kernel builds both headers.
   [kernel_udp4 src dst sp dp payload d]: what is assumed of the kernel - the datagram it emits for a sendto of
   [payload] on a socket bound to (src, sp) towards (dst, dp) has no IP options, carries these addresses and ports,
   the payload unchanged and the UDP length of the payload, with don't-fragment set; type of service, TTL,
   identification and both checksums are whatever the kernel chooses *)
Definition kernel_udp4 (src dst : addr) (sp dp : Z) (payload d : list Z) : Prop :=
  exists tos ttl hck ipid uck, d = udp4_probe src dst tos ttl hck ipid sp dp uck payload.

Theorem e2e_udp4_unprivileged_classic sc cfg rc p :
  issued sc p -> proto sc = Udp -> multipath sc = Classic -> same_trace sc cfg rc -> cfg_v4 cfg ->
  cc_privilege cfg = Unprivileged -> 28 <= cc_packet_size cfg <= 1024 ->
  let payload := repeat (cc_payload_pattern cfg) (Z.to_nat (cc_packet_size cfg - 28)) in
  run_send BoNetwork cfg [] p =
    (connect_ops false cfg ++
       [NewSocket SkUdp4 false; Bind (cc_source cfg) (p_src_port p); SetTtl (p_ttl p); SetTos (cc_tos cfg);
        SendTo payload (cc_target cfg) (p_dest_port p)], Ok tt) /\
  (p_src_port p = p_sequence p \/ p_dest_port p = p_sequence p) /\
  forall d, kernel_udp4 (cc_source cfg) (cc_target cfg) (p_src_port p) (p_dest_port p) payload d ->
  forall now me peer, peer4_conforming me peer -> zlen (quote4 me peer d) <= 1024 ->
    answers sc (recv4 rc now (quote4 me peer d)) p (q_router peer).
Proof.
  intros Hiss Hpr Hmp [Ht Hp Hi Hrs Hrd Hrp Hrpat] Hcfg Hpriv Hsz payload.
  pose proof Hcfg as (Hs & Hd & Hbs & Hbd & Htos & Hpat). unfold SendSpec.u8 in *.
  pose proof (issued_fields sc p Hiss) as Hf. unfold prescribed_fields in Hf. rewrite Hpr, Hmp in Hf.
  destruct Hf as (Hfl & _ & Hport).
  destruct (issued_probe_data sc p Hiss) as (ts & Hpd & Hq).
  assert (Hproto : cc_protocol cfg = Udp) by congruence.
  assert (Hrproto : rc_proto rc = Udp) by congruence.
  assert (Hrd4 : length (rc_dest rc) = 4%nat) by (rewrite Hrd; exact Hd).
  assert (Htr : target_addr sc = rc_dest rc) by congruence.
  split; [apply c11_udp_ipv4_unprivileged_lemma; assumption|]. split; [exact Hport|].
  intros d (tos & ttl & hck & ipid & uck & ->) now me peer Hpeer Hlen.
  (* the identifier the kernel chose plays no role for the classic strategy: use the receive-side statement with it *)
  rewrite <- Hrd in *. unfold answers. rewrite <- Hq.
  destruct (udp4_probe_split (cc_source cfg) (rc_dest rc) tos ttl hck ipid (p_src_port p) (p_dest_port p) uck payload Hs Hrd4)
    as (A & HA & Hdg).
  assert (HEx : exists E, ext_result rc (q_ext peer) (ztake (q_n peer) (transit4 (q_transit peer)
                  (udp4_probe (cc_source cfg) (rc_dest rc) tos ttl hck ipid (p_src_port p) (p_dest_port p) uck payload))) = Ok E).
  { apply (final_ext4 rc peer _ A (cc_payload_pattern cfg) (Z.to_nat (cc_packet_size cfg - 28)));
      [destruct Hpeer; assumption | exact Hdg | lia | lia | destruct Hpeer; lia | lia]. }
  destruct HEx as [E HE].
  destruct (decode_udp4_error rc now me peer (cc_source cfg) (rc_dest rc) tos ttl hck ipid (p_src_port p) (p_dest_port p) uck payload E
              Hrproto Hs Hrd4 (peer4_conforming_ok me peer Hpeer) Hlen HE) as (ex & Hrecv).
  eexists. split; [exact Hrecv|]. split; [|apply r_addr_mk_err].
  unfold recognised. rewrite resp_data_mk_err.
  unfold probe_data in Hpd. rewrite Hpr, Hmp in Hpd.
  unfold validate. cbn [r_proto mk_resp_data]. rewrite Htr, list_eqb_refl, Hmp. unfold addr_eqb.
  destruct (port_direction sc) eqn:Hpo; try discriminate Hpd; inversion Hpd as [[H1 H2 H3 H4]];
    cbn [validate_ports]; rewrite <- ?H1, <- ?H2; rewrite ?Z.eqb_refl; cbn [andb]; (split; [reflexivity|]);
    destruct (is_du peer); cbn; rewrite Hmp, Hpo; cbn; eexists; (split; [reflexivity|]); cbn;
    (split; [apply check_trace_id_0 | reflexivity]).
Qed.

(* ---- TCP: the SYN is built by the kernel for connect() on a socket bound to (src, sp) towards (dst, dp).
   [kernel_syn4]: no IP options, these addresses and ports, a TCP header of 20 to 60 octets and no data *)
Definition kernel_syn4 (src dst : addr) (sp dp : Z) (d : list Z) : Prop :=
  exists tos ttl hck ipid fl rest, d = tcp4_probe src dst tos ttl hck ipid fl sp dp rest /\ 16 <= zlen rest <= 56.

Theorem e2e_tcp4_quoted sc cfg rc p :
  issued sc p -> proto sc = Tcp -> same_trace sc cfg rc -> cfg_v4 cfg -> cc_packet_size cfg <= 1024 ->
  run_send BoNetwork cfg [] p =
    (connect_ops false cfg ++
       [NewSocket SkTcp4 false; Bind (cc_source cfg) (p_src_port p); SetTtl (p_ttl p); SetTos (cc_tos cfg);
        Connect (cc_target cfg) (p_dest_port p)], Ok tt) /\
  (p_src_port p = p_sequence p \/ p_dest_port p = p_sequence p) /\
  forall d, kernel_syn4 (cc_source cfg) (cc_target cfg) (p_src_port p) (p_dest_port p) d ->
  forall now me peer, peer4_conforming me peer -> zlen (quote4 me peer d) <= 1024 ->
    answers sc (recv4 rc now (quote4 me peer d)) p (q_router peer).
Proof.
  intros Hiss Hpr [Ht Hp Hi Hrs Hrd Hrp Hrpat] Hcfg Hsz.
  pose proof Hcfg as (Hs & Hd & Hbs & Hbd & Htos & Hpat).
  pose proof (issued_fields sc p Hiss) as Hf. unfold prescribed_fields in Hf. rewrite Hpr in Hf.
  destruct Hf as (Hfl & _ & Hport).
  destruct (issued_probe_data sc p Hiss) as (ts & Hpd & Hq).
  assert (Hproto : cc_protocol cfg = Tcp) by congruence.
  assert (Hrproto : rc_proto rc = Tcp) by congruence.
  assert (Hrd4 : length (rc_dest rc) = 4%nat) by (rewrite Hrd; exact Hd).
  assert (Htr : target_addr sc = rc_dest rc) by congruence.
  split; [apply c11_tcp_ipv4_lemma; assumption|]. split; [exact Hport|].
  intros d (tos & ttl & hck & ipid & fl & rest & -> & Hrest) now me peer Hpeer Hlen.
  rewrite <- Hrd in *. unfold answers. rewrite <- Hq.
  apply (final_tcp4 rc sc now me peer ts (cc_source cfg) tos ttl hck ipid fl rest (p_src_port p) (p_dest_port p)
           (p_identifier p) (p_flags p)); try assumption. lia.
Qed.

(* ================================================================ IPv6 *)
(* ---- ICMPv6: the dispatch writes the echo request, the kernel the fixed header *)
Theorem e2e_icmp6 sc cfg rc p :
  issued sc p -> proto sc = Icmp -> same_trace sc cfg rc -> cfg_v6 cfg -> 48 <= cc_packet_size cfg <= 1024 ->
  exists m ick,
    run_send BoNetwork cfg [] p =
      (connect_ops true cfg ++ [SetUnicastHopsV6 (p_ttl p); SendTo m (cc_target cfg) 0], Ok tt) /\
    m = icmp_echo 128 ick (trace_identifier sc) (p_sequence p) (repeat (cc_payload_pattern cfg) (Z.to_nat (cc_packet_size cfg - 48))) /\
    (forall d, kernel_ipv6 (cc_source cfg) (cc_target cfg) 58 m d ->
     forall now peer, peer6_conforming peer -> conforming6 peer d -> (q_ext peer = XNone \/ zlen (quote6 peer d) <= 1024) ->
       answers sc (recv6 rc now (Some (q_router peer)) (quote6 peer d)) p (q_router peer)) /\
    (forall now ck, answers sc (recv6 rc now (Some (cc_target cfg)) (echo_reply6 ck (u16 m 4) (u16 m 6) (skipn 8 m))) p (cc_target cfg)).
Proof.
  intros Hiss Hpr [Ht Hp Hi Hrs Hrd Hrp Hrpat] Hcfg Hsz.
  pose proof Hcfg as (Hs & Hd & Hbs & Hbd & Htos & Hpat & Hinit). unfold SendSpec.u8 in *.
  pose proof (issued_fields sc p Hiss) as Hf. unfold prescribed_fields in Hf. rewrite Hpr in Hf. destruct Hf as (Hid & _).
  pose proof (issued_wf sc p Hiss) as (Httl & Hseq & Hidr & _). unfold SendSpec.u16 in *.
  assert (Hproto : cc_protocol cfg = Icmp) by congruence.
  assert (Hrproto : rc_proto rc = Icmp) by congruence.
  assert (Hrd16 : length (rc_dest rc) = 16%nat) by (rewrite Hrd; exact Hd).
  eexists. eexists. split; [apply run_send_icmp6; assumption|].
  rewrite icmp6_message_shape. rewrite Hid.
  set (n := Z.to_nat (cc_packet_size cfg - 48)). set (ick := icmp_ipv6_checksum _ _ _).
  split; [reflexivity|]. split.
  - intros d Hk now peer Hpeer Hconf Hlen.
    destruct (kernel_icmp6 _ _ _ _ _ _ _ Hk) as (tc & flow & hop & ->). rewrite <- Hrd in *.
    apply (final_icmp6 rc sc now peer (cc_source cfg) tc flow hop (p_sequence p) ick
             (repeat (cc_payload_pattern cfg) n) [] (cc_payload_pattern cfg) n); try assumption.
    split; [reflexivity|]. split; [cbn; lia|]. split; [lia|]. unfold n. lia.
  - intros now ck.
    assert (H4 : u16 (icmp_echo 128 ick (trace_identifier sc) (p_sequence p) (repeat (cc_payload_pattern cfg) n)) 4 = trace_identifier sc).
    { unfold u16. cbn [icmp_echo be_bytes app nth]. rewrite Hid in Hidr. lia. }
    assert (H6 : u16 (icmp_echo 128 ick (trace_identifier sc) (p_sequence p) (repeat (cc_payload_pattern cfg) n)) 6 = p_sequence p).
    { unfold u16. cbn [icmp_echo be_bytes app nth]. lia. }
    rewrite H4, H6. rewrite <- Hrd.
    apply (roundtrip_echo_reply6 rc sc now ck (p_sequence p)); assumption.
Qed.

(* ---- UDP over IPv6.  The receive-side statement with the payload the dispatch really builds *)
Lemma final_udp6_gen c sc now p ts src tc flow hop uck payload pre pat k sp dp ipid fl :
  target_addr sc = rc_dest c -> proto sc = Udp -> rc_proto c = Udp ->
  length src = 16%nat -> length (rc_dest c) = 16%nat -> peer6_conforming p ->
  probe_data sc ts = Ok (sp, dp, ipid, fl) ->
  initial_sequence sc <= sequence ts < 65536 -> 0 <= initial_sequence sc ->
  payload_ok (udp6_payload sc fl (rc_pattern c) (sequence ts) payload) pre pat k ->
  let dg := udp6_probe src (rc_dest c) tc flow hop sp dp (if has_flag fl 1 then sequence ts else uck)
                       (udp6_payload sc fl (rc_pattern c) (sequence ts) payload) in
  conforming6 p dg -> (q_ext p = XNone \/ zlen (quote6 p dg) <= 1024) ->
  exists r, recv6 c now (Some (q_router p)) (quote6 p dg) = Ok (Some r) /\ recognised sc r (sequence ts) /\ r_addr (resp_data_of r) = q_router p.
Proof.
  intros Ht Hps Hp Hs Hd Hpeer Hpd Hseq Hinit (Hpl & Hpre & Hpat & Hk) dg Hconf Hlen.
  set (pl := udp6_payload sc fl (rc_pattern c) (sequence ts) payload) in *.
  destruct (udp6_probe_split src (rc_dest c) tc flow hop sp dp (if has_flag fl 1 then sequence ts else uck) pl Hs Hd) as (A & HA & Hdg).
  assert (Hn : 0 <= q_n p).
  { unfold conforming6 in Hconf. pose proof (zlen_nonneg dg). lia. }
  destruct (final_ext6 c p dg (A ++ pre) pat k) as [E HE]; try assumption; try (destruct Hpeer; assumption).
  - unfold dg. rewrite Hdg, Hpl, app_assoc. reflexivity.
  - rewrite zlen_app. lia.
  - eapply roundtrip_udp6; eauto. apply peer6_conforming_ok; assumption.
Qed.

Lemma udp6_payload_0 sc pat seq payload : udp6_payload sc 0 pat seq payload = payload.
Proof. reflexivity. Qed.
Lemma udp6_payload_1 sc pat seq payload : udp6_payload sc 1 pat seq payload = payload.
Proof. reflexivity. Qed.
Lemma udp6_payload_2 sc pat seq payload : udp6_payload sc 2 pat seq payload = dublin6_payload pat (seq - initial_sequence sc).
Proof. reflexivity. Qed.

(* the three strategies over a raw socket: classic (the pattern payload of the configured size), Dublin (marker +
   sequence - initial_sequence pattern octets), Paris (the sequence in the checksum field; the two payload octets hold
   the checksum the dispatch computed, written as 0xFFFF when it was zero) *)
Theorem e2e_udp6 sc cfg rc p :
  issued sc p -> proto sc = Udp -> same_trace sc cfg rc -> cfg_v6 cfg -> cc_privilege cfg = Privileged ->
  48 <= cc_packet_size cfg <= 1024 ->
  exists m uck payload,
    run_send BoNetwork cfg [] p =
      (connect_ops true cfg ++ [SetUnicastHopsV6 (p_ttl p); SendTo m (cc_target cfg) 0], Ok tt) /\
    m = udp_dgram (p_src_port p) (p_dest_port p) uck payload /\ uck <> 0 /\
    match multipath sc with
    | Classic => payload = repeat (cc_payload_pattern cfg) (Z.to_nat (cc_packet_size cfg - 48))
    | Dublin => payload = dublin6_payload (cc_payload_pattern cfg) (p_sequence p - initial_sequence sc)
    | Paris => uck = p_sequence p /\ zlen payload = 2 /\ u16 payload 0 <> 0
    end /\
    (forall d, kernel_ipv6 (cc_source cfg) (cc_target cfg) 17 m d ->
     forall now peer, peer6_conforming peer -> conforming6 peer d -> (q_ext peer = XNone \/ zlen (quote6 peer d) <= 1024) ->
       answers sc (recv6 rc now (Some (q_router peer)) (quote6 peer d)) p (q_router peer)).
Proof.
  intros Hiss Hpr [Ht Hp Hi Hrs Hrd Hrp Hrpat] Hcfg Hpriv Hsz.
  pose proof Hcfg as (Hs & Hd & Hbs & Hbd & Htos & Hpat & Hinit). unfold SendSpec.u8 in *.
  pose proof (issued_fields sc p Hiss) as Hf. unfold prescribed_fields in Hf. rewrite Hpr in Hf.
  pose proof (issued_wf sc p Hiss) as (Httl & Hseq & Hidr & Hspr & Hdpr). unfold SendSpec.u16 in *.
  pose proof (issued_sequence_range sc p Hiss) as (Hlo & Hhi).
  destruct (issued_probe_data sc p Hiss) as (ts & Hpd & Hq).
  assert (Hproto : cc_protocol cfg = Udp) by congruence.
  assert (Hrproto : rc_proto rc = Udp) by congruence.
  assert (Hrd16 : length (rc_dest rc) = 16%nat) by (rewrite Hrd; exact Hd).
  assert (Htr : target_addr sc = rc_dest rc) by congruence.
  assert (Hv6 : is_v6 (target_addr sc) = true) by (rewrite <- Ht; apply is_v6_16; exact Hd).
  assert (Hseq' : initial_sequence sc <= sequence ts < 65536) by lia.
  assert (Hnz : forall x, nz x <> 0) by (intros x; unfold nz; destruct (x =? 0) eqn:E; lia).
  assert (Hnzr : forall d, 1 <= nz (udp_ipv6_checksum d (cc_source cfg) (cc_target cfg)) < 65536)
    by (intros d; apply nz_range, ip_checksum_range).
  destruct (multipath sc) eqn:Hm.
  - (* classic *)
    destruct Hf as (Hfl & _ & _).
    eexists. eexists. eexists. split; [apply run_send_udp6_classic; assumption|].
    rewrite udp6_message_shape. split; [reflexivity|]. split; [apply Hnz|]. split; [reflexivity|].
    intros d Hk now peer Hpeer Hconf Hlen.
    destruct (kernel_udp6 _ _ _ _ _ _ _ Hk) as (tc & flow & hop & ->). rewrite <- Hrd in *. unfold answers. rewrite <- Hq.
    set (n := Z.to_nat (cc_packet_size cfg - 48)) in *. set (pl := repeat (cc_payload_pattern cfg) n) in *.
    pose proof (final_udp6_gen rc sc now peer ts (cc_source cfg) tc flow hop (udp6_wire_checksum cfg p pl) pl
                  [] (cc_payload_pattern cfg) n (p_src_port p) (p_dest_port p) (p_identifier p) (p_flags p)
                  Htr Hpr Hrproto Hs Hrd16 Hpeer Hpd Hseq' ltac:(lia)) as F.
    rewrite Hfl in F. rewrite udp6_payload_0 in F. change (has_flag 0 1) with false in F. cbv iota in F.
    apply F; try assumption.
    split; [reflexivity|]. split; [cbn; lia|]. split; [lia|]. unfold n. lia.
  - (* Paris *)
    destruct Hf as (Hfl & _).
    assert (Hfp : flag_paris p = true) by (unfold flag_paris; rewrite Hfl; reflexivity).
    eexists. eexists. eexists. split; [apply run_send_udp6_paris; try assumption; lia|].
    rewrite paris6_message_shape. split; [reflexivity|].
    assert (Hseq1 : 1 <= p_sequence p).
    { destruct Hiss as (HA & _). pose proof (accept_paris6_nonzero sc HA Hpr Hm Hv6). lia. }
    split; [lia|]. split.
    { split; [reflexivity|]. split; [reflexivity|]. unfold paris6_wire_payload, u16, be_bytes. cbn [nth].
      pose proof (Hnzr (udp_dgram (p_src_port p) (p_dest_port p) 0 [p_sequence p / 256; p_sequence p mod 256])). lia. }
    intros d Hk now peer Hpeer Hconf Hlen.
    destruct (kernel_udp6 _ _ _ _ _ _ _ Hk) as (tc & flow & hop & ->). rewrite <- Hrd in *. unfold answers. rewrite <- Hq.
    pose proof (final_udp6_gen rc sc now peer ts (cc_source cfg) tc flow hop 0 (paris6_wire_payload cfg p)
                  (paris6_wire_payload cfg p) 0 0 (p_src_port p) (p_dest_port p) (p_identifier p) (p_flags p)
                  Htr Hpr Hrproto Hs Hrd16 Hpeer Hpd Hseq' ltac:(lia)) as F.
    rewrite Hfl in F. rewrite udp6_payload_1 in F. change (has_flag 1 1) with true in F. cbv iota in F. rewrite Hq in *.
    apply F; try assumption.
    split; [cbn [repeat]; rewrite app_nil_r; reflexivity|]. split; [cbn; lia|]. split; lia.
  - (* Dublin *)
    destruct Hf as (Hfl & _).
    pose proof (issued_dublin6_fits sc cfg p Hiss Hpr Hm Hv6 Hi) as Hfit.
    eexists. eexists. eexists. split; [apply run_send_udp6_dublin; assumption|].
    rewrite udp6_message_shape, dublin_payload_shape, Hi. split; [reflexivity|]. split; [apply Hnz|]. split; [reflexivity|].
    intros d Hk now peer Hpeer Hconf Hlen.
    destruct (kernel_udp6 _ _ _ _ _ _ _ Hk) as (tc & flow & hop & ->). rewrite <- Hrd in *. unfold answers. rewrite <- Hq in *.
    destruct Hfit as [Hfit1 Hfit2]. rewrite Hi, <- Hq in Hfit1, Hfit2.
    set (pl := dublin6_payload (cc_payload_pattern cfg) (sequence ts - initial_sequence sc)) in *.
    pose proof (final_udp6_gen rc sc now peer ts (cc_source cfg) tc flow hop (udp6_wire_checksum cfg p pl) []
                  MAGIC_MARKER (cc_payload_pattern cfg) (Z.to_nat (sequence ts - initial_sequence sc))
                  (p_src_port p) (p_dest_port p) (p_identifier p) (p_flags p)
                  Htr Hpr Hrproto Hs Hrd16 Hpeer Hpd Hseq' ltac:(lia)) as F.
    rewrite Hfl in F. rewrite udp6_payload_2, Hrpat in F. change (has_flag 2 1) with false in F. cbv iota in F.
    apply F; try assumption.
    split; [reflexivity|]. split; [cbn; lia|]. split; lia.
Qed.

(* ---- UDP through a datagram socket over IPv6 (unprivileged, classic): the kernel builds the UDP and the fixed header *)
Definition kernel_udp6_dgram (src dst : addr) (sp dp : Z) (payload d : list Z) : Prop :=
  exists tc flow hop uck, d = udp6_probe src dst tc flow hop sp dp uck payload.

Theorem e2e_udp6_unprivileged_classic sc cfg rc p :
  issued sc p -> proto sc = Udp -> multipath sc = Classic -> same_trace sc cfg rc -> cfg_v6 cfg ->
  cc_privilege cfg = Unprivileged -> 48 <= cc_packet_size cfg <= 1024 ->
  let payload := repeat (cc_payload_pattern cfg) (Z.to_nat (cc_packet_size cfg - 48)) in
  run_send BoNetwork cfg [] p =
    (connect_ops true cfg ++
       [NewSocket SkUdp6 false; Bind (cc_source cfg) (p_src_port p); SetUnicastHopsV6 (p_ttl p);
        SendTo payload (cc_target cfg) (p_dest_port p)], Ok tt) /\
  (p_src_port p = p_sequence p \/ p_dest_port p = p_sequence p) /\
  forall d, kernel_udp6_dgram (cc_source cfg) (cc_target cfg) (p_src_port p) (p_dest_port p) payload d ->
  forall now peer, peer6_conforming peer -> conforming6 peer d -> (q_ext peer = XNone \/ zlen (quote6 peer d) <= 1024) ->
    answers sc (recv6 rc now (Some (q_router peer)) (quote6 peer d)) p (q_router peer).
Proof.
  intros Hiss Hpr Hmp [Ht Hp Hi Hrs Hrd Hrp Hrpat] Hcfg Hpriv Hsz payload.
  pose proof Hcfg as (Hs & Hd & Hbs & Hbd & Htos & Hpat & Hinit). unfold SendSpec.u8 in *.
  pose proof (issued_fields sc p Hiss) as Hf. unfold prescribed_fields in Hf. rewrite Hpr, Hmp in Hf.
  destruct Hf as (Hfl & _ & Hport).
  pose proof (issued_wf sc p Hiss) as (Httl & Hseq & _). unfold SendSpec.u16 in *.
  pose proof (issued_sequence_range sc p Hiss) as (Hlo & Hhi).
  destruct (issued_probe_data sc p Hiss) as (ts & Hpd & Hq).
  assert (Hproto : cc_protocol cfg = Udp) by congruence.
  assert (Hrproto : rc_proto rc = Udp) by congruence.
  assert (Hrd16 : length (rc_dest rc) = 16%nat) by (rewrite Hrd; exact Hd).
  assert (Htr : target_addr sc = rc_dest rc) by congruence.
  split; [apply c11_udp_ipv6_unprivileged_lemma; assumption|]. split; [exact Hport|].
  intros d (tc & flow & hop & uck & ->) now peer Hpeer Hconf Hlen.
  rewrite <- Hrd in *. unfold answers. rewrite <- Hq.
  pose proof (final_udp6_gen rc sc now peer ts (cc_source cfg) tc flow hop uck payload
                [] (cc_payload_pattern cfg) (Z.to_nat (cc_packet_size cfg - 48)) (p_src_port p) (p_dest_port p) (p_identifier p) (p_flags p)
                Htr Hpr Hrproto Hs Hrd16 Hpeer Hpd ltac:(lia) ltac:(lia)) as F.
  rewrite Hfl in F. rewrite udp6_payload_0 in F. change (has_flag 0 1) with false in F. cbv iota in F.
  apply F; try assumption.
  split; [reflexivity|]. split; [cbn; lia|]. split; lia.
Qed.

(* ---- TCP over IPv6: the quoted SYN (IPv6 routers quote as much as fits, so the whole TCP header) *)
Definition kernel_syn6 (src dst : addr) (sp dp : Z) (d : list Z) : Prop :=
  exists tc flow hop rest, d = tcp6_probe src dst tc flow hop sp dp rest /\ 16 <= zlen rest <= 56.

Theorem e2e_tcp6_quoted sc cfg rc p :
  issued sc p -> proto sc = Tcp -> same_trace sc cfg rc -> cfg_v6 cfg -> cc_packet_size cfg <= 1024 ->
  run_send BoNetwork cfg [] p =
    (connect_ops true cfg ++
       [NewSocket SkTcp6 false; Bind (cc_source cfg) (p_src_port p); SetUnicastHopsV6 (p_ttl p);
        Connect (cc_target cfg) (p_dest_port p)], Ok tt) /\
  (p_src_port p = p_sequence p \/ p_dest_port p = p_sequence p) /\
  forall d, kernel_syn6 (cc_source cfg) (cc_target cfg) (p_src_port p) (p_dest_port p) d ->
  forall now peer, peer6_conforming peer -> conforming6 peer d -> (q_ext peer = XNone \/ zlen (quote6 peer d) <= 1024) ->
    answers sc (recv6 rc now (Some (q_router peer)) (quote6 peer d)) p (q_router peer).
Proof.
  intros Hiss Hpr [Ht Hp Hi Hrs Hrd Hrp Hrpat] Hcfg Hsz.
  pose proof Hcfg as (Hs & Hd & Hbs & Hbd & Htos & Hpat & Hinit).
  pose proof (issued_fields sc p Hiss) as Hf. unfold prescribed_fields in Hf. rewrite Hpr in Hf.
  destruct Hf as (Hfl & _ & Hport).
  destruct (issued_probe_data sc p Hiss) as (ts & Hpd & Hq).
  assert (Hproto : cc_protocol cfg = Tcp) by congruence.
  assert (Hrproto : rc_proto rc = Tcp) by congruence.
  assert (Hrd16 : length (rc_dest rc) = 16%nat) by (rewrite Hrd; exact Hd).
  assert (Htr : target_addr sc = rc_dest rc) by congruence.
  split; [apply c11_tcp_ipv6_lemma; assumption|]. split; [exact Hport|].
  intros d (tc & flow & hop & rest & -> & Hrest) now peer Hpeer Hconf Hlen.
  rewrite <- Hrd in *. unfold answers. rewrite <- Hq.
  apply (final_tcp6 rc sc now peer ts (cc_source cfg) tc flow hop rest (p_src_port p) (p_dest_port p)
           (p_identifier p) (p_flags p)); assumption.
Qed.

(* ---- TCP, either family: the outcome of the handshake on the probe's own socket.  The dispatch binds the socket to
   the probe's source port and connects it to the probe's destination port; Channel::dispatch_tcp_probe records these
   two ports with the socket, and that record is what recv_tcp_sockets reports *)
Theorem e2e_tcp_socket sc cfg rc p o now rd :
  issued sc p -> proto sc = Tcp -> same_trace sc cfg rc ->
  (exists a, o = TcpConnected (Some a)) \/ o = TcpConnRefused \/ (exists a, o = TcpHostUnreach (Some a)) ->
  answers sc (recv_probe rc now (Some (o, p_src_port p, p_dest_port p)) rd) p
    (match o with TcpConnected (Some a) | TcpHostUnreach (Some a) => a | _ => rc_dest rc end).
Proof.
  intros Hiss Hpr [Ht Hp Hi Hrs Hrd Hrp Hrpat] Ho.
  destruct (issued_probe_data sc p Hiss) as (ts & Hpd & Hq).
  assert (Hrproto : rc_proto rc = Tcp) by congruence.
  assert (Htr : target_addr sc = rc_dest rc) by congruence.
  destruct (roundtrip_tcp_socket rc sc now ts (p_src_port p) (p_dest_port p) (p_identifier p) (p_flags p) o rd
              Htr Hpr Hrproto Hpd Ho) as (r & Hr & Hrec & Hshape).
  exists r. split; [exact Hr|]. rewrite <- Hq. split; [exact Hrec|].
  destruct Ho as [[a ->] | [-> | [a ->]]]; rewrite Hshape; reflexivity.
Qed.

(* ================================================================ the two halves are consistent *)
(* [own4 sc cfg p d]: d is a datagram of THIS tracer for the issued probe p - the one the raw dispatch builds, or one
   the kernel builds from the socket operations of the non-raw / TCP dispatch (any TOS, TTL, identification, checksums) *)
Definition own4 (sc : scfg) (cfg : chan_cfg) (p : probe) (d : list Z) : Prop :=
  match proto sc with
  | Icmp => exists tos ttl hck ick payload,
      d = icmp4_probe (cc_source cfg) (cc_target cfg) tos ttl hck (trace_identifier sc) (p_sequence p) ick payload
  | Udp => exists tos ttl hck ipid uck payload,
      d = udp4_probe (cc_source cfg) (cc_target cfg) tos ttl hck ipid (p_src_port p) (p_dest_port p) uck payload
  | Tcp => exists tos ttl hck ipid fl rest,
      d = tcp4_probe (cc_source cfg) (cc_target cfg) tos ttl hck ipid fl (p_src_port p) (p_dest_port p) rest
  end.

Definition own6 (sc : scfg) (cfg : chan_cfg) (p : probe) (d : list Z) : Prop :=
  match proto sc with
  | Icmp => exists tc flow hop ick payload,
      d = icmp6_probe (cc_source cfg) (cc_target cfg) tc flow hop (trace_identifier sc) (p_sequence p) ick payload
  | Udp => exists tc flow hop uck payload,
      d = udp6_probe (cc_source cfg) (cc_target cfg) tc flow hop (p_src_port p) (p_dest_port p) uck payload /\
      (multipath sc = Dublin -> exists pat n, payload = dublin6_payload pat n)
  | Tcp => exists tc flow hop rest,
      d = tcp6_probe (cc_source cfg) (cc_target cfg) tc flow hop (p_src_port p) (p_dest_port p) rest
  end.

Lemma probe_data_ports_not_foreign sc ts sp dp id fl : proto sc <> Icmp ->
  probe_data sc ts = Ok (sp, dp, id, fl) -> ~ ports_foreign (port_direction sc) sp dp.
Proof.
  intros Hni Hpd. unfold probe_data in Hpd.
  destruct (proto sc); [congruence| |];
    try destruct (multipath sc); destruct (port_direction sc); try discriminate Hpd;
    inversion Hpd; subst; cbn [ports_foreign]; intros H; try destruct H as [H|H]; congruence.
Qed.

Theorem own_not_foreign4 sc cfg p d :
  issued sc p -> cc_target cfg = target_addr sc -> cfg_v4 cfg -> own4 sc cfg p d -> ~ foreign4 sc d.
Proof.
  intros Hiss Ht (Hs & Hd & _) Hown Hf.
  pose proof (issued_wf sc p Hiss) as (_ & Hseq & _ & Hsp & Hdp). unfold SendSpec.u16 in *.
  destruct (issued_probe_data sc p Hiss) as (ts & Hpd & Hq).
  destruct Hiss as (HA & _). destruct HA as (_ & Htid & _). unfold Builder.u16 in Htid.
  destruct (len4 _ Hs) as (s0 & s1 & s2 & s3 & Es). destruct (len4 _ Hd) as (d0 & d1 & d2 & d3 & Ed).
  unfold own4 in Hown. unfold foreign4 in Hf. rewrite <- Ht in Hf.
  destruct (proto sc) eqn:Hpr.
  - destruct Hown as (tos & ttl & hck & ick & payload & ->). rewrite Es, Ed in Hf. unfold u16 in Hf.
    cbn [icmp4_probe ipv4_hdr icmp_echo be_bytes app nth proto_num] in Hf.
    destruct Hf as [Hf|[[Hf _]|(_ & Hf & _)]]; [congruence|congruence|]. apply Hf. lia.
  - destruct Hown as (tos & ttl & hck & ipid & uck & payload & ->). rewrite Es, Ed in Hf. unfold u16 in Hf.
    cbn [udp4_probe ipv4_hdr udp_dgram be_bytes app nth proto_num] in Hf.
    destruct Hf as [Hf|[[_ [Hf|Hf]]|(Hf & _)]]; [congruence|congruence| |discriminate].
    rewrite !be_join in Hf. revert Hf. apply (probe_data_ports_not_foreign sc ts _ _ _ _ ltac:(congruence) Hpd).
  - destruct Hown as (tos & ttl & hck & ipid & fl & rest & ->). rewrite Es, Ed in Hf. unfold u16 in Hf.
    cbn [tcp4_probe ipv4_hdr tcp_segment be_bytes app nth proto_num] in Hf.
    destruct Hf as [Hf|[[_ [Hf|Hf]]|(Hf & _)]]; [congruence|congruence| |discriminate].
    rewrite !be_join in Hf. revert Hf. apply (probe_data_ports_not_foreign sc ts _ _ _ _ ltac:(congruence) Hpd).
Qed.

Lemma len16 (l : list Z) : length l = 16%nat ->
  exists a0 a1 a2 a3 a4 a5 a6 a7 a8 a9 a10 a11 a12 a13 a14 a15,
    l = [a0; a1; a2; a3; a4; a5; a6; a7; a8; a9; a10; a11; a12; a13; a14; a15].
Proof.
  intros H. do 16 (destruct l as [|? l]; [discriminate H|]). destruct l; [|discriminate H].
  repeat eexists.
Qed.

Theorem own_not_foreign6 sc cfg p d :
  issued sc p -> cc_target cfg = target_addr sc -> cfg_v6 cfg -> own6 sc cfg p d -> ~ foreign6 sc d.
Proof.
  intros Hiss Ht (Hs & Hd & _) Hown Hf.
  pose proof (issued_wf sc p Hiss) as (_ & Hseq & _ & Hsp & Hdp). unfold SendSpec.u16 in *.
  destruct (issued_probe_data sc p Hiss) as (ts & Hpd & Hq).
  destruct Hiss as (HA & _). destruct HA as (_ & Htid & _). unfold Builder.u16 in Htid.
  destruct (len16 _ Hs) as (s0 & s1 & s2 & s3 & s4 & s5 & s6 & s7 & s8 & s9 & s10 & s11 & s12 & s13 & s14 & s15 & Es).
  destruct (len16 _ Hd) as (d0 & d1 & d2 & d3 & d4 & d5 & d6 & d7 & d8 & d9 & d10 & d11 & d12 & d13 & d14 & d15 & Ed).
  unfold own6 in Hown. unfold foreign6 in Hf. rewrite <- Ht in Hf.
  destruct (proto sc) eqn:Hpr.
  - destruct Hown as (tc & flow & hop & ick & payload & ->). rewrite Es, Ed in Hf. unfold u16 in Hf.
    cbn [icmp6_probe ipv6_hdr icmp_echo be_bytes app nth proto_num6] in Hf.
    destruct Hf as [Hf|[[Hf _]|[(Hf & _)|(_ & Hf & _)]]]; [congruence|congruence|discriminate|]. apply Hf. lia.
  - destruct Hown as (tc & flow & hop & uck & payload & -> & Hdub). rewrite Es, Ed in Hf. unfold u16 in Hf.
    cbn [udp6_probe ipv6_hdr udp_dgram be_bytes app nth proto_num6 skipn firstn] in Hf.
    destruct Hf as [Hf|[[_ [Hf|Hf]]|[(_ & Hm & _ & Hf)|(Hf & _)]]]; [congruence|congruence| | |discriminate].
    + rewrite !be_join in Hf. revert Hf. apply (probe_data_ports_not_foreign sc ts _ _ _ _ ltac:(congruence) Hpd).
    + destruct (Hdub Hm) as (pat & n & ->). apply Hf. reflexivity.
  - destruct Hown as (tc & flow & hop & rest & ->). rewrite Es, Ed in Hf. unfold u16 in Hf.
    cbn [tcp6_probe ipv6_hdr tcp_segment be_bytes app nth proto_num6 skipn firstn] in Hf.
    destruct Hf as [Hf|[[_ [Hf|Hf]]|[(Hf & _)|(Hf & _)]]]; [congruence|congruence| |discriminate|discriminate].
    rewrite !be_join in Hf. revert Hf. apply (probe_data_ports_not_foreign sc ts _ _ _ _ ltac:(congruence) Hpd).
Qed.

(* ================================================================ unprivileged Paris / Dublin (finding F16), sharper *)
(* the ports of a Paris / Dublin probe are a function of the round alone *)
Definition round_ports (sc : scfg) (rnd : Z) : Z * Z :=
  let rp := (initial_sequence sc + rnd) mod 65535 in
  match port_direction sc with
  | FixedSrc sp => (sp, rp)
  | FixedDest dp => (rp, dp)
  | FixedBoth sp dp => (sp, dp)
  | PdNone => (0, 0)
  end.

Lemma issued_round_ports sc p : issued sc p -> proto sc = Udp -> multipath sc <> Classic ->
  (p_src_port p, p_dest_port p) = round_ports sc (p_round p).
Proof.
  intros (HA & s & i & s' & ev & e & HR & Hs & Hin) Hpr Hm.
  pose proof (step_P sc (fun q => (p_src_port q, p_dest_port q) = round_ports sc (p_round q))) as H.
  assert (HP : forall s0 d t sent, probe_data sc s0 = Ok d ->
               (p_src_port (mk_probe s0 d t sent), p_dest_port (mk_probe s0 d t sent)) = round_ports sc (p_round (mk_probe s0 d t sent))).
  { intros s0 [[[sp dp] id] fl] t sent Hd. cbn [mk_probe p_src_port p_dest_port p_round].
    unfold probe_data in Hd. rewrite Hpr in Hd. unfold round_ports, round_port in *.
    destruct (multipath sc); [congruence| |]; destruct (port_direction sc); try discriminate Hd; inversion Hd; reflexivity. }
  specialize (H HP s i s' ev e Hs). rewrite Forall_forall in H. exact (H p Hin).
Qed.

(* two probes of one round of an unprivileged Paris / Dublin trace: the socket operations of their dispatch differ in
   the TTL option only, and every datagram the kernel may emit for the one it may emit for the other; since
   [answers] is functional in the sequence, no receive path can attribute the quotations correctly to both *)
Theorem unprivileged_paris_dublin_same_wire sc cfg p1 p2 :
  issued sc p1 -> issued sc p2 -> proto sc = Udp -> multipath sc <> Classic -> p_round p1 = p_round p2 ->
  cfg_v4 cfg -> cc_protocol cfg = Udp -> cc_privilege cfg = Unprivileged -> 28 <= cc_packet_size cfg <= 1024 ->
  (exists ops : Z -> list sockop,
     run_send BoNetwork cfg [] p1 = (ops (p_ttl p1), Ok tt) /\ run_send BoNetwork cfg [] p2 = (ops (p_ttl p2), Ok tt)) /\
  (forall payload d, kernel_udp4 (cc_source cfg) (cc_target cfg) (p_src_port p1) (p_dest_port p1) payload d <->
                     kernel_udp4 (cc_source cfg) (cc_target cfg) (p_src_port p2) (p_dest_port p2) payload d) /\
  (forall res a1 a2, answers sc res p1 a1 -> answers sc res p2 a2 -> p_sequence p1 = p_sequence p2).
Proof.
  intros H1 H2 Hpr Hm Hrnd Hcfg Hproto Hpriv Hsz.
  pose proof (issued_round_ports sc p1 H1 Hpr Hm) as E1. pose proof (issued_round_ports sc p2 H2 Hpr Hm) as E2.
  rewrite Hrnd in E1. rewrite <- E2 in E1. inversion E1 as [[Esp Edp]].
  split; [|split].
  - exists (fun t => connect_ops false cfg ++
       [NewSocket SkUdp4 false; Bind (cc_source cfg) (p_src_port p2); SetTtl t; SetTos (cc_tos cfg);
        SendTo (repeat (cc_payload_pattern cfg) (Z.to_nat (cc_packet_size cfg - 28))) (cc_target cfg) (p_dest_port p2)]).
    split; [rewrite <- Esp, <- Edp|]; apply c11_udp_ipv4_unprivileged_lemma; assumption.
  - intros payload d. rewrite Esp, Edp. reflexivity.
  - intros res a1 a2 (r1 & Hr1 & (_ & sr1 & Hs1 & _ & Hq1) & _) (r2 & Hr2 & (_ & sr2 & Hs2 & _ & Hq2) & _).
    rewrite Hr1 in Hr2. inversion Hr2; subst r2. rewrite Hs1 in Hs2. inversion Hs2; subst sr2. congruence.
Qed.

(* "exactly that probe": the sequence (and the sender) named by an accepted response is a function of the response *)
Theorem answers_functional sc res p1 p2 a1 a2 :
  answers sc res p1 a1 -> answers sc res p2 a2 -> p_sequence p1 = p_sequence p2 /\ a1 = a2.
Proof.
  intros (r1 & Hr1 & (_ & sr1 & Hs1 & _ & Hq1) & Ha1) (r2 & Hr2 & (_ & sr2 & Hs2 & _ & Hq2) & Ha2).
  rewrite Hr1 in Hr2. inversion Hr2; subst r2. rewrite Hs1 in Hs2. inversion Hs2; subst sr2. split; congruence.
Qed.

(* ================================================================ non-vacuity: concrete issued probes *)
Definition ex_iter : iter_in := {| i_clock := [7]; i_sends := [Sent]; i_recv := Timeout; i_update := 8; i_advance := 9 |}.

Definition ex_sc4 : scfg := {| target_addr := [10; 0; 0; 2]; proto := Udp; trace_identifier := 4660; max_rounds := Some 3;
  first_ttl := 1; max_ttl := 30; grace_duration := 0; max_inflight := 24; initial_sequence := 33434; multipath := Dublin;
  port_direction := FixedSrc 5000; min_round_duration := 0; max_round_duration := 1000000 |}.
Definition ex_cfg4 : chan_cfg := {| cc_privilege := Privileged; cc_protocol := Udp; cc_source := [10; 0; 0; 1]; cc_target := [10; 0; 0; 2];
  cc_packet_size := 84; cc_payload_pattern := 0; cc_initial_sequence := 33434; cc_tos := 0 |}.
Definition ex_rc4 : rcfg := {| rc_src := [10; 0; 0; 1]; rc_dest := [10; 0; 0; 2]; rc_proto := Udp; rc_privileged := true; rc_ext := true; rc_pattern := 0 |}.
Definition ex_p4 : probe := {| p_sequence := 33434; p_identifier := 33434; p_src_port := 5000; p_dest_port := 33434;
  p_ttl := 1; p_round := 0; p_sent := 7; p_flags := 2 |}.

Lemma ex_accept4 : Accept ex_sc4.
Proof. split; [reflexivity|]. unfold cfg_wf, Builder.u8, Builder.u16. cbn. unfold Builder.u16. lia. Qed.

Lemma ex_issued4 : issued ex_sc4 ex_p4.
Proof.
  split; [exact ex_accept4|]. exists (ts_new ex_sc4 0), ex_iter. eexists. eexists. eexists.
  split; [apply reach_init|]. split; [vm_compute; reflexivity|]. left. reflexivity.
Qed.

Lemma ex_same4 : same_trace ex_sc4 ex_cfg4 ex_rc4 /\ cfg_v4 ex_cfg4.
Proof.
  split; [constructor; reflexivity|]. unfold cfg_v4, SendSpec.u8, bytes. cbn.
  repeat split; try lia; repeat constructor; lia.
Qed.

(* Paris over IPv6, second probe of the first round *)
Definition a6 (x : Z) : addr := [32; 1; 13; 184; 0; 0; 0; 0; 0; 0; 0; 0; 0; 0; 0; x].
Definition ex_sc6 : scfg := {| target_addr := a6 2; proto := Udp; trace_identifier := 4660; max_rounds := Some 3;
  first_ttl := 1; max_ttl := 30; grace_duration := 0; max_inflight := 24; initial_sequence := 33434; multipath := Paris;
  port_direction := FixedBoth 5000 33434; min_round_duration := 0; max_round_duration := 1000000 |}.
Definition ex_cfg6 : chan_cfg := {| cc_privilege := Privileged; cc_protocol := Udp; cc_source := a6 1; cc_target := a6 2;
  cc_packet_size := 84; cc_payload_pattern := 0; cc_initial_sequence := 33434; cc_tos := 0 |}.
Definition ex_rc6 : rcfg := {| rc_src := a6 1; rc_dest := a6 2; rc_proto := Udp; rc_privileged := true; rc_ext := false; rc_pattern := 0 |}.
Definition ex_p6 : probe := {| p_sequence := 33434; p_identifier := 0; p_src_port := 5000; p_dest_port := 33434;
  p_ttl := 1; p_round := 0; p_sent := 7; p_flags := 1 |}.

Lemma ex_issued6 : issued ex_sc6 ex_p6.
Proof.
  split. { split; [reflexivity|]. unfold cfg_wf, Builder.u8, Builder.u16. cbn. unfold Builder.u16. lia. }
  exists (ts_new ex_sc6 0), ex_iter. eexists. eexists. eexists.
  split; [apply reach_init|]. split; [vm_compute; reflexivity|]. left. reflexivity.
Qed.

Lemma ex_same6 : same_trace ex_sc6 ex_cfg6 ex_rc6 /\ cfg_v6 ex_cfg6.
Proof.
  split; [constructor; reflexivity|]. unfold cfg_v6, SendSpec.u8, SendSpec.u16, bytes. cbn.
  repeat split; try lia; repeat constructor; lia.
Qed.
