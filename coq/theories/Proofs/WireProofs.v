(* Lemmas about the byte-level setters (Net/Wire.v) and the RFC bit-slice reader (Net/Rfc.v). *)
From TV Require Import Base.Result Base.Bytes Packet.Checksum Proofs.ChecksumProofs Net.Wire Net.Rfc.
From Coq Require Import ZifyBool.
Ltac Zify.zify_post_hook ::= Z.div_mod_to_equations.

(* ---- lists ---- *)
Lemma firstn_repeat {A} (x : A) : forall n m, (n <= m)%nat -> firstn n (repeat x m) = repeat x n.
Proof.
  induction n as [|n IH]; intros [|m] H; cbn; try reflexivity; try lia. f_equal. apply IH. lia.
Qed.

Lemma slice_repeat {A} (x : A) n m : (n <= m)%nat -> slice 0 n (repeat x m) = Ok (repeat x n).
Proof.
  intro H. unfold slice. rewrite repeat_length.
  replace ((0 <=? n)%nat && (n <=? m)%nat) with true
    by (symmetry; apply andb_true_intro; split; apply Nat.leb_le; lia).
  rewrite Nat.sub_0_r. cbn [skipn]. rewrite firstn_repeat by assumption. reflexivity.
Qed.

Lemma skipn_all_app {A} (a b : list A) n : n = length a -> skipn n (a ++ b) = b.
Proof. intros ->. rewrite skipn_app, skipn_all, Nat.sub_diag. reflexivity. Qed.

Lemma firstn_all_app {A} (a b : list A) n : n = length a -> firstn n (a ++ b) = a.
Proof. intros ->. rewrite firstn_app, firstn_all, Nat.sub_diag. cbn. apply app_nil_r. Qed.

(* writing a whole tail: buf = head ++ tail, the new bytes replace the tail *)
Lemma set_bytes_tail off bs h t : off = length h -> length bs = length t ->
  wire_set_bytes off bs (h ++ t) = Ok (h ++ bs).
Proof.
  intros -> Hl. unfold wire_set_bytes. rewrite app_length, Hl, Nat.leb_refl.
  rewrite firstn_all_app by reflexivity.
  rewrite <- app_length, skipn_all, app_nil_r. reflexivity.
Qed.

(* writing a prefix of the tail *)
Lemma set_bytes_tail_prefix off bs h t1 t2 : off = length h -> length bs = length t1 ->
  wire_set_bytes off bs (h ++ t1 ++ t2) = Ok (h ++ bs ++ t2).
Proof.
  intros -> Hl. unfold wire_set_bytes. rewrite !app_length, Hl.
  replace (length h + length t1 <=? length h + (length t1 + length t2))%nat with true
    by (symmetry; apply Nat.leb_le; lia).
  rewrite firstn_all_app by reflexivity.
  rewrite (app_assoc h t1 t2). rewrite (skipn_all_app (h ++ t1) t2) by (rewrite app_length; lia). reflexivity.
Qed.

Lemma bytes_to_be v : 0 <= v < 65536 -> bytes (to_be_bytes v).
Proof. intros. unfold to_be_bytes. repeat constructor; lia. Qed.

Lemma be_join v : 0 <= v < 65536 -> v / 256 * 256 + v mod 256 = v.
Proof. intros; lia. Qed.

(* ---- the type-of-service setter writes exactly its argument (a finite sweep) ---- *)
Definition tos_byte (x v : Z) : Z :=
  let x1 := u8_or (u8_and x 3) (u8_shl (u8_and (u8_shr (u8_and v 252) 2) 63) 2) in
  u8_or (u8_and x1 252) (u8_and (u8_and v 3) 3).

Lemma in_range_256 v : 0 <= v < 256 -> In v (map Z.of_nat (seq 0 256)).
Proof.
  intros H. replace v with (Z.of_nat (Z.to_nat v)) by lia. apply in_map. apply in_seq. lia.
Qed.

Lemma tos_byte_exact v : 0 <= v < 256 -> tos_byte 0 v = v.
Proof.
  intros H.
  assert (Hs : forallb (fun v => tos_byte 0 v =? v) (map Z.of_nat (seq 0 256)) = true) by (vm_compute; reflexivity).
  rewrite forallb_forall in Hs. specialize (Hs v (in_range_256 v H)). lia.
Qed.

Lemma ipv4_set_tos_exact a t v : 0 <= v < 256 -> wire_ipv4_set_tos v (a :: 0 :: t) = Ok (a :: v :: t).
Proof.
  intros H. unfold wire_ipv4_set_tos, wire_ipv4_set_dscp, wire_ipv4_set_ecn, buf_read, buf_write, index.
  cbn [nth_error bind length Nat.ltb Nat.leb firstn skipn app].
  pose proof (tos_byte_exact v H) as E. unfold tos_byte in E. rewrite E. reflexivity.
Qed.

(* ---- rfc_get ---- *)
Lemma skipn_nth_cons (l : list Z) : forall k, (k < length l)%nat -> skipn k l = nth k l 0 :: skipn (S k) l.
Proof.
  induction l as [|x l IH]; intros [|k] H; cbn in *; try lia; try reflexivity. apply IH. lia.
Qed.

(* a field inside one octet *)
Lemma rfc_get_in_octet off w k r l :
  off = 8 * Z.of_nat k + r -> 0 <= r -> 0 < w -> r + w <= 8 -> (k < length l)%nat ->
  rfc_get off w l = (nth k l 0 / 2 ^ (8 - r - w)) mod 2 ^ w.
Proof.
  intros -> Hr Hw Hrw Hk. unfold rfc_get.
  replace ((8 * Z.of_nat k + r) / 8) with (Z.of_nat k) by lia.
  replace ((8 * Z.of_nat k + r) mod 8) with r by lia.
  replace ((r + w + 7) / 8) with 1 by lia.
  rewrite Nat2Z.id. change (Z.to_nat 1) with 1%nat.
  rewrite (skipn_nth_cons l k Hk). cbn [firstn be_value fold_left].
  change (Z.of_nat 1) with 1. replace (8 * 1 - r - w) with (8 - r - w) by lia.
  replace (0 * 256 + nth k l 0) with (nth k l 0) by lia. reflexivity.
Qed.

(* a field inside two consecutive octets *)
Lemma rfc_get_in_two_octets off w k r l :
  off = 8 * Z.of_nat k + r -> 0 <= r < 8 -> 8 < r + w <= 16 -> (S k < length l)%nat ->
  rfc_get off w l = ((nth k l 0 * 256 + nth (S k) l 0) / 2 ^ (16 - r - w)) mod 2 ^ w.
Proof.
  intros -> Hr Hrw Hk. unfold rfc_get.
  replace ((8 * Z.of_nat k + r) / 8) with (Z.of_nat k) by lia.
  replace ((8 * Z.of_nat k + r) mod 8) with r by lia.
  replace ((r + w + 7) / 8) with 2 by lia.
  rewrite Nat2Z.id. change (Z.to_nat 2) with 2%nat.
  rewrite (skipn_nth_cons l k) by lia. rewrite (skipn_nth_cons l (S k)) by lia.
  cbn [firstn be_value fold_left].
  change (Z.of_nat 2) with 2. replace (8 * 2 - r - w) with (16 - r - w) by lia.
  replace ((0 * 256 + nth k l 0) * 256 + nth (S k) l 0) with (nth k l 0 * 256 + nth (S k) l 0) by lia.
  reflexivity.
Qed.

(* the byte-aligned special cases *)
Lemma rfc_get_u8 off k l : off = 8 * Z.of_nat k -> (k < length l)%nat -> 0 <= nth k l 0 < 256 ->
  rfc_get off 8 l = nth k l 0.
Proof.
  intros Ho Hk Hb. rewrite (rfc_get_in_octet off 8 k 0 l) by lia.
  change (2 ^ (8 - 0 - 8)) with 1. change (2 ^ 8) with 256. rewrite Z.div_1_r. apply Z.mod_small. lia.
Qed.

Lemma rfc_get_u16 off k l : off = 8 * Z.of_nat k -> (S k < length l)%nat ->
  0 <= nth k l 0 < 256 -> 0 <= nth (S k) l 0 < 256 ->
  rfc_get off 16 l = nth k l 0 * 256 + nth (S k) l 0.
Proof.
  intros Ho Hk Ha Hb. rewrite (rfc_get_in_two_octets off 16 k 0 l) by lia.
  change (2 ^ (16 - 0 - 16)) with 1. change (2 ^ 16) with 65536. rewrite Z.div_1_r. apply Z.mod_small. lia.
Qed.

(* ---- RFC 1071 over pseudo-header ++ message ---- *)
Lemma words_app_even (a : list Z) : forall b, Nat.even (length a) = true -> words (a ++ b) = words a ++ words b.
Proof.
  induction a as [|x|x y t IH] using list_ind2; intros b H.
  - reflexivity.
  - discriminate.
  - cbn [app words]. rewrite IH by exact H. reflexivity.
Qed.

Lemma zsum_app a b : zsum (a ++ b) = zsum a + zsum b.
Proof. induction a as [|x a IH]; cbn [app]; [unfold zsum; cbn; lia|]. rewrite !zsum_cons, IH. lia. Qed.

Lemma even_length_words_sum (a b : list Z) : Nat.even (length a) = true ->
  zsum (words (a ++ b)) = zsum (words a) + zsum (words b).
Proof. intro H. rewrite words_app_even by exact H. apply zsum_app. Qed.

Lemma even_add_even n m : Nat.even n = true -> Nat.even (n + m) = Nat.even m.
Proof. intro H. rewrite Nat.even_add, H. destruct (Nat.even m); reflexivity. Qed.

(* the pseudo-headers of RFC 768 / RFC 8200 sum to the pseudo_sum of the checksum theorems *)
Lemma pseudo_v4_sum src dst proto d :
  length src = 4%nat -> length dst = 4%nat -> 0 <= Z.of_nat (length d) < 65536 ->
  zsum (words (pseudo_header_v4 src dst proto (Z.of_nat (length d)) ++ d)) =
  pseudo_sum src dst proto d + zsum (words d).
Proof.
  intros Hs Hd Hl. unfold pseudo_header_v4, pseudo_sum. rewrite !word_sum_words.
  rewrite <- !app_assoc.
  rewrite (even_length_words_sum src) by (rewrite Hs; reflexivity).
  rewrite (even_length_words_sum dst) by (rewrite Hd; reflexivity).
  cbn [app words]. rewrite !zsum_cons. lia.
Qed.

Lemma pseudo_v6_sum src dst next d :
  length src = 16%nat -> length dst = 16%nat -> 0 <= Z.of_nat (length d) < 65536 ->
  zsum (words (pseudo_header_v6 src dst next (Z.of_nat (length d)) ++ d)) =
  pseudo_sum src dst next d + zsum (words d).
Proof.
  intros Hs Hd Hl. unfold pseudo_header_v6, pseudo_sum. rewrite !word_sum_words.
  rewrite <- !app_assoc.
  rewrite (even_length_words_sum src) by (rewrite Hs; reflexivity).
  rewrite (even_length_words_sum dst) by (rewrite Hd; reflexivity).
  cbn [app words]. rewrite !zsum_cons. lia.
Qed.
