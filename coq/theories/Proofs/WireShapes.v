(* C02, the send side tied to the conforming-peer vocabulary: the byte strings the dispatch model (Net/Dispatch4.v,
   Net/Dispatch6.v under Net/ChannelSend.v) hands to send_to ARE the probe datagrams of Net/RfcPeer.v, with every
   field named; and the socket-operation list of one send_probe, with the datagram explicit. *)
From TV Require Import Base.Result Base.Bytes Core.Types Packet.Checksum.
From TV Require Import Net.Wire Net.Rfc Net.Sock Net.Dispatch4 Net.Dispatch6 Net.ChannelSend Net.SendSpec.
From TV Require Import Net.RecvCommon Net.RfcPeer.
From TV Require Import Proofs.ChecksumProofs Proofs.WireProofs Proofs.Dispatch4Proofs Proofs.Dispatch6Proofs Proofs.ChannelSendProofs.
From Coq Require Import ZifyBool.

(* ---- IPv4 ---- *)
Lemma ipv4_header_is_hdr cfg proto ttl id len :
  length (cc_source cfg) = 4%nat -> length (cc_target cfg) = 4%nat ->
  ipv4_header (ipv4_of BoNetwork cfg) proto ttl id len =
  ipv4_hdr (cc_tos cfg) len id RfcPeer.DONT_FRAGMENT ttl proto 0 (cc_source cfg) (cc_target cfg) [].
Proof.
  intros Hs Hd. destruct (len4 _ Hs) as (s0 & s1 & s2 & s3 & Es). destruct (len4 _ Hd) as (d0 & d1 & d2 & d3 & Ed).
  unfold ipv4_header, ipv4_hdr, ipv4_of. cbn [v4_byte_order v4_tos v4_src v4_dest adjust_length].
  rewrite Es, Ed. reflexivity.
Qed.

Lemma udp_body_is_dgram sp dp ck payload :
  put_word 3 ck (udp_body sp dp payload) = udp_dgram sp dp ck payload.
Proof. reflexivity. Qed.

Lemma udp_body_is_dgram0 sp dp payload : udp_body sp dp payload = udp_dgram sp dp 0 payload.
Proof. reflexivity. Qed.

Lemma echo_body_is_echo ty id seq pat n ck :
  put_word 1 ck (echo_body ty id seq pat n) = icmp_echo ty ck id seq (repeat pat n).
Proof. reflexivity. Qed.

(* ICMP echo request *)
Lemma icmp4_datagram_shape cfg p :
  length (cc_source cfg) = 4%nat -> length (cc_target cfg) = 4%nat -> 28 <= cc_packet_size cfg ->
  let n := Z.to_nat (cc_packet_size cfg - 28) in
  icmp4_datagram (ipv4_of BoNetwork cfg) p =
  icmp4_probe (cc_source cfg) (cc_target cfg) (cc_tos cfg) (p_ttl p) 0 (p_identifier p) (p_sequence p)
    (icmp_ipv4_checksum (echo_body 8 (p_identifier p) (p_sequence p) (cc_payload_pattern cfg) n))
    (repeat (cc_payload_pattern cfg) n).
Proof.
  intros Hs Hd Hsz n. unfold icmp4_datagram, icmp4_probe.
  change (v4_packet_size (ipv4_of BoNetwork cfg)) with (cc_packet_size cfg).
  change (v4_payload_pattern (ipv4_of BoNetwork cfg)) with (cc_payload_pattern cfg). fold n.
  rewrite ipv4_header_is_hdr by assumption. rewrite echo_body_is_echo.
  unfold zlen. rewrite repeat_length. replace (28 + Z.of_nat n) with (cc_packet_size cfg) by (unfold n; lia).
  reflexivity.
Qed.

(* UDP, raw socket, classic and Dublin (no Paris flag): the payload is the pattern, the checksum the one
   make_udp_packet computes over the datagram with a zero checksum field *)
Definition udp4_wire_checksum (cfg : chan_cfg) (p : probe) (payload : list Z) : Z :=
  udp_ipv4_checksum (udp_dgram (p_src_port p) (p_dest_port p) 0 payload) (cc_source cfg) (cc_target cfg).

Lemma udp4_datagram_shape cfg p payload :
  length (cc_source cfg) = 4%nat -> length (cc_target cfg) = 4%nat ->
  udp4_datagram (ipv4_of BoNetwork cfg) p payload =
  udp4_probe (cc_source cfg) (cc_target cfg) (cc_tos cfg) (p_ttl p) 0 (p_identifier p) (p_src_port p) (p_dest_port p)
    (udp4_wire_checksum cfg p payload) payload.
Proof.
  intros Hs Hd. unfold udp4_datagram, udp4_probe, udp4_wire_checksum.
  rewrite ipv4_header_is_hdr by assumption. rewrite udp_body_is_dgram, <- udp_body_is_dgram0. reflexivity.
Qed.

(* UDP, raw socket, Paris: the checksum field carries the sequence, the two payload octets the checksum that
   make_udp_packet computed over [.., 0, 0, sequence] *)
Definition paris4_wire_payload (cfg : chan_cfg) (p : probe) : list Z :=
  be_bytes (udp_ipv4_checksum (udp_dgram (p_src_port p) (p_dest_port p) 0 (be_bytes (p_sequence p))) (cc_source cfg) (cc_target cfg)).

Lemma paris4_datagram_shape cfg p :
  length (cc_source cfg) = 4%nat -> length (cc_target cfg) = 4%nat ->
  paris4_datagram (ipv4_of BoNetwork cfg) p =
  udp4_probe (cc_source cfg) (cc_target cfg) (cc_tos cfg) (p_ttl p) 0 (p_identifier p) (p_src_port p) (p_dest_port p)
    (p_sequence p) (paris4_wire_payload cfg p).
Proof.
  intros Hs Hd. unfold paris4_datagram, udp4_probe, paris4_wire_payload.
  rewrite ipv4_header_is_hdr by assumption. reflexivity.
Qed.

(* ---- IPv6: the dispatch hands the ICMPv6 / UDP message to the socket, the kernel puts the fixed header in front *)
Lemma icmp6_message_shape cfg p :
  let n := Z.to_nat (cc_packet_size cfg - 48) in
  icmp6_message (ipv6_of cfg) p =
  icmp_echo 128 (icmp_ipv6_checksum (echo_body 128 (p_identifier p) (p_sequence p) (cc_payload_pattern cfg) n)
                                    (cc_source cfg) (cc_target cfg))
            (p_identifier p) (p_sequence p) (repeat (cc_payload_pattern cfg) n).
Proof. reflexivity. Qed.

Definition udp6_wire_checksum (cfg : chan_cfg) (p : probe) (payload : list Z) : Z :=
  nz (udp_ipv6_checksum (udp_dgram (p_src_port p) (p_dest_port p) 0 payload) (cc_source cfg) (cc_target cfg)).

Lemma udp6_message_shape cfg p payload :
  udp6_message (ipv6_of cfg) p payload =
  udp_dgram (p_src_port p) (p_dest_port p) (udp6_wire_checksum cfg p payload) payload.
Proof. reflexivity. Qed.

(* Paris over IPv6: the sequence in the checksum field; the payload word holds the checksum make_udp_packet computed,
   with the computed-zero rule (zero is written as 0xFFFF) *)
Definition paris6_wire_payload (cfg : chan_cfg) (p : probe) : list Z :=
  be_bytes (nz (udp_ipv6_checksum (udp_dgram (p_src_port p) (p_dest_port p) 0 (be_bytes (p_sequence p))) (cc_source cfg) (cc_target cfg))).

Lemma paris6_message_shape cfg p :
  paris6_message (ipv6_of cfg) p =
  udp_dgram (p_src_port p) (p_dest_port p) (p_sequence p) (paris6_wire_payload cfg p).
Proof. reflexivity. Qed.

Lemma dublin_payload_shape cfg p :
  dublin_payload (ipv6_of cfg) p = dublin6_payload (cc_payload_pattern cfg) (p_sequence p - cc_initial_sequence cfg).
Proof. reflexivity. Qed.

(* what the kernel does with a message written to an IPv6 raw / datagram socket: the fixed header with the socket's
   addresses, the next-header value of the socket, the payload length of the message; traffic class, flow label and
   hop limit are the kernel's (the hop limit is the one set by set_unicast_hops_v6, rewritten in transit anyway) *)
Definition kernel_ipv6 (src dst : addr) (nh : Z) (m d : list Z) : Prop :=
  exists tc flow hop, d = ipv6_hdr tc flow (zlen m) nh hop src dst ++ m.

Lemma kernel_icmp6 src dst ck id seq payload d :
  kernel_ipv6 src dst 58 (icmp_echo 128 ck id seq payload) d ->
  exists tc flow hop, d = icmp6_probe src dst tc flow hop id seq ck payload.
Proof.
  intros (tc & flow & hop & ->). exists tc, flow, hop. unfold icmp6_probe. f_equal. f_equal.
  unfold icmp_echo, be_bytes, zlen. cbn [app length]. lia.
Qed.

Lemma kernel_udp6 src dst sp dp ck payload d :
  kernel_ipv6 src dst 17 (udp_dgram sp dp ck payload) d ->
  exists tc flow hop, d = udp6_probe src dst tc flow hop sp dp ck payload.
Proof.
  intros (tc & flow & hop & ->). exists tc, flow, hop. unfold udp6_probe. f_equal. f_equal.
  unfold udp_dgram, be_bytes, zlen. cbn [app length]. lia.
Qed.

(* ---- one send_probe on a fresh channel, the datagram explicit ---- *)
Lemma run_send_icmp4 cfg p :
  cfg_v4 cfg -> cc_protocol cfg = Icmp -> 28 <= cc_packet_size cfg <= 1024 ->
  run_send BoNetwork cfg [] p =
  (connect_ops false cfg ++ [SendTo (icmp4_datagram (ipv4_of BoNetwork cfg) p) (cc_target cfg) 0], Ok tt).
Proof.
  intros (Hs & Hd & Hbs & Hbd & Ht & Hpat) Hproto Hsz. unfold u8 in *.
  rewrite run_send_v4 by (try assumption; lia). rewrite Hproto. cbv zeta.
  rewrite dispatch_icmp4_ok by (try assumption; reflexivity). reflexivity.
Qed.

Lemma run_send_udp4_raw cfg p :
  cfg_v4 cfg -> cc_protocol cfg = Udp -> cc_privilege cfg = Privileged -> 28 <= cc_packet_size cfg <= 1024 ->
  flag_paris p = false ->
  run_send BoNetwork cfg [] p =
  (connect_ops false cfg ++
     [SendTo (udp4_datagram (ipv4_of BoNetwork cfg) p (repeat (cc_payload_pattern cfg) (Z.to_nat (cc_packet_size cfg - 28))))
             (cc_target cfg) (p_dest_port p)], Ok tt).
Proof.
  intros (Hs & Hd & Hbs & Hbd & Ht & Hpat) Hproto Hpriv Hsz Hf. unfold u8 in *.
  set (c := ipv4_of BoNetwork cfg).
  rewrite run_send_v4 by (try assumption; lia). rewrite Hproto. cbv zeta. fold c.
  rewrite dispatch_udp4_eq by assumption.
  replace (v4_privilege c) with Privileged by (symmetry; exact Hpriv).
  rewrite dispatch_udp_raw4_classic_eq; try assumption.
  2:{ rewrite repeat_length. change (v4_packet_size c) with (cc_packet_size cfg). lia. }
  unfold map_err, send_to. rewrite sock_call_clean by reflexivity. reflexivity.
Qed.

Lemma run_send_udp4_paris cfg p :
  cfg_v4 cfg -> cc_protocol cfg = Udp -> cc_privilege cfg = Privileged -> 28 <= cc_packet_size cfg <= 1024 ->
  flag_paris p = true -> 0 <= p_sequence p < 65536 ->
  run_send BoNetwork cfg [] p =
  (connect_ops false cfg ++ [SendTo (paris4_datagram (ipv4_of BoNetwork cfg) p) (cc_target cfg) (p_dest_port p)], Ok tt).
Proof.
  intros (Hs & Hd & Hbs & Hbd & Ht & Hpat) Hproto Hpriv Hsz Hf Hseq. unfold u8 in *.
  set (c := ipv4_of BoNetwork cfg).
  rewrite run_send_v4 by (try assumption; lia). rewrite Hproto. cbv zeta. fold c.
  rewrite dispatch_udp4_eq by assumption.
  replace (v4_privilege c) with Privileged by (symmetry; exact Hpriv).
  rewrite dispatch_udp_raw4_paris_eq by assumption.
  unfold map_err, send_to. rewrite sock_call_clean by reflexivity. reflexivity.
Qed.

Lemma run_send_icmp6 cfg p :
  cfg_v6 cfg -> cc_protocol cfg = Icmp -> 48 <= cc_packet_size cfg <= 1024 ->
  run_send BoNetwork cfg [] p =
  (connect_ops true cfg ++ [SetUnicastHopsV6 (p_ttl p); SendTo (icmp6_message (ipv6_of cfg) p) (cc_target cfg) 0], Ok tt).
Proof.
  intros (Hs & Hd & _) Hproto Hsz.
  rewrite run_send_v6 by (try assumption; lia). rewrite Hproto. cbv zeta.
  rewrite dispatch_icmp6_ok by (try assumption; reflexivity).
  unfold ops_res, push. cbn [fst snd w_ops]. rewrite <- app_assoc. reflexivity.
Qed.

Lemma run_send_udp6_classic cfg p :
  cfg_v6 cfg -> cc_protocol cfg = Udp -> cc_privilege cfg = Privileged -> 48 <= cc_packet_size cfg <= 1024 ->
  p_flags p = 0 ->
  run_send BoNetwork cfg [] p =
  (connect_ops true cfg ++
     [SetUnicastHopsV6 (p_ttl p);
      SendTo (udp6_message (ipv6_of cfg) p (repeat (cc_payload_pattern cfg) (Z.to_nat (cc_packet_size cfg - 48)))) (cc_target cfg) 0], Ok tt).
Proof.
  intros Hcfg Hproto Hpriv Hsz Hfl. destruct (flags_0 p Hfl) as [Hf Hdu].
  apply run_send_udp6_raw; try assumption. intro w.
  apply dispatch_udp_raw6_classic_eq; try assumption. rewrite repeat_length. lia.
Qed.

Lemma run_send_udp6_dublin cfg p :
  cfg_v6 cfg -> cc_protocol cfg = Udp -> cc_privilege cfg = Privileged -> 48 <= cc_packet_size cfg <= 1024 ->
  p_flags p = 2 -> dublin_v6_fits cfg p ->
  run_send BoNetwork cfg [] p =
  (connect_ops true cfg ++
     [SetUnicastHopsV6 (p_ttl p); SendTo (udp6_message (ipv6_of cfg) p (dublin_payload (ipv6_of cfg) p)) (cc_target cfg) 0], Ok tt).
Proof.
  intros Hcfg Hproto Hpriv Hsz Hfl [Hfit1 Hfit2]. destruct (flags_2 p Hfl) as [Hf Hdu].
  apply run_send_udp6_raw; try assumption. intro w.
  apply dispatch_udp_raw6_dublin_eq; try assumption. cbn [v6_initial_sequence ipv6_of]. lia.
Qed.

Lemma run_send_udp6_paris cfg p :
  cfg_v6 cfg -> cc_protocol cfg = Udp -> cc_privilege cfg = Privileged -> 48 <= cc_packet_size cfg <= 1024 ->
  flag_paris p = true -> 0 <= p_sequence p < 65536 ->
  run_send BoNetwork cfg [] p =
  (connect_ops true cfg ++ [SetUnicastHopsV6 (p_ttl p); SendTo (paris6_message (ipv6_of cfg) p) (cc_target cfg) 0], Ok tt).
Proof.
  intros Hcfg Hproto Hpriv Hsz Hf Hseq.
  apply run_send_udp6_raw; try assumption. intro w. apply dispatch_udp_raw6_paris_eq; assumption.
Qed.
