(* C01 - Every reported probe outcome matches what the network actually did (at the Network interface).
   Model: TV.Core.Strategy (strategy.rs) over arbitrary input histories; ICMP, UDP and TCP (incl. re-issued probes).
   Ghost history of the round in progress: S = the probes handed to network.send_probe with the outcome of each
   send, in order; A = the deliveries that are GENUINE by the ground-truth definition [ghost_pick]: the response
   passes validate, carries this tracer's trace id (or 0), names a sequence issued in the round in progress and
   the probe with that sequence is still awaiting its first response. *)
From TV Require Import Base.Result Core.Types Core.TracerState Core.Strategy Core.Builder
  Proofs.StrategyInv Proofs.StrategyProps Proofs.RoundHistory.

(* [status_of A (p, o)]: Failed p if the send reported a transient failure; Skipped if the send reported
   address-in-use (TCP: the probe was abandoned and re-issued under the next sequence); otherwise Complete (p
   completed by sr) if a genuine response sr to p was delivered before the round was published (the first one: A
   holds at most one entry per sequence), else Awaited p.
   Every published round is exactly the list of these statuses for the probes sent in that round, in order:
   none invented, dropped or counted twice. *)
Theorem c01_round_matches_history : forall c t0 is, Accept c ->
  Forall (fun x => let '(r, sends, acc) := x in rr_probes r = map (status_of acc) sends)
         (run_hist c (ts_new c t0) [] [] is) /\
  map (fun x => fst (fst x)) (run_hist c (ts_new c t0) [] [] is) = pubs (fst (fst (run c t0 is))).
Proof.
  intros c t0 is HA. split.
  - apply (run_hist_matches c HA is); [apply inv_new; assumption|apply hinv_new|intros j q Hj; destruct j; discriminate].
  - apply (run_hist_rounds c HA is); apply inv_new; assumption.
Qed.

(* ground truth of a completed probe: ttl / sequence / ports / send time are those of the probe as sent,
   responder, receive time, response kind, tos and extensions are those of the genuine response *)
Theorem c01_complete_fields : forall p sr,
  c_probe (complete p sr) = p /\ c_host (complete p sr) = sr_addr sr /\ c_received (complete p sr) = sr_received sr /\
  c_icmp (complete p sr) = sr_icmp sr /\ c_tos (complete p sr) = sr_tos sr /\ c_exts (complete p sr) = sr_exts sr.
Proof. exact complete_fields. Qed.

(* genuine <-> accepted by the tracer, and an accepted delivery is always applied *)
Theorem c01_genuine_is_accepted : forall c s i p sr,
  ghost_pick c s i = Some (p, sr) <-> exists r, i_recv i = Resp r /\ accepted c s r sr p.
Proof.
  intros c s i p sr. split; [apply ghost_pick_accepted|]. intros (r & Hi & Ha). eapply accepted_ghost_pick; eassumption.
Qed.

Theorem c01_accepted_is_applied : forall c s i r sr p s' e, Inv c s -> i_recv i = Resp r -> accepted c s r sr p ->
  recv_response c s i = Ok (s', e) ->
  nth_error (buffer s') (Z.to_nat (sr_sequence sr - round_sequence s)) = Some (Complete (complete p sr)).
Proof. exact recv_accepted_applies. Qed.

(* ====================================================================================================
   THE LAST STEP: the snapshot a reader sees (Proofs/SnapshotTotals.v).
   The published rounds of a run are fed, one State::update_from_round call per round, to a fresh State
   ([st_run (state_new max_samples max_flows)] - the publish callback of Tracer::run; a snapshot is a clone of
   that state after some number of rounds, C20).  Vocabulary, all at the Network interface:
     [run_log c t0 is]       the observation log of the run (sends with their outcome, deliveries, publishes);
     [closed_part L] / [open_part L]   the log up to and including the last publish / the round still in progress;
     [log_sends L]           the probes handed to network.send_probe in L, with the outcome of each send;
     [log_answers c g L]     the genuine responses of L (the first one per probe; [genuine] decides on the log alone);
     [hist_ok (r, S, A)]     round r with the send log S and the genuine answers A of that round:
                             rr_probes r = map (status_of A) S, S has one entry per sequence, every answer
                             belongs to exactly one answerable probe of S, ttls within 1..254;
     [hop_truth h t sends answers]   total_sent / total_failed / total_recv / total_time / addrs of hop record h
                             are the counts and sums over the sends and answers with ttl t.
   ==================================================================================================== *)
From Coq Require Import QArith.
From TV Require Import Core.Flows Core.State Proofs.HopProofs Proofs.HopHistory Proofs.StateProofs Proofs.FlowAttr
  Proofs.RoundFold Proofs.RunLog Proofs.RunLogProps Proofs.SnapshotTotals.
Open Scope Z_scope.

(* every published round of every run comes with a well-formed network-level history of that round *)
Theorem c01_history_wellformed : forall c t0 is, Accept c ->
  Forall hist_ok (run_hists c t0 is) /\ map h_round (run_hists c t0 is) = pubs (fst (fst (run c t0 is))).
Proof. exact run_history_wellformed. Qed.

(* the same at any publish position of the observation log, against the ghost computed from the log before it
   (no reference to the tracer state): the slots of the round are the statuses that ghost prescribes *)
Theorem c01_round_is_log_history : forall c t0 is l1 r now adv l2, Accept c ->
  run_log c t0 is = l1 ++ OPublish r now adv :: l2 ->
  let g := ghost_after c t0 l1 in
  hist_ok (r, g_S g, g_A g) /\ In (r, g_S g, g_A g) (run_hists c t0 is).
Proof. exact round_is_log_history. Qed.

(* status by status: a probe is reported complete (with the fields of c01_complete_fields) EXACTLY WHEN a genuine
   response to it was delivered before the round was published; failed exactly when its send failed; still awaited
   exactly when it went out and no genuine response came; one slot per probe handed to the network, none NotSent *)
Theorem c01_status_exactly : forall x, hist_ok x ->
  (forall cc, In (Complete cc) (rr_probes (h_round x)) <-> exists p sr, In (p, sr) (h_answers x) /\ cc = complete p sr) /\
  (forall p, In (Failed p) (rr_probes (h_round x)) <-> In (p, ProbeFailedO) (h_sends x)) /\
  (forall p, In (Awaited p) (rr_probes (h_round x)) <->
             exists o, In (p, o) (h_sends x) /\ answerable o = true /\ forall sr, ~ In (p, sr) (h_answers x)) /\
  length (rr_probes (h_round x)) = length (h_sends x) /\
  ~ In NotSent (rr_probes (h_round x)).
Proof. exact status_exactly. Qed.

(* no response counted twice, none lost: as many completed slots as genuine answers *)
Theorem c01_complete_count : forall x, hist_ok x ->
  length (filter is_complete (rr_probes (h_round x))) = length (h_answers x).
Proof. exact complete_count. Qed.

(* the aggregator never faults on the rounds a strategy publishes: the State exists after any number of them *)
Theorem c01_state_never_faults : forall rs s, AllW s -> Forall wf_round rs -> exists s', st_run s rs = Ok s' /\ AllW s'.
Proof. exact st_run_total. Qed.

(* the hop record built from any sequence of rounds with well-formed histories tells the ground truth of its ttl *)
Theorem c01_hop_truth_of_rounds : forall ms hs t, Forall hist_ok hs ->
  hop_truth (hop_run ms (rounds_events (map h_round hs) t)) t (pub_sends hs) (pub_answers hs).
Proof. exact hop_run_truth. Qed.

(* THE SNAPSHOT OF EVERY RUN.  For every accepted configuration and every behaviour of the environment the State
   fed with the published rounds exists, and hop t (index t-1) of the default flow has
     total_sent   = number of probes of ttl t handed to the network in published rounds and not abandoned as Skipped,
     total_failed = number of transient send failures at ttl t,
     total_recv   = number of genuine responses (first one per probe) delivered for ttl t before the publish,
     total_time   = sum of max 0 (receive time - send time) over those responses,
     addrs        = the hosts of those responses with their multiplicities (one key per host) *)
Theorem c01_snapshot_hop_truth : forall c t0 is ms mf, Accept c ->
  let L := run_log c t0 is in
  exists s', st_run (state_new ms mf) (pubs (fst (fst (run c t0 is)))) = Ok s' /\
    forall i h, nth_error (fs_hops (flow_or_new s' 0)) i = Some h ->
      hop_truth h (Z.of_nat i + 1) (log_sends (closed_part L)) (log_answers c (g_init t0) (closed_part L)).
Proof. exact run_snapshot_truth. Qed.

(* summed over the hops nothing is invented, dropped or counted twice *)
Theorem c01_snapshot_sums : forall c t0 is ms mf s', Accept c ->
  st_run (state_new ms mf) (pubs (fst (fst (run c t0 is)))) = Ok s' ->
  let L := run_log c t0 is in
  let hops := fs_hops (flow_or_new s' 0) in
  zsum (map h_sent hops) = Z.of_nat (length (filter not_abandoned (log_sends (closed_part L)))) /\
  zsum (map h_failed hops) = Z.of_nat (length (filter failed_send (log_sends (closed_part L)))) /\
  zsum (map h_recv hops) = Z.of_nat (length (log_answers c (g_init t0) (closed_part L))).
Proof. exact run_snapshot_sums. Qed.

(* the history of the published rounds is the closed part of the log *)
Theorem c01_history_is_closed_log : forall c t0 is, Accept c ->
  pub_sends (run_hists c t0 is) = log_sends (closed_part (run_log c t0 is)) /\
  pub_answers (run_hists c t0 is) = log_answers c (g_init t0) (closed_part (run_log c t0 is)).
Proof. exact run_hists_log. Qed.

(* a probe of the round still in progress is never visible in a snapshot: the log is closed part ++ open part,
   nothing is published in the open part, and the published rounds (all that reaches State) are those of the
   closed part - the totals above range over the closed part only *)
Theorem c01_open_round_invisible : forall c t0 is, Accept c ->
  let L := run_log c t0 is in
  L = closed_part L ++ open_part L /\ no_publish (open_part L) /\
  pubs (fst (fst (run c t0 is))) = pubs (events_of (closed_part L)).
Proof. exact open_round_invisible. Qed.

(* per flow (State::update_from_round attributes each round to the default flow 0 and to one registered flow):
   the hops of flow id tell the ground truth of exactly the published rounds attributed to it, in closed form ... *)
Theorem c01_state_of_histories : forall ms mf hs s' id, Forall hist_ok hs ->
  st_run (state_new ms mf) (map h_round hs) = Ok s' ->
  let fh := flow_hists id (state_new ms mf) hs in
  fs_hops (flow_or_new s' id) =
    map (fun i => hop_run ms (rounds_events (map h_round fh) (Z.of_nat i + 1))) (seq 0 MAX_TTL_N) /\
  forall i h, nth_error (fs_hops (flow_or_new s' id)) i = Some h ->
    hop_truth h (Z.of_nat i + 1) (pub_sends fh) (pub_answers fh).
Proof. exact snapshot_flow_truth. Qed.

Theorem c01_snapshot_flow_truth : forall c t0 is ms mf s' id, Accept c ->
  st_run (state_new ms mf) (pubs (fst (fst (run c t0 is)))) = Ok s' ->
  let fh := flow_hists id (state_new ms mf) (run_hists c t0 is) in
  forall i h, nth_error (fs_hops (flow_or_new s' id)) i = Some h ->
    hop_truth h (Z.of_nat i + 1) (pub_sends fh) (pub_answers fh).
Proof. exact run_snapshot_flow_truth. Qed.

(* ... and its totals add up to the history of those rounds *)
Theorem c01_snapshot_flow_sums : forall ms mf hs s' id, Forall hist_ok hs ->
  st_run (state_new ms mf) (map h_round hs) = Ok s' ->
  let fh := flow_hists id (state_new ms mf) hs in
  let hops := fs_hops (flow_or_new s' id) in
  zsum (map h_sent hops) = Z.of_nat (length (filter not_abandoned (pub_sends fh))) /\
  zsum (map h_failed hops) = Z.of_nat (length (filter failed_send (pub_sends fh))) /\
  zsum (map h_recv hops) = Z.of_nat (length (pub_answers fh)).
Proof. exact snapshot_sums. Qed.

(* the default flow takes every published round; a registered flow a sub-sequence of them *)
Theorem c01_default_flow_takes_all : forall hs s s', st_run s (map h_round hs) = Ok s' -> flow_hists 0 s hs = hs.
Proof. exact flow_hists_default. Qed.

(* ---- examples (example runs of Proofs/RunLogProps.v) ---- *)
(* ICMP, two published rounds over a path of length 3: hops 1..3 sent 2 / received 1 each (round 1 stays silent),
   hop 4 sent 1; the duplicate of the target's answer is not counted *)
Example c01_ex_snapshot :
  match st_run (state_new 10 4) (pubs (fst (fst (run rl_ex_cfg 0 rl_ex_ins)))) with
  | Ok s => map (fun h => (h_sent h, h_failed h, h_recv h, h_total_time h, h_addrs h)) (firstn 5 (fs_hops (flow_or_new s 0)))
  | _ => []
  end = [(2, 0, 1, 1, [([9;9;9;1], 1)]); (2, 0, 1, 1, [([9;9;9;2], 1)]); (2, 0, 1, 1, [([1;2;3;4], 1)]); (1, 0, 0, 0, []); (0, 0, 0, 0, [])] /\
  map (fun po => p_ttl (fst po)) (log_sends (closed_part (run_log rl_ex_cfg 0 rl_ex_ins))) = [1;2;3;4;1;2;3] /\
  map (fun a => (p_ttl (fst a), answer_host a, answer_rtt a)) (log_answers rl_ex_cfg (g_init 0) (closed_part (run_log rl_ex_cfg 0 rl_ex_ins)))
    = [(1, [9;9;9;1], 1); (2, [9;9;9;2], 1); (3, [1;2;3;4], 1)].
Proof. vm_compute. repeat split. Qed.

(* TCP with port collisions: ttl 2 is handed to the network three times in round 0 (two sends abandoned: address in
   use), ttl 3 fails transiently: hop 2 sent 1 / received 1, hop 3 sent 1 / failed 1.  The run ends inside round 1:
   its two ttl 2 probes are in the open part of the log and in no total *)
Example c01_ex_snapshot_tcp :
  match st_run (state_new 10 4) (pubs (fst (fst (run rl_ex_tcp_cfg 0 rl_ex_tcp_ins)))) with
  | Ok s => map (fun h => (h_sent h, h_failed h, h_recv h)) (firstn 4 (fs_hops (flow_or_new s 0)))
  | _ => []
  end = [(0, 0, 0); (1, 0, 1); (1, 1, 0); (0, 0, 0)] /\
  map (fun po => (p_ttl (fst po), snd po)) (log_sends (closed_part (run_log rl_ex_tcp_cfg 0 rl_ex_tcp_ins)))
    = [(2, AddressInUseO); (2, AddressInUseO); (2, Sent); (3, ProbeFailedO)] /\
  map (fun po => (p_ttl (fst po), snd po)) (log_sends (open_part (run_log rl_ex_tcp_cfg 0 rl_ex_tcp_ins)))
    = [(2, AddressInUseO); (2, Sent)].
Proof. vm_compute. repeat split. Qed.

Example c01_ex_accept : Accept rl_ex_cfg /\ Accept rl_ex_tcp_cfg.
Proof. split; (split; [reflexivity|unfold cfg_wf; cbn; unfold u8, u16; lia]). Qed.
