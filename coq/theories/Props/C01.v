(* C01 - Every reported probe outcome matches what the network actually did (at the Network interface).
   Model: TV.Core.Strategy (strategy.rs) over arbitrary input histories; ICMP, UDP and TCP (incl. re-issued probes).
   Ghost history of the round in progress: S = the probes handed to network.send_probe with the outcome of each
   send, in order; A = the deliveries that are GENUINE by the ground-truth definition [ghost_pick]: the response
   passes validate, carries this tracer's trace id (or 0), names a sequence issued in the round in progress and
   the probe with that sequence is still awaiting its first response. *)
From TV Require Import Base.Result Core.Types Core.TracerState Core.Strategy Core.Builder
  Proofs.StrategyInv Proofs.StrategyProps Proofs.RoundHistory.

(* [status_of A (p, o)]: Failed p if the send reported a transient failure; Skipped if the send reported
   address-in-use (TCP: the probe was abandoned and re-issued under the next sequence); otherwise Complete (p
   completed by sr) if a genuine response sr to p was delivered before the round was published (the first one: A
   holds at most one entry per sequence), else Awaited p.
   Every published round is exactly the list of these statuses for the probes sent in that round, in order:
   none invented, dropped or counted twice. *)
Theorem c01_round_matches_history : forall c t0 is, Accept c ->
  Forall (fun x => let '(r, sends, acc) := x in rr_probes r = map (status_of acc) sends)
         (run_hist c (ts_new c t0) [] [] is) /\
  map (fun x => fst (fst x)) (run_hist c (ts_new c t0) [] [] is) = pubs (fst (fst (run c t0 is))).
Proof.
  intros c t0 is HA. split.
  - apply (run_hist_matches c HA is); [apply inv_new; assumption|apply hinv_new|intros j q Hj; destruct j; discriminate].
  - apply (run_hist_rounds c HA is); apply inv_new; assumption.
Qed.

(* ground truth of a completed probe: ttl / sequence / ports / send time are those of the probe as sent,
   responder, receive time, response kind, tos and extensions are those of the genuine response *)
Theorem c01_complete_fields : forall p sr,
  c_probe (complete p sr) = p /\ c_host (complete p sr) = sr_addr sr /\ c_received (complete p sr) = sr_received sr /\
  c_icmp (complete p sr) = sr_icmp sr /\ c_tos (complete p sr) = sr_tos sr /\ c_exts (complete p sr) = sr_exts sr.
Proof. exact complete_fields. Qed.

(* genuine <-> accepted by the tracer, and an accepted delivery is always applied *)
Theorem c01_genuine_is_accepted : forall c s i p sr,
  ghost_pick c s i = Some (p, sr) <-> exists r, i_recv i = Resp r /\ accepted c s r sr p.
Proof.
  intros c s i p sr. split; [apply ghost_pick_accepted|]. intros (r & Hi & Ha). eapply accepted_ghost_pick; eassumption.
Qed.

Theorem c01_accepted_is_applied : forall c s i r sr p s' e, Inv c s -> i_recv i = Resp r -> accepted c s r sr p ->
  recv_response c s i = Ok (s', e) ->
  nth_error (buffer s') (Z.to_nat (sr_sequence sr - round_sequence s)) = Some (Complete (complete p sr)).
Proof. exact recv_accepted_applies. Qed.
