(* C02 - A probe's identity survives the wire (decode half: quote -> receive path -> strategy-side matching).

   Model:  TV.Net.Recv4 / Recv6 / Recv / RecvCommon (transcription of trippy-core net/ipv4.rs, net/ipv6.rs,
           net/channel.rs, net/extension.rs and of the trippy-packet views they call, with the repairs of
           docs/integration/C04.md), TV.Core.Strategy (validate, strategy_resp, check_trace_id - model A),
           TV.Core.TracerState (probe_data: which fields carry the sequence, per protocol / strategy / port direction).
   Spec:   TV.Net.RfcPeer - the probe datagrams as explicit byte strings, in-transit rewriting of TTL / hop limit,
           header checksum, TOS / traffic class, and the ICMP Time Exceeded / Destination Unreachable / Echo Reply a
           standards-conforming peer builds from them (any quotation length >= IP header + 8 octets for IPv4,
           >= min(datagram, 1232) for IPv6; no extension, RFC 4884 compliant extension, or the legacy 128-octet form;
           outer IPv4 options).  Nothing in TV.Net.RfcPeer mentions the receive code.
   [recognised sc r q]  (TV.Net.Recv): validate sc r = true, strategy_resp sc r = Ok sr, check_trace_id holds and
                        sr_sequence sr = q - the gate of Strategy::recv_response that depends on the response alone.
   [payload_ok pl pre pat k]: pl = pre ++ k pattern octets, |pre| <= 64 (nothing / the 2 Paris octets / the Dublin marker).
   The sequence, ports and IP identification are tied to the send side through probe_data of model A: the theorems hold
   for EVERY tracer state ts, with the sequence [sequence ts] and the fields [probe_data sc ts] chooses for it.

   Not covered (see docs/integration/C02.md): IPv4 responses longer than the 1024-octet receive buffer (a conforming
   router sends at most 576 octets); the send side itself (C11) is tied in only by the correspondence lines `probe`. *)
From TV Require Import Base.Result Base.Bytes Core.Types Core.TracerState Core.Strategy Packet.Checksum.
From TV Require Import Net.RecvCommon Net.Recv4 Net.Recv6 Net.Recv Net.RfcPeer Net.ProbeShape.
From TV Require Import Proofs.RecvProofs Proofs.RecvRoundtrip.
From TV Require Import Net.TcpSockets Proofs.TcpSocketsProofs.

(* ---------------------------------------------------------------- ICMP / IPv4 *)
Theorem c02_icmp4_error_roundtrip : forall c sc now me p src tos ttl hck seq ick payload pre pat k,
  rc_proto c = Icmp -> length src = 4%nat -> length (rc_dest c) = 4%nat -> peer4_conforming me p ->
  payload_ok payload pre pat k ->
  let dg := icmp4_probe src (rc_dest c) tos ttl hck (trace_identifier sc) seq ick payload in
  zlen (quote4 me p dg) <= 1024 ->
  exists r, recv4 c now (quote4 me p dg) = Ok (Some r) /\ recognised sc r seq /\ r_addr (resp_data_of r) = q_router p.
Proof. exact final_icmp4. Qed.

Theorem c02_icmp4_echo_reply_roundtrip : forall c sc now me o_tos o_id o_fl o_ttl o_ck o_opts ck seq payload,
  rc_proto c = Icmp -> length me = 4%nat -> length (rc_dest c) = 4%nat ->
  zlen o_opts = 4 * (zlen o_opts / 4) -> zlen o_opts <= 40 ->
  let b := echo_reply4 me (rc_dest c) o_tos o_id o_fl o_ttl o_ck o_opts ck (trace_identifier sc) seq payload in
  zlen b <= 1024 ->
  exists r, recv4 c now b = Ok (Some r) /\ recognised sc r seq /\ r_addr (resp_data_of r) = rc_dest c.
Proof. exact roundtrip_echo_reply4. Qed.

(* ---------------------------------------------------------------- UDP / IPv4: classic (fixed source or destination port),
   Paris (sequence in the UDP checksum), Dublin (sequence in the IP identification), every port direction probe_data accepts *)
Theorem c02_udp4_roundtrip : forall c sc now me p ts src tos ttl hck uck payload pre pat k sp dp ipid fl,
  target_addr sc = rc_dest c -> proto sc = Udp -> rc_proto c = Udp ->
  length src = 4%nat -> length (rc_dest c) = 4%nat -> peer4_conforming me p ->
  probe_data sc ts = Ok (sp, dp, ipid, fl) -> payload_ok payload pre pat k ->
  let dg := udp4_probe src (rc_dest c) tos ttl hck ipid sp dp (if has_flag fl 1 then sequence ts else uck) payload in
  zlen (quote4 me p dg) <= 1024 ->
  exists r, recv4 c now (quote4 me p dg) = Ok (Some r) /\ recognised sc r (sequence ts) /\ r_addr (resp_data_of r) = q_router p.
Proof. exact final_udp4. Qed.

(* ---------------------------------------------------------------- TCP / IPv4: a quoted SYN (IP header + at least 8 octets) *)
Theorem c02_tcp4_quoted_roundtrip : forall c sc now me p ts src tos ttl hck ipid0 fl0 rest sp dp ipid fl,
  target_addr sc = rc_dest c -> proto sc = Tcp -> rc_proto c = Tcp ->
  length src = 4%nat -> length (rc_dest c) = 4%nat -> peer4_conforming me p -> 4 <= zlen rest <= 56 ->
  probe_data sc ts = Ok (sp, dp, ipid, fl) ->
  let dg := tcp4_probe src (rc_dest c) tos ttl hck ipid0 fl0 sp dp rest in
  zlen (quote4 me p dg) <= 1024 ->
  exists r, recv4 c now (quote4 me p dg) = Ok (Some r) /\ recognised sc r (sequence ts) /\ r_addr (resp_data_of r) = q_router p.
Proof. exact final_tcp4. Qed.

(* ---------------------------------------------------------------- ICMP / IPv6 *)
Theorem c02_icmp6_error_roundtrip : forall c sc now p src tc flow hop seq ick payload pre pat k,
  rc_proto c = Icmp -> length src = 16%nat -> length (rc_dest c) = 16%nat -> peer6_conforming p ->
  payload_ok payload pre pat k ->
  let dg := icmp6_probe src (rc_dest c) tc flow hop (trace_identifier sc) seq ick payload in
  conforming6 p dg -> (q_ext p = XNone \/ zlen (quote6 p dg) <= 1024) ->
  exists r, recv6 c now (Some (q_router p)) (quote6 p dg) = Ok (Some r) /\ recognised sc r seq /\ r_addr (resp_data_of r) = q_router p.
Proof. exact final_icmp6. Qed.

Theorem c02_icmp6_echo_reply_roundtrip : forall c sc now ck seq payload,
  rc_proto c = Icmp -> length (rc_dest c) = 16%nat ->
  exists r, recv6 c now (Some (rc_dest c)) (echo_reply6 ck (trace_identifier sc) seq payload) = Ok (Some r)
            /\ recognised sc r seq /\ r_addr (resp_data_of r) = rc_dest c.
Proof. exact roundtrip_echo_reply6. Qed.

(* ---------------------------------------------------------------- UDP / IPv6: classic, Paris, Dublin (marker + payload length) *)
Theorem c02_udp6_roundtrip : forall c sc now p ts src tc flow hop uck payload pre pat k sp dp ipid fl,
  target_addr sc = rc_dest c -> proto sc = Udp -> rc_proto c = Udp ->
  length src = 16%nat -> length (rc_dest c) = 16%nat -> peer6_conforming p ->
  probe_data sc ts = Ok (sp, dp, ipid, fl) ->
  initial_sequence sc <= sequence ts < 65536 -> 0 <= initial_sequence sc -> sequence ts - initial_sequence sc <= 8000 ->
  0 <= rc_pattern c < 256 -> payload_ok payload pre pat k ->
  let dg := udp6_probe src (rc_dest c) tc flow hop sp dp (if has_flag fl 1 then sequence ts else uck)
                       (udp6_payload sc fl (rc_pattern c) (sequence ts) payload) in
  conforming6 p dg -> (q_ext p = XNone \/ zlen (quote6 p dg) <= 1024) ->
  exists r, recv6 c now (Some (q_router p)) (quote6 p dg) = Ok (Some r) /\ recognised sc r (sequence ts) /\ r_addr (resp_data_of r) = q_router p.
Proof. exact final_udp6. Qed.

(* ---------------------------------------------------------------- TCP / IPv6: a quoted SYN with a complete TCP header *)
Theorem c02_tcp6_quoted_roundtrip : forall c sc now p ts src tc flow hop rest sp dp ipid fl,
  target_addr sc = rc_dest c -> proto sc = Tcp -> rc_proto c = Tcp ->
  length src = 16%nat -> length (rc_dest c) = 16%nat -> peer6_conforming p -> 16 <= zlen rest <= 56 ->
  probe_data sc ts = Ok (sp, dp, ipid, fl) ->
  let dg := tcp6_probe src (rc_dest c) tc flow hop sp dp rest in
  conforming6 p dg -> (q_ext p = XNone \/ zlen (quote6 p dg) <= 1024) ->
  exists r, recv6 c now (Some (q_router p)) (quote6 p dg) = Ok (Some r) /\ recognised sc r (sequence ts) /\ r_addr (resp_data_of r) = q_router p.
Proof. exact final_tcp6. Qed.

(* ---------------------------------------------------------------- TCP: the outcome of the handshake on the probe's own socket *)
Theorem c02_tcp_socket_roundtrip : forall c sc now ts sp dp ipid fl o rd,
  target_addr sc = rc_dest c -> proto sc = Tcp -> rc_proto c = Tcp ->
  probe_data sc ts = Ok (sp, dp, ipid, fl) ->
  (exists a, o = TcpConnected (Some a)) \/ o = TcpConnRefused \/ (exists a, o = TcpHostUnreach (Some a)) ->
  exists r, recv_probe c now (Some (o, sp, dp)) rd = Ok (Some r) /\ recognised sc r (sequence ts)
            /\ match o with
               | TcpConnected (Some a) => r = RTcpReply (mk_resp_data now a (PTcp (rc_dest c) sp dp None))
               | TcpConnRefused => r = RTcpRefused (mk_resp_data now (rc_dest c) (PTcp (rc_dest c) sp dp None))
               | TcpHostUnreach (Some a) => r = RTimeExceeded (mk_resp_data now a (PTcp (rc_dest c) sp dp None)) 1 None
               | _ => True
               end.
Proof. exact roundtrip_tcp_socket. Qed.

(* ---------------------------------------------------------------- quotations of datagrams this tracer did not send
   [foreign4 sc d]: other protocol; or (UDP / TCP) other destination address or other fixed port(s); or (ICMP) a
   non-zero identifier that is not the trace identifier.  [not_accepted]: the receive path returns nothing, or a
   response that validate / check_trace_id reject. *)
Theorem c02_reject_foreign4 : forall c sc now me p d,
  target_addr sc = rc_dest c -> proto sc = rc_proto c -> peer4_conforming me p ->
  zlen (quote4 me p d) <= 1024 -> 28 <= zlen d -> nth 0 d 0 mod 16 = 5 ->
  ext_benign c p (q_n p) d ->
  foreign4 sc d -> not_accepted sc (recv4 c now (quote4 me p d)).
Proof. exact final_reject_foreign4. Qed.

(* [foreign6] additionally: (UDP, Dublin) the payload does not start with the "trippy" marker *)
Theorem c02_reject_foreign6 : forall c sc now p d,
  target_addr sc = rc_dest c -> proto sc = rc_proto c -> peer6_conforming p ->
  conforming6 p d -> (q_ext p = XNone \/ zlen (quote6 p d) <= 1024) ->
  (if match rc_proto c with Tcp => true | _ => false end then 60 <= zlen d /\ 20 <= u16 d 4 else 54 <= zlen d /\ 8 <= u16 d 4) ->
  ext_benign c p (Z.min (q_n p) 1016) d ->
  foreign6 sc d -> not_accepted sc (recv6 c now (Some (q_router p)) (quote6 p d)).
Proof. exact final_reject_foreign6. Qed.

(* The full-strength statement would also put "ICMP, other destination address" into [foreign4] / [foreign6]:
     proto sc = Icmp /\ [nth 16 d 0; nth 17 d 0; nth 18 d 0; nth 19 d 0] <> target_addr sc.
   It is FALSE on the code (finding F15, known_findings.json): for ICMP the receive path does not report the quoted
   destination address and Strategy::validate accepts every ICMP response, so the quotation of an echo request to
   another host that carries this tracer's identifier is recognised.  Witness (also corpus/C02/f15_icmp_other_dest.case): *)
Definition icmp_other_dest (sc : scfg) (d : list Z) : Prop :=
  proto sc = Icmp /\ nth 9 d 0 = 1 /\ [nth 16 d 0; nth 17 d 0; nth 18 d 0; nth 19 d 0] <> target_addr sc.

Definition f15_c : rcfg := {| rc_src := [10; 0; 0; 1]; rc_dest := [10; 0; 0; 2]; rc_proto := Icmp;
                              rc_privileged := true; rc_ext := false; rc_pattern := 0 |}.
Definition f15_sc : scfg := {| target_addr := [10; 0; 0; 2]; proto := Icmp; trace_identifier := 4660; max_rounds := Some 1;
  first_ttl := 1; max_ttl := 30; grace_duration := 0; max_inflight := 24; initial_sequence := 33434; multipath := Classic;
  port_direction := PdNone; min_round_duration := 0; max_round_duration := 1000000 |}.
Definition f15_p : peer := {| q_router := [10; 0; 0; 9]; q_unreach := None; q_n := 28;
  q_transit := {| t_ttl := 1; t_tos := 0; t_ck := 0 |}; q_ext := XNone; q_icmp_ck := 0; q_u1 := 0; q_u2 := 0; q_u3 := 0;
  q_o_tos := 0; q_o_id := 0; q_o_flags := 0; q_o_ttl := 250; q_o_ck := 0; q_o_opts := [] |}.
Definition f15_d : list Z := icmp4_probe [10; 0; 0; 1] [10; 0; 0; 99] 0 1 0 4660 33434 0 [].

Theorem c02_icmp_other_destination_refuted :
  icmp_other_dest f15_sc f15_d /\
  exists r, recv4 f15_c 0 (quote4 [10; 0; 0; 1] f15_p f15_d) = Ok (Some r) /\ recognised f15_sc r 33434.
Proof.
  split; [split; [reflexivity | split; [reflexivity | discriminate]]|].
  eexists. split; [vm_compute; reflexivity|].
  split; [reflexivity|]. eexists. split; [vm_compute; reflexivity|]. split; reflexivity.
Qed.

(* KNOWN FINDING F16 (not repaired): Builder::build accepts UDP with the Paris or Dublin strategy in UNPRIVILEGED mode
   (the command-line layer refuses it, validate_strategy).  The non-raw dispatch hands only the pattern payload to a
   datagram socket bound to the probe's source port: what reaches the wire does not depend on the sequence, and with
   Paris / Dublin the ports do not either, so the identity of the probe cannot survive the wire.  (The repair - the
   builder refusing these cells - makes the existing test builder::tests::test_builder_full fail, which builds exactly
   Unprivileged + Udp + Paris, so it cannot be a fix: commit that leaves the suite unedited.)  In the model: *)
Theorem c02_unprivileged_udp_carries_no_sequence_refuted : forall c size tos initseq tid sp dp ttl flags seq1 seq2 tid2,
  rc_proto c = Udp -> rc_privileged c = false ->
  probe_sendto c size tos initseq seq1 tid sp dp ttl flags = probe_sendto c size tos initseq seq2 tid2 sp dp ttl flags.
Proof. intros c size tos initseq tid sp dp ttl flags seq1 seq2 tid2 Hp Hu. unfold probe_sendto. rewrite Hp, Hu. reflexivity. Qed.

(* the array of pending TCP probe sockets (Channel::tcp_probes): whatever was dispatched and however much time passed,
   recv_tcp_sockets reports the FIRST socket that has an outcome among those that have not timed out, with exactly the
   ports recorded when that probe was dispatched (so c02_tcp_socket_roundtrip applies to it), removes exactly that
   entry and keeps the order of the others; a socket that is still connecting is never reported; a full array makes
   dispatch return InsufficientCapacity *)
Theorem c02_tcp_socket_array : forall c now timeout l,
  let alive := filter (tcp_alive now timeout) l in
  let '(l', res) := recv_tcp_sockets_list c now timeout l in
  (exists a e b o, alive = a ++ e :: b /\ l' = a ++ b /\ te_state e = SockReady o /\
      Forall (fun x => te_state x = SockPending) a /\ res = recv_tcp_socket c now o (te_sp e) (te_dp e))
  \/ (l' = alive /\ res = Ok None /\ Forall (fun x => te_state x = SockPending) alive).
Proof. exact recv_tcp_sockets_list_spec. Qed.

Theorem c02_tcp_socket_array_bounded : forall l e, (length l <= MAX_TCP_PROBES)%nat ->
  match tcp_push l e with
  | Ok l' => l' = l ++ [e] /\ (length l' <= MAX_TCP_PROBES)%nat
  | Err x => x = EInsufficientCapacity /\ length l = MAX_TCP_PROBES
  | Fault _ => False
  end.
Proof. exact tcp_push_spec. Qed.

(* ---------------------------------------------------------------- supporting facts *)
(* every structurally well-formed RFC 4884 / RFC 4950 extension structure parses (so [ext_conforming] is not vacuous) *)
Theorem c02_extension_structures_parse : forall r1 r2 ck objs, 0 <= r1 < 16 -> Forall obj_wf objs ->
  exists x, extensions_try_from (ext_structure r1 r2 ck objs) = Ok x.
Proof. exact ext_structure_parses. Qed.

(* the probe constructors are the byte strings the dispatch model hands to send_to (tied to the code by the
   correspondence lines `probe`) *)
Theorem c02_probe_shape_icmp4 : forall c size tos initseq seq tid sp dp ttl flags,
  rc_proto c = Icmp -> is_v6 (rc_dest c) = false -> 28 <= size <= 1024 ->
  exists ick, probe_sendto c size tos initseq seq tid sp dp ttl flags =
              Ok (icmp4_probe (rc_src c) (rc_dest c) tos ttl 0 tid seq ick (repeat (rc_pattern c) (Z.to_nat (size - 28)))).
Proof. exact probe_sendto_icmp4. Qed.
Theorem c02_probe_shape_udp4 : forall c size tos initseq seq tid sp dp ttl flags,
  rc_proto c = Udp -> is_v6 (rc_dest c) = false -> rc_privileged c = true -> 28 <= size <= 1024 -> has_flag flags 1 = false ->
  exists uck, probe_sendto c size tos initseq seq tid sp dp ttl flags =
              Ok (udp4_probe (rc_src c) (rc_dest c) tos ttl 0 tid sp dp uck (repeat (rc_pattern c) (Z.to_nat (size - 28)))).
Proof. exact probe_sendto_udp4. Qed.

(* ---------------------------------------------------------------- non-vacuity *)
Definition ex_peer (x : ext_form) (n : Z) (du : option Z) : peer :=
  {| q_router := [10; 0; 0; 9]; q_unreach := du; q_n := n; q_transit := {| t_ttl := 1; t_tos := 184; t_ck := 4660 |};
     q_ext := x; q_icmp_ck := 0; q_u1 := 0; q_u2 := 0; q_u3 := 0;
     q_o_tos := 192; q_o_id := 7; q_o_flags := 0; q_o_ttl := 250; q_o_ck := 0; q_o_opts := [1; 1; 1; 1] |}.
Definition ex_ext : list Z := ext_structure 0 0 0 [OMpls 1 [(16, 0, 0, 1); (17, 1, 1, 2)]; OOther 2 3 [9; 9; 9; 9]].

(* a Dublin / IPv4 probe quoted in a Destination Unreachable with an RFC 4884 extension: hypotheses hold, the response decodes *)
Example c02_example_dublin4 :
  let c := {| rc_src := [10; 0; 0; 1]; rc_dest := [10; 0; 0; 2]; rc_proto := Udp; rc_privileged := true; rc_ext := true; rc_pattern := 0 |} in
  let dg := udp4_probe [10; 0; 0; 1] [10; 0; 0; 2] 0 3 0 33500 5000 33434 48879 (repeat 0 56) in
  peer4_conforming [10; 0; 0; 1] (ex_peer (XRfc4884 ex_ext) 84 (Some 3)) /\
  recv4 c 0 (quote4 [10; 0; 0; 1] (ex_peer (XRfc4884 ex_ext) 84 (Some 3)) dg) =
  Ok (Some (RDestUnreach (mk_resp_data 0 [10; 0; 0; 9] (PUdp 33500 [10; 0; 0; 2] 5000 33434 (Some 184) 21833 48879 56 false)) 3
                         (Some [1; 0; 2; 0; 0; 16; 0; 0; 1; 0; 0; 17; 1; 1; 2; 0; 2; 3; 0; 4; 9; 9; 9; 9]))).
Proof.
  split.
  - constructor; try reflexivity; [split; [reflexivity | cbn; lia] | cbn; lia |].
    cbn [ext_conforming ex_peer q_ext]. exists 0, 0, 0, [OMpls 1 [(16, 0, 0, 1); (17, 1, 1, 2)]; OOther 2 3 [9; 9; 9; 9]].
    split; [reflexivity|]. split; [lia|]. repeat constructor; cbn; congruence.
  - vm_compute. reflexivity.
Qed.

(* a Dublin / IPv6 probe with sequence 33437 = initial sequence 33434 + 3 *)
Example c02_example_dublin6 :
  let a := fun x => [32; 1; 13; 184; 0; 0; 0; 0; 0; 0; 0; 0; 0; 0; 0; x] in
  let c := {| rc_src := a 1; rc_dest := a 2; rc_proto := Udp; rc_privileged := true; rc_ext := false; rc_pattern := 0 |} in
  let dg := udp6_probe (a 1) (a 2) 0 74565 3 5000 33434 48879 (dublin6_payload 0 3) in
  recv6 c 0 (Some (a 9)) (quote6 {| q_router := a 9; q_unreach := None; q_n := 1232; q_transit := {| t_ttl := 1; t_tos := 0; t_ck := 0 |};
                                    q_ext := XNone; q_icmp_ck := 0; q_u1 := 0; q_u2 := 0; q_u3 := 0;
                                    q_o_tos := 0; q_o_id := 0; q_o_flags := 0; q_o_ttl := 0; q_o_ck := 0; q_o_opts := [] |} dg) =
  Ok (Some (RTimeExceeded (mk_resp_data 0 (a 9) (PUdp 0 (a 2) 5000 33434 (Some 0) 48879 48879 3 true)) 0 None)).
Proof. vm_compute. reflexivity. Qed.

(* ======================================================================================================================
   END TO END: strategy -> dispatch -> wire -> conforming router / target -> receive path -> acceptance test
   (Proofs/WireShapes.v, Proofs/WireE2E.v).  Vocabulary:
     issued sc p          sc is builder-accepted (Accept) and p is handed to the network by an iteration of the strategy
                          loop (Core/Strategy.v step) in a state reachable from the initial one;
     same_trace sc cfg rc the strategy, channel and receive-path configurations carry the same target, protocol, source,
                          payload pattern and initial sequence (Builder::build derives them from one set of values);
     run_send BoNetwork cfg [] p   Channel::connect followed by one Network::send_probe(p) (Net/ChannelSend.v over
                          Net/Dispatch4.v / Dispatch6.v): the socket operations, in order, and the result;
     answers sc res p a   res = Ok (Some r), r passes validate / check_trace_id, the sequence recovered from r is
                          p_sequence p, and r came from address a.
   Where the kernel builds headers (IPv6 fixed header; datagram / stream sockets) what is assumed of it is a predicate
   (kernel_ipv6, kernel_udp4, kernel_udp6_dgram, kernel_syn4, kernel_syn6), never an axiom. *)
From TV Require Import Net.Sock Net.ChannelSend Net.SendSpec Proofs.WireShapes Proofs.WireE2E.

(* ICMP over IPv4.  The raw dispatch of an issued probe writes ONE datagram b: an echo request from the configured source
   to the target with the configured TOS, the probe's TTL, the tracer's trace identifier, the probe's sequence and the
   pattern payload.  Every Time Exceeded / Destination Unreachable a conforming router builds from b (any quotation
   length >= 28, TTL / TOS / header checksum rewritten, with or without extensions, outer options) is recognised as the
   response to exactly this probe, and so is the Echo Reply that echoes b's identifier, sequence and data. *)
Theorem c02_e2e_icmp4 : forall sc cfg rc p,
  issued sc p -> proto sc = Icmp -> same_trace sc cfg rc -> cfg_v4 cfg -> 28 <= cc_packet_size cfg <= 1024 ->
  exists b ick,
    run_send BoNetwork cfg [] p = (connect_ops false cfg ++ [SendTo b (cc_target cfg) 0], Ok tt) /\
    b = icmp4_probe (cc_source cfg) (cc_target cfg) (cc_tos cfg) (p_ttl p) 0 (trace_identifier sc) (p_sequence p) ick
          (repeat (cc_payload_pattern cfg) (Z.to_nat (cc_packet_size cfg - 28))) /\
    (forall now me peer, peer4_conforming me peer -> zlen (quote4 me peer b) <= 1024 ->
       answers sc (recv4 rc now (quote4 me peer b)) p (q_router peer)) /\
    (forall now me o_tos o_id o_fl o_ttl o_ck o_opts ck, length me = 4%nat ->
       zlen o_opts = 4 * (zlen o_opts / 4) -> zlen o_opts <= 40 ->
       let reply := echo_reply4 me (cc_target cfg) o_tos o_id o_fl o_ttl o_ck o_opts ck
                      (RecvRoundtrip.u16 b 24) (RecvRoundtrip.u16 b 26) (skipn 28 b) in
       zlen reply <= 1024 -> answers sc (recv4 rc now reply) p (cc_target cfg)).
Proof. exact e2e_icmp4. Qed.

(* UDP over IPv4 through the raw socket, every strategy and port direction the builder accepts: classic (the sequence
   is one of the ports), Paris (the UDP checksum field carries the sequence, two payload octets compensate), Dublin
   (the IP identification is the sequence; the checksum is the one make_udp_packet computes, zero included).  The one
   datagram the dispatch writes, quoted by any conforming router, is recognised as the response to exactly this probe. *)
Theorem c02_e2e_udp4 : forall sc cfg rc p,
  issued sc p -> proto sc = Udp -> same_trace sc cfg rc -> cfg_v4 cfg -> cc_privilege cfg = Privileged ->
  28 <= cc_packet_size cfg <= 1024 ->
  exists b uck payload,
    run_send BoNetwork cfg [] p = (connect_ops false cfg ++ [SendTo b (cc_target cfg) (p_dest_port p)], Ok tt) /\
    b = udp4_probe (cc_source cfg) (cc_target cfg) (cc_tos cfg) (p_ttl p) 0 (p_identifier p) (p_src_port p) (p_dest_port p) uck payload /\
    (multipath sc = Paris -> uck = p_sequence p /\ zlen payload = 2) /\
    (multipath sc <> Paris -> payload = repeat (cc_payload_pattern cfg) (Z.to_nat (cc_packet_size cfg - 28)) /\
                              uck = udp4_wire_checksum cfg p payload) /\
    (multipath sc = Dublin -> p_identifier p = p_sequence p) /\
    (forall now me peer, peer4_conforming me peer -> zlen (quote4 me peer b) <= 1024 ->
       answers sc (recv4 rc now (quote4 me peer b)) p (q_router peer)).
Proof. exact e2e_udp4. Qed.

(* UDP over IPv4 in unprivileged mode with the classic strategy: the dispatch creates a datagram socket, binds it to the
   probe's source port, sets TTL and TOS and sends the pattern payload to the probe's destination port; the KERNEL builds
   both headers.  For every datagram the kernel may build from these operations (kernel_udp4: these addresses and ports,
   this payload; TOS, TTL, identification, checksums arbitrary) the quotation is recognised as this probe's response. *)
Theorem c02_e2e_udp4_unprivileged_classic : forall sc cfg rc p,
  issued sc p -> proto sc = Udp -> multipath sc = Classic -> same_trace sc cfg rc -> cfg_v4 cfg ->
  cc_privilege cfg = Unprivileged -> 28 <= cc_packet_size cfg <= 1024 ->
  let payload := repeat (cc_payload_pattern cfg) (Z.to_nat (cc_packet_size cfg - 28)) in
  run_send BoNetwork cfg [] p =
    (connect_ops false cfg ++
       [NewSocket SkUdp4 false; Bind (cc_source cfg) (p_src_port p); SetTtl (p_ttl p); SetTos (cc_tos cfg);
        SendTo payload (cc_target cfg) (p_dest_port p)], Ok tt) /\
  (p_src_port p = p_sequence p \/ p_dest_port p = p_sequence p) /\
  forall d, kernel_udp4 (cc_source cfg) (cc_target cfg) (p_src_port p) (p_dest_port p) payload d ->
  forall now me peer, peer4_conforming me peer -> zlen (quote4 me peer d) <= 1024 ->
    answers sc (recv4 rc now (quote4 me peer d)) p (q_router peer).
Proof. exact e2e_udp4_unprivileged_classic. Qed.

(* TCP over IPv4, the ICMP side: the dispatch binds a stream socket to the probe's source port and connects it to the
   probe's destination port; the kernel builds the SYN (kernel_syn4: these addresses and ports, a TCP header of 20..60
   octets).  Its quotation - even the RFC 792 minimum of 8 octets of the TCP header - is recognised as this probe's. *)
Theorem c02_e2e_tcp4_quoted : forall sc cfg rc p,
  issued sc p -> proto sc = Tcp -> same_trace sc cfg rc -> cfg_v4 cfg -> cc_packet_size cfg <= 1024 ->
  run_send BoNetwork cfg [] p =
    (connect_ops false cfg ++
       [NewSocket SkTcp4 false; Bind (cc_source cfg) (p_src_port p); SetTtl (p_ttl p); SetTos (cc_tos cfg);
        Connect (cc_target cfg) (p_dest_port p)], Ok tt) /\
  (p_src_port p = p_sequence p \/ p_dest_port p = p_sequence p) /\
  forall d, kernel_syn4 (cc_source cfg) (cc_target cfg) (p_src_port p) (p_dest_port p) d ->
  forall now me peer, peer4_conforming me peer -> zlen (quote4 me peer d) <= 1024 ->
    answers sc (recv4 rc now (quote4 me peer d)) p (q_router peer).
Proof. exact e2e_tcp4_quoted. Qed.

(* ICMP over IPv6: the dispatch writes the echo request m to the ICMPv6 socket after setting the hop limit; the kernel
   puts the fixed header in front (kernel_ipv6: configured addresses, next header 58, payload length |m|; traffic class,
   flow label, hop limit arbitrary).  Every conforming ICMPv6 error quoting that datagram, and the Echo Reply echoing
   m's identifier, sequence and data, are recognised as this probe's response. *)
Theorem c02_e2e_icmp6 : forall sc cfg rc p,
  issued sc p -> proto sc = Icmp -> same_trace sc cfg rc -> cfg_v6 cfg -> 48 <= cc_packet_size cfg <= 1024 ->
  exists m ick,
    run_send BoNetwork cfg [] p =
      (connect_ops true cfg ++ [SetUnicastHopsV6 (p_ttl p); SendTo m (cc_target cfg) 0], Ok tt) /\
    m = icmp_echo 128 ick (trace_identifier sc) (p_sequence p) (repeat (cc_payload_pattern cfg) (Z.to_nat (cc_packet_size cfg - 48))) /\
    (forall d, kernel_ipv6 (cc_source cfg) (cc_target cfg) 58 m d ->
     forall now peer, peer6_conforming peer -> conforming6 peer d -> (q_ext peer = XNone \/ zlen (quote6 peer d) <= 1024) ->
       answers sc (recv6 rc now (Some (q_router peer)) (quote6 peer d)) p (q_router peer)) /\
    (forall now ck, answers sc (recv6 rc now (Some (cc_target cfg))
                                  (echo_reply6 ck (RecvRoundtrip.u16 m 4) (RecvRoundtrip.u16 m 6) (skipn 8 m))) p (cc_target cfg)).
Proof. exact e2e_icmp6. Qed.

(* UDP over IPv6 through the raw socket, the three strategies.  The UDP message m the dispatch writes never has a zero
   checksum field (RFC 8200 8.1).  Classic: the pattern payload of the configured size.  Dublin: the marker "trippy"
   followed by (sequence - initial_sequence) pattern octets - the payload length is the sequence.  Paris: the checksum
   field IS the sequence (never 0: the builder refuses initial_sequence 0) and the two payload octets hold the checksum
   the dispatch computed with the computed-zero rule applied (a computed 0 is written as 0xFFFF), so they are never 0.
   Whatever fixed header the kernel adds, every conforming ICMPv6 error quoting the datagram is recognised as this probe's. *)
Theorem c02_e2e_udp6 : forall sc cfg rc p,
  issued sc p -> proto sc = Udp -> same_trace sc cfg rc -> cfg_v6 cfg -> cc_privilege cfg = Privileged ->
  48 <= cc_packet_size cfg <= 1024 ->
  exists m uck payload,
    run_send BoNetwork cfg [] p =
      (connect_ops true cfg ++ [SetUnicastHopsV6 (p_ttl p); SendTo m (cc_target cfg) 0], Ok tt) /\
    m = udp_dgram (p_src_port p) (p_dest_port p) uck payload /\ uck <> 0 /\
    match multipath sc with
    | Classic => payload = repeat (cc_payload_pattern cfg) (Z.to_nat (cc_packet_size cfg - 48))
    | Dublin => payload = dublin6_payload (cc_payload_pattern cfg) (p_sequence p - initial_sequence sc)
    | Paris => uck = p_sequence p /\ zlen payload = 2 /\ RecvRoundtrip.u16 payload 0 <> 0
    end /\
    (forall d, kernel_ipv6 (cc_source cfg) (cc_target cfg) 17 m d ->
     forall now peer, peer6_conforming peer -> conforming6 peer d -> (q_ext peer = XNone \/ zlen (quote6 peer d) <= 1024) ->
       answers sc (recv6 rc now (Some (q_router peer)) (quote6 peer d)) p (q_router peer)).
Proof. exact e2e_udp6. Qed.

(* UDP over IPv6 in unprivileged mode, classic strategy: the kernel builds the UDP header and the fixed header *)
Theorem c02_e2e_udp6_unprivileged_classic : forall sc cfg rc p,
  issued sc p -> proto sc = Udp -> multipath sc = Classic -> same_trace sc cfg rc -> cfg_v6 cfg ->
  cc_privilege cfg = Unprivileged -> 48 <= cc_packet_size cfg <= 1024 ->
  let payload := repeat (cc_payload_pattern cfg) (Z.to_nat (cc_packet_size cfg - 48)) in
  run_send BoNetwork cfg [] p =
    (connect_ops true cfg ++
       [NewSocket SkUdp6 false; Bind (cc_source cfg) (p_src_port p); SetUnicastHopsV6 (p_ttl p);
        SendTo payload (cc_target cfg) (p_dest_port p)], Ok tt) /\
  (p_src_port p = p_sequence p \/ p_dest_port p = p_sequence p) /\
  forall d, kernel_udp6_dgram (cc_source cfg) (cc_target cfg) (p_src_port p) (p_dest_port p) payload d ->
  forall now peer, peer6_conforming peer -> conforming6 peer d -> (q_ext peer = XNone \/ zlen (quote6 peer d) <= 1024) ->
    answers sc (recv6 rc now (Some (q_router peer)) (quote6 peer d)) p (q_router peer).
Proof. exact e2e_udp6_unprivileged_classic. Qed.

(* TCP over IPv6, the ICMPv6 side: the quoted SYN of the kernel *)
Theorem c02_e2e_tcp6_quoted : forall sc cfg rc p,
  issued sc p -> proto sc = Tcp -> same_trace sc cfg rc -> cfg_v6 cfg -> cc_packet_size cfg <= 1024 ->
  run_send BoNetwork cfg [] p =
    (connect_ops true cfg ++
       [NewSocket SkTcp6 false; Bind (cc_source cfg) (p_src_port p); SetUnicastHopsV6 (p_ttl p);
        Connect (cc_target cfg) (p_dest_port p)], Ok tt) /\
  (p_src_port p = p_sequence p \/ p_dest_port p = p_sequence p) /\
  forall d, kernel_syn6 (cc_source cfg) (cc_target cfg) (p_src_port p) (p_dest_port p) d ->
  forall now peer, peer6_conforming peer -> conforming6 peer d -> (q_ext peer = XNone \/ zlen (quote6 peer d) <= 1024) ->
    answers sc (recv6 rc now (Some (q_router peer)) (quote6 peer d)) p (q_router peer).
Proof. exact e2e_tcp6_quoted. Qed.

(* TCP, either family, the socket side: the handshake outcome of the socket the dispatch bound to the probe's source port
   and connected to its destination port (Channel::dispatch_tcp_probe records exactly these two ports with the socket) -
   connected, refused, or host unreachable with the reporting address - is recognised as this probe's response *)
Theorem c02_e2e_tcp_socket : forall sc cfg rc p o now rd,
  issued sc p -> proto sc = Tcp -> same_trace sc cfg rc ->
  (exists a, o = TcpConnected (Some a)) \/ o = TcpConnRefused \/ (exists a, o = TcpHostUnreach (Some a)) ->
  answers sc (recv_probe rc now (Some (o, p_src_port p, p_dest_port p)) rd) p
    (match o with TcpConnected (Some a) | TcpHostUnreach (Some a) => a | _ => rc_dest rc end).
Proof. exact e2e_tcp_socket. Qed.

(* The two halves fit: a datagram of this tracer for an issued probe (own4 / own6: as the raw dispatch builds it, or as
   the kernel builds it from the dispatch's socket operations, with any TOS / TTL / identification / checksums / flow
   label) is never [foreign4] / [foreign6].  So c02_reject_foreign4 / 6 reject only quotations that differ from EVERY
   probe this tracer can issue - in protocol, destination (UDP / TCP), a fixed port, the trace identifier (ICMP) or the
   Dublin marker (IPv6). *)
Theorem c02_own_probe_never_foreign4 : forall sc cfg p d,
  issued sc p -> cc_target cfg = target_addr sc -> cfg_v4 cfg -> own4 sc cfg p d -> ~ foreign4 sc d.
Proof. exact own_not_foreign4. Qed.

Theorem c02_own_probe_never_foreign6 : forall sc cfg p d,
  issued sc p -> cc_target cfg = target_addr sc -> cfg_v6 cfg -> own6 sc cfg p d -> ~ foreign6 sc d.
Proof. exact own_not_foreign6. Qed.

(* "recognised as the response to EXACTLY that probe": one response cannot answer two probes with different sequences,
   nor come from two addresses - the sequence and the sender are functions of the decoded response *)
Theorem c02_answer_names_one_probe : forall sc res p1 p2 a1 a2,
  answers sc res p1 a1 -> answers sc res p2 a2 -> p_sequence p1 = p_sequence p2 /\ a1 = a2.
Proof. exact answers_functional. Qed.

(* KNOWN FINDING F16, sharper, on the dispatch itself: for two probes of one round of an unprivileged Paris / Dublin
   trace (the builder accepts the cell) the socket operations differ in the TTL option only and the kernel may emit
   the very same datagrams for both (TTL is rewritten in transit anyway); since the sequence recovered from a response
   is a function of the response, no quotation can be attributed correctly to both probes: the identity of the probe
   does not survive the wire in these cells. *)
Theorem c02_unprivileged_paris_dublin_same_wire_refuted : forall sc cfg p1 p2,
  issued sc p1 -> issued sc p2 -> proto sc = Udp -> multipath sc <> Classic -> p_round p1 = p_round p2 ->
  cfg_v4 cfg -> cc_protocol cfg = Udp -> cc_privilege cfg = Unprivileged -> 28 <= cc_packet_size cfg <= 1024 ->
  (exists ops : Z -> list sockop,
     run_send BoNetwork cfg [] p1 = (ops (p_ttl p1), Ok tt) /\ run_send BoNetwork cfg [] p2 = (ops (p_ttl p2), Ok tt)) /\
  (forall payload d, kernel_udp4 (cc_source cfg) (cc_target cfg) (p_src_port p1) (p_dest_port p1) payload d <->
                     kernel_udp4 (cc_source cfg) (cc_target cfg) (p_src_port p2) (p_dest_port p2) payload d) /\
  (forall res a1 a2, answers sc res p1 a1 -> answers sc res p2 a2 -> p_sequence p1 = p_sequence p2).
Proof. exact unprivileged_paris_dublin_same_wire. Qed.

(* ---------------------------------------------------------------- non-vacuity of the end-to-end statements *)
(* Dublin over IPv4: the first probe of a trace (sequence 33434 = IP identification) is issued, the configurations agree,
   and the Destination Unreachable with an RFC 4884 extension built from the dispatched datagram decodes to a response
   carrying the sequence in the identifier and equal expected / actual checksums *)
Example c02_e2e_example_dublin4 :
  issued ex_sc4 ex_p4 /\ same_trace ex_sc4 ex_cfg4 ex_rc4 /\ cfg_v4 ex_cfg4 /\
  peer4_conforming [10; 0; 0; 1] (ex_peer (XRfc4884 ex_ext) 84 (Some 3)) /\
  exists b, run_send BoNetwork ex_cfg4 [] ex_p4 = (connect_ops false ex_cfg4 ++ [SendTo b [10; 0; 0; 2] 33434], Ok tt) /\
    recv4 ex_rc4 0 (quote4 [10; 0; 0; 1] (ex_peer (XRfc4884 ex_ext) 84 (Some 3)) b) =
    Ok (Some (RDestUnreach (mk_resp_data 0 [10; 0; 0; 9] (PUdp 33434 [10; 0; 0; 2] 5000 33434 (Some 184) 21833 21833 56 false)) 3
                           (Some [1; 0; 2; 0; 0; 16; 0; 0; 1; 0; 0; 17; 1; 1; 2; 0; 2; 3; 0; 4; 9; 9; 9; 9]))).
Proof.
  split; [exact ex_issued4|]. split; [exact (proj1 ex_same4)|]. split; [exact (proj2 ex_same4)|]. split.
  - constructor; try reflexivity; [split; [reflexivity | cbn; lia] | cbn; lia |].
    cbn [ext_conforming ex_peer q_ext]. exists 0, 0, 0, [OMpls 1 [(16, 0, 0, 1); (17, 1, 1, 2)]; OOther 2 3 [9; 9; 9; 9]].
    split; [reflexivity|]. split; [lia|]. repeat constructor; cbn; congruence.
  - eexists. split; [vm_compute; reflexivity|]. vm_compute. reflexivity.
Qed.

(* Paris over IPv6: the probe is issued, the configurations agree, the message on the wire carries the sequence in the
   checksum field, and the Time Exceeded quoting the kernel's datagram (flow label 74565) is decoded with it *)
Example c02_e2e_example_paris6 :
  issued ex_sc6 ex_p6 /\ same_trace ex_sc6 ex_cfg6 ex_rc6 /\ cfg_v6 ex_cfg6 /\
  exists m, run_send BoNetwork ex_cfg6 [] ex_p6 = (connect_ops true ex_cfg6 ++ [SetUnicastHopsV6 1; SendTo m (a6 2) 0], Ok tt) /\
    RecvRoundtrip.u16 m 6 = 33434 /\
    exists r, recv6 ex_rc6 0 (Some (a6 9))
      (quote6 {| q_router := a6 9; q_unreach := None; q_n := 1232; q_transit := {| t_ttl := 1; t_tos := 0; t_ck := 0 |};
                 q_ext := XNone; q_icmp_ck := 0; q_u1 := 0; q_u2 := 0; q_u3 := 0;
                 q_o_tos := 0; q_o_id := 0; q_o_flags := 0; q_o_ttl := 0; q_o_ck := 0; q_o_opts := [] |}
              (ipv6_hdr 0 74565 (zlen m) 17 1 (a6 1) (a6 2) ++ m)) = Ok (Some r) /\
      exists sr, strategy_resp ex_sc6 r = Ok sr /\ sr_sequence sr = 33434.
Proof.
  split; [exact ex_issued6|]. split; [exact (proj1 ex_same6)|]. split; [exact (proj2 ex_same6)|].
  eexists. split; [vm_compute; reflexivity|]. split; [vm_compute; reflexivity|].
  eexists. split; [vm_compute; reflexivity|]. eexists. split; [vm_compute; reflexivity|]. vm_compute. reflexivity.
Qed.
