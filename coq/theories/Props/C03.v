(* C03 - Only genuine current-round responses can complete a probe.
   Model: TV.Core.Strategy.recv_response / TracerState.complete_probe (with the guard that a sequence
   not yet issued in this round is never completed - the repaired behaviour). *)
From TV Require Import Tui.TraceId Proofs.TraceIdProofs.
From TV Require Import Base.Result Core.Types Core.TracerState Core.Strategy Core.Builder
  Proofs.StrategyInv Proofs.StrategyProps.

(* a delivery either leaves the ENTIRE tracer state unchanged, or it is accepted: validate holds, the
   trace id is ours (or the wildcard 0), it names a sequence issued in the round in progress
   (round_sequence <= q < sequence), and that probe is still Awaited; then exactly that slot is completed
   and sequence, round_sequence, ttl, round, round_start are untouched *)
Theorem c03_only_genuine : forall c s i s' e, Accept c -> Inv c s -> recv_response c s i = Ok (s', e) ->
  s' = s \/
  exists r sr p, i_recv i = Resp r /\ accepted c s r sr p /\
    buffer s' = upd (Z.to_nat (sr_sequence sr - round_sequence s)) (Complete (complete p sr)) (buffer s) /\
    sequence s' = sequence s /\ round_sequence s' = round_sequence s /\ ttl s' = ttl s /\ round s' = round s /\
    round_start s' = round_start s.
Proof. exact c03_only_genuine_lemma. Qed.

(* duplicates: the first response wins *)
Theorem c03_duplicate_noop : forall c s sr cc, Inv c s -> round_sequence s <= sr_sequence sr < sequence s ->
  nth_error (buffer s) (Z.to_nat (sr_sequence sr - round_sequence s)) = Some (Complete cc) ->
  complete_probe s sr = Ok s.
Proof. exact c03_duplicate_lemma. Qed.

(* sequences never sent in this round *)
Theorem c03_never_sent_noop : forall s sr, sequence s <= sr_sequence sr -> complete_probe s sr = Ok s.
Proof. exact c03_never_sent_lemma. Qed.

(* responses to the previous round's probes (ICMP, UDP): by C07 separation such a sequence is outside
   [round_sequence, sequence) of the current round, hence not accepted *)
Theorem c03_previous_round_noop : forall c s now s' s'' r sr p, Accept c -> proto c <> Tcp -> Inv c s ->
  advance_round c s (first_ttl c) now = Ok s' -> Inv c s'' -> round_sequence s'' = round_sequence s' ->
  round_sequence s <= sr_sequence sr < sequence s -> ~ accepted c s'' r sr p.
Proof.
  intros c s now s' s'' r sr p HA Hp HI Ha HI2 Hrs Hq (_ & _ & _ & Hw & _).
  exact (c07_separation_lemma c s now s' s'' HA Hp HI Ha HI2 Hrs (sr_sequence sr) Hq Hw).
Qed.

(* another tracer instance: a different non-zero trace identifier is rejected *)
Theorem c03_foreign_trace_id : forall c tid, tid <> 0 -> tid <> trace_identifier c -> check_trace_id c tid = false.
Proof. exact c03_foreign_trace_id_lemma. Qed.

(* ---- several tracers of one process (trippy-tui app.rs start_tracers, after the repair of F7) ----
   The identifier of the tracer at index i is never zero (zero in a response is accepted by every tracer),
   fits u16, differs between any two of up to 65534 tracers, is pid + i whenever that is a legal identifier,
   and therefore each tracer rejects the ICMP responses carrying any other tracer's identifier. *)
Theorem c03_trace_identifiers : forall pid i j, 0 <= i < j -> j < 65535 ->
  1 <= trace_identifier_for pid i <= 65535 /\ trace_identifier_for pid i <> trace_identifier_for pid j.
Proof. intros pid i j Hi Hj. split; [apply tid_range|apply tid_distinct; assumption]. Qed.

Theorem c03_trace_identifier_is_pid_plus_i : forall pid i, 0 <= pid < 65535 -> 0 <= i < 65535 -> 0 < pid + i <= 65535 ->
  trace_identifier_for pid i = pid + i.
Proof. intros pid i Hp Hi Hs. apply tid_unchanged; lia. Qed.

Theorem c03_tracers_isolated : forall c pid i j, trace_identifier c = trace_identifier_for pid i ->
  0 <= i < 65535 -> 0 <= j < 65535 -> i <> j -> check_trace_id c (trace_identifier_for pid j) = false.
Proof. intros c pid i j Hc Hi Hj Hne. apply (tid_isolation c pid i j Hc); lia. Qed.

(* F7, the pinned assignment pid + i: identifier 0 for pid 0 (accepted by EVERY tracer), overflow for pid 65534 and 2 targets *)
Theorem c03_pinned_trace_identifier_refuted :
  pinned_trace_identifier_for 0 0 = Ok 0 /\ (forall c, check_trace_id c 0 = true) /\
  pinned_trace_identifier_for 65534 2 = Fault Overflow.
Proof.
  split; [reflexivity|]. split; [|reflexivity].
  intros c. unfold check_trace_id. rewrite Z.eqb_refl. apply Bool.orb_true_r.
Qed.
