(* C03 - Only genuine current-round responses can complete a probe.
   Model: TV.Core.Strategy.recv_response / TracerState.complete_probe (with the guard that a sequence
   not yet issued in this round is never completed - the repaired behaviour). *)
From TV Require Import Tui.TraceId Proofs.TraceIdProofs.
From TV Require Import Base.Result Core.Types Core.TracerState Core.Strategy Core.Builder
  Proofs.StrategyInv Proofs.StrategyProps.

(* a delivery either leaves the ENTIRE tracer state unchanged, or it is accepted: validate holds, the
   trace id is ours (or the wildcard 0), it names a sequence issued in the round in progress
   (round_sequence <= q < sequence), and that probe is still Awaited; then exactly that slot is completed
   and sequence, round_sequence, ttl, round, round_start are untouched *)
Theorem c03_only_genuine : forall c s i s' e, Accept c -> Inv c s -> recv_response c s i = Ok (s', e) ->
  s' = s \/
  exists r sr p, i_recv i = Resp r /\ accepted c s r sr p /\
    buffer s' = upd (Z.to_nat (sr_sequence sr - round_sequence s)) (Complete (complete p sr)) (buffer s) /\
    sequence s' = sequence s /\ round_sequence s' = round_sequence s /\ ttl s' = ttl s /\ round s' = round s /\
    round_start s' = round_start s.
Proof. exact c03_only_genuine_lemma. Qed.

(* duplicates: the first response wins *)
Theorem c03_duplicate_noop : forall c s sr cc, Inv c s -> round_sequence s <= sr_sequence sr < sequence s ->
  nth_error (buffer s) (Z.to_nat (sr_sequence sr - round_sequence s)) = Some (Complete cc) ->
  complete_probe s sr = Ok s.
Proof. exact c03_duplicate_lemma. Qed.

(* sequences never sent in this round *)
Theorem c03_never_sent_noop : forall s sr, sequence s <= sr_sequence sr -> complete_probe s sr = Ok s.
Proof. exact c03_never_sent_lemma. Qed.

(* responses to the previous round's probes (ICMP, UDP): by C07 separation such a sequence is outside
   [round_sequence, sequence) of the current round, hence not accepted *)
Theorem c03_previous_round_noop : forall c s now s' s'' r sr p, Accept c -> proto c <> Tcp -> Inv c s ->
  advance_round c s (first_ttl c) now = Ok s' -> Inv c s'' -> round_sequence s'' = round_sequence s' ->
  round_sequence s <= sr_sequence sr < sequence s -> ~ accepted c s'' r sr p.
Proof.
  intros c s now s' s'' r sr p HA Hp HI Ha HI2 Hrs Hq (_ & _ & _ & Hw & _).
  exact (c07_separation_lemma c s now s' s'' HA Hp HI Ha HI2 Hrs (sr_sequence sr) Hq Hw).
Qed.

(* another tracer instance: a different non-zero trace identifier is rejected *)
Theorem c03_foreign_trace_id : forall c tid, tid <> 0 -> tid <> trace_identifier c -> check_trace_id c tid = false.
Proof. exact c03_foreign_trace_id_lemma. Qed.

(* ---- several tracers of one process (trippy-tui app.rs start_tracers, after the repair of F7) ----
   The identifier of the tracer at index i is never zero (zero in a response is accepted by every tracer),
   fits u16, differs between any two of up to 65534 tracers, is pid + i whenever that is a legal identifier,
   and therefore each tracer rejects the ICMP responses carrying any other tracer's identifier. *)
Theorem c03_trace_identifiers : forall pid i j, 0 <= i < j -> j < 65535 ->
  1 <= trace_identifier_for pid i <= 65535 /\ trace_identifier_for pid i <> trace_identifier_for pid j.
Proof. intros pid i j Hi Hj. split; [apply tid_range|apply tid_distinct; assumption]. Qed.

Theorem c03_trace_identifier_is_pid_plus_i : forall pid i, 0 <= pid < 65535 -> 0 <= i < 65535 -> 0 < pid + i <= 65535 ->
  trace_identifier_for pid i = pid + i.
Proof. intros pid i Hp Hi Hs. apply tid_unchanged; lia. Qed.

Theorem c03_tracers_isolated : forall c pid i j, trace_identifier c = trace_identifier_for pid i ->
  0 <= i < 65535 -> 0 <= j < 65535 -> i <> j -> check_trace_id c (trace_identifier_for pid j) = false.
Proof. intros c pid i j Hc Hi Hj Hne. apply (tid_isolation c pid i j Hc); lia. Qed.

(* F7, the pinned assignment pid + i: identifier 0 for pid 0 (accepted by EVERY tracer), overflow for pid 65534 and 2 targets *)
Theorem c03_pinned_trace_identifier_refuted :
  pinned_trace_identifier_for 0 0 = Ok 0 /\ (forall c, check_trace_id c 0 = true) /\
  pinned_trace_identifier_for 65534 2 = Fault Overflow.
Proof.
  split; [reflexivity|]. split; [|reflexivity].
  intros c. unfold check_trace_id. rewrite Z.eqb_refl. apply Bool.orb_true_r.
Qed.

(* ====================================================================================================
   WHOLE RUNS: non-interference (Proofs/NonInterference.v, Proofs/PrevRound.v).
   [pick c s rc]: the ground-truth test of C01 (ghost_pick) on a delivery: Some (p, sr) iff rc is a response
   that is genuine in state s (validated, own or wildcard trace id, names a sequence issued in the round in
   progress, that probe still Awaited).  [quiet c s rc]: rc is a timeout or a response that is not genuine.
   ==================================================================================================== *)
From TV Require Import Proofs.RoundHistory Proofs.RunLog Proofs.RunLogProps Proofs.NonInterference Proofs.PrevRound.

(* the responses the tracer must ignore fall into exactly four classes: rejected by validate (other target, other
   ports, missing Dublin/IPv6 marker); foreign trace identifier; sequence outside [round_sequence, sequence) -
   previous round, never sent; the addressed slot is not Awaited - duplicate, failed or abandoned probe *)
Theorem c03_nongenuine_classes : forall c s r,
  pick c s (Resp r) = None <->
  validate c (resp_data_of r) = false \/
  exists sr, strategy_resp c r = Ok sr /\
    (check_trace_id c (sr_trace_id sr) = false \/
     ~ (round_sequence s <= sr_sequence sr < sequence s) \/
     not_awaiting s (sr_sequence sr)).
Proof. exact pick_none_classes. Qed.

(* Strategy::recv_response on a delivery of these classes returns the ENTIRE TracerState unchanged and no error:
   it is literally the result of "nothing received" - no field (not even received_time) may differ *)
Theorem c03_quiet_delivery_is_timeout : forall c s i, Accept c -> Inv c s -> quiet c s (i_recv i) ->
  recv_response c s i = Ok (s, None) /\ recv_response c s i = recv_response c s (set_recv i Timeout).
Proof. exact quiet_delivery_is_timeout. Qed.

(* ... and only these: a genuine response always changes the state *)
Theorem c03_genuine_delivery_changes : forall c s i r p sr s' e, Inv c s -> i_recv i = Resp r ->
  pick c s (Resp r) = Some (p, sr) -> recv_response c s i = Ok (s', e) -> s' <> s.
Proof. exact genuine_recv_changes. Qed.

(* one iteration of the run loop: replacing a quiet delivery by any other quiet delivery (in particular by a
   timeout) gives the same iteration - same probes sent, same round published, same next state *)
Theorem c03_step_noninterference : forall c s i i', Accept c -> Inv c s -> recv_sim c s i i' -> step c s i' = step c s i.
Proof. exact step_sim. Qed.

(* NON-INTERFERENCE over whole runs: two input histories of any length that differ only in quiet deliveries
   (judged in the state of the moment) are the same run: same events (every send with its outcome, every published
   round), same outcome, same final TracerState *)
Theorem c03_run_noninterference : forall c is is' s, Accept c -> Inv c s -> run_sim c s is is' ->
  run_from c s is' = run_from c s is.
Proof. intros c is is' s HA HI H. exact (run_noninterference c HA is is' s HI H). Qed.

Theorem c03_same_published_rounds : forall c t0 is is', Accept c -> run_sim c (ts_new c t0) is is' ->
  pubs (fst (fst (run c t0 is'))) = pubs (fst (fst (run c t0 is))) /\
  sends_of (fst (fst (run c t0 is'))) = sends_of (fst (fst (run c t0 is))) /\
  snd (run c t0 is') = snd (run c t0 is).
Proof. exact run_sim_same_rounds. Qed.

(* the harness oracle "with vs. without the injected responses": [scrub] turns EVERY response that is not genuine
   into "nothing received"; the scrubbed history is the same run ... *)
Theorem c03_scrub_same_run : forall c t0 is, Accept c -> run c t0 (scrub c (ts_new c t0) is) = run c t0 is.
Proof. exact scrub_run. Qed.

(* ... every response left in it is genuine when it is delivered, and nothing else of the history was touched *)
Theorem c03_scrub_leaves_only_genuine : forall c t0 is, Accept c ->
  all_genuine c (ts_new c t0) (scrub c (ts_new c t0) is) /\
  Forall2 (fun i i' => i' = i \/ (exists r, i_recv i = Resp r) /\ i' = set_recv i Timeout) is (scrub c (ts_new c t0) is).
Proof. exact scrub_run_only_genuine. Qed.

(* the same without looking at the tracer state: genuineness decided on the observation log alone ([genuine]
   of C06/C08 against the ghost of the log before the delivery).  The log of the scrubbed run is the log of the
   original run with the deliveries that are not genuine deleted, and deleting them does not change the ghost *)
Theorem c03_scrub_log : forall c t0 is, Accept c ->
  run_log c t0 (scrub c (ts_new c t0) is) = drop_nongenuine c (g_init t0) (run_log c t0 is).
Proof. exact scrub_run_log. Qed.

Theorem c03_dropped_deliveries_keep_ghost : forall c l g,
  fold_left (gstep c) (drop_nongenuine c g l) g = fold_left (gstep c) l g.
Proof. exact drop_ghost. Qed.

(* filters that do not look at the state: a class of responses that is never genuine can be deleted from any
   history without changing the run *)
Theorem c03_drop_never_genuine : forall c f t0 is, Accept c -> never_genuine c f -> run c t0 (drop_if f is) = run c t0 is.
Proof. exact drop_never_genuine_run. Qed.

(* ... responses for another target or other ports (rejected by validate) *)
Theorem c03_invalid_responses_run : forall c t0 is, Accept c -> run c t0 (drop_if (invalid c) is) = run c t0 is.
Proof. exact invalid_responses_run. Qed.

(* ... responses carrying a trace identifier that is neither this tracer's nor 0 *)
Theorem c03_foreign_id_responses_run : forall c t0 is, Accept c -> run c t0 (drop_if (foreign_id c) is) = run c t0 is.
Proof. exact foreign_id_responses_run. Qed.

(* the identifier the strategy derives from a response is the ICMP identifier field; UDP and TCP responses carry
   none (0, accepted by every tracer): for those, isolation rests on validate (target address and ports) *)
Theorem c03_trace_id_of_response : forall c r sr, strategy_resp c r = Ok sr ->
  sr_trace_id sr = match r_proto (resp_data_of r) with PIcmp id _ _ => id | _ => 0 end.
Proof. exact strategy_resp_trace_id. Qed.

(* several tracers of one process on one network (identifiers of app.rs, c03_trace_identifiers above): the run of
   tracer i with the responses that belong to the other tracers is the run it has alone *)
Theorem c03_tracers_isolated_run : forall c pid i f t0 is, Accept c ->
  trace_identifier c = trace_identifier_for pid i -> 0 <= i < 65535 ->
  (forall r, f r = true -> from_other_tracer c pid i r) ->
  run c t0 (drop_if f is) = run c t0 is.
Proof. exact tracers_isolated_run. Qed.

Theorem c03_two_tracers_alone : forall ca cb pid i j fa fb ta tb isa isb, Accept ca -> Accept cb ->
  trace_identifier ca = trace_identifier_for pid i -> trace_identifier cb = trace_identifier_for pid j ->
  0 <= i < 65535 -> 0 <= j < 65535 -> i <> j ->
  (forall r, fa r = true -> exists sr, strategy_resp ca r = Ok sr /\ sr_trace_id sr = trace_identifier cb) ->
  (forall r, fb r = true -> exists sr, strategy_resp cb r = Ok sr /\ sr_trace_id sr = trace_identifier ca) ->
  run ca ta (drop_if fa isa) = run ca ta isa /\ run cb tb (drop_if fb isb) = run cb tb isb.
Proof. exact two_tracers_alone. Qed.

(* late responses over whole runs (ICMP, UDP): at every position of every run, a response naming the sequence of a
   probe of the round published last ([prev_after]: its send log, read off the observation log) is not genuine -
   hence deleted by [scrub] / [drop_nongenuine] and without any effect on the run *)
Theorem c03_late_response_not_genuine : forall c t0 is l1 r l2 sr p x, Accept c -> proto c <> Tcp ->
  run_log c t0 is = l1 ++ ORecv r :: l2 -> strategy_resp c r = Ok sr ->
  In (p, x) (prev_after c t0 l1) -> p_sequence p = sr_sequence sr ->
  genuine c (g_S (ghost_after c t0 l1)) (g_A (ghost_after c t0 l1)) r = None.
Proof. exact late_response_not_genuine. Qed.

(* [prev_after] is the send log RoundHistory / RunLog attach to the last round published in that prefix of the log *)
Theorem c03_prev_after_is_last_published : forall c t0 l,
  prev_after c t0 l = match rev (publishes c (g_init t0) l) with x :: _ => snd (fst x) | [] => [] end.
Proof. intros c t0 l. exact (prev_after_publishes c l (g_init t0) []). Qed.

(* ---- examples: the hypotheses are met by concrete runs (example run of Proofs/RunLogProps.v) ---- *)
(* the run of rl_ex_ins receives a duplicate of the target's answer (6th iteration): scrubbing replaces exactly that
   delivery, and the two histories are related by run_sim *)
Example c03_ex_scrub :
  map (fun i => match i_recv i with Timeout => 0 | Resp _ => 1 | FatalR _ => 2 end) rl_ex_ins = [0;1;1;1;0;1;0;0;0;0;0;0] /\
  map (fun i => match i_recv i with Timeout => 0 | Resp _ => 1 | FatalR _ => 2 end) (scrub rl_ex_cfg (ts_new rl_ex_cfg 0) rl_ex_ins)
    = [0;1;1;1;0;0;0;0;0;0;0;0] /\
  run rl_ex_cfg 0 (scrub rl_ex_cfg (ts_new rl_ex_cfg 0) rl_ex_ins) = run rl_ex_cfg 0 rl_ex_ins.
Proof. vm_compute. repeat split. Qed.

(* TCP: the reply naming the abandoned sequence 100 (slot Skipped) is scrubbed, the one naming 102 is kept *)
Example c03_ex_scrub_tcp :
  map (fun i => match i_recv i with Timeout => 0 | Resp _ => 1 | FatalR _ => 2 end) (scrub rl_ex_tcp_cfg (ts_new rl_ex_tcp_cfg 0) rl_ex_tcp_ins)
    = [0;0;1;0;0].
Proof. vm_compute. reflexivity. Qed.

(* tracer 1 of process 6 has identifier 7 (= rl_ex_cfg), tracer 2 has 8; a Time Exceeded quoting tracer 2's probe
   with the in-window sequence 100 is delivered to tracer 1 in the first iteration: it belongs to another tracer,
   deleting it gives rl_ex_ins, and the run is the same *)
Definition c03_ex_foreign : response :=
  RTimeExceeded {| r_recv := 1; r_addr := [9;9;9;1]; r_proto := PIcmp 8 100 None |} 0 None.
Definition c03_ex_shared_ins : list iter_in := rl_ex_it (Resp c03_ex_foreign) 1 :: tl rl_ex_ins.

Example c03_ex_two_tracers :
  trace_identifier rl_ex_cfg = trace_identifier_for 6 1 /\
  from_other_tracer rl_ex_cfg 6 1 c03_ex_foreign /\
  foreign_id rl_ex_cfg c03_ex_foreign = true /\
  drop_if (foreign_id rl_ex_cfg) c03_ex_shared_ins = rl_ex_ins /\
  run rl_ex_cfg 0 c03_ex_shared_ins = run rl_ex_cfg 0 rl_ex_ins.
Proof.
  split; [reflexivity|]. split.
  - exists 2. eexists. split; [lia|]. split; [lia|]. split; reflexivity.
  - split; [reflexivity|]. split; vm_compute; reflexivity.
Qed.

(* a late response: the Time Exceeded for sequence 101 (round 0) arrives in round 1 (7th iteration) *)
Definition c03_ex_late : response := rl_ex_te 16 101 [9;9;9;2].
Definition c03_ex_late_ins : list iter_in := firstn 6 rl_ex_ins ++ rl_ex_it (Resp c03_ex_late) 16 :: skipn 7 rl_ex_ins.

Example c03_ex_late_instance :
  let L := run_log rl_ex_cfg 0 c03_ex_late_ins in
  L = firstn 15 L ++ ORecv c03_ex_late :: skipn 16 L /\
  map (fun po => p_sequence (fst po)) (prev_after rl_ex_cfg 0 (firstn 15 L)) = [100; 101; 102; 103] /\
  (exists sr, strategy_resp rl_ex_cfg c03_ex_late = Ok sr /\ sr_sequence sr = 101) /\
  run rl_ex_cfg 0 c03_ex_late_ins = run rl_ex_cfg 0 rl_ex_ins.
Proof.
  intros L. split; [vm_compute; reflexivity|]. split; [vm_compute; reflexivity|].
  split; [eexists; split; reflexivity|]. vm_compute. reflexivity.
Qed.

(* "each one's results": histories that differ only in quiet deliveries give the same State, hence the same
   snapshots (State::update_from_round over the published rounds, C01) *)
From TV Require Import Core.State Proofs.FlowAttr.
Theorem c03_same_snapshot : forall c t0 is is' ms mf, Accept c -> run_sim c (ts_new c t0) is is' ->
  st_run (state_new ms mf) (pubs (fst (fst (run c t0 is')))) = st_run (state_new ms mf) (pubs (fst (fst (run c t0 is)))).
Proof. exact same_snapshot. Qed.

(* why the property says "different NON-ZERO trace identifier": identifier 0 is accepted by check_trace_id whatever
   the protocol.  An ICMP tracer (identifier 7) that receives a Time Exceeded quoting an echo request with
   identifier 0 and the in-window sequence 100 from host 6.6.6.6 completes its ttl 1 probe with that host: the
   published rounds differ from the run in which that delivery is a timeout.  The stronger claim "a response
   carrying ANY other identifier changes nothing" is false of the model and of the code (strategy.rs
   check_trace_id: `|| trace_id == TraceId(0)` is not restricted to UDP / TCP) *)
Theorem c03_any_other_identifier_refuted : exists c t0 i rest r,
  Accept c /\ proto c = Icmp /\ i_recv i = Resp r /\
  (exists sr, strategy_resp c r = Ok sr /\ sr_trace_id sr <> trace_identifier c) /\
  pubs (fst (fst (run c t0 (i :: rest)))) <> pubs (fst (fst (run c t0 (set_recv i Timeout :: rest)))).
Proof. exact any_other_identifier_refuted. Qed.
