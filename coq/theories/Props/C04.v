(* C04: packet-view half, then the receive-path half (Net/Recv*.v). *)
From TV Require Import Base.Result Packet.ByteOps Packet.IcmpExt Packet.Views Proofs.IcmpExtProofs Proofs.ViewsProofs.

(* For every packet view and every non-mutating accessor: on EVERY buffer of at least the view's minimum size the
   accessor returns a value - it does not fault (no panic, no overflow, no out-of-bounds, no exhausted fuel). *)
Theorem c04_accessors_total : forall v buf r f,
  (view_min v <= length buf)%nat -> In r (view_accessors v buf) -> r <> Fault f.
Proof. exact view_accessors_no_fault. Qed.

(* Including construction: for ANY buffer new_view refuses it (an error value) or every accessor returns a value. *)
Theorem c04_views_total : forall v buf,
  view_all v buf = Err EPacket \/ exists accs, view_all v buf = Ok accs /\ Forall is_total accs.
Proof. exact view_all_no_fault. Qed.

(* The extension decoding reached from the receive path never faults, for any byte string. *)
Theorem c04_extensions_total : forall pm kind fam buf,
  is_fault (nested_and_extensions pm kind fam buf) = false /\ is_fault (extensions_try_from buf) = false.
Proof. intros. split; [apply nested_and_extensions_nofault|apply extensions_try_from_nofault]. Qed.

(* non-vacuity + the pinned behaviour for the record: IHL = 15 over a 20-octet buffer *)
Example c04_ipv4_ihl15 :
  let buf := 79 :: repeat 0 19 in
  (view_min VIpv4 <= length buf)%nat /\ ipv4_payload buf = Ok [] /\ pinned_ipv4_payload buf = Fault OutOfBounds.
Proof. vm_compute. repeat split; reflexivity. Qed.

(* ---------------------------------------------------------------- receive half (net/ipv4.rs, net/ipv6.rs, net/channel.rs, net/extension.rs) *)
From TV Require Import Base.Result Base.Bytes Core.Types Core.TracerState Core.Strategy.
From TV Require Import Net.RecvCommon Net.Recv4 Net.Recv6 Net.Recv Proofs.RecvProofs.

(* whatever arrives on the IPv4 raw socket, in every configuration: a response, nothing, or an error value *)
Theorem c04_recv4_total : forall c now bytes f, recv4 c now bytes <> Fault f.
Proof. exact recv4_total. Qed.
(* the same for the ICMPv6 socket (the sender address recv_from reports is absent or an IPv6 address) *)
Theorem c04_recv6_total : forall c now from b, bytes b -> from_v6 from -> forall f, recv6 c now from b <> Fault f.
Proof. exact recv6_total. Qed.
(* Network::recv_probe of the channel: every protocol, every outcome of the TCP probe sockets, every socket result *)
Theorem c04_recv_probe_total : forall c now found rd, readable_ok rd -> forall f, recv_probe c now found rd <> Fault f.
Proof. exact recv_probe_total. Qed.
(* the strategy step that consumes the response does not fault either *)
Theorem c04_strategy_resp_total : forall sc r f, strategy_resp sc r <> Fault f.
Proof. exact strategy_resp_total. Qed.
(* no looping: the iterators over extension objects and MPLS label stack entries never exhaust their fuel *)
Theorem c04_extension_iterators_terminate : forall v st off bos, 0 <= off ->
  objects (S (length v)) v off <> Fault OutOfFuel /\ mpls_members (S (length st)) st off bos <> Fault OutOfFuel.
Proof. intros v st off bos H. split; [apply objects_fuel_suffices | apply mpls_members_fuel_suffices]; exact H. Qed.

Example c04_example_nested_ihl15 :
  recv4 {| rc_src := [10;0;0;1]; rc_dest := [10;0;0;2]; rc_proto := Icmp; rc_privileged := true; rc_ext := false; rc_pattern := 0 |} 0
        ([69;0;0;56;0;0;64;0;250;1;0;0;10;0;0;9;10;0;0;1] ++ [11;0;0;0;0;0;0;0] ++
         [79;0;0;84;0;0;64;0;1;1;0;0;10;0;0;1;10;0;0;2] ++ [8;0;0;0;18;52;130;155]) = Err EPacket.
Proof. vm_compute. reflexivity. Qed.

(* the array of pending TCP probe sockets: polling it never faults and never grows it *)
From TV Require Net.TcpSockets Proofs.TcpSocketsProofs.
Theorem c04_tcp_socket_array_total : forall c now timeout l f,
  snd (TcpSockets.recv_tcp_sockets_list c now timeout l) <> Fault f /\
  (length (fst (TcpSockets.recv_tcp_sockets_list c now timeout l)) <= length l)%nat.
Proof.
  intros c now timeout l f. split;
    [apply TcpSocketsProofs.recv_tcp_sockets_list_no_fault|apply TcpSocketsProofs.recv_tcp_sockets_list_length].
Qed.

(* ==================================================================================================================
   Second part: WHICH values come back, what is inside the bounds at every accessor of the receive path given the
   size check that precedes it, where the pieces handed from one layer to the next lie, and the array of pending TCP
   probe sockets over whole histories.
   ================================================================================================================== *)
From TV Require Import Proofs.RecvOutcomes Proofs.ViewsExtra.

(* ---- the complete list of outcomes ---- *)

(* IPv4 raw socket: for EVERY datagram (any length, any content) and every configuration the result is a value
   (a response or nothing) or the one error value InsufficientPacketBuffer - no other error, no fault. *)
Theorem c04_recv4_value_or_packet_error : forall c now bytes,
  (exists r, recv4 c now bytes = Ok r) \/ recv4 c now bytes = Err EPacket.
Proof. intros c now bytes. apply ep_cases. apply ep_recv4. Qed.

(* ICMPv6 socket: with a sender address the same two outcomes; without one (recv_from reported none) the error
   value is InsufficientPacketBuffer for a message shorter than the ICMP header and MissingAddr otherwise. *)
Theorem c04_recv6_outcomes : forall c now from b, bytes b -> from_v6 from ->
  match from with
  | Some _ => (exists r, recv6 c now from b = Ok r) \/ recv6 c now from b = Err EPacket
  | None => recv6 c now from b = Err (if zlen (ztake MAX_PACKET_SIZE b) <? 8 then EPacket else EMissingAddr)
  end.
Proof.
  intros c now from b Hb Hf. pose proof (recv6_outcomes c now from b Hb Hf) as H.
  destruct from; [apply ep_cases; exact H|exact H].
Qed.

(* Network::recv_probe, every protocol, every state of the TCP probe sockets, every socket result: a value, or one of
   InsufficientPacketBuffer / MissingAddr / an I/O error of the socket - nothing else. *)
Theorem c04_recv_probe_error_values : forall c now found rd, readable_ok rd ->
  match recv_probe c now found rd with
  | Ok _ => True
  | Err e => e = EPacket \/ e = EMissingAddr \/ exists k, e = EIo k
  | Fault _ => False
  end.
Proof. exact recv_probe_outcome. Qed.

(* Oversized: a datagram longer than the 1024-octet receive buffer is handled exactly as its first 1024 octets. *)
Theorem c04_oversized_datagram : forall c now from b,
  recv4 c now b = recv4 c now (ztake MAX_PACKET_SIZE b) /\
  recv6 c now from b = recv6 c now from (ztake MAX_PACKET_SIZE b).
Proof. intros. split; [apply recv4_oversized|apply recv6_oversized]. Qed.

(* Truncated: fewer than 20 octets on the IPv4 socket, fewer than 8 on the ICMPv6 socket: the error value. *)
Theorem c04_truncated_datagram : forall c now from b,
  (zlen b < 20 -> recv4 c now b = Err EPacket) /\ (zlen b < 8 -> recv6 c now from b = Err EPacket).
Proof. intros. split; [apply recv4_truncated|apply recv6_truncated]. Qed.

(* Hostile nested headers: for EVERY quoted datagram of at least the minimum header size - any IHL, any protocol
   number, any UDP / payload length fields, any truncation behind the header - and every configuration, extracting
   the probe it quotes gives a value or InsufficientPacketBuffer. *)
Theorem c04_nested_header_total : forall c n,
  (20 <= zlen n -> (exists r, extract_probe_proto_resp4 c n = Ok r) \/ extract_probe_proto_resp4 c n = Err EPacket) /\
  (bytes n -> 40 <= zlen n ->
   (exists r, extract_probe_proto_resp6 c n = Ok r) \/ extract_probe_proto_resp6 c n = Err EPacket).
Proof.
  intros c n. split.
  - intro H. apply ep_cases. apply ep_extract_probe_proto_resp4. exact H.
  - intros Hb H. apply ep_cases. apply ep_extract_probe_proto_resp6; assumption.
Qed.

Example c04_outcomes_example :
  let c := {| rc_src := [10;0;0;1]; rc_dest := [10;0;0;2]; rc_proto := Udp; rc_privileged := true; rc_ext := true; rc_pattern := 0 |} in
  (* 19 octets *)
  recv4 c 0 (repeat 69 19) = Err EPacket /\
  (* an ICMP type the tracer does not handle *)
  recv4 c 0 ([69;0;0;28; 0;0;0;0; 64;1;0;0; 10;0;0;9; 10;0;0;1] ++ [8;0;0;0; 0;0;0;0]) = Ok None /\
  (* Time Exceeded quoting 19 octets: the nested view is refused *)
  recv4 c 0 ([69;0;0;47; 0;0;0;0; 64;1;0;0; 10;0;0;9; 10;0;0;1] ++ [11;0;0;0; 0;0;0;0] ++ repeat 69 19) = Err EPacket /\
  (* Time Exceeded quoting a UDP datagram whose length field says 3 *)
  (exists r, recv4 c 0 ([69;0;0;56; 0;0;0;0; 64;1;0;0; 10;0;0;9; 10;0;0;1] ++ [11;0;0;0; 0;0;0;0] ++
                        [69;0;0;31; 0;7;0;0; 1;17;0;0; 10;0;0;1; 10;0;0;2] ++ [128;0; 130;155; 0;3; 0;0]) = Ok (Some r)) /\
  recv6 c 0 None (repeat 0 8) = Err EMissingAddr /\ recv6 c 0 None (repeat 0 7) = Err EPacket.
Proof. vm_compute. repeat split; try reflexivity. eexists; reflexivity. Qed.

(* ---- where the pieces lie ---- *)

(* extension_splitter::split as the receive path calls it: for EVERY length value (zero, negative, not a multiple of
   the word, beyond the payload) and EVERY payload it returns a value; the datagram part is a prefix of the payload,
   the extension part (if any) is the suffix from some octet c >= 128 on, at or after the end of the datagram part,
   with at least the 4-octet header inside the payload. *)
Theorem c04_split_total_and_inside : forall len p, exists n e,
  split len p = Ok (ztake n p, e) /\ 0 <= n <= zlen p /\
  match e with
  | None => True
  | Some x => exists c, n <= c /\ 128 <= c /\ c + 4 <= zlen p /\ x = skipn (Z.to_nat c) p
  end.
Proof. exact split_within_net. Qed.

(* The extension object iterator of the receive path: for EVERY buffer and start offset (fuel = one more than the
   octets left) it returns; every object it yields starts inside the buffer with at least a header, its length
   field is between 4 and what is left (so payload() and the conversion stay inside), and 4 * count <= octets left. *)
Theorem c04_objects_bounded_inside : forall b f off, 0 <= off -> Z.max 0 (zlen b - off) < Z.of_nat f ->
  exists obs, objects f b off = Ok obs /\ Forall obj_bounded obs /\
              4 * zlen obs <= Z.max 0 (zlen b - off) /\ Forall (inside_from b off) obs.
Proof. exact objects_spec_full. Qed.

(* the label stack iterator of the receive path: returns, at most (octets left) / 4 entries, each decoded to the six
   values label(3) / exp / bos / ttl *)
Theorem c04_label_entries_bounded : forall b f off bos, 0 <= off -> Z.max 0 (zlen b - off) < Z.of_nat f ->
  exists ms, mpls_members f b off bos = Ok ms /\ 4 * zlen ms <= Z.max 0 (zlen b - off) /\
             Forall (fun m => length m = 6%nat) ms.
Proof. exact mpls_members_full. Qed.

(* ---- every accessor of the receive path is inside the buffer given the new_view size check before it ---- *)

(* Ipv4Packet (outer header and quoted header alike; every IHL 0..15) *)
Theorem c04_ipv4_view_in_bounds : forall b, 20 <= zlen b ->
  okv (ipv4_get_header_length b) /\ okv (ipv4_options_length b) /\ okv (Recv4.ipv4_payload b) /\ okv (ipv4_get_tos b) /\
  okv (ipv4_get_protocol b) /\ okv (ipv4_get_identification b) /\ okv (ipv4_get_source b) /\ okv (ipv4_get_destination b).
Proof. exact ipv4_view_accessors_ok. Qed.

(* IcmpPacket / TimeExceededPacket / DestinationUnreachablePacket / EchoReplyPacket of both families: type, code,
   identifier, sequence, payload_raw(), payload(), extension() for every value of the length octet *)
Theorem c04_icmp_view_in_bounds : forall pk, 8 <= zlen pk ->
  okv (read 0 pk) /\ okv (read 1 pk) /\ okv (get_u16 4 pk) /\ okv (get_u16 6 pk) /\
  okv (err_payload_raw pk) /\ okv (err_payload_raw6 pk) /\
  okv (err_payload4 pk) /\ okv (err_extension4 pk) /\ okv (err_payload6 pk) /\ okv (err_extension6 pk).
Proof. exact icmp_view_accessors_ok. Qed.

(* Ipv6Packet (the quoted header): every payload length field *)
Theorem c04_ipv6_view_in_bounds : forall b, bytes b -> 40 <= zlen b ->
  okv (ipv6_get_payload_length b) /\ okv (ipv6_get_next_header b) /\ okv (ipv6_get_traffic_class b) /\
  okv (ipv6_get_destination_address b) /\ okv (ipv6_payload b).
Proof. exact ipv6_view_accessors_ok. Qed.

(* UdpPacket / EchoRequestPacket (8 octets), and the first 8 octets of TcpPacket: ports, length, checksum, payload() *)
Theorem c04_transport_view_in_bounds : forall u, 8 <= zlen u ->
  okv (get_u16 0 u) /\ okv (get_u16 2 u) /\ okv (get_u16 4 u) /\ okv (get_u16 6 u) /\ okv (zslice_from 8 u).
Proof. exact transport_view_accessors_ok. Qed.

(* ExtensionsPacket / ExtensionHeaderPacket (4 octets): header(), the version nibble, objects(); and
   ExtensionObjectPacket on every object the iterator yields: length, class, subtype, payload(), and its conversion
   (a value or InsufficientPacketBuffer - the latter for an MPLS object without room for one entry) *)
Theorem c04_extension_views_in_bounds : forall v,
  (4 <= zlen v ->
   okv (zslice 0 4 v) /\ okv (read 0 v) /\ exists obs, objects (S (length v)) v 4 = Ok obs /\ Forall obj_bounded obs) /\
  (obj_bounded v ->
   okv (get_u16 0 v) /\ okv (read 2 v) /\ okv (read 3 v) /\ okv (zslice 4 (nth 0 v 0 * 256 + nth 1 v 0) v) /\
   ((exists e, object_enc v = Ok e) \/ object_enc v = Err EPacket)).
Proof.
  intro v. split.
  - apply extension_view_accessors_ok.
  - intro H. destruct (object_view_accessors_ok v H) as (H1 & H2 & H3 & H4 & H5).
    repeat split; try assumption. apply ep_cases. exact H5.
Qed.

(* The size check is what protects the accessors: below the minimum size some accessor of every packet view faults
   (the Rust code would panic) - except the label stack view, whose only accessor never faults on any buffer. *)
Theorem c04_size_check_is_needed :
  (forall v, v <> VMplsLabelStack ->
     exists r f, In r (view_accessors v []) /\ r = Fault f /\ (length (@nil Z) < view_min v)%nat) /\
  (forall buf r f, In r (view_accessors VMplsLabelStack buf) -> r <> Fault f).
Proof. split; [exact size_check_needed|exact label_stack_view_never_faults]. Qed.

Example c04_in_bounds_example :
  let b := 79 :: repeat 255 19 in
  20 <= zlen b /\ Recv4.ipv4_payload b = Ok [] /\ ipv4_get_source b = Ok [255; 255; 255; 255] /\
  obj_bounded [0; 6; 1; 1; 7; 7] /\ object_enc [0; 6; 1; 1; 7; 7] = Err EPacket /\
  split (-5) (repeat 1 200) = Ok (repeat 1 128, Some (repeat 1 72)).
Proof. vm_compute. repeat split; try reflexivity; discriminate. Qed.

(* ---- the array of pending TCP probe sockets, whole histories ---- *)

(* Start with at most 256 pending sockets and let ANY sequence of events happen - a probe dispatched (push), the
   kernel changing what is known about any socket, recv_probe polling the array with any clock value and timeout:
   the array never exceeds its 256 entries and every operation returns a value or one of InsufficientCapacity /
   MissingAddr / an I/O error - never a fault (ArrayVec::push does not panic, no index is out of range). *)
Theorem c04_tcp_socket_array_history : forall ops l, (length l <= TcpSockets.MAX_TCP_PROBES)%nat ->
  (length (fst (tcp_run l ops)) <= TcpSockets.MAX_TCP_PROBES)%nat /\ Forall tcp_result_ok (snd (tcp_run l ops)).
Proof. exact tcp_run_inv. Qed.

(* a full array refuses the next probe with the error value and is left as it was *)
Theorem c04_tcp_dispatch_when_full : forall l e, length l = TcpSockets.MAX_TCP_PROBES ->
  tcp_step l (OpDispatch e) = (l, Err EInsufficientCapacity).
Proof. exact tcp_dispatch_full. Qed.

Example c04_tcp_history_example :
  let c := {| rc_src := [10;0;0;1]; rc_dest := [10;0;0;2]; rc_proto := Tcp; rc_privileged := true; rc_ext := false; rc_pattern := 0 |} in
  let e := {| TcpSockets.te_state := TcpSockets.SockPending; TcpSockets.te_sp := 33000; TcpSockets.te_dp := 80; TcpSockets.te_start := 0 |} in
  let refused x := {| TcpSockets.te_state := TcpSockets.SockReady TcpConnRefused; TcpSockets.te_sp := TcpSockets.te_sp x;
                      TcpSockets.te_dp := TcpSockets.te_dp x; TcpSockets.te_start := TcpSockets.te_start x |} in
  (* 257 dispatches: the last is refused; then the sockets settle and one poll takes one entry out *)
  let '(l, rs) := tcp_run [] (repeat (OpDispatch e) 257 ++ [OpSettle refused; OpPoll c 5 1000]) in
  length l = 255%nat /\ nth 256 rs (Ok None) = Err EInsufficientCapacity /\
  nth 258 rs (Ok None) = Ok (Some (RTcpRefused {| r_recv := 5; r_addr := [10;0;0;2]; r_proto := PTcp [10;0;0;2] 33000 80 None |})).
Proof. vm_compute. repeat split; reflexivity. Qed.
