(* C04, packet half (provisional file of the C14 contributor; the integrator merges the receive-path theorems). *)
From TV Require Import Base.Result Packet.ByteOps Packet.IcmpExt Packet.Views Proofs.IcmpExtProofs Proofs.ViewsProofs.

(* For every packet view and every non-mutating accessor: on EVERY buffer of at least the view's minimum size the
   accessor returns a value - it does not fault (no panic, no overflow, no out-of-bounds, no exhausted fuel). *)
Theorem c04_accessors_total : forall v buf r f,
  (view_min v <= length buf)%nat -> In r (view_accessors v buf) -> r <> Fault f.
Proof. exact view_accessors_no_fault. Qed.

(* Including construction: for ANY buffer new_view refuses it (an error value) or every accessor returns a value. *)
Theorem c04_views_total : forall v buf,
  view_all v buf = Err EPacket \/ exists accs, view_all v buf = Ok accs /\ Forall is_total accs.
Proof. exact view_all_no_fault. Qed.

(* The extension decoding reached from the receive path never faults, for any byte string. *)
Theorem c04_extensions_total : forall pm kind fam buf,
  is_fault (nested_and_extensions pm kind fam buf) = false /\ is_fault (extensions_try_from buf) = false.
Proof. intros. split; [apply nested_and_extensions_nofault|apply extensions_try_from_nofault]. Qed.

(* non-vacuity + the pinned behaviour for the record: IHL = 15 over a 20-octet buffer *)
Example c04_ipv4_ihl15 :
  let buf := 79 :: repeat 0 19 in
  (view_min VIpv4 <= length buf)%nat /\ ipv4_payload buf = Ok [] /\ pinned_ipv4_payload buf = Fault OutOfBounds.
Proof. vm_compute. repeat split; reflexivity. Qed.
