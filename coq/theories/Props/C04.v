(* C04: packet-view half, then the receive-path half (Net/Recv*.v). *)
From TV Require Import Base.Result Packet.ByteOps Packet.IcmpExt Packet.Views Proofs.IcmpExtProofs Proofs.ViewsProofs.

(* For every packet view and every non-mutating accessor: on EVERY buffer of at least the view's minimum size the
   accessor returns a value - it does not fault (no panic, no overflow, no out-of-bounds, no exhausted fuel). *)
Theorem c04_accessors_total : forall v buf r f,
  (view_min v <= length buf)%nat -> In r (view_accessors v buf) -> r <> Fault f.
Proof. exact view_accessors_no_fault. Qed.

(* Including construction: for ANY buffer new_view refuses it (an error value) or every accessor returns a value. *)
Theorem c04_views_total : forall v buf,
  view_all v buf = Err EPacket \/ exists accs, view_all v buf = Ok accs /\ Forall is_total accs.
Proof. exact view_all_no_fault. Qed.

(* The extension decoding reached from the receive path never faults, for any byte string. *)
Theorem c04_extensions_total : forall pm kind fam buf,
  is_fault (nested_and_extensions pm kind fam buf) = false /\ is_fault (extensions_try_from buf) = false.
Proof. intros. split; [apply nested_and_extensions_nofault|apply extensions_try_from_nofault]. Qed.

(* non-vacuity + the pinned behaviour for the record: IHL = 15 over a 20-octet buffer *)
Example c04_ipv4_ihl15 :
  let buf := 79 :: repeat 0 19 in
  (view_min VIpv4 <= length buf)%nat /\ ipv4_payload buf = Ok [] /\ pinned_ipv4_payload buf = Fault OutOfBounds.
Proof. vm_compute. repeat split; reflexivity. Qed.

(* ---------------------------------------------------------------- receive half (net/ipv4.rs, net/ipv6.rs, net/channel.rs, net/extension.rs) *)
From TV Require Import Base.Result Base.Bytes Core.Types Core.TracerState Core.Strategy.
From TV Require Import Net.RecvCommon Net.Recv4 Net.Recv6 Net.Recv Proofs.RecvProofs.

(* whatever arrives on the IPv4 raw socket, in every configuration: a response, nothing, or an error value *)
Theorem c04_recv4_total : forall c now bytes f, recv4 c now bytes <> Fault f.
Proof. exact recv4_total. Qed.
(* the same for the ICMPv6 socket (the sender address recv_from reports is absent or an IPv6 address) *)
Theorem c04_recv6_total : forall c now from b, bytes b -> from_v6 from -> forall f, recv6 c now from b <> Fault f.
Proof. exact recv6_total. Qed.
(* Network::recv_probe of the channel: every protocol, every outcome of the TCP probe sockets, every socket result *)
Theorem c04_recv_probe_total : forall c now found rd, readable_ok rd -> forall f, recv_probe c now found rd <> Fault f.
Proof. exact recv_probe_total. Qed.
(* the strategy step that consumes the response does not fault either *)
Theorem c04_strategy_resp_total : forall sc r f, strategy_resp sc r <> Fault f.
Proof. exact strategy_resp_total. Qed.
(* no looping: the iterators over extension objects and MPLS label stack entries never exhaust their fuel *)
Theorem c04_extension_iterators_terminate : forall v st off bos, 0 <= off ->
  objects (S (length v)) v off <> Fault OutOfFuel /\ mpls_members (S (length st)) st off bos <> Fault OutOfFuel.
Proof. intros v st off bos H. split; [apply objects_fuel_suffices | apply mpls_members_fuel_suffices]; exact H. Qed.

Example c04_example_nested_ihl15 :
  recv4 {| rc_src := [10;0;0;1]; rc_dest := [10;0;0;2]; rc_proto := Icmp; rc_privileged := true; rc_ext := false; rc_pattern := 0 |} 0
        ([69;0;0;56;0;0;64;0;250;1;0;0;10;0;0;9;10;0;0;1] ++ [11;0;0;0;0;0;0;0] ++
         [79;0;0;84;0;0;64;0;1;1;0;0;10;0;0;1;10;0;0;2] ++ [8;0;0;0;18;52;130;155]) = Err EPacket.
Proof. vm_compute. reflexivity. Qed.

(* the array of pending TCP probe sockets: polling it never faults and never grows it *)
From TV Require Net.TcpSockets Proofs.TcpSocketsProofs.
Theorem c04_tcp_socket_array_total : forall c now timeout l f,
  snd (TcpSockets.recv_tcp_sockets_list c now timeout l) <> Fault f /\
  (length (fst (TcpSockets.recv_tcp_sockets_list c now timeout l)) <= length l)%nat.
Proof.
  intros c now timeout l f. split;
    [apply TcpSocketsProofs.recv_tcp_sockets_list_no_fault|apply TcpSocketsProofs.recv_tcp_sockets_list_length].
Qed.
