(* C05 - Per-hop statistics equal an independent re-aggregation of the rounds.
   Model: TV.Core.State.{hop_complete, hop_unanswered, hop_set_nat, update_for_probe} (state.rs), the f64
   fields as exact rationals.  [hop_reach ms h rtts]: h is reachable from the default hop by any sequence of
   the aggregator's updates, rtts = the round-trip times (ns) of its completed probes, oldest first.
   IEEE-754 rounding is outside the theorems (DESIGN 3.4). *)
From Coq Require Import QArith.
From TV Require Import Base.Result Core.Types Core.Flows Core.State Proofs.HopProofs Proofs.HopHistory.
Open Scope Z_scope.

(* every update update_for_probe performs on the hop of a probe keeps it inside hop_reach *)
Theorem c05_updates_are_hop_updates : forall all u st u' i, update_for_probe all u st = Ok u' ->
  status_ttl st = Some (Z.of_nat i + 1) ->
  forall h rtts, nth_error (fs_hops (u_fs u)) i = Some h -> hop_reach (fs_max_samples (u_fs u)) h rtts ->
  exists h' rtts', nth_error (fs_hops (u_fs u')) i = Some h' /\ hop_reach (fs_max_samples (u_fs u')) h' rtts'.
Proof. exact update_for_probe_forms. Qed.

(* counts and extrema equal the direct recomputation; conservation laws *)
Theorem c05_laws : forall ms h rtts, hop_reach ms h rtts ->
  h_recv h = Z.of_nat (length rtts) /\ h_total_time h = zsum rtts /\
  omin (h_best h) rtts /\ omax (h_worst h) rtts /\
  h_last h = match rtts with [] => None | _ => Some (last rtts 0) end /\
  h_recv h + h_failed h <= h_sent h /\ asum (h_addrs h) = h_recv h /\
  h_fwd_lost h + h_bwd_lost h <= h_sent h - h_recv h - h_failed h /\
  (0 <= ms -> Z.of_nat (length (h_samples h)) <= ms) /\
  0 <= h_sent h - h_recv h <= h_sent h /\
  (0 < h_recv h -> exists b w, h_best h = Some b /\ h_worst h = Some w /\
     b * h_recv h <= h_total_time h <= w * h_recv h).
Proof.
  intros ms h rtts H. destruct (hop_reach_inv ms h rtts H) as [L _].
  destruct (laws_consequences ms h rtts L) as (A & B & C & D & E & F). destruct L.
  repeat split; try assumption; lia.
Qed.

(* running mean = arithmetic mean; Welford accumulator = sum of squared deviations (n * m2 = n * S2 - S1^2);
   average jitter = mean of |rtt_i - rtt_(i-1)| with rtt_0 = 0 - all over exact rationals, in milliseconds *)
Theorem c05_statistics : forall ms h rtts, hop_reach ms h rtts ->
  (h_mean h * inject_Z (h_recv h) == qsum (map msq rtts))%Q /\
  (h_m2 h * inject_Z (h_recv h) ==
     qsum (map (fun x => msq x * msq x) rtts) * inject_Z (h_recv h) - qsum (map msq rtts) * qsum (map msq rtts))%Q /\
  (h_javg h * inject_Z (h_recv h) == qsum (map msq (jitters 0 rtts)))%Q.
Proof.
  intros ms h rtts H. destruct (hop_reach_inv ms h rtts H) as [_ S]. destruct S. repeat split; assumption.
Qed.

(* Refinement to a recomputation.  A hop's history is the list of updates the aggregator applied to it:
   HC c (a completed probe), HU p failed fwd bwd (an awaited / failed probe with its loss attribution),
   HN n (NAT status).  Every reachable hop is hop_run of such a list (c05_reachable_is_run), and hop_run equals,
   field by field, what a direct recomputation from the list yields: counts by filtering, the bounded newest-first
   sample history as firstn max_samples of the reversed durations (0 for an unanswered probe), jitter = the last of
   the successive |rtt_i - rtt_(i-1)| once there are two samples, jmax = their maximum (first sample against 0),
   the interarrival jitter as the RFC 3550-style fold, last-probe details from the last probe event, ICMP type /
   TOS / extensions from the last completed probe, NAT status from the last HN, and per-address counts equal to
   the number of completed probes answered from that address (keys unique). *)
Theorem c05_reachable_is_run : forall ms h rtts, hop_reach ms h rtts -> exists es, h = hop_run ms es /\ ev_rtts es = rtts.
Proof. exact hop_reach_events. Qed.

Theorem c05_recomputation : forall ms es, let h := hop_run ms es in
  h_sent h = count is_probe es /\ h_failed h = count is_failed es /\
  h_fwd_lost h = count is_fwd es /\ h_bwd_lost h = count is_bwd es /\
  h_recv h = Z.of_nat (length (ev_rtts es)) /\
  (0 <= ms -> h_samples h = firstn (Z.to_nat ms) (rev (ev_durs es))) /\
  h_last h = match ev_rtts es with [] => None | _ => Some (last (ev_rtts es) 0) end /\
  h_jitter h = match ev_rtts es with [] | [_] => None | _ => Some (last (jitters 0 (ev_rtts es)) 0) end /\
  omax (h_jmax h) (jitters 0 (ev_rtts es)) /\
  (h_jinta h == fold_left jinta_step (jitters 0 (ev_rtts es)) 0)%Q /\
  match last_probe es with
  | Some p => h_ttl h = p_ttl p /\ h_last_src_port h = p_src_port p /\
              h_last_dest_port h = p_dest_port p /\ h_last_sequence h = p_sequence p
  | None => h_ttl h = 0 /\ h_last_src_port h = 0 /\ h_last_dest_port h = 0 /\ h_last_sequence h = 0
  end /\
  match last_complete es with
  | Some c => h_last_icmp h = Some (c_icmp c) /\ h_tos h = c_tos c /\ h_exts h = c_exts c
  | None => h_last_icmp h = None /\ h_tos h = None /\ h_exts h = None
  end /\
  h_last_nat h = last_nat es /\
  (forall a, acount (h_addrs h) a = Z.of_nat (length (filter (addr_eqb a) (ev_hosts es)))) /\
  NoDup (map fst (h_addrs h)).
Proof.
  intros ms es h. destruct (hop_run_is_recomputation ms es) as [A B C D E F G H I J K L M N O P].
  repeat (split; [assumption|]). assumption.
Qed.

(* the derived figures (Hop::loss_pct / forward_loss_pct / backward_loss_pct, avg_ms, stddev_ms squared):
   percentages lie in 0..100, best <= average <= worst, and the variance is the sample variance
   (n (n-1) var = n * S2 - S1^2) of the completed round-trip times *)
Theorem c05_derived : forall ms h rtts, hop_reach ms h rtts ->
  (0 <= hop_loss_pct h /\ hop_loss_pct h <= 100)%Q /\
  (0 <= hop_fwd_loss_pct h /\ hop_fwd_loss_pct h <= 100)%Q /\
  (0 <= hop_bwd_loss_pct h /\ hop_bwd_loss_pct h <= 100)%Q /\
  (forall b w, 0 < h_recv h -> h_best h = Some b -> h_worst h = Some w ->
     (msq b <= hop_avg_ms h /\ hop_avg_ms h <= msq w)%Q) /\
  (1 < h_recv h ->
     (hop_variance h * inject_Z (h_recv h) * inject_Z (h_recv h - 1) ==
      qsum (map (fun x => msq x * msq x) rtts) * inject_Z (h_recv h) - qsum (map msq rtts) * qsum (map msq rtts))%Q).
Proof.
  intros ms h rtts H. destruct (hop_reach_inv ms h rtts H) as [L S].
  pose proof L as [Lr Lf Ls _ Lfw Lbw Lloss _ _ _ _ _ _].
  assert (Hr : 0 <= h_recv h) by lia.
  split; [apply pct_of_range; lia|].
  split; [apply pct_of_range; lia|].
  split; [apply pct_of_range; lia|].
  split; [intros b w Hn Hb Hw; exact (avg_between ms h rtts b w L Hn Hb Hw)|].
  intros Hn. exact (variance_spec h rtts S Hn).
Qed.

(* non-vacuity of the recomputation: one completed, one lost, one completed probe at one hop *)
Example c05_recomputation_example :
  let pr s := {| p_sequence := s; p_identifier := 0; p_src_port := 0; p_dest_port := 0; p_ttl := 1; p_round := 0; p_sent := 0; p_flags := 0 |} in
  let c s r := {| c_probe := pr s; c_host := [1;1;1;1]; c_received := r; c_icmp := INotApplicable; c_tos := None; c_expected := None; c_actual := None; c_exts := None |} in
  let h := hop_run 2 [HC (c 1 10000000); HU (pr 2) false true false; HC (c 3 12000000)] in
  h_samples h = [12000000; 0] /\ h_jitter h = Some 2000000 /\ h_jmax h = Some 10000000 /\ h_sent h = 3 /\ h_fwd_lost h = 1.
Proof. vm_compute. repeat split; reflexivity. Qed.

Example c05_example :
  let c r := {| c_probe := {| p_sequence := 1; p_identifier := 0; p_src_port := 0; p_dest_port := 0; p_ttl := 1; p_round := 0; p_sent := 0; p_flags := 0 |};
                c_host := [1;1;1;1]; c_received := r; c_icmp := INotApplicable; c_tos := None; c_expected := None; c_actual := None; c_exts := None |} in
  let h := hop_complete 10 (c 5000000) (hop_complete 10 (c 3000000) (hop_complete 10 (c 1000000) hop_default)) in
  (h_mean h == 3)%Q /\ (h_m2 h / 2 == 4)%Q.   (* variance 4 ms^2: standard deviation 2 ms for samples 1, 3, 5 ms *)
Proof. split; vm_compute; reflexivity. Qed.

(* ======================================================================================================================
   The forward / backward loss classification of a round, and the link from published rounds to the recomputation.
   Specification vocabulary (Proofs/RoundFold.v), all read off the round, no reference to the updater's state:
     fwd_lost_at ps t        the round splits as pre ++ st :: post, nothing in pre is a probe farther than t, st is a
                             probe farther than t, and st and everything after it is Awaited or Skipped;
     lost_before ps k        some Awaited probe standing before position k is at a forward-lost distance;
     events_at ps t k        the hop updates (HopHistory.hev) the status at position k causes at hop t;
     round_events ps t       all of them in round order; rounds_events rs t: over a list of rounds;
     round_events uses nat_spec None over the round's responding probes for the NAT status events (see C19). *)
From TV Require Import Proofs.StateProofs Proofs.FlowAttr Proofs.RoundFold.

(* is_forward_loss (skip_while + all) means exactly this *)
Theorem c05_forward_loss_meaning : forall ps t, is_forward_loss ps t = true <->
  exists pre st post, ps = pre ++ st :: post /\
    Forall (fun s => forall x, status_ttl s = Some x -> x <= t) pre /\
    (exists x, status_ttl st = Some x /\ t < x) /\
    Forall (fun s => s = Skipped \/ exists p, s = Awaited p) (st :: post).
Proof. exact is_forward_loss_meaning. Qed.

(* StateUpdater::apply on one round: every hop afterwards is the hop before, updated by exactly the events the round
   holds for its distance (the sticky flag and the carried checksum are gone from the statement) *)
Theorem c05_round_is_its_events : forall f r f', fs_apply f r = Ok f' ->
  fs_max_samples f' = fs_max_samples f /\
  forall i, nth_error (fs_hops f') i =
    option_map (fun h => hop_run_from (fs_max_samples f) h (round_events (rr_probes r) (Z.of_nat i + 1)))
               (nth_error (fs_hops f) i).
Proof. exact fs_apply_events. Qed.

(* which awaited probe of a round is counted as forward loss, which as backward loss: the first awaited probe (in round
   order) at a forward-lost distance is the forward loss, every awaited probe after it a backward loss, the others neither *)
Theorem c05_awaited_classification : forall ps k p, nth_error ps k = Some (Awaited p) ->
  exists fwd bwd, events_at ps (p_ttl p) k = [HU p false fwd bwd] /\
    (fwd = true <-> fwd_lost_at ps (p_ttl p) /\ ~ lost_before ps k) /\
    (bwd = true <-> lost_before ps k).
Proof. exact awaited_classification. Qed.

(* at most one forward loss per round, and it is not also a backward loss *)
Theorem c05_forward_loss_unique : forall ps j q bj k p bk,
  nth_error ps j = Some (Awaited q) -> nth_error ps k = Some (Awaited p) ->
  events_at ps (p_ttl q) j = [HU q false true bj] -> events_at ps (p_ttl p) k = [HU p false true bk] ->
  j = k /\ bj = false.
Proof. exact forward_loss_unique. Qed.

(* the same on the counters of the real loop: over all hops a round adds exactly one forward loss when it holds an
   awaited probe at a forward-lost distance, and none otherwise *)
Theorem c05_one_forward_loss_per_round : forall f r f', length (fs_hops f) = MAX_TTL_N -> fs_apply f r = Ok f' ->
  length (fs_hops f') = MAX_TTL_N /\
  zsum (map h_fwd_lost (fs_hops f')) = zsum (map h_fwd_lost (fs_hops f)) +
    (if existsb (awaited_fwd (rr_probes r)) (rr_probes r) then 1 else 0) /\
  (existsb (awaited_fwd (rr_probes r)) (rr_probes r) = true <->
   exists k p, nth_error (rr_probes r) k = Some (Awaited p) /\ fwd_lost_at (rr_probes r) (p_ttl p)).
Proof.
  intros f r f' Hl H. destruct (fs_apply_fwd_total f r f' Hl H) as [L T].
  split; [exact L|]. split; [exact T|apply existsb_awaited_fwd_iff].
Qed.

(* failed probes are never counted as loss: in the specification ... *)
Theorem c05_failed_is_not_loss : forall ps k p, nth_error ps k = Some (Failed p) ->
  events_at ps (p_ttl p) k = [HU p true false false].
Proof. exact failed_events. Qed.

(* ... and in the code: a Failed step leaves every loss counter and the sticky flag alone *)
Theorem c05_failed_step_not_loss : forall all u p u', update_for_probe all u (Failed p) = Ok u' ->
  u_fwd_loss u' = u_fwd_loss u /\
  forall i h, nth_error (fs_hops (u_fs u)) i = Some h ->
    exists h', nth_error (fs_hops (u_fs u')) i = Some h' /\
      h_fwd_lost h' = h_fwd_lost h /\ h_bwd_lost h' = h_bwd_lost h /\
      h_failed h' = (if p_ttl p =? Z.of_nat i + 1 then h_failed h + 1 else h_failed h).
Proof. exact failed_step_not_loss. Qed.

(* rounds in ascending distance order without NotSent entries (what the strategy publishes): forward loss at an awaited
   probe = everything after it is still unanswered and at least one more probe was sent beyond it *)
Theorem c05_forward_loss_ascending : forall pre p post, ascending (pre ++ Awaited p :: post) -> ~ In NotSent post ->
  (fwd_lost_at (pre ++ Awaited p :: post) (p_ttl p) <-> Forall unanswered post /\ exists q, In (Awaited q) post).
Proof. exact fwd_lost_ascending. Qed.

(* the whole picture for such a round body ++ tail, tail = its trailing run of unanswered probes: awaited probes inside
   body count as neither; the first awaited probe of tail is a forward loss exactly when another awaited probe follows;
   every awaited probe after it is a backward loss *)
Theorem c05_ascending_round_classification : forall body tail,
  ascending (body ++ tail) -> ~ In NotSent (body ++ tail) ->
  Forall unanswered tail -> (forall b s, body = b ++ [s] -> ~ unanswered s) ->
  (forall k p, nth_error body k = Some (Awaited p) ->
     events_at (body ++ tail) (p_ttl p) k = [HU p false false false]) /\
  (forall sk p rest, tail = sk ++ Awaited p :: rest -> existsb is_awaited sk = false ->
     events_at (body ++ tail) (p_ttl p) (length body + length sk) = [HU p false (existsb is_awaited rest) false] /\
     (forall j q, nth_error rest j = Some (Awaited q) ->
        events_at (body ++ tail) (p_ttl q) (length body + length sk + 1 + j) = [HU q false false true])).
Proof. exact ascending_round_classification. Qed.

(* after ANY sequence of published rounds applied to a fresh flow state, hop i+1 is hop_run of the events those rounds
   hold for it - so c05_recomputation, c05_laws, c05_statistics and c05_derived speak about the aggregator's hops *)
Theorem c05_rounds_recomputation : forall ms rs f', fs_run (flow_state_new ms) rs = Ok f' ->
  fs_max_samples f' = ms /\
  forall i, (i < MAX_TTL_N)%nat -> nth_error (fs_hops f') i = Some (hop_run ms (rounds_events rs (Z.of_nat i + 1))).
Proof. exact fs_run_new_is_hop_run. Qed.

(* ... and the same through State::update_from_round for every flow: the default flow 0 aggregates all rounds, a
   registered flow the rounds attributed to it (FlowAttr.flow_rounds) *)
Theorem c05_state_recomputation : forall ms mf rs s' id, st_run (state_new ms mf) rs = Ok s' ->
  fs_max_samples (flow_or_new s' id) = ms /\
  forall i, (i < MAX_TTL_N)%nat ->
    nth_error (fs_hops (flow_or_new s' id)) i =
    Some (hop_run ms (rounds_events (flow_rounds id (state_new ms mf) rs) (Z.of_nat i + 1))).
Proof. exact st_run_hops. Qed.

(* non-vacuity: target silent, hops 3..5 awaited after two answers - hop 3 forward loss, hops 4 and 5 backward loss;
   an answer at hop 6 instead makes none of them a loss; a failed probe is only counted as failed *)
Example c05_round_loss_example :
  let pr t := {| p_sequence := 33000 + t; p_identifier := 0; p_src_port := 0; p_dest_port := 0; p_ttl := t; p_round := 0; p_sent := 0; p_flags := 0 |} in
  let c t := Complete {| c_probe := pr t; c_host := [10;0;0;t]; c_received := 1000; c_icmp := ITimeExceeded 0; c_tos := None; c_expected := None; c_actual := None; c_exts := None |} in
  let rd ps := {| rr_probes := ps; rr_largest_ttl := 6; rr_reason := RoundTimeLimitExceeded |} in
  let loss f := match f with Ok f => map (fun h => (h_fwd_lost h, h_bwd_lost h, h_failed h)) (firstn 6 (fs_hops f)) | _ => [] end in
  let silent := [c 1; c 2; Awaited (pr 3); Awaited (pr 4); Awaited (pr 5)] in
  let answered := [c 1; Failed (pr 2); Awaited (pr 3); Awaited (pr 4); Awaited (pr 5); c 6] in
  loss (fs_apply (flow_state_new 10) (rd silent)) = [(0,0,0); (0,0,0); (1,0,0); (0,1,0); (0,1,0); (0,0,0)] /\
  loss (fs_apply (flow_state_new 10) (rd answered)) = [(0,0,0); (0,0,1); (0,0,0); (0,0,0); (0,0,0); (0,0,0)] /\
  round_events silent 3 = [HU (pr 3) false true false] /\ round_events silent 5 = [HU (pr 5) false false true] /\
  ascending silent /\ ascending answered.
Proof.
  cbv zeta. split; [vm_compute; reflexivity|]. split; [vm_compute; reflexivity|]. split; [vm_compute; reflexivity|].
  split; [vm_compute; reflexivity|]. split; unfold ascending; cbn;
  repeat (apply Sorted.SSorted_cons; [|repeat (apply Forall_cons; [reflexivity|]); apply Forall_nil]); apply Sorted.SSorted_nil.
Qed.

(* The link to the other half: EVERY round the strategy publishes - every builder-accepted configuration, any number of
   iterations, any environment behaviour (clock, send outcomes incl. TCP re-issues, deliveries) - lists its probes in
   strictly ascending distance order and holds no NotSent entry, so c05_forward_loss_ascending and
   c05_ascending_round_classification describe the loss attribution of every round the aggregator is ever given
   (Proofs/PublishAscending.v, over the ghost history of Proofs/RoundHistory.v). *)
From TV Require Core.TracerState Core.Strategy Core.Builder Proofs.StrategyInv Proofs.StrategyProps Proofs.PublishAscending.
Theorem c05_strategy_rounds_ascending : forall c t0 is, StrategyInv.Accept c ->
  Forall (fun r => ascending (rr_probes r) /\ ~ In NotSent (rr_probes r))
         (StrategyProps.pubs (fst (fst (Strategy.run c t0 is)))).
Proof. exact PublishAscending.strategy_rounds_ascending. Qed.
