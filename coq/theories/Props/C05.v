(* C05 - Per-hop statistics equal an independent re-aggregation of the rounds.
   Model: TV.Core.State.{hop_complete, hop_unanswered, hop_set_nat, update_for_probe} (state.rs), the f64
   fields as exact rationals.  [hop_reach ms h rtts]: h is reachable from the default hop by any sequence of
   the aggregator's updates, rtts = the round-trip times (ns) of its completed probes, oldest first.
   IEEE-754 rounding is outside the theorems (DESIGN 3.4). *)
From Coq Require Import QArith.
From TV Require Import Base.Result Core.Types Core.Flows Core.State Proofs.HopProofs.
Open Scope Z_scope.

(* every update update_for_probe performs on the hop of a probe keeps it inside hop_reach *)
Theorem c05_updates_are_hop_updates : forall all u st u' i, update_for_probe all u st = Ok u' ->
  status_ttl st = Some (Z.of_nat i + 1) ->
  forall h rtts, nth_error (fs_hops (u_fs u)) i = Some h -> hop_reach (fs_max_samples (u_fs u)) h rtts ->
  exists h' rtts', nth_error (fs_hops (u_fs u')) i = Some h' /\ hop_reach (fs_max_samples (u_fs u')) h' rtts'.
Proof. exact update_for_probe_forms. Qed.

(* counts and extrema equal the direct recomputation; conservation laws *)
Theorem c05_laws : forall ms h rtts, hop_reach ms h rtts ->
  h_recv h = Z.of_nat (length rtts) /\ h_total_time h = zsum rtts /\
  omin (h_best h) rtts /\ omax (h_worst h) rtts /\
  h_last h = match rtts with [] => None | _ => Some (last rtts 0) end /\
  h_recv h + h_failed h <= h_sent h /\ asum (h_addrs h) = h_recv h /\
  h_fwd_lost h + h_bwd_lost h <= h_sent h - h_recv h - h_failed h /\
  (0 <= ms -> Z.of_nat (length (h_samples h)) <= ms) /\
  0 <= h_sent h - h_recv h <= h_sent h /\
  (0 < h_recv h -> exists b w, h_best h = Some b /\ h_worst h = Some w /\
     b * h_recv h <= h_total_time h <= w * h_recv h).
Proof.
  intros ms h rtts H. destruct (hop_reach_inv ms h rtts H) as [L _].
  destruct (laws_consequences ms h rtts L) as (A & B & C & D & E & F). destruct L.
  repeat split; try assumption; lia.
Qed.

(* running mean = arithmetic mean; Welford accumulator = sum of squared deviations (n * m2 = n * S2 - S1^2);
   average jitter = mean of |rtt_i - rtt_(i-1)| with rtt_0 = 0 - all over exact rationals, in milliseconds *)
Theorem c05_statistics : forall ms h rtts, hop_reach ms h rtts ->
  (h_mean h * inject_Z (h_recv h) == qsum (map msq rtts))%Q /\
  (h_m2 h * inject_Z (h_recv h) ==
     qsum (map (fun x => msq x * msq x) rtts) * inject_Z (h_recv h) - qsum (map msq rtts) * qsum (map msq rtts))%Q /\
  (h_javg h * inject_Z (h_recv h) == qsum (map msq (jitters 0 rtts)))%Q.
Proof.
  intros ms h rtts H. destruct (hop_reach_inv ms h rtts H) as [_ S]. destruct S. repeat split; assumption.
Qed.

Example c05_example :
  let c r := {| c_probe := {| p_sequence := 1; p_identifier := 0; p_src_port := 0; p_dest_port := 0; p_ttl := 1; p_round := 0; p_sent := 0; p_flags := 0 |};
                c_host := [1;1;1;1]; c_received := r; c_icmp := INotApplicable; c_tos := None; c_expected := None; c_actual := None; c_exts := None |} in
  let h := hop_complete 10 (c 5000000) (hop_complete 10 (c 3000000) (hop_complete 10 (c 1000000) hop_default)) in
  (h_mean h == 3)%Q /\ (h_m2 h / 2 == 4)%Q.   (* variance 4 ms^2: standard deviation 2 ms for samples 1, 3, 5 ms *)
Proof. split; vm_compute; reflexivity. Qed.
