(* C05 - Per-hop statistics equal an independent re-aggregation of the rounds.
   Model: TV.Core.State.{hop_complete, hop_unanswered, hop_set_nat, update_for_probe} (state.rs), the f64
   fields as exact rationals.  [hop_reach ms h rtts]: h is reachable from the default hop by any sequence of
   the aggregator's updates, rtts = the round-trip times (ns) of its completed probes, oldest first.
   IEEE-754 rounding is outside the theorems (DESIGN 3.4). *)
From Coq Require Import QArith.
From TV Require Import Base.Result Core.Types Core.Flows Core.State Proofs.HopProofs Proofs.HopHistory.
Open Scope Z_scope.

(* every update update_for_probe performs on the hop of a probe keeps it inside hop_reach *)
Theorem c05_updates_are_hop_updates : forall all u st u' i, update_for_probe all u st = Ok u' ->
  status_ttl st = Some (Z.of_nat i + 1) ->
  forall h rtts, nth_error (fs_hops (u_fs u)) i = Some h -> hop_reach (fs_max_samples (u_fs u)) h rtts ->
  exists h' rtts', nth_error (fs_hops (u_fs u')) i = Some h' /\ hop_reach (fs_max_samples (u_fs u')) h' rtts'.
Proof. exact update_for_probe_forms. Qed.

(* counts and extrema equal the direct recomputation; conservation laws *)
Theorem c05_laws : forall ms h rtts, hop_reach ms h rtts ->
  h_recv h = Z.of_nat (length rtts) /\ h_total_time h = zsum rtts /\
  omin (h_best h) rtts /\ omax (h_worst h) rtts /\
  h_last h = match rtts with [] => None | _ => Some (last rtts 0) end /\
  h_recv h + h_failed h <= h_sent h /\ asum (h_addrs h) = h_recv h /\
  h_fwd_lost h + h_bwd_lost h <= h_sent h - h_recv h - h_failed h /\
  (0 <= ms -> Z.of_nat (length (h_samples h)) <= ms) /\
  0 <= h_sent h - h_recv h <= h_sent h /\
  (0 < h_recv h -> exists b w, h_best h = Some b /\ h_worst h = Some w /\
     b * h_recv h <= h_total_time h <= w * h_recv h).
Proof.
  intros ms h rtts H. destruct (hop_reach_inv ms h rtts H) as [L _].
  destruct (laws_consequences ms h rtts L) as (A & B & C & D & E & F). destruct L.
  repeat split; try assumption; lia.
Qed.

(* running mean = arithmetic mean; Welford accumulator = sum of squared deviations (n * m2 = n * S2 - S1^2);
   average jitter = mean of |rtt_i - rtt_(i-1)| with rtt_0 = 0 - all over exact rationals, in milliseconds *)
Theorem c05_statistics : forall ms h rtts, hop_reach ms h rtts ->
  (h_mean h * inject_Z (h_recv h) == qsum (map msq rtts))%Q /\
  (h_m2 h * inject_Z (h_recv h) ==
     qsum (map (fun x => msq x * msq x) rtts) * inject_Z (h_recv h) - qsum (map msq rtts) * qsum (map msq rtts))%Q /\
  (h_javg h * inject_Z (h_recv h) == qsum (map msq (jitters 0 rtts)))%Q.
Proof.
  intros ms h rtts H. destruct (hop_reach_inv ms h rtts H) as [_ S]. destruct S. repeat split; assumption.
Qed.

(* Refinement to a recomputation.  A hop's history is the list of updates the aggregator applied to it:
   HC c (a completed probe), HU p failed fwd bwd (an awaited / failed probe with its loss attribution),
   HN n (NAT status).  Every reachable hop is hop_run of such a list (c05_reachable_is_run), and hop_run equals,
   field by field, what a direct recomputation from the list yields: counts by filtering, the bounded newest-first
   sample history as firstn max_samples of the reversed durations (0 for an unanswered probe), jitter = the last of
   the successive |rtt_i - rtt_(i-1)| once there are two samples, jmax = their maximum (first sample against 0),
   the interarrival jitter as the RFC 3550-style fold, last-probe details from the last probe event, ICMP type /
   TOS / extensions from the last completed probe, NAT status from the last HN, and per-address counts equal to
   the number of completed probes answered from that address (keys unique). *)
Theorem c05_reachable_is_run : forall ms h rtts, hop_reach ms h rtts -> exists es, h = hop_run ms es /\ ev_rtts es = rtts.
Proof. exact hop_reach_events. Qed.

Theorem c05_recomputation : forall ms es, let h := hop_run ms es in
  h_sent h = count is_probe es /\ h_failed h = count is_failed es /\
  h_fwd_lost h = count is_fwd es /\ h_bwd_lost h = count is_bwd es /\
  h_recv h = Z.of_nat (length (ev_rtts es)) /\
  (0 <= ms -> h_samples h = firstn (Z.to_nat ms) (rev (ev_durs es))) /\
  h_last h = match ev_rtts es with [] => None | _ => Some (last (ev_rtts es) 0) end /\
  h_jitter h = match ev_rtts es with [] | [_] => None | _ => Some (last (jitters 0 (ev_rtts es)) 0) end /\
  omax (h_jmax h) (jitters 0 (ev_rtts es)) /\
  (h_jinta h == fold_left jinta_step (jitters 0 (ev_rtts es)) 0)%Q /\
  match last_probe es with
  | Some p => h_ttl h = p_ttl p /\ h_last_src_port h = p_src_port p /\
              h_last_dest_port h = p_dest_port p /\ h_last_sequence h = p_sequence p
  | None => h_ttl h = 0 /\ h_last_src_port h = 0 /\ h_last_dest_port h = 0 /\ h_last_sequence h = 0
  end /\
  match last_complete es with
  | Some c => h_last_icmp h = Some (c_icmp c) /\ h_tos h = c_tos c /\ h_exts h = c_exts c
  | None => h_last_icmp h = None /\ h_tos h = None /\ h_exts h = None
  end /\
  h_last_nat h = last_nat es /\
  (forall a, acount (h_addrs h) a = Z.of_nat (length (filter (addr_eqb a) (ev_hosts es)))) /\
  NoDup (map fst (h_addrs h)).
Proof.
  intros ms es h. destruct (hop_run_is_recomputation ms es) as [A B C D E F G H I J K L M N O P].
  repeat (split; [assumption|]). assumption.
Qed.

(* the derived figures (Hop::loss_pct / forward_loss_pct / backward_loss_pct, avg_ms, stddev_ms squared):
   percentages lie in 0..100, best <= average <= worst, and the variance is the sample variance
   (n (n-1) var = n * S2 - S1^2) of the completed round-trip times *)
Theorem c05_derived : forall ms h rtts, hop_reach ms h rtts ->
  (0 <= hop_loss_pct h /\ hop_loss_pct h <= 100)%Q /\
  (0 <= hop_fwd_loss_pct h /\ hop_fwd_loss_pct h <= 100)%Q /\
  (0 <= hop_bwd_loss_pct h /\ hop_bwd_loss_pct h <= 100)%Q /\
  (forall b w, 0 < h_recv h -> h_best h = Some b -> h_worst h = Some w ->
     (msq b <= hop_avg_ms h /\ hop_avg_ms h <= msq w)%Q) /\
  (1 < h_recv h ->
     (hop_variance h * inject_Z (h_recv h) * inject_Z (h_recv h - 1) ==
      qsum (map (fun x => msq x * msq x) rtts) * inject_Z (h_recv h) - qsum (map msq rtts) * qsum (map msq rtts))%Q).
Proof.
  intros ms h rtts H. destruct (hop_reach_inv ms h rtts H) as [L S].
  pose proof L as [Lr Lf Ls _ Lfw Lbw Lloss _ _ _ _ _ _].
  assert (Hr : 0 <= h_recv h) by lia.
  split; [apply pct_of_range; lia|].
  split; [apply pct_of_range; lia|].
  split; [apply pct_of_range; lia|].
  split; [intros b w Hn Hb Hw; exact (avg_between ms h rtts b w L Hn Hb Hw)|].
  intros Hn. exact (variance_spec h rtts S Hn).
Qed.

(* non-vacuity of the recomputation: one completed, one lost, one completed probe at one hop *)
Example c05_recomputation_example :
  let pr s := {| p_sequence := s; p_identifier := 0; p_src_port := 0; p_dest_port := 0; p_ttl := 1; p_round := 0; p_sent := 0; p_flags := 0 |} in
  let c s r := {| c_probe := pr s; c_host := [1;1;1;1]; c_received := r; c_icmp := INotApplicable; c_tos := None; c_expected := None; c_actual := None; c_exts := None |} in
  let h := hop_run 2 [HC (c 1 10000000); HU (pr 2) false true false; HC (c 3 12000000)] in
  h_samples h = [12000000; 0] /\ h_jitter h = Some 2000000 /\ h_jmax h = Some 10000000 /\ h_sent h = 3 /\ h_fwd_lost h = 1.
Proof. vm_compute. repeat split; reflexivity. Qed.

Example c05_example :
  let c r := {| c_probe := {| p_sequence := 1; p_identifier := 0; p_src_port := 0; p_dest_port := 0; p_ttl := 1; p_round := 0; p_sent := 0; p_flags := 0 |};
                c_host := [1;1;1;1]; c_received := r; c_icmp := INotApplicable; c_tos := None; c_expected := None; c_actual := None; c_exts := None |} in
  let h := hop_complete 10 (c 5000000) (hop_complete 10 (c 3000000) (hop_complete 10 (c 1000000) hop_default)) in
  (h_mean h == 3)%Q /\ (h_m2 h / 2 == 4)%Q.   (* variance 4 ms^2: standard deviation 2 ms for samples 1, 3, 5 ms *)
Proof. split; vm_compute; reflexivity. Qed.
