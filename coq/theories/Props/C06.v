(* C06 - Probe scheduling discipline: TTL order, limits and in-flight window.
   Model: TV.Core.Strategy.send_request (with the in-flight window measured from first_ttl - 1 and
   inclusive of max_inflight - the repaired behaviour). *)
From TV Require Import Base.Result Core.Types Core.TracerState Core.Strategy Core.Builder
  Proofs.StrategyInv Proofs.StrategyProps.

(* every iteration that sends: target not yet found in this round, first_ttl <= ttl <= max_ttl,
   ttl <= target distance when known, otherwise at most max_inflight beyond the farthest answering hop
   (or first_ttl - 1); a re-issued (TCP) probe keeps the TTL; ICMP/UDP send exactly one probe *)
Theorem c06_send_discipline : forall c s i s' ev e, Accept c -> reach c s -> step c s i = Ok (s', ev, e) ->
  ev_probes ev <> [] ->
  target_found s = false /\ first_ttl c <= ttl s <= max_ttl c /\
  match target_ttl s with
  | Some t => ttl s <= t
  | None => ttl s - inflight_base c s <= max_inflight c
  end /\
  Forall (fun q => p_ttl q = ttl s /\ p_round q = round s) (ev_probes ev) /\
  (proto c <> Tcp -> length (ev_probes ev) = 1%nat).
Proof. exact c06_send_discipline_lemma. Qed.

(* no gaps, no repeats: the next TTL moves by exactly one with each send and is reset to first_ttl
   exactly when a round is published *)
Theorem c06_ttl_evolution : forall c s i s' ev, Accept c -> reach c s -> step c s i = Ok (s', ev, None) ->
  (exists r, In (EPublish r) ev /\ ttl s' = first_ttl c /\ round s' = round s + 1) \/
  ((forall r, ~ In (EPublish r) ev) /\ round s' = round s /\
   ((ev_probes ev = [] /\ ttl s' = ttl s) \/ (ev_probes ev <> [] /\ ttl s' = ttl s + 1))).
Proof. exact c06_ttl_evolution_lemma. Qed.

(* every round sends at least the first_ttl probe: in a round-start state the send step emits it *)
Theorem c06_liveness : forall c s i, Accept c -> Inv c s -> first_ttl c <= max_ttl c -> 1 <= max_inflight c ->
  ttl s = first_ttl c -> target_found s = false -> max_received_ttl s = None -> sequence s = round_sequence s ->
  exists s1 ev1 e1 p o, send_request c s i = Ok (s1, ev1, e1) /\ ev1 = ESend p o :: tl ev1 /\ p_ttl p = first_ttl c.
Proof. exact c06_liveness_lemma. Qed.

(* a round-start state is what advance_round and TracerState::new produce *)
Theorem c06_round_start_state : forall c s now, Accept c -> Inv c s ->
  exists s', advance_round c s (first_ttl c) now = Ok s' /\ Inv c s' /\
    ttl s' = first_ttl c /\ target_found s' = false /\ max_received_ttl s' = None /\ sequence s' = round_sequence s'.
Proof.
  intros c s now HA HI.
  destruct (advance_round_spec c s now HA HI) as (s' & Ha & HI' & _ & _ & Ht & Hq & Htf & Hmr & _).
  exists s'. split; [assumption|]. split; [assumption|]. repeat split; assumption.
Qed.

(* ------------------------------------------------------------------------------------------------------
   C06 over WHOLE RUNS (Proofs/RunLog.v, Proofs/RunLogProps.v).
   [run_log c t0 is] is the observation log of the run on the input history [is]: every probe handed to the
   network with the outcome of the send, every response delivered, every clock reading of update_round
   (OUpdate: round stays open; OPublish: round published, with the reading of advance_round).
   [ghost_after c t0 l] is a fold over a log prefix that never looks at the tracer state: the number and the
   send log [g_S] of the round in progress, its genuine answers [g_A] (decided by [genuine] on the log alone:
   validates, carries the trace id, names the sequence of an answerable probe of this round not answered
   before) and the established distance of the target [g_dist] (smallest ttl the target answered at; forgotten
   when another host answers at that ttl or beyond; carried over from round to round). *)
From TV Require Import Core.State Proofs.RoundHistory Proofs.StateProofs Proofs.RunLog Proofs.RunLogProps.

(* the log is the run: erasing deliveries and clock readings gives the event list of [run] *)
Theorem c06_log_is_the_run : forall c t0 is, Accept c ->
  events_of (run_log c t0 is) = fst (fst (run c t0 is)).
Proof. exact run_log_events. Qed.

(* and the ghost of the log is the ghost history of C01 (Proofs/RoundHistory.v): the published rounds with the send
   log and the accepted deliveries [run_hist] attaches to them are the publishes of the log with [g_S], [g_A] of
   the log before each - the log-only notion [genuine] and the state-based [ghost_pick] of C01 agree on every run *)
Theorem c06_log_ghost_is_round_history : forall c t0 is, Accept c ->
  run_hist c (ts_new c t0) [] [] is = publishes c (g_init t0) (run_log c t0 is).
Proof. exact run_hist_is_log_lemma. Qed.

(* every probe handed to the network in any run, judged against the log before it: its ttl is the next one of
   the round (first_ttl + number of probes of the round that were not abandoned), it carries the number of the
   round, lies within first_ttl..max_ttl, the target has not answered in this round, and it is not above the
   established target distance or - while that is unknown - at most max_inflight beyond the farthest hop that
   has answered in this round (first_ttl - 1 if none has) *)
Theorem c06_run_send_discipline : forall c t0 is l1 p o l2, Accept c ->
  run_log c t0 is = l1 ++ OSend p o :: l2 ->
  let g := ghost_after c t0 l1 in
  p_ttl p = next_ttl c (g_S g) /\ p_round p = g_round g /\
  first_ttl c <= p_ttl p <= max_ttl c /\
  found (g_A g) = false /\
  match g_dist g with
  | Some d => p_ttl p <= d
  | None => p_ttl p - (match farthest (g_A g) with Some m => m | None => first_ttl c - 1 end) <= max_inflight c
  end.
Proof. exact c06_run_send_lemma. Qed.

(* the send log of the round in progress, at every point of every run: ttls first_ttl, first_ttl+1, ... where
   exactly the abandoned probes (address in use, TCP) are followed by a probe of the same ttl; in closed form,
   the probes that were not abandoned carry first_ttl, first_ttl+1, ... without gap or repeat *)
Theorem c06_round_send_log : forall c t0 is l1 l2, Accept c -> run_log c t0 is = l1 ++ l2 ->
  let S := g_S (ghost_after c t0 l1) in
  ttl_chain (first_ttl c) S /\ map p_ttl (kept S) = zrange (first_ttl c) (length (kept S)).
Proof.
  intros c t0 is l1 l2 HA E S. pose proof (c06_round_ttl_chain_lemma c t0 is l1 l2 HA E) as H.
  split; [exact H|exact (ttl_chain_kept _ _ H)].
Qed.

(* every round [run] publishes: the ttls of its probes are first_ttl, first_ttl+1, ... without gap or repeat
   (a re-issued probe keeps the ttl, the abandoned slot is Skipped and carries none), and for
   first_ttl <= max_ttl, 1 <= max_inflight there is at least the first_ttl probe *)
Theorem c06_published_rounds : forall c t0 is, Accept c ->
  Forall (fun r =>
    ttls (rr_probes r) = zrange (first_ttl c) (length (ttls (rr_probes r))) /\
    (first_ttl c <= max_ttl c -> 1 <= max_inflight c -> exists rest, ttls (rr_probes r) = first_ttl c :: rest))
    (pubs (fst (fst (run c t0 is)))).
Proof. exact c06_published_rounds_lemma. Qed.

(* every round sends at least the first-ttl probe: whenever update_round reads the clock - whether it then
   publishes the round or leaves it open - a probe with ttl first_ttl has gone out in this round and was not
   abandoned *)
Theorem c06_every_round_sends_first : forall c t0 is l1 o l2, Accept c -> run_log c t0 is = l1 ++ o :: l2 ->
  (exists now, o = OUpdate now) \/ (exists r now adv, o = OPublish r now adv) ->
  first_ttl c <= max_ttl c -> 1 <= max_inflight c ->
  exists p x, In (p, x) (g_S (ghost_after c t0 l1)) /\ x <> AddressInUseO /\ p_ttl p = first_ttl c.
Proof. exact c06_run_round_sent_lemma. Qed.

(* never after the target has answered in that round: between a genuine answer of the target and any later
   send a round has been published *)
Theorem c06_no_send_after_target : forall c t0 is l1 r p sr l2 q o l3, Accept c ->
  run_log c t0 is = l1 ++ ORecv r :: l2 ++ OSend q o :: l3 ->
  genuine c (g_S (ghost_after c t0 l1)) (g_A (ghost_after c t0 l1)) r = Some (p, sr) -> sr_is_target sr = true ->
  exists r' now adv, In (OPublish r' now adv) l2.
Proof. exact c06_no_send_after_target_lemma. Qed.

(* never above the target's distance once it is established on a stable path, across rounds: if throughout
   the run the target answers exactly the probes of ttl >= D ([stable]), then after the target has answered a
   probe p no probe of a larger ttl is ever sent again - in that round or in any later one *)
Theorem c06_stable_path : forall c t0 is D l1 r p sr l2 q o l3, Accept c ->
  stable c D (g_init t0) (run_log c t0 is) ->
  run_log c t0 is = l1 ++ ORecv r :: l2 ++ OSend q o :: l3 ->
  genuine c (g_S (ghost_after c t0 l1)) (g_A (ghost_after c t0 l1)) r = Some (p, sr) -> sr_is_target sr = true ->
  p_ttl q <= p_ttl p.
Proof. exact c06_stable_path_lemma. Qed.

(* the ghost is what the code holds: at the end of every run that did not fail (so at every iteration boundary)
   the inputs of the send decision in the tracer state - next ttl, target_found, max_received_ttl, target_ttl
   (carried over from round to round), round - are the ghost of the log *)
Theorem c06_state_is_ghost : forall c t0 is ev o sf, Accept c -> run c t0 is = (ev, o, sf) ->
  (forall e, o <> Failed_with e) ->
  let g := ghost_after c t0 (run_log c t0 is) in
  ttl sf = next_ttl c (g_S g) /\ target_found sf = found (g_A g) /\ max_received_ttl sf = farthest (g_A g) /\
  target_ttl sf = g_dist g /\ round sf = g_round g.
Proof. intros c t0 is ev o sf HA E Hne. exact (proj1 (ghost_is_state_lemma c t0 is ev o sf HA E Hne)). Qed.

(* non-vacuity: the example run of Proofs/RunLogProps.v (two rounds over a stable path of length 3) *)
Example c06_ex_accept : Accept rl_ex_cfg /\ first_ttl rl_ex_cfg <= max_ttl rl_ex_cfg /\ 1 <= max_inflight rl_ex_cfg.
Proof. split; [split; [reflexivity|unfold cfg_wf, u8, u16; cbn; lia]|cbn; lia]. Qed.

(* the published rounds: 1..4 in the first round, 1..3 in the second (the distance 3 is carried over) *)
Example c06_ex_rounds :
  map (fun r => ttls (rr_probes r)) (pubs (fst (fst (run rl_ex_cfg 0 rl_ex_ins)))) = [[1;2;3;4]; [1;2;3]].
Proof. vm_compute. reflexivity. Qed.

Example c06_ex_stable : stable rl_ex_cfg 3 (g_init 0) (run_log rl_ex_cfg 0 rl_ex_ins).
Proof. vm_compute. repeat split. Qed.

Example c06_ex_send : exists p l2, run_log rl_ex_cfg 0 rl_ex_ins = [] ++ OSend p Sent :: l2 /\ p_ttl p = 1.
Proof. eexists _, _. split; vm_compute; reflexivity. Qed.

(* the hypotheses of c06_no_send_after_target / c06_stable_path are met in that run: the target's answer to the
   ttl 3 probe of round 0, and the ttl 3 probe of round 1 sent after it *)
Example c06_ex_stable_instance :
  let L := run_log rl_ex_cfg 0 rl_ex_ins in
  exists l1 r p sr l2 q o l3, L = l1 ++ ORecv r :: l2 ++ OSend q o :: l3 /\
    genuine rl_ex_cfg (g_S (ghost_after rl_ex_cfg 0 l1)) (g_A (ghost_after rl_ex_cfg 0 l1)) r = Some (p, sr) /\
    sr_is_target sr = true /\ p_ttl p = 3 /\ p_ttl q = 3 /\ p_round q = 1.
Proof.
  intros L. exists (firstn 9 L), (rl_ex_er 4 102). eexists _, _. exists (firstn 8 (skipn 10 L)). eexists _, _. exists (skipn 19 L).
  split; [lazy; reflexivity|]. split; [lazy; reflexivity|]. lazy. repeat split.
Qed.

(* TCP with port collisions (example run of Proofs/RunLogProps.v): round 0 hands four probes to the network
   with ttls 2,2,2,3; the published round has four slots (two Skipped) whose ttls are 2,3; the reply naming the
   abandoned sequence 100 is not genuine, the one naming sequence 102 is; round 1 re-issues ttl 2 once *)
Example c06_ex_tcp :
  map (fun r => (length (rr_probes r), ttls (rr_probes r))) (pubs (fst (fst (run rl_ex_tcp_cfg 0 rl_ex_tcp_ins)))) = [(4%nat, [2;3])] /\
  map (fun po => (p_ttl (fst po), snd po)) (g_S (ghost_after rl_ex_tcp_cfg 0 (run_log rl_ex_tcp_cfg 0 rl_ex_tcp_ins))) =
    [(2, AddressInUseO); (2, Sent)] /\
  g_dist (ghost_after rl_ex_tcp_cfg 0 (run_log rl_ex_tcp_cfg 0 rl_ex_tcp_ins)) = Some 2.
Proof. vm_compute. repeat split. Qed.

(* why c06_stable_path needs [stable]: on a path that changes (a router answers the ttl 4 probe after the target
   answered ttl 3) the established distance is forgotten - by design of the code - and the next round sends ttl 4 *)
Example c06_ex_unstable_path :
  let L := run_log rl_ex_cfg 0 rl_ex_unstable_ins in
  exists l1 r p sr l2 q o l3, L = l1 ++ ORecv r :: l2 ++ OSend q o :: l3 /\
    genuine rl_ex_cfg (g_S (ghost_after rl_ex_cfg 0 l1)) (g_A (ghost_after rl_ex_cfg 0 l1)) r = Some (p, sr) /\
    sr_is_target sr = true /\ p_ttl p = 3 /\ p_ttl q = 4 /\ ~ stable rl_ex_cfg 3 (g_init 0) L.
Proof.
  intros L. exists (firstn 9 L), (rl_ex_er 4 102). eexists _, _. exists (firstn 12 (skipn 10 L)). eexists _, _. exists (skipn 23 L).
  split; [lazy; reflexivity|]. split; [lazy; reflexivity|]. repeat (split; [lazy; reflexivity|]).
  lazy. intros H. decompose [and] H. discriminate.
Qed.
