(* C06 - Probe scheduling discipline: TTL order, limits and in-flight window.
   Model: TV.Core.Strategy.send_request (with the in-flight window measured from first_ttl - 1 and
   inclusive of max_inflight - the repaired behaviour). *)
From TV Require Import Base.Result Core.Types Core.TracerState Core.Strategy Core.Builder
  Proofs.StrategyInv Proofs.StrategyProps.

(* every iteration that sends: target not yet found in this round, first_ttl <= ttl <= max_ttl,
   ttl <= target distance when known, otherwise at most max_inflight beyond the farthest answering hop
   (or first_ttl - 1); a re-issued (TCP) probe keeps the TTL; ICMP/UDP send exactly one probe *)
Theorem c06_send_discipline : forall c s i s' ev e, Accept c -> reach c s -> step c s i = Ok (s', ev, e) ->
  ev_probes ev <> [] ->
  target_found s = false /\ first_ttl c <= ttl s <= max_ttl c /\
  match target_ttl s with
  | Some t => ttl s <= t
  | None => ttl s - inflight_base c s <= max_inflight c
  end /\
  Forall (fun q => p_ttl q = ttl s /\ p_round q = round s) (ev_probes ev) /\
  (proto c <> Tcp -> length (ev_probes ev) = 1%nat).
Proof. exact c06_send_discipline_lemma. Qed.

(* no gaps, no repeats: the next TTL moves by exactly one with each send and is reset to first_ttl
   exactly when a round is published *)
Theorem c06_ttl_evolution : forall c s i s' ev, Accept c -> reach c s -> step c s i = Ok (s', ev, None) ->
  (exists r, In (EPublish r) ev /\ ttl s' = first_ttl c /\ round s' = round s + 1) \/
  ((forall r, ~ In (EPublish r) ev) /\ round s' = round s /\
   ((ev_probes ev = [] /\ ttl s' = ttl s) \/ (ev_probes ev <> [] /\ ttl s' = ttl s + 1))).
Proof. exact c06_ttl_evolution_lemma. Qed.

(* every round sends at least the first_ttl probe: in a round-start state the send step emits it *)
Theorem c06_liveness : forall c s i, Accept c -> Inv c s -> first_ttl c <= max_ttl c -> 1 <= max_inflight c ->
  ttl s = first_ttl c -> target_found s = false -> max_received_ttl s = None -> sequence s = round_sequence s ->
  exists s1 ev1 e1 p o, send_request c s i = Ok (s1, ev1, e1) /\ ev1 = ESend p o :: tl ev1 /\ p_ttl p = first_ttl c.
Proof. exact c06_liveness_lemma. Qed.

(* a round-start state is what advance_round and TracerState::new produce *)
Theorem c06_round_start_state : forall c s now, Accept c -> Inv c s ->
  exists s', advance_round c s (first_ttl c) now = Ok s' /\ Inv c s' /\
    ttl s' = first_ttl c /\ target_found s' = false /\ max_received_ttl s' = None /\ sequence s' = round_sequence s'.
Proof.
  intros c s now HA HI.
  destruct (advance_round_spec c s now HA HI) as (s' & Ha & HI' & _ & _ & Ht & Hq & Htf & Hmr & _).
  exists s'. split; [assumption|]. split; [assumption|]. repeat split; assumption.
Qed.

(* ------------------------------------------------------------------------------------------------------
   C06 over WHOLE RUNS (Proofs/RunLog.v, Proofs/RunLogProps.v).
   [run_log c t0 is] is the observation log of the run on the input history [is]: every probe handed to the
   network with the outcome of the send, every response delivered, every clock reading of update_round
   (OUpdate: round stays open; OPublish: round published, with the reading of advance_round).
   [ghost_after c t0 l] is a fold over a log prefix that never looks at the tracer state: the number and the
   send log [g_S] of the round in progress, its genuine answers [g_A] (decided by [genuine] on the log alone:
   validates, carries the trace id, names the sequence of an answerable probe of this round not answered
   before) and the established distance of the target [g_dist] (smallest ttl the target answered at; forgotten
   when another host answers at that ttl or beyond; carried over from round to round). *)
From TV Require Import Core.State Proofs.RoundHistory Proofs.StateProofs Proofs.RunLog Proofs.RunLogProps.

(* the log is the run: erasing deliveries and clock readings gives the event list of [run] *)
Theorem c06_log_is_the_run : forall c t0 is, Accept c ->
  events_of (run_log c t0 is) = fst (fst (run c t0 is)).
Proof. exact run_log_events. Qed.

(* and the ghost of the log is the ghost history of C01 (Proofs/RoundHistory.v): the published rounds with the send
   log and the accepted deliveries [run_hist] attaches to them are the publishes of the log with [g_S], [g_A] of
   the log before each - the log-only notion [genuine] and the state-based [ghost_pick] of C01 agree on every run *)
Theorem c06_log_ghost_is_round_history : forall c t0 is, Accept c ->
  run_hist c (ts_new c t0) [] [] is = publishes c (g_init t0) (run_log c t0 is).
Proof. exact run_hist_is_log_lemma. Qed.

(* every probe handed to the network in any run, judged against the log before it: its ttl is the next one of
   the round (first_ttl + number of probes of the round that were not abandoned), it carries the number of the
   round, lies within first_ttl..max_ttl, the target has not answered in this round, and it is not above the
   established target distance or - while that is unknown - at most max_inflight beyond the farthest hop that
   has answered in this round (first_ttl - 1 if none has) *)
Theorem c06_run_send_discipline : forall c t0 is l1 p o l2, Accept c ->
  run_log c t0 is = l1 ++ OSend p o :: l2 ->
  let g := ghost_after c t0 l1 in
  p_ttl p = next_ttl c (g_S g) /\ p_round p = g_round g /\
  first_ttl c <= p_ttl p <= max_ttl c /\
  found (g_A g) = false /\
  match g_dist g with
  | Some d => p_ttl p <= d
  | None => p_ttl p - (match farthest (g_A g) with Some m => m | None => first_ttl c - 1 end) <= max_inflight c
  end.
Proof. exact c06_run_send_lemma. Qed.

(* the send log of the round in progress, at every point of every run: ttls first_ttl, first_ttl+1, ... where
   exactly the abandoned probes (address in use, TCP) are followed by a probe of the same ttl; in closed form,
   the probes that were not abandoned carry first_ttl, first_ttl+1, ... without gap or repeat *)
Theorem c06_round_send_log : forall c t0 is l1 l2, Accept c -> run_log c t0 is = l1 ++ l2 ->
  let S := g_S (ghost_after c t0 l1) in
  ttl_chain (first_ttl c) S /\ map p_ttl (kept S) = zrange (first_ttl c) (length (kept S)).
Proof.
  intros c t0 is l1 l2 HA E S. pose proof (c06_round_ttl_chain_lemma c t0 is l1 l2 HA E) as H.
  split; [exact H|exact (ttl_chain_kept _ _ H)].
Qed.

(* every round [run] publishes: the ttls of its probes are first_ttl, first_ttl+1, ... without gap or repeat
   (a re-issued probe keeps the ttl, the abandoned slot is Skipped and carries none), and for
   first_ttl <= max_ttl, 1 <= max_inflight there is at least the first_ttl probe *)
Theorem c06_published_rounds : forall c t0 is, Accept c ->
  Forall (fun r =>
    ttls (rr_probes r) = zrange (first_ttl c) (length (ttls (rr_probes r))) /\
    (first_ttl c <= max_ttl c -> 1 <= max_inflight c -> exists rest, ttls (rr_probes r) = first_ttl c :: rest))
    (pubs (fst (fst (run c t0 is)))).
Proof. exact c06_published_rounds_lemma. Qed.

(* every round sends at least the first-ttl probe: whenever update_round reads the clock - whether it then
   publishes the round or leaves it open - a probe with ttl first_ttl has gone out in this round and was not
   abandoned *)
Theorem c06_every_round_sends_first : forall c t0 is l1 o l2, Accept c -> run_log c t0 is = l1 ++ o :: l2 ->
  (exists now, o = OUpdate now) \/ (exists r now adv, o = OPublish r now adv) ->
  first_ttl c <= max_ttl c -> 1 <= max_inflight c ->
  exists p x, In (p, x) (g_S (ghost_after c t0 l1)) /\ x <> AddressInUseO /\ p_ttl p = first_ttl c.
Proof. exact c06_run_round_sent_lemma. Qed.

(* never after the target has answered in that round: between a genuine answer of the target and any later
   send a round has been published *)
Theorem c06_no_send_after_target : forall c t0 is l1 r p sr l2 q o l3, Accept c ->
  run_log c t0 is = l1 ++ ORecv r :: l2 ++ OSend q o :: l3 ->
  genuine c (g_S (ghost_after c t0 l1)) (g_A (ghost_after c t0 l1)) r = Some (p, sr) -> sr_is_target sr = true ->
  exists r' now adv, In (OPublish r' now adv) l2.
Proof. exact c06_no_send_after_target_lemma. Qed.

(* never above the target's distance once it is established on a stable path, across rounds: if throughout
   the run the target answers exactly the probes of ttl >= D ([stable]), then after the target has answered a
   probe p no probe of a larger ttl is ever sent again - in that round or in any later one *)
Theorem c06_stable_path : forall c t0 is D l1 r p sr l2 q o l3, Accept c ->
  stable c D (g_init t0) (run_log c t0 is) ->
  run_log c t0 is = l1 ++ ORecv r :: l2 ++ OSend q o :: l3 ->
  genuine c (g_S (ghost_after c t0 l1)) (g_A (ghost_after c t0 l1)) r = Some (p, sr) -> sr_is_target sr = true ->
  p_ttl q <= p_ttl p.
Proof. exact c06_stable_path_lemma. Qed.

(* the ghost is what the code holds: at the end of every run that did not fail (so at every iteration boundary)
   the inputs of the send decision in the tracer state - next ttl, target_found, max_received_ttl, target_ttl
   (carried over from round to round), round - are the ghost of the log *)
Theorem c06_state_is_ghost : forall c t0 is ev o sf, Accept c -> run c t0 is = (ev, o, sf) ->
  (forall e, o <> Failed_with e) ->
  let g := ghost_after c t0 (run_log c t0 is) in
  ttl sf = next_ttl c (g_S g) /\ target_found sf = found (g_A g) /\ max_received_ttl sf = farthest (g_A g) /\
  target_ttl sf = g_dist g /\ round sf = g_round g.
Proof. intros c t0 is ev o sf HA E Hne. exact (proj1 (ghost_is_state_lemma c t0 is ev o sf HA E Hne)). Qed.

(* non-vacuity: the example run of Proofs/RunLogProps.v (two rounds over a stable path of length 3) *)
Example c06_ex_accept : Accept rl_ex_cfg /\ first_ttl rl_ex_cfg <= max_ttl rl_ex_cfg /\ 1 <= max_inflight rl_ex_cfg.
Proof. split; [split; [reflexivity|unfold cfg_wf, u8, u16; cbn; lia]|cbn; lia]. Qed.

(* the published rounds: 1..4 in the first round, 1..3 in the second (the distance 3 is carried over) *)
Example c06_ex_rounds :
  map (fun r => ttls (rr_probes r)) (pubs (fst (fst (run rl_ex_cfg 0 rl_ex_ins)))) = [[1;2;3;4]; [1;2;3]].
Proof. vm_compute. reflexivity. Qed.

Example c06_ex_stable : stable rl_ex_cfg 3 (g_init 0) (run_log rl_ex_cfg 0 rl_ex_ins).
Proof. vm_compute. repeat split. Qed.

Example c06_ex_send : exists p l2, run_log rl_ex_cfg 0 rl_ex_ins = [] ++ OSend p Sent :: l2 /\ p_ttl p = 1.
Proof. eexists _, _. split; vm_compute; reflexivity. Qed.

(* the hypotheses of c06_no_send_after_target / c06_stable_path are met in that run: the target's answer to the
   ttl 3 probe of round 0, and the ttl 3 probe of round 1 sent after it *)
Example c06_ex_stable_instance :
  let L := run_log rl_ex_cfg 0 rl_ex_ins in
  exists l1 r p sr l2 q o l3, L = l1 ++ ORecv r :: l2 ++ OSend q o :: l3 /\
    genuine rl_ex_cfg (g_S (ghost_after rl_ex_cfg 0 l1)) (g_A (ghost_after rl_ex_cfg 0 l1)) r = Some (p, sr) /\
    sr_is_target sr = true /\ p_ttl p = 3 /\ p_ttl q = 3 /\ p_round q = 1.
Proof.
  intros L. exists (firstn 9 L), (rl_ex_er 4 102). eexists _, _. exists (firstn 8 (skipn 10 L)). eexists _, _. exists (skipn 19 L).
  split; [lazy; reflexivity|]. split; [lazy; reflexivity|]. lazy. repeat split.
Qed.

(* TCP with port collisions (example run of Proofs/RunLogProps.v): round 0 hands four probes to the network
   with ttls 2,2,2,3; the published round has four slots (two Skipped) whose ttls are 2,3; the reply naming the
   abandoned sequence 100 is not genuine, the one naming sequence 102 is; round 1 re-issues ttl 2 once *)
Example c06_ex_tcp :
  map (fun r => (length (rr_probes r), ttls (rr_probes r))) (pubs (fst (fst (run rl_ex_tcp_cfg 0 rl_ex_tcp_ins)))) = [(4%nat, [2;3])] /\
  map (fun po => (p_ttl (fst po), snd po)) (g_S (ghost_after rl_ex_tcp_cfg 0 (run_log rl_ex_tcp_cfg 0 rl_ex_tcp_ins))) =
    [(2, AddressInUseO); (2, Sent)] /\
  g_dist (ghost_after rl_ex_tcp_cfg 0 (run_log rl_ex_tcp_cfg 0 rl_ex_tcp_ins)) = Some 2.
Proof. vm_compute. repeat split. Qed.

(* why c06_stable_path needs [stable]: on a path that changes (a router answers the ttl 4 probe after the target
   answered ttl 3) the established distance is forgotten - by design of the code - and the next round sends ttl 4 *)
Example c06_ex_unstable_path :
  let L := run_log rl_ex_cfg 0 rl_ex_unstable_ins in
  exists l1 r p sr l2 q o l3, L = l1 ++ ORecv r :: l2 ++ OSend q o :: l3 /\
    genuine rl_ex_cfg (g_S (ghost_after rl_ex_cfg 0 l1)) (g_A (ghost_after rl_ex_cfg 0 l1)) r = Some (p, sr) /\
    sr_is_target sr = true /\ p_ttl p = 3 /\ p_ttl q = 4 /\ ~ stable rl_ex_cfg 3 (g_init 0) L.
Proof.
  intros L. exists (firstn 9 L), (rl_ex_er 4 102). eexists _, _. exists (firstn 12 (skipn 10 L)). eexists _, _. exists (skipn 23 L).
  split; [lazy; reflexivity|]. split; [lazy; reflexivity|]. repeat (split; [lazy; reflexivity|]).
  lazy. intros H. decompose [and] H. discriminate.
Qed.

(* ------------------------------------------------------------------------------------------------------
   C06 over whole runs, continued (Proofs/RunWindow.v): EXACTNESS of the send rule, iteration by iteration, the
   restart of every round at first_ttl, round numbers, and the ECMP reset as the only way beyond the distance.
   [allowed c g] is the send rule evaluated on the ghost of a log prefix (it never looks at the tracer state).
   An ITERATION of the loop shows in the log as the part between two consecutive clock readings of update_round
   ([marker]: OUpdate / OPublish); [boundary l1] says that an iteration starts after the prefix l1. *)
From TV Require Import Proofs.RunWindow.

(* the rule in plain words: the target has not answered in this round, the next ttl of the round is at most max_ttl,
   and it is at most the established target distance or - while that is unknown - at most max_inflight beyond the
   farthest hop that has answered in this round (first_ttl - 1 if none has) *)
Theorem c06_rule_reads : forall c g,
  allowed c g = true <->
  (found (g_A g) = false /\ next_ttl c (g_S g) <= max_ttl c /\
   match g_dist g with
   | Some d => next_ttl c (g_S g) <= d
   | None => next_ttl c (g_S g) - (match farthest (g_A g) with Some m => m | None => first_ttl c - 1 end) <= max_inflight c
   end).
Proof. exact allowed_reads_lemma. Qed.

(* the rule of the log IS the decision of the code: at the end of every run that did not fail (so at every iteration
   boundary) Strategy::send_request's condition (can_send: !target_found && ttl <= max_ttl && can_send_ttl) does not
   fault and evaluates to [allowed] of the ghost of the log *)
Theorem c06_rule_is_can_send : forall c t0 is ev o sf, Accept c -> run c t0 is = (ev, o, sf) ->
  (forall e, o <> Failed_with e) ->
  can_send c sf = Ok (allowed c (ghost_after c t0 (run_log c t0 is))).
Proof. exact rule_is_can_send_lemma. Qed.

(* the grammar of every run: the log is a sequence of complete iterations - the sends of the iteration, EXACT for the
   ghost at its start ([batch_exact]: nothing if the rule forbids the next ttl; otherwise exactly one probe of the
   next ttl that was not abandoned, preceded only by abandoned attempts (address in use) of the same ttl; at most
   one probe unless TCP), then at most one delivery, then the clock reading of update_round - possibly followed by one
   iteration cut short by an error or the end of the input ([batch_partial]) *)
Theorem c06_run_iterations : forall c t0 is, Accept c -> iter_log c (g_init t0) (run_log c t0 is).
Proof. exact run_log_iter_lemma. Qed.

(* EXACTNESS at any complete iteration of any run, wherever it lies in the log *)
Theorem c06_iteration_exact : forall c t0 is l1 seg m l2, Accept c ->
  run_log c t0 is = l1 ++ seg ++ m :: l2 -> boundary l1 -> no_marker seg -> marker m ->
  exists B rcv, seg = osends B ++ rcv /\ batch_exact c (ghost_after c t0 l1) B /\ recv_part rcv.
Proof. exact c06_iteration_exact_lemma. Qed.

(* liveness of the window: whenever the rule allows the next ttl at the start of an iteration that runs to its clock
   reading (no send / receive error), a probe of exactly that ttl IS handed to the network in that iteration, it is not
   abandoned, and only abandoned attempts (TCP, address in use) precede it *)
Theorem c06_window_liveness : forall c t0 is l1 seg m l2, Accept c ->
  run_log c t0 is = l1 ++ seg ++ m :: l2 -> boundary l1 -> no_marker seg -> marker m ->
  allowed c (ghost_after c t0 l1) = true ->
  exists B0 p o rcv, seg = osends B0 ++ OSend p o :: rcv /\ Forall inuse B0 /\ o <> AddressInUseO /\
    p_ttl p = next_ttl c (g_S (ghost_after c t0 l1)) /\ recv_part rcv.
Proof. exact c06_liveness_run_lemma. Qed.

(* and the other direction: when the rule forbids the next ttl the iteration hands nothing to the network (the
   iteration consists of at most one delivery) *)
Theorem c06_window_silence : forall c t0 is l1 seg m l2, Accept c ->
  run_log c t0 is = l1 ++ seg ++ m :: l2 -> boundary l1 -> no_marker seg -> marker m ->
  allowed c (ghost_after c t0 l1) = false -> recv_part seg.
Proof. exact c06_silence_run_lemma. Qed.

(* so the next ttl of the round moves by exactly one in an iteration the rule allows and stays in one it forbids
   (iterations that leave the round open) *)
Theorem c06_ttl_step : forall c t0 is l1 seg now l2, Accept c ->
  run_log c t0 is = l1 ++ seg ++ OUpdate now :: l2 -> boundary l1 -> no_marker seg ->
  next_ttl c (g_S (ghost_after c t0 (l1 ++ seg ++ [OUpdate now]))) =
  next_ttl c (g_S (ghost_after c t0 l1)) + (if allowed c (ghost_after c t0 l1) then 1 else 0).
Proof. exact c06_ttl_step_lemma. Qed.

(* the first probe of every run carries first_ttl ... *)
Theorem c06_first_probe_of_run : forall c t0 is mid p o l2, Accept c ->
  run_log c t0 is = mid ++ OSend p o :: l2 -> no_send mid -> p_ttl p = first_ttl c.
Proof. exact c06_first_probe_lemma. Qed.

(* ... and every round starts again at first_ttl: the first probe handed to the network after a round is published
   carries first_ttl and the next round number, whatever was learnt before *)
Theorem c06_round_restart : forall c t0 is l1 r now adv mid p o l2, Accept c ->
  run_log c t0 is = l1 ++ OPublish r now adv :: mid ++ OSend p o :: l2 -> no_send mid -> no_publish mid ->
  p_ttl p = first_ttl c /\ p_round p = g_round (ghost_after c t0 l1) + 1.
Proof. exact c06_round_restart_lemma. Qed.

(* the round number a probe carries is the number of rounds published before it was sent *)
Theorem c06_round_number : forall c t0 is l1 p o l2, Accept c ->
  run_log c t0 is = l1 ++ OSend p o :: l2 -> p_round p = Z.of_nat (npub l1).
Proof. exact c06_round_number_lemma. Qed.

(* the ECMP rule, exactly: after the target has answered a probe p, a probe of a larger ttl goes out - in that round
   or in ANY later one, on any path - only if in between a host that is not the target has genuinely answered a probe
   whose ttl is at or beyond the distance established at that moment ([reset_in]); complete_probe then forgets the
   distance (target_ttl = None) and the in-flight window applies again *)
Theorem c06_beyond_distance_needs_reset : forall c t0 is l1 r p sr l2 q o l3, Accept c ->
  run_log c t0 is = l1 ++ ORecv r :: l2 ++ OSend q o :: l3 ->
  genuine c (g_S (ghost_after c t0 l1)) (g_A (ghost_after c t0 l1)) r = Some (p, sr) -> sr_is_target sr = true ->
  p_ttl q <= p_ttl p \/ reset_in c (p_ttl p) (ghost_after c t0 (l1 ++ [ORecv r])) l2.
Proof. exact c06_beyond_distance_lemma. Qed.

(* the same from any point where the distance d is established (e.g. the start of a later round): no probe above d
   until such a reset *)
Theorem c06_known_distance_bounds : forall c t0 is l1 d mid q o l3, Accept c ->
  run_log c t0 is = l1 ++ mid ++ OSend q o :: l3 ->
  g_dist (ghost_after c t0 l1) = Some d ->
  p_ttl q <= d \/ reset_in c d (ghost_after c t0 l1) mid.
Proof. exact c06_known_distance_bounds_lemma. Qed.

(* non-vacuity, on the example runs of Proofs/RunLogProps.v.
   liveness: the second iteration of the example run starts after [send ttl 1; update 1]; the rule allows ttl 2 and
   the iteration is [send ttl 2; delivery] *)
Example c06_ex_liveness_instance :
  let L := run_log rl_ex_cfg 0 rl_ex_ins in
  exists l1 seg m l2 p o r, L = l1 ++ seg ++ m :: l2 /\ boundary l1 /\ no_marker seg /\ marker m /\
    allowed rl_ex_cfg (ghost_after rl_ex_cfg 0 l1) = true /\ seg = [OSend p o; ORecv r] /\ p_ttl p = 2.
Proof.
  intros L. exists (firstn 2 L), (firstn 2 (skipn 2 L)), (OUpdate 2), (skipn 5 L). eexists _, _, _.
  split; [vm_compute; reflexivity|].
  split; [right; exists (firstn 1 L), (OUpdate 1); split; [vm_compute; reflexivity|exact I]|].
  split; [vm_compute; repeat constructor; intros []|].
  split; [exact I|]. split; [vm_compute; reflexivity|]. split; vm_compute; reflexivity.
Qed.

(* silence: after the target answered ttl 3 in round 0 the iteration between the readings 4 and 8 sends nothing; and
   in round 1, where the distance 3 is known, the iteration between the readings 18 and 40 sends nothing *)
Example c06_ex_silence_instance :
  let L := run_log rl_ex_cfg 0 rl_ex_ins in
  (L = firstn 11 L ++ [] ++ OUpdate 8 :: skipn 12 L /\ boundary (firstn 11 L) /\
   allowed rl_ex_cfg (ghost_after rl_ex_cfg 0 (firstn 11 L)) = false /\
   found (g_A (ghost_after rl_ex_cfg 0 (firstn 11 L))) = true) /\
  (L = firstn 20 L ++ [] ++ OUpdate 40 :: skipn 21 L /\ boundary (firstn 20 L) /\
   allowed rl_ex_cfg (ghost_after rl_ex_cfg 0 (firstn 20 L)) = false /\
   found (g_A (ghost_after rl_ex_cfg 0 (firstn 20 L))) = false /\
   g_dist (ghost_after rl_ex_cfg 0 (firstn 20 L)) = Some 3 /\
   next_ttl rl_ex_cfg (g_S (ghost_after rl_ex_cfg 0 (firstn 20 L))) = 4).
Proof.
  intros L. split.
  - split; [vm_compute; reflexivity|].
    split; [right; exists (firstn 10 L), (OUpdate 4); split; [vm_compute; reflexivity|exact I]|].
    split; vm_compute; reflexivity.
  - split; [vm_compute; reflexivity|].
    split; [right; exists (firstn 19 L), (OUpdate 18); split; [vm_compute; reflexivity|exact I]|].
    repeat split; vm_compute; reflexivity.
Qed.

(* TCP: the first iteration of the TCP example run is exact with two abandoned attempts before the ttl 2 probe *)
Example c06_ex_tcp_iteration :
  let L := run_log rl_ex_tcp_cfg 0 rl_ex_tcp_ins in
  exists B0 p l2, L = [] ++ (osends B0 ++ [OSend p Sent]) ++ OUpdate 1 :: l2 /\ boundary [] /\
    allowed rl_ex_tcp_cfg (ghost_after rl_ex_tcp_cfg 0 []) = true /\
    map (fun po => p_ttl (fst po)) B0 = [2; 2] /\ Forall inuse B0 /\ p_ttl p = 2.
Proof.
  intros L. eexists [(_, _); (_, _)], _, _. split; [vm_compute; reflexivity|]. split; [left; reflexivity|].
  split; [vm_compute; reflexivity|]. split; [vm_compute; reflexivity|].
  split; [repeat constructor|vm_compute; reflexivity].
Qed.

(* the round restart: round 1 of the example run starts with ttl 1 and number 1 *)
Example c06_ex_restart_instance :
  let L := run_log rl_ex_cfg 0 rl_ex_ins in
  exists l1 r now adv p o l2, L = l1 ++ OPublish r now adv :: [] ++ OSend p o :: l2 /\
    p_ttl p = 1 /\ p_round p = 1 /\ npub (l1 ++ [OPublish r now adv]) = 1%nat.
Proof.
  intros L. exists (firstn 13 L). eexists _, _, _, _, _. exists (skipn 15 L).
  split; [vm_compute; reflexivity|]. repeat split; vm_compute; reflexivity.
Qed.

(* the reset of c06_beyond_distance_needs_reset, on the unstable example: the target answered ttl 3, then a router
   answered the ttl 4 probe (4 >= 3): the distance is forgotten and round 1 sends ttl 4 *)
Example c06_ex_reset_instance :
  let L := run_log rl_ex_cfg 0 rl_ex_unstable_ins in
  exists l1 r p sr l2 q o l3, L = l1 ++ ORecv r :: l2 ++ OSend q o :: l3 /\
    genuine rl_ex_cfg (g_S (ghost_after rl_ex_cfg 0 l1)) (g_A (ghost_after rl_ex_cfg 0 l1)) r = Some (p, sr) /\
    sr_is_target sr = true /\ p_ttl p = 3 /\ p_ttl q = 4 /\
    reset_in rl_ex_cfg 3 (ghost_after rl_ex_cfg 0 (l1 ++ [ORecv r])) l2.
Proof.
  intros L. exists (firstn 9 L), (rl_ex_er 4 102). eexists _, _. exists (firstn 12 (skipn 10 L)). eexists _, _. exists (skipn 23 L).
  split; [lazy; reflexivity|]. split; [lazy; reflexivity|]. repeat (split; [lazy; reflexivity|]).
  exists [OUpdate 4], (rl_ex_te 5 103 [9;9;9;4]), (skipn 12 (firstn 22 L)). eexists _, _, 3.
  split; [vm_compute; reflexivity|]. cbv zeta. split; [vm_compute; reflexivity|].
  split; [vm_compute; reflexivity|]. split; [vm_compute; reflexivity|]. split; vm_compute; discriminate.
Qed.

(* the in-flight window applies only while the distance is unknown (as the property says): in round 1 of the example
   run (distance 3 carried over, max_inflight 2, nothing has answered) the ttl 3 probe is 3 beyond first_ttl - 1 *)
Example c06_ex_window_only_while_unknown :
  let L := run_log rl_ex_cfg 0 rl_ex_ins in
  exists p o, L = firstn 18 L ++ OSend p o :: skipn 19 L /\ p_ttl p = 3 /\
    g_dist (ghost_after rl_ex_cfg 0 (firstn 18 L)) = Some 3 /\
    farthest (g_A (ghost_after rl_ex_cfg 0 (firstn 18 L))) = None /\
    max_inflight rl_ex_cfg < p_ttl p - (first_ttl rl_ex_cfg - 1).
Proof.
  intros L. eexists _, _. split; [vm_compute; reflexivity|]. repeat split; vm_compute; reflexivity.
Qed.

(* liveness over a whole stretch, in closed form: take any stretch [mid] of complete iterations (it starts and ends at
   iteration boundaries) in which nothing is delivered and no round is published - n = [nupd mid] iterations.  If the
   target has answered in this round nothing is sent; otherwise the next ttl t of the round advances by exactly one
   per iteration until it passes the limit of the rule, [ttl_limit] = min max_ttl (established distance, or - while
   unknown - farthest answered hop (first_ttl - 1 if none) + max_inflight), and then stays: the stretch sends exactly
   the ttls t, t+1, ..., min (t+n-1) limit, neither fewer nor more *)
Theorem c06_quiet_stretch : forall c t0 is l1 mid l2, Accept c ->
  run_log c t0 is = l1 ++ mid ++ l2 -> boundary l1 -> boundary mid -> no_recv mid -> no_publish mid ->
  let g := ghost_after c t0 l1 in
  next_ttl c (g_S (ghost_after c t0 (l1 ++ mid))) =
  if found (g_A g) then next_ttl c (g_S g)
  else Z.max (next_ttl c (g_S g)) (Z.min (next_ttl c (g_S g) + Z.of_nat (nupd mid)) (ttl_limit c g + 1)).
Proof. exact c06_quiet_stretch_lemma. Qed.

(* round 1 of the example run: 5 silent iterations with the distance 3 known send ttl 1, 2, 3 and stall at 4 *)
Example c06_ex_quiet_known_distance :
  let L := run_log rl_ex_cfg 0 rl_ex_ins in
  let l1 := firstn 14 L in let mid := firstn 8 (skipn 14 L) in
  L = l1 ++ mid ++ skipn 22 L /\ boundary l1 /\ boundary mid /\ no_recv mid /\ no_publish mid /\
  nupd mid = 5%nat /\ found (g_A (ghost_after rl_ex_cfg 0 l1)) = false /\
  ttl_limit rl_ex_cfg (ghost_after rl_ex_cfg 0 l1) = 3 /\
  next_ttl rl_ex_cfg (g_S (ghost_after rl_ex_cfg 0 (l1 ++ mid))) = 4.
Proof.
  intros L l1 mid. split; [vm_compute; reflexivity|].
  split; [right; exists (firstn 13 L); eexists; split; [vm_compute; reflexivity|exact I]|].
  split; [right; exists (firstn 7 mid), (OUpdate 41); split; [vm_compute; reflexivity|exact I]|].
  split; [intros r Hin; vm_compute in Hin; repeat (destruct Hin as [Hin|Hin]; [discriminate|]); exact Hin|].
  split; [intros r n a Hin; vm_compute in Hin; repeat (destruct Hin as [Hin|Hin]; [discriminate|]); exact Hin|].
  repeat split; vm_compute; reflexivity.
Qed.

(* a silent first round (distance unknown, max_inflight 2): 4 iterations send ttl 1, 2 and stall at the window edge *)
Example c06_ex_quiet_window :
  let ins := [rl_ex_it Timeout 1; rl_ex_it Timeout 2; rl_ex_it Timeout 3; rl_ex_it Timeout 4] in
  let L := run_log rl_ex_cfg 0 ins in
  L = [] ++ L ++ [] /\ boundary L /\ no_recv L /\ no_publish L /\ nupd L = 4%nat /\
  ttl_limit rl_ex_cfg (ghost_after rl_ex_cfg 0 []) = 2 /\
  map (fun po => p_ttl (fst po)) (g_S (ghost_after rl_ex_cfg 0 ([] ++ L))) = [1; 2] /\
  next_ttl rl_ex_cfg (g_S (ghost_after rl_ex_cfg 0 ([] ++ L))) = 3.
Proof.
  intros ins L. split; [rewrite app_nil_r; reflexivity|].
  split; [right; exists (firstn 5 L), (OUpdate 4); split; [vm_compute; reflexivity|exact I]|].
  split; [intros r Hin; vm_compute in Hin; repeat (destruct Hin as [Hin|Hin]; [discriminate|]); exact Hin|].
  split; [intros r n a Hin; vm_compute in Hin; repeat (destruct Hin as [Hin|Hin]; [discriminate|]); exact Hin|].
  repeat split; vm_compute; reflexivity.
Qed.
