(* C06 - Probe scheduling discipline: TTL order, limits and in-flight window.
   Model: TV.Core.Strategy.send_request (with the in-flight window measured from first_ttl - 1 and
   inclusive of max_inflight - the repaired behaviour). *)
From TV Require Import Base.Result Core.Types Core.TracerState Core.Strategy Core.Builder
  Proofs.StrategyInv Proofs.StrategyProps.

(* every iteration that sends: target not yet found in this round, first_ttl <= ttl <= max_ttl,
   ttl <= target distance when known, otherwise at most max_inflight beyond the farthest answering hop
   (or first_ttl - 1); a re-issued (TCP) probe keeps the TTL; ICMP/UDP send exactly one probe *)
Theorem c06_send_discipline : forall c s i s' ev e, Accept c -> reach c s -> step c s i = Ok (s', ev, e) ->
  ev_probes ev <> [] ->
  target_found s = false /\ first_ttl c <= ttl s <= max_ttl c /\
  match target_ttl s with
  | Some t => ttl s <= t
  | None => ttl s - inflight_base c s <= max_inflight c
  end /\
  Forall (fun q => p_ttl q = ttl s /\ p_round q = round s) (ev_probes ev) /\
  (proto c <> Tcp -> length (ev_probes ev) = 1%nat).
Proof. exact c06_send_discipline_lemma. Qed.

(* no gaps, no repeats: the next TTL moves by exactly one with each send and is reset to first_ttl
   exactly when a round is published *)
Theorem c06_ttl_evolution : forall c s i s' ev, Accept c -> reach c s -> step c s i = Ok (s', ev, None) ->
  (exists r, In (EPublish r) ev /\ ttl s' = first_ttl c /\ round s' = round s + 1) \/
  ((forall r, ~ In (EPublish r) ev) /\ round s' = round s /\
   ((ev_probes ev = [] /\ ttl s' = ttl s) \/ (ev_probes ev <> [] /\ ttl s' = ttl s + 1))).
Proof. exact c06_ttl_evolution_lemma. Qed.

(* every round sends at least the first_ttl probe: in a round-start state the send step emits it *)
Theorem c06_liveness : forall c s i, Accept c -> Inv c s -> first_ttl c <= max_ttl c -> 1 <= max_inflight c ->
  ttl s = first_ttl c -> target_found s = false -> max_received_ttl s = None -> sequence s = round_sequence s ->
  exists s1 ev1 e1 p o, send_request c s i = Ok (s1, ev1, e1) /\ ev1 = ESend p o :: tl ev1 /\ p_ttl p = first_ttl c.
Proof. exact c06_liveness_lemma. Qed.

(* a round-start state is what advance_round and TracerState::new produce *)
Theorem c06_round_start_state : forall c s now, Accept c -> Inv c s ->
  exists s', advance_round c s (first_ttl c) now = Ok s' /\ Inv c s' /\
    ttl s' = first_ttl c /\ target_found s' = false /\ max_received_ttl s' = None /\ sequence s' = round_sequence s'.
Proof.
  intros c s now HA HI.
  destruct (advance_round_spec c s now HA HI) as (s' & Ha & HI' & _ & _ & Ht & Hq & Htf & Hmr & _).
  exists s'. split; [assumption|]. split; [assumption|]. repeat split; assumption.
Qed.
