(* C07 - Sequence numbers stay unique, in range and inside the round buffer.
   Model: TV.Core.{TracerState,Strategy} (transcription of strategy.rs).  All statements are about every
   state reachable by the send/receive/update loop from TracerState::new, for every builder-accepted
   configuration (Accept = Builder::build validation /\ every field within its Rust type), every number of
   rounds and every environment behaviour (clock readings, send outcomes, deliveries). *)
From TV Require Import Base.Result Core.Types Core.TracerState Core.Strategy Core.Builder
  Proofs.StrategyInv Proofs.StrategyProps.

(* the round window: never wraps, never reaches 65535, at most 512 sequences per round, buffer of 512 *)
Theorem c07_invariant : forall c s, Accept c -> reach c s ->
  length (buffer s) = 512%nat /\
  initial_sequence c <= round_sequence s <= sequence s /\
  sequence s - round_sequence s <= 512 /\
  round_sequence s < max_seq c /\ max_seq c <= 65023 /\
  sequence s < 65535.
Proof. exact c07_invariant_lemma. Qed.

(* the sequences handed to the network in one iteration are consecutive, start at the state's sequence,
   index the round buffer below 512 and are below 65535 *)
Theorem c07_consecutive : forall c s i s' ev e, Accept c -> reach c s -> step c s i = Ok (s', ev, e) ->
  map p_sequence (ev_probes ev) = zrange (sequence s) (length (ev_probes ev)) /\
  Forall (fun q => round_sequence s <= q < round_sequence s + 512 /\ q < 65535) (map p_sequence (ev_probes ev)).
Proof. exact c07_consecutive_lemma. Qed.

(* between rounds the sequence only moves forward or restarts at the initial sequence *)
Theorem c07_between_rounds : forall c s now, Accept c -> reach c s ->
  exists s', advance_round c s (first_ttl c) now = Ok s' /\
    sequence s' = round_sequence s' /\
    (round_sequence s' = sequence s \/ (round_sequence s' = initial_sequence c /\ max_seq c <= sequence s)).
Proof. exact c07_between_rounds_lemma. Qed.

(* separation (ICMP and UDP): a sequence issued in the round that just ended lies outside the window
   [round_sequence, sequence) of every state of the next round, so it can never be accepted there
   (acceptance requires round_sequence <= q < sequence, see C03). *)
Theorem c07_separation : forall c s now s' s'', Accept c -> proto c <> Tcp -> Inv c s ->
  advance_round c s (first_ttl c) now = Ok s' ->
  Inv c s'' -> round_sequence s'' = round_sequence s' ->
  forall q, round_sequence s <= q < sequence s -> ~ (round_sequence s'' <= q < sequence s'').
Proof. exact c07_separation_lemma. Qed.

(* exhausting the sequence budget is an error value, never an out-of-bounds access: no iteration faults *)
Theorem c07_no_fault : forall c s i, Accept c -> reach c s ->
  exists s' ev e, step c s i = Ok (s', ev, e).
Proof.
  intros c s i HA HR. destruct (step_ok c s i HA (reach_inv c s HA HR)) as (s' & ev & e & H & _). eauto.
Qed.

(* Dublin/IPv6: payload length = sequence - initial_sequence (+ 6 magic octets) fits the 976-octet buffer *)
Theorem c07_dublin_payload_fits : forall c s i s' ev e, Accept c -> reach c s -> proto c = Udp ->
  multipath c = Dublin -> is_v6 (target_addr c) = true -> step c s i = Ok (s', ev, e) ->
  Forall (fun q => 0 <= q - initial_sequence c /\ q - initial_sequence c + 6 <= 976) (map p_sequence (ev_probes ev)).
Proof. exact c07_dublin_payload_lemma. Qed.

(* non-vacuity: the default configuration is accepted and the initial state is reachable *)
Example c07_accept_example :
  Accept {| target_addr := [1;2;3;4]; proto := Icmp; trace_identifier := 7; max_rounds := Some 3;
            first_ttl := 1; max_ttl := 64; grace_duration := 100; max_inflight := 24;
            initial_sequence := 33434; multipath := Classic; port_direction := PdNone;
            min_round_duration := 1000; max_round_duration := 1000 |}.
Proof. split; [reflexivity|]. unfold cfg_wf, u8, u16; cbn; lia. Qed.

(* Known finding F2: for TCP the separation does NOT hold.  Witness (also corpus/C07/f2_tcp_wrap_overlap.case, replayed on
   the real TracerState on every run): initial_sequence 64511, rounds of 300 / 250 / 320 sequences. *)
Definition f2_cfg : scfg :=
  {| target_addr := [10;0;0;1]; proto := Tcp; trace_identifier := 0; max_rounds := None;
     first_ttl := 1; max_ttl := 5; grace_duration := 0; max_inflight := 24; initial_sequence := 64511;
     multipath := Classic; port_direction := FixedSrc 5000; min_round_duration := 0; max_round_duration := 10000 |}.

Fixpoint f2_reissues (n : nat) (s : tstate) : result tstate :=
  match n with
  | O => Ok s
  | S n' => match reissue_probe f2_cfg s 0 with Ok (_, s') => f2_reissues n' s' | Err e => Err e | Fault f => Fault f end
  end.

(* one probe followed by n port collisions *)
Definition f2_sends (n : nat) (s : tstate) : result tstate :=
  match next_probe f2_cfg s 0 with Ok (_, s1) => f2_reissues n s1 | Err e => Err e | Fault f => Fault f end.

Definition f2_states : result (tstate * tstate) :=
  let* a := f2_sends 299 (ts_new f2_cfg 0) in
  let* a' := advance_round f2_cfg a 1 0 in
  let* b := f2_sends 249 a' in                  (* the preceding round: sequences 64811 .. 65060 *)
  let* b' := advance_round f2_cfg b 1 0 in      (* wrap: restart at 64511 *)
  let* c := f2_sends 319 b' in                  (* the current round: sequences 64511 .. 64830 *)
  Ok (b, c).

Theorem c07_separation_tcp_refuted :
  Accept f2_cfg /\
  exists prev cur, f2_states = Ok (prev, cur) /\ round cur = round prev + 1 /\
    exists q, (round_sequence prev <= q < sequence prev) /\ (round_sequence cur <= q < sequence cur).
Proof.
  split.
  - split; [reflexivity|]. unfold cfg_wf; cbn; unfold u8, u16; repeat split; try lia.
  - assert (H : match f2_states with
                | Ok (prev, cur) => (round cur =? round prev + 1) && (round_sequence prev <=? 64811) && (64811 <? sequence prev)
                                    && (round_sequence cur <=? 64811) && (64811 <? sequence cur)
                | _ => false end = true) by (vm_compute; reflexivity).
    destruct f2_states as [[prev cur]|?|?]; try discriminate.
    exists prev, cur. split; [reflexivity|].
    repeat (apply andb_true_iff in H; destruct H as [H ?]).
    split; [lia|]. exists 64811. lia.
Qed.

(* ====================================================================================================
   Whole-run statements (Proofs/SeqWalk.v).  The specification is a walk over the event trace of the run that knows
   nothing of the tracer state.  [seq_walk c rs q ev]: rs = first sequence number of the round in progress, q = the
   number the next probe must carry; a send carries exactly q, with rs <= q, q - rs < 512 and q < 65535, and is
   followed by q + 1; a publication reports exactly q - rs <= 512 slots, its round started in
   [initial_sequence, max_seq), and the next round starts at q - or at the initial sequence when q has reached the
   maximum sequence of the configuration.  [sep_walk prev cur ev]: no send carries a number used in the round published
   last (prev) or already used in its own round (cur).  [round_numbering S r]: the sends S of a published round r are
   at most 512, numbered consecutively below 65536 - so none reaches 65535 -, one slot each.
   ==================================================================================================== *)
From TV Require Import Proofs.RoundHistory Proofs.RunSemantics Proofs.SeqWalk.

(* every run, of any length, whatever the environment does: the sequence numbers handed to the network follow the walk
   from the initial sequence; consequently every published round numbers at most 512 probes, consecutively, no wrap *)
Theorem c07_run_sequence_walk : forall c t0 is, Accept c ->
  let '(ev, o, sf) := run c t0 is in
  seq_walk c (initial_sequence c) (initial_sequence c) ev /\
  Forall (fun x => round_numbering (fst x) (snd x)) (segs [] ev).
Proof. exact run_seq_walk. Qed.

(* every run (ICMP and UDP): a sequence number used in the immediately preceding round is never used in the current one,
   and no number is used twice within a round *)
Theorem c07_run_separation : forall c t0 is, Accept c -> proto c <> Tcp ->
  let '(ev, o, sf) := run c t0 is in sep_walk [] [] ev.
Proof. exact run_sep_walk. Qed.

(* every run, Dublin over IPv6: the payload length derived from the sequence of every probe handed to the network
   (sequence - initial sequence, plus 6 magic octets) fits the 976-octet payload buffer *)
Theorem c07_run_dublin_payload_fits : forall c t0 is, Accept c -> proto c = Udp -> multipath c = Dublin ->
  is_v6 (target_addr c) = true ->
  let '(ev, o, sf) := run c t0 is in
  Forall (fun p => 0 <= p_sequence p - initial_sequence c /\ p_sequence p - initial_sequence c + 6 <= 976) (ev_probes ev).
Proof. exact run_dublin_payload. Qed.

(* the TCP capacity error path of one loop iteration.
   (a) the budget of 512 numbers is used up when the iteration starts and a probe is due: the iteration is the capacity
       error, nothing is sent, the state - every slot - is untouched *)
Theorem c07_capacity_error_at_start : forall c s i, Inv c s -> proto c = Tcp -> can_send c s = Ok true ->
  sequence s - round_sequence s = 512 -> step c s i = Ok (s, [], Some EInsufficientCapacity).
Proof. exact capacity_error_at_start. Qed.

(* (b) the probe that takes the last number of the budget (slot 511) meets address-in-use: it was handed to the network
       once, there is no re-issue into slot 512, the iteration ends with the capacity error *)
Theorem c07_capacity_error_after_send : forall c s i rest, Accept c -> Inv c s -> proto c = Tcp -> can_send c s = Ok true ->
  sequence s - round_sequence s = 511 -> i_sends i = AddressInUseO :: rest ->
  exists p s1, next_probe c s (hd_clock (i_clock i) (round_start s)) = Ok (p, s1) /\
    sequence s1 - round_sequence s1 = 512 /\
    step c s i = Ok (s1, [ESend p AddressInUseO], Some EInsufficientCapacity).
Proof. exact capacity_error_after_send. Qed.

(* (c) conversely: unless the environment injected that very error value, an iteration ends with the capacity error only
       for TCP and only when all 512 numbers of the round are used (buffer of 512 slots intact, nothing published) *)
Theorem c07_capacity_error_only_when_exhausted : forall c s i s' ev, Accept c -> Inv c s ->
  step c s i = Ok (s', ev, Some EInsufficientCapacity) ->
  ~ In (FatalS EInsufficientCapacity) (i_sends i) -> i_recv i <> FatalR EInsufficientCapacity ->
  proto c = Tcp /\ sequence s' - round_sequence s' = 512 /\ length (buffer s') = 512%nat /\ pubs ev = [].
Proof. exact step_capacity_error. Qed.

(* non-vacuity: 512 consecutive address-in-use outcomes in the first iteration of a TCP trace use up the budget: 512
   probes are handed to the network, numbered consecutively from the initial sequence, and the run ends with the
   capacity error; with 511 the round is full and the next iteration that wants to send is the error of (a) *)
Definition c07_cfg_tcp : scfg :=
  {| target_addr := [1;2;3;4]; proto := Tcp; trace_identifier := 0; max_rounds := Some 2;
     first_ttl := 1; max_ttl := 4; grace_duration := 100; max_inflight := 24;
     initial_sequence := 33434; multipath := Classic; port_direction := FixedDest 80;
     min_round_duration := 1000; max_round_duration := 1000 |}.
Definition c07_it (sends : list send_outcome) (u : Z) : iter_in :=
  {| i_clock := [u]; i_sends := sends; i_recv := Timeout; i_update := u; i_advance := u |}.

Example c07_capacity_example :
  Accept c07_cfg_tcp /\
  (let '(ev, o, sf) := run c07_cfg_tcp 0 [c07_it (repeat AddressInUseO 512) 10; c07_it [] 5000] in
   o = Failed_with EInsufficientCapacity /\ map p_sequence (ev_probes ev) = zrange 33434 512 /\
   sequence sf - round_sequence sf = 512 /\ pubs ev = []) /\
  (let '(ev, o, sf) := run c07_cfg_tcp 0 [c07_it (repeat AddressInUseO 511) 10; c07_it [Sent] 20; c07_it [] 5000] in
   o = Failed_with EInsufficientCapacity /\ length ev = 512%nat /\ sequence sf - round_sequence sf = 512).
Proof.
  split; [split; [reflexivity|unfold cfg_wf; cbn; unfold u8, u16; lia]|].
  split; vm_compute; (split; [reflexivity|]); split; try reflexivity. split; reflexivity.
Qed.

(* the walks are not vacuous: a trace that issues a number twice, skips one, or re-uses a number of the round published
   last is rejected *)
Definition c07_probe (q : Z) : probe :=
  {| p_sequence := q; p_identifier := 0; p_src_port := 0; p_dest_port := 80; p_ttl := 1; p_round := 0; p_sent := 0; p_flags := 0 |}.
Definition c07_round (n : nat) : round_rec := {| rr_probes := repeat Skipped n; rr_largest_ttl := 0; rr_reason := RoundTimeLimitExceeded |}.

Example c07_walks_reject :
  seq_walk c07_cfg_tcp 33434 33434 [ESend (c07_probe 33434) Sent; ESend (c07_probe 33435) Sent; EPublish (c07_round 2); ESend (c07_probe 33436) Sent] /\
  ~ seq_walk c07_cfg_tcp 33434 33434 [ESend (c07_probe 33434) Sent; ESend (c07_probe 33434) Sent] /\
  ~ seq_walk c07_cfg_tcp 33434 33434 [ESend (c07_probe 33434) Sent; ESend (c07_probe 33436) Sent] /\
  ~ seq_walk c07_cfg_tcp 33434 33434 [ESend (c07_probe 33434) Sent; EPublish (c07_round 2)] /\
  ~ seq_walk c07_cfg_tcp 33434 33434 [ESend (c07_probe 33434) Sent; EPublish (c07_round 1); ESend (c07_probe 33434) Sent] /\
  sep_walk [] [] [ESend (c07_probe 7) Sent; EPublish (c07_round 1); ESend (c07_probe 8) Sent; EPublish (c07_round 1); ESend (c07_probe 7) Sent] /\
  ~ sep_walk [] [] [ESend (c07_probe 7) Sent; EPublish (c07_round 1); ESend (c07_probe 7) Sent].
Proof.
  unfold c07_cfg_tcp, max_seq. cbn. repeat split; try lia; try tauto.
  all: intros H; decompose [and] H; try lia; tauto.
Qed.

(* ====================================================================================================
   Whole runs, second part (Proofs/SeqRuns.v).  More vocabulary that reads the event trace only:
   [distinct_walk cur ev]: no send carries a number already used in its own round (every protocol).
   [clear_walk c wr prs rs q ev]: in a round that began by restarting at the initial sequence (wr) no send reaches prs, the
   first number of the round published before it.  [rounds_within k n ev]: no round hands more than k numbers to the
   network.  [starts_walk lim init rs n ev]: the n-th send of the round that started at rs carries rs + n with n < 512
   (its slot index in the 512-slot buffer); after a publication the next round starts at rs + n, unless lim <= rs + n: then
   and only then it starts at init.  [tail_sends [] ev]: the numbers sent since the last publication.
   ==================================================================================================== *)
From TV Require Import Proofs.SeqRuns.

(* TracerState::max_sequence, general regime: unless the strategy is Dublin and the target address is an IPv6 address
   (16 octets - an IPv4-mapped target counts as IPv6, as in the code), the limit is 65535 - 512 = 65023 *)
Theorem c07_max_sequence_general : forall c, Accept c -> ~ (multipath c = Dublin /\ is_v6 (target_addr c) = true) ->
  max_sequence c = Ok 65023 /\ max_seq c = 65023.
Proof. exact max_seq_general. Qed.

(* TracerState::max_sequence, Dublin over IPv6: the limit is initial_sequence + 512, computed without u16 overflow *)
Theorem c07_max_sequence_dublin_v6 : forall c, Accept c -> multipath c = Dublin -> is_v6 (target_addr c) = true ->
  max_sequence c = Ok (initial_sequence c + 512) /\ max_seq c = initial_sequence c + 512.
Proof. exact max_seq_dublin6. Qed.

(* every run: every sequence number handed to Network::send_probe lies in [initial_sequence, max_sequence + 512) and
   is at most 65534 *)
Theorem c07_run_all_in_range : forall c t0 is, Accept c ->
  let '(ev, o, sf) := run c t0 is in
  Forall (fun p => initial_sequence c <= p_sequence p < max_seq c + 512 /\ p_sequence p <= 65534) (ev_probes ev).
Proof. exact run_all_in_range. Qed.

(* every run, every protocol (TCP with any number of re-issued probes included): within a round - the unfinished last
   round too - no sequence number is handed to the network twice *)
Theorem c07_run_distinct_within_round : forall c t0 is, Accept c ->
  let '(ev, o, sf) := run c t0 is in distinct_walk [] ev.
Proof. exact run_distinct. Qed.

(* every run, every protocol: the EXACT condition for the separation of consecutive rounds.  The numbers of the round
   published last are never re-used in the round in progress if and only if no round that began by restarting at the
   initial sequence reaches the first number of the round before it.  (For ICMP / UDP the right-hand side always holds:
   c07_run_separation; for TCP it can fail: F2, c07_separation_tcp_refuted and the two refutations below.) *)
Theorem c07_run_separation_exact : forall c t0 is, Accept c ->
  let '(ev, o, sf) := run c t0 is in
  sep_walk [] [] ev <-> clear_walk c false (initial_sequence c) (initial_sequence c) (initial_sequence c) ev.
Proof. exact run_sep_exact. Qed.

(* every run, every protocol - so TCP - under the general limit: with an initial sequence of at most 63999 (the default
   33434 for instance) consecutive rounds never share a sequence number, however many probes are re-issued *)
Theorem c07_run_separation_initial_63999 : forall c t0 is, Accept c ->
  ~ (multipath c = Dublin /\ is_v6 (target_addr c) = true) -> initial_sequence c <= 63999 ->
  let '(ev, o, sf) := run c t0 is in sep_walk [] [] ev.
Proof. exact run_sep_general_63999. Qed.

(* every run, every protocol - so TCP - under the general limit, any initial sequence: if no round hands more than k
   numbers to the network and initial_sequence + 2k <= 65023 (k = 256 for the largest initial sequence 64511), consecutive
   rounds never share a sequence number *)
Theorem c07_run_separation_small_rounds : forall c k t0 is, Accept c ->
  ~ (multipath c = Dublin /\ is_v6 (target_addr c) = true) -> 0 <= k -> initial_sequence c + 2 * k <= 65023 ->
  let '(ev, o, sf) := run c t0 is in rounds_within k 0 ev -> sep_walk [] [] ev.
Proof. exact run_sep_general_rounds. Qed.

(* the same for whatever limit the configuration has (Dublin over IPv6: initial + 512, so k = 256) *)
Theorem c07_run_separation_small_rounds_any_limit : forall c k t0 is, Accept c -> 0 <= k ->
  initial_sequence c + 2 * k <= max_seq c ->
  let '(ev, o, sf) := run c t0 is in rounds_within k 0 ev -> sep_walk [] [] ev.
Proof. exact run_sep_small_rounds. Qed.

(* the bound 256 is exact (F2 sharpened): TCP from initial sequence 64511, rounds of 256 / 257 / 257 numbers (one probe
   and 255 resp. 256 address-in-use re-issues), nothing fatal injected: the third round re-issues 64767, used by the second *)
Theorem c07_tcp_rounds_of_257_refuted :
  Accept (sr_tcp 64511) /\
  exists is, Forall (no_fatal (sr_tcp 64511)) is /\
    let '(ev, o, sf) := run (sr_tcp 64511) 0 is in rounds_within 257 0 ev /\ ~ sep_walk [] [] ev.
Proof. exact sr_sep_257_refuted. Qed.

(* the bound 63999 is exact (F2 sharpened): TCP from initial sequence 64000, rounds of 511 / 512 / 512 numbers, no
   capacity error (the run goes on): the third round re-issues 64511, used by the second *)
Theorem c07_tcp_initial_64000_refuted :
  Accept (sr_tcp 64000) /\
  exists is, Forall (no_fatal (sr_tcp 64000)) is /\
    let '(ev, o, sf) := run (sr_tcp 64000) 0 is in o = Running /\ ~ sep_walk [] [] ev.
Proof. exact sr_sep_64000_refuted. Qed.

(* every run under the general limit: the restart at the initial sequence happens exactly when the round just published
   ended at or above 65023; otherwise the next round continues where it ended.  Every send sits at slot index
   sequence - round_sequence = n < 512 of the round buffer. *)
Theorem c07_run_wrap_general : forall c t0 is, Accept c -> ~ (multipath c = Dublin /\ is_v6 (target_addr c) = true) ->
  let '(ev, o, sf) := run c t0 is in starts_walk 65023 (initial_sequence c) (initial_sequence c) 0 ev.
Proof. exact run_starts_general. Qed.

(* every run of Dublin over IPv6: the same with the limit initial_sequence + 512 *)
Theorem c07_run_wrap_dublin_v6 : forall c t0 is, Accept c -> multipath c = Dublin -> is_v6 (target_addr c) = true ->
  let '(ev, o, sf) := run c t0 is in
  starts_walk (initial_sequence c + 512) (initial_sequence c) (initial_sequence c) 0 ev.
Proof. exact run_starts_dublin6. Qed.

(* every run, however it ends: the counters of the final TracerState are those of the trace - the probes handed to the
   network since the last publication carry exactly round_sequence .. sequence - 1, at most 512 numbers, buffer of 512 *)
Theorem c07_run_final_counters : forall c t0 is, Accept c ->
  let '(ev, o, sf) := run c t0 is in
  tail_sends [] ev = zrange (round_sequence sf) (Z.to_nat (sequence sf - round_sequence sf)) /\
  0 <= sequence sf - round_sequence sf <= 512 /\ length (buffer sf) = 512%nat.
Proof. exact run_tail. Qed.

(* a whole run that ends with InsufficientCapacity although the environment injected nothing fatal: the protocol is TCP
   and the round in progress handed exactly its budget round_sequence .. round_sequence + 511 to the network - nothing
   beyond it, no slot 512 *)
Theorem c07_run_capacity_error : forall c t0 is ev sf, Accept c -> Forall (no_fatal c) is ->
  run c t0 is = (ev, Failed_with EInsufficientCapacity, sf) ->
  proto c = Tcp /\ sequence sf - round_sequence sf = 512 /\
  tail_sends [] ev = zrange (round_sequence sf) 512 /\ length (buffer sf) = 512%nat.
Proof. exact run_capacity_error. Qed.

(* non-vacuity of the hypotheses above *)
(* rounds of 256 from initial sequence 64511 (k = 256): the run wraps and stays separated *)
Example c07_small_rounds_example :
  Accept (sr_tcp 64511) /\ initial_sequence (sr_tcp 64511) + 2 * 256 <= 65023 /\
  let '(ev, o, sf) := sr_run_256 in
  rounds_within 256 0 ev /\ length (pubs ev) = 3%nat /\ round_sequence sf = 64511 + 256 /\ sep_walk [] [] ev.
Proof. exact sr_run_256_ok. Qed.

(* a run without fatal injections that ends with the capacity error after exactly 512 numbers *)
Example c07_run_capacity_example :
  Accept (sr_tcp 33434) /\ Forall (no_fatal (sr_tcp 33434)) (sr_round 513 0) /\
  exists ev sf, run (sr_tcp 33434) 0 (sr_round 513 0) = (ev, Failed_with EInsufficientCapacity, sf) /\
    tail_sends [] ev = zrange 33434 512.
Proof. exact sr_capacity_ok. Qed.

(* Dublin over IPv6 is accepted; two rounds of 200 probes continue at initial + 400, the third ends at initial + 600, past
   the limit initial + 512, and the fourth starts at the initial sequence *)
Example c07_dublin_v6_example :
  Accept sr_dublin6 /\ multipath sr_dublin6 = Dublin /\ is_v6 (target_addr sr_dublin6) = true /\ proto sr_dublin6 = Udp /\
  (let '(ev, o, sf) := run sr_dublin6 0 (sr_udp_round 200 0 ++ sr_udp_round 200 5000) in
   length (ev_probes ev) = 400%nat /\ round_sequence sf = 33434 + 400) /\
  (let '(ev, o, sf) := run sr_dublin6 0 (sr_udp_round 200 0 ++ sr_udp_round 200 5000 ++ sr_udp_round 200 10000) in
   length (ev_probes ev) = 600%nat /\ round_sequence sf = 33434).
Proof. exact sr_dublin6_ok. Qed.

(* ====================================================================================================
   Whole runs, third part (Proofs/SeqRounds.v).  [round_lists [] ev]: the sequence numbers of every round of the trace as
   plain lists, in order of sending, the unfinished last round included.  [adjacent_disjoint l]: two consecutive lists of l
   have no element in common.
   ==================================================================================================== *)
From TV Require Import Proofs.SeqRounds.

(* what the separation walk says in plain lists: consecutive rounds have no sequence number in common *)
Theorem c07_separation_reading : forall ev, sep_walk [] [] ev -> adjacent_disjoint (round_lists [] ev).
Proof. exact sep_walk_reading. Qed.

(* every run, every protocol: the sequence numbers of each round are pairwise distinct *)
Theorem c07_run_rounds_pairwise_distinct : forall c t0 is, Accept c ->
  let '(ev, o, sf) := run c t0 is in Forall (@NoDup Z) (round_lists [] ev).
Proof. exact run_rounds_nodup. Qed.

(* every run, ICMP and UDP, unconditionally: consecutive rounds use disjoint sets of sequence numbers *)
Theorem c07_run_rounds_disjoint : forall c t0 is, Accept c -> proto c <> Tcp ->
  let '(ev, o, sf) := run c t0 is in adjacent_disjoint (round_lists [] ev).
Proof. exact run_rounds_disjoint. Qed.

(* every run, TCP included, general limit, initial sequence at most 63999: the same *)
Theorem c07_run_rounds_disjoint_initial_63999 : forall c t0 is, Accept c ->
  ~ (multipath c = Dublin /\ is_v6 (target_addr c) = true) -> initial_sequence c <= 63999 ->
  let '(ev, o, sf) := run c t0 is in adjacent_disjoint (round_lists [] ev).
Proof. exact run_rounds_disjoint_63999. Qed.

(* the budget at run level, forward direction: whenever a TCP run stands at a state whose round has used all 512 numbers
   and the loop wants to send another probe, the run ends right there with InsufficientCapacity - whatever the environment
   would have offered, nothing more is handed to the network, and the round's sends are exactly its 512 numbers *)
Theorem c07_run_budget_exhausted_ends_run : forall c t0 pre i post ev0 s0, Accept c -> proto c = Tcp ->
  run c t0 pre = (ev0, Running, s0) -> can_send c s0 = Ok true -> sequence s0 - round_sequence s0 = 512 ->
  run c t0 (pre ++ i :: post) = (ev0, Failed_with EInsufficientCapacity, s0) /\
  tail_sends [] ev0 = zrange (round_sequence s0) 512.
Proof. exact run_budget_exhausted. Qed.

(* the probe that takes the last number of the budget meets address-in-use: it was handed to the network once, carrying
   round_sequence + 511 (slot 511), and the run ends with InsufficientCapacity instead of re-issuing into slot 512 *)
Theorem c07_run_budget_last_number_collides : forall c t0 pre i post ev0 s0 rest, Accept c -> proto c = Tcp ->
  run c t0 pre = (ev0, Running, s0) -> can_send c s0 = Ok true -> sequence s0 - round_sequence s0 = 511 ->
  i_sends i = AddressInUseO :: rest ->
  exists p s1, p_sequence p = round_sequence s0 + 511 /\ sequence s1 - round_sequence s1 = 512 /\
    run c t0 (pre ++ i :: post) = (ev0 ++ [ESend p AddressInUseO], Failed_with EInsufficientCapacity, s1).
Proof. exact run_budget_last_collides. Qed.

(* the list reading is not vacuous *)
Example c07_round_lists_example :
  round_lists [] [ESend (sr_probe 7) Sent; ESend (sr_probe 8) Sent; EPublish sr_rec; ESend (sr_probe 9) Sent] = [[7; 8]; [9]] /\
  adjacent_disjoint [[7; 8]; [9]; [7]] /\ ~ adjacent_disjoint [[7; 8]; [8]] /\ ~ Forall (@NoDup Z) [[7; 7]].
Proof. exact round_lists_example. Qed.

(* the hypotheses of the two budget theorems are met: after one probe and 511 (resp. 510) collisions the run is still
   running, the loop wants to send the probe for the next time-to-live, and 512 (resp. 511) numbers are used *)
Example c07_run_budget_example :
  (let '(ev0, o, s0) := run c07_cfg_tcp 0 [c07_it (repeat AddressInUseO 511) 10] in
   o = Running /\ can_send c07_cfg_tcp s0 = Ok true /\ sequence s0 - round_sequence s0 = 512) /\
  (let '(ev0, o, s0) := run c07_cfg_tcp 0 [c07_it (repeat AddressInUseO 510) 10] in
   o = Running /\ can_send c07_cfg_tcp s0 = Ok true /\ sequence s0 - round_sequence s0 = 511).
Proof. split; vm_compute; repeat split. Qed.
