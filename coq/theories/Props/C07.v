(* C07 - Sequence numbers stay unique, in range and inside the round buffer.
   Model: TV.Core.{TracerState,Strategy} (transcription of strategy.rs).  All statements are about every
   state reachable by the send/receive/update loop from TracerState::new, for every builder-accepted
   configuration (Accept = Builder::build validation /\ every field within its Rust type), every number of
   rounds and every environment behaviour (clock readings, send outcomes, deliveries). *)
From TV Require Import Base.Result Core.Types Core.TracerState Core.Strategy Core.Builder
  Proofs.StrategyInv Proofs.StrategyProps.

(* the round window: never wraps, never reaches 65535, at most 512 sequences per round, buffer of 512 *)
Theorem c07_invariant : forall c s, Accept c -> reach c s ->
  length (buffer s) = 512%nat /\
  initial_sequence c <= round_sequence s <= sequence s /\
  sequence s - round_sequence s <= 512 /\
  round_sequence s < max_seq c /\ max_seq c <= 65023 /\
  sequence s < 65535.
Proof. exact c07_invariant_lemma. Qed.

(* the sequences handed to the network in one iteration are consecutive, start at the state's sequence,
   index the round buffer below 512 and are below 65535 *)
Theorem c07_consecutive : forall c s i s' ev e, Accept c -> reach c s -> step c s i = Ok (s', ev, e) ->
  map p_sequence (ev_probes ev) = zrange (sequence s) (length (ev_probes ev)) /\
  Forall (fun q => round_sequence s <= q < round_sequence s + 512 /\ q < 65535) (map p_sequence (ev_probes ev)).
Proof. exact c07_consecutive_lemma. Qed.

(* between rounds the sequence only moves forward or restarts at the initial sequence *)
Theorem c07_between_rounds : forall c s now, Accept c -> reach c s ->
  exists s', advance_round c s (first_ttl c) now = Ok s' /\
    sequence s' = round_sequence s' /\
    (round_sequence s' = sequence s \/ (round_sequence s' = initial_sequence c /\ max_seq c <= sequence s)).
Proof. exact c07_between_rounds_lemma. Qed.

(* separation (ICMP and UDP): a sequence issued in the round that just ended lies outside the window
   [round_sequence, sequence) of every state of the next round, so it can never be accepted there
   (acceptance requires round_sequence <= q < sequence, see C03). *)
Theorem c07_separation : forall c s now s' s'', Accept c -> proto c <> Tcp -> Inv c s ->
  advance_round c s (first_ttl c) now = Ok s' ->
  Inv c s'' -> round_sequence s'' = round_sequence s' ->
  forall q, round_sequence s <= q < sequence s -> ~ (round_sequence s'' <= q < sequence s'').
Proof. exact c07_separation_lemma. Qed.

(* exhausting the sequence budget is an error value, never an out-of-bounds access: no iteration faults *)
Theorem c07_no_fault : forall c s i, Accept c -> reach c s ->
  exists s' ev e, step c s i = Ok (s', ev, e).
Proof.
  intros c s i HA HR. destruct (step_ok c s i HA (reach_inv c s HA HR)) as (s' & ev & e & H & _). eauto.
Qed.

(* Dublin/IPv6: payload length = sequence - initial_sequence (+ 6 magic octets) fits the 976-octet buffer *)
Theorem c07_dublin_payload_fits : forall c s i s' ev e, Accept c -> reach c s -> proto c = Udp ->
  multipath c = Dublin -> is_v6 (target_addr c) = true -> step c s i = Ok (s', ev, e) ->
  Forall (fun q => 0 <= q - initial_sequence c /\ q - initial_sequence c + 6 <= 976) (map p_sequence (ev_probes ev)).
Proof. exact c07_dublin_payload_lemma. Qed.

(* non-vacuity: the default configuration is accepted and the initial state is reachable *)
Example c07_accept_example :
  Accept {| target_addr := [1;2;3;4]; proto := Icmp; trace_identifier := 7; max_rounds := Some 3;
            first_ttl := 1; max_ttl := 64; grace_duration := 100; max_inflight := 24;
            initial_sequence := 33434; multipath := Classic; port_direction := PdNone;
            min_round_duration := 1000; max_round_duration := 1000 |}.
Proof. split; [reflexivity|]. unfold cfg_wf, u8, u16; cbn; lia. Qed.

(* Known finding F2: for TCP the separation does NOT hold.  Witness (also corpus/C07/f2_tcp_wrap_overlap.case, replayed on
   the real TracerState on every run): initial_sequence 64511, rounds of 300 / 250 / 320 sequences. *)
Definition f2_cfg : scfg :=
  {| target_addr := [10;0;0;1]; proto := Tcp; trace_identifier := 0; max_rounds := None;
     first_ttl := 1; max_ttl := 5; grace_duration := 0; max_inflight := 24; initial_sequence := 64511;
     multipath := Classic; port_direction := FixedSrc 5000; min_round_duration := 0; max_round_duration := 10000 |}.

Fixpoint f2_reissues (n : nat) (s : tstate) : result tstate :=
  match n with
  | O => Ok s
  | S n' => match reissue_probe f2_cfg s 0 with Ok (_, s') => f2_reissues n' s' | Err e => Err e | Fault f => Fault f end
  end.

(* one probe followed by n port collisions *)
Definition f2_sends (n : nat) (s : tstate) : result tstate :=
  match next_probe f2_cfg s 0 with Ok (_, s1) => f2_reissues n s1 | Err e => Err e | Fault f => Fault f end.

Definition f2_states : result (tstate * tstate) :=
  let* a := f2_sends 299 (ts_new f2_cfg 0) in
  let* a' := advance_round f2_cfg a 1 0 in
  let* b := f2_sends 249 a' in                  (* the preceding round: sequences 64811 .. 65060 *)
  let* b' := advance_round f2_cfg b 1 0 in      (* wrap: restart at 64511 *)
  let* c := f2_sends 319 b' in                  (* the current round: sequences 64511 .. 64830 *)
  Ok (b, c).

Theorem c07_separation_tcp_refuted :
  Accept f2_cfg /\
  exists prev cur, f2_states = Ok (prev, cur) /\ round cur = round prev + 1 /\
    exists q, (round_sequence prev <= q < sequence prev) /\ (round_sequence cur <= q < sequence cur).
Proof.
  split.
  - split; [reflexivity|]. unfold cfg_wf; cbn; unfold u8, u16; repeat split; try lia.
  - assert (H : match f2_states with
                | Ok (prev, cur) => (round cur =? round prev + 1) && (round_sequence prev <=? 64811) && (64811 <? sequence prev)
                                    && (round_sequence cur <=? 64811) && (64811 <? sequence cur)
                | _ => false end = true) by (vm_compute; reflexivity).
    destruct f2_states as [[prev cur]|?|?]; try discriminate.
    exists prev, cur. split; [reflexivity|].
    repeat (apply andb_true_iff in H; destruct H as [H ?]).
    split; [lia|]. exists 64811. lia.
Qed.
