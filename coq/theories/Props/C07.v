(* C07 - Sequence numbers stay unique, in range and inside the round buffer.
   Model: TV.Core.{TracerState,Strategy} (transcription of strategy.rs).  All statements are about every
   state reachable by the send/receive/update loop from TracerState::new, for every builder-accepted
   configuration (Accept = Builder::build validation /\ every field within its Rust type), every number of
   rounds and every environment behaviour (clock readings, send outcomes, deliveries). *)
From TV Require Import Base.Result Core.Types Core.TracerState Core.Strategy Core.Builder
  Proofs.StrategyInv Proofs.StrategyProps.

(* the round window: never wraps, never reaches 65535, at most 512 sequences per round, buffer of 512 *)
Theorem c07_invariant : forall c s, Accept c -> reach c s ->
  length (buffer s) = 512%nat /\
  initial_sequence c <= round_sequence s <= sequence s /\
  sequence s - round_sequence s <= 512 /\
  round_sequence s < max_seq c /\ max_seq c <= 65023 /\
  sequence s < 65535.
Proof. exact c07_invariant_lemma. Qed.

(* the sequences handed to the network in one iteration are consecutive, start at the state's sequence,
   index the round buffer below 512 and are below 65535 *)
Theorem c07_consecutive : forall c s i s' ev e, Accept c -> reach c s -> step c s i = Ok (s', ev, e) ->
  map p_sequence (ev_probes ev) = zrange (sequence s) (length (ev_probes ev)) /\
  Forall (fun q => round_sequence s <= q < round_sequence s + 512 /\ q < 65535) (map p_sequence (ev_probes ev)).
Proof. exact c07_consecutive_lemma. Qed.

(* between rounds the sequence only moves forward or restarts at the initial sequence *)
Theorem c07_between_rounds : forall c s now, Accept c -> reach c s ->
  exists s', advance_round c s (first_ttl c) now = Ok s' /\
    sequence s' = round_sequence s' /\
    (round_sequence s' = sequence s \/ (round_sequence s' = initial_sequence c /\ max_seq c <= sequence s)).
Proof. exact c07_between_rounds_lemma. Qed.

(* separation (ICMP and UDP): a sequence issued in the round that just ended lies outside the window
   [round_sequence, sequence) of every state of the next round, so it can never be accepted there
   (acceptance requires round_sequence <= q < sequence, see C03). *)
Theorem c07_separation : forall c s now s' s'', Accept c -> proto c <> Tcp -> Inv c s ->
  advance_round c s (first_ttl c) now = Ok s' ->
  Inv c s'' -> round_sequence s'' = round_sequence s' ->
  forall q, round_sequence s <= q < sequence s -> ~ (round_sequence s'' <= q < sequence s'').
Proof. exact c07_separation_lemma. Qed.

(* exhausting the sequence budget is an error value, never an out-of-bounds access: no iteration faults *)
Theorem c07_no_fault : forall c s i, Accept c -> reach c s ->
  exists s' ev e, step c s i = Ok (s', ev, e).
Proof.
  intros c s i HA HR. destruct (step_ok c s i HA (reach_inv c s HA HR)) as (s' & ev & e & H & _). eauto.
Qed.

(* Dublin/IPv6: payload length = sequence - initial_sequence (+ 6 magic octets) fits the 976-octet buffer *)
Theorem c07_dublin_payload_fits : forall c s i s' ev e, Accept c -> reach c s -> proto c = Udp ->
  multipath c = Dublin -> is_v6 (target_addr c) = true -> step c s i = Ok (s', ev, e) ->
  Forall (fun q => 0 <= q - initial_sequence c /\ q - initial_sequence c + 6 <= 976) (map p_sequence (ev_probes ev)).
Proof. exact c07_dublin_payload_lemma. Qed.

(* non-vacuity: the default configuration is accepted and the initial state is reachable *)
Example c07_accept_example :
  Accept {| target_addr := [1;2;3;4]; proto := Icmp; trace_identifier := 7; max_rounds := Some 3;
            first_ttl := 1; max_ttl := 64; grace_duration := 100; max_inflight := 24;
            initial_sequence := 33434; multipath := Classic; port_direction := PdNone;
            min_round_duration := 1000; max_round_duration := 1000 |}.
Proof. split; [reflexivity|]. unfold cfg_wf, u8, u16; cbn; lia. Qed.
