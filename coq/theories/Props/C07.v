(* C07 - Sequence numbers stay unique, in range and inside the round buffer.
   Model: TV.Core.{TracerState,Strategy} (transcription of strategy.rs).  All statements are about every
   state reachable by the send/receive/update loop from TracerState::new, for every builder-accepted
   configuration (Accept = Builder::build validation /\ every field within its Rust type), every number of
   rounds and every environment behaviour (clock readings, send outcomes, deliveries). *)
From TV Require Import Base.Result Core.Types Core.TracerState Core.Strategy Core.Builder
  Proofs.StrategyInv Proofs.StrategyProps.

(* the round window: never wraps, never reaches 65535, at most 512 sequences per round, buffer of 512 *)
Theorem c07_invariant : forall c s, Accept c -> reach c s ->
  length (buffer s) = 512%nat /\
  initial_sequence c <= round_sequence s <= sequence s /\
  sequence s - round_sequence s <= 512 /\
  round_sequence s < max_seq c /\ max_seq c <= 65023 /\
  sequence s < 65535.
Proof. exact c07_invariant_lemma. Qed.

(* the sequences handed to the network in one iteration are consecutive, start at the state's sequence,
   index the round buffer below 512 and are below 65535 *)
Theorem c07_consecutive : forall c s i s' ev e, Accept c -> reach c s -> step c s i = Ok (s', ev, e) ->
  map p_sequence (ev_probes ev) = zrange (sequence s) (length (ev_probes ev)) /\
  Forall (fun q => round_sequence s <= q < round_sequence s + 512 /\ q < 65535) (map p_sequence (ev_probes ev)).
Proof. exact c07_consecutive_lemma. Qed.

(* between rounds the sequence only moves forward or restarts at the initial sequence *)
Theorem c07_between_rounds : forall c s now, Accept c -> reach c s ->
  exists s', advance_round c s (first_ttl c) now = Ok s' /\
    sequence s' = round_sequence s' /\
    (round_sequence s' = sequence s \/ (round_sequence s' = initial_sequence c /\ max_seq c <= sequence s)).
Proof. exact c07_between_rounds_lemma. Qed.

(* separation (ICMP and UDP): a sequence issued in the round that just ended lies outside the window
   [round_sequence, sequence) of every state of the next round, so it can never be accepted there
   (acceptance requires round_sequence <= q < sequence, see C03). *)
Theorem c07_separation : forall c s now s' s'', Accept c -> proto c <> Tcp -> Inv c s ->
  advance_round c s (first_ttl c) now = Ok s' ->
  Inv c s'' -> round_sequence s'' = round_sequence s' ->
  forall q, round_sequence s <= q < sequence s -> ~ (round_sequence s'' <= q < sequence s'').
Proof. exact c07_separation_lemma. Qed.

(* exhausting the sequence budget is an error value, never an out-of-bounds access: no iteration faults *)
Theorem c07_no_fault : forall c s i, Accept c -> reach c s ->
  exists s' ev e, step c s i = Ok (s', ev, e).
Proof.
  intros c s i HA HR. destruct (step_ok c s i HA (reach_inv c s HA HR)) as (s' & ev & e & H & _). eauto.
Qed.

(* Dublin/IPv6: payload length = sequence - initial_sequence (+ 6 magic octets) fits the 976-octet buffer *)
Theorem c07_dublin_payload_fits : forall c s i s' ev e, Accept c -> reach c s -> proto c = Udp ->
  multipath c = Dublin -> is_v6 (target_addr c) = true -> step c s i = Ok (s', ev, e) ->
  Forall (fun q => 0 <= q - initial_sequence c /\ q - initial_sequence c + 6 <= 976) (map p_sequence (ev_probes ev)).
Proof. exact c07_dublin_payload_lemma. Qed.

(* non-vacuity: the default configuration is accepted and the initial state is reachable *)
Example c07_accept_example :
  Accept {| target_addr := [1;2;3;4]; proto := Icmp; trace_identifier := 7; max_rounds := Some 3;
            first_ttl := 1; max_ttl := 64; grace_duration := 100; max_inflight := 24;
            initial_sequence := 33434; multipath := Classic; port_direction := PdNone;
            min_round_duration := 1000; max_round_duration := 1000 |}.
Proof. split; [reflexivity|]. unfold cfg_wf, u8, u16; cbn; lia. Qed.

(* Known finding F2: for TCP the separation does NOT hold.  Witness (also corpus/C07/f2_tcp_wrap_overlap.case, replayed on
   the real TracerState on every run): initial_sequence 64511, rounds of 300 / 250 / 320 sequences. *)
Definition f2_cfg : scfg :=
  {| target_addr := [10;0;0;1]; proto := Tcp; trace_identifier := 0; max_rounds := None;
     first_ttl := 1; max_ttl := 5; grace_duration := 0; max_inflight := 24; initial_sequence := 64511;
     multipath := Classic; port_direction := FixedSrc 5000; min_round_duration := 0; max_round_duration := 10000 |}.

Fixpoint f2_reissues (n : nat) (s : tstate) : result tstate :=
  match n with
  | O => Ok s
  | S n' => match reissue_probe f2_cfg s 0 with Ok (_, s') => f2_reissues n' s' | Err e => Err e | Fault f => Fault f end
  end.

(* one probe followed by n port collisions *)
Definition f2_sends (n : nat) (s : tstate) : result tstate :=
  match next_probe f2_cfg s 0 with Ok (_, s1) => f2_reissues n s1 | Err e => Err e | Fault f => Fault f end.

Definition f2_states : result (tstate * tstate) :=
  let* a := f2_sends 299 (ts_new f2_cfg 0) in
  let* a' := advance_round f2_cfg a 1 0 in
  let* b := f2_sends 249 a' in                  (* the preceding round: sequences 64811 .. 65060 *)
  let* b' := advance_round f2_cfg b 1 0 in      (* wrap: restart at 64511 *)
  let* c := f2_sends 319 b' in                  (* the current round: sequences 64511 .. 64830 *)
  Ok (b, c).

Theorem c07_separation_tcp_refuted :
  Accept f2_cfg /\
  exists prev cur, f2_states = Ok (prev, cur) /\ round cur = round prev + 1 /\
    exists q, (round_sequence prev <= q < sequence prev) /\ (round_sequence cur <= q < sequence cur).
Proof.
  split.
  - split; [reflexivity|]. unfold cfg_wf; cbn; unfold u8, u16; repeat split; try lia.
  - assert (H : match f2_states with
                | Ok (prev, cur) => (round cur =? round prev + 1) && (round_sequence prev <=? 64811) && (64811 <? sequence prev)
                                    && (round_sequence cur <=? 64811) && (64811 <? sequence cur)
                | _ => false end = true) by (vm_compute; reflexivity).
    destruct f2_states as [[prev cur]|?|?]; try discriminate.
    exists prev, cur. split; [reflexivity|].
    repeat (apply andb_true_iff in H; destruct H as [H ?]).
    split; [lia|]. exists 64811. lia.
Qed.

(* ====================================================================================================
   Whole-run statements (Proofs/SeqWalk.v).  The specification is a walk over the event trace of the run that knows
   nothing of the tracer state.  [seq_walk c rs q ev]: rs = first sequence number of the round in progress, q = the
   number the next probe must carry; a send carries exactly q, with rs <= q, q - rs < 512 and q < 65535, and is
   followed by q + 1; a publication reports exactly q - rs <= 512 slots, its round started in
   [initial_sequence, max_seq), and the next round starts at q - or at the initial sequence when q has reached the
   maximum sequence of the configuration.  [sep_walk prev cur ev]: no send carries a number used in the round published
   last (prev) or already used in its own round (cur).  [round_numbering S r]: the sends S of a published round r are
   at most 512, numbered consecutively below 65536 - so none reaches 65535 -, one slot each.
   ==================================================================================================== *)
From TV Require Import Proofs.RoundHistory Proofs.RunSemantics Proofs.SeqWalk.

(* every run, of any length, whatever the environment does: the sequence numbers handed to the network follow the walk
   from the initial sequence; consequently every published round numbers at most 512 probes, consecutively, no wrap *)
Theorem c07_run_sequence_walk : forall c t0 is, Accept c ->
  let '(ev, o, sf) := run c t0 is in
  seq_walk c (initial_sequence c) (initial_sequence c) ev /\
  Forall (fun x => round_numbering (fst x) (snd x)) (segs [] ev).
Proof. exact run_seq_walk. Qed.

(* every run (ICMP and UDP): a sequence number used in the immediately preceding round is never used in the current one,
   and no number is used twice within a round *)
Theorem c07_run_separation : forall c t0 is, Accept c -> proto c <> Tcp ->
  let '(ev, o, sf) := run c t0 is in sep_walk [] [] ev.
Proof. exact run_sep_walk. Qed.

(* every run, Dublin over IPv6: the payload length derived from the sequence of every probe handed to the network
   (sequence - initial sequence, plus 6 magic octets) fits the 976-octet payload buffer *)
Theorem c07_run_dublin_payload_fits : forall c t0 is, Accept c -> proto c = Udp -> multipath c = Dublin ->
  is_v6 (target_addr c) = true ->
  let '(ev, o, sf) := run c t0 is in
  Forall (fun p => 0 <= p_sequence p - initial_sequence c /\ p_sequence p - initial_sequence c + 6 <= 976) (ev_probes ev).
Proof. exact run_dublin_payload. Qed.

(* the TCP capacity error path of one loop iteration.
   (a) the budget of 512 numbers is used up when the iteration starts and a probe is due: the iteration is the capacity
       error, nothing is sent, the state - every slot - is untouched *)
Theorem c07_capacity_error_at_start : forall c s i, Inv c s -> proto c = Tcp -> can_send c s = Ok true ->
  sequence s - round_sequence s = 512 -> step c s i = Ok (s, [], Some EInsufficientCapacity).
Proof. exact capacity_error_at_start. Qed.

(* (b) the probe that takes the last number of the budget (slot 511) meets address-in-use: it was handed to the network
       once, there is no re-issue into slot 512, the iteration ends with the capacity error *)
Theorem c07_capacity_error_after_send : forall c s i rest, Accept c -> Inv c s -> proto c = Tcp -> can_send c s = Ok true ->
  sequence s - round_sequence s = 511 -> i_sends i = AddressInUseO :: rest ->
  exists p s1, next_probe c s (hd_clock (i_clock i) (round_start s)) = Ok (p, s1) /\
    sequence s1 - round_sequence s1 = 512 /\
    step c s i = Ok (s1, [ESend p AddressInUseO], Some EInsufficientCapacity).
Proof. exact capacity_error_after_send. Qed.

(* (c) conversely: unless the environment injected that very error value, an iteration ends with the capacity error only
       for TCP and only when all 512 numbers of the round are used (buffer of 512 slots intact, nothing published) *)
Theorem c07_capacity_error_only_when_exhausted : forall c s i s' ev, Accept c -> Inv c s ->
  step c s i = Ok (s', ev, Some EInsufficientCapacity) ->
  ~ In (FatalS EInsufficientCapacity) (i_sends i) -> i_recv i <> FatalR EInsufficientCapacity ->
  proto c = Tcp /\ sequence s' - round_sequence s' = 512 /\ length (buffer s') = 512%nat /\ pubs ev = [].
Proof. exact step_capacity_error. Qed.

(* non-vacuity: 512 consecutive address-in-use outcomes in the first iteration of a TCP trace use up the budget: 512
   probes are handed to the network, numbered consecutively from the initial sequence, and the run ends with the
   capacity error; with 511 the round is full and the next iteration that wants to send is the error of (a) *)
Definition c07_cfg_tcp : scfg :=
  {| target_addr := [1;2;3;4]; proto := Tcp; trace_identifier := 0; max_rounds := Some 2;
     first_ttl := 1; max_ttl := 4; grace_duration := 100; max_inflight := 24;
     initial_sequence := 33434; multipath := Classic; port_direction := FixedDest 80;
     min_round_duration := 1000; max_round_duration := 1000 |}.
Definition c07_it (sends : list send_outcome) (u : Z) : iter_in :=
  {| i_clock := [u]; i_sends := sends; i_recv := Timeout; i_update := u; i_advance := u |}.

Example c07_capacity_example :
  Accept c07_cfg_tcp /\
  (let '(ev, o, sf) := run c07_cfg_tcp 0 [c07_it (repeat AddressInUseO 512) 10; c07_it [] 5000] in
   o = Failed_with EInsufficientCapacity /\ map p_sequence (ev_probes ev) = zrange 33434 512 /\
   sequence sf - round_sequence sf = 512 /\ pubs ev = []) /\
  (let '(ev, o, sf) := run c07_cfg_tcp 0 [c07_it (repeat AddressInUseO 511) 10; c07_it [Sent] 20; c07_it [] 5000] in
   o = Failed_with EInsufficientCapacity /\ length ev = 512%nat /\ sequence sf - round_sequence sf = 512).
Proof.
  split; [split; [reflexivity|unfold cfg_wf; cbn; unfold u8, u16; lia]|].
  split; vm_compute; (split; [reflexivity|]); split; try reflexivity. split; reflexivity.
Qed.

(* the walks are not vacuous: a trace that issues a number twice, skips one, or re-uses a number of the round published
   last is rejected *)
Definition c07_probe (q : Z) : probe :=
  {| p_sequence := q; p_identifier := 0; p_src_port := 0; p_dest_port := 80; p_ttl := 1; p_round := 0; p_sent := 0; p_flags := 0 |}.
Definition c07_round (n : nat) : round_rec := {| rr_probes := repeat Skipped n; rr_largest_ttl := 0; rr_reason := RoundTimeLimitExceeded |}.

Example c07_walks_reject :
  seq_walk c07_cfg_tcp 33434 33434 [ESend (c07_probe 33434) Sent; ESend (c07_probe 33435) Sent; EPublish (c07_round 2); ESend (c07_probe 33436) Sent] /\
  ~ seq_walk c07_cfg_tcp 33434 33434 [ESend (c07_probe 33434) Sent; ESend (c07_probe 33434) Sent] /\
  ~ seq_walk c07_cfg_tcp 33434 33434 [ESend (c07_probe 33434) Sent; ESend (c07_probe 33436) Sent] /\
  ~ seq_walk c07_cfg_tcp 33434 33434 [ESend (c07_probe 33434) Sent; EPublish (c07_round 2)] /\
  ~ seq_walk c07_cfg_tcp 33434 33434 [ESend (c07_probe 33434) Sent; EPublish (c07_round 1); ESend (c07_probe 33434) Sent] /\
  sep_walk [] [] [ESend (c07_probe 7) Sent; EPublish (c07_round 1); ESend (c07_probe 8) Sent; EPublish (c07_round 1); ESend (c07_probe 7) Sent] /\
  ~ sep_walk [] [] [ESend (c07_probe 7) Sent; EPublish (c07_round 1); ESend (c07_probe 7) Sent].
Proof.
  unfold c07_cfg_tcp, max_seq. cbn. repeat split; try lia; try tauto.
  all: intros H; decompose [and] H; try lia; tauto.
Qed.
