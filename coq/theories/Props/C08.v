(* C08 - Rounds end exactly when the timing policy says.
   Model: TV.Core.Strategy.{update_round, should_publish, exceeds, publish_trace} and advance_round;
   time is Z nanoseconds, duration_since(..).unwrap_or_default() = max 0 (a - b); clock readings arbitrary. *)
From TV Require Import Base.Result Core.Types Core.TracerState Core.Strategy Core.Builder
  Proofs.StrategyInv Proofs.StrategyProps.

(* [policy c s now]: duration > max, or (duration > min and target answered in this round and more than
   grace has passed since the last accepted response) *)
Theorem c08_publish_iff : forall c s i, Accept c -> Inv c s ->
  exists s' ev, update_round c s i = Ok (s', ev) /\
    ((exists r, ev = [EPublish r] /\ policy c s (i_update i) /\
        rr_reason r = (if target_found s then TargetFound else RoundTimeLimitExceeded) /\
        round_start s' = i_advance i /\ round s' = round s + 1)
     \/ (ev = [] /\ s' = s /\ ~ policy c s (i_update i))).
Proof. exact c08_publish_iff_lemma. Qed.

(* the reason tells which: TimeLimit only if the time limit was exceeded without a target response *)
Theorem c08_reason_sound : forall c s i s' r, Accept c -> Inv c s ->
  update_round c s i = Ok (s', [EPublish r]) ->
  (rr_reason r = TargetFound <-> target_found s = true) /\
  (rr_reason r = RoundTimeLimitExceeded -> max_round_duration c < Z.max 0 (i_update i - round_start s)).
Proof.
  intros c s i s' r HA HI Hu.
  destruct (c08_publish_iff_lemma c s i HA HI) as (s2 & ev & Hu2 & Hc). rewrite Hu in Hu2. inversion Hu2; subst s2 ev.
  destruct Hc as [(r' & Hr & Hpol & Hreason & _)|(Hnil & _)]; [|discriminate].
  inversion Hr; subst r'. rewrite Hreason. destruct (target_found s) eqn:Et.
  - split; [split; intros _; reflexivity|intros H; discriminate H].
  - split; [split; intros H; discriminate H|]. intros _. destruct Hpol as [H|(_ & H & _)]; [assumption|congruence].
Qed.

(* a round is never held open once an update reading lies more than max beyond the round start *)
Theorem c08_bounded : forall c s now, max_round_duration c < now - round_start s -> should_publish c s now = true.
Proof. exact c08_bounded_lemma. Qed.

Theorem c08_policy_is_decision : forall c s now, should_publish c s now = true <-> policy c s now.
Proof. exact should_publish_iff. Qed.

(* ------------------------------------------------------------------------------------------------------
   C08 over WHOLE RUNS (Proofs/RunLog.v, Proofs/RunLogProps.v; vocabulary explained in Props/C06.v).
   The ghost of a log prefix holds, for the round in progress, the instant it started [g_start], its send log
   and its genuine answers [g_A] - all read off the observation log, never off the tracer state.
   [found A]: some genuine answer of the round came from the target; [last_recv A]: receive time of the latest. *)
From TV Require Import Proofs.RoundHistory Proofs.RunLog Proofs.RunLogProps.

(* only when: every round published in any run satisfies the policy at the reading update_round took, measured
   from the start of that round and from its genuine answers; and the reason tells which *)
Theorem c08_run_publish_only_when : forall c t0 is l1 r now adv l2, Accept c ->
  run_log c t0 is = l1 ++ OPublish r now adv :: l2 ->
  let g := ghost_after c t0 l1 in
  (let dur := Z.max 0 (now - g_start g) in
   max_round_duration c < dur \/
   (min_round_duration c < dur /\ found (g_A g) = true /\
    exists t, last_recv (g_A g) = Some t /\ grace_duration c < Z.max 0 (now - t))) /\
  (rr_reason r = TargetFound <-> found (g_A g) = true) /\
  (rr_reason r = RoundTimeLimitExceeded -> found (g_A g) = false /\ max_round_duration c < Z.max 0 (now - g_start g)).
Proof. exact c08_run_publish_lemma. Qed.

(* exactly when: a reading of update_round that leaves the round open does not satisfy the policy *)
Theorem c08_run_open_only_when_not : forall c t0 is l1 now l2, Accept c ->
  run_log c t0 is = l1 ++ OUpdate now :: l2 ->
  let g := ghost_after c t0 l1 in
  let dur := Z.max 0 (now - g_start g) in
  ~ (max_round_duration c < dur \/
     (min_round_duration c < dur /\ found (g_A g) = true /\
      exists t, last_recv (g_A g) = Some t /\ grace_duration c < Z.max 0 (now - t))).
Proof. exact c08_run_no_publish_lemma. Qed.

(* the next round starts at the instant the previous one is published: the start the two theorems above measure
   from is t0 for the first round and, for every later round, the clock reading advance_round took right after
   the publish callback of the round before *)
Theorem c08_round_starts_at_publish : forall c t0,
  (forall mid, no_publish mid -> g_start (ghost_after c t0 mid) = t0) /\
  (forall l1 r now adv mid, no_publish mid -> g_start (ghost_after c t0 (l1 ++ OPublish r now adv :: mid)) = adv).
Proof. exact c08_round_start_lemma. Qed.

(* never held open longer than max-round-duration plus one read timeout.  Environment assumption [paced D]: each
   reading of update_round is at most D later than the previous reading of the update / advance clock (t0 for the
   first) - one pass of the loop, i.e. a send and one bounded wait for a response.  Then every reading that leaves
   a round open lies at most max after the start of that round, and the reading that publishes it at most max + D. *)
Theorem c08_held_open_bound : forall c t0 is D, Accept c ->
  paced D t0 (run_log c t0 is) -> held_ok c D t0 (run_log c t0 is).
Proof. exact c08_held_open_lemma. Qed.

(* the ghost is what the code holds: at the end of every run that did not fail the inputs of the completion
   decision in the tracer state - round_start, received_time, target_found - are the ghost of the log *)
Theorem c08_state_is_ghost : forall c t0 is ev o sf, Accept c -> run c t0 is = (ev, o, sf) ->
  (forall e, o <> Failed_with e) ->
  let g := ghost_after c t0 (run_log c t0 is) in
  round_start sf = g_start g /\ received_time sf = last_recv (g_A g) /\ target_found sf = found (g_A g).
Proof. intros c t0 is ev o sf HA E Hne. exact (proj2 (ghost_is_state_lemma c t0 is ev o sf HA E Hne)). Qed.

(* non-vacuity on the example run of Proofs/RunLogProps.v (target found in round 0, time limit in round 1; consecutive
   readings at most 29 apart) *)
Example c08_ex_reasons :
  map rr_reason (pubs (fst (fst (run rl_ex_cfg 0 rl_ex_ins)))) = [TargetFound; RoundTimeLimitExceeded].
Proof. vm_compute. reflexivity. Qed.

Example c08_ex_paced : paced 29 0 (run_log rl_ex_cfg 0 rl_ex_ins).
Proof. lazy. repeat split; discriminate. Qed.

Example c08_ex_publish : exists l1 r now adv l2,
  run_log rl_ex_cfg 0 rl_ex_ins = l1 ++ OPublish r now adv :: l2 /\ now = 11 /\ adv = 12 /\
  g_start (ghost_after rl_ex_cfg 0 l1) = 0.
Proof.
  exists (firstn 13 (run_log rl_ex_cfg 0 rl_ex_ins)). eexists _, _, _. exists (skipn 14 (run_log rl_ex_cfg 0 rl_ex_ins)).
  split; [lazy; reflexivity|]. lazy. repeat split.
Qed.

(* ------------------------------------------------------------------------------------------------------
   C08 over WHOLE RUNS, second part (Proofs/RunTiming.v).  Any number of iterations, any send / receive outcomes,
   any sequence of clock readings (set back, repeated, jumping forward).
   [policy_b c start fnd last now] is the timing policy as a boolean FUNCTION of the quantities the property
   names: the instant the round started, whether the target answered in it, the receive time of the latest genuine
   answer, the clock reading.  [reading o] is the update_round reading an observation carries (OUpdate / OPublish),
   [is_pub o] whether it published; [npub l] counts the publications of a log. *)
From TV Require Import Proofs.RunTiming.

(* the decision function is the policy of the statement: duration > max, or duration > min and the target answered
   and more than grace has passed since the last response; durations saturate at zero *)
Theorem c08_policy_b_is_policy : forall c start fnd last now,
  policy_b c start fnd last now = true <->
  (let dur := Z.max 0 (now - start) in
   max_round_duration c < dur \/
   (min_round_duration c < dur /\ fnd = true /\ exists t, last = Some t /\ grace_duration c < Z.max 0 (now - t))).
Proof.
  intros c start fnd last now. unfold policy_b. cbv zeta. split.
  - intros H. apply orb_true_iff in H. destruct H as [H|H]; [left; lia|].
    apply andb_true_iff in H. destruct H as [H Hg]. apply andb_true_iff in H. destruct H as [Hm Hf].
    right. split; [lia|]. split; [assumption|]. destruct last as [t|]; [|discriminate]. exists t. split; [reflexivity|lia].
  - intros [H|(Hm & Hf & t & Ht & Hg)]; apply orb_true_iff; [left; lia|].
    right. rewrite Hf, Ht. apply andb_true_iff. split; [apply andb_true_iff; split; [lia|reflexivity]|lia].
Qed.

(* (a) EXACTNESS in one statement: at every reading update_round takes in any run, a round is published if and only
   if the policy function says so on that reading, the start of the round in progress and its genuine answers *)
Theorem c08_run_exact : forall c t0 is l1 o l2 now, Accept c ->
  run_log c t0 is = l1 ++ o :: l2 -> reading o = Some now ->
  let g := ghost_after c t0 l1 in
  is_pub o = policy_b c (g_start g) (found (g_A g)) (last_recv (g_A g)) now.
Proof. exact c08_run_exact_lemma. Qed.

(* (f) the completion reason handed to the publish callback is the one the policy gives: TargetFound exactly when
   the target answered in that round *)
Theorem c08_run_reason_is_policy : forall c t0 is l1 r now adv l2, Accept c ->
  run_log c t0 is = l1 ++ OPublish r now adv :: l2 ->
  rr_reason r = reason_b (found (g_A (ghost_after c t0 l1))).
Proof. exact c08_run_reason_lemma. Qed.

(* (f) which arm of the policy stands behind the reason: TargetFound means the target answered and either min and
   grace have really passed (not saturated) or the time limit has; RoundTimeLimitExceeded means no target answer and
   the time limit really exceeded *)
Theorem c08_reason_arm : forall c t0 is l1 r now adv l2, Accept c ->
  run_log c t0 is = l1 ++ OPublish r now adv :: l2 ->
  let g := ghost_after c t0 l1 in
  (rr_reason r = TargetFound ->
     found (g_A g) = true /\
     ((min_round_duration c < now - g_start g /\
       exists t, last_recv (g_A g) = Some t /\ grace_duration c < now - t) \/
      max_round_duration c < now - g_start g)) /\
  (rr_reason r = RoundTimeLimitExceeded ->
     found (g_A g) = false /\ max_round_duration c < now - g_start g).
Proof. exact c08_reason_arm_lemma. Qed.

(* (f) REFUTED: "the reason tells which arm held" read strictly.  A round whose target answer arrives in the very
   iteration whose reading lies beyond max is ended by the time limit alone (grace has not passed since that answer),
   yet the reason published is TargetFound: the reason tells whether the target answered, not which arm fired
   (c08_reason_arm is the exact statement) *)
Theorem c08_target_found_without_grace_refuted : exists c t0 is l1 r now adv l2 t,
  Accept c /\ min_round_duration c <= max_round_duration c /\
  run_log c t0 is = l1 ++ OPublish r now adv :: l2 /\ rr_reason r = TargetFound /\
  last_recv (g_A (ghost_after c t0 l1)) = Some t /\ now - t <= grace_duration c.
Proof. exact c08_target_found_without_grace_refuted_lemma. Qed.

(* (b) for settings with min <= max, no round of any run is published before min_round_duration has passed on the
   readings: the publishing reading lies strictly more than min after the start of that round *)
Theorem c08_never_before_min : forall c t0 is l1 r now adv l2, Accept c ->
  min_round_duration c <= max_round_duration c ->
  run_log c t0 is = l1 ++ OPublish r now adv :: l2 ->
  min_round_duration c < now - g_start (ghost_after c t0 l1).
Proof. exact c08_never_before_min_lemma. Qed.

(* (b) the same read forwards: a reading at most min after the round start leaves the round open, whatever was
   received *)
Theorem c08_within_min_stays_open : forall c t0 is l1 o l2 now, Accept c ->
  min_round_duration c <= max_round_duration c ->
  run_log c t0 is = l1 ++ o :: l2 -> reading o = Some now ->
  now - g_start (ghost_after c t0 l1) <= min_round_duration c -> o = OUpdate now.
Proof. exact c08_within_min_stays_open_lemma. Qed.

(* (b) REFUTED without min <= max.  trippy-core's Builder accepts min > max (only the TUI's configuration layer
   rejects it): with min = 100, max = 5 a silent round is published at the reading 6 *)
Theorem c08_before_min_without_order_refuted : exists c t0 is l1 r now adv l2,
  Accept c /\ run_log c t0 is = l1 ++ OPublish r now adv :: l2 /\
  now - g_start (ghost_after c t0 l1) <= min_round_duration c.
Proof. exact c08_before_min_refuted_lemma. Qed.

(* (c) a clock set back never ends a round: a reading at or before the round start leaves the round open, for all
   settings (duration_since saturates to zero and no duration is negative) *)
Theorem c08_clock_set_back : forall c t0 is l1 o l2 now, Accept c ->
  run_log c t0 is = l1 ++ o :: l2 -> reading o = Some now ->
  now <= g_start (ghost_after c t0 l1) -> o = OUpdate now.
Proof. exact c08_clock_set_back_lemma. Qed.

(* (c) the round ends at the FIRST reading that satisfies the policy: every earlier reading of that round (in any
   order, set back or not) was judged from the same round start and failed the policy on the answers received by
   then, and the publishing reading satisfies it *)
Theorem c08_first_satisfying : forall c t0 is l1 mid r now adv l2, Accept c ->
  run_log c t0 is = l1 ++ mid ++ OPublish r now adv :: l2 -> no_publish mid ->
  let st := g_start (ghost_after c t0 l1) in
  (forall m1 u m2, mid = m1 ++ OUpdate u :: m2 ->
     let g := ghost_after c t0 (l1 ++ m1) in
     g_start g = st /\ policy_b c st (found (g_A g)) (last_recv (g_A g)) u = false) /\
  (let g := ghost_after c t0 (l1 ++ mid) in
   g_start g = st /\ policy_b c st (found (g_A g)) (last_recv (g_A g)) now = true).
Proof. exact c08_first_satisfying_lemma. Qed.

(* a clock that jumps forward ends the round at once - with no assumption on the environment, a reading that
   leaves the round open lies at most max after the round start; and once the target has answered and min has
   passed, the round stays open only within grace of the last answer *)
Theorem c08_open_reading : forall c t0 is l1 now l2, Accept c ->
  run_log c t0 is = l1 ++ OUpdate now :: l2 ->
  let g := ghost_after c t0 l1 in
  now - g_start g <= max_round_duration c /\
  (found (g_A g) = true -> min_round_duration c < now - g_start g ->
   exists t, last_recv (g_A g) = Some t /\ now - t <= grace_duration c).
Proof. exact c08_open_reading_lemma. Qed.

(* (d) the round counter is the number of publications so far and the round start is the advance_round reading of
   the last publication (t0 before the first); a publication moves the counter by exactly one and sets the start to
   the reading taken at that publication *)
Theorem c08_round_counter : forall c t0,
  (forall l, g_round (ghost_after c t0 l) = Z.of_nat (npub l) /\ g_start (ghost_after c t0 l) = last_start t0 l) /\
  (forall l1 r now adv,
     g_round (ghost_after c t0 (l1 ++ [OPublish r now adv])) = g_round (ghost_after c t0 l1) + 1 /\
     g_start (ghost_after c t0 (l1 ++ [OPublish r now adv])) = adv).
Proof. exact c08_round_counter_lemma. Qed.

(* (d) observable on the wire: every probe handed to the network carries the number of rounds published before it *)
Theorem c08_probe_round : forall c t0 is l1 p o l2, Accept c ->
  run_log c t0 is = l1 ++ OSend p o :: l2 -> p_round p = Z.of_nat (npub l1).
Proof. exact c08_probe_round_lemma. Qed.

(* (d) in the tracer state at the end of every run that did not fail: round = number of rounds published,
   round_start = the reading advance_round took at the last publication *)
Theorem c08_final_counter : forall c t0 is ev o sf, Accept c -> run c t0 is = (ev, o, sf) ->
  (forall e, o <> Failed_with e) ->
  round sf = Z.of_nat (length (pubs ev)) /\ round_start sf = last_start t0 (run_log c t0 is).
Proof. exact c08_final_counter_lemma. Qed.

(* (d) iteration by iteration: an iteration of a run that has not ended adds to the log its sends, its delivery and
   exactly ONE reading, the i_update of that iteration, judged against the round_start the state held before the
   iteration; either nothing is published and counter and start stay, or one round is published, the counter moves
   by one and the start becomes the i_advance reading of that same iteration *)
Theorem c08_iteration : forall c t0 pre i ev0 s0 s' ev1, Accept c ->
  run c t0 pre = (ev0, Running, s0) -> step c s0 i = Ok (s', ev1, None) ->
  exists mid o, run_log c t0 (pre ++ [i]) = run_log c t0 pre ++ mid ++ [o] /\ npub mid = 0%nat /\
    g_start (ghost_after c t0 (run_log c t0 pre ++ mid)) = round_start s0 /\
    ((o = OUpdate (i_update i) /\ pubs ev1 = [] /\ round s' = round s0 /\ round_start s' = round_start s0) \/
     (exists r, o = OPublish r (i_update i) (i_advance i) /\ pubs ev1 = [r] /\
        round s' = round s0 + 1 /\ round_start s' = i_advance i)).
Proof. exact c08_iteration_lemma. Qed.

(* (e) bounded traces: every publication is that of a round below max_rounds; the publication of the last round
   (number max_rounds - 1) is the last observation of the run; and it obeys the same policy with the same reason *)
Theorem c08_bounded_trace : forall c t0 is n l1 r now adv l2, Accept c -> max_rounds c = Some n ->
  run_log c t0 is = l1 ++ OPublish r now adv :: l2 ->
  let g := ghost_after c t0 l1 in
  Z.of_nat (npub l1) < n /\
  (Z.of_nat (npub l1) = n - 1 -> l2 = []) /\
  policy_b c (g_start g) (found (g_A g)) (last_recv (g_A g)) now = true /\
  rr_reason r = reason_b (found (g_A g)).
Proof. exact c08_bounded_trace_lemma. Qed.

(* (e) a bounded trace publishes at most max_rounds rounds, and exactly max_rounds when it finishes *)
Theorem c08_at_most_max_rounds : forall c t0 is n ev o sf, Accept c -> max_rounds c = Some n ->
  run c t0 is = (ev, o, sf) ->
  Z.of_nat (length (pubs ev)) <= n /\ (o = Finished -> Z.of_nat (length (pubs ev)) = n).
Proof. exact c08_at_most_max_rounds_lemma. Qed.

(* (g) zero durations: with max = 0 (in particular all durations zero) a reading publishes iff it lies strictly
   after the round start - a round is never published at the instant it starts *)
Theorem c08_zero_max : forall c t0 is l1 o l2 now, Accept c -> max_round_duration c = 0 ->
  run_log c t0 is = l1 ++ o :: l2 -> reading o = Some now ->
  is_pub o = (g_start (ghost_after c t0 l1) <? now).
Proof. exact c08_zero_max_lemma. Qed.

(* (g) min = max: the target-found arm never ends a round earlier than the time limit; only the reason differs *)
Theorem c08_min_eq_max : forall c t0 is l1 o l2 now, Accept c -> min_round_duration c = max_round_duration c ->
  run_log c t0 is = l1 ++ o :: l2 -> reading o = Some now ->
  is_pub o = (max_round_duration c <? now - g_start (ghost_after c t0 l1)).
Proof. exact c08_min_eq_max_lemma. Qed.

(* non-vacuity.  [rt_ex_ins]: the path of rl_ex_ins with a clock that is set back and jumps: readings 1 2 3 4 (the
   target answers at 4), -50 (set back: open), 11 (publish, TargetFound; round 1 starts at 12), 16, 5 (set back before
   the round start), 40, 1000 (jump: publish, time limit) *)
Example c08_ex2_accept : (Accept rl_ex_cfg /\ Accept rt_cfg2 /\ Accept rt_zero_cfg) /\
  min_round_duration rl_ex_cfg <= max_round_duration rl_ex_cfg.
Proof. split; [exact rt_cfgs_accept|cbn; lia]. Qed.

Example c08_ex2_decisions :
  decisions (run_log rl_ex_cfg 0 rt_ex_ins) =
    [(1, false); (2, false); (3, false); (4, false); (-50, false); (11, true); (16, false); (5, false); (40, false);
     (1000, true)] /\
  map rr_reason (pubs (fst (fst (run rl_ex_cfg 0 rt_ex_ins)))) = [TargetFound; RoundTimeLimitExceeded].
Proof. split; vm_compute; reflexivity. Qed.

(* the set-back readings meet the hypotheses of c08_clock_set_back, the round-1 segment those of c08_first_satisfying *)
Example c08_ex2_set_back : let L := run_log rl_ex_cfg 0 rt_ex_ins in
  (exists l1 l2, L = l1 ++ OUpdate (-50) :: l2 /\ -50 <= g_start (ghost_after rl_ex_cfg 0 l1)) /\
  (exists l1 l2, L = l1 ++ OUpdate 5 :: l2 /\ g_start (ghost_after rl_ex_cfg 0 l1) = 12) /\
  (exists l1 mid r l2, L = l1 ++ mid ++ OPublish r 1000 1001 :: l2 /\ no_publish mid /\ npub l1 = 1%nat /\
     length mid = 6%nat).
Proof.
  intros L. split; [|split].
  - exists (firstn 11 L), (skipn 12 L). split; [lazy; reflexivity|lazy; discriminate].
  - exists (firstn 16 L), (skipn 17 L). split; lazy; reflexivity.
  - exists (firstn 13 L), (firstn 6 (skipn 13 L)). eexists. exists (skipn 20 L).
    split; [lazy; reflexivity|]. split; [|split; lazy; reflexivity].
    intros r now adv Hin. lazy in Hin. repeat (destruct Hin as [Hin|Hin]; [discriminate Hin|]). exact Hin.
Qed.

(* the probes of round 1 carry round number 1 = publications before them *)
Example c08_ex2_probe_round : exists l1 p l2,
  run_log rl_ex_cfg 0 rt_ex_ins = l1 ++ OSend p Sent :: l2 /\ npub l1 = 1%nat /\ p_round p = 1.
Proof.
  exists (firstn 13 (run_log rl_ex_cfg 0 rt_ex_ins)). eexists. exists (skipn 14 (run_log rl_ex_cfg 0 rt_ex_ins)).
  split; [lazy; reflexivity|]. split; lazy; reflexivity.
Qed.

(* bounded to two rounds the same run finishes, and the publication of round 1 is its last observation *)
Example c08_ex2_bounded :
  snd (fst (run rt_cfg2 0 rt_ex_ins)) = Finished /\ length (pubs (fst (fst (run rt_cfg2 0 rt_ex_ins)))) = 2%nat /\
  exists l1 r, run_log rt_cfg2 0 rt_ex_ins = l1 ++ OPublish r 1000 1001 :: [] /\ npub l1 = 1%nat.
Proof.
  split; [vm_compute; reflexivity|]. split; [vm_compute; reflexivity|].
  exists (firstn 19 (run_log rt_cfg2 0 rt_ex_ins)). eexists. split; lazy; reflexivity.
Qed.

(* all durations zero: readings 0 (the start itself: open), -3 (open), 1 (publish; round 1 starts at 2), 2 (open), 3 *)
Example c08_ex2_zero :
  decisions (run_log rt_zero_cfg 0 rt_zero_ins) = [(0, false); (-3, false); (1, true); (2, false); (3, true)].
Proof. vm_compute. reflexivity. Qed.

(* an instance of c08_iteration: after the first five iterations the run is still running, and the sixth publishes *)
Example c08_ex2_iteration : exists ev0 s0 s' ev1 r,
  run rl_ex_cfg 0 (firstn 5 rt_ex_ins) = (ev0, Running, s0) /\
  step rl_ex_cfg s0 (rl_ex_it Timeout 11) = Ok (s', ev1, None) /\ pubs ev1 = [r] /\ round_start s' = 12.
Proof. eexists _, _, _, _, _. split; [vm_compute; reflexivity|]. split; [vm_compute; reflexivity|]. split; vm_compute; reflexivity. Qed.
