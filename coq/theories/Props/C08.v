(* C08 - Rounds end exactly when the timing policy says.
   Model: TV.Core.Strategy.{update_round, should_publish, exceeds, publish_trace} and advance_round;
   time is Z nanoseconds, duration_since(..).unwrap_or_default() = max 0 (a - b); clock readings arbitrary. *)
From TV Require Import Base.Result Core.Types Core.TracerState Core.Strategy Core.Builder
  Proofs.StrategyInv Proofs.StrategyProps.

(* [policy c s now]: duration > max, or (duration > min and target answered in this round and more than
   grace has passed since the last accepted response) *)
Theorem c08_publish_iff : forall c s i, Accept c -> Inv c s ->
  exists s' ev, update_round c s i = Ok (s', ev) /\
    ((exists r, ev = [EPublish r] /\ policy c s (i_update i) /\
        rr_reason r = (if target_found s then TargetFound else RoundTimeLimitExceeded) /\
        round_start s' = i_advance i /\ round s' = round s + 1)
     \/ (ev = [] /\ s' = s /\ ~ policy c s (i_update i))).
Proof. exact c08_publish_iff_lemma. Qed.

(* the reason tells which: TimeLimit only if the time limit was exceeded without a target response *)
Theorem c08_reason_sound : forall c s i s' r, Accept c -> Inv c s ->
  update_round c s i = Ok (s', [EPublish r]) ->
  (rr_reason r = TargetFound <-> target_found s = true) /\
  (rr_reason r = RoundTimeLimitExceeded -> max_round_duration c < Z.max 0 (i_update i - round_start s)).
Proof.
  intros c s i s' r HA HI Hu.
  destruct (c08_publish_iff_lemma c s i HA HI) as (s2 & ev & Hu2 & Hc). rewrite Hu in Hu2. inversion Hu2; subst s2 ev.
  destruct Hc as [(r' & Hr & Hpol & Hreason & _)|(Hnil & _)]; [|discriminate].
  inversion Hr; subst r'. rewrite Hreason. destruct (target_found s) eqn:Et.
  - split; [split; intros _; reflexivity|intros H; discriminate H].
  - split; [split; intros H; discriminate H|]. intros _. destruct Hpol as [H|(_ & H & _)]; [assumption|congruence].
Qed.

(* a round is never held open once an update reading lies more than max beyond the round start *)
Theorem c08_bounded : forall c s now, max_round_duration c < now - round_start s -> should_publish c s now = true.
Proof. exact c08_bounded_lemma. Qed.

Theorem c08_policy_is_decision : forall c s now, should_publish c s now = true <-> policy c s now.
Proof. exact should_publish_iff. Qed.

(* ------------------------------------------------------------------------------------------------------
   C08 over WHOLE RUNS (Proofs/RunLog.v, Proofs/RunLogProps.v; vocabulary explained in Props/C06.v).
   The ghost of a log prefix holds, for the round in progress, the instant it started [g_start], its send log
   and its genuine answers [g_A] - all read off the observation log, never off the tracer state.
   [found A]: some genuine answer of the round came from the target; [last_recv A]: receive time of the latest. *)
From TV Require Import Proofs.RoundHistory Proofs.RunLog Proofs.RunLogProps.

(* only when: every round published in any run satisfies the policy at the reading update_round took, measured
   from the start of that round and from its genuine answers; and the reason tells which *)
Theorem c08_run_publish_only_when : forall c t0 is l1 r now adv l2, Accept c ->
  run_log c t0 is = l1 ++ OPublish r now adv :: l2 ->
  let g := ghost_after c t0 l1 in
  (let dur := Z.max 0 (now - g_start g) in
   max_round_duration c < dur \/
   (min_round_duration c < dur /\ found (g_A g) = true /\
    exists t, last_recv (g_A g) = Some t /\ grace_duration c < Z.max 0 (now - t))) /\
  (rr_reason r = TargetFound <-> found (g_A g) = true) /\
  (rr_reason r = RoundTimeLimitExceeded -> found (g_A g) = false /\ max_round_duration c < Z.max 0 (now - g_start g)).
Proof. exact c08_run_publish_lemma. Qed.

(* exactly when: a reading of update_round that leaves the round open does not satisfy the policy *)
Theorem c08_run_open_only_when_not : forall c t0 is l1 now l2, Accept c ->
  run_log c t0 is = l1 ++ OUpdate now :: l2 ->
  let g := ghost_after c t0 l1 in
  let dur := Z.max 0 (now - g_start g) in
  ~ (max_round_duration c < dur \/
     (min_round_duration c < dur /\ found (g_A g) = true /\
      exists t, last_recv (g_A g) = Some t /\ grace_duration c < Z.max 0 (now - t))).
Proof. exact c08_run_no_publish_lemma. Qed.

(* the next round starts at the instant the previous one is published: the start the two theorems above measure
   from is t0 for the first round and, for every later round, the clock reading advance_round took right after
   the publish callback of the round before *)
Theorem c08_round_starts_at_publish : forall c t0,
  (forall mid, no_publish mid -> g_start (ghost_after c t0 mid) = t0) /\
  (forall l1 r now adv mid, no_publish mid -> g_start (ghost_after c t0 (l1 ++ OPublish r now adv :: mid)) = adv).
Proof. exact c08_round_start_lemma. Qed.

(* never held open longer than max-round-duration plus one read timeout.  Environment assumption [paced D]: each
   reading of update_round is at most D later than the previous reading of the update / advance clock (t0 for the
   first) - one pass of the loop, i.e. a send and one bounded wait for a response.  Then every reading that leaves
   a round open lies at most max after the start of that round, and the reading that publishes it at most max + D. *)
Theorem c08_held_open_bound : forall c t0 is D, Accept c ->
  paced D t0 (run_log c t0 is) -> held_ok c D t0 (run_log c t0 is).
Proof. exact c08_held_open_lemma. Qed.

(* the ghost is what the code holds: at the end of every run that did not fail the inputs of the completion
   decision in the tracer state - round_start, received_time, target_found - are the ghost of the log *)
Theorem c08_state_is_ghost : forall c t0 is ev o sf, Accept c -> run c t0 is = (ev, o, sf) ->
  (forall e, o <> Failed_with e) ->
  let g := ghost_after c t0 (run_log c t0 is) in
  round_start sf = g_start g /\ received_time sf = last_recv (g_A g) /\ target_found sf = found (g_A g).
Proof. intros c t0 is ev o sf HA E Hne. exact (proj2 (ghost_is_state_lemma c t0 is ev o sf HA E Hne)). Qed.

(* non-vacuity on the example run of Proofs/RunLogProps.v (target found in round 0, time limit in round 1; consecutive
   readings at most 29 apart) *)
Example c08_ex_reasons :
  map rr_reason (pubs (fst (fst (run rl_ex_cfg 0 rl_ex_ins)))) = [TargetFound; RoundTimeLimitExceeded].
Proof. vm_compute. reflexivity. Qed.

Example c08_ex_paced : paced 29 0 (run_log rl_ex_cfg 0 rl_ex_ins).
Proof. lazy. repeat split; discriminate. Qed.

Example c08_ex_publish : exists l1 r now adv l2,
  run_log rl_ex_cfg 0 rl_ex_ins = l1 ++ OPublish r now adv :: l2 /\ now = 11 /\ adv = 12 /\
  g_start (ghost_after rl_ex_cfg 0 l1) = 0.
Proof.
  exists (firstn 13 (run_log rl_ex_cfg 0 rl_ex_ins)). eexists _, _, _. exists (skipn 14 (run_log rl_ex_cfg 0 rl_ex_ins)).
  split; [lazy; reflexivity|]. lazy. repeat split.
Qed.
