(* C08 - Rounds end exactly when the timing policy says.
   Model: TV.Core.Strategy.{update_round, should_publish, exceeds, publish_trace} and advance_round;
   time is Z nanoseconds, duration_since(..).unwrap_or_default() = max 0 (a - b); clock readings arbitrary. *)
From TV Require Import Base.Result Core.Types Core.TracerState Core.Strategy Core.Builder
  Proofs.StrategyInv Proofs.StrategyProps.

(* [policy c s now]: duration > max, or (duration > min and target answered in this round and more than
   grace has passed since the last accepted response) *)
Theorem c08_publish_iff : forall c s i, Accept c -> Inv c s ->
  exists s' ev, update_round c s i = Ok (s', ev) /\
    ((exists r, ev = [EPublish r] /\ policy c s (i_update i) /\
        rr_reason r = (if target_found s then TargetFound else RoundTimeLimitExceeded) /\
        round_start s' = i_advance i /\ round s' = round s + 1)
     \/ (ev = [] /\ s' = s /\ ~ policy c s (i_update i))).
Proof. exact c08_publish_iff_lemma. Qed.

(* the reason tells which: TimeLimit only if the time limit was exceeded without a target response *)
Theorem c08_reason_sound : forall c s i s' r, Accept c -> Inv c s ->
  update_round c s i = Ok (s', [EPublish r]) ->
  (rr_reason r = TargetFound <-> target_found s = true) /\
  (rr_reason r = RoundTimeLimitExceeded -> max_round_duration c < Z.max 0 (i_update i - round_start s)).
Proof.
  intros c s i s' r HA HI Hu.
  destruct (c08_publish_iff_lemma c s i HA HI) as (s2 & ev & Hu2 & Hc). rewrite Hu in Hu2. inversion Hu2; subst s2 ev.
  destruct Hc as [(r' & Hr & Hpol & Hreason & _)|(Hnil & _)]; [|discriminate].
  inversion Hr; subst r'. rewrite Hreason. destruct (target_found s) eqn:Et.
  - split; [split; intros _; reflexivity|intros H; discriminate H].
  - split; [split; intros H; discriminate H|]. intros _. destruct Hpol as [H|(_ & H & _)]; [assumption|congruence].
Qed.

(* a round is never held open once an update reading lies more than max beyond the round start *)
Theorem c08_bounded : forall c s now, max_round_duration c < now - round_start s -> should_publish c s now = true.
Proof. exact c08_bounded_lemma. Qed.

Theorem c08_policy_is_decision : forall c s now, should_publish c s now = true <-> policy c s now.
Proof. exact should_publish_iff. Qed.
