(* C09 - Termination, round count and failure semantics.
   Model: TV.Core.Strategy.{run, step, do_send, tcp_reissue_loop} over arbitrary input histories. *)
From TV Require Import Base.Result Core.Types Core.TracerState Core.Strategy Core.Builder
  Proofs.StrategyInv Proofs.StrategyProps.

(* whatever the network does, the loop never panics / overflows / indexes out of bounds *)
Theorem c09_run_never_faults : forall c t0 is, Accept c ->
  let '(ev, o, sf) := run c t0 is in Inv c sf /\ forall f, o <> Faulted f.
Proof. intros c t0 is HA. apply run_from_inv; [assumption|apply inv_new; assumption]. Qed.

(* rounds are published with ids 0,1,2,... in order (every probe of the j-th published round carries
   round id j), never more than the limit n, and a run that finishes has published exactly n *)
Theorem c09_round_ids_and_count : forall c t0 is, Accept c ->
  let '(ev, o, sf) := run c t0 is in
  (forall j r, nth_error (pubs ev) j = Some r -> round_probes_ok (Z.of_nat j) r) /\
  (forall n, max_rounds c = Some n -> Z.of_nat (length (pubs ev)) <= n /\
             (o = Finished -> Z.of_nat (length (pubs ev)) = n)) /\
  (max_rounds c = None -> o <> Finished).
Proof.
  intros c t0 is HA. pose proof (run_rounds_lemma c HA is (ts_new c t0) (inv_new c t0 HA)) as H.
  unfold run. destruct (run_from c (ts_new c t0) is) as [[ev o] sf].
  destruct H as (H1 & H2 & H3 & H4). cbn [ts_new round] in *.
  split; [intros j r Hj; specialize (H2 j r Hj); rewrite Z.add_0_l in H2; exact H2|].
  split; [|assumption]. intros n Hn.
  destruct HA as [_ Hw]. unfold cfg_wf in Hw. destruct Hw as (_ & _ & _ & _ & _ & _ & _ & _ & _ & Hmr). rewrite Hn in Hmr.
  destruct (H3 n Hn ltac:(lia)) as [Ha Hb]. split; [lia|]. intros Ho. specialize (Hb Ho). lia.
Qed.

(* a fatal receive error ends the iteration (and so the run) with that error, nothing is published *)
Theorem c09_fatal_surfaces : forall c s i x, Accept c -> Inv c s -> i_recv i = FatalR x ->
  exists s' ev e, step c s i = Ok (s', ev, Some e) /\ pubs ev = [] /\
    ((exists s1 ev1, send_request c s i = Ok (s1, ev1, None) /\ e = x) \/
     (exists s1 ev1, send_request c s i = Ok (s1, ev1, Some e))).
Proof. exact c09_fatal_recv_lemma. Qed.

(* a transient send failure marks exactly that probe Failed and tracing continues *)
Theorem c09_transient : forall c s p s1 sent, Accept c -> Inv c s ->
  sequence s - round_sequence s < 512 -> ttl s <= 254 ->
  next_probe c s sent = Ok (p, s1) ->
  exists s2, do_send s1 ProbeFailedO = Ok (SDone s2) /\ Inv c s2 /\
    nth_error (buffer s2) (Z.to_nat (sequence s - round_sequence s)) = Some (Failed p) /\
    sequence s2 = sequence s + 1 /\ ttl s2 = ttl s + 1.
Proof. exact c09_transient_lemma. Qed.

(* TCP address-in-use: the abandoned slot is Skipped, the next sequence is issued with the same TTL *)
Theorem c09_reissue : forall c s sent, Accept c -> Inv c s -> proto c = Tcp ->
  round_sequence s < sequence s -> sequence s - round_sequence s < 512 -> first_ttl c < ttl s ->
  exists d p s',
    probe_data c s = Ok d /\ p = mk_probe s d (ttl s - 1) sent /\
    reissue_probe c s sent = Ok (p, s') /\
    buffer s' = upd (Z.to_nat (sequence s - round_sequence s)) (Awaited p)
                    (upd (Z.to_nat (sequence s - round_sequence s - 1)) Skipped (buffer s)) /\
    sequence s' = sequence s + 1 /\ round_sequence s' = round_sequence s /\ ttl s' = ttl s /\
    round s' = round s /\ round_start s' = round_start s /\ target_found s' = target_found s /\
    max_received_ttl s' = max_received_ttl s /\ target_ttl s' = target_ttl s /\ received_time s' = received_time s /\
    Inv c s'.
Proof. exact reissue_probe_spec. Qed.

(* ====================================================================================================
   Whole-run statements (Proofs/RunSemantics.v).  Vocabulary, all of it defined there without reference to
   the loop: [injected c i e] - the environment of iteration i hands error e to the loop (fatal receive outcome,
   fatal send outcome, address-in-use where there is no re-issue loop; the only error the loop makes up itself is the
   TCP capacity error); [no_fatal c i] / [benign i] - iteration i injects nothing fatal (responses arbitrary or
   withheld; transient send failures allowed; address-in-use allowed for TCP / not at all);
   [count_expired c t0 is] - a lower bound, computed from the clock readings alone, of the number of rounds whose
   maximum duration has run out; [segs [] ev] - the event trace cut into (sends of the round, round published after
   them); [round_semantics c k S r] - what round r, number k, must say about the sends S.
   ==================================================================================================== *)
From TV Require Import Proofs.RoundHistory Proofs.RunSemantics.

(* With a round limit n: if the environment injects nothing fatal and lets n rounds expire, the run publishes exactly
   n rounds, numbered 0..n-1 in order, and returns success - whatever responses the network returns or withholds,
   whichever sends fail transiently.  (With TCP address-in-use outcomes the only other possible end is the capacity
   error of C07.) *)
Theorem c09_exactly_n_rounds : forall c t0 is n, Accept c -> max_rounds c = Some n -> Forall (no_fatal c) is ->
  n <= Z.of_nat (count_expired c t0 is) ->
  let '(ev, o, sf) := run c t0 is in
  (o = Finished /\ Z.of_nat (length (pubs ev)) = n /\
   forall j r, nth_error (pubs ev) j = Some r -> round_probes_ok (Z.of_nat j) r) \/
  (proto c = Tcp /\ o = Failed_with EInsufficientCapacity).
Proof. exact run_exactly_n. Qed.

Theorem c09_exactly_n_rounds_benign : forall c t0 is n, Accept c -> max_rounds c = Some n -> Forall benign is ->
  n <= Z.of_nat (count_expired c t0 is) ->
  let '(ev, o, sf) := run c t0 is in
  o = Finished /\ Z.of_nat (length (pubs ev)) = n /\
  forall j r, nth_error (pubs ev) j = Some r -> round_probes_ok (Z.of_nat j) r.
Proof. exact run_exactly_n_benign. Qed.

(* success is final: a finished run stays finished with the same events whatever the environment offers afterwards,
   and its final state is at the round limit *)
Theorem c09_finished_is_final : forall c t0 is more ev sf, run c t0 is = (ev, Finished, sf) ->
  run c t0 (is ++ more) = (ev, Finished, sf) /\ finished sf (max_rounds c) = true.
Proof. exact run_finished_final. Qed.

(* An iteration that ends with an error ends the run: the result is exactly that error, the events of the run end with
   the sends of that iteration (nothing is published in it), the rest of the environment [post] is never consulted,
   and the error was injected by the environment of that iteration. *)
Theorem c09_error_ends_run : forall c t0 pre i post ev0 s0 s' ev1 e, Accept c ->
  run c t0 pre = (ev0, Running, s0) -> step c s0 i = Ok (s', ev1, Some e) ->
  run c t0 (pre ++ i :: post) = (ev0 ++ ev1, Failed_with e, s') /\ pubs ev1 = [] /\ injected c i e.
Proof. exact run_error_ends_full. Qed.

(* Every failed run is of that form: no error appears that the environment did not inject. *)
Theorem c09_failed_run : forall c t0 is ev e sf, Accept c -> run c t0 is = (ev, Failed_with e, sf) ->
  exists pre i post ev0 s0 ev1, is = pre ++ i :: post /\ run c t0 pre = (ev0, Running, s0) /\
    ev = ev0 ++ ev1 /\ pubs ev1 = [] /\ injected c i e /\ step c s0 i = Ok (sf, ev1, Some e).
Proof. exact run_failed_injected. Qed.

Theorem c09_no_fatal_no_error : forall c t0 is ev e sf, Accept c -> Forall (no_fatal c) is ->
  run c t0 is = (ev, Failed_with e, sf) -> e = EInsufficientCapacity /\ proto c = Tcp.
Proof. exact run_no_fatal_error. Qed.

Theorem c09_benign_never_fails : forall c t0 is, Accept c -> Forall benign is ->
  let '(ev, o, sf) := run c t0 is in forall e, o <> Failed_with e.
Proof. exact run_benign_never_fails. Qed.

(* Fatal receive outcome x in a run that has not ended: the run ends in this iteration, after its sends, in the state
   the send phase left; the error is x unless the send phase of the same iteration already failed with e1. *)
Theorem c09_fatal_recv_ends_run : forall c t0 pre i post ev0 s0 x, Accept c ->
  run c t0 pre = (ev0, Running, s0) -> i_recv i = FatalR x ->
  exists s1 ev1 e, send_request c s0 i = Ok (s1, ev1, e) /\ pubs ev1 = [] /\
    run c t0 (pre ++ i :: post) = (ev0 ++ ev1, Failed_with (match e with Some e1 => e1 | None => x end), s1).
Proof. exact run_fatal_recv. Qed.

(* Fatal outcome x of the first send of an iteration that does send: the run ends with exactly x, its last event is
   that send (sequence and ttl of the state), nothing follows. *)
Theorem c09_fatal_send_ends_run : forall c t0 pre i post ev0 s0 x rest, Accept c ->
  run c t0 pre = (ev0, Running, s0) -> i_sends i = FatalS x :: rest ->
  can_send c s0 = Ok true -> sequence s0 - round_sequence s0 < 512 ->
  exists p s1, next_probe c s0 (hd_clock (i_clock i) (round_start s0)) = Ok (p, s1) /\
    p_sequence p = sequence s0 /\ p_ttl p = ttl s0 /\
    run c t0 (pre ++ i :: post) = (ev0 ++ [ESend p (FatalS x)], Failed_with x, s1).
Proof. exact run_fatal_send. Qed.

(* Transient failure of the send of an iteration, as a statement about send_request (any protocol): exactly the slot of
   that probe becomes Failed - the buffer differs from the one before the iteration in that slot only -, the sequence
   and the ttl move on by one as after a successful send, and the iteration has no error (it goes on to receive). *)
Theorem c09_transient_continues : forall c s i rest, Accept c -> Inv c s -> can_send c s = Ok true ->
  sequence s - round_sequence s < 512 -> i_sends i = ProbeFailedO :: rest ->
  exists d p s2, probe_data c s = Ok d /\ p = mk_probe s d (ttl s) (hd_clock (i_clock i) (round_start s)) /\
    send_request c s i = Ok (s2, [ESend p ProbeFailedO], None) /\ Inv c s2 /\
    buffer s2 = upd (Z.to_nat (sequence s - round_sequence s)) (Failed p) (buffer s) /\
    sequence s2 = sequence s + 1 /\ ttl s2 = ttl s + 1 /\ same_book s s2.
Proof. exact transient_send. Qed.

(* What the published rounds say, on the event trace of the run itself.  For the j-th published round r and the sends
   S handed to the network since the previous publication: r has one slot per send; every probe of S carries round
   number j; no fatal send outcome precedes a publication; a transient failure is reported as Failed with exactly
   that probe; address-in-use occurs only for TCP, is reported as Skipped, and is followed by a send under the next
   sequence number with the same ttl and round; any other send is reported as Awaited or Complete with exactly that
   probe and the next send (if any) has the next sequence number and the next ttl. *)
Theorem c09_published_round_semantics : forall c t0 is, Accept c ->
  let '(ev, o, sf) := run c t0 is in
  map snd (segs [] ev) = pubs ev /\
  forall j Sj r, nth_error (segs [] ev) j = Some (Sj, r) -> round_semantics c (Z.of_nat j) Sj r.
Proof. exact run_round_semantics. Qed.

(* conversely: a slot is Skipped only for an address-in-use send, Failed p only for a transient failure of p *)
Theorem c09_skipped_failed_only_then : forall c k S r, round_semantics c k S r ->
  forall i, (nth_error (rr_probes r) i = Some Skipped -> exists p, nth_error S i = Some (p, AddressInUseO)) /\
            (forall p, nth_error (rr_probes r) i = Some (Failed p) -> nth_error S i = Some (p, ProbeFailedO)).
Proof. exact round_semantics_converse. Qed.

(* ---- non-vacuity ---- *)
Definition c09_it (sends : list send_outcome) (rc : recv_outcome) (u a : Z) : iter_in :=
  {| i_clock := [u]; i_sends := sends; i_recv := rc; i_update := u; i_advance := a |}.

Definition c09_cfg_icmp : scfg :=
  {| target_addr := [1;2;3;4]; proto := Icmp; trace_identifier := 7; max_rounds := Some 3;
     first_ttl := 1; max_ttl := 4; grace_duration := 100; max_inflight := 24;
     initial_sequence := 33434; multipath := Classic; port_direction := PdNone;
     min_round_duration := 1000; max_round_duration := 1000 |}.

Definition c09_env_icmp : list iter_in :=
  [c09_it [Sent] Timeout 10 10; c09_it [ProbeFailedO] Timeout 20 20; c09_it [] Timeout 1500 1501;
   c09_it [Sent] Timeout 1600 1600; c09_it [] Timeout 2700 2701; c09_it [] Timeout 4000 4000; c09_it [] Timeout 9000 9000].

(* the hypotheses of c09_exactly_n_rounds_benign are satisfiable, and the run is what the theorem says *)
Example c09_termination_example :
  Accept c09_cfg_icmp /\ Forall benign c09_env_icmp /\ 3 <= Z.of_nat (count_expired c09_cfg_icmp 0 c09_env_icmp) /\
  let '(ev, o, sf) := run c09_cfg_icmp 0 c09_env_icmp in
  o = Finished /\ length (pubs ev) = 3%nat /\
  map (fun x => map (fun po => (p_sequence (fst po), p_ttl (fst po), snd po)) (fst x)) (segs [] ev) =
    [[(33434, 1, Sent); (33435, 2, ProbeFailedO); (33436, 3, Sent)]; [(33437, 1, Sent); (33438, 2, Sent)]; [(33439, 1, Sent)]].
Proof.
  split; [split; [reflexivity|unfold cfg_wf, u8, u16; cbn; lia]|].
  split.
  { assert (Hb : forall s u a, Forall (fun o => o = Sent \/ o = ProbeFailedO) s -> benign (c09_it s Timeout u a))
      by (intros s u a H; split; [intros e; discriminate|exact H]).
    unfold c09_env_icmp. repeat (constructor; [apply Hb; repeat (constructor; [auto|])|]); constructor. }
  split; [vm_compute; discriminate|]. vm_compute. split; [reflexivity|]. split; reflexivity.
Qed.

Definition c09_cfg_tcp : scfg :=
  {| target_addr := [1;2;3;4]; proto := Tcp; trace_identifier := 0; max_rounds := Some 2;
     first_ttl := 1; max_ttl := 4; grace_duration := 100; max_inflight := 24;
     initial_sequence := 33434; multipath := Classic; port_direction := FixedDest 80;
     min_round_duration := 1000; max_round_duration := 1000 |}.

Definition c09_env_tcp : list iter_in :=
  [c09_it [AddressInUseO; AddressInUseO; Sent] Timeout 10 10; c09_it [ProbeFailedO] Timeout 20 20;
   c09_it [AddressInUseO; ProbeFailedO] Timeout 1500 1501; c09_it [Sent] Timeout 1600 1600;
   c09_it [] (FatalR (EIo 5)) 2600 2601; c09_it [] Timeout 2700 2700].

Definition c09_status_tag (st : pstatus) : Z :=
  match st with NotSent => 0 | Skipped => 1 | Failed _ => 2 | Awaited _ => 3 | Complete _ => 4 end.

(* a TCP run with re-issues and transient failures in the published round, ended by a fatal receive outcome:
   Skipped / Failed exactly where the sends say so, the re-issues keep the ttl, the error is the injected one,
   and the iteration after the failing one is never run *)
Example c09_tcp_example :
  Accept c09_cfg_tcp /\
  let '(ev, o, sf) := run c09_cfg_tcp 0 c09_env_tcp in
  o = Failed_with (EIo 5) /\
  map (fun x => (map (fun po => (p_sequence (fst po), p_ttl (fst po), snd po)) (fst x),
                 map c09_status_tag (rr_probes (snd x)))) (segs [] ev) =
    [([(33434, 1, AddressInUseO); (33435, 1, AddressInUseO); (33436, 1, Sent); (33437, 2, ProbeFailedO);
       (33438, 3, AddressInUseO); (33439, 3, ProbeFailedO)], [1; 1; 3; 2; 1; 2])].
Proof.
  split; [split; [reflexivity|unfold cfg_wf; cbn; unfold u8, u16; lia]|]. vm_compute. split; reflexivity.
Qed.

(* round_semantics is not vacuous: a round that reports a transiently failed send as still awaited, or an abandoned
   (address-in-use) slot without a re-issue after it, is rejected *)
Definition c09_probe (q t : Z) : probe :=
  {| p_sequence := q; p_identifier := 0; p_src_port := 0; p_dest_port := 80; p_ttl := t; p_round := 0; p_sent := 0; p_flags := 0 |}.
Definition c09_round (l : list pstatus) : round_rec := {| rr_probes := l; rr_largest_ttl := 0; rr_reason := RoundTimeLimitExceeded |}.

Example c09_round_semantics_rejects :
  round_semantics c09_cfg_tcp 0 [(c09_probe 5 1, AddressInUseO); (c09_probe 6 1, ProbeFailedO)]
                  (c09_round [Skipped; Failed (c09_probe 6 1)]) /\
  ~ round_semantics c09_cfg_tcp 0 [(c09_probe 5 1, ProbeFailedO)] (c09_round [Awaited (c09_probe 5 1)]) /\
  ~ round_semantics c09_cfg_tcp 0 [(c09_probe 5 1, AddressInUseO)] (c09_round [Skipped]) /\
  ~ round_semantics c09_cfg_tcp 0 [(c09_probe 5 1, AddressInUseO); (c09_probe 6 2, Sent)]
                    (c09_round [Skipped; Awaited (c09_probe 6 2)]).
Proof.
  split; [|split; [|split]].
  - split; [reflexivity|]. intros [|[|i]] p o Hi; cbn in Hi; try (destruct i; discriminate); inversion Hi; subst; cbn.
    + split; [reflexivity|]. split; [discriminate|]. split; [|congruence].
      split; [reflexivity|]. split; [reflexivity|]. eexists _, _. split; [reflexivity|]. cbn. repeat split; lia.
    + split; [reflexivity|]. split; [discriminate|]. split; [reflexivity|]. intros _ p' o' H; discriminate.
  - intros [_ H]. destruct (H 0%nat _ _ eq_refl) as (_ & _ & X & _). cbn in X. discriminate.
  - intros [_ H]. destruct (H 0%nat _ _ eq_refl) as (_ & _ & (_ & _ & p' & o' & X & _) & _). cbn in X. discriminate.
  - intros [_ H]. destruct (H 0%nat _ _ eq_refl) as (_ & _ & (_ & _ & p' & o' & X & _ & Y & _) & _). cbn in X. inversion X; subst. cbn in Y. lia.
Qed.

(* ====================================================================================================
   The wait for the next datagram itself (net/platform/unix.rs SocketImpl::is_readable, model Net/Platform.v; tied to the real
   socket implementation by harness mode `platform`: loopback sockets, a stream of signals).
   A wait that a signal interrupts is a wait that found nothing - never an error: whatever signals the process receives, no
   call of is_readable made by the loop returns an error unless select(2) failed for another reason, so signals cannot end a run. *)
From TV Require Net.Platform.
Theorem c09_interrupted_wait_is_a_timeout : forall rs,
  Forall (fun r => match r with Platform.SelCount _ => True | Platform.SelErrno e => e = Platform.EINTR end) rs ->
  Forall (fun x => exists b, x = Ok b) (Platform.waits rs) /\
  forall k r, nth_error rs k = Some (Platform.SelErrno r) -> nth_error (Platform.waits rs) k = Some (Ok false).
Proof.
  intros rs H. split.
  - unfold Platform.waits. induction H as [|r rs Hr _ IH]; cbn [map]; constructor; [|exact IH].
    destruct r as [n|e]; cbn [Platform.is_readable_of]; [eexists; reflexivity|]. subst e. rewrite Z.eqb_refl. eexists; reflexivity.
  - intros k r Hk. unfold Platform.waits. rewrite nth_error_map, Hk. cbn [option_map Platform.is_readable_of].
    rewrite Forall_forall in H. specialize (H _ (nth_error_In _ _ Hk)). cbn in H. subst r. rewrite Z.eqb_refl. reflexivity.
Qed.

(* ... and any other errno is the fatal error the run ends with (C09: a fatal socket error ends the run with that error) *)
Theorem c09_select_error_is_fatal : forall e, e <> Platform.EINTR -> Platform.is_readable_of (Platform.SelErrno e) = Err (EIo e).
Proof. intros e H. cbn [Platform.is_readable_of]. destruct (Z.eqb_spec e Platform.EINTR); [contradiction|reflexivity]. Qed.
