(* C09 - Termination, round count and failure semantics.
   Model: TV.Core.Strategy.{run, step, do_send, tcp_reissue_loop} over arbitrary input histories. *)
From TV Require Import Base.Result Core.Types Core.TracerState Core.Strategy Core.Builder
  Proofs.StrategyInv Proofs.StrategyProps.

(* whatever the network does, the loop never panics / overflows / indexes out of bounds *)
Theorem c09_run_never_faults : forall c t0 is, Accept c ->
  let '(ev, o, sf) := run c t0 is in Inv c sf /\ forall f, o <> Faulted f.
Proof. intros c t0 is HA. apply run_from_inv; [assumption|apply inv_new; assumption]. Qed.

(* rounds are published with ids 0,1,2,... in order (every probe of the j-th published round carries
   round id j), never more than the limit n, and a run that finishes has published exactly n *)
Theorem c09_round_ids_and_count : forall c t0 is, Accept c ->
  let '(ev, o, sf) := run c t0 is in
  (forall j r, nth_error (pubs ev) j = Some r -> round_probes_ok (Z.of_nat j) r) /\
  (forall n, max_rounds c = Some n -> Z.of_nat (length (pubs ev)) <= n /\
             (o = Finished -> Z.of_nat (length (pubs ev)) = n)) /\
  (max_rounds c = None -> o <> Finished).
Proof.
  intros c t0 is HA. pose proof (run_rounds_lemma c HA is (ts_new c t0) (inv_new c t0 HA)) as H.
  unfold run. destruct (run_from c (ts_new c t0) is) as [[ev o] sf].
  destruct H as (H1 & H2 & H3 & H4). cbn [ts_new round] in *.
  split; [intros j r Hj; specialize (H2 j r Hj); rewrite Z.add_0_l in H2; exact H2|].
  split; [|assumption]. intros n Hn.
  destruct HA as [_ Hw]. unfold cfg_wf in Hw. destruct Hw as (_ & _ & _ & _ & _ & _ & _ & _ & _ & Hmr). rewrite Hn in Hmr.
  destruct (H3 n Hn ltac:(lia)) as [Ha Hb]. split; [lia|]. intros Ho. specialize (Hb Ho). lia.
Qed.

(* a fatal receive error ends the iteration (and so the run) with that error, nothing is published *)
Theorem c09_fatal_surfaces : forall c s i x, Accept c -> Inv c s -> i_recv i = FatalR x ->
  exists s' ev e, step c s i = Ok (s', ev, Some e) /\ pubs ev = [] /\
    ((exists s1 ev1, send_request c s i = Ok (s1, ev1, None) /\ e = x) \/
     (exists s1 ev1, send_request c s i = Ok (s1, ev1, Some e))).
Proof. exact c09_fatal_recv_lemma. Qed.

(* a transient send failure marks exactly that probe Failed and tracing continues *)
Theorem c09_transient : forall c s p s1 sent, Accept c -> Inv c s ->
  sequence s - round_sequence s < 512 -> ttl s <= 254 ->
  next_probe c s sent = Ok (p, s1) ->
  exists s2, do_send s1 ProbeFailedO = Ok (SDone s2) /\ Inv c s2 /\
    nth_error (buffer s2) (Z.to_nat (sequence s - round_sequence s)) = Some (Failed p) /\
    sequence s2 = sequence s + 1 /\ ttl s2 = ttl s + 1.
Proof. exact c09_transient_lemma. Qed.

(* TCP address-in-use: the abandoned slot is Skipped, the next sequence is issued with the same TTL *)
Theorem c09_reissue : forall c s sent, Accept c -> Inv c s -> proto c = Tcp ->
  round_sequence s < sequence s -> sequence s - round_sequence s < 512 -> first_ttl c < ttl s ->
  exists d p s',
    probe_data c s = Ok d /\ p = mk_probe s d (ttl s - 1) sent /\
    reissue_probe c s sent = Ok (p, s') /\
    buffer s' = upd (Z.to_nat (sequence s - round_sequence s)) (Awaited p)
                    (upd (Z.to_nat (sequence s - round_sequence s - 1)) Skipped (buffer s)) /\
    sequence s' = sequence s + 1 /\ round_sequence s' = round_sequence s /\ ttl s' = ttl s /\
    round s' = round s /\ round_start s' = round_start s /\ target_found s' = target_found s /\
    max_received_ttl s' = max_received_ttl s /\ target_ttl s' = target_ttl s /\ received_time s' = received_time s /\
    Inv c s'.
Proof. exact reissue_probe_spec. Qed.
