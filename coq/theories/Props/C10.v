(* C10 - The hop table covers exactly the probed path and ends at the target.
   Model: TV.Core.State.{fs_apply, fs_hops_view, fs_target_hop, update_lowest} (state.rs) and
   Core.Strategy.publish_trace (strategy.rs). *)
From TV Require Import Base.Result Core.Types Core.TracerState Core.Strategy Core.Builder Core.Flows Core.State
  Proofs.StrategyInv Proofs.StrategyProps Proofs.StateProofs Proofs.PublishWf.

(* wf_round: every probe ttl in 1..254, largest_ttl in 0..254 and either 0 or at least the ttl of some probe
   of the round - the shape in which the strategy publishes rounds.
   WInv: hops are tagged with their own ttl, and (lowest, highest) is either (0,0) or lowest >= 1 and
   (highest = 0 or lowest <= highest). *)

(* after ANY history of such rounds: no fault; highest = max of the reported path lengths, lowest = the least
   ttl ever probed, round count = number of rounds, and the round marker is the latest round's path length *)
Theorem c10_history : forall rs f, WInv f -> Forall wf_round rs ->
  exists f', fs_run f rs = Ok f' /\ WInv f' /\
    fs_highest_ttl f' = fold_left (fun h r => Z.max h (rr_largest_ttl r)) rs (fs_highest_ttl f) /\
    fs_lowest_ttl f' = fold_left (fun lo r => fold_left update_lowest (ttls (rr_probes r)) lo) rs (fs_lowest_ttl f) /\
    fs_round_count f' = fs_round_count f + Z.of_nat (length rs) /\
    (rs <> [] -> fs_highest_ttl_for_round f' = rr_largest_ttl (last rs {| rr_probes := []; rr_largest_ttl := 0; rr_reason := TargetFound |})).
Proof. exact fs_run_window. Qed.

Theorem c10_initial : forall ms, WInv (flow_state_new ms).
Proof. exact WInv_new. Qed.

(* the hop list: empty when nothing was probed or nothing answered; otherwise the gap-free ascending run
   lowest..highest, each probed hop carrying its own ttl; querying (hops, target hop) never faults *)
Theorem c10_window : forall f, WInv f ->
  exists hs, fs_hops_view f = Ok hs /\
    ((fs_lowest_ttl f = 0 \/ fs_highest_ttl f = 0) -> hs = []) /\
    (fs_lowest_ttl f <> 0 -> fs_highest_ttl f <> 0 ->
       hs = firstn (Z.to_nat (fs_highest_ttl f - fs_lowest_ttl f + 1)) (skipn (Z.to_nat (fs_lowest_ttl f - 1)) (fs_hops f)) /\
       Z.of_nat (length hs) = fs_highest_ttl f - fs_lowest_ttl f + 1 /\
       forall k h, nth_error hs k = Some h -> h_ttl h = 0 \/ h_ttl h = fs_lowest_ttl f + Z.of_nat k) /\
    exists th, fs_target_hop f = Ok th \/ fs_highest_ttl_for_round f > 254.
Proof. exact hops_view_window. Qed.

(* one round: every probed ttl's hop is tagged with that ttl *)
Theorem c10_probed_hops_tagged : forall f r, WInv f -> wf_round r ->
  exists f', fs_apply f r = Ok f' /\ WInv f' /\
    fs_highest_ttl f' = Z.max (fs_highest_ttl f) (rr_largest_ttl r) /\
    fs_highest_ttl_for_round f' = rr_largest_ttl r /\
    fs_round_count f' = fs_round_count f + 1 /\
    fs_lowest_ttl f' = fold_left update_lowest (ttls (rr_probes r)) (fs_lowest_ttl f) /\
    (forall t, In t (ttls (rr_probes r)) -> exists h, nth_error (fs_hops f') (Z.to_nat (t - 1)) = Some h /\ h_ttl h = t).
Proof. exact fs_apply_window. Qed.

(* strategy side: the published path length is the known target distance, else bounded by the farthest
   response + 1; it is 0 when nothing answered (and no target distance is known), and otherwise lies in
   first_ttl..254, so the aggregator's ttl - 1 indexing and the window slice are in range *)
Theorem c10_strategy_largest_ttl : forall c s, Accept c -> Inv c s ->
  exists r, publish_trace s = Ok r /\
    rr_probes r = firstn (Z.to_nat (sequence s - round_sequence s)) (buffer s) /\
    rr_reason r = (if target_found s then TargetFound else RoundTimeLimitExceeded) /\
    (rr_largest_ttl r = 0 \/ first_ttl c <= rr_largest_ttl r <= 254) /\
    rr_largest_ttl r =
      match target_ttl s with
      | Some t => t
      | None => match max_received_ttl s with None => 0 | Some m => Z.min (ttl s - 1) (m + 1) end
      end.
Proof. exact publish_trace_ok. Qed.

(* The link between the two halves: EVERY round the strategy publishes - for every builder-accepted configuration,
   every number of iterations and every environment behaviour (clock readings, send outcomes incl. TCP re-issues,
   deliveries) - has the shape wf_round the aggregator theorems above assume. *)
Theorem c10_strategy_rounds_wf : forall c t0 is, Accept c -> Forall wf_round (pubs (fst (fst (run c t0 is)))).
Proof. exact strategy_rounds_wf. Qed.

(* End to end: feeding whatever the strategy publishes into a fresh hop table never faults, the table keeps its
   window invariant, its highest ttl is the greatest path length any round reported, and querying it never fails. *)
Theorem c10_end_to_end : forall c t0 is ms, Accept c ->
  let rs := pubs (fst (fst (run c t0 is))) in
  exists f', fs_run (flow_state_new ms) rs = Ok f' /\ WInv f' /\
    fs_highest_ttl f' = fold_left (fun h r => Z.max h (rr_largest_ttl r)) rs 0 /\
    fs_round_count f' = Z.of_nat (length rs) /\
    exists hs, fs_hops_view f' = Ok hs.
Proof.
  intros c t0 is ms HA rs.
  destruct (fs_run_window rs (flow_state_new ms) (WInv_new ms) (strategy_rounds_wf c t0 is HA))
    as (f' & Hrun & HW & Hh & _ & Hrc & _).
  exists f'. split; [exact Hrun|]. split; [exact HW|]. split; [exact Hh|]. split; [rewrite Hrc; reflexivity|].
  destruct (hops_view_window f' HW) as (hs & Hv & _). exists hs. exact Hv.
Qed.

Example c10_wf_example : wf_round {| rr_probes := [Awaited {| p_sequence := 1; p_identifier := 0; p_src_port := 0; p_dest_port := 0; p_ttl := 3; p_round := 0; p_sent := 0; p_flags := 0 |}];
                                     rr_largest_ttl := 3; rr_reason := TargetFound |}.
Proof. unfold wf_round, ttls_ok. cbn. split; [repeat constructor; lia|]. split; [lia|]. right. exists 3. split; [left; reflexivity|lia]. Qed.
