(* C10 - The hop table covers exactly the probed path and ends at the target.
   Model: TV.Core.State.{fs_apply, fs_hops_view, fs_target_hop, update_lowest} (state.rs) and
   Core.Strategy.publish_trace (strategy.rs). *)
From TV Require Import Base.Result Core.Types Core.TracerState Core.Strategy Core.Builder Core.Flows Core.State
  Proofs.StrategyInv Proofs.StrategyProps Proofs.StateProofs Proofs.PublishWf.

(* wf_round: every probe ttl in 1..254, largest_ttl in 0..254 and either 0 or at least the ttl of some probe
   of the round - the shape in which the strategy publishes rounds.
   WInv: hops are tagged with their own ttl, and (lowest, highest) is either (0,0) or lowest >= 1 and
   (highest = 0 or lowest <= highest). *)

(* after ANY history of such rounds: no fault; highest = max of the reported path lengths, lowest = the least
   ttl ever probed, round count = number of rounds, and the round marker is the latest round's path length *)
Theorem c10_history : forall rs f, WInv f -> Forall wf_round rs ->
  exists f', fs_run f rs = Ok f' /\ WInv f' /\
    fs_highest_ttl f' = fold_left (fun h r => Z.max h (rr_largest_ttl r)) rs (fs_highest_ttl f) /\
    fs_lowest_ttl f' = fold_left (fun lo r => fold_left update_lowest (ttls (rr_probes r)) lo) rs (fs_lowest_ttl f) /\
    fs_round_count f' = fs_round_count f + Z.of_nat (length rs) /\
    (rs <> [] -> fs_highest_ttl_for_round f' = rr_largest_ttl (last rs {| rr_probes := []; rr_largest_ttl := 0; rr_reason := TargetFound |})).
Proof. exact fs_run_window. Qed.

Theorem c10_initial : forall ms, WInv (flow_state_new ms).
Proof. exact WInv_new. Qed.

(* the hop list: empty when nothing was probed or nothing answered; otherwise the gap-free ascending run
   lowest..highest, each probed hop carrying its own ttl; querying (hops, target hop) never faults *)
Theorem c10_window : forall f, WInv f ->
  exists hs, fs_hops_view f = Ok hs /\
    ((fs_lowest_ttl f = 0 \/ fs_highest_ttl f = 0) -> hs = []) /\
    (fs_lowest_ttl f <> 0 -> fs_highest_ttl f <> 0 ->
       hs = firstn (Z.to_nat (fs_highest_ttl f - fs_lowest_ttl f + 1)) (skipn (Z.to_nat (fs_lowest_ttl f - 1)) (fs_hops f)) /\
       Z.of_nat (length hs) = fs_highest_ttl f - fs_lowest_ttl f + 1 /\
       forall k h, nth_error hs k = Some h -> h_ttl h = 0 \/ h_ttl h = fs_lowest_ttl f + Z.of_nat k) /\
    exists th, fs_target_hop f = Ok th \/ fs_highest_ttl_for_round f > 254.
Proof. exact hops_view_window. Qed.

(* one round: every probed ttl's hop is tagged with that ttl *)
Theorem c10_probed_hops_tagged : forall f r, WInv f -> wf_round r ->
  exists f', fs_apply f r = Ok f' /\ WInv f' /\
    fs_highest_ttl f' = Z.max (fs_highest_ttl f) (rr_largest_ttl r) /\
    fs_highest_ttl_for_round f' = rr_largest_ttl r /\
    fs_round_count f' = fs_round_count f + 1 /\
    fs_lowest_ttl f' = fold_left update_lowest (ttls (rr_probes r)) (fs_lowest_ttl f) /\
    (forall t, In t (ttls (rr_probes r)) -> exists h, nth_error (fs_hops f') (Z.to_nat (t - 1)) = Some h /\ h_ttl h = t).
Proof. exact fs_apply_window. Qed.

(* strategy side: the published path length is the known target distance, else bounded by the farthest
   response + 1; it is 0 when nothing answered (and no target distance is known), and otherwise lies in
   first_ttl..254, so the aggregator's ttl - 1 indexing and the window slice are in range *)
Theorem c10_strategy_largest_ttl : forall c s, Accept c -> Inv c s ->
  exists r, publish_trace s = Ok r /\
    rr_probes r = firstn (Z.to_nat (sequence s - round_sequence s)) (buffer s) /\
    rr_reason r = (if target_found s then TargetFound else RoundTimeLimitExceeded) /\
    (rr_largest_ttl r = 0 \/ first_ttl c <= rr_largest_ttl r <= 254) /\
    rr_largest_ttl r =
      match target_ttl s with
      | Some t => t
      | None => match max_received_ttl s with None => 0 | Some m => Z.min (ttl s - 1) (m + 1) end
      end.
Proof. exact publish_trace_ok. Qed.

(* The link between the two halves: EVERY round the strategy publishes - for every builder-accepted configuration,
   every number of iterations and every environment behaviour (clock readings, send outcomes incl. TCP re-issues,
   deliveries) - has the shape wf_round the aggregator theorems above assume. *)
Theorem c10_strategy_rounds_wf : forall c t0 is, Accept c -> Forall wf_round (pubs (fst (fst (run c t0 is)))).
Proof. exact strategy_rounds_wf. Qed.

(* End to end: feeding whatever the strategy publishes into a fresh hop table never faults, the table keeps its
   window invariant, its highest ttl is the greatest path length any round reported, and querying it never fails. *)
Theorem c10_end_to_end : forall c t0 is ms, Accept c ->
  let rs := pubs (fst (fst (run c t0 is))) in
  exists f', fs_run (flow_state_new ms) rs = Ok f' /\ WInv f' /\
    fs_highest_ttl f' = fold_left (fun h r => Z.max h (rr_largest_ttl r)) rs 0 /\
    fs_round_count f' = Z.of_nat (length rs) /\
    exists hs, fs_hops_view f' = Ok hs.
Proof.
  intros c t0 is ms HA rs.
  destruct (fs_run_window rs (flow_state_new ms) (WInv_new ms) (strategy_rounds_wf c t0 is HA))
    as (f' & Hrun & HW & Hh & _ & Hrc & _).
  exists f'. split; [exact Hrun|]. split; [exact HW|]. split; [exact Hh|]. split; [rewrite Hrc; reflexivity|].
  destruct (hops_view_window f' HW) as (hs & Hv & _). exists hs. exact Hv.
Qed.

Example c10_wf_example : wf_round {| rr_probes := [Awaited {| p_sequence := 1; p_identifier := 0; p_src_port := 0; p_dest_port := 0; p_ttl := 3; p_round := 0; p_sent := 0; p_flags := 0 |}];
                                     rr_largest_ttl := 3; rr_reason := TargetFound |}.
Proof. unfold wf_round, ttls_ok. cbn. split; [repeat constructor; lia|]. split; [lia|]. right. exists 3. split; [left; reflexivity|lia]. Qed.

(* ====================================================================================================================
   Extension: "gap-free", "ends at the target", is_target / is_in_round, over ALL histories and whole runs.
   Aggregator side: Proofs/HopWindow.v.  Strategy side, on the observation log of Proofs/RunLog.v: Proofs/TargetEnd.v.
   RInv f: the latest round's path length is 0 or lies inside the window (lowest <= it <= highest). *)
From TV Require Import Core.TracerState Proofs.RoundHistory Proofs.FlowAttr Proofs.RunLog Proofs.RunLogProps Proofs.HopWindow Proofs.TargetEnd.

(* a ttl that no round of the history probed still has its default hop (all counters zero, no address): the
   aggregator only ever writes the slots of the ttls a round's probes carry *)
Theorem c10_never_probed_is_default : forall rs ms f t, fs_run (flow_state_new ms) rs = Ok f -> 1 <= t <= 254 ->
  (forall r, In r rs -> ~ In t (ttls (rr_probes r))) ->
  nth_error (fs_hops f) (Z.to_nat (t - 1)) = Some hop_default.
Proof. exact never_probed_is_default. Qed.

(* State::hops() is positional: element k is the slot of ttl lowest + k, for exactly the ttls lowest..highest -
   no entry above the greatest path length ever reported, none below the least ttl ever probed *)
Theorem c10_view_by_position : forall f hs, WInv f -> fs_hops_view f = Ok hs -> forall k h,
  nth_error hs k = Some h <->
  (fs_lowest_ttl f <> 0 /\ fs_lowest_ttl f + Z.of_nat k <= fs_highest_ttl f /\
   nth_error (fs_hops f) (Z.to_nat (fs_lowest_ttl f + Z.of_nat k - 1)) = Some h).
Proof. exact view_nth. Qed.

(* GAP-FREE: a ttl inside the window that no round probed is PRESENT in hops() - as a hop with zero sent / received
   and no address - rather than missing *)
Theorem c10_gap_free : forall rs ms f hs t, Forall wf_round rs -> fs_run (flow_state_new ms) rs = Ok f ->
  fs_hops_view f = Ok hs -> fs_lowest_ttl f <> 0 -> fs_lowest_ttl f <= t <= fs_highest_ttl f ->
  (forall r, In r rs -> ~ In t (ttls (rr_probes r))) ->
  nth_error hs (Z.to_nat (t - fs_lowest_ttl f)) = Some hop_default /\
  h_sent hop_default = 0 /\ h_recv hop_default = 0 /\ h_addrs hop_default = [].
Proof. exact gap_free. Qed.

(* after any history of well-formed rounds the latest round's path length is 0 or inside the window *)
Theorem c10_round_marker_in_window : forall rs f f', WInv f -> RInv f -> Forall wf_round rs -> fs_run f rs = Ok f' ->
  WInv f' /\ RInv f'.
Proof. exact fs_run_rinv. Qed.

(* State::target_hop() never fails and is the slot of the latest round's path length (slot 0 when that is 0) *)
Theorem c10_target_hop_slot : forall f, WInv f -> RInv f ->
  exists h, fs_target_hop f = Ok h /\
    nth_error (fs_hops f) (Z.to_nat (fs_highest_ttl_for_round f - 1)) = Some h /\
    (h_ttl h = 0 \/ h_ttl h = Z.max 1 (fs_highest_ttl_for_round f)).
Proof. exact target_hop_slot. Qed.

(* ENDS AT THE TARGET: when the latest round reported a path length L > 0, target_hop() is the element of hops() at
   position L - lowest, and it is the LAST element of hops() whenever L is the greatest length reported so far *)
Theorem c10_target_hop_in_view : forall f hs, WInv f -> RInv f -> fs_hops_view f = Ok hs -> 0 < fs_highest_ttl_for_round f ->
  exists h, fs_target_hop f = Ok h /\
    nth_error hs (Z.to_nat (fs_highest_ttl_for_round f - fs_lowest_ttl f)) = Some h /\
    (fs_highest_ttl_for_round f = fs_highest_ttl f -> hs <> [] /\ last hs hop_default = h).
Proof. exact target_hop_in_view. Qed.

(* State::is_target / is_in_round for the hops of hops(), by position: a probed hop at position k is the target iff
   lowest + k is the latest round's path length and is in the round iff lowest + k does not exceed it; a hop that was
   never probed (tag 0) counts as in the round, and as the target exactly when the latest round reported length 0 *)
Theorem c10_is_target_is_in_round : forall f hs k h, WInv f -> RInv f -> fs_hops_view f = Ok hs -> nth_error hs k = Some h ->
  (h_ttl h <> 0 ->
     h_ttl h = fs_lowest_ttl f + Z.of_nat k /\
     fs_is_target f h = (fs_highest_ttl_for_round f =? fs_lowest_ttl f + Z.of_nat k) /\
     fs_is_in_round f h = (fs_lowest_ttl f + Z.of_nat k <=? fs_highest_ttl_for_round f)) /\
  (h_ttl h = 0 ->
     fs_is_target f h = (fs_highest_ttl_for_round f =? 0) /\ fs_is_in_round f h = true).
Proof. exact view_flags. Qed.

(* no probed hop beyond the latest round's path length is the target hop, or in the round *)
Theorem c10_beyond_round_not_target : forall f hs k h, WInv f -> RInv f -> fs_hops_view f = Ok hs -> nth_error hs k = Some h ->
  h_ttl h <> 0 -> fs_highest_ttl_for_round f < fs_lowest_ttl f + Z.of_nat k ->
  fs_is_target f h = false /\ fs_is_in_round f h = false.
Proof. exact beyond_round_not_target. Qed.

(* for arbitrary well-formed rounds fed to State::update_from_round the restriction "probed" above is necessary:
   rounds [probes ttl 1, length 3] then [probes ttl 1, length 0] leave slots 2 and 3 unprobed inside the window and
   is_target answers true for them (it compares the round's length 0 with the default ttl tag 0) *)
Theorem c10_target_beyond_round_refuted :
  exists rs f hs k h, Forall wf_round rs /\ fs_run (flow_state_new 10) rs = Ok f /\ fs_hops_view f = Ok hs /\
    nth_error hs k = Some h /\ fs_highest_ttl_for_round f < fs_lowest_ttl f + Z.of_nat k /\ fs_is_target f h = true.
Proof. exact target_beyond_round_refuted. Qed.

(* contig ft r: the ttls of the round's probes are ft, ft + 1, ... in order;  covered 0 rs: no round reports a path
   length beyond the farthest ttl probed so far.  For such histories (the strategy's: c10_run_rounds_shaped) EVERY
   hop of hops() carries its own ttl, the first is ft, and when the latest round reported L > 0 the target hop is the
   hop tagged L; is_target holds for exactly that hop of hops() and is_in_round for exactly the hops up to it *)
Theorem c10_strategy_shaped_table : forall ft rs ms f hs, 1 <= ft ->
  Forall wf_round rs -> Forall (contig ft) rs -> covered 0 rs ->
  fs_run (flow_state_new ms) rs = Ok f -> fs_hops_view f = Ok hs ->
  (forall k h, nth_error hs k = Some h -> h_ttl h = ft + Z.of_nat k /\ fs_lowest_ttl f = ft) /\
  (0 < fs_highest_ttl_for_round f ->
     exists h, fs_target_hop f = Ok h /\ h_ttl h = fs_highest_ttl_for_round f /\
       nth_error hs (Z.to_nat (fs_highest_ttl_for_round f - ft)) = Some h /\
       forall k h', nth_error hs k = Some h' ->
         (fs_is_target f h' = true <-> Z.of_nat k = fs_highest_ttl_for_round f - ft) /\
         (fs_is_in_round f h' = true <-> Z.of_nat k <= fs_highest_ttl_for_round f - ft)).
Proof. exact strategy_shaped_table. Qed.

(* ---- the strategy side, over whole runs.  run_log c t0 is: everything that crosses the Network interface and every
   clock reading, in order;  ghost_after c t0 l: the fold of the log prefix l (probes sent / genuine answers of the
   round in progress, established target distance);  largest_of: the established distance if any, else
   min(last ttl sent, farthest answered ttl + 1), else 0 ---- *)

(* every round of every run reports exactly largest_of the log before its publication *)
Theorem c10_run_publish_largest : forall c t0 is l1 r now adv l2, Accept c ->
  run_log c t0 is = l1 ++ OPublish r now adv :: l2 -> rr_largest_ttl r = largest_of c (ghost_after c t0 l1).
Proof. exact run_publish_largest. Qed.

(* ... and that is determined by the distance carried into the round (l0 ends with the previous publish) and the
   round's genuine answers alone: dist_fold replays Strategy's target_ttl bookkeeping over the answers *)
Theorem c10_round_largest_from_answers : forall c t0 is l0 seg r now adv l2, Accept c ->
  run_log c t0 is = l0 ++ seg ++ OPublish r now adv :: l2 -> no_publish seg -> round_start_log l0 ->
  let g := ghost_after c t0 (l0 ++ seg) in
  rr_largest_ttl r =
    match dist_fold (g_dist (ghost_after c t0 l0)) (g_A g) with
    | Some d => d
    | None => match farthest (g_A g) with None => 0 | Some m => Z.min (next_ttl c (g_S g) - 1) (m + 1) end
    end.
Proof. exact round_largest_from_answers. Qed.

(* the bookkeeping in closed form: when no OTHER host answered at or beyond a ttl the target answered at, nor at or
   beyond the carried distance, the distance after the answers A is the smallest ttl the target answered at, or the
   carried distance if smaller (dmin) *)
Theorem c10_dist_fold_stable : forall A d0,
  (forall u, In u (other_ttls A) -> (forall t, In t (target_ttls A) -> u < t) /\ (forall x, d0 = Some x -> u < x)) ->
  dist_fold d0 A = dmin d0 (target_ttls A).
Proof. exact dist_fold_stable. Qed.

(* ENDS AT THE TARGET, per published round of any run: under that condition a round in which the target answered (or
   that inherited a distance) reports the SMALLEST ttl the target answered at in that round, or the inherited distance *)
Theorem c10_stable_round_ends_at_target : forall c t0 is l0 seg r now adv l2, Accept c ->
  run_log c t0 is = l0 ++ seg ++ OPublish r now adv :: l2 -> no_publish seg -> round_start_log l0 ->
  let A := g_A (ghost_after c t0 (l0 ++ seg)) in
  let d0 := g_dist (ghost_after c t0 l0) in
  (forall u, In u (other_ttls A) -> (forall t, In t (target_ttls A) -> u < t) /\ (forall x, d0 = Some x -> u < x)) ->
  (target_ttls A <> [] \/ d0 <> None) ->
  (In (rr_largest_ttl r) (target_ttls A) \/ d0 = Some (rr_largest_ttl r)) /\
  (forall t, In t (target_ttls A) -> rr_largest_ttl r <= t) /\ (forall x, d0 = Some x -> rr_largest_ttl r <= x).
Proof. exact stable_round_ends_at_target. Qed.

(* without the condition the claim is false (and the code means it to be): the target answers ttl 3, another host then
   answers ttl 4, the distance is forgotten and the round reports length 4 - hops() then ends one hop beyond the target *)
Theorem c10_ends_at_target_unconditional_refuted :
  exists c t0 is l1 r now adv l2, Accept c /\ run_log c t0 is = l1 ++ OPublish r now adv :: l2 /\
    target_ttls (g_A (ghost_after c t0 l1)) = [3] /\ rr_largest_ttl r = 4.
Proof. exact ends_at_target_unconditional_refuted. Qed.

(* STABLE PATH of true length D (every genuine answer comes from the target iff the probe had ttl >= D): once the
   target has answered a ttl-D probe, the round in progress and EVERY later round report exactly D *)
Theorem c10_stable_path_true_distance : forall c t0 is D l1 r p sr l2 rr now adv l3, Accept c ->
  stable c D (g_init t0) (run_log c t0 is) ->
  run_log c t0 is = l1 ++ ORecv r :: l2 ++ OPublish rr now adv :: l3 ->
  genuine c (g_S (ghost_after c t0 l1)) (g_A (ghost_after c t0 l1)) r = Some (p, sr) ->
  sr_is_target sr = true -> p_ttl p = D ->
  rr_largest_ttl rr = D.
Proof. exact stable_path_true_distance. Qed.

(* NOTHING ANSWERS: every round of the run reports length 0, and the hop table built from them is empty *)
Theorem c10_silent_network_empty_table : forall c t0 is ms, Accept c -> (forall r, ~ In (ORecv r) (run_log c t0 is)) ->
  let rs := pubs (fst (fst (run c t0 is))) in
  Forall (fun r => rr_largest_ttl r = 0) rs /\
  exists f, fs_run (flow_state_new ms) rs = Ok f /\ fs_highest_ttl f = 0 /\ fs_hops_view f = Ok [] /\
            fs_highest_ttl_for_round f = 0.
Proof. exact silent_network_empty_table. Qed.

(* every run publishes rounds of the shape c10_strategy_shaped_table assumes *)
Theorem c10_run_rounds_shaped : forall c t0 is, Accept c ->
  let rs := pubs (fst (fst (run c t0 is))) in
  Forall wf_round rs /\ Forall (contig (first_ttl c)) rs /\ covered 0 rs.
Proof. exact run_rounds_shaped. Qed.

(* END TO END, for every accepted configuration, every environment and every number of iterations: the hop table
   built from the rounds of the run.  hops() never fails; its length is highest - first_ttl + 1 (0 when nothing was
   ever reported); every hop carries its own ttl, from first_ttl up to the greatest length reported; the round marker
   is the last round's length; when that is L > 0 the target hop is the hop tagged L, it is element L - first_ttl of
   hops(), is_target holds for that element only and is_in_round for the elements up to it only *)
Theorem c10_run_table : forall c t0 is ms, Accept c ->
  let rs := pubs (fst (fst (run c t0 is))) in
  exists f hs, fs_run (flow_state_new ms) rs = Ok f /\ fs_hops_view f = Ok hs /\
    fs_highest_ttl f = fold_left (fun h r => Z.max h (rr_largest_ttl r)) rs 0 /\
    Z.of_nat (length hs) = (if fs_highest_ttl f =? 0 then 0 else fs_highest_ttl f - first_ttl c + 1) /\
    (forall k h, nth_error hs k = Some h -> h_ttl h = first_ttl c + Z.of_nat k /\ h_ttl h <= fs_highest_ttl f) /\
    (rs <> [] -> fs_highest_ttl_for_round f = rr_largest_ttl (last rs {| rr_probes := []; rr_largest_ttl := 0; rr_reason := TargetFound |})) /\
    (0 < fs_highest_ttl_for_round f ->
       exists h, fs_target_hop f = Ok h /\ h_ttl h = fs_highest_ttl_for_round f /\
         nth_error hs (Z.to_nat (fs_highest_ttl_for_round f - first_ttl c)) = Some h /\
         forall k h', nth_error hs k = Some h' ->
           (fs_is_target f h' = true <-> Z.of_nat k = fs_highest_ttl_for_round f - first_ttl c) /\
           (fs_is_in_round f h' = true <-> Z.of_nat k <= fs_highest_ttl_for_round f - first_ttl c)).
Proof. exact run_table. Qed.

(* the window never shrinks over a history: hops() after a prefix of the history is a sub-range of hops() after all of it *)
Theorem c10_window_monotone : forall rs f f', WInv f -> Forall wf_round rs -> fs_run f rs = Ok f' ->
  fs_highest_ttl f <= fs_highest_ttl f' /\
  (fs_lowest_ttl f <> 0 -> fs_lowest_ttl f' <> 0 /\ fs_lowest_ttl f' <= fs_lowest_ttl f).
Proof. exact window_monotone. Qed.

(* c10_run_table is about the table fed ALL rounds (the default flow).  A per-flow table receives only the rounds
   attributed to that flow, and "every hop carries its own ttl / the target hop is tagged with the path length" does NOT
   carry over: a round cut short by a clock jump after probing ttl 1, 2 over a new path is published with the carried
   length 3; in the new flow's table hop 3 was never probed, target_hop() is that default hop and is_target holds for
   no hop of hops()  (only the gap-free form c10_gap_free / c10_is_target_is_in_round applies per flow) *)
Theorem c10_per_flow_target_tagged_refuted :
  exists c t0 is s', Accept c /\ st_run (state_new 10 4) (pubs (fst (fst (run c t0 is)))) = Ok s' /\
    map (fun r => (rr_largest_ttl r, ttls (rr_probes r))) (pubs (fst (fst (run c t0 is)))) = [(3, [1; 2; 3; 4]); (3, [1; 2])] /\
    st_round_flow_id s' = 2 /\
    let f := flow_or_new s' 2 in
    fs_highest_ttl_for_round f = 3 /\ fs_target_hop f = Ok hop_default /\
    map (fun h => (h_ttl h, h_sent h, fs_is_target f h)) (hw_hops (fs_hops_view f)) = [(1, 1, false); (2, 1, false); (0, 0, false)].
Proof. exact per_flow_target_unprobed. Qed.

(* non-vacuity: a history of the strategy's shape with first ttl 2 (Proofs/HopWindow.v), and the example runs of
   Proofs/RunLogProps.v - the stable run reports lengths 3, 3 (the second round inherits the distance) *)
Example c10_shaped_example :
  let rs := [hw_round [2;3;4] 3; hw_round [2;3] 3; hw_round [2;3;4;5] 5] in
  Forall wf_round rs /\ Forall (contig 2) rs /\ covered 0 rs /\
  map h_ttl (hw_hops (fs_hops_view (hw_get (fs_run (flow_state_new 10) rs)))) = [2;3;4;5] /\
  fs_highest_ttl_for_round (hw_get (fs_run (flow_state_new 10) rs)) = 5.
Proof. exact hw_shaped_example. Qed.

Example c10_stable_run_example :
  map rr_largest_ttl (pubs (fst (fst (run rl_ex_cfg 0 rl_ex_ins)))) = [3; 3] /\
  (let L := run_log rl_ex_cfg 0 rl_ex_ins in
   round_start_log [] /\ no_publish (firstn 13 L) /\
   target_ttls (g_A (ghost_after rl_ex_cfg 0 (firstn 13 L))) = [3] /\
   other_ttls (g_A (ghost_after rl_ex_cfg 0 (firstn 13 L))) = [1; 2]).
Proof. exact te_stable_example. Qed.

Example c10_table_of_example_run :
  let f := hw_get (fs_run (flow_state_new 10) (pubs (fst (fst (run rl_ex_cfg 0 rl_ex_ins))))) in
  map h_ttl (hw_hops (fs_hops_view f)) = [1; 2; 3] /\ fs_highest_ttl_for_round f = 3 /\
  map (fs_is_target f) (hw_hops (fs_hops_view f)) = [false; false; true].
Proof. vm_compute. repeat split; reflexivity. Qed.

(* the hypotheses of c10_stable_path_true_distance (last round of the stable example run) and of
   c10_silent_network_empty_table (a run in which nothing answers) are satisfiable *)
Example c10_stable_path_instance :
  let L := run_log rl_ex_cfg 0 rl_ex_ins in
  exists l1 r p sr l2 rr now adv l3, stable rl_ex_cfg 3 (g_init 0) L /\
    L = l1 ++ ORecv r :: l2 ++ OPublish rr now adv :: l3 /\
    genuine rl_ex_cfg (g_S (ghost_after rl_ex_cfg 0 l1)) (g_A (ghost_after rl_ex_cfg 0 l1)) r = Some (p, sr) /\
    sr_is_target sr = true /\ p_ttl p = 3 /\ l3 = [] /\ rr_largest_ttl rr = 3.
Proof. exact te_stable_path_instance. Qed.

Example c10_silent_example :
  (forall r, ~ In (ORecv r) (run_log rl_ex_cfg 0 te_silent_ins)) /\
  map (fun r => (rr_largest_ttl r, ttls (rr_probes r))) (pubs (fst (fst (run rl_ex_cfg 0 te_silent_ins)))) = [(0, [1; 2])].
Proof. exact te_silent_example. Qed.
