(* C11 - Every probe put on the wire is well-formed and as configured.

   Model: TV.Net.{Wire,Sock,Dispatch4,Dispatch6,ChannelSend} - transcription of the send side of
   trippy-core net/channel.rs (Channel::connect, send_probe), net/ipv4.rs, net/ipv6.rs,
   net/common.rs (ErrorMapper), net/platform/byte_order.rs and of the trippy-packet setters they call.
   The socket is an output log: [run_send bo cfg inj p] = the list of `Socket` trait calls made by
   `Channel::connect(cfg)` followed by `send_probe(p)` (with the socket errors [inj] injected), and the result.

   Spec: TV.Net.Rfc - an RFC decoder built from bit offsets only ([rfc_get off width]) for RFC 791 / 792 /
   768 / 4443, the pseudo-headers of RFC 768 / RFC 8200 8.1 and the RFC 1071 receiver test; it shares no
   definition with the model's builders.  Quantifier domain: TV.Net.SendSpec ([cfg_v4], [cfg_v6], [probe_wf]).

   All statements are for the Linux byte order (Ipv4ByteOrder::Network is the only variant that exists
   on Linux); the Host variant is covered by c11_host_byte_order, which is NOT tied to code in this sandbox.

   The model is of the REPAIRED code: docs/integration/C11_fix_1.patch (a computed UDP/IPv6 checksum of zero is
   sent as 0xFFFF) and C11_fix_2.patch (a full array of pending TCP probes is an error, not a panic). *)
From TV Require Import Base.Result Core.Types Packet.Checksum
  Net.Wire Net.Rfc Net.Sock Net.Dispatch4 Net.Dispatch6 Net.ChannelSend Net.SendSpec
  Proofs.Dispatch4Proofs Proofs.Dispatch6Proofs Proofs.ChannelSendProofs.
From TV Require Core.TracerState Core.Strategy Proofs.StrategyInv Proofs.StrategyProps.

(* ---- ICMP / IPv4: one send_to; RFC 791 header as configured, DF set, total length = byte count = packet
   size; RFC 792 echo request with the trace identifier, the sequence, the pattern payload, valid checksum ---- *)
Theorem c11_icmp_ipv4 : forall cfg p,
  cfg_v4 cfg -> cc_protocol cfg = Icmp -> 28 <= cc_packet_size cfg <= 1024 -> probe_wf p ->
  exists b,
    run_send BoNetwork cfg [] p = (connect_ops false cfg ++ [SendTo b (cc_target cfg) 0], Ok tt) /\
    ipv4_wellformed (cc_source cfg) (cc_target cfg) (cc_tos cfg) (p_ttl p) 1 b /\
    Z.of_nat (length b) = cc_packet_size cfg /\
    echo_wellformed 8 (p_identifier p) (p_sequence p) (cc_payload_pattern cfg)
      (Z.to_nat (cc_packet_size cfg - 28)) [] (ip_payload (rfc791_decode b)).
Proof. exact c11_icmp_ipv4_lemma. Qed.

(* ---- UDP / IPv4 classic (privileged): the ports of the probe (the strategy puts the sequence into one of
   them), identification = the probe's identifier, UDP length consistent, checksum valid under the RFC 768
   pseudo-header, payload = pattern, total size = packet size ---- *)
Theorem c11_udp_ipv4_classic : forall cfg p,
  cfg_v4 cfg -> cc_protocol cfg = Udp -> cc_privilege cfg = Privileged ->
  28 <= cc_packet_size cfg <= 1024 -> probe_wf p -> p_flags p = 0 ->
  exists b,
    run_send BoNetwork cfg [] p = (connect_ops false cfg ++ [SendTo b (cc_target cfg) (p_dest_port p)], Ok tt) /\
    ipv4_wellformed (cc_source cfg) (cc_target cfg) (cc_tos cfg) (p_ttl p) 17 b /\
    ip_identification (rfc791_decode b) = p_identifier p /\
    Z.of_nat (length b) = cc_packet_size cfg /\
    let u := ip_payload (rfc791_decode b) in
    udp_wellformed (p_src_port p) (p_dest_port p)
      (pseudo_header_v4 (cc_source cfg) (cc_target cfg) 17 (Z.of_nat (length u))) u /\
    ud_data (rfc768_decode u) = repeat (cc_payload_pattern cfg) (Z.to_nat (cc_packet_size cfg - 28)).
Proof. exact c11_udp_ipv4_classic_lemma. Qed.

(* ---- UDP / IPv4 Paris: the UDP checksum field is the sequence and the datagram still verifies; the
   datagram is 30 octets whatever the configured packet size (the property excludes Paris from the size clause) ---- *)
Theorem c11_udp_ipv4_paris : forall cfg p,
  cfg_v4 cfg -> cc_protocol cfg = Udp -> cc_privilege cfg = Privileged ->
  28 <= cc_packet_size cfg <= 1024 -> probe_wf p -> p_flags p = 1 ->
  exists b,
    run_send BoNetwork cfg [] p = (connect_ops false cfg ++ [SendTo b (cc_target cfg) (p_dest_port p)], Ok tt) /\
    ipv4_wellformed (cc_source cfg) (cc_target cfg) (cc_tos cfg) (p_ttl p) 17 b /\
    ip_identification (rfc791_decode b) = p_identifier p /\
    let u := ip_payload (rfc791_decode b) in
    udp_wellformed (p_src_port p) (p_dest_port p)
      (pseudo_header_v4 (cc_source cfg) (cc_target cfg) 17 (Z.of_nat (length u))) u /\
    ud_checksum (rfc768_decode u) = p_sequence p /\
    length b = 30%nat.
Proof. exact c11_udp_ipv4_paris_flag_lemma. Qed.

(* the UDP part of that datagram is exactly the `paris_udp` of Packet/Checksum.v, the object of C13's c13_paris *)
Theorem c11_udp_ipv4_paris_is_c13 : forall cfg p,
  cfg_v4 cfg -> cc_protocol cfg = Udp -> cc_privilege cfg = Privileged ->
  28 <= cc_packet_size cfg <= 1024 -> probe_wf p -> p_flags p = 1 ->
  exists b,
    run_send BoNetwork cfg [] p = (connect_ops false cfg ++ [SendTo b (cc_target cfg) (p_dest_port p)], Ok tt) /\
    ip_payload (rfc791_decode b) =
      paris_udp (p_src_port p) (p_dest_port p) (p_sequence p) (cc_source cfg) (cc_target cfg).
Proof. exact c11_udp_ipv4_paris_c13_lemma. Qed.

(* ---- UDP / IPv4 Dublin: the strategy issues identifier = sequence; it is the IP identification ---- *)
Theorem c11_udp_ipv4_dublin : forall cfg p,
  cfg_v4 cfg -> cc_protocol cfg = Udp -> cc_privilege cfg = Privileged ->
  28 <= cc_packet_size cfg <= 1024 -> probe_wf p -> p_flags p = 2 -> p_identifier p = p_sequence p ->
  exists b,
    run_send BoNetwork cfg [] p = (connect_ops false cfg ++ [SendTo b (cc_target cfg) (p_dest_port p)], Ok tt) /\
    ipv4_wellformed (cc_source cfg) (cc_target cfg) (cc_tos cfg) (p_ttl p) 17 b /\
    ip_identification (rfc791_decode b) = p_sequence p /\
    Z.of_nat (length b) = cc_packet_size cfg /\
    let u := ip_payload (rfc791_decode b) in
    udp_wellformed (p_src_port p) (p_dest_port p)
      (pseudo_header_v4 (cc_source cfg) (cc_target cfg) 17 (Z.of_nat (length u))) u /\
    ud_data (rfc768_decode u) = repeat (cc_payload_pattern cfg) (Z.to_nat (cc_packet_size cfg - 28)).
Proof. exact c11_udp_ipv4_dublin_lemma. Qed.

(* ---- ICMP / IPv6: set_unicast_hops_v6 = ttl, then one send_to of an RFC 4443 echo request (the kernel
   writes the 40-octet IPv6 header): message + 40 = packet size, checksum valid under the RFC 8200 pseudo-header ---- *)
Theorem c11_icmp_ipv6 : forall cfg p,
  cfg_v6 cfg -> cc_protocol cfg = Icmp -> 48 <= cc_packet_size cfg <= 1024 -> probe_wf p ->
  exists m,
    run_send BoNetwork cfg [] p =
      (connect_ops true cfg ++ [SetUnicastHopsV6 (p_ttl p); SendTo m (cc_target cfg) 0], Ok tt) /\
    Z.of_nat (length m) + 40 = cc_packet_size cfg /\
    echo_wellformed 128 (p_identifier p) (p_sequence p) (cc_payload_pattern cfg)
      (Z.to_nat (cc_packet_size cfg - 48))
      (pseudo_header_v6 (cc_source cfg) (cc_target cfg) 58 (Z.of_nat (length m))) m.
Proof. exact c11_icmp_ipv6_lemma. Qed.

(* ---- UDP / IPv6 classic ---- *)
Theorem c11_udp_ipv6_classic : forall cfg p,
  cfg_v6 cfg -> cc_protocol cfg = Udp -> cc_privilege cfg = Privileged ->
  48 <= cc_packet_size cfg <= 1024 -> probe_wf p -> p_flags p = 0 ->
  exists u,
    run_send BoNetwork cfg [] p =
      (connect_ops true cfg ++ [SetUnicastHopsV6 (p_ttl p); SendTo u (cc_target cfg) 0], Ok tt) /\
    udp_wellformed (p_src_port p) (p_dest_port p)
      (pseudo_header_v6 (cc_source cfg) (cc_target cfg) 17 (Z.of_nat (length u))) u /\
    ud_data (rfc768_decode u) = repeat (cc_payload_pattern cfg) (Z.to_nat (cc_packet_size cfg - 48)) /\
    ud_checksum (rfc768_decode u) <> 0 /\
    Z.of_nat (length u) + 40 = cc_packet_size cfg.
Proof. exact c11_udp_ipv6_classic_lemma. Qed.

(* ---- UDP / IPv6 Paris ---- *)
Theorem c11_udp_ipv6_paris : forall cfg p,
  cfg_v6 cfg -> cc_protocol cfg = Udp -> cc_privilege cfg = Privileged ->
  48 <= cc_packet_size cfg <= 1024 -> probe_wf p -> p_flags p = 1 ->
  exists u,
    run_send BoNetwork cfg [] p =
      (connect_ops true cfg ++ [SetUnicastHopsV6 (p_ttl p); SendTo u (cc_target cfg) 0], Ok tt) /\
    udp_wellformed (p_src_port p) (p_dest_port p)
      (pseudo_header_v6 (cc_source cfg) (cc_target cfg) 17 (Z.of_nat (length u))) u /\
    ud_checksum (rfc768_decode u) = p_sequence p /\
    length u = 10%nat.
Proof. exact c11_udp_ipv6_paris_flag_lemma. Qed.

(* ---- UDP / IPv6 Dublin: payload = "trippy" ++ pattern, its length carries the sequence.  The precondition
   [dublin_v6_fits] is what the strategy guarantees for every probe it issues (Props/C07.v
   c07_dublin_payload_fits); outside it the code panics (u16 underflow / slice beyond the 976-octet buffer). ---- *)
Theorem c11_udp_ipv6_dublin : forall cfg p,
  cfg_v6 cfg -> cc_protocol cfg = Udp -> cc_privilege cfg = Privileged ->
  48 <= cc_packet_size cfg <= 1024 -> probe_wf p -> p_flags p = 2 -> dublin_v6_fits cfg p ->
  exists u,
    run_send BoNetwork cfg [] p =
      (connect_ops true cfg ++ [SetUnicastHopsV6 (p_ttl p); SendTo u (cc_target cfg) 0], Ok tt) /\
    udp_wellformed (p_src_port p) (p_dest_port p)
      (pseudo_header_v6 (cc_source cfg) (cc_target cfg) 17 (Z.of_nat (length u))) u /\
    ud_data (rfc768_decode u) =
      MAGIC ++ repeat (cc_payload_pattern cfg) (Z.to_nat (p_sequence p - cc_initial_sequence cfg)) /\
    ud_checksum (rfc768_decode u) <> 0 /\
    Z.of_nat (length u) = 8 + 6 + (p_sequence p - cc_initial_sequence cfg).
Proof. exact c11_udp_ipv6_dublin_lemma. Qed.

(* ---- unprivileged UDP: a fresh datagram socket; bind(source, source port); ttl / hop limit; tos (IPv4);
   send_to(target, destination port) of the pattern payload ---- *)
Theorem c11_udp_ipv4_unprivileged : forall cfg p,
  cfg_v4 cfg -> cc_protocol cfg = Udp -> cc_privilege cfg = Unprivileged -> 28 <= cc_packet_size cfg <= 1024 ->
  run_send BoNetwork cfg [] p =
    (connect_ops false cfg ++
       [NewSocket SkUdp4 false; Bind (cc_source cfg) (p_src_port p); SetTtl (p_ttl p); SetTos (cc_tos cfg);
        SendTo (repeat (cc_payload_pattern cfg) (Z.to_nat (cc_packet_size cfg - 28))) (cc_target cfg) (p_dest_port p)],
     Ok tt).
Proof. exact c11_udp_ipv4_unprivileged_lemma. Qed.

Theorem c11_udp_ipv6_unprivileged : forall cfg p,
  cfg_v6 cfg -> cc_protocol cfg = Udp -> cc_privilege cfg = Unprivileged -> 48 <= cc_packet_size cfg <= 1024 ->
  run_send BoNetwork cfg [] p =
    (connect_ops true cfg ++
       [NewSocket SkUdp6 false; Bind (cc_source cfg) (p_src_port p); SetUnicastHopsV6 (p_ttl p);
        SendTo (repeat (cc_payload_pattern cfg) (Z.to_nat (cc_packet_size cfg - 48))) (cc_target cfg) (p_dest_port p)],
     Ok tt).
Proof. exact c11_udp_ipv6_unprivileged_lemma. Qed.

(* ---- TCP: a fresh stream socket; bind; ttl / hop limit; tos (IPv4); connect(target, destination port) ---- *)
Theorem c11_tcp_ipv4 : forall cfg p,
  cfg_v4 cfg -> cc_protocol cfg = Tcp -> cc_packet_size cfg <= 1024 ->
  run_send BoNetwork cfg [] p =
    (connect_ops false cfg ++
       [NewSocket SkTcp4 false; Bind (cc_source cfg) (p_src_port p); SetTtl (p_ttl p); SetTos (cc_tos cfg);
        Connect (cc_target cfg) (p_dest_port p)],
     Ok tt).
Proof. exact c11_tcp_ipv4_lemma. Qed.

Theorem c11_tcp_ipv6 : forall cfg p,
  cfg_v6 cfg -> cc_protocol cfg = Tcp -> cc_packet_size cfg <= 1024 ->
  run_send BoNetwork cfg [] p =
    (connect_ops true cfg ++
       [NewSocket SkTcp6 false; Bind (cc_source cfg) (p_src_port p); SetUnicastHopsV6 (p_ttl p);
        Connect (cc_target cfg) (p_dest_port p)],
     Ok tt).
Proof. exact c11_tcp_ipv6_lemma. Qed.

(* ---- packet sizes outside 28/48..1024 (any integer, any injected error): Err InvalidPacketSize, nothing sent ---- *)
Theorem c11_invalid_packet_size : forall cfg inj p,
  cfg_v4 cfg \/ cfg_v6 cfg -> cc_protocol cfg <> Tcp ->
  ~ ((if is_v6 (cc_source cfg) then 48 else 28) <= cc_packet_size cfg <= 1024) ->
  snd (run_send BoNetwork cfg inj p) = Err EInvalidPacketSize /\
  forall b a port, ~ In (SendTo b a port) (fst (run_send BoNetwork cfg inj p)).
Proof. exact c11_invalid_packet_size_lemma. Qed.

(* ---- no cell faults: every protocol, family, privilege mode, flag value, EVERY packet size and every
   list of injected socket errors; Dublin/IPv6 under the strategy's guarantee ---- *)
Theorem c11_no_fault : forall cfg inj p,
  cfg_v4 cfg \/ cfg_v6 cfg -> probe_wf p ->
  (cfg_v6 cfg -> cc_protocol cfg = Udp -> cc_privilege cfg = Privileged ->
   flag_paris p = false -> flag_dublin p = true -> dublin_v6_fits cfg p) ->
  is_fault (snd (run_send BoNetwork cfg inj p)) = false.
Proof. exact c11_no_fault_lemma. Qed.

(* ---- the array of pending TCP probes (repaired code): full = error value before any socket call;
   never a fault, for any number of pending probes; an accepted probe is counted ---- *)
Theorem c11_tcp_array_full : forall ch p w,
  ch_protocol ch = Tcp -> MAX_TCP_PROBES <= ch_tcp_probes ch ->
  send_probe ch p w = (w, Err EInsufficientCapacity).
Proof. exact c11_tcp_array_full_lemma. Qed.

Theorem c11_tcp_never_faults : forall ch p w,
  ch_protocol ch = Tcp -> is_fault (snd (send_probe ch p w)) = false.
Proof. exact c11_tcp_never_faults_lemma. Qed.

Theorem c11_tcp_count : forall ch p w w' ch',
  ch_protocol ch = Tcp -> send_probe ch p w = (w', Ok ch') ->
  ch_tcp_probes ch < MAX_TCP_PROBES /\ ch_tcp_probes ch' = ch_tcp_probes ch + 1.
Proof. exact c11_tcp_count_lemma. Qed.

(* ---- ErrorMapper, as written (IPv4 and IPv6 differ) ---- *)
(* ICMP/IPv4 send_to: EHOSTUNREACH, ENETUNREACH and InvalidInput become ProbeFailed, anything else IoError *)
Theorem c11_error_mapping_icmp_ipv4 : forall c p w k rest,
  length (v4_src c) = 4%nat -> length (v4_dest c) = 4%nat -> 0 <= v4_tos c < 256 ->
  28 <= v4_packet_size c <= 1024 -> take_injected CSendTo (w_inject w) = (Some k, rest) ->
  dispatch_icmp_probe4 c p w =
  ({| w_ops := w_ops w ++ [SendTo (icmp4_datagram c p) (v4_dest c) 0]; w_inject := rest |},
   Err (if (k =? K_HOST_UNREACHABLE) || (k =? K_NET_UNREACHABLE) || (k =? K_INVALID_INPUT) then EProbeFailed else EIo k)).
Proof. exact dispatch_icmp4_send_error. Qed.

(* UDP/IPv4 raw send_to: only EHOSTUNREACH and ENETUNREACH become ProbeFailed *)
Theorem c11_error_mapping_udp_ipv4 : forall c p w k rest,
  length (v4_src c) = 4%nat -> length (v4_dest c) = 4%nat -> 0 <= v4_tos c < 256 ->
  28 <= v4_packet_size c <= 1024 -> v4_privilege c = Privileged -> 0 <= p_sequence p < 65536 ->
  take_injected CSendTo (w_inject w) = (Some k, rest) ->
  snd (dispatch_udp_probe4 c p w) =
  Err (if (k =? K_HOST_UNREACHABLE) || (k =? K_NET_UNREACHABLE) then EProbeFailed else EIo k).
Proof. exact dispatch_udp_raw4_send_error. Qed.

(* TCP/IPv4 bind: EINPROGRESS is success (excluded here), AddrInUse -> AddressInUse, AddrNotAvailable -> ProbeFailed *)
Theorem c11_error_mapping_tcp_ipv4_bind : forall c p w k rest,
  take_injected CNew (w_inject w) = (None, w_inject w) ->
  take_injected CBind (w_inject w) = (Some k, rest) -> k <> K_IN_PROGRESS ->
  snd (dispatch_tcp_probe4 c p w) =
  Err (if k =? K_ADDR_IN_USE then EAddressInUse else if k =? K_ADDR_NOT_AVAILABLE then EProbeFailed else EIo k).
Proof. exact tcp4_bind_error. Qed.

(* ICMP/IPv6 send_to: no mapping at all *)
Theorem c11_error_mapping_icmp_ipv6 : forall c p w k,
  48 <= v6_packet_size c <= 1024 -> w_inject w = [(CSendTo, k)] ->
  snd (dispatch_icmp_probe6 c p w) = Err (EIo k).
Proof. exact dispatch_icmp6_send_error. Qed.

(* ---- Ipv4ByteOrder::Host (other unixes; modelled and proved, NOT tied to code in this sandbox): the total
   length and the flags / fragment-offset words are written byte-swapped, every other octet is the same ---- *)
Theorem c11_host_byte_order : forall c proto ttl id payload,
  v4_byte_order c = BoHost ->
  length (v4_src c) = 4%nat -> length (v4_dest c) = 4%nat -> 0 <= v4_tos c < 256 ->
  Z.of_nat (length payload) <= 1004 ->
  let len := 20 + Z.of_nat (length payload) in
  make_ipv4_packet c (repeat 0 MAX_PACKET_SIZE_N) proto ttl id payload =
  Ok ([69; v4_tos c; len mod 256; len / 256; id / 256; id mod 256; 0; 64; ttl; proto; 0; 0]
      ++ v4_src c ++ v4_dest c ++ payload).
Proof. exact c11_host_byte_order_lemma. Qed.

Theorem c11_adjust_length : forall v, 0 <= v < 65536 ->
  adjust_length BoNetwork v = v /\
  adjust_length BoHost v = swap_bytes v /\
  to_be_bytes (adjust_length BoHost v) = [v mod 256; v / 256] /\
  adjust_length BoHost (adjust_length BoHost v) = v.
Proof. exact c11_adjust_length_lemma. Qed.

(* ---- F14 (repaired by a builder check): Paris over IPv6 puts the sequence into the UDP checksum field, and a
   field of zero is forbidden by RFC 8200 8.1 (receivers discard the datagram).  Sequence 0 was issuable exactly
   when initial_sequence = 0, which Builder::build now refuses for this cell; every sequence the strategy
   issues is then >= 1 (c11_paris6_sequence_nonzero), so by c11_udp_ipv6_paris the field is never zero.
   What a zero sequence would put on the wire (the reason for the check): ---- *)
Theorem c11_udp_ipv6_paris_sequence_zero_refuted :
  let cfg := {| cc_privilege := Privileged; cc_protocol := Udp;
                cc_source := [32;1;13;184;0;0;0;0;0;0;0;0;0;0;0;1];
                cc_target := [32;1;13;184;0;0;0;0;0;0;0;0;0;0;0;2];
                cc_packet_size := 84; cc_payload_pattern := 0; cc_initial_sequence := 0; cc_tos := 0 |} in
  let p := {| p_sequence := 0; p_identifier := 0; p_src_port := 5000; p_dest_port := 33434;
              p_ttl := 1; p_round := 0; p_sent := 0; p_flags := 1 |} in
  cfg_v6 cfg /\ probe_wf p /\
  exists u, run_send BoNetwork cfg [] p =
              (connect_ops true cfg ++ [SetUnicastHopsV6 1; SendTo u (cc_target cfg) 0], Ok tt) /\
            ud_checksum (rfc768_decode u) = 0.
Proof. exact c11_paris6_zero_lemma. Qed.

Theorem c11_paris6_sequence_nonzero : forall c s i s' ev e,
  StrategyInv.Accept c -> StrategyProps.reach c s -> proto c = Udp -> multipath c = Paris -> is_v6 (target_addr c) = true ->
  Strategy.step c s i = Ok (s', ev, e) ->
  Forall (fun q => 1 <= q) (map p_sequence (StrategyInv.ev_probes ev)).
Proof. exact StrategyProps.paris6_sequence_nonzero_lemma. Qed.

(* ---- non-vacuity ---- *)
Definition ex_cfg4 : chan_cfg :=
  {| cc_privilege := Privileged; cc_protocol := Icmp; cc_source := [1;2;3;4]; cc_target := [5;6;7;8];
     cc_packet_size := 28; cc_payload_pattern := 0; cc_initial_sequence := 33434; cc_tos := 0 |}.
Definition ex_probe : probe :=
  {| p_sequence := 33434; p_identifier := 1234; p_src_port := 0; p_dest_port := 0;
     p_ttl := 10; p_round := 0; p_sent := 0; p_flags := 0 |}.

Example c11_hypotheses_satisfiable : cfg_v4 ex_cfg4 /\ probe_wf ex_probe.
Proof.
  unfold cfg_v4, probe_wf, u8, u16, ex_cfg4, ex_probe. cbn.
  repeat split; try lia; repeat constructor; lia.
Qed.

(* the model reproduces the literal of the repository's own unit test test_dispatch_icmp_probe_no_payload *)
Example c11_known_answer :
  run_send BoNetwork ex_cfg4 [] ex_probe =
  ([NewSocket SkIcmp4 true; NewSocket SkRecv4 true;
    SendTo [0x45; 0x00; 0x00; 0x1c; 0x00; 0x00; 0x40; 0x00; 0x0a; 0x01; 0x00; 0x00; 0x01; 0x02; 0x03; 0x04;
            0x05; 0x06; 0x07; 0x08; 0x08; 0x00; 0x70; 0x93; 0x04; 0xd2; 0x82; 0x9a] [5;6;7;8] 0], Ok tt).
Proof. vm_compute. reflexivity. Qed.

(* ====================================================================================================
   The send path under socket errors (Proofs/SendErrorsProofs.v), the Paris/IPv6 datagram as the object of
   C13 (Proofs/ChecksumExtra.v), and the glue to the strategy (Proofs/IssuedProbes.v).
   ==================================================================================================== *)
From TV Require Import Proofs.SendErrorsProofs Proofs.ChecksumExtra.
From TV Require Proofs.IssuedProbes.

(* ---- EVERY cell (protocol x family x privilege mode x flags), EVERY list of injected socket errors, either
   byte order: what `connect` + `send_probe` log and return is the error-free list of socket calls [ops]
   replayed as a script ([replay]): each call goes through the ErrorMapper table the code applies to it
   ([outcome_table]: bind / connect: EINPROGRESS = success, AddrInUse -> AddressInUse, AddrNotAvailable resp.
   ENETUNREACH -> ProbeFailed on IPv4 only; send_to: EHOSTUNREACH / ENETUNREACH (and InvalidInput for ICMP) ->
   ProbeFailed on the raw IPv4 paths only; everything else IoError), the run stops at the first remaining error,
   a failed constructor is not logged.  The hypothesis (the error-free run succeeds) is what the per-cell
   theorems above establish. ---- *)
Theorem c11_any_errors : forall bo cfg inj p ops,
  cfg_v4 cfg \/ cfg_v6 cfg ->
  run_send bo cfg [] p = (connect_ops (is_v6 (cc_source cfg)) cfg ++ ops, Ok tt) ->
  run_send bo cfg inj p =
    (connect_ops (is_v6 (cc_source cfg)) cfg ++ fst (replay cfg ops inj), snd (replay cfg ops inj)).
Proof. exact c11_any_errors_lemma. Qed.

(* errors only truncate the list of calls (no call is added, reordered or changed), and a successful
   send_probe has made every call *)
Theorem c11_errors_only_truncate : forall bo cfg inj p ops,
  cfg_v4 cfg \/ cfg_v6 cfg ->
  run_send bo cfg [] p = (connect_ops (is_v6 (cc_source cfg)) cfg ++ ops, Ok tt) ->
  (exists n, fst (run_send bo cfg inj p) = connect_ops (is_v6 (cc_source cfg)) cfg ++ firstn n ops) /\
  (snd (run_send bo cfg inj p) = Ok tt ->
   fst (run_send bo cfg inj p) = connect_ops (is_v6 (cc_source cfg)) cfg ++ ops).
Proof. exact c11_errors_only_truncate_lemma. Qed.

(* hence every datagram handed to send_to under any errors is the (well-formed, by the theorems above) datagram
   of the error-free run, sent to the same address and port *)
Theorem c11_same_datagram_under_errors : forall bo cfg inj p ops b a port,
  cfg_v4 cfg \/ cfg_v6 cfg ->
  run_send bo cfg [] p = (connect_ops (is_v6 (cc_source cfg)) cfg ++ ops, Ok tt) ->
  In (SendTo b a port) (fst (run_send bo cfg inj p)) -> In (SendTo b a port) ops.
Proof. exact c11_same_datagram_lemma. Qed.

(* ---- TCP: whenever connect is called - whatever the environment injects - it is the last call, on a fresh
   stream socket bound to source:src_port, AFTER the time-to-live / hop limit and (IPv4) the type of service
   were set, and it goes to target:dest_port ---- *)
Theorem c11_tcp_ipv4_options_before_connect : forall cfg inj p a port,
  cfg_v4 cfg -> cc_protocol cfg = Tcp -> cc_packet_size cfg <= 1024 ->
  In (Connect a port) (fst (run_send BoNetwork cfg inj p)) ->
  fst (run_send BoNetwork cfg inj p) =
    connect_ops false cfg ++
      [NewSocket SkTcp4 false; Bind (cc_source cfg) (p_src_port p); SetTtl (p_ttl p); SetTos (cc_tos cfg);
       Connect (cc_target cfg) (p_dest_port p)].
Proof. exact c11_tcp_ipv4_order_lemma. Qed.

Theorem c11_tcp_ipv6_options_before_connect : forall cfg inj p a port,
  cfg_v6 cfg -> cc_protocol cfg = Tcp -> cc_packet_size cfg <= 1024 ->
  In (Connect a port) (fst (run_send BoNetwork cfg inj p)) ->
  fst (run_send BoNetwork cfg inj p) =
    connect_ops true cfg ++
      [NewSocket SkTcp6 false; Bind (cc_source cfg) (p_src_port p); SetUnicastHopsV6 (p_ttl p);
       Connect (cc_target cfg) (p_dest_port p)].
Proof. exact c11_tcp_ipv6_order_lemma. Qed.

(* the connect error of a TCP probe: EINPROGRESS is success, AddrInUse -> AddressInUse, ENETUNREACH ->
   ProbeFailed (IPv4 only; over IPv6 it stays an IoError), every call has been made *)
Theorem c11_error_mapping_tcp_ipv4_connect : forall cfg p k,
  cfg_v4 cfg -> cc_protocol cfg = Tcp -> cc_packet_size cfg <= 1024 ->
  run_send BoNetwork cfg [(CConnect, k)] p =
    (connect_ops false cfg ++
       [NewSocket SkTcp4 false; Bind (cc_source cfg) (p_src_port p); SetTtl (p_ttl p); SetTos (cc_tos cfg);
        Connect (cc_target cfg) (p_dest_port p)],
     if k =? K_IN_PROGRESS then Ok tt
     else if k =? K_ADDR_IN_USE then Err EAddressInUse
     else if k =? K_NET_UNREACHABLE then Err EProbeFailed
     else Err (EIo k)).
Proof. exact c11_tcp_ipv4_connect_error_lemma. Qed.

Theorem c11_error_mapping_tcp_ipv6_connect : forall cfg p k,
  cfg_v6 cfg -> cc_protocol cfg = Tcp -> cc_packet_size cfg <= 1024 ->
  run_send BoNetwork cfg [(CConnect, k)] p =
    (connect_ops true cfg ++
       [NewSocket SkTcp6 false; Bind (cc_source cfg) (p_src_port p); SetUnicastHopsV6 (p_ttl p);
        Connect (cc_target cfg) (p_dest_port p)],
     if k =? K_IN_PROGRESS then Ok tt
     else if k =? K_ADDR_IN_USE then Err EAddressInUse
     else Err (EIo k)).
Proof. exact c11_tcp_ipv6_connect_error_lemma. Qed.

(* a failing set_ttl / set_tos is an IoError and no connect is attempted with the wrong options *)
Theorem c11_tcp_ipv4_sockopt_error : forall cfg p k inj,
  cfg_v4 cfg -> cc_protocol cfg = Tcp -> cc_packet_size cfg <= 1024 ->
  inj = [(CSetTtl, k)] \/ inj = [(CSetTos, k)] ->
  snd (run_send BoNetwork cfg inj p) = Err (EIo k) /\
  forall a port, ~ In (Connect a port) (fst (run_send BoNetwork cfg inj p)).
Proof. exact c11_tcp_ipv4_sockopt_error_lemma. Qed.

(* ---- UDP / IPv6 Paris: the ten octets handed to send_to are the [paris_udp_v6] of Proofs/ChecksumExtra.v (the
   Paris swap of Packet/Checksum.v plus the computed-zero rule of make_udp_packet), the object of C13's
   c13_paris_ipv6 / c13_paris_ipv6_unique ---- *)
Theorem c11_udp_ipv6_paris_is_c13 : forall cfg p,
  cfg_v6 cfg -> cc_protocol cfg = Udp -> cc_privilege cfg = Privileged ->
  48 <= cc_packet_size cfg <= 1024 -> probe_wf p -> p_flags p = 1 ->
  run_send BoNetwork cfg [] p =
    (connect_ops true cfg ++
       [SetUnicastHopsV6 (p_ttl p);
        SendTo (paris_udp_v6 (p_src_port p) (p_dest_port p) (p_sequence p) (cc_source cfg) (cc_target cfg))
               (cc_target cfg) 0], Ok tt).
Proof. exact c11_udp_ipv6_paris_c13_lemma. Qed.

(* ---- the glue to the strategy: every probe an iteration of the strategy hands to send_probe (the ESend events
   of Core/Strategy.v step) carries identifier, ports and flags as its protocol / multipath strategy prescribes
   ([IssuedProbes.prescribed_fields]: ICMP - trace identifier, flags 0; UDP classic / TCP - one port IS the sequence;
   Paris - flag 1; Dublin - flag 2 and identifier = sequence), for every state, reachable or not ... ---- *)
Theorem c11_issued_probe_fields : forall c s i s' ev e,
  Strategy.step c s i = Ok (s', ev, e) ->
  Forall (IssuedProbes.prescribed_fields c) (StrategyInv.ev_probes ev).
Proof. exact IssuedProbes.issued_probe_fields_lemma. Qed.

(* ... and lies in the quantifier domain [probe_wf] of the dispatch theorems (builder-accepted configuration,
   reachable state) *)
Theorem c11_issued_probe_wf : forall c s i s' ev e,
  StrategyInv.Accept c -> StrategyProps.reach c s -> Strategy.step c s i = Ok (s', ev, e) ->
  Forall probe_wf (StrategyInv.ev_probes ev).
Proof. exact IssuedProbes.issued_probe_wf_lemma. Qed.

(* two compositions strategy -> dispatch -> wire.  Dublin over IPv4: the IP identification on the wire is the
   sequence of the probe the strategy issued *)
Theorem c11_issued_dublin_ipv4 : forall c s i s' ev e cfg p,
  StrategyInv.Accept c -> StrategyProps.reach c s -> Strategy.step c s i = Ok (s', ev, e) ->
  In p (StrategyInv.ev_probes ev) -> proto c = Udp -> multipath c = Dublin ->
  cfg_v4 cfg -> cc_protocol cfg = Udp -> cc_privilege cfg = Privileged -> 28 <= cc_packet_size cfg <= 1024 ->
  exists b,
    run_send BoNetwork cfg [] p = (connect_ops false cfg ++ [SendTo b (cc_target cfg) (p_dest_port p)], Ok tt) /\
    ipv4_wellformed (cc_source cfg) (cc_target cfg) (cc_tos cfg) (p_ttl p) 17 b /\
    ip_identification (rfc791_decode b) = p_sequence p /\
    Z.of_nat (length b) = cc_packet_size cfg.
Proof. exact IssuedProbes.issued_dublin_ipv4_lemma. Qed.

(* Paris over IPv6 (F14, repaired in the builder): the UDP checksum field on the wire is the sequence of the probe
   the strategy issued, the datagram verifies, and the field is never zero *)
Theorem c11_issued_paris_ipv6 : forall c s i s' ev e cfg p,
  StrategyInv.Accept c -> StrategyProps.reach c s -> Strategy.step c s i = Ok (s', ev, e) ->
  In p (StrategyInv.ev_probes ev) -> proto c = Udp -> multipath c = Paris -> is_v6 (target_addr c) = true ->
  cfg_v6 cfg -> cc_protocol cfg = Udp -> cc_privilege cfg = Privileged -> 48 <= cc_packet_size cfg <= 1024 ->
  exists u,
    run_send BoNetwork cfg [] p =
      (connect_ops true cfg ++ [SetUnicastHopsV6 (p_ttl p); SendTo u (cc_target cfg) 0], Ok tt) /\
    udp_wellformed (p_src_port p) (p_dest_port p)
      (pseudo_header_v6 (cc_source cfg) (cc_target cfg) 17 (Z.of_nat (length u))) u /\
    ud_checksum (rfc768_decode u) = p_sequence p /\
    ud_checksum (rfc768_decode u) <> 0.
Proof. exact IssuedProbes.issued_paris_ipv6_lemma. Qed.

(* ---- non-vacuity of the statements under errors ---- *)
Definition ex_cfg_tcp4 : chan_cfg :=
  {| cc_privilege := Privileged; cc_protocol := Tcp; cc_source := [1;2;3;4]; cc_target := [5;6;7;8];
     cc_packet_size := 28; cc_payload_pattern := 0; cc_initial_sequence := 33434; cc_tos := 7 |}.
Definition ex_probe_tcp : probe :=
  {| p_sequence := 33434; p_identifier := 0; p_src_port := 33434; p_dest_port := 80;
     p_ttl := 10; p_round := 0; p_sent := 0; p_flags := 0 |}.

(* bind answers EINPROGRESS (success), set_tos fails: the socket is bound, both options are attempted, no connect *)
Example c11_any_errors_example :
  run_send BoNetwork ex_cfg_tcp4 [(CSetTos, 77); (CBind, K_IN_PROGRESS)] ex_probe_tcp =
  ([NewSocket SkRecv4 true; NewSocket SkTcp4 false; Bind [1;2;3;4] 33434; SetTtl 10; SetTos 7], Err (EIo 77)) /\
  replay ex_cfg_tcp4 [NewSocket SkTcp4 false; Bind [1;2;3;4] 33434; SetTtl 10; SetTos 7; Connect [5;6;7;8] 80]
         [(CSetTos, 77); (CBind, K_IN_PROGRESS)] =
  ([NewSocket SkTcp4 false; Bind [1;2;3;4] 33434; SetTtl 10; SetTos 7], Err (EIo 77)).
Proof. vm_compute. split; reflexivity. Qed.

(* ENETUNREACH on connect is ProbeFailed over IPv4 *)
Example c11_connect_unreachable_example :
  snd (run_send BoNetwork ex_cfg_tcp4 [(CConnect, K_NET_UNREACHABLE)] ex_probe_tcp) = Err EProbeFailed.
Proof. vm_compute. reflexivity. Qed.

(* ---- the last call of a probe (the send_to or the connect) is only ever made after every other call of the
   probe was made: bind, time-to-live / hop limit, type of service are never skipped ---- *)
Theorem c11_last_call_after_all_others : forall bo cfg inj p l0 x,
  cfg_v4 cfg \/ cfg_v6 cfg ->
  run_send bo cfg [] p = (connect_ops (is_v6 (cc_source cfg)) cfg ++ l0 ++ [x], Ok tt) ->
  ~ In x (connect_ops (is_v6 (cc_source cfg)) cfg ++ l0) ->
  In x (fst (run_send bo cfg inj p)) ->
  fst (run_send bo cfg inj p) = connect_ops (is_v6 (cc_source cfg)) cfg ++ l0 ++ [x].
Proof. exact c11_last_call_lemma. Qed.

(* unprivileged UDP, any injected errors: whatever is sent is the pattern payload, to target:dest_port, from a fresh
   datagram socket bound to source:src_port on which the time-to-live / hop limit (and the TOS over IPv4) were set *)
Theorem c11_udp_ipv4_unprivileged_options_before_send : forall cfg inj p b a port,
  cfg_v4 cfg -> cc_protocol cfg = Udp -> cc_privilege cfg = Unprivileged -> 28 <= cc_packet_size cfg <= 1024 ->
  In (SendTo b a port) (fst (run_send BoNetwork cfg inj p)) ->
  fst (run_send BoNetwork cfg inj p) =
    connect_ops false cfg ++
      [NewSocket SkUdp4 false; Bind (cc_source cfg) (p_src_port p); SetTtl (p_ttl p); SetTos (cc_tos cfg);
       SendTo (repeat (cc_payload_pattern cfg) (Z.to_nat (cc_packet_size cfg - 28))) (cc_target cfg) (p_dest_port p)].
Proof. exact c11_udp_ipv4_unprivileged_order_lemma. Qed.

Theorem c11_udp_ipv6_unprivileged_options_before_send : forall cfg inj p b a port,
  cfg_v6 cfg -> cc_protocol cfg = Udp -> cc_privilege cfg = Unprivileged -> 48 <= cc_packet_size cfg <= 1024 ->
  In (SendTo b a port) (fst (run_send BoNetwork cfg inj p)) ->
  fst (run_send BoNetwork cfg inj p) =
    connect_ops true cfg ++
      [NewSocket SkUdp6 false; Bind (cc_source cfg) (p_src_port p); SetUnicastHopsV6 (p_ttl p);
       SendTo (repeat (cc_payload_pattern cfg) (Z.to_nat (cc_packet_size cfg - 48))) (cc_target cfg) (p_dest_port p)].
Proof. exact c11_udp_ipv6_unprivileged_order_lemma. Qed.

(* the ErrorMapper tables differ by family (as written in ipv4.rs / ipv6.rs): the same ENETUNREACH on the connect of
   a TCP probe is a failed probe over IPv4 and a fatal IoError over IPv6 (likewise AddrNotAvailable on bind and
   EHOSTUNREACH / ENETUNREACH on the raw send_to, see [outcome_table]) *)
Theorem c11_error_mapping_differs_by_family : forall cfg4 cfg6 p,
  cfg_v4 cfg4 -> cc_protocol cfg4 = Tcp -> cc_packet_size cfg4 <= 1024 ->
  cfg_v6 cfg6 -> cc_protocol cfg6 = Tcp -> cc_packet_size cfg6 <= 1024 ->
  snd (run_send BoNetwork cfg4 [(CConnect, K_NET_UNREACHABLE)] p) = Err EProbeFailed /\
  snd (run_send BoNetwork cfg6 [(CConnect, K_NET_UNREACHABLE)] p) = Err (EIo K_NET_UNREACHABLE).
Proof. exact c11_family_asymmetry_lemma. Qed.

(* ---- the remaining cells, from the strategy's side: for every probe a builder-accepted strategy issues from a
   reachable state, the wire carries the sequence where the strategy prescribes it (and the tracer's trace
   identifier for ICMP).  Together with c11_issued_dublin_ipv4 and c11_issued_paris_ipv6 above these discharge the
   hypotheses probe_wf / p_flags / p_identifier / dublin_v6_fits of the per-cell theorems. ---- *)
Theorem c11_issued_icmp_ipv4 : forall c s i s' ev e cfg p,
  StrategyInv.Accept c -> StrategyProps.reach c s -> Strategy.step c s i = Ok (s', ev, e) ->
  In p (StrategyInv.ev_probes ev) -> proto c = Icmp ->
  cfg_v4 cfg -> cc_protocol cfg = Icmp -> 28 <= cc_packet_size cfg <= 1024 ->
  exists b,
    run_send BoNetwork cfg [] p = (connect_ops false cfg ++ [SendTo b (cc_target cfg) 0], Ok tt) /\
    ipv4_wellformed (cc_source cfg) (cc_target cfg) (cc_tos cfg) (p_ttl p) 1 b /\
    Z.of_nat (length b) = cc_packet_size cfg /\
    echo_wellformed 8 (trace_identifier c) (p_sequence p) (cc_payload_pattern cfg)
      (Z.to_nat (cc_packet_size cfg - 28)) [] (ip_payload (rfc791_decode b)).
Proof. exact IssuedProbes.issued_icmp_ipv4_lemma. Qed.

Theorem c11_issued_icmp_ipv6 : forall c s i s' ev e cfg p,
  StrategyInv.Accept c -> StrategyProps.reach c s -> Strategy.step c s i = Ok (s', ev, e) ->
  In p (StrategyInv.ev_probes ev) -> proto c = Icmp ->
  cfg_v6 cfg -> cc_protocol cfg = Icmp -> 48 <= cc_packet_size cfg <= 1024 ->
  exists m,
    run_send BoNetwork cfg [] p =
      (connect_ops true cfg ++ [SetUnicastHopsV6 (p_ttl p); SendTo m (cc_target cfg) 0], Ok tt) /\
    Z.of_nat (length m) + 40 = cc_packet_size cfg /\
    echo_wellformed 128 (trace_identifier c) (p_sequence p) (cc_payload_pattern cfg)
      (Z.to_nat (cc_packet_size cfg - 48))
      (pseudo_header_v6 (cc_source cfg) (cc_target cfg) 58 (Z.of_nat (length m))) m.
Proof. exact IssuedProbes.issued_icmp_ipv6_lemma. Qed.

(* classic UDP: one of the two UDP ports the decoder reads is the sequence *)
Theorem c11_issued_classic_udp_ipv4 : forall c s i s' ev e cfg p,
  StrategyInv.Accept c -> StrategyProps.reach c s -> Strategy.step c s i = Ok (s', ev, e) ->
  In p (StrategyInv.ev_probes ev) -> proto c = Udp -> multipath c = Classic ->
  cfg_v4 cfg -> cc_protocol cfg = Udp -> cc_privilege cfg = Privileged -> 28 <= cc_packet_size cfg <= 1024 ->
  exists b,
    run_send BoNetwork cfg [] p = (connect_ops false cfg ++ [SendTo b (cc_target cfg) (p_dest_port p)], Ok tt) /\
    ipv4_wellformed (cc_source cfg) (cc_target cfg) (cc_tos cfg) (p_ttl p) 17 b /\
    Z.of_nat (length b) = cc_packet_size cfg /\
    let u := ip_payload (rfc791_decode b) in
    udp_wellformed (p_src_port p) (p_dest_port p)
      (pseudo_header_v4 (cc_source cfg) (cc_target cfg) 17 (Z.of_nat (length u))) u /\
    (ud_source_port (rfc768_decode u) = p_sequence p \/ ud_destination_port (rfc768_decode u) = p_sequence p).
Proof. exact IssuedProbes.issued_classic_udp_ipv4_lemma. Qed.

Theorem c11_issued_classic_udp_ipv6 : forall c s i s' ev e cfg p,
  StrategyInv.Accept c -> StrategyProps.reach c s -> Strategy.step c s i = Ok (s', ev, e) ->
  In p (StrategyInv.ev_probes ev) -> proto c = Udp -> multipath c = Classic ->
  cfg_v6 cfg -> cc_protocol cfg = Udp -> cc_privilege cfg = Privileged -> 48 <= cc_packet_size cfg <= 1024 ->
  exists u,
    run_send BoNetwork cfg [] p =
      (connect_ops true cfg ++ [SetUnicastHopsV6 (p_ttl p); SendTo u (cc_target cfg) 0], Ok tt) /\
    udp_wellformed (p_src_port p) (p_dest_port p)
      (pseudo_header_v6 (cc_source cfg) (cc_target cfg) 17 (Z.of_nat (length u))) u /\
    ud_checksum (rfc768_decode u) <> 0 /\
    Z.of_nat (length u) + 40 = cc_packet_size cfg /\
    (ud_source_port (rfc768_decode u) = p_sequence p \/ ud_destination_port (rfc768_decode u) = p_sequence p).
Proof. exact IssuedProbes.issued_classic_udp_ipv6_lemma. Qed.

(* Paris over IPv4: the UDP checksum field is the sequence and the datagram verifies *)
Theorem c11_issued_paris_ipv4 : forall c s i s' ev e cfg p,
  StrategyInv.Accept c -> StrategyProps.reach c s -> Strategy.step c s i = Ok (s', ev, e) ->
  In p (StrategyInv.ev_probes ev) -> proto c = Udp -> multipath c = Paris ->
  cfg_v4 cfg -> cc_protocol cfg = Udp -> cc_privilege cfg = Privileged -> 28 <= cc_packet_size cfg <= 1024 ->
  exists b,
    run_send BoNetwork cfg [] p = (connect_ops false cfg ++ [SendTo b (cc_target cfg) (p_dest_port p)], Ok tt) /\
    ipv4_wellformed (cc_source cfg) (cc_target cfg) (cc_tos cfg) (p_ttl p) 17 b /\
    let u := ip_payload (rfc791_decode b) in
    udp_wellformed (p_src_port p) (p_dest_port p)
      (pseudo_header_v4 (cc_source cfg) (cc_target cfg) 17 (Z.of_nat (length u))) u /\
    ud_checksum (rfc768_decode u) = p_sequence p.
Proof. exact IssuedProbes.issued_paris_ipv4_lemma. Qed.

(* Dublin over IPv6: the UDP length field encodes the sequence; the dispatch precondition (payload fits the buffer,
   no u16 underflow) holds for every issued probe, so the cell never panics under the strategy *)
Theorem c11_issued_dublin_ipv6 : forall c s i s' ev e cfg p,
  StrategyInv.Accept c -> StrategyProps.reach c s -> Strategy.step c s i = Ok (s', ev, e) ->
  In p (StrategyInv.ev_probes ev) -> proto c = Udp -> multipath c = Dublin -> is_v6 (target_addr c) = true ->
  cfg_v6 cfg -> cc_protocol cfg = Udp -> cc_privilege cfg = Privileged -> 48 <= cc_packet_size cfg <= 1024 ->
  cc_initial_sequence cfg = initial_sequence c ->
  exists u,
    run_send BoNetwork cfg [] p =
      (connect_ops true cfg ++ [SetUnicastHopsV6 (p_ttl p); SendTo u (cc_target cfg) 0], Ok tt) /\
    udp_wellformed (p_src_port p) (p_dest_port p)
      (pseudo_header_v6 (cc_source cfg) (cc_target cfg) 17 (Z.of_nat (length u))) u /\
    ud_data (rfc768_decode u) =
      MAGIC ++ repeat (cc_payload_pattern cfg) (Z.to_nat (p_sequence p - initial_sequence c)) /\
    ud_checksum (rfc768_decode u) <> 0 /\
    ud_length (rfc768_decode u) = 8 + 6 + (p_sequence p - initial_sequence c).
Proof. exact IssuedProbes.issued_dublin_ipv6_lemma. Qed.

(* non-vacuity of the c11_issued_* hypotheses: a builder-accepted Dublin configuration, its initial state (reachable),
   one iteration that sends; the issued probe has flags 2 and identifier = sequence *)
Definition ex_scfg : scfg :=
  {| target_addr := [5;6;7;8]; proto := Udp; trace_identifier := 1234; max_rounds := None;
     first_ttl := 1; max_ttl := 64; grace_duration := 100; max_inflight := 24; initial_sequence := 33434;
     multipath := Dublin; port_direction := FixedSrc 5000; min_round_duration := 1000; max_round_duration := 1000 |}.
Definition ex_iter : Strategy.iter_in :=
  {| Strategy.i_clock := [10]; Strategy.i_sends := [Strategy.Sent]; Strategy.i_recv := Strategy.Timeout;
     Strategy.i_update := 20; Strategy.i_advance := 20 |}.
Definition ex_issued : probe :=
  {| p_sequence := 33434; p_identifier := 33434; p_src_port := 5000; p_dest_port := 33434;
     p_ttl := 1; p_round := 0; p_sent := 10; p_flags := 2 |}.

Example c11_issued_hypotheses_satisfiable :
  StrategyInv.Accept ex_scfg /\ StrategyProps.reach ex_scfg (TracerState.ts_new ex_scfg 0) /\
  exists s', Strategy.step ex_scfg (TracerState.ts_new ex_scfg 0) ex_iter = Ok (s', [Strategy.ESend ex_issued Strategy.Sent], None) /\
             In ex_issued (StrategyInv.ev_probes [Strategy.ESend ex_issued Strategy.Sent]).
Proof.
  split; [split; [reflexivity|]|split; [constructor|]].
  - unfold Builder.cfg_wf, Builder.u8, Builder.u16, Builder.portdir_wf, ex_scfg. cbn. repeat split; lia.
  - eexists. split; [vm_compute; reflexivity|]. left. reflexivity.
Qed.
