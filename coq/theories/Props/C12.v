(* C12 - Packet field accessors are exact, independent and RFC-positioned.
   Spec : TV.Base.Bits - rfc_get off w buf / rfc_set off w v buf, the big-endian bit slice [off, off+w) of the
          buffer (bit 0 = most significant bit of byte 0), defined on the list of bits; field_ok = "this
          getter / setter pair implements that slice for every buffer of at least the minimum size and every
          value of the setter's argument type, without fault".
   Model: TV.Packet.Fields - one definition per get_* / set_* / new / new_view of trippy-packet, written with
          the code's byte offsets, masks and shifts (its header holds the field table with the RFC references).
          Ipv6Packet::set_flow_label is modelled with the argument masked to 20 bits (the fix of finding F5).
   The (offset, width) pairs below are the RFC positions; they are repeated, independently, in the harness
   oracle (harness/hcore/src/m_c12.rs). *)
From TV Require Import Base.Result Base.Bytes Base.Bits Packet.Fields Proofs.FieldsProofs.

(* ---------------------------------------------------------------------------------------------- *)
(* generic laws of the bit-slice specification, for all buffers, offsets, widths and values        *)

(* write then read: the value truncated to the field's width *)
Theorem c12_round_trip : forall off w v buf, (off + w <= 8 * length buf)%nat ->
  rfc_get off w (rfc_set off w v buf) = v mod 2 ^ Z.of_nat w.
Proof. exact rfc_get_set. Qed.

(* frame: every slice that does not overlap [off, off+w) reads the same before and after *)
Theorem c12_frame : forall off w v buf off' w', (off + w <= 8 * length buf)%nat ->
  (off' + w' <= off \/ off + w <= off')%nat ->
  rfc_get off' w' (rfc_set off w v buf) = rfc_get off' w' buf.
Proof. exact rfc_set_frame. Qed.

(* frame, bit by bit: every bit outside [off, off+w) is untouched *)
Theorem c12_frame_bit : forall off w v buf i, (off + w <= 8 * length buf)%nat ->
  (i < off \/ off + w <= i)%nat ->
  nth i (bits_of_bytes (rfc_set off w v buf)) false = nth i (bits_of_bytes buf) false.
Proof. exact rfc_set_frame_bit. Qed.

(* the length is preserved and the result is a byte string *)
Theorem c12_length_bytes : forall off w v buf, (off + w <= 8 * length buf)%nat ->
  length (rfc_set off w v buf) = length buf /\ bytes (rfc_set off w v buf).
Proof. intros off w v buf H. split; [apply rfc_set_length; assumption|apply rfc_set_bytes]. Qed.

(* writing back the value that is there changes nothing *)
Theorem c12_set_get_id : forall off w buf, bytes buf -> (off + w <= 8 * length buf)%nat ->
  rfc_set off w (rfc_get off w buf) buf = buf.
Proof. exact rfc_set_get_id. Qed.

(* network byte order: the slice is a quotient / remainder of the big-endian value of the buffer *)
Theorem c12_network_byte_order : forall off w buf, bytes buf -> (off + w <= 8 * length buf)%nat ->
  rfc_get off w buf = (be_val buf / 2 ^ Z.of_nat (8 * length buf - off - w)) mod 2 ^ Z.of_nat w.
Proof. exact rfc_get_arith. Qed.

(* ---------------------------------------------------------------------------------------------- *)
(* consequences for any accessor pair that implements a slice (applies to every row of the tables)  *)

(* set then get returns the argument truncated to the field width; length, byte-ness and every
   disjoint slice are preserved *)
Theorem c12_accessor_round_trip : forall (A : Type) min off w (valid : A -> Prop) enc dec get set,
  field_ok min off w valid enc dec get set ->
  forall buf a, bytes buf -> (min <= length buf)%nat -> valid a ->
  exists buf', set a buf = Ok buf' /\ length buf' = length buf /\ bytes buf' /\
               get buf' = Ok (dec (enc a mod 2 ^ Z.of_nat w)) /\
               forall off' w', (off' + w' <= off \/ off + w <= off')%nat ->
                               rfc_get off' w' buf' = rfc_get off' w' buf.
Proof. exact @field_roundtrip. Qed.

(* independence: a setter does not change what the getter of a field at a disjoint position returns *)
Theorem c12_accessor_independent : forall (A B : Type) min off w (valid : A -> Prop) enc dec get set
    off' w' (valid' : B -> Prop) enc' dec' get' set',
  field_ok min off w valid enc dec get set -> field_ok min off' w' valid' enc' dec' get' set' ->
  (off' + w' <= off \/ off + w <= off')%nat ->
  forall buf a buf', bytes buf -> (min <= length buf)%nat -> valid a -> set a buf = Ok buf' ->
  get' buf' = get' buf.
Proof. exact @field_independent. Qed.

(* ---------------------------------------------------------------------------------------------- *)
(* per packet type: every getter / setter equals its RFC slice                                      *)
(* uint_field_ok LIM MIN OFF W get set : for every byte string of length >= MIN,
     get buf = Ok (rfc_get OFF W buf)  and  forall 0 <= v < LIM, set v buf = Ok (rfc_set OFF W v buf)
   (LIM = 2^bits of the setter's Rust argument type, so LIM > 2^W shows the truncation).            *)

Theorem c12_ipv4 :
  uint_field_ok 256 20 0 4 ipv4_get_version ipv4_set_version /\
  uint_field_ok 256 20 4 4 ipv4_get_header_length ipv4_set_header_length /\
  uint_field_ok 256 20 8 6 ipv4_get_dscp ipv4_set_dscp /\
  uint_field_ok 256 20 14 2 ipv4_get_ecn ipv4_set_ecn /\
  uint_field_ok 256 20 8 8 ipv4_get_tos ipv4_set_tos /\
  uint_field_ok 65536 20 16 16 ipv4_get_total_length ipv4_set_total_length /\
  uint_field_ok 65536 20 32 16 ipv4_get_identification ipv4_set_identification /\
  uint_field_ok 65536 20 48 16 ipv4_get_flags_and_fragment_offset ipv4_set_flags_and_fragment_offset /\
  uint_field_ok 256 20 64 8 ipv4_get_ttl ipv4_set_ttl /\
  field_ok 20 72 8 (fun p => 0 <= ip_protocol_id p < 256) ip_protocol_id ip_protocol_from
           ipv4_get_protocol ipv4_set_protocol /\
  uint_field_ok 65536 20 80 16 ipv4_get_checksum ipv4_set_checksum /\
  addr_field_ok 4 20 96 32 ipv4_get_source ipv4_set_source /\
  addr_field_ok 4 20 128 32 ipv4_get_destination ipv4_set_destination.
Proof. c12_conj; c12_field. Qed.

(* set_flow_label: the model (and this theorem) describe the FIXED code, argument masked to 20 bits *)
Theorem c12_ipv6 :
  uint_field_ok 256 40 0 4 ipv6_get_version ipv6_set_version /\
  uint_field_ok 256 40 4 8 ipv6_get_traffic_class ipv6_set_traffic_class /\
  uint_field_ok 4294967296 40 12 20 ipv6_get_flow_label ipv6_set_flow_label /\
  uint_field_ok 65536 40 32 16 ipv6_get_payload_length ipv6_set_payload_length /\
  field_ok 40 48 8 (fun p => 0 <= ip_protocol_id p < 256) ip_protocol_id ip_protocol_from
           ipv6_get_next_header ipv6_set_next_header /\
  uint_field_ok 256 40 56 8 ipv6_get_hop_limit ipv6_set_hop_limit /\
  addr_field_ok 16 40 64 128 ipv6_get_source_address ipv6_set_source_address /\
  addr_field_ok 16 40 192 128 ipv6_get_destination_address ipv6_set_destination_address.
Proof. c12_conj; c12_field. Qed.

Theorem c12_udp :
  uint_field_ok 65536 8 0 16 udp_get_source udp_set_source /\
  uint_field_ok 65536 8 16 16 udp_get_destination udp_set_destination /\
  uint_field_ok 65536 8 32 16 udp_get_length udp_set_length /\
  uint_field_ok 65536 8 48 16 udp_get_checksum udp_set_checksum.
Proof. c12_conj; c12_field. Qed.

(* reserved (3 bits) and flags (9 bits) follow the RFC 3540 layout the code implements *)
Theorem c12_tcp :
  uint_field_ok 65536 20 0 16 tcp_get_source tcp_set_source /\
  uint_field_ok 65536 20 16 16 tcp_get_destination tcp_set_destination /\
  uint_field_ok 4294967296 20 32 32 tcp_get_sequence tcp_set_sequence /\
  uint_field_ok 4294967296 20 64 32 tcp_get_acknowledgement tcp_set_acknowledgement /\
  uint_field_ok 256 20 96 4 tcp_get_data_offset tcp_set_data_offset /\
  uint_field_ok 256 20 100 3 tcp_get_reserved tcp_set_reserved /\
  uint_field_ok 65536 20 103 9 tcp_get_flags tcp_set_flags /\
  uint_field_ok 65536 20 112 16 tcp_get_window_size tcp_set_window_size /\
  uint_field_ok 65536 20 128 16 tcp_get_checksum tcp_set_checksum /\
  uint_field_ok 65536 20 144 16 tcp_get_urgent_pointer tcp_set_urgent_pointer.
Proof. c12_conj; c12_field. Qed.

Theorem c12_icmp4 :
  field_ok 8 0 8 (fun t => 0 <= icmp4_type_id t < 256) icmp4_type_id icmp4_type_from
           icmp4_get_icmp_type icmp4_set_icmp_type /\
  uint_field_ok 256 8 8 8 icmp4_get_icmp_code icmp4_set_icmp_code /\
  uint_field_ok 65536 8 16 16 icmp4_get_checksum icmp4_set_checksum.
Proof. c12_conj; c12_field. Qed.

Theorem c12_icmp4_echo_request :
  field_ok 8 0 8 (fun t => 0 <= icmp4_type_id t < 256) icmp4_type_id icmp4_type_from
           icmp4_echo_request_get_icmp_type icmp4_echo_request_set_icmp_type /\
  uint_field_ok 256 8 8 8 icmp4_echo_request_get_icmp_code icmp4_echo_request_set_icmp_code /\
  uint_field_ok 65536 8 16 16 icmp4_echo_request_get_checksum icmp4_echo_request_set_checksum /\
  uint_field_ok 65536 8 32 16 icmp4_echo_request_get_identifier icmp4_echo_request_set_identifier /\
  uint_field_ok 65536 8 48 16 icmp4_echo_request_get_sequence icmp4_echo_request_set_sequence.
Proof. c12_conj; c12_field. Qed.

Theorem c12_icmp4_echo_reply :
  field_ok 8 0 8 (fun t => 0 <= icmp4_type_id t < 256) icmp4_type_id icmp4_type_from
           icmp4_echo_reply_get_icmp_type icmp4_echo_reply_set_icmp_type /\
  uint_field_ok 256 8 8 8 icmp4_echo_reply_get_icmp_code icmp4_echo_reply_set_icmp_code /\
  uint_field_ok 65536 8 16 16 icmp4_echo_reply_get_checksum icmp4_echo_reply_set_checksum /\
  uint_field_ok 65536 8 32 16 icmp4_echo_reply_get_identifier icmp4_echo_reply_set_identifier /\
  uint_field_ok 65536 8 48 16 icmp4_echo_reply_get_sequence icmp4_echo_reply_set_sequence.
Proof. c12_conj; c12_field. Qed.

Theorem c12_icmp4_time_exceeded :
  field_ok 8 0 8 (fun t => 0 <= icmp4_type_id t < 256) icmp4_type_id icmp4_type_from
           icmp4_time_exceeded_get_icmp_type icmp4_time_exceeded_set_icmp_type /\
  uint_field_ok 256 8 8 8 icmp4_time_exceeded_get_icmp_code icmp4_time_exceeded_set_icmp_code /\
  uint_field_ok 65536 8 16 16 icmp4_time_exceeded_get_checksum icmp4_time_exceeded_set_checksum /\
  uint_field_ok 256 8 40 8 icmp4_time_exceeded_get_length icmp4_time_exceeded_set_length.
Proof. c12_conj; c12_field. Qed.

Theorem c12_icmp4_dest_unreachable :
  field_ok 8 0 8 (fun t => 0 <= icmp4_type_id t < 256) icmp4_type_id icmp4_type_from
           icmp4_dest_unreachable_get_icmp_type icmp4_dest_unreachable_set_icmp_type /\
  uint_field_ok 256 8 8 8 icmp4_dest_unreachable_get_icmp_code icmp4_dest_unreachable_set_icmp_code /\
  uint_field_ok 65536 8 16 16 icmp4_dest_unreachable_get_checksum icmp4_dest_unreachable_set_checksum /\
  uint_field_ok 256 8 40 8 icmp4_dest_unreachable_get_length icmp4_dest_unreachable_set_length /\
  uint_field_ok 65536 8 48 16 icmp4_dest_unreachable_get_next_hop_mtu icmp4_dest_unreachable_set_next_hop_mtu.
Proof. c12_conj; c12_field. Qed.

Theorem c12_icmp6 :
  field_ok 8 0 8 (fun t => 0 <= icmp6_type_id t < 256) icmp6_type_id icmp6_type_from
           icmp6_get_icmp_type icmp6_set_icmp_type /\
  uint_field_ok 256 8 8 8 icmp6_get_icmp_code icmp6_set_icmp_code /\
  uint_field_ok 65536 8 16 16 icmp6_get_checksum icmp6_set_checksum.
Proof. c12_conj; c12_field. Qed.

Theorem c12_icmp6_echo_request :
  field_ok 8 0 8 (fun t => 0 <= icmp6_type_id t < 256) icmp6_type_id icmp6_type_from
           icmp6_echo_request_get_icmp_type icmp6_echo_request_set_icmp_type /\
  uint_field_ok 256 8 8 8 icmp6_echo_request_get_icmp_code icmp6_echo_request_set_icmp_code /\
  uint_field_ok 65536 8 16 16 icmp6_echo_request_get_checksum icmp6_echo_request_set_checksum /\
  uint_field_ok 65536 8 32 16 icmp6_echo_request_get_identifier icmp6_echo_request_set_identifier /\
  uint_field_ok 65536 8 48 16 icmp6_echo_request_get_sequence icmp6_echo_request_set_sequence.
Proof. c12_conj; c12_field. Qed.

Theorem c12_icmp6_echo_reply :
  field_ok 8 0 8 (fun t => 0 <= icmp6_type_id t < 256) icmp6_type_id icmp6_type_from
           icmp6_echo_reply_get_icmp_type icmp6_echo_reply_set_icmp_type /\
  uint_field_ok 256 8 8 8 icmp6_echo_reply_get_icmp_code icmp6_echo_reply_set_icmp_code /\
  uint_field_ok 65536 8 16 16 icmp6_echo_reply_get_checksum icmp6_echo_reply_set_checksum /\
  uint_field_ok 65536 8 32 16 icmp6_echo_reply_get_identifier icmp6_echo_reply_set_identifier /\
  uint_field_ok 65536 8 48 16 icmp6_echo_reply_get_sequence icmp6_echo_reply_set_sequence.
Proof. c12_conj; c12_field. Qed.

Theorem c12_icmp6_time_exceeded :
  field_ok 8 0 8 (fun t => 0 <= icmp6_type_id t < 256) icmp6_type_id icmp6_type_from
           icmp6_time_exceeded_get_icmp_type icmp6_time_exceeded_set_icmp_type /\
  uint_field_ok 256 8 8 8 icmp6_time_exceeded_get_icmp_code icmp6_time_exceeded_set_icmp_code /\
  uint_field_ok 65536 8 16 16 icmp6_time_exceeded_get_checksum icmp6_time_exceeded_set_checksum /\
  uint_field_ok 256 8 32 8 icmp6_time_exceeded_get_length icmp6_time_exceeded_set_length.
Proof. c12_conj; c12_field. Qed.

(* next_hop_mtu (48, 16) is where the code puts it; RFC 4443 / 4884 define no such field for ICMPv6
   Destination Unreachable (octets 5..7 are unused there) *)
Theorem c12_icmp6_dest_unreachable :
  field_ok 8 0 8 (fun t => 0 <= icmp6_type_id t < 256) icmp6_type_id icmp6_type_from
           icmp6_dest_unreachable_get_icmp_type icmp6_dest_unreachable_set_icmp_type /\
  uint_field_ok 256 8 8 8 icmp6_dest_unreachable_get_icmp_code icmp6_dest_unreachable_set_icmp_code /\
  uint_field_ok 65536 8 16 16 icmp6_dest_unreachable_get_checksum icmp6_dest_unreachable_set_checksum /\
  uint_field_ok 256 8 32 8 icmp6_dest_unreachable_get_length icmp6_dest_unreachable_set_length /\
  uint_field_ok 65536 8 48 16 icmp6_dest_unreachable_get_next_hop_mtu icmp6_dest_unreachable_set_next_hop_mtu.
Proof. c12_conj; c12_field. Qed.

Theorem c12_ext_header :
  uint_field_ok 256 4 0 4 ext_header_get_version ext_header_set_version /\
  uint_field_ok 65536 4 16 16 ext_header_get_checksum ext_header_set_checksum.
Proof. c12_conj; c12_field. Qed.

Theorem c12_ext_object :
  uint_field_ok 65536 4 0 16 ext_object_get_length ext_object_set_length /\
  field_ok 4 16 8 (fun c => 0 <= class_num_id c < 256) class_num_id class_num_from
           ext_object_get_class_num ext_object_set_class_num /\
  uint_field_ok 256 4 24 8 ext_object_get_class_subtype ext_object_set_class_subtype.
Proof. c12_conj; c12_field. Qed.

Theorem c12_mpls_member :
  uint_field_ok 4294967296 4 0 20 mpls_member_get_label mpls_member_set_label /\
  uint_field_ok 256 4 20 3 mpls_member_get_exp mpls_member_set_exp /\
  uint_field_ok 256 4 23 1 mpls_member_get_bos mpls_member_set_bos /\
  uint_field_ok 256 4 24 8 mpls_member_get_ttl mpls_member_set_ttl.
Proof. c12_conj; c12_field. Qed.

(* ---------------------------------------------------------------------------------------------- *)
(* construction: new / new_view succeed exactly for buffers of at least the minimum header size;
   the packet is the buffer itself, so a view (and every getter, which returns no buffer and is a
   function of the buffer only) leaves it unchanged                                               *)

Theorem c12_new : Forall (fun '(new, new_view, min) => forall buf : list Z,
    (new buf = Ok buf <-> (min <= length buf)%nat) /\ (new buf = Err EPacket <-> (length buf < min)%nat) /\
    (new_view buf = Ok buf <-> (min <= length buf)%nat) /\ (new_view buf = Err EPacket <-> (length buf < min)%nat))
  [ (ipv4_new, ipv4_new_view, 20%nat); (ipv6_new, ipv6_new_view, 40%nat);
      (udp_new, udp_new_view, 8%nat); (tcp_new, tcp_new_view, 20%nat);
      (icmp4_new, icmp4_new_view, 8%nat);
      (icmp4_echo_request_new, icmp4_echo_request_new_view, 8%nat);
      (icmp4_echo_reply_new, icmp4_echo_reply_new_view, 8%nat);
      (icmp4_time_exceeded_new, icmp4_time_exceeded_new_view, 8%nat);
      (icmp4_dest_unreachable_new, icmp4_dest_unreachable_new_view, 8%nat);
      (icmp6_new, icmp6_new_view, 8%nat);
      (icmp6_echo_request_new, icmp6_echo_request_new_view, 8%nat);
      (icmp6_echo_reply_new, icmp6_echo_reply_new_view, 8%nat);
      (icmp6_time_exceeded_new, icmp6_time_exceeded_new_view, 8%nat);
      (icmp6_dest_unreachable_new, icmp6_dest_unreachable_new_view, 8%nat);
      (extensions_new, extensions_new_view, 4%nat);
      (ext_header_new, ext_header_new_view, 4%nat);
      (ext_object_new, ext_object_new_view, 4%nat);
      (mpls_stack_new, mpls_stack_new_view, 4%nat);
      (mpls_member_new, mpls_member_new_view, 4%nat) ].
Proof.
  repeat (apply Forall_cons; [intros buf; cbv beta iota;
    match goal with |- (_ <-> (?m <= _)%nat) /\ _ =>
      destruct (pkt_new_ok m buf) as [H1 H2]; exact (conj H1 (conj H2 (conj H1 H2))) end|]).
  apply Forall_nil.
Qed.

(* a view is the buffer itself: new_view (and new) return the bytes they were given, unchanged; the getters
   take that buffer and return only a value, so nothing a view does can modify it *)
Theorem c12_view_is_identity : forall min buf p, pkt_new min buf = Ok p -> p = buf.
Proof. intros min buf p. unfold pkt_new. destruct (min <=? length buf)%nat; intros H; [injection H as <-; reflexivity|discriminate]. Qed.

(* ---------------------------------------------------------------------------------------------- *)
(* non-vacuity: concrete buffers of the minimum size, non-zero background, argument wider than the
   field; model setter, RFC slice and a neighbouring getter computed                               *)

Example c12_example_ipv4 :
  let buf := repeat 0xff 20 in
  let buf' := 0xff :: 0x03 :: repeat 0xff 18 in
  ipv4_set_dscp 0x40 buf = Ok buf' /\ rfc_set 8 6 0x40 buf = buf' /\
  ipv4_get_dscp buf' = Ok 0 /\ ipv4_get_ecn buf' = Ok 3 /\ ipv4_new buf = Ok buf /\ ipv4_new (repeat 0 19) = Err EPacket.
Proof. vm_compute. repeat split. Qed.

Example c12_example_ipv6 :
  let buf := repeat 0 40 in
  let buf' := 0x00 :: 0x0a :: 0xbc :: 0xde :: repeat 0 36 in
  ipv6_set_flow_label 0xfffabcde buf = Ok buf' /\ rfc_set 12 20 0xfffabcde buf = buf' /\
  ipv6_get_flow_label buf' = Ok 0xabcde /\ ipv6_get_traffic_class buf' = Ok 0 /\
  ipv6_set_traffic_class 0xa5 buf' = Ok (0x0a :: 0x5a :: 0xbc :: 0xde :: repeat 0 36).
Proof. vm_compute. repeat split. Qed.

Example c12_example_udp :
  let buf := [1; 2; 3; 4; 5; 6; 7; 8] in
  udp_set_length 0xabcd buf = Ok [1; 2; 3; 4; 0xab; 0xcd; 7; 8] /\ rfc_set 32 16 0xabcd buf = [1; 2; 3; 4; 0xab; 0xcd; 7; 8] /\
  udp_get_checksum buf = Ok 0x0708 /\ udp_new_view [1; 2; 3; 4; 5; 6; 7] = Err EPacket.
Proof. vm_compute. repeat split. Qed.

Example c12_example_tcp :
  let buf := repeat 0xff 20 in
  let buf' := repeat 0xff 12 ++ [0xfe; 0x02] ++ repeat 0xff 6 in
  tcp_set_flags 0xfe02 buf = Ok buf' /\ rfc_set 103 9 0xfe02 buf = buf' /\
  tcp_get_flags buf' = Ok 0x002 /\ tcp_get_reserved buf' = Ok 7 /\ tcp_get_data_offset buf' = Ok 15.
Proof. vm_compute. repeat split. Qed.

Example c12_example_icmp4 :
  let buf := [8; 0; 0xf7; 0xff; 0x12; 0x34; 0x56; 0x78] in
  icmp4_echo_request_get_icmp_type buf = Ok I4EchoRequest /\
  icmp4_echo_request_set_sequence 0xbeef buf = Ok [8; 0; 0xf7; 0xff; 0x12; 0x34; 0xbe; 0xef] /\
  rfc_set 48 16 0xbeef buf = [8; 0; 0xf7; 0xff; 0x12; 0x34; 0xbe; 0xef] /\
  icmp4_time_exceeded_set_length 17 buf = Ok [8; 0; 0xf7; 0xff; 0x12; 17; 0x56; 0x78] /\
  icmp4_dest_unreachable_get_next_hop_mtu buf = Ok 0x5678 /\
  icmp4_set_icmp_type (I4Other 200) buf = Ok [200; 0; 0xf7; 0xff; 0x12; 0x34; 0x56; 0x78] /\
  icmp4_echo_reply_get_identifier buf = Ok 0x1234.
Proof. vm_compute. repeat split. Qed.

Example c12_example_icmp6 :
  let buf := [128; 0; 0xf7; 0xff; 0x12; 0x34; 0x56; 0x78] in
  icmp6_echo_request_get_icmp_type buf = Ok I6EchoRequest /\
  icmp6_time_exceeded_set_length 17 buf = Ok [128; 0; 0xf7; 0xff; 17; 0x34; 0x56; 0x78] /\
  rfc_set 32 8 17 buf = [128; 0; 0xf7; 0xff; 17; 0x34; 0x56; 0x78] /\
  icmp6_dest_unreachable_get_length buf = Ok 0x12 /\
  icmp6_echo_reply_set_identifier 0xcafe buf = Ok [128; 0; 0xf7; 0xff; 0xca; 0xfe; 0x56; 0x78] /\
  icmp6_get_checksum buf = Ok 0xf7ff.
Proof. vm_compute. repeat split. Qed.

Example c12_example_extension :
  let buf := [0xff; 0xff; 0xff; 0xff] in
  ext_header_set_version 0x12 buf = Ok [0x2f; 0xff; 0xff; 0xff] /\ rfc_set 0 4 0x12 buf = [0x2f; 0xff; 0xff; 0xff] /\
  ext_object_set_class_num CnMpls buf = Ok [0xff; 0xff; 1; 0xff] /\ ext_object_get_length buf = Ok 0xffff /\
  mpls_member_set_label 0xfff00001 buf = Ok [0x00; 0x00; 0x1f; 0xff] /\ rfc_set 0 20 0xfff00001 buf = [0x00; 0x00; 0x1f; 0xff] /\
  mpls_member_set_exp 0xfa buf = Ok [0xff; 0xff; 0xf5; 0xff] /\ mpls_member_set_bos 0xfe buf = Ok [0xff; 0xff; 0xfe; 0xff] /\
  mpls_member_get_label [0x12; 0x34; 0x56; 0x78] = Ok 0x12345 /\ extensions_new [1; 2; 3] = Err EPacket /\
  mpls_stack_new_view buf = Ok buf.
Proof. vm_compute. repeat split. Qed.

(* ============================================================================================== *)
(* PAYLOAD ACCESSORS: set_payload of the thirteen packet types that have one                        *)
(* Model: TV.Packet.Payload (one definition per Rust set_payload, offset expressions as written;     *)
(*        Ipv6Packet::set_payload = the RELEASE build, its debug_assert modelled apart).             *)
(* Spec : splice off p buf (Proofs/FieldsProofs.v) = buf with the octets off .. off+|p|-1 replaced   *)
(*        by p;  payload_setter_ok min off setp (Proofs/PayloadProofs.v) = for every byte buffer of  *)
(*        at least min octets: min <= off buf, a payload that fits is spliced in at off buf, one     *)
(*        that does not fit is the fault OutOfBounds (the Rust slice index panics).                  *)
(*        The offsets are given with the RFC bit-slice reader rfc_get, not with the code's getters.  *)
(* Read side: payload() / payload_raw() / get_options_raw() of TV.Packet.Views and TV.Packet.IcmpExt *)
(*        (the models harness mode c04pkt runs against the code).                                    *)
(* ============================================================================================== *)
From TV Require Import Packet.Payload Packet.ByteOps Packet.IcmpExt Packet.Views Proofs.PayloadProofs.

(* ---------------------------------------------------------------------------------------------- *)
(* generic laws of the specification, for all offsets, payloads and buffers                         *)

(* writing a payload that fits keeps the length, keeps the octets before the offset, puts the payload at
   the offset and keeps the octets after it; a buffer of bytes stays a buffer of bytes *)
Theorem c12_payload_splice : forall off p buf, (off + length p <= length buf)%nat ->
  length (splice off p buf) = length buf /\
  firstn off (splice off p buf) = firstn off buf /\
  firstn (length p) (skipn off (splice off p buf)) = p /\
  skipn (off + length p) (splice off p buf) = skipn (off + length p) buf /\
  (bytes buf -> bytes p -> bytes (splice off p buf)).
Proof.
  intros off p buf H. split; [apply length_splice'; assumption|]. split; [apply splice_head; assumption|].
  split; [apply splice_body; assumption|]. split; [apply splice_tail; assumption|].
  intros Hb Hp. apply bytes_splice; assumption.
Qed.

(* the same bit by bit: every bit before bit 8*off and from bit 8*(off+|p|) on is untouched, so every RFC
   slice that ends inside the header reads the same; the payload bits, in network order, are the payload *)
Theorem c12_payload_splice_bits : forall off p buf, (off + length p <= length buf)%nat ->
  (forall i, (i < 8 * off \/ 8 * (off + length p) <= i)%nat ->
     nth i (bits_of_bytes (splice off p buf)) false = nth i (bits_of_bytes buf) false) /\
  (forall o w, (o + w <= 8 * off)%nat -> rfc_get o w (splice off p buf) = rfc_get o w buf) /\
  (bytes p -> rfc_get (8 * off) (8 * length p) (splice off p buf) = be_val p).
Proof.
  intros off p buf H. split; [intros i Hi; apply splice_frame_bit; assumption|].
  split; [intros o w Ho; apply splice_frame_slice; assumption|].
  intros Hp. apply splice_payload_bits; assumption.
Qed.

(* writing the same payload twice is writing it once, a second payload of the same length replaces the
   first, writing back the octets that are there (and writing the empty payload) changes nothing *)
Theorem c12_payload_splice_overwrite : forall off p q buf, (off + length p <= length buf)%nat ->
  splice off p (splice off p buf) = splice off p buf /\
  (length q = length p -> splice off q (splice off p buf) = splice off q buf) /\
  splice off (firstn (length p) (skipn off buf)) buf = buf /\
  splice off [] buf = buf.
Proof.
  intros off p q buf H. split; [apply splice_idem; assumption|].
  split; [intros Hq; apply splice_same; [symmetry|]; assumption|].
  split; [apply splice_id; assumption|apply splice_nil].
Qed.

(* ---------------------------------------------------------------------------------------------- *)
(* consequences for any set_payload that implements the specification (every row of the tables below) *)

(* a payload that fits: the call succeeds, the buffer keeps its length, equals the input outside
   [off, off+|p|) octet by octet and bit by bit, carries the payload there, and every RFC slice that lies
   in the header (options included) reads the same *)
Theorem c12_set_payload_fits : forall min off setp, payload_setter_ok min off setp ->
  forall buf p, bytes buf -> (min <= length buf)%nat -> (off buf + length p <= length buf)%nat ->
  exists buf', setp buf p = Ok buf' /\ length buf' = length buf /\ (bytes p -> bytes buf') /\
    firstn (off buf) buf' = firstn (off buf) buf /\
    firstn (length p) (skipn (off buf) buf') = p /\
    skipn (off buf + length p) buf' = skipn (off buf + length p) buf /\
    (forall i, (i < off buf \/ off buf + length p <= i)%nat -> nth_error buf' i = nth_error buf i) /\
    (forall j, (j < length p)%nat -> nth_error buf' (off buf + j) = nth_error p j) /\
    (forall o w, (o + w <= 8 * off buf)%nat -> rfc_get o w buf' = rfc_get o w buf) /\
    (forall i, (i < 8 * off buf \/ 8 * (off buf + length p) <= i)%nat ->
               nth i (bits_of_bytes buf') false = nth i (bits_of_bytes buf) false).
Proof. exact payload_setter_fits. Qed.

(* the call succeeds exactly when the payload fits behind the offset and panics (index out of range)
   exactly when it does not; it never returns an error value and never faults in another way *)
Theorem c12_set_payload_total : forall min off setp, payload_setter_ok min off setp ->
  forall buf p, bytes buf -> (min <= length buf)%nat ->
    ((exists buf', setp buf p = Ok buf') <-> (off buf + length p <= length buf)%nat) /\
    (setp buf p = Fault OutOfBounds <-> (length buf < off buf + length p)%nat) /\
    (forall e, setp buf p <> Err e) /\
    (forall f, setp buf p = Fault f -> f = OutOfBounds).
Proof. exact payload_setter_total. Qed.

(* frame against the 88 accessor pairs: the getter of ANY field proved above to implement an RFC slice of
   the same packet type returns after set_payload what it returned before *)
Theorem c12_set_payload_frame : forall (A : Type) min foff w (valid : A -> Prop) enc dec get set off setp,
  field_ok min foff w valid enc dec get set -> payload_setter_ok min off setp ->
  forall buf p buf', bytes buf -> bytes p -> (min <= length buf)%nat -> setp buf p = Ok buf' ->
  get buf' = get buf.
Proof. exact @payload_setter_frame. Qed.

(* independence in the other direction: a header-field setter and set_payload commute (either order gives
   the same buffer) whenever the header setter leaves the payload offset where it was - i.e. for every
   field except the IPv4 header length and the TCP data offset *)
Theorem c12_set_payload_commutes : forall (A : Type) min foff w (valid : A -> Prop) enc dec get set off setp,
  field_ok min foff w valid enc dec get set -> payload_setter_ok min off setp ->
  forall buf p a b1 b2, bytes buf -> bytes p -> (min <= length buf)%nat -> valid a ->
  set a buf = Ok b1 -> off b1 = off buf -> setp buf p = Ok b2 ->
  exists r, setp b1 p = Ok r /\ set a b2 = Ok r.
Proof. exact @payload_setter_commutes. Qed.

(* ---------------------------------------------------------------------------------------------- *)
(* per packet type: set_payload writes at the RFC position                                          *)

(* Ipv4Packet::set_payload writes at max(20, 4*IHL), IHL = bits 4..7 (RFC 791: the header INCLUDING the
   options is IHL 32-bit words); Ipv6Packet::set_payload (release build) right behind the 40-octet fixed
   header (RFC 8200) *)
Theorem c12_set_payload_ip :
  payload_setter_ok 20 ipv4_payload_offset ipv4_set_payload /\
  payload_setter_ok 40 (fun _ => 40%nat) ipv6_set_payload.
Proof. exact ip_set_payload_exact. Qed.

(* UdpPacket::set_payload writes behind the 8-octet header (RFC 768); TcpPacket::set_payload at
   max(20, 4*data offset), data offset = bits 96..99 (RFC 9293: the header INCLUDING the options) *)
Theorem c12_set_payload_transport :
  payload_setter_ok 8 (fun _ => 8%nat) udp_set_payload /\
  payload_setter_ok 20 tcp_payload_offset tcp_set_payload.
Proof. exact transport_set_payload_exact. Qed.

(* the eight ICMP packet types with a payload write behind the 8-octet ICMP header (RFC 792 / RFC 4443),
   ExtensionObjectPacket behind the 4-octet object header (RFC 4884 7.1) *)
Theorem c12_set_payload_icmp :
  payload_setter_ok 8 (fun _ => 8%nat) icmp4_echo_request_set_payload /\
  payload_setter_ok 8 (fun _ => 8%nat) icmp4_echo_reply_set_payload /\
  payload_setter_ok 8 (fun _ => 8%nat) icmp4_time_exceeded_set_payload /\
  payload_setter_ok 8 (fun _ => 8%nat) icmp4_dest_unreachable_set_payload /\
  payload_setter_ok 8 (fun _ => 8%nat) icmp6_echo_request_set_payload /\
  payload_setter_ok 8 (fun _ => 8%nat) icmp6_echo_reply_set_payload /\
  payload_setter_ok 8 (fun _ => 8%nat) icmp6_time_exceeded_set_payload /\
  payload_setter_ok 8 (fun _ => 8%nat) icmp6_dest_unreachable_set_payload /\
  payload_setter_ok 4 (fun _ => 4%nat) ext_object_set_payload.
Proof. exact icmp_set_payload_exact. Qed.

(* the offset said with the code's own getter: 4 * get_header_length() when that is at least 5 (every legal
   IPv4 header), 20 for the illegal values 0..4 (saturating_sub), always within 20..60 *)
Theorem c12_ipv4_payload_offset_rfc : forall buf, bytes buf -> (20 <= length buf)%nat ->
  exists ihl, ipv4_get_header_length buf = Ok ihl /\ 0 <= ihl < 16 /\
    (5 <= ihl -> ipv4_payload_offset buf = Z.to_nat (ihl * 4)) /\
    (ihl < 5 -> ipv4_payload_offset buf = 20%nat) /\
    Z.of_nat (ipv4_payload_offset buf) = Z.max 20 (ihl * 4).
Proof. exact ipv4_payload_offset_rfc. Qed.

(* the same for TCP: 4 * get_data_offset() when that is at least 5, 20 for the illegal values 0..4 *)
Theorem c12_tcp_payload_offset_rfc : forall buf, bytes buf -> (20 <= length buf)%nat ->
  exists d, tcp_get_data_offset buf = Ok d /\ 0 <= d < 16 /\
    (5 <= d -> tcp_payload_offset buf = Z.to_nat (d * 4)) /\
    (d < 5 -> tcp_payload_offset buf = 20%nat) /\
    Z.of_nat (tcp_payload_offset buf) = Z.max 20 (d * 4).
Proof. exact tcp_payload_offset_rfc. Qed.

(* ---------------------------------------------------------------------------------------------- *)
(* per packet type: every header-field getter of Packet/Fields.v (and the options) after set_payload  *)

(* Ipv4Packet: length kept, the whole header INCLUDING the options is octet-identical, all 13 getters and
   get_options_raw() return what they returned, and the payload offset of the result is the same (a second
   set_payload lands on the first).  No assumption on the payload octets. *)
Theorem c12_ipv4_set_payload_frame : forall buf p buf', bytes buf -> (20 <= length buf)%nat ->
  ipv4_set_payload buf p = Ok buf' ->
  length buf' = length buf /\ firstn (ipv4_payload_offset buf) buf' = firstn (ipv4_payload_offset buf) buf /\
  ipv4_header_same buf' buf /\ ipv4_get_options_raw buf' = ipv4_get_options_raw buf /\
  ipv4_payload_offset buf' = ipv4_payload_offset buf.
Proof. exact ipv4_set_payload_frame. Qed.

(* TcpPacket: the same, 10 getters and get_options_raw() *)
Theorem c12_tcp_set_payload_frame : forall buf p buf', bytes buf -> (20 <= length buf)%nat ->
  tcp_set_payload buf p = Ok buf' ->
  length buf' = length buf /\ firstn (tcp_payload_offset buf) buf' = firstn (tcp_payload_offset buf) buf /\
  tcp_header_same buf' buf /\ tcp_get_options_raw buf' = tcp_get_options_raw buf /\
  tcp_payload_offset buf' = tcp_payload_offset buf.
Proof. exact tcp_set_payload_frame. Qed.

(* Ipv6Packet (8 getters) and UdpPacket (4 getters), for ANY list of integers as buffer and payload *)
Theorem c12_ipv6_udp_set_payload_frame : forall buf p buf',
  (ipv6_set_payload buf p = Ok buf' ->
   length buf' = length buf /\ firstn 40 buf' = firstn 40 buf /\ ipv6_header_same buf' buf) /\
  (udp_set_payload buf p = Ok buf' ->
   length buf' = length buf /\ firstn 8 buf' = firstn 8 buf /\ udp_header_same buf' buf).
Proof. intros buf p buf'. split; [apply ipv6_set_payload_frame|apply udp_set_payload_frame]. Qed.

(* icmpv4 EchoRequest / EchoReply / TimeExceeded / DestinationUnreachable: every getter *)
Theorem c12_icmp4_set_payload_frame : forall buf p buf',
  (icmp4_echo_request_set_payload buf p = Ok buf' ->
   length buf' = length buf /\ firstn 8 buf' = firstn 8 buf /\
   icmp4_echo_request_get_icmp_type buf' = icmp4_echo_request_get_icmp_type buf /\
   icmp4_echo_request_get_icmp_code buf' = icmp4_echo_request_get_icmp_code buf /\
   icmp4_echo_request_get_checksum buf' = icmp4_echo_request_get_checksum buf /\
   icmp4_echo_request_get_identifier buf' = icmp4_echo_request_get_identifier buf /\
   icmp4_echo_request_get_sequence buf' = icmp4_echo_request_get_sequence buf) /\
  (icmp4_echo_reply_set_payload buf p = Ok buf' ->
   length buf' = length buf /\ firstn 8 buf' = firstn 8 buf /\
   icmp4_echo_reply_get_icmp_type buf' = icmp4_echo_reply_get_icmp_type buf /\
   icmp4_echo_reply_get_icmp_code buf' = icmp4_echo_reply_get_icmp_code buf /\
   icmp4_echo_reply_get_checksum buf' = icmp4_echo_reply_get_checksum buf /\
   icmp4_echo_reply_get_identifier buf' = icmp4_echo_reply_get_identifier buf /\
   icmp4_echo_reply_get_sequence buf' = icmp4_echo_reply_get_sequence buf) /\
  (icmp4_time_exceeded_set_payload buf p = Ok buf' ->
   length buf' = length buf /\ firstn 8 buf' = firstn 8 buf /\
   icmp4_time_exceeded_get_icmp_type buf' = icmp4_time_exceeded_get_icmp_type buf /\
   icmp4_time_exceeded_get_icmp_code buf' = icmp4_time_exceeded_get_icmp_code buf /\
   icmp4_time_exceeded_get_checksum buf' = icmp4_time_exceeded_get_checksum buf /\
   icmp4_time_exceeded_get_length buf' = icmp4_time_exceeded_get_length buf) /\
  (icmp4_dest_unreachable_set_payload buf p = Ok buf' ->
   length buf' = length buf /\ firstn 8 buf' = firstn 8 buf /\
   icmp4_dest_unreachable_get_icmp_type buf' = icmp4_dest_unreachable_get_icmp_type buf /\
   icmp4_dest_unreachable_get_icmp_code buf' = icmp4_dest_unreachable_get_icmp_code buf /\
   icmp4_dest_unreachable_get_checksum buf' = icmp4_dest_unreachable_get_checksum buf /\
   icmp4_dest_unreachable_get_length buf' = icmp4_dest_unreachable_get_length buf /\
   icmp4_dest_unreachable_get_next_hop_mtu buf' = icmp4_dest_unreachable_get_next_hop_mtu buf).
Proof. exact icmp4_set_payload_frame. Qed.

(* icmpv6, the same four packet types *)
Theorem c12_icmp6_set_payload_frame : forall buf p buf',
  (icmp6_echo_request_set_payload buf p = Ok buf' ->
   length buf' = length buf /\ firstn 8 buf' = firstn 8 buf /\
   icmp6_echo_request_get_icmp_type buf' = icmp6_echo_request_get_icmp_type buf /\
   icmp6_echo_request_get_icmp_code buf' = icmp6_echo_request_get_icmp_code buf /\
   icmp6_echo_request_get_checksum buf' = icmp6_echo_request_get_checksum buf /\
   icmp6_echo_request_get_identifier buf' = icmp6_echo_request_get_identifier buf /\
   icmp6_echo_request_get_sequence buf' = icmp6_echo_request_get_sequence buf) /\
  (icmp6_echo_reply_set_payload buf p = Ok buf' ->
   length buf' = length buf /\ firstn 8 buf' = firstn 8 buf /\
   icmp6_echo_reply_get_icmp_type buf' = icmp6_echo_reply_get_icmp_type buf /\
   icmp6_echo_reply_get_icmp_code buf' = icmp6_echo_reply_get_icmp_code buf /\
   icmp6_echo_reply_get_checksum buf' = icmp6_echo_reply_get_checksum buf /\
   icmp6_echo_reply_get_identifier buf' = icmp6_echo_reply_get_identifier buf /\
   icmp6_echo_reply_get_sequence buf' = icmp6_echo_reply_get_sequence buf) /\
  (icmp6_time_exceeded_set_payload buf p = Ok buf' ->
   length buf' = length buf /\ firstn 8 buf' = firstn 8 buf /\
   icmp6_time_exceeded_get_icmp_type buf' = icmp6_time_exceeded_get_icmp_type buf /\
   icmp6_time_exceeded_get_icmp_code buf' = icmp6_time_exceeded_get_icmp_code buf /\
   icmp6_time_exceeded_get_checksum buf' = icmp6_time_exceeded_get_checksum buf /\
   icmp6_time_exceeded_get_length buf' = icmp6_time_exceeded_get_length buf) /\
  (icmp6_dest_unreachable_set_payload buf p = Ok buf' ->
   length buf' = length buf /\ firstn 8 buf' = firstn 8 buf /\
   icmp6_dest_unreachable_get_icmp_type buf' = icmp6_dest_unreachable_get_icmp_type buf /\
   icmp6_dest_unreachable_get_icmp_code buf' = icmp6_dest_unreachable_get_icmp_code buf /\
   icmp6_dest_unreachable_get_checksum buf' = icmp6_dest_unreachable_get_checksum buf /\
   icmp6_dest_unreachable_get_length buf' = icmp6_dest_unreachable_get_length buf /\
   icmp6_dest_unreachable_get_next_hop_mtu buf' = icmp6_dest_unreachable_get_next_hop_mtu buf).
Proof. exact icmp6_set_payload_frame. Qed.

(* ExtensionObjectPacket: length, class_num, class_subtype *)
Theorem c12_ext_object_set_payload_frame : forall buf p buf', ext_object_set_payload buf p = Ok buf' ->
  length buf' = length buf /\ firstn 4 buf' = firstn 4 buf /\
  ext_object_get_length buf' = ext_object_get_length buf /\
  ext_object_get_class_num buf' = ext_object_get_class_num buf /\
  ext_object_get_class_subtype buf' = ext_object_get_class_subtype buf.
Proof. exact ext_object_set_payload_frame. Qed.

(* ---------------------------------------------------------------------------------------------- *)
(* read side: what payload() of the same packet returns after set_payload                           *)

(* Ipv4Packet / TcpPacket: payload() returns the octets from the RFC offset to the END OF THE BUFFER
   (it does not look at total_length), so after set_payload it returns exactly the payload written followed
   by the old octets behind it *)
Theorem c12_ipv4_tcp_payload_read_back : forall buf p buf', bytes buf -> bytes p -> (20 <= length buf)%nat ->
  (ipv4_payload buf = Ok (skipn (ipv4_payload_offset buf) buf) /\
   (ipv4_set_payload buf p = Ok buf' ->
    ipv4_payload buf' = Ok (p ++ skipn (ipv4_payload_offset buf + length p) buf))) /\
  (tcp_payload buf = Ok (skipn (tcp_payload_offset buf) buf) /\
   (tcp_set_payload buf p = Ok buf' ->
    tcp_payload buf' = Ok (p ++ skipn (tcp_payload_offset buf + length p) buf))).
Proof.
  intros buf p buf' Hb Hp Hm. split; (split; [|intros Hs]).
  - apply ipv4_payload_spec; assumption.
  - apply ipv4_read_back; assumption.
  - apply tcp_payload_spec; assumption.
  - apply tcp_read_back; assumption.
Qed.

(* UdpPacket and the four Echo packet types: payload() is `&buf[8..]`: the payload written, then the old
   octets behind it, up to the end of the buffer (UdpPacket::payload does not look at the length field) *)
Theorem c12_udp_echo_payload_read_back :
  (forall buf p buf', udp_set_payload buf p = Ok buf' -> pv_udp_payload buf' = Ok (p ++ skipn (8 + length p) buf)) /\
  Forall (fun setp : list Z -> list Z -> result (list Z) =>
    forall buf p buf', setp buf p = Ok buf' -> echo_payload buf' = Ok (p ++ skipn (8 + length p) buf))
  [icmp4_echo_request_set_payload; icmp4_echo_reply_set_payload;
   icmp6_echo_request_set_payload; icmp6_echo_reply_set_payload].
Proof. split; [exact udp_read_back|exact echo_read_back]. Qed.

(* Ipv6Packet: payload() returns at most payload_length octets, so the read back is the first
   payload_length octets of (payload written ++ old octets); the whole payload comes back iff the
   payload-length field was set to at least its length *)
Theorem c12_ipv6_payload_read_back : forall buf p buf' pl, (40 <= length buf)%nat ->
  ipv6_set_payload buf p = Ok buf' -> pv_ipv6_get_payload_length buf = Ok pl ->
  pv_ipv6_get_payload_length buf' = Ok pl /\
  ipv6_payload buf' = Ok (firstn (Z.to_nat pl) (p ++ skipn (40 + length p) buf)) /\
  ((length p <= Z.to_nat pl)%nat -> exists rest, ipv6_payload buf' = Ok (p ++ rest)).
Proof.
  intros buf p buf' pl Hm Hs Hpl. destruct (ipv6_read_back _ _ _ _ Hm Hs Hpl) as [H1 H2].
  split; [exact H1|]. split; [exact H2|]. intros Hle. apply (ipv6_read_back_full buf p buf' pl); assumption.
Qed.

(* ExtensionObjectPacket: payload() returns the octets 4 .. length field (clamped to the buffer): the read
   back is cut at the length field; the whole payload comes back iff length >= 4 + |payload| *)
Theorem c12_ext_object_payload_read_back : forall buf p buf' l, (4 <= length buf)%nat ->
  ext_object_set_payload buf p = Ok buf' -> extension_object_get_length buf = Ok l ->
  extension_object_get_length buf' = Ok l /\
  extension_object_payload buf' = Ok (firstn (Z.to_nat l - 4) (p ++ skipn (4 + length p) buf)) /\
  ((4 + length p <= Z.to_nat l)%nat -> exists rest, extension_object_payload buf' = Ok (p ++ rest)).
Proof.
  intros buf p buf' l Hm Hs Hl. destruct (ext_object_read_back _ _ _ _ Hm Hs Hl) as [H1 H2].
  split; [exact H1|]. split; [exact H2|]. intros Hle. apply (ext_object_read_back_full buf p buf' l); assumption.
Qed.

(* TimeExceeded / DestinationUnreachable, both families: payload_raw() returns the payload written followed
   by the old octets; payload() returns a prefix of that, selected by the RFC 4884 splitter: all of it, or the
   first `length field` words, or (length field 0) the first 128 octets; so a payload of at most 128 octets
   that the length field covers (or with length field 0) is read back in full *)
Theorem c12_icmp_error_payload_read_back : Forall (fun '(fam, setp) =>
    forall buf p buf' l, (8 <= length buf)%nat -> setp buf p = Ok buf' -> icmp_error_get_length fam buf = Ok l ->
    let len := Z.to_nat (l * length_unit fam) in
    let raw := p ++ skipn (8 + length p) buf in
    icmp_error_get_length fam buf' = Ok l /\
    icmp_error_payload_raw buf' = Ok raw /\
    (exists k, icmp_error_payload fam buf' = Ok (firstn k raw) /\
               (k = length raw \/ (k = len /\ (0 < len)%nat) \/ (k = 128%nat /\ len = 0%nat))) /\
    ((length p <= 128)%nat -> (len = 0%nat \/ length p <= len)%nat ->
     exists rest, icmp_error_payload fam buf' = Ok (p ++ rest)))
  [(FamV4, icmp4_time_exceeded_set_payload); (FamV4, icmp4_dest_unreachable_set_payload);
   (FamV6, icmp6_time_exceeded_set_payload); (FamV6, icmp6_dest_unreachable_set_payload)].
Proof. exact icmp_error_read_back_all. Qed.

(* ---------------------------------------------------------------------------------------------- *)
(* debug build, and statements that do NOT hold                                                     *)

(* debug build of Ipv6Packet::set_payload (debug_assert!(vals.len() <= payload_length)): whenever it does
   not panic it returns what the release build returns, and then payload() reads the whole payload back *)
Theorem c12_ipv6_set_payload_debug : forall buf p buf', (40 <= length buf)%nat ->
  ipv6_set_payload_debug buf p = Ok buf' ->
  ipv6_set_payload buf p = Ok buf' /\ exists rest, ipv6_payload buf' = Ok (p ++ rest).
Proof. exact ipv6_debug_read_back. Qed.

(* REFUTED: "payload() returns what set_payload wrote" is false of the RELEASE build of Ipv6Packet.  On a
   zeroed 48-octet buffer (payload_length 0) set_payload [1;2;3;4] succeeds and writes the four octets at 40,
   payload() returns the empty slice; the debug build panics on the same call *)
Theorem c12_ipv6_release_read_back_refuted : exists buf p buf',
  bytes buf /\ bytes p /\ (40 <= length buf)%nat /\ p <> [] /\
  ipv6_set_payload buf p = Ok buf' /\ skipn 40 buf' = p ++ [0; 0; 0; 0] /\
  ipv6_payload buf' = Ok [] /\
  ipv6_set_payload_debug buf p = Fault Unreachable.
Proof. exact ipv6_release_read_back_refuted. Qed.

(* REFUTED likewise for the ICMP error messages: with length field 1 (4 octets) and room for an extension
   structure, an 8-octet payload is written in full (payload_raw() shows it) and payload() returns its first
   4 octets only *)
Theorem c12_icmp_error_read_back_refuted : exists buf p buf',
  bytes buf /\ bytes p /\ (8 <= length buf)%nat /\
  icmp4_time_exceeded_set_payload buf p = Ok buf' /\
  icmp_error_payload_raw buf' = Ok (p ++ repeat 0 132) /\
  icmp_error_payload FamV4 buf' = Ok (firstn 4 p) /\ firstn 4 p <> p.
Proof. exact icmp_error_read_back_refuted. Qed.

(* the options term of the offset is load-bearing: with data offset / IHL 6 the payload lands at 24 and the
   option octets 20..23 keep their content; writing at 20 (the offset without the options term) gives a
   different buffer *)
Theorem c12_set_payload_options_term :
  (exists buf p buf', bytes buf /\ (20 <= length buf)%nat /\ tcp_set_payload buf p = Ok buf' /\
     tcp_payload_offset buf = 24%nat /\ firstn 4 (skipn 20 buf') = firstn 4 (skipn 20 buf) /\
     firstn (length p) (skipn 24 buf') = p /\ copy_into 20 p buf <> Ok buf') /\
  (exists buf p buf', bytes buf /\ (20 <= length buf)%nat /\ ipv4_set_payload buf p = Ok buf' /\
     ipv4_payload_offset buf = 24%nat /\ firstn 4 (skipn 20 buf') = firstn 4 (skipn 20 buf) /\
     firstn (length p) (skipn 24 buf') = p /\ copy_into 20 p buf <> Ok buf').
Proof. exact options_term_matters. Qed.

(* ---------------------------------------------------------------------------------------------- *)
(* non-vacuity: concrete buffers with non-zero background, options present, payloads at and beyond the
   fitting boundary                                                                               *)

(* IPv4 with IHL 6 (4 option octets) in a 28-octet buffer: a 4-octet payload fits exactly at 24, a 5-octet
   one panics; IHL 3 (illegal) writes at 20; the header getter and the options are unchanged *)
Example c12_example_payload_ipv4 :
  let buf := 0x46 :: repeat 0xaa 27 in
  let buf' := 0x46 :: repeat 0xaa 23 ++ [1; 2; 3; 4] in
  ipv4_set_payload buf [1; 2; 3; 4] = Ok buf' /\ ipv4_payload_offset buf = 24%nat /\
  splice 24 [1; 2; 3; 4] buf = buf' /\
  ipv4_set_payload buf [1; 2; 3; 4; 5] = Fault OutOfBounds /\
  ipv4_payload buf' = Ok [1; 2; 3; 4] /\ ipv4_get_options_raw buf' = Ok (repeat 0xaa 4) /\
  ipv4_get_header_length buf' = Ok 6 /\
  ipv4_set_payload (0x43 :: repeat 0xaa 27) [9] = Ok (0x43 :: repeat 0xaa 19 ++ [9] ++ repeat 0xaa 7) /\
  ipv4_set_payload (0x4f :: repeat 0xaa 59) [] = Ok (0x4f :: repeat 0xaa 59) /\
  ipv4_set_payload (0x4f :: repeat 0xaa 58) [] = Fault OutOfBounds.
Proof. vm_compute. repeat split. Qed.

(* TCP with data offset 7 in a 32-octet buffer *)
Example c12_example_payload_tcp :
  let buf := repeat 0xbb 12 ++ [0x7b] ++ repeat 0xbb 19 in
  let buf' := repeat 0xbb 12 ++ [0x7b] ++ repeat 0xbb 15 ++ [1; 2; 3] ++ [0xbb] in
  tcp_set_payload buf [1; 2; 3] = Ok buf' /\ tcp_payload_offset buf = 28%nat /\
  tcp_set_payload buf [1; 2; 3; 4; 5] = Fault OutOfBounds /\
  tcp_payload buf' = Ok [1; 2; 3; 0xbb] /\ tcp_get_options_raw buf' = Ok (repeat 0xbb 8) /\
  tcp_get_data_offset buf' = Ok 7 /\ tcp_get_reserved buf' = Ok 5 /\ tcp_get_urgent_pointer buf' = Ok 0xbbbb /\
  tcp_set_payload (repeat 0xbb 12 ++ [0x2b] ++ repeat 0xbb 19) [1] =
    Ok (repeat 0xbb 12 ++ [0x2b] ++ repeat 0xbb 7 ++ [1] ++ repeat 0xbb 11).
Proof. vm_compute. repeat split. Qed.

(* the fixed-offset types: UDP, IPv6 (payload_length 2 cuts the read back), echo, ICMP error, extension object *)
Example c12_example_payload_fixed :
  udp_set_payload [1; 2; 3; 4; 5; 6; 7; 8; 9; 10] [0xaa; 0xbb] = Ok [1; 2; 3; 4; 5; 6; 7; 8; 0xaa; 0xbb] /\
  udp_set_payload [1; 2; 3; 4; 5; 6; 7; 8; 9; 10] [0xaa; 0xbb; 0xcc] = Fault OutOfBounds /\
  udp_set_payload [1; 2; 3; 4; 5; 6; 7; 8] [] = Ok [1; 2; 3; 4; 5; 6; 7; 8] /\
  ipv6_set_payload (0x60 :: 0 :: 0 :: 0 :: 0 :: 2 :: repeat 0x11 38) [7; 8; 9]
    = Ok (0x60 :: 0 :: 0 :: 0 :: 0 :: 2 :: repeat 0x11 34 ++ [7; 8; 9; 0x11]) /\
  ipv6_payload (0x60 :: 0 :: 0 :: 0 :: 0 :: 2 :: repeat 0x11 34 ++ [7; 8; 9; 0x11]) = Ok [7; 8] /\
  ipv6_set_payload (repeat 0x11 44) [1; 2; 3; 4; 5] = Fault OutOfBounds /\
  icmp4_echo_request_set_payload [8; 0; 0xf7; 0xff; 0x12; 0x34; 0x56; 0x78; 0xee; 0xee] [1]
    = Ok [8; 0; 0xf7; 0xff; 0x12; 0x34; 0x56; 0x78; 1; 0xee] /\
  icmp6_echo_reply_set_payload [129; 0; 0xf7; 0xff; 0x12; 0x34; 0x56; 0x78; 0xee] [1; 2] = Fault OutOfBounds /\
  icmp6_dest_unreachable_set_payload [1; 0; 0; 0; 0; 0; 0; 0; 0xee; 0xee] [5; 6] = Ok [1; 0; 0; 0; 0; 0; 0; 0; 5; 6] /\
  ext_object_set_payload [0; 8; 1; 1; 0xee; 0xee; 0xee; 0xee; 0xee] [1; 2; 3; 4] = Ok [0; 8; 1; 1; 1; 2; 3; 4; 0xee] /\
  extension_object_payload [0; 8; 1; 1; 1; 2; 3; 4; 0xee] = Ok [1; 2; 3; 4] /\
  ext_object_set_payload [0; 8; 1; 1; 0xee] [1; 2] = Fault OutOfBounds.
Proof. vm_compute. repeat split. Qed.

(* payload_setter_ok is inhabited beyond the model: the hypotheses of the generic theorems are met by the
   thirteen setters, e.g. the header getter of the IPv4 protocol field after set_payload *)
Example c12_example_payload_frame_instance : forall buf p buf', bytes buf -> bytes p -> (20 <= length buf)%nat ->
  ipv4_set_payload buf p = Ok buf' -> ipv4_get_protocol buf' = ipv4_get_protocol buf.
Proof.
  intros buf p buf'. apply (payload_setter_frame 20 72 8 (fun p => 0 <= ip_protocol_id p < 256) ip_protocol_id ip_protocol_from
    ipv4_get_protocol ipv4_set_protocol ipv4_payload_offset ipv4_set_payload).
  - destruct c12_ipv4 as (_ & _ & _ & _ & _ & _ & _ & _ & _ & H & _). exact H.
  - exact ipv4_set_payload_ok.
Qed.

(* the C11 packet-builder model (Net/Wire.v) writes payloads with set_payload definitions of its own; they are
   the same functions as the ones above, so the packets C11 builds get their payload at the RFC offset *)
Theorem c12_payload_models_agree : forall buf p,
  Wire.ipv4_set_payload p buf = Payload.ipv4_set_payload buf p /\
  Wire.udp_set_payload p buf = Payload.udp_set_payload buf p /\
  Wire.echo_set_payload p buf = icmp4_echo_request_set_payload buf p /\
  Wire.echo_set_payload p buf = icmp6_echo_request_set_payload buf p.
Proof. exact wire_models_agree. Qed.

(* what the correspondence driver runs (set_payload_of, by packet type) is the table of the thirteen setters,
   and every entry meets the specification *)
Theorem c12_set_payload_of_table :
  map set_payload_of [PtIpv4; PtIpv6; PtUdp; PtTcp; PtIcmp4EchoRequest; PtIcmp4EchoReply; PtIcmp4TimeExceeded;
                      PtIcmp4DestUnreachable; PtIcmp6EchoRequest; PtIcmp6EchoReply; PtIcmp6TimeExceeded;
                      PtIcmp6DestUnreachable; PtExtObject] =
  [Payload.ipv4_set_payload; ipv6_set_payload; Payload.udp_set_payload; tcp_set_payload;
   icmp4_echo_request_set_payload; icmp4_echo_reply_set_payload; icmp4_time_exceeded_set_payload;
   icmp4_dest_unreachable_set_payload; icmp6_echo_request_set_payload; icmp6_echo_reply_set_payload;
   icmp6_time_exceeded_set_payload; icmp6_dest_unreachable_set_payload; ext_object_set_payload] /\
  forall t, exists min off, payload_setter_ok min off (set_payload_of t).
Proof. exact set_payload_of_table. Qed.

(* ---------------------------------------------------------------------------------------------- *)
(* Ipv4Packet::get_options_raw_mut: the one accessor that hands out a mutable window (Packet/OptionsMut.v).      *)
From TV Require Import Packet.OptionsMut Proofs.OptionsMutProofs.

(* the window is the RFC 791 options field: it starts behind the fixed header (octet 20) and ends where the
   payload starts (4 * IHL octets in, never before octet 20), cut at the end of the buffer - for every buffer
   the packet type accepts and every IHL, without fault *)
Theorem c12_options_window_is_the_rfc_options_field : forall buf, bytes buf -> (20 <= length buf)%nat ->
  ipv4_options_mut_bounds buf = Ok (20%nat, Nat.min (ipv4_payload_offset buf) (length buf)).
Proof. exact options_mut_bounds_ok. Qed.

(* a write through the window keeps the length, changes no octet of the fixed header and none from the payload
   offset on, and puts the written value at every octet of the options field *)
Theorem c12_options_window_write_frame : forall g buf, bytes buf -> (20 <= length buf)%nat ->
  exists buf', ipv4_options_mut_map g buf = Ok buf' /\ length buf' = length buf /\
    (forall i, (i < 20 \/ Nat.min (ipv4_payload_offset buf) (length buf) <= i)%nat -> nth_error buf' i = nth_error buf i) /\
    (forall i, (20 <= i < Nat.min (ipv4_payload_offset buf) (length buf))%nat -> nth_error buf' i = option_map g (nth_error buf i)).
Proof. exact options_mut_map_spec. Qed.

(* non-vacuity: IHL 7 on a 30-octet buffer - octets 20..27 are complemented, the rest stays *)
Example c12_example_options_window :
  ipv4_options_mut_map (fun x => 255 - x) (0x47 :: repeat 1 29) = Ok (0x47 :: repeat 1 19 ++ repeat 254 8 ++ repeat 1 2).
Proof. vm_compute. reflexivity. Qed.
