(* C12 - Packet field accessors are exact, independent and RFC-positioned.
   Spec : TV.Base.Bits - rfc_get off w buf / rfc_set off w v buf, the big-endian bit slice [off, off+w) of the
          buffer (bit 0 = most significant bit of byte 0), defined on the list of bits; field_ok = "this
          getter / setter pair implements that slice for every buffer of at least the minimum size and every
          value of the setter's argument type, without fault".
   Model: TV.Packet.Fields - one definition per get_* / set_* / new / new_view of trippy-packet, written with
          the code's byte offsets, masks and shifts (its header holds the field table with the RFC references).
          Ipv6Packet::set_flow_label is modelled with the argument masked to 20 bits (the fix of finding F5).
   The (offset, width) pairs below are the RFC positions; they are repeated, independently, in the harness
   oracle (harness/hcore/src/m_c12.rs). *)
From TV Require Import Base.Result Base.Bytes Base.Bits Packet.Fields Proofs.FieldsProofs.

(* ---------------------------------------------------------------------------------------------- *)
(* generic laws of the bit-slice specification, for all buffers, offsets, widths and values        *)

(* write then read: the value truncated to the field's width *)
Theorem c12_round_trip : forall off w v buf, (off + w <= 8 * length buf)%nat ->
  rfc_get off w (rfc_set off w v buf) = v mod 2 ^ Z.of_nat w.
Proof. exact rfc_get_set. Qed.

(* frame: every slice that does not overlap [off, off+w) reads the same before and after *)
Theorem c12_frame : forall off w v buf off' w', (off + w <= 8 * length buf)%nat ->
  (off' + w' <= off \/ off + w <= off')%nat ->
  rfc_get off' w' (rfc_set off w v buf) = rfc_get off' w' buf.
Proof. exact rfc_set_frame. Qed.

(* frame, bit by bit: every bit outside [off, off+w) is untouched *)
Theorem c12_frame_bit : forall off w v buf i, (off + w <= 8 * length buf)%nat ->
  (i < off \/ off + w <= i)%nat ->
  nth i (bits_of_bytes (rfc_set off w v buf)) false = nth i (bits_of_bytes buf) false.
Proof. exact rfc_set_frame_bit. Qed.

(* the length is preserved and the result is a byte string *)
Theorem c12_length_bytes : forall off w v buf, (off + w <= 8 * length buf)%nat ->
  length (rfc_set off w v buf) = length buf /\ bytes (rfc_set off w v buf).
Proof. intros off w v buf H. split; [apply rfc_set_length; assumption|apply rfc_set_bytes]. Qed.

(* writing back the value that is there changes nothing *)
Theorem c12_set_get_id : forall off w buf, bytes buf -> (off + w <= 8 * length buf)%nat ->
  rfc_set off w (rfc_get off w buf) buf = buf.
Proof. exact rfc_set_get_id. Qed.

(* network byte order: the slice is a quotient / remainder of the big-endian value of the buffer *)
Theorem c12_network_byte_order : forall off w buf, bytes buf -> (off + w <= 8 * length buf)%nat ->
  rfc_get off w buf = (be_val buf / 2 ^ Z.of_nat (8 * length buf - off - w)) mod 2 ^ Z.of_nat w.
Proof. exact rfc_get_arith. Qed.

(* ---------------------------------------------------------------------------------------------- *)
(* consequences for any accessor pair that implements a slice (applies to every row of the tables)  *)

(* set then get returns the argument truncated to the field width; length, byte-ness and every
   disjoint slice are preserved *)
Theorem c12_accessor_round_trip : forall (A : Type) min off w (valid : A -> Prop) enc dec get set,
  field_ok min off w valid enc dec get set ->
  forall buf a, bytes buf -> (min <= length buf)%nat -> valid a ->
  exists buf', set a buf = Ok buf' /\ length buf' = length buf /\ bytes buf' /\
               get buf' = Ok (dec (enc a mod 2 ^ Z.of_nat w)) /\
               forall off' w', (off' + w' <= off \/ off + w <= off')%nat ->
                               rfc_get off' w' buf' = rfc_get off' w' buf.
Proof. exact @field_roundtrip. Qed.

(* independence: a setter does not change what the getter of a field at a disjoint position returns *)
Theorem c12_accessor_independent : forall (A B : Type) min off w (valid : A -> Prop) enc dec get set
    off' w' (valid' : B -> Prop) enc' dec' get' set',
  field_ok min off w valid enc dec get set -> field_ok min off' w' valid' enc' dec' get' set' ->
  (off' + w' <= off \/ off + w <= off')%nat ->
  forall buf a buf', bytes buf -> (min <= length buf)%nat -> valid a -> set a buf = Ok buf' ->
  get' buf' = get' buf.
Proof. exact @field_independent. Qed.

(* ---------------------------------------------------------------------------------------------- *)
(* per packet type: every getter / setter equals its RFC slice                                      *)
(* uint_field_ok LIM MIN OFF W get set : for every byte string of length >= MIN,
     get buf = Ok (rfc_get OFF W buf)  and  forall 0 <= v < LIM, set v buf = Ok (rfc_set OFF W v buf)
   (LIM = 2^bits of the setter's Rust argument type, so LIM > 2^W shows the truncation).            *)

Theorem c12_ipv4 :
  uint_field_ok 256 20 0 4 ipv4_get_version ipv4_set_version /\
  uint_field_ok 256 20 4 4 ipv4_get_header_length ipv4_set_header_length /\
  uint_field_ok 256 20 8 6 ipv4_get_dscp ipv4_set_dscp /\
  uint_field_ok 256 20 14 2 ipv4_get_ecn ipv4_set_ecn /\
  uint_field_ok 256 20 8 8 ipv4_get_tos ipv4_set_tos /\
  uint_field_ok 65536 20 16 16 ipv4_get_total_length ipv4_set_total_length /\
  uint_field_ok 65536 20 32 16 ipv4_get_identification ipv4_set_identification /\
  uint_field_ok 65536 20 48 16 ipv4_get_flags_and_fragment_offset ipv4_set_flags_and_fragment_offset /\
  uint_field_ok 256 20 64 8 ipv4_get_ttl ipv4_set_ttl /\
  field_ok 20 72 8 (fun p => 0 <= ip_protocol_id p < 256) ip_protocol_id ip_protocol_from
           ipv4_get_protocol ipv4_set_protocol /\
  uint_field_ok 65536 20 80 16 ipv4_get_checksum ipv4_set_checksum /\
  addr_field_ok 4 20 96 32 ipv4_get_source ipv4_set_source /\
  addr_field_ok 4 20 128 32 ipv4_get_destination ipv4_set_destination.
Proof. c12_conj; c12_field. Qed.

(* set_flow_label: the model (and this theorem) describe the FIXED code, argument masked to 20 bits *)
Theorem c12_ipv6 :
  uint_field_ok 256 40 0 4 ipv6_get_version ipv6_set_version /\
  uint_field_ok 256 40 4 8 ipv6_get_traffic_class ipv6_set_traffic_class /\
  uint_field_ok 4294967296 40 12 20 ipv6_get_flow_label ipv6_set_flow_label /\
  uint_field_ok 65536 40 32 16 ipv6_get_payload_length ipv6_set_payload_length /\
  field_ok 40 48 8 (fun p => 0 <= ip_protocol_id p < 256) ip_protocol_id ip_protocol_from
           ipv6_get_next_header ipv6_set_next_header /\
  uint_field_ok 256 40 56 8 ipv6_get_hop_limit ipv6_set_hop_limit /\
  addr_field_ok 16 40 64 128 ipv6_get_source_address ipv6_set_source_address /\
  addr_field_ok 16 40 192 128 ipv6_get_destination_address ipv6_set_destination_address.
Proof. c12_conj; c12_field. Qed.

Theorem c12_udp :
  uint_field_ok 65536 8 0 16 udp_get_source udp_set_source /\
  uint_field_ok 65536 8 16 16 udp_get_destination udp_set_destination /\
  uint_field_ok 65536 8 32 16 udp_get_length udp_set_length /\
  uint_field_ok 65536 8 48 16 udp_get_checksum udp_set_checksum.
Proof. c12_conj; c12_field. Qed.

(* reserved (3 bits) and flags (9 bits) follow the RFC 3540 layout the code implements *)
Theorem c12_tcp :
  uint_field_ok 65536 20 0 16 tcp_get_source tcp_set_source /\
  uint_field_ok 65536 20 16 16 tcp_get_destination tcp_set_destination /\
  uint_field_ok 4294967296 20 32 32 tcp_get_sequence tcp_set_sequence /\
  uint_field_ok 4294967296 20 64 32 tcp_get_acknowledgement tcp_set_acknowledgement /\
  uint_field_ok 256 20 96 4 tcp_get_data_offset tcp_set_data_offset /\
  uint_field_ok 256 20 100 3 tcp_get_reserved tcp_set_reserved /\
  uint_field_ok 65536 20 103 9 tcp_get_flags tcp_set_flags /\
  uint_field_ok 65536 20 112 16 tcp_get_window_size tcp_set_window_size /\
  uint_field_ok 65536 20 128 16 tcp_get_checksum tcp_set_checksum /\
  uint_field_ok 65536 20 144 16 tcp_get_urgent_pointer tcp_set_urgent_pointer.
Proof. c12_conj; c12_field. Qed.

Theorem c12_icmp4 :
  field_ok 8 0 8 (fun t => 0 <= icmp4_type_id t < 256) icmp4_type_id icmp4_type_from
           icmp4_get_icmp_type icmp4_set_icmp_type /\
  uint_field_ok 256 8 8 8 icmp4_get_icmp_code icmp4_set_icmp_code /\
  uint_field_ok 65536 8 16 16 icmp4_get_checksum icmp4_set_checksum.
Proof. c12_conj; c12_field. Qed.

Theorem c12_icmp4_echo_request :
  field_ok 8 0 8 (fun t => 0 <= icmp4_type_id t < 256) icmp4_type_id icmp4_type_from
           icmp4_echo_request_get_icmp_type icmp4_echo_request_set_icmp_type /\
  uint_field_ok 256 8 8 8 icmp4_echo_request_get_icmp_code icmp4_echo_request_set_icmp_code /\
  uint_field_ok 65536 8 16 16 icmp4_echo_request_get_checksum icmp4_echo_request_set_checksum /\
  uint_field_ok 65536 8 32 16 icmp4_echo_request_get_identifier icmp4_echo_request_set_identifier /\
  uint_field_ok 65536 8 48 16 icmp4_echo_request_get_sequence icmp4_echo_request_set_sequence.
Proof. c12_conj; c12_field. Qed.

Theorem c12_icmp4_echo_reply :
  field_ok 8 0 8 (fun t => 0 <= icmp4_type_id t < 256) icmp4_type_id icmp4_type_from
           icmp4_echo_reply_get_icmp_type icmp4_echo_reply_set_icmp_type /\
  uint_field_ok 256 8 8 8 icmp4_echo_reply_get_icmp_code icmp4_echo_reply_set_icmp_code /\
  uint_field_ok 65536 8 16 16 icmp4_echo_reply_get_checksum icmp4_echo_reply_set_checksum /\
  uint_field_ok 65536 8 32 16 icmp4_echo_reply_get_identifier icmp4_echo_reply_set_identifier /\
  uint_field_ok 65536 8 48 16 icmp4_echo_reply_get_sequence icmp4_echo_reply_set_sequence.
Proof. c12_conj; c12_field. Qed.

Theorem c12_icmp4_time_exceeded :
  field_ok 8 0 8 (fun t => 0 <= icmp4_type_id t < 256) icmp4_type_id icmp4_type_from
           icmp4_time_exceeded_get_icmp_type icmp4_time_exceeded_set_icmp_type /\
  uint_field_ok 256 8 8 8 icmp4_time_exceeded_get_icmp_code icmp4_time_exceeded_set_icmp_code /\
  uint_field_ok 65536 8 16 16 icmp4_time_exceeded_get_checksum icmp4_time_exceeded_set_checksum /\
  uint_field_ok 256 8 40 8 icmp4_time_exceeded_get_length icmp4_time_exceeded_set_length.
Proof. c12_conj; c12_field. Qed.

Theorem c12_icmp4_dest_unreachable :
  field_ok 8 0 8 (fun t => 0 <= icmp4_type_id t < 256) icmp4_type_id icmp4_type_from
           icmp4_dest_unreachable_get_icmp_type icmp4_dest_unreachable_set_icmp_type /\
  uint_field_ok 256 8 8 8 icmp4_dest_unreachable_get_icmp_code icmp4_dest_unreachable_set_icmp_code /\
  uint_field_ok 65536 8 16 16 icmp4_dest_unreachable_get_checksum icmp4_dest_unreachable_set_checksum /\
  uint_field_ok 256 8 40 8 icmp4_dest_unreachable_get_length icmp4_dest_unreachable_set_length /\
  uint_field_ok 65536 8 48 16 icmp4_dest_unreachable_get_next_hop_mtu icmp4_dest_unreachable_set_next_hop_mtu.
Proof. c12_conj; c12_field. Qed.

Theorem c12_icmp6 :
  field_ok 8 0 8 (fun t => 0 <= icmp6_type_id t < 256) icmp6_type_id icmp6_type_from
           icmp6_get_icmp_type icmp6_set_icmp_type /\
  uint_field_ok 256 8 8 8 icmp6_get_icmp_code icmp6_set_icmp_code /\
  uint_field_ok 65536 8 16 16 icmp6_get_checksum icmp6_set_checksum.
Proof. c12_conj; c12_field. Qed.

Theorem c12_icmp6_echo_request :
  field_ok 8 0 8 (fun t => 0 <= icmp6_type_id t < 256) icmp6_type_id icmp6_type_from
           icmp6_echo_request_get_icmp_type icmp6_echo_request_set_icmp_type /\
  uint_field_ok 256 8 8 8 icmp6_echo_request_get_icmp_code icmp6_echo_request_set_icmp_code /\
  uint_field_ok 65536 8 16 16 icmp6_echo_request_get_checksum icmp6_echo_request_set_checksum /\
  uint_field_ok 65536 8 32 16 icmp6_echo_request_get_identifier icmp6_echo_request_set_identifier /\
  uint_field_ok 65536 8 48 16 icmp6_echo_request_get_sequence icmp6_echo_request_set_sequence.
Proof. c12_conj; c12_field. Qed.

Theorem c12_icmp6_echo_reply :
  field_ok 8 0 8 (fun t => 0 <= icmp6_type_id t < 256) icmp6_type_id icmp6_type_from
           icmp6_echo_reply_get_icmp_type icmp6_echo_reply_set_icmp_type /\
  uint_field_ok 256 8 8 8 icmp6_echo_reply_get_icmp_code icmp6_echo_reply_set_icmp_code /\
  uint_field_ok 65536 8 16 16 icmp6_echo_reply_get_checksum icmp6_echo_reply_set_checksum /\
  uint_field_ok 65536 8 32 16 icmp6_echo_reply_get_identifier icmp6_echo_reply_set_identifier /\
  uint_field_ok 65536 8 48 16 icmp6_echo_reply_get_sequence icmp6_echo_reply_set_sequence.
Proof. c12_conj; c12_field. Qed.

Theorem c12_icmp6_time_exceeded :
  field_ok 8 0 8 (fun t => 0 <= icmp6_type_id t < 256) icmp6_type_id icmp6_type_from
           icmp6_time_exceeded_get_icmp_type icmp6_time_exceeded_set_icmp_type /\
  uint_field_ok 256 8 8 8 icmp6_time_exceeded_get_icmp_code icmp6_time_exceeded_set_icmp_code /\
  uint_field_ok 65536 8 16 16 icmp6_time_exceeded_get_checksum icmp6_time_exceeded_set_checksum /\
  uint_field_ok 256 8 32 8 icmp6_time_exceeded_get_length icmp6_time_exceeded_set_length.
Proof. c12_conj; c12_field. Qed.

(* next_hop_mtu (48, 16) is where the code puts it; RFC 4443 / 4884 define no such field for ICMPv6
   Destination Unreachable (octets 5..7 are unused there) *)
Theorem c12_icmp6_dest_unreachable :
  field_ok 8 0 8 (fun t => 0 <= icmp6_type_id t < 256) icmp6_type_id icmp6_type_from
           icmp6_dest_unreachable_get_icmp_type icmp6_dest_unreachable_set_icmp_type /\
  uint_field_ok 256 8 8 8 icmp6_dest_unreachable_get_icmp_code icmp6_dest_unreachable_set_icmp_code /\
  uint_field_ok 65536 8 16 16 icmp6_dest_unreachable_get_checksum icmp6_dest_unreachable_set_checksum /\
  uint_field_ok 256 8 32 8 icmp6_dest_unreachable_get_length icmp6_dest_unreachable_set_length /\
  uint_field_ok 65536 8 48 16 icmp6_dest_unreachable_get_next_hop_mtu icmp6_dest_unreachable_set_next_hop_mtu.
Proof. c12_conj; c12_field. Qed.

Theorem c12_ext_header :
  uint_field_ok 256 4 0 4 ext_header_get_version ext_header_set_version /\
  uint_field_ok 65536 4 16 16 ext_header_get_checksum ext_header_set_checksum.
Proof. c12_conj; c12_field. Qed.

Theorem c12_ext_object :
  uint_field_ok 65536 4 0 16 ext_object_get_length ext_object_set_length /\
  field_ok 4 16 8 (fun c => 0 <= class_num_id c < 256) class_num_id class_num_from
           ext_object_get_class_num ext_object_set_class_num /\
  uint_field_ok 256 4 24 8 ext_object_get_class_subtype ext_object_set_class_subtype.
Proof. c12_conj; c12_field. Qed.

Theorem c12_mpls_member :
  uint_field_ok 4294967296 4 0 20 mpls_member_get_label mpls_member_set_label /\
  uint_field_ok 256 4 20 3 mpls_member_get_exp mpls_member_set_exp /\
  uint_field_ok 256 4 23 1 mpls_member_get_bos mpls_member_set_bos /\
  uint_field_ok 256 4 24 8 mpls_member_get_ttl mpls_member_set_ttl.
Proof. c12_conj; c12_field. Qed.

(* ---------------------------------------------------------------------------------------------- *)
(* construction: new / new_view succeed exactly for buffers of at least the minimum header size;
   the packet is the buffer itself, so a view (and every getter, which returns no buffer and is a
   function of the buffer only) leaves it unchanged                                               *)

Theorem c12_new : Forall (fun '(new, new_view, min) => forall buf : list Z,
    (new buf = Ok buf <-> (min <= length buf)%nat) /\ (new buf = Err EPacket <-> (length buf < min)%nat) /\
    (new_view buf = Ok buf <-> (min <= length buf)%nat) /\ (new_view buf = Err EPacket <-> (length buf < min)%nat))
  [ (ipv4_new, ipv4_new_view, 20%nat); (ipv6_new, ipv6_new_view, 40%nat);
      (udp_new, udp_new_view, 8%nat); (tcp_new, tcp_new_view, 20%nat);
      (icmp4_new, icmp4_new_view, 8%nat);
      (icmp4_echo_request_new, icmp4_echo_request_new_view, 8%nat);
      (icmp4_echo_reply_new, icmp4_echo_reply_new_view, 8%nat);
      (icmp4_time_exceeded_new, icmp4_time_exceeded_new_view, 8%nat);
      (icmp4_dest_unreachable_new, icmp4_dest_unreachable_new_view, 8%nat);
      (icmp6_new, icmp6_new_view, 8%nat);
      (icmp6_echo_request_new, icmp6_echo_request_new_view, 8%nat);
      (icmp6_echo_reply_new, icmp6_echo_reply_new_view, 8%nat);
      (icmp6_time_exceeded_new, icmp6_time_exceeded_new_view, 8%nat);
      (icmp6_dest_unreachable_new, icmp6_dest_unreachable_new_view, 8%nat);
      (extensions_new, extensions_new_view, 4%nat);
      (ext_header_new, ext_header_new_view, 4%nat);
      (ext_object_new, ext_object_new_view, 4%nat);
      (mpls_stack_new, mpls_stack_new_view, 4%nat);
      (mpls_member_new, mpls_member_new_view, 4%nat) ].
Proof.
  repeat (apply Forall_cons; [intros buf; cbv beta iota;
    match goal with |- (_ <-> (?m <= _)%nat) /\ _ =>
      destruct (pkt_new_ok m buf) as [H1 H2]; exact (conj H1 (conj H2 (conj H1 H2))) end|]).
  apply Forall_nil.
Qed.

(* a view is the buffer itself: new_view (and new) return the bytes they were given, unchanged; the getters
   take that buffer and return only a value, so nothing a view does can modify it *)
Theorem c12_view_is_identity : forall min buf p, pkt_new min buf = Ok p -> p = buf.
Proof. intros min buf p. unfold pkt_new. destruct (min <=? length buf)%nat; intros H; [injection H as <-; reflexivity|discriminate]. Qed.

(* ---------------------------------------------------------------------------------------------- *)
(* non-vacuity: concrete buffers of the minimum size, non-zero background, argument wider than the
   field; model setter, RFC slice and a neighbouring getter computed                               *)

Example c12_example_ipv4 :
  let buf := repeat 0xff 20 in
  let buf' := 0xff :: 0x03 :: repeat 0xff 18 in
  ipv4_set_dscp 0x40 buf = Ok buf' /\ rfc_set 8 6 0x40 buf = buf' /\
  ipv4_get_dscp buf' = Ok 0 /\ ipv4_get_ecn buf' = Ok 3 /\ ipv4_new buf = Ok buf /\ ipv4_new (repeat 0 19) = Err EPacket.
Proof. vm_compute. repeat split. Qed.

Example c12_example_ipv6 :
  let buf := repeat 0 40 in
  let buf' := 0x00 :: 0x0a :: 0xbc :: 0xde :: repeat 0 36 in
  ipv6_set_flow_label 0xfffabcde buf = Ok buf' /\ rfc_set 12 20 0xfffabcde buf = buf' /\
  ipv6_get_flow_label buf' = Ok 0xabcde /\ ipv6_get_traffic_class buf' = Ok 0 /\
  ipv6_set_traffic_class 0xa5 buf' = Ok (0x0a :: 0x5a :: 0xbc :: 0xde :: repeat 0 36).
Proof. vm_compute. repeat split. Qed.

Example c12_example_udp :
  let buf := [1; 2; 3; 4; 5; 6; 7; 8] in
  udp_set_length 0xabcd buf = Ok [1; 2; 3; 4; 0xab; 0xcd; 7; 8] /\ rfc_set 32 16 0xabcd buf = [1; 2; 3; 4; 0xab; 0xcd; 7; 8] /\
  udp_get_checksum buf = Ok 0x0708 /\ udp_new_view [1; 2; 3; 4; 5; 6; 7] = Err EPacket.
Proof. vm_compute. repeat split. Qed.

Example c12_example_tcp :
  let buf := repeat 0xff 20 in
  let buf' := repeat 0xff 12 ++ [0xfe; 0x02] ++ repeat 0xff 6 in
  tcp_set_flags 0xfe02 buf = Ok buf' /\ rfc_set 103 9 0xfe02 buf = buf' /\
  tcp_get_flags buf' = Ok 0x002 /\ tcp_get_reserved buf' = Ok 7 /\ tcp_get_data_offset buf' = Ok 15.
Proof. vm_compute. repeat split. Qed.

Example c12_example_icmp4 :
  let buf := [8; 0; 0xf7; 0xff; 0x12; 0x34; 0x56; 0x78] in
  icmp4_echo_request_get_icmp_type buf = Ok I4EchoRequest /\
  icmp4_echo_request_set_sequence 0xbeef buf = Ok [8; 0; 0xf7; 0xff; 0x12; 0x34; 0xbe; 0xef] /\
  rfc_set 48 16 0xbeef buf = [8; 0; 0xf7; 0xff; 0x12; 0x34; 0xbe; 0xef] /\
  icmp4_time_exceeded_set_length 17 buf = Ok [8; 0; 0xf7; 0xff; 0x12; 17; 0x56; 0x78] /\
  icmp4_dest_unreachable_get_next_hop_mtu buf = Ok 0x5678 /\
  icmp4_set_icmp_type (I4Other 200) buf = Ok [200; 0; 0xf7; 0xff; 0x12; 0x34; 0x56; 0x78] /\
  icmp4_echo_reply_get_identifier buf = Ok 0x1234.
Proof. vm_compute. repeat split. Qed.

Example c12_example_icmp6 :
  let buf := [128; 0; 0xf7; 0xff; 0x12; 0x34; 0x56; 0x78] in
  icmp6_echo_request_get_icmp_type buf = Ok I6EchoRequest /\
  icmp6_time_exceeded_set_length 17 buf = Ok [128; 0; 0xf7; 0xff; 17; 0x34; 0x56; 0x78] /\
  rfc_set 32 8 17 buf = [128; 0; 0xf7; 0xff; 17; 0x34; 0x56; 0x78] /\
  icmp6_dest_unreachable_get_length buf = Ok 0x12 /\
  icmp6_echo_reply_set_identifier 0xcafe buf = Ok [128; 0; 0xf7; 0xff; 0xca; 0xfe; 0x56; 0x78] /\
  icmp6_get_checksum buf = Ok 0xf7ff.
Proof. vm_compute. repeat split. Qed.

Example c12_example_extension :
  let buf := [0xff; 0xff; 0xff; 0xff] in
  ext_header_set_version 0x12 buf = Ok [0x2f; 0xff; 0xff; 0xff] /\ rfc_set 0 4 0x12 buf = [0x2f; 0xff; 0xff; 0xff] /\
  ext_object_set_class_num CnMpls buf = Ok [0xff; 0xff; 1; 0xff] /\ ext_object_get_length buf = Ok 0xffff /\
  mpls_member_set_label 0xfff00001 buf = Ok [0x00; 0x00; 0x1f; 0xff] /\ rfc_set 0 20 0xfff00001 buf = [0x00; 0x00; 0x1f; 0xff] /\
  mpls_member_set_exp 0xfa buf = Ok [0xff; 0xff; 0xf5; 0xff] /\ mpls_member_set_bos 0xfe buf = Ok [0xff; 0xff; 0xfe; 0xff] /\
  mpls_member_get_label [0x12; 0x34; 0x56; 0x78] = Ok 0x12345 /\ extensions_new [1; 2; 3] = Err EPacket /\
  mpls_stack_new_view buf = Ok buf.
Proof. vm_compute. repeat split. Qed.
