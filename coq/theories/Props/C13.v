(* C13 - Internet checksums verify, including the Paris checksum swap.
   Model: TV.Packet.Checksum (transcription of trippy-packet/src/checksum.rs and of the
   Paris swap in trippy-core/src/net/ipv4.rs, ipv6.rs); spec: RFC 1071 (oc_norm, words, rfc1071). *)
From TV Require Import Base.Result Packet.Checksum Proofs.ChecksumProofs.

(* The u32 accumulator cannot overflow for any datagram the IP length field can describe. *)
Theorem c13_no_u32_overflow : forall src dst proto d k,
  bytes d -> bytes src -> bytes dst -> (length src <= 16)%nat -> (length dst <= 16)%nat ->
  0 <= proto <= 255 -> Z.of_nat (length d) <= 65535 ->
  0 <= word_sum src + word_sum dst + proto + Z.of_nat (length d) + sum_be_words d k < 4294967296 - 65536.
Proof.
  intros src dst proto d k Hd Hs Hds Hls Hld Hp Hl.
  apply (sum_no_overflow (pseudo_sum src dst proto d) d k Hd Hl).
  apply pseudo_bound; assumption.
Qed.

(* The fold loop terminates within three iterations for every u32 and computes the end-around carry. *)
Theorem c13_fold_terminates : forall s, 0 <= s < 4294967296 ->
  fold_loop 3 s = oc_norm s /\ fold_loop 3 s / 65536 = 0.
Proof.
  intros s Hs. rewrite fold_loop_spec by assumption. split; [reflexivity|].
  pose proof (oc_norm_range s ltac:(lia)). apply Z.div_small. lia.
Qed.

(* Value: each codec checksum is the RFC 1071 checksum over (pseudo-header and) data with the checksum word taken as zero. *)
Theorem c13_value_keyed : forall d k src dst proto,
  bytes d -> bytes src -> bytes dst -> (length src <= 16)%nat -> (length dst <= 16)%nat ->
  0 <= proto <= 255 -> (2 * k + 2 <= length d)%nat /\ Z.of_nat (length d) <= 65535 ->
  ip_checksum d (Z.of_nat k) src dst proto = rfc1071 (pseudo_sum src dst proto d) d k.
Proof. exact ip_checksum_value. Qed.

Theorem c13_value_unkeyed : forall d k,
  bytes d -> (2 * k + 2 <= length d)%nat /\ Z.of_nat (length d) <= 65535 ->
  checksum d (Z.of_nat k) = rfc1071 0 d k.
Proof. exact checksum_value. Qed.

(* Verifies: with the checksum inserted, the whole thing sums to 0xFFFF. *)
Theorem c13_verifies_icmp4 : forall d, bytes d -> (4 <= length d)%nat /\ Z.of_nat (length d) <= 65535 ->
  oc_norm (zsum (words (put_word 1 (icmp_ipv4_checksum d) d))) = 65535.
Proof. intros d Hd Hl. exact (unkeyed_verifies d 1 Hd Hl). Qed.

Theorem c13_verifies_ipv4_header : forall d, bytes d -> (12 <= length d)%nat /\ Z.of_nat (length d) <= 65535 ->
  oc_norm (zsum (words (put_word 5 (ipv4_header_checksum d) d))) = 65535.
Proof. intros d Hd Hl. exact (unkeyed_verifies d 5 Hd Hl). Qed.

Theorem c13_verifies_udp4 : forall d src dst, bytes d -> bytes src -> bytes dst ->
  length src = 4%nat -> length dst = 4%nat -> (8 <= length d)%nat /\ Z.of_nat (length d) <= 65535 ->
  oc_norm (pseudo_sum src dst 17 d + zsum (words (put_word 3 (udp_ipv4_checksum d src dst) d))) = 65535.
Proof. intros d src dst Hd Hs Hds Hls Hld Hl. apply (keyed_verifies d 3 src dst 17); try assumption; lia. Qed.

Theorem c13_verifies_udp6 : forall d src dst, bytes d -> bytes src -> bytes dst ->
  length src = 16%nat -> length dst = 16%nat -> (8 <= length d)%nat /\ Z.of_nat (length d) <= 65535 ->
  oc_norm (pseudo_sum src dst 17 d + zsum (words (put_word 3 (udp_ipv6_checksum d src dst) d))) = 65535.
Proof. intros d src dst Hd Hs Hds Hls Hld Hl. apply (keyed_verifies d 3 src dst 17); try assumption; lia. Qed.

Theorem c13_verifies_icmp6 : forall d src dst, bytes d -> bytes src -> bytes dst ->
  length src = 16%nat -> length dst = 16%nat -> (4 <= length d)%nat /\ Z.of_nat (length d) <= 65535 ->
  oc_norm (pseudo_sum src dst 58 d + zsum (words (put_word 1 (icmp_ipv6_checksum d src dst) d))) = 65535.
Proof. intros d src dst Hd Hs Hds Hls Hld Hl. apply (keyed_verifies d 1 src dst 58); try assumption; lia. Qed.

Theorem c13_verifies_tcp4 : forall d src dst, bytes d -> bytes src -> bytes dst ->
  length src = 4%nat -> length dst = 4%nat -> (18 <= length d)%nat /\ Z.of_nat (length d) <= 65535 ->
  oc_norm (pseudo_sum src dst 6 d + zsum (words (put_word 8 (tcp_ipv4_checksum d src dst) d))) = 65535.
Proof. intros d src dst Hd Hs Hds Hls Hld Hl. apply (keyed_verifies d 8 src dst 6); try assumption; lia. Qed.

(* Paris: for every sequence, the UDP checksum field on the wire is the sequence, ports and length
   are untouched, and the datagram still verifies - IPv4 (4-octet) and IPv6 (16-octet) addresses. *)
Theorem c13_paris : forall sp dp seq src dst,
  0 <= sp < 65536 -> 0 <= dp < 65536 -> 0 <= seq < 65536 ->
  bytes src -> bytes dst -> (length src <= 16)%nat -> (length dst <= 16)%nat ->
  let u := paris_udp sp dp seq src dst in
  length u = 10%nat /\ get_word 3 u = seq /\
  get_word 0 u = sp /\ get_word 1 u = dp /\ get_word 2 u = 10 /\
  oc_norm (pseudo_sum src dst 17 u + zsum (words u)) = 65535.
Proof. exact paris_spec. Qed.

(* non-vacuity: a concrete datagram meets the hypotheses and the conclusion computes *)
Example c13_example :
  let d := [0x82; 0x9b; 0x82; 0x9c; 0; 10; 0; 0; 1; 2] in
  let c := udp_ipv4_checksum d [10;0;0;1] [10;0;0;2] in
  oc_norm (pseudo_sum [10;0;0;1] [10;0;0;2] 17 d + zsum (words (put_word 3 c d))) = 65535.
Proof. vm_compute. reflexivity. Qed.
