(* C13 - Internet checksums verify, including the Paris checksum swap.
   Model: TV.Packet.Checksum (transcription of trippy-packet/src/checksum.rs and of the
   Paris swap in trippy-core/src/net/ipv4.rs, ipv6.rs); spec: RFC 1071 (oc_norm, words, rfc1071). *)
From TV Require Import Base.Result Packet.Checksum Proofs.ChecksumProofs.

(* The u32 accumulator cannot overflow for any datagram the IP length field can describe. *)
Theorem c13_no_u32_overflow : forall src dst proto d k,
  bytes d -> bytes src -> bytes dst -> (length src <= 16)%nat -> (length dst <= 16)%nat ->
  0 <= proto <= 255 -> Z.of_nat (length d) <= 65535 ->
  0 <= word_sum src + word_sum dst + proto + Z.of_nat (length d) + sum_be_words d k < 4294967296 - 65536.
Proof.
  intros src dst proto d k Hd Hs Hds Hls Hld Hp Hl.
  apply (sum_no_overflow (pseudo_sum src dst proto d) d k Hd Hl).
  apply pseudo_bound; assumption.
Qed.

(* The fold loop terminates within three iterations for every u32 and computes the end-around carry. *)
Theorem c13_fold_terminates : forall s, 0 <= s < 4294967296 ->
  fold_loop 3 s = oc_norm s /\ fold_loop 3 s / 65536 = 0.
Proof.
  intros s Hs. rewrite fold_loop_spec by assumption. split; [reflexivity|].
  pose proof (oc_norm_range s ltac:(lia)). apply Z.div_small. lia.
Qed.

(* Value: each codec checksum is the RFC 1071 checksum over (pseudo-header and) data with the checksum word taken as zero. *)
Theorem c13_value_keyed : forall d k src dst proto,
  bytes d -> bytes src -> bytes dst -> (length src <= 16)%nat -> (length dst <= 16)%nat ->
  0 <= proto <= 255 -> (2 * k + 2 <= length d)%nat /\ Z.of_nat (length d) <= 65535 ->
  ip_checksum d (Z.of_nat k) src dst proto = rfc1071 (pseudo_sum src dst proto d) d k.
Proof. exact ip_checksum_value. Qed.

Theorem c13_value_unkeyed : forall d k,
  bytes d -> (2 * k + 2 <= length d)%nat /\ Z.of_nat (length d) <= 65535 ->
  checksum d (Z.of_nat k) = rfc1071 0 d k.
Proof. exact checksum_value. Qed.

(* Verifies: with the checksum inserted, the whole thing sums to 0xFFFF. *)
Theorem c13_verifies_icmp4 : forall d, bytes d -> (4 <= length d)%nat /\ Z.of_nat (length d) <= 65535 ->
  oc_norm (zsum (words (put_word 1 (icmp_ipv4_checksum d) d))) = 65535.
Proof. intros d Hd Hl. exact (unkeyed_verifies d 1 Hd Hl). Qed.

Theorem c13_verifies_ipv4_header : forall d, bytes d -> (12 <= length d)%nat /\ Z.of_nat (length d) <= 65535 ->
  oc_norm (zsum (words (put_word 5 (ipv4_header_checksum d) d))) = 65535.
Proof. intros d Hd Hl. exact (unkeyed_verifies d 5 Hd Hl). Qed.

Theorem c13_verifies_udp4 : forall d src dst, bytes d -> bytes src -> bytes dst ->
  length src = 4%nat -> length dst = 4%nat -> (8 <= length d)%nat /\ Z.of_nat (length d) <= 65535 ->
  oc_norm (pseudo_sum src dst 17 d + zsum (words (put_word 3 (udp_ipv4_checksum d src dst) d))) = 65535.
Proof. intros d src dst Hd Hs Hds Hls Hld Hl. apply (keyed_verifies d 3 src dst 17); try assumption; lia. Qed.

Theorem c13_verifies_udp6 : forall d src dst, bytes d -> bytes src -> bytes dst ->
  length src = 16%nat -> length dst = 16%nat -> (8 <= length d)%nat /\ Z.of_nat (length d) <= 65535 ->
  oc_norm (pseudo_sum src dst 17 d + zsum (words (put_word 3 (udp_ipv6_checksum d src dst) d))) = 65535.
Proof. intros d src dst Hd Hs Hds Hls Hld Hl. apply (keyed_verifies d 3 src dst 17); try assumption; lia. Qed.

Theorem c13_verifies_icmp6 : forall d src dst, bytes d -> bytes src -> bytes dst ->
  length src = 16%nat -> length dst = 16%nat -> (4 <= length d)%nat /\ Z.of_nat (length d) <= 65535 ->
  oc_norm (pseudo_sum src dst 58 d + zsum (words (put_word 1 (icmp_ipv6_checksum d src dst) d))) = 65535.
Proof. intros d src dst Hd Hs Hds Hls Hld Hl. apply (keyed_verifies d 1 src dst 58); try assumption; lia. Qed.

Theorem c13_verifies_tcp4 : forall d src dst, bytes d -> bytes src -> bytes dst ->
  length src = 4%nat -> length dst = 4%nat -> (18 <= length d)%nat /\ Z.of_nat (length d) <= 65535 ->
  oc_norm (pseudo_sum src dst 6 d + zsum (words (put_word 8 (tcp_ipv4_checksum d src dst) d))) = 65535.
Proof. intros d src dst Hd Hs Hds Hls Hld Hl. apply (keyed_verifies d 8 src dst 6); try assumption; lia. Qed.

(* Paris: for every sequence, the UDP checksum field on the wire is the sequence, ports and length
   are untouched, and the datagram still verifies - IPv4 (4-octet) and IPv6 (16-octet) addresses. *)
Theorem c13_paris : forall sp dp seq src dst,
  0 <= sp < 65536 -> 0 <= dp < 65536 -> 0 <= seq < 65536 ->
  bytes src -> bytes dst -> (length src <= 16)%nat -> (length dst <= 16)%nat ->
  let u := paris_udp sp dp seq src dst in
  length u = 10%nat /\ get_word 3 u = seq /\
  get_word 0 u = sp /\ get_word 1 u = dp /\ get_word 2 u = 10 /\
  oc_norm (pseudo_sum src dst 17 u + zsum (words u)) = 65535.
Proof. exact paris_spec. Qed.

(* non-vacuity: a concrete datagram meets the hypotheses and the conclusion computes *)
Example c13_example :
  let d := [0x82; 0x9b; 0x82; 0x9c; 0; 10; 0; 0; 1; 2] in
  let c := udp_ipv4_checksum d [10;0;0;1] [10;0;0;2] in
  oc_norm (pseudo_sum [10;0;0;1] [10;0;0;2] 17 d + zsum (words (put_word 3 c d))) = 65535.
Proof. vm_compute. reflexivity. Qed.

(* ====================================================================================================
   Further statements (Proofs/ChecksumExtra.v).
   ==================================================================================================== *)
From TV Require Import Net.Rfc Proofs.ChecksumExtra.
From TV Require Core.Types Net.RecvCommon Net.ProbeShape Proofs.Dispatch4Proofs.

(* ---- the receiver's test over the pseudo-header OCTETS of RFC 768 (IPv4) and RFC 8200 8.1 (IPv6) as laid out in
   Net/Rfc.v (source, destination, zero, protocol, length / source, destination, 32-bit length, 24 zero bits, next
   header), not over the arithmetic shortcut [pseudo_sum] ---- *)
Theorem c13_valid_udp4 : forall d src dst, bytes d -> bytes src -> bytes dst ->
  length src = 4%nat -> length dst = 4%nat -> (8 <= length d)%nat /\ Z.of_nat (length d) <= 65535 ->
  rfc1071_valid (pseudo_header_v4 src dst 17 (Z.of_nat (length d))) (put_word 3 (udp_ipv4_checksum d src dst) d).
Proof. intros d src dst Hd Hs Hds Hls Hld Hl. apply (keyed_valid_v4 d 3 src dst 17); try assumption; lia. Qed.

Theorem c13_valid_tcp4 : forall d src dst, bytes d -> bytes src -> bytes dst ->
  length src = 4%nat -> length dst = 4%nat -> (18 <= length d)%nat /\ Z.of_nat (length d) <= 65535 ->
  rfc1071_valid (pseudo_header_v4 src dst 6 (Z.of_nat (length d))) (put_word 8 (tcp_ipv4_checksum d src dst) d).
Proof. intros d src dst Hd Hs Hds Hls Hld Hl. apply (keyed_valid_v4 d 8 src dst 6); try assumption; lia. Qed.

Theorem c13_valid_udp6 : forall d src dst, bytes d -> bytes src -> bytes dst ->
  length src = 16%nat -> length dst = 16%nat -> (8 <= length d)%nat /\ Z.of_nat (length d) <= 65535 ->
  rfc1071_valid (pseudo_header_v6 src dst 17 (Z.of_nat (length d))) (put_word 3 (udp_ipv6_checksum d src dst) d).
Proof. intros d src dst Hd Hs Hds Hls Hld Hl. apply (keyed_valid_v6 d 3 src dst 17); try assumption; lia. Qed.

Theorem c13_valid_icmp6 : forall d src dst, bytes d -> bytes src -> bytes dst ->
  length src = 16%nat -> length dst = 16%nat -> (4 <= length d)%nat /\ Z.of_nat (length d) <= 65535 ->
  rfc1071_valid (pseudo_header_v6 src dst 58 (Z.of_nat (length d))) (put_word 1 (icmp_ipv6_checksum d src dst) d).
Proof. intros d src dst Hd Hs Hds Hls Hld Hl. apply (keyed_valid_v6 d 1 src dst 58); try assumption; lia. Qed.

(* ---- "with the checksum field taken as zero": the result does not depend on what the field holds ---- *)
Theorem c13_field_taken_as_zero_keyed : forall d k v src dst proto, bytes d -> bytes src -> bytes dst ->
  (length src <= 16)%nat -> (length dst <= 16)%nat -> 0 <= proto <= 255 ->
  (2 * k + 2 <= length d)%nat /\ Z.of_nat (length d) <= 65535 -> 0 <= v < 65536 ->
  ip_checksum (put_word k v d) (Z.of_nat k) src dst proto = ip_checksum d (Z.of_nat k) src dst proto.
Proof. exact ip_checksum_field_independent. Qed.

Theorem c13_field_taken_as_zero_unkeyed : forall d k v, bytes d ->
  (2 * k + 2 <= length d)%nat /\ Z.of_nat (length d) <= 65535 -> 0 <= v < 65536 ->
  checksum (put_word k v d) (Z.of_nat k) = checksum d (Z.of_nat k).
Proof. exact checksum_field_independent. Qed.

(* ---- the positions of the skipped word that no packet type reaches: when it coincides with the odd tail the
   tail octet is left out; when it lies beyond the data nothing is left out (so every length 0.. is covered:
   c13_value_keyed for 2k+2 <= length, these two for 2k+1 = length and length <= 2k) ---- *)
Theorem c13_skipped_word_is_odd_tail : forall d k src dst proto, bytes d -> bytes src -> bytes dst ->
  (length src <= 16)%nat -> (length dst <= 16)%nat -> 0 <= proto <= 255 ->
  length d = (2 * k + 1)%nat -> Z.of_nat (length d) <= 65535 ->
  ip_checksum d (Z.of_nat k) src dst proto =
  65535 - oc_norm (pseudo_sum src dst proto d + zsum (words (firstn (2 * k) d))).
Proof. exact ip_checksum_tail_skipped. Qed.

Theorem c13_skipped_word_beyond_data : forall d k src dst proto, bytes d -> bytes src -> bytes dst ->
  (length src <= 16)%nat -> (length dst <= 16)%nat -> 0 <= proto <= 255 ->
  (length d <= 2 * k)%nat -> Z.of_nat (length d) <= 65535 ->
  ip_checksum d (Z.of_nat k) src dst proto = 65535 - oc_norm (pseudo_sum src dst proto d + zsum (words d)).
Proof. exact ip_checksum_beyond. Qed.

(* every checksum is a u16 *)
Theorem c13_result_is_u16 : forall d k src dst proto,
  0 <= checksum d k < 65536 /\ 0 <= ip_checksum d k src dst proto < 65536.
Proof. intros. split; [apply checksum_range|apply Dispatch4Proofs.ip_checksum_range]. Qed.

(* ---- Paris over IPv6: ipv6.rs make_udp_packet transmits a computed checksum of zero as 0xFFFF, and the Paris swap
   moves that word into the 2-octet payload.  [paris_udp_v6] (closed form; it IS what Net/Dispatch6.v hands to
   send_to, Props/C11.v c11_udp_ipv6_paris_is_c13, and what the probe shape of Net/ProbeShape.v is,
   c13_paris_ipv6_probe_shape) meets the specification by properties [paris_v6_spec]: ten octets, ports and
   length untouched, the sequence in the checksum field, a payload word that is never zero, valid under the
   RFC 8200 pseudo-header - for every sequence, port pair and address pair ---- *)
Theorem c13_paris_ipv6 : forall sp dp seq src dst,
  0 <= sp < 65536 -> 0 <= dp < 65536 -> 0 <= seq < 65536 ->
  bytes src -> bytes dst -> length src = 16%nat -> length dst = 16%nat ->
  let u := paris_udp_v6 sp dp seq src dst in
  bytes u /\ length u = 10%nat /\
  get_word 0 u = sp /\ get_word 1 u = dp /\ get_word 2 u = 10 /\ get_word 3 u = seq /\
  get_word 4 u <> 0 /\
  rfc1071_valid (pseudo_header_v6 src dst 17 10) u.
Proof. exact paris_udp_v6_meets_spec. Qed.

(* ... and that specification leaves no freedom: it determines the ten octets *)
Theorem c13_paris_ipv6_unique : forall sp dp seq src dst u u',
  length src = 16%nat -> length dst = 16%nat ->
  paris_v6_spec sp dp seq src dst u -> paris_v6_spec sp dp seq src dst u' -> u = u'.
Proof. exact paris_v6_spec_unique. Qed.

(* the probe shape the receive-side theorems (C02) use for a Paris probe over IPv6 is the same datagram *)
Theorem c13_paris_ipv6_probe_shape : forall c sp dp seq payload, Types.is_v6 (RecvCommon.rc_dest c) = true ->
  ProbeShape.udp_wire c sp dp seq true payload = paris_udp_v6 sp dp seq (RecvCommon.rc_src c) (RecvCommon.rc_dest c).
Proof. exact udp_wire_paris_v6. Qed.

(* the computed-zero case exists (2001:db8::1 -> 2001:db8::2, ports 5000 -> 33434, sequence 3651): the swap
   alone would put 0x0000 into the payload, the datagram on the wire carries 0xFFFF *)
Example c13_paris_ipv6_computed_zero :
  let src := [32;1;13;184;0;0;0;0;0;0;0;0;0;0;0;1] in
  let dst := [32;1;13;184;0;0;0;0;0;0;0;0;0;0;0;2] in
  get_word 4 (paris_udp 5000 33434 3651 src dst) = 0 /\
  paris_udp_v6 5000 33434 3651 src dst = [19; 136; 130; 154; 0; 10; 14; 67; 255; 255].
Proof. exact paris_v6_computed_zero_example. Qed.

(* non-vacuity of the corner positions: odd length with the skipped word on the tail; skipped word beyond the data *)
Example c13_skipped_word_examples :
  checksum [1;2;3;4;5] 2 = 65535 - oc_norm (zsum (words [1;2;3;4])) /\
  ip_checksum [1;2;3;4;5] 2 [1;2;3;4] [5;6;7;8] 17 =
    65535 - oc_norm (pseudo_sum [1;2;3;4] [5;6;7;8] 17 [1;2;3;4;5] + zsum (words [1;2;3;4])) /\
  checksum [1;2;3;4] 2 = 65535 - oc_norm (zsum (words [1;2;3;4])).
Proof. vm_compute. repeat split; reflexivity. Qed.

(* the same two corner positions for the un-keyed checksum (ICMPv4, IPv4 header) *)
Theorem c13_skipped_word_unkeyed : forall d k, bytes d -> Z.of_nat (length d) <= 65535 ->
  (length d = (2 * k + 1)%nat -> checksum d (Z.of_nat k) = 65535 - oc_norm (zsum (words (firstn (2 * k) d)))) /\
  (d <> [] -> (length d <= 2 * k)%nat -> checksum d (Z.of_nat k) = 65535 - oc_norm (zsum (words d))).
Proof.
  intros d k Hd Hl. split; [intro H; apply checksum_tail_skipped; assumption|].
  intros Hne H. apply checksum_beyond; assumption.
Qed.

(* Paris over IPv4, stated with the RFC 768 pseudo-header octets (c13_paris states it with [pseudo_sum]) *)
Theorem c13_paris_ipv4_valid : forall sp dp seq src dst,
  0 <= sp < 65536 -> 0 <= dp < 65536 -> 0 <= seq < 65536 ->
  bytes src -> bytes dst -> length src = 4%nat -> length dst = 4%nat ->
  rfc1071_valid (pseudo_header_v4 src dst 17 10) (paris_udp sp dp seq src dst).
Proof. exact paris_udp_valid_v4. Qed.
