(* C14 - ICMP multi-part extensions are parsed faithfully and always terminate.
   Model: TV.Packet.IcmpExt (transcription of trippy-packet icmp_extension.rs, the RFC 4884 split of
   icmpv4.rs / icmpv6.rs TimeExceededPacket / DestinationUnreachablePacket AFTER docs/integration/C14_fix_1.patch and
   C04_fix_2.patch, trippy-core net/extension.rs Extensions::try_from, and the way the caller applies
   IcmpExtensionParseMode).  Spec: TV.Packet.Rfc4884 (a message BUILDER written from RFC 4884 / 4950 / 3032). *)
From TV Require Import Base.Result Packet.ByteOps Packet.IcmpExt Packet.Rfc4884 Proofs.IcmpExtProofs.

(* Round trip.  For every original datagram, every list of objects (any class, any payload, MPLS stacks of any depth
   >= 1 with any label / EXP / S / TTL), both families, both sender conventions, Time Exceeded and Destination
   Unreachable, every value of the seven other ICMP header octets:
   - payload() is the original datagram exactly as far as the message carries it (padded to the word for a compliant
     sender, the 128 octets for a legacy sender), extension() is exactly the extension structure;
   - Extensions::try_from reports exactly the encoded objects, in order (an MPLS stack up to and including its
     bottom-of-stack entry - see c14_roundtrip_labels for the usual case);
   - with parse mode Enabled the tracer gets (datagram, those extensions); with parse mode Disabled it gets no
     extensions, and the datagram (Destination Unreachable) resp. the raw ICMP payload, of which the datagram is a
     prefix (Time Exceeded). *)
Theorem c14_roundtrip : forall fam fixed orig objs mode kind,
  length fixed = 7%nat -> build_wf fam mode orig -> Forall obj_wf objs ->
  let msg := build_message fam fixed orig objs mode in
  split_payload_extension fam msg = Ok (expected_datagram fam mode orig, Some (ext_structure objs)) /\
  extensions_try_from (ext_structure objs) = Ok (map expected_extension objs) /\
  nested_and_extensions ExtEnabled kind fam msg
    = Ok (expected_datagram fam mode orig, Some (map expected_extension objs)) /\
  nested_and_extensions ExtDisabled kind fam msg
    = Ok (match kind with
          | KTimeExceeded => quoted fam mode orig ++ ext_structure objs
          | KDestinationUnreachable => expected_datagram fam mode orig
          end, None) /\
  firstn (length (expected_datagram fam mode orig)) (quoted fam mode orig) = expected_datagram fam mode orig.
Proof.
  intros fam fixed orig objs mode kind Hf Hwf Ho msg. subst msg. repeat split.
  - apply split_payload_extension_built; assumption.
  - apply extensions_try_from_built; assumption.
  - apply roundtrip_enabled; assumption.
  - apply roundtrip_disabled; assumption.
  - apply expected_prefix_of_quoted.
Qed.

(* When every label stack is a proper RFC 3032 stack (S = 1 at most on its last entry - this includes stacks cut
   short by the sender) the report is every label / EXP / S / TTL that was encoded, verbatim and in order. *)
Theorem c14_roundtrip_labels : forall objs,
  Forall stacks_bottom_only_last objs -> map expected_extension objs = map verbatim_extension objs.
Proof. exact expected_is_verbatim. Qed.

(* Within.  For EVERY message of at least the 8-octet ICMP header - hence every value of the length octet, every
   truncation, every garbage - and both families: payload() is the sub-range [8, 8+n) of the message, extension()
   (when present) is the sub-range [8+c, end) with n <= c and at least the 4-octet extension header inside:
   disjoint, in order, inside the message. *)
Theorem c14_within : forall fam buf, (8 <= length buf)%nat ->
  exists n e,
    split_payload_extension fam buf = Ok (firstn n (skipn 8 buf), e) /\ (8 + n <= length buf)%nat /\
    match e with
    | None => True
    | Some x => exists c, (n <= c)%nat /\ (8 + c + 4 <= length buf)%nat /\ x = skipn (8 + c) buf
    end.
Proof. exact split_payload_extension_within. Qed.

(* Termination.  For EVERY buffer: the object iterator and the label-stack iterator return (no fault, no read outside:
   every item is a suffix of the buffer that starts inside it) after at most length/4 items, i.e. within
   length/4 + 1 calls of next(); more fuel changes nothing. *)
Theorem c14_terminates : forall buf,
  (exists items, extensions_objects buf = Ok items /\ (length items <= length buf / 4)%nat /\
                 Forall (suffix_inside buf 4) items) /\
  (exists items, mpls_label_stack_members buf = Ok items /\ (length items <= length buf / 4)%nat /\
                 Forall (suffix_inside buf 0) items) /\
  (forall fuel, (length buf / 4 + 1 <= fuel)%nat ->
     extension_object_iter_collect fuel buf 4 = extensions_objects buf /\
     mpls_label_stack_iter_collect fuel buf 0 0 = mpls_label_stack_members buf).
Proof.
  intro buf. split; [apply objects_total|]. split; [apply members_total|]. apply iter_fuel_enough.
Qed.

(* No fault (no panic, no overflow, no out-of-bounds, fuel never exhausted) anywhere in the decoding, for EVERY byte
   string, both families, both message types, both parse modes. *)
Theorem c14_no_fault : forall pm kind fam buf,
  is_fault (nested_and_extensions pm kind fam buf) = false /\ is_fault (extensions_try_from buf) = false.
Proof. intros. split; [apply nested_and_extensions_nofault|apply extensions_try_from_nofault]. Qed.

(* ---- non-vacuity: a compliant ICMPv6 Time Exceeded quoting 320 octets (length attribute 40), one MPLS object with a
        two-entry stack and one object of class 2 ---- *)
Example c14_example :
  let orig := repeat 7 (Z.to_nat 320) in
  let objs := [ObjMpls 1 [{| lse_label := 27121; lse_exp := 4; lse_s := 0; lse_ttl := 1 |};
                          {| lse_label := 2; lse_exp := 4; lse_s := 1; lse_ttl := 255 |}];
               ObjOther 2 3 [1; 2; 3]] in
  let msg := build_message FamV6 [3; 0; 0; 0; 0; 0; 0] orig objs BmCompliant in
  nth 4 msg 0 = 40 /\
  nested_and_extensions ExtEnabled KTimeExceeded FamV6 msg
  = Ok (orig, Some [ExtMpls [{| mpls_label := 27121; mpls_exp := 4; mpls_bos := 0; mpls_ttl := 1 |};
                             {| mpls_label := 2; mpls_exp := 4; mpls_bos := 1; mpls_ttl := 255 |}];
                    ExtUnknown 2 3 [1; 2; 3]]).
Proof. vm_compute. split; reflexivity. Qed.

Example c14_example_side_conditions :
  build_wf FamV6 BmCompliant (repeat 7 (Z.to_nat 320)) /\
  obj_wf (ObjMpls 1 [{| lse_label := 27121; lse_exp := 4; lse_s := 0; lse_ttl := 1 |}]) /\
  obj_wf (ObjOther 2 3 [1; 2; 3]).
Proof.
  split; [split; [discriminate|vm_compute; discriminate]|].
  split; cbn; repeat split; try lia; try discriminate; repeat constructor; cbn; lia.
Qed.

(* ---- the pinned code (before C14_fix_1 / C04_fix_2), for the record: the same message faults, because the length
        attribute 40 is multiplied by 8 in u8; and an object length field of 3 faults payload() ---- *)
Example c14_pinned_u8_overflow :
  pinned_split_payload_extension FamV6
    (build_message FamV6 [3; 0; 0; 0; 0; 0; 0] (repeat 7 (Z.to_nat 320)) [] BmCompliant) = Fault Overflow.
Proof. vm_compute. reflexivity. Qed.

Example c14_pinned_object_payload_fault :
  pinned_extension_object_payload [0; 3; 1; 1] = Fault OutOfBounds /\
  pinned_extension_object_payload [255; 255; 1; 1; 0; 0; 0; 0] = Fault OutOfBounds /\
  extension_object_payload [0; 3; 1; 1] = Ok [] /\
  extension_object_payload [255; 255; 1; 1; 9; 8; 7; 6] = Ok [9; 8; 7; 6].
Proof. vm_compute. repeat split; reflexivity. Qed.

(* ==================================================================================================================
   Second part.  An encoder for the structure the tracer REPORTS (Packet/ExtEncode.v: RFC 4884 s.7 header, version 2
   + RFC 1071 checksum; object headers length / class-num / c-type; RFC 4950 label stack entries label 20 / EXP 3 /
   S 1 / TTL 8), closed forms of the splitter and of the two iterators for EVERY octet string, what exactly happens
   to malformed structures, and the link to the receive path (recv4 / recv6).
   ================================================================================================================== *)
From TV Require Import Packet.Checksum Packet.ExtEncode Proofs.ExtCodecProofs.
From Coq Require Import Sorted.

(* ---- (a) faithful ---- *)

(* parse (encode s) = s.  For EVERY list of reported extensions whose fields are in range (any number of objects,
   any mix of MPLS stacks and other classes, any payload, labels < 2^20, EXP < 8, TTL < 256, S = 1 at most on the
   last entry of a stack): Extensions::try_from of the encoded structure is exactly that list, in order. *)
Theorem c14_parse_encode_identity : forall es,
  Forall ext_wf es -> extensions_try_from (encode_extensions es) = Ok es.
Proof. exact parse_encode_id. Qed.

(* hence the encoding is unambiguous: two different well-formed structures never share their octets *)
Theorem c14_encode_injective : forall es1 es2,
  Forall ext_wf es1 -> Forall ext_wf es2 -> encode_extensions es1 = encode_extensions es2 -> es1 = es2.
Proof. exact encode_injective. Qed.

(* The same through a whole ICMP message: ICMPv4 and ICMPv6, Time Exceeded and Destination Unreachable, compliant
   sender (length attribute set) and legacy sender (extension at octet 128 of the quotation), any other header
   octets: payload() is the original datagram field, extension() is exactly the encoded structure, and with parse
   mode Enabled the tracer gets (original datagram, exactly the reported list). *)
Theorem c14_message_parse_encode_identity : forall fam fixed orig es mode kind,
  length fixed = 7%nat -> build_wf fam mode orig -> Forall ext_wf es ->
  let msg := encode_message fam fixed orig es mode in
  split_payload_extension fam msg = Ok (expected_datagram fam mode orig, Some (encode_extensions es)) /\
  nested_and_extensions ExtEnabled kind fam msg = Ok (expected_datagram fam mode orig, Some es).
Proof. exact message_parse_encode_id. Qed.

(* The encoder produces a real wire structure: octets only, at least the 4-octet header, version nibble 2 and
   reserved bits 0, and the receiver's RFC 1071 test over the whole structure (checksum included) succeeds. *)
Theorem c14_encoder_emits_valid_wire : forall es, Forall ext_wf es -> Forall ext_octets es ->
  bytes (encode_extensions es) /\ (4 <= length (encode_extensions es))%nat /\
  nth 0 (encode_extensions es) 0 = 32 /\ nth 1 (encode_extensions es) 0 = 0 /\
  (Z.of_nat (length (encode_extensions es)) <= 65535 -> oc_norm (zsum (words (encode_extensions es))) = 65535).
Proof. exact encode_extensions_wire. Qed.

(* "The quoted original datagram is returned unchanged": what payload() returns for a built message is the original
   datagram followed by fewer than one word of zero padding (none when its length is a multiple of the word) for a
   compliant sender; its first 128 octets (zero padded when shorter) for a legacy sender. *)
Theorem c14_datagram_unchanged : forall fam mode orig,
  match mode with
  | BmCompliant =>
    exists k, expected_datagram fam mode orig = orig ++ repeat 0 k /\ (k < word fam)%nat /\
              ((length orig mod word fam = 0)%nat -> k = 0%nat)
  | BmLegacy =>
    expected_datagram fam mode orig = firstn 128 orig ++ repeat 0 (128 - length orig) /\
    length (expected_datagram fam mode orig) = 128%nat
  end.
Proof. exact expected_datagram_shape. Qed.

(* "Padding is not mistaken for extension data" (nor for datagram): the original datagram field on the wire is what
   payload() returns followed by the zero padding up to octet 128; the extension is what follows that field
   (c14_message_parse_encode_identity), so the padding is in neither part. *)
Theorem c14_padding_in_neither_part : forall fam mode orig,
  quoted fam mode orig
  = expected_datagram fam mode orig ++ repeat 0 (128 - length (expected_datagram fam mode orig)).
Proof. exact quoted_is_expected_then_zeros. Qed.

(* The original datagram comes back whatever the octets of the extension are (garbage included); with parse mode
   Enabled the result is that datagram together with whatever Extensions::try_from makes of those octets (an error
   value of the conversion is the error value of the whole), with parse mode Disabled the extension is not looked at. *)
Theorem c14_message_any_extension : forall fam fixed orig mode kind X,
  length fixed = 7%nat -> build_wf fam mode orig -> (4 <= length X)%nat ->
  let msg := icmp_head fam fixed (length_attribute fam mode orig) ++ quoted fam mode orig ++ X in
  split_payload_extension fam msg = Ok (expected_datagram fam mode orig, Some X) /\
  nested_and_extensions ExtEnabled kind fam msg
    = (let* x := extensions_try_from X in Ok (expected_datagram fam mode orig, Some x)) /\
  nested_and_extensions ExtDisabled kind fam msg
    = Ok (match kind with
          | KTimeExceeded => quoted fam mode orig ++ X
          | KDestinationUnreachable => expected_datagram fam mode orig
          end, None).
Proof. exact message_any_extension. Qed.

Example c14_encoder_example :
  let es := [ExtMpls [{| mpls_label := 27121; mpls_exp := 4; mpls_bos := 0; mpls_ttl := 1 |};
                      {| mpls_label := 1048575; mpls_exp := 7; mpls_bos := 1; mpls_ttl := 255 |}];
             ExtUnknown 2 3 [1; 2; 3];
             ExtUnknown 255 0 []] in
  Forall ext_wf es /\ Forall ext_octets es /\
  encode_extensions es = [32; 0; 181; 71;  0; 12; 1; 1;  6; 159; 24; 1;  255; 255; 255; 255;  0; 7; 2; 3; 1; 2; 3;  0; 4; 255; 0] /\
  extensions_try_from (encode_extensions es) = Ok es.
Proof.
  cbv zeta. split; [|split; [|split; vm_compute; reflexivity]].
  - repeat constructor; cbn; try lia; try discriminate.
  - repeat constructor; cbn; lia.
Qed.

(* ---- the splitter in closed form ---- *)

(* For EVERY message of at least the 8-octet ICMP header, both families: with len = the length attribute in octets
   (octet 5 * 4 resp. octet 4 * 8) and l = the ICMP payload, the result is [split_spec len l]: no extension and the
   whole payload when l is shorter than len, or at most 128 octets, or has fewer than 4 octets after the cut
   (cut = len when len > 128, else 128); otherwise the first len octets (128 when len = 0) and everything from the cut. *)
Theorem c14_split_closed_form : forall fam buf, (8 <= length buf)%nat ->
  split_payload_extension fam buf = Ok (split_spec (length_attribute_octets fam buf) (skipn 8 buf)).
Proof. exact split_payload_extension_exact. Qed.

(* "Truncated header gives no extensions": exactly when no extension is reported, and then payload() is the whole
   ICMP payload, untrimmed (the octets after the quotation included). *)
Theorem c14_no_extension_exactly_when : forall len l,
  (snd (split_spec len l) = None <->
   (length l < len)%nat \/ (length l <= 128)%nat \/ (length l < split_cut len + 4)%nat) /\
  (snd (split_spec len l) = None -> fst (split_spec len l) = l).
Proof. intros len l. split; [apply split_spec_none|apply split_spec_none_whole]. Qed.

(* When an extension is reported it starts at the cut (at or after octet 128 of the payload), holds at least the
   4-octet header, and the payload ends at or before the cut. *)
Theorem c14_extension_position : forall len l x, snd (split_spec len l) = Some x ->
  x = skipn (split_cut len) l /\ fst (split_spec len l) = firstn (split_keep len) l /\
  (split_keep len <= split_cut len)%nat /\ (split_cut len + 4 <= length l)%nat /\ (128 <= split_cut len)%nat.
Proof. exact split_spec_some. Qed.

Example c14_split_example :
  (* ICMPv4, length attribute 9 words = 36 octets, payload of 128 + 3 octets: no room for an extension header *)
  split_payload_extension FamV4 ([11; 0; 0; 0; 0; 9; 0; 0] ++ repeat 7 131) = Ok (repeat 7 131, None) /\
  (* one octet more: the first 36 octets, and the 4 octets from octet 128 *)
  split_payload_extension FamV4 ([11; 0; 0; 0; 0; 9; 0; 0] ++ repeat 7 132) = Ok (repeat 7 36, Some (repeat 7 4)) /\
  (* a length attribute that points beyond the message: no extension, whole payload *)
  split_payload_extension FamV6 ([3; 0; 0; 0; 255; 0; 0; 0] ++ repeat 7 300) = Ok (repeat 7 300, None).
Proof. vm_compute. repeat split; reflexivity. Qed.

(* ---- (b) terminates, total ---- *)

(* ExtensionObjectIter::next, exactly, for EVERY buffer and EVERY offset (also beyond the end): with rest = the
   octets from the offset on, it returns None when fewer than 4 octets are left, or the length field (first two
   octets of rest, big endian) is below 4 or beyond what is left; otherwise the item rest and the offset advanced by
   the length field.  Nothing outside the buffer is read, the result is always a value. *)
Theorem c14_object_iterator_step : forall buf offset,
  extension_object_iter_next buf offset =
  Ok (if object_stops (skipn offset buf) then None
      else Some (skipn offset buf, (offset + declared_length (skipn offset buf))%nat)).
Proof. exact obj_next_all. Qed.

(* The whole iteration, for EVERY octet string, as a relation on suffixes that does not mention offsets or fuel:
   the items are the successive remainders, each starting [declared_length] octets after the previous one, up to
   (and not including) the first remainder that stops.  Their declared lengths add up to at most the octets after
   the header (the objects are disjoint and inside), so there are at most (length - 4) / 4 of them, and every later
   item is at least 4 octets shorter than every earlier one (strictly decreasing suffixes). *)
Theorem c14_objects_structure : forall buf,
  exists items, extensions_objects buf = Ok items /\ obj_run (skipn 4 buf) items /\
    (total_declared items <= length buf - 4)%nat /\ (length items <= (length buf - 4) / 4)%nat /\
    StronglySorted (fun a b => (length b + 4 <= length a)%nat) items.
Proof. exact objects_structure. Qed.

(* the relation determines the items: it is a specification, not a description of one possible run *)
Theorem c14_object_run_deterministic : forall rest i1 i2, obj_run rest i1 -> obj_run rest i2 -> i1 = i2.
Proof. intros rest i1 i2 H1 H2. exact (obj_run_deterministic rest i1 H1 i2 H2). Qed.

(* The label stack iterator likewise: 4-octet steps, the entry whose S bit (lowest bit of its third octet) is set is
   the last one yielded, fewer than 4 remaining octets end the stack; at most length / 4 entries. *)
Theorem c14_label_stack_structure : forall buf,
  (exists items, mpls_label_stack_members buf = Ok items /\ mpls_run buf items /\
     (length items <= length buf / 4)%nat /\
     StronglySorted (fun a b => (length b + 4 <= length a)%nat) items) /\
  (forall i1 i2, mpls_run buf i1 -> mpls_run buf i2 -> i1 = i2) /\
  (forall offset bos, mpls_label_stack_iter_next buf offset bos =
     Ok (if (0 <? bos) || (length (skipn offset buf) <? 4)%nat then None
         else Some (skipn offset buf, (offset + 4)%nat, Z.land (nth 2 (skipn offset buf) 0) 1))).
Proof.
  intro buf. split; [apply members_structure|]. split.
  - intros i1 i2 H1 H2. exact (mpls_run_deterministic buf i1 H1 i2 H2).
  - intros offset bos. apply mpls_next_all.
Qed.

Example c14_iterator_example :
  (* two objects (lengths 8 and 4), then a remainder whose length field (9) is beyond the 6 octets left *)
  let buf := [32; 0; 0; 0;  0; 8; 2; 1; 9; 9; 9; 9;  0; 4; 7; 7;  0; 9; 1; 1; 5; 5] in
  extensions_objects buf = Ok [skipn 4 buf; skipn 12 buf] /\
  object_stops (skipn 16 buf) = true /\
  (* a label stack of three entries whose second has S = 1: two members *)
  mpls_label_stack_members [0; 1; 0; 9;  0; 2; 1; 9;  0; 3; 0; 9] = Ok [[0; 1; 0; 9; 0; 2; 1; 9; 0; 3; 0; 9]; [0; 2; 1; 9; 0; 3; 0; 9]].
Proof. vm_compute. repeat split; reflexivity. Qed.

(* ---- (c) malformed input ---- *)

(* Wrong version: a structure of at least 4 octets whose version nibble is not 2 gives an EMPTY extension list
   (Ok [], i.e. the tracer reports Some(Extensions { extensions: [] }) - present but empty, not absent, not an
   error), whatever follows. *)
Theorem c14_wrong_version_is_empty : forall b0 b1 b2 b3 rest, 0 <= b0 < 256 -> b0 / 16 <> 2 ->
  extensions_try_from (b0 :: b1 :: b2 :: b3 :: rest) = Ok [].
Proof. exact try_from_wrong_version. Qed.

(* Bad checksum: the code never looks at the checksum, nor at the 12 reserved bits - two structures that differ only
   there (and agree on the version nibble) are decoded identically.  (RFC 4884 s.7 leaves a receiver free to
   validate; this one does not: see DELIVERY.md.) *)
Theorem c14_checksum_and_reserved_ignored : forall b0 b1 b2 b3 c0 c1 c2 c3 rest,
  0 <= b0 < 256 -> 0 <= c0 < 256 -> b0 / 16 = c0 / 16 ->
  extensions_try_from (b0 :: b1 :: b2 :: b3 :: rest) = extensions_try_from (c0 :: c1 :: c2 :: c3 :: rest).
Proof. exact try_from_checksum_ignored. Qed.

(* Truncated header: fewer than 4 octets is the error value of the view (InsufficientPacketBuffer); by
   c14_extension_position the splitter never hands such a slice to the conversion. *)
Theorem c14_truncated_header_is_an_error : forall buf, (length buf < 4)%nat -> extensions_try_from buf = Err EPacket.
Proof. exact try_from_truncated. Qed.

(* An object whose declared length is shorter than its header, or longer than what remains, or that has no room for
   its header, ends the iteration: exactly the well-formed objects before it are reported, it and everything after
   it are dropped silently, no error. *)
Theorem c14_malformed_object_ends_iteration : forall b0 b1 b2 b3 objs tail,
  0 <= b0 < 256 -> b0 / 16 = 2 -> Forall obj_wf objs -> object_stops tail = true ->
  extensions_try_from (b0 :: b1 :: b2 :: b3 :: ext_body objs ++ tail) = Ok (map expected_extension objs).
Proof. exact try_from_stops_at_malformed. Qed.

(* An MPLS object (class-num 1) whose length field is 4..7 - accepted by the iterator, but without room for one
   label stack entry - makes the WHOLE conversion an error value, whatever precedes and follows it: the tracer then
   gets an error for this ICMP message instead of a response (see DELIVERY.md). *)
Theorem c14_short_mpls_object_is_an_error : forall b0 b1 b2 b3 objs t p tail,
  0 <= b0 < 256 -> b0 / 16 = 2 -> Forall obj_wf objs -> (length p < 4)%nat ->
  extensions_try_from (b0 :: b1 :: b2 :: b3 :: ext_body objs ++ ([0; Z.of_nat (4 + length p); 1; t] ++ p) ++ tail)
  = Err EPacket.
Proof. exact try_from_short_mpls. Qed.

Example c14_malformed_example :
  extensions_try_from [16; 0; 0; 0;  0; 8; 2; 1; 9; 9; 9; 9] = Ok [] /\
  extensions_try_from [32; 0; 0; 0;  0; 8; 2; 1; 9; 9; 9; 9] = extensions_try_from [47; 255; 18; 52;  0; 8; 2; 1; 9; 9; 9; 9] /\
  extensions_try_from [32; 0; 0] = Err EPacket /\
  extensions_try_from [32; 0; 0; 0;  0; 8; 2; 1; 9; 9; 9; 9;  0; 3; 1; 1] = Ok [ExtUnknown 2 1 [9; 9; 9; 9]] /\
  extensions_try_from [32; 0; 0; 0;  0; 8; 2; 1; 9; 9; 9; 9;  0; 6; 1; 1; 7; 7;  0; 4; 5; 5] = Err EPacket /\
  obj_wf (ObjOther 2 1 [9; 9; 9; 9]) /\ object_stops [0; 3; 1; 1] = true.
Proof.
  split; [vm_compute; reflexivity|]. split; [vm_compute; reflexivity|]. split; [vm_compute; reflexivity|].
  split; [vm_compute; reflexivity|]. split; [vm_compute; reflexivity|]. split; [|vm_compute; reflexivity].
  cbn. repeat split; try lia; discriminate.
Qed.

(* ---- the receive path ---- *)
From TV Require Import Core.Types Net.RecvCommon Net.Recv4 Net.Recv6 Proofs.RecvProofs Proofs.RecvRoundtrip Proofs.ExtModelsAgree Proofs.ExtEndToEnd.

(* The receive path (Net/Recv4.v, Net/Recv6.v: the model C04 and C02 are stated over) has its own transcription of the
   decoding, producing the canonical opaque encoding of the extension list.  On EVERY octet string it computes what
   the codec above computes, error values included - so every statement of this file is a statement about what
   recv4 / recv6 report. *)
Theorem c14_receive_path_decodes_alike : forall v, bytes v ->
  RecvCommon.extensions_try_from v = (let* es := IcmpExt.extensions_try_from v in Ok (enc_exts es)).
Proof. exact extensions_models_agree. Qed.

(* End to end, ICMPv4: any outer IPv4 header H (any header length), Time Exceeded (code 0) or Destination
   Unreachable (any code), extension parsing enabled, a message built by the encoder that fits the receive buffer
   and quotes at least an IPv4 header: recv4 decodes the quoted datagram exactly as far as the message carries it
   and attaches exactly the encoded extension list. *)
Theorem c14_recv4_reports_encoded : forall c now H src (du : bool) code c1 c2 b4 b6 b7 orig es mode,
  hdr4_ok H -> (forall x, ipv4_get_source (H ++ x) = Ok src) -> (du = false -> code = 0) ->
  rc_ext c = true -> build_wf FamV4 mode orig -> Forall ext_wf es -> Forall ext_octets es ->
  20 <= zlen (expected_datagram FamV4 mode orig) ->
  let msg := encode_message FamV4 [if du then 3 else 11; code; c1; c2; b4; b6; b7] orig es mode in
  zlen H + zlen msg <= 1024 ->
  recv4 c now (H ++ msg) = finish4 c now src du code (expected_datagram FamV4 mode orig) (Some (enc_exts es)).
Proof. exact recv4_reports_encoded. Qed.

(* End to end, ICMPv6 (Time Exceeded = type 3, Destination Unreachable = type 1). *)
Theorem c14_recv6_reports_encoded : forall c now from (du : bool) code c1 c2 b5 b6 b7 orig es mode,
  is_v6 from = true -> (du = false -> code = 0) ->
  rc_ext c = true -> build_wf FamV6 mode orig -> Forall ext_wf es -> Forall ext_octets es ->
  40 <= zlen (expected_datagram FamV6 mode orig) ->
  let msg := encode_message FamV6 [if du then 1 else 3; code; c1; c2; b5; b6; b7] orig es mode in
  zlen msg <= 1024 ->
  recv6 c now (Some from) msg = finish6 c now from du code (expected_datagram FamV6 mode orig) (Some (enc_exts es)).
Proof. exact recv6_reports_encoded. Qed.

(* non-vacuity: an ICMP tracer, a router 10.0.0.9 answering Time Exceeded for an echo request of 36 octets (compliant,
   length attribute 9), one MPLS object - the response carries the canonical encoding of exactly that stack *)
Example c14_recv4_example :
  let c := {| rc_src := [10;0;0;1]; rc_dest := [10;0;0;2]; rc_proto := Icmp; rc_privileged := true; rc_ext := true; rc_pattern := 0 |} in
  let H := [69;0;0;0; 0;0;0;0; 64;1;0;0; 10;0;0;9; 10;0;0;1] in
  let orig := [69;0;0;36; 0;0;64;0; 1;1;0;0; 10;0;0;1; 10;0;0;2] ++ [8;0;0;0; 18;52;130;155] ++ repeat 0 8 in
  let es := [ExtMpls [{| mpls_label := 27121; mpls_exp := 4; mpls_bos := 1; mpls_ttl := 1 |}]] in
  let msg := encode_message FamV4 [11; 0; 0; 0; 0; 0; 0] orig es BmCompliant in
  hdr4_ok H /\ build_wf FamV4 BmCompliant orig /\ Forall ext_wf es /\ 20 <= zlen (expected_datagram FamV4 BmCompliant orig) /\
  zlen H + zlen msg <= 1024 /\ nth 5 msg 0 = 9 /\
  recv4 c 5 (H ++ msg)
  = Ok (Some (RTimeExceeded {| r_recv := 5; r_addr := [10;0;0;9]; r_proto := PIcmp 4660 33435 (Some 0) |} 0
                            (Some (enc_exts es)))) /\
  enc_exts es = [1; 0; 1; 0; 105; 241; 4; 1; 1].
Proof.
  cbv zeta. split; [vm_compute; split; [discriminate|reflexivity]|].
  split; [split; [discriminate|vm_compute; discriminate]|].
  split; [repeat constructor; cbn; try lia; discriminate|].
  split; [vm_compute; discriminate|]. split; [vm_compute; discriminate|].
  split; [vm_compute; reflexivity|]. split; vm_compute; reflexivity.
Qed.

(* the hypothesis on the outer header of c14_recv4_reports_encoded holds for that header, whatever follows it *)
Example c14_recv4_example_source : forall x,
  ipv4_get_source ([69;0;0;0; 0;0;0;0; 64;1;0;0; 10;0;0;9; 10;0;0;1] ++ x) = Ok [10;0;0;9].
Proof.
  intro x. unfold ipv4_get_source. cbn [app]. rewrite zslice_ok; [reflexivity|lia|].
  rewrite !zlen_cons. pose proof (zlen_nonneg x). lia.
Qed.

(* ---- two statements one might expect of the property that are FALSE of the code (witnesses; see DELIVERY.md) ---- *)

(* "A bad checksum gives no extensions" is false: the checksum is never verified.  Witness: a structure whose
   checksum field is transmitted (non-zero) and wrong - the RFC 1071 receiver test fails - is decoded and its object
   reported.  (RFC 4884 s.5.5 makes a valid checksum the condition for accepting a legacy extension at octet 128.) *)
Theorem c14_bad_checksum_rejected_refuted :
  exists buf, bytes buf /\ (nth 2 buf 0 <> 0 \/ nth 3 buf 0 <> 0) /\ oc_norm (zsum (words buf)) <> 65535 /\
              exists es, es <> [] /\ IcmpExt.extensions_try_from buf = Ok es.
Proof.
  exists [32; 0; 0; 1;  0; 8; 2; 1; 9; 9; 9; 9].
  split; [unfold bytes; repeat constructor; lia|]. split; [right; vm_compute; discriminate|].
  split; [vm_compute; discriminate|]. exists [ExtUnknown 2 1 [9; 9; 9; 9]]. split; [discriminate|vm_compute; reflexivity].
Qed.

(* "The quoted datagram is returned unchanged whenever the message carries no extension" is false for a plain message
   of a non-compliant sender (length attribute 0) that quotes more than 131 octets: the quotation is cut to 128
   octets and its own octets from 128 on are taken for an extension structure - whatever their version nibble (the
   splitter does not look; here it is 0, so the tracer reports an empty extension list). *)
Theorem c14_plain_long_quotation_trimmed_refuted :
  exists fam fixed orig kind, length fixed = 7%nat /\
    nested_and_extensions ExtEnabled kind fam (icmp_head fam fixed 0 ++ orig) = Ok (firstn 128 orig, Some []) /\
    firstn 128 orig <> orig.
Proof.
  exists FamV4, [11; 0; 0; 0; 0; 0; 0], (repeat 7 200), KTimeExceeded.
  split; [reflexivity|]. split; [vm_compute; reflexivity|]. vm_compute. discriminate.
Qed.
