(* C14 - ICMP multi-part extensions are parsed faithfully and always terminate.
   Model: TV.Packet.IcmpExt (transcription of trippy-packet icmp_extension.rs, the RFC 4884 split of
   icmpv4.rs / icmpv6.rs TimeExceededPacket / DestinationUnreachablePacket AFTER docs/integration/C14_fix_1.patch and
   C04_fix_2.patch, trippy-core net/extension.rs Extensions::try_from, and the way the caller applies
   IcmpExtensionParseMode).  Spec: TV.Packet.Rfc4884 (a message BUILDER written from RFC 4884 / 4950 / 3032). *)
From TV Require Import Base.Result Packet.ByteOps Packet.IcmpExt Packet.Rfc4884 Proofs.IcmpExtProofs.

(* Round trip.  For every original datagram, every list of objects (any class, any payload, MPLS stacks of any depth
   >= 1 with any label / EXP / S / TTL), both families, both sender conventions, Time Exceeded and Destination
   Unreachable, every value of the seven other ICMP header octets:
   - payload() is the original datagram exactly as far as the message carries it (padded to the word for a compliant
     sender, the 128 octets for a legacy sender), extension() is exactly the extension structure;
   - Extensions::try_from reports exactly the encoded objects, in order (an MPLS stack up to and including its
     bottom-of-stack entry - see c14_roundtrip_labels for the usual case);
   - with parse mode Enabled the tracer gets (datagram, those extensions); with parse mode Disabled it gets no
     extensions, and the datagram (Destination Unreachable) resp. the raw ICMP payload, of which the datagram is a
     prefix (Time Exceeded). *)
Theorem c14_roundtrip : forall fam fixed orig objs mode kind,
  length fixed = 7%nat -> build_wf fam mode orig -> Forall obj_wf objs ->
  let msg := build_message fam fixed orig objs mode in
  split_payload_extension fam msg = Ok (expected_datagram fam mode orig, Some (ext_structure objs)) /\
  extensions_try_from (ext_structure objs) = Ok (map expected_extension objs) /\
  nested_and_extensions ExtEnabled kind fam msg
    = Ok (expected_datagram fam mode orig, Some (map expected_extension objs)) /\
  nested_and_extensions ExtDisabled kind fam msg
    = Ok (match kind with
          | KTimeExceeded => quoted fam mode orig ++ ext_structure objs
          | KDestinationUnreachable => expected_datagram fam mode orig
          end, None) /\
  firstn (length (expected_datagram fam mode orig)) (quoted fam mode orig) = expected_datagram fam mode orig.
Proof.
  intros fam fixed orig objs mode kind Hf Hwf Ho msg. subst msg. repeat split.
  - apply split_payload_extension_built; assumption.
  - apply extensions_try_from_built; assumption.
  - apply roundtrip_enabled; assumption.
  - apply roundtrip_disabled; assumption.
  - apply expected_prefix_of_quoted.
Qed.

(* When every label stack is a proper RFC 3032 stack (S = 1 at most on its last entry - this includes stacks cut
   short by the sender) the report is every label / EXP / S / TTL that was encoded, verbatim and in order. *)
Theorem c14_roundtrip_labels : forall objs,
  Forall stacks_bottom_only_last objs -> map expected_extension objs = map verbatim_extension objs.
Proof. exact expected_is_verbatim. Qed.

(* Within.  For EVERY message of at least the 8-octet ICMP header - hence every value of the length octet, every
   truncation, every garbage - and both families: payload() is the sub-range [8, 8+n) of the message, extension()
   (when present) is the sub-range [8+c, end) with n <= c and at least the 4-octet extension header inside:
   disjoint, in order, inside the message. *)
Theorem c14_within : forall fam buf, (8 <= length buf)%nat ->
  exists n e,
    split_payload_extension fam buf = Ok (firstn n (skipn 8 buf), e) /\ (8 + n <= length buf)%nat /\
    match e with
    | None => True
    | Some x => exists c, (n <= c)%nat /\ (8 + c + 4 <= length buf)%nat /\ x = skipn (8 + c) buf
    end.
Proof. exact split_payload_extension_within. Qed.

(* Termination.  For EVERY buffer: the object iterator and the label-stack iterator return (no fault, no read outside:
   every item is a suffix of the buffer that starts inside it) after at most length/4 items, i.e. within
   length/4 + 1 calls of next(); more fuel changes nothing. *)
Theorem c14_terminates : forall buf,
  (exists items, extensions_objects buf = Ok items /\ (length items <= length buf / 4)%nat /\
                 Forall (suffix_inside buf 4) items) /\
  (exists items, mpls_label_stack_members buf = Ok items /\ (length items <= length buf / 4)%nat /\
                 Forall (suffix_inside buf 0) items) /\
  (forall fuel, (length buf / 4 + 1 <= fuel)%nat ->
     extension_object_iter_collect fuel buf 4 = extensions_objects buf /\
     mpls_label_stack_iter_collect fuel buf 0 0 = mpls_label_stack_members buf).
Proof.
  intro buf. split; [apply objects_total|]. split; [apply members_total|]. apply iter_fuel_enough.
Qed.

(* No fault (no panic, no overflow, no out-of-bounds, fuel never exhausted) anywhere in the decoding, for EVERY byte
   string, both families, both message types, both parse modes. *)
Theorem c14_no_fault : forall pm kind fam buf,
  is_fault (nested_and_extensions pm kind fam buf) = false /\ is_fault (extensions_try_from buf) = false.
Proof. intros. split; [apply nested_and_extensions_nofault|apply extensions_try_from_nofault]. Qed.

(* ---- non-vacuity: a compliant ICMPv6 Time Exceeded quoting 320 octets (length attribute 40), one MPLS object with a
        two-entry stack and one object of class 2 ---- *)
Example c14_example :
  let orig := repeat 7 (Z.to_nat 320) in
  let objs := [ObjMpls 1 [{| lse_label := 27121; lse_exp := 4; lse_s := 0; lse_ttl := 1 |};
                          {| lse_label := 2; lse_exp := 4; lse_s := 1; lse_ttl := 255 |}];
               ObjOther 2 3 [1; 2; 3]] in
  let msg := build_message FamV6 [3; 0; 0; 0; 0; 0; 0] orig objs BmCompliant in
  nth 4 msg 0 = 40 /\
  nested_and_extensions ExtEnabled KTimeExceeded FamV6 msg
  = Ok (orig, Some [ExtMpls [{| mpls_label := 27121; mpls_exp := 4; mpls_bos := 0; mpls_ttl := 1 |};
                             {| mpls_label := 2; mpls_exp := 4; mpls_bos := 1; mpls_ttl := 255 |}];
                    ExtUnknown 2 3 [1; 2; 3]]).
Proof. vm_compute. split; reflexivity. Qed.

Example c14_example_side_conditions :
  build_wf FamV6 BmCompliant (repeat 7 (Z.to_nat 320)) /\
  obj_wf (ObjMpls 1 [{| lse_label := 27121; lse_exp := 4; lse_s := 0; lse_ttl := 1 |}]) /\
  obj_wf (ObjOther 2 3 [1; 2; 3]).
Proof.
  split; [split; [discriminate|vm_compute; discriminate]|].
  split; cbn; repeat split; try lia; try discriminate; repeat constructor; cbn; lia.
Qed.

(* ---- the pinned code (before C14_fix_1 / C04_fix_2), for the record: the same message faults, because the length
        attribute 40 is multiplied by 8 in u8; and an object length field of 3 faults payload() ---- *)
Example c14_pinned_u8_overflow :
  pinned_split_payload_extension FamV6
    (build_message FamV6 [3; 0; 0; 0; 0; 0; 0] (repeat 7 (Z.to_nat 320)) [] BmCompliant) = Fault Overflow.
Proof. vm_compute. reflexivity. Qed.

Example c14_pinned_object_payload_fault :
  pinned_extension_object_payload [0; 3; 1; 1] = Fault OutOfBounds /\
  pinned_extension_object_payload [255; 255; 1; 1; 0; 0; 0; 0] = Fault OutOfBounds /\
  extension_object_payload [0; 3; 1; 1] = Ok [] /\
  extension_object_payload [255; 255; 1; 1; 9; 8; 7; 6] = Ok [9; 8; 7; 6].
Proof. vm_compute. repeat split; reflexivity. Qed.
