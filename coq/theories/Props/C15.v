(* C15 - Flow identifiers are stable, consistent and bounded.
   Model: TV.Core.Flows (flows.rs) and Core.State.update_from_round (state.rs, with the repaired saturation
   behaviour).  "Position" is the position defined by Flow::from_hops: the index of the probe among the
   Awaited/Complete probes of the round (with first_ttl > 1 or failed probes that is not ttl - 1). *)
From TV Require Import Base.Result Core.Types Core.Flows Core.State Proofs.FlowsProofs Proofs.StateProofs Proofs.FlowAttr.

(* covers e f: e is at least as long as f and agrees with f at every position where f is known;
   extends e e' := covers e' e *)
Theorem c15_check_sound : forall e f,
  match check e f with
  | Match => covers e f
  | MatchMerge => covers (merge e f) f /\ extends e (merge e f)
  | NoMatch => True
  end.
Proof. exact check_covers. Qed.

(* registration: ids dense from 1 in order, the returned entry covers the flow, at most one entry is added,
   every existing entry keeps its id and is only ever extended *)
Theorem c15_register : forall r f r' id, dense r -> register r f = (r', id) ->
  dense r' /\
  (exists e', In (e', id) (reg_flows r') /\ covers e' f) /\
  (length (reg_flows r) <= length (reg_flows r') <= S (length (reg_flows r)))%nat /\
  Forall2 (fun old new => snd old = snd new /\ extends (fst old) (fst new))
          (reg_flows r) (firstn (length (reg_flows r)) (reg_flows r')).
Proof. exact register_spec. Qed.

(* every round: ids stay dense, the number of flows never exceeds max_flows, identifiers keep denoting
   extensions of what they denoted, and the round is attributed to a flow covering it - including when the
   registry is saturated; it is left unattributed only when saturated and no existing flow matches *)
Theorem c15_update_from_round : forall s r s', dense (st_registry s) ->
  Z.of_nat (length (reg_flows (st_registry s))) <= Z.max 0 (st_max_flows s) ->
  update_from_round s r = Ok s' ->
  dense (st_registry s') /\ st_max_flows s' = st_max_flows s /\
  Z.of_nat (length (reg_flows (st_registry s'))) <= Z.max 0 (st_max_flows s') /\
  Forall2 (fun old new => snd old = snd new /\ extends (fst old) (fst new))
          (reg_flows (st_registry s)) (firstn (length (reg_flows (st_registry s))) (reg_flows (st_registry s'))) /\
  ((exists e', In (e', st_round_flow_id s') (reg_flows (st_registry s')) /\ covers e' (round_flow r))
   \/ (st_round_flow_id s' = st_round_flow_id s /\ st_registry s' = st_registry s /\
       st_max_flows s <= Z.of_nat (length (reg_flows (st_registry s))) /\
       find_merge (reg_flows (st_registry s)) (round_flow r) = None)).
Proof. exact update_from_round_flows. Qed.

(* the initial state satisfies the hypotheses *)
Theorem c15_initial : forall ms mf, dense (st_registry (state_new ms mf)) /\
  Z.of_nat (length (reg_flows (st_registry (state_new ms mf)))) <= Z.max 0 (st_max_flows (state_new ms mf)).
Proof. intros. split; [apply dense_new|cbn; lia]. Qed.

(* unmatched = every entry conflicts *)
Theorem c15_unattributed_means_conflict : forall fl f, find_merge fl f = None ->
  Forall (fun e => check (fst e) f = NoMatch) fl.
Proof. exact find_merge_none. Qed.

(* the last clause: for ANY history of rounds applied to a fresh State, the default flow (id 0) has received every
   round, and the state recorded under every other identifier is exactly the result of applying, in order, the
   rounds attributed to that identifier ([attributed]: the id the registry returns for the round's flow) to a fresh
   flow state - so its round count and hop statistics are those of exactly these rounds (C05 / C10 apply per flow) *)
Theorem c15_flows_are_their_rounds : forall rs ms mf s' id, st_run (state_new ms mf) rs = Ok s' ->
  fs_run (flow_state_new ms) (flow_rounds id (state_new ms mf) rs) = Ok (flow_or_new s' id) /\
  flow_rounds 0 (state_new ms mf) rs = rs.
Proof.
  intros rs ms mf s' id H. split; [|exact (flow_rounds_default rs _ _ H)].
  pose proof (flows_are_their_rounds rs (state_new ms mf) s' id dense_new ltac:(cbn; lia) H) as F.
  assert (E : flow_or_new (state_new ms mf) id = flow_state_new ms).
  { unfold flow_or_new, state_new. cbn [st_flows st_max_samples flows_get]. destruct (0 =? id); reflexivity. }
  rewrite E in F. exact F.
Qed.

(* one round: flow 0 and the attributed flow receive it, every other flow is untouched *)
Theorem c15_round_goes_to_default_and_attributed_flow : forall s r s' id, dense (st_registry s) ->
  update_from_round s r = Ok s' ->
  if selects id s r then fs_apply (flow_or_new s id) r = Ok (flow_or_new s' id)
  else flow_or_new s' id = flow_or_new s id.
Proof. intros s r s' id Hd H. exact (proj2 (update_from_round_per_flow s r s' id Hd H)). Qed.

Example c15_example :
  let a := [1;1;1;1] in let b := [2;2;2;2] in
  check [FKnown a; FUnknown] [FKnown a; FKnown b; FUnknown] = MatchMerge /\
  merge [FKnown a; FUnknown] [FKnown a; FKnown b; FUnknown] = [FKnown a; FKnown b; FUnknown].
Proof. split; reflexivity. Qed.

(* ====================================================================================================================
   Extension: STABLE / CONSISTENT / BOUNDED over ALL histories of rounds (Proofs/FlowHistory.v).
     known_at e i a     position i of flow e is the known address a
     conflict e f       some position is known in both flows with different addresses
     regl s             the registry entries (flow, identifier) of the State, in registration order
     cap s              the registry holds at most max(0, max_flows) entries
     first_fit fl f     the identifier of the first entry of fl that does not conflict with f
     owns fl k f        entry k of fl covers f, and every entry registered before k conflicts with f
     attr_trace s rs    the identifier given to each round of the history rs (None: left unattributed), in order *)
From TV Require Import Proofs.FlowHistory.

(* the extension order in plain terms: e' extends e iff e' is at least as long and has, at every position where e is
   known, the same address - so an entry can only grow by filling unknown positions or getting longer *)
Theorem c15_extends_pointwise : forall e e',
  extends e e' <-> (length e <= length e')%nat /\ forall i a, known_at e i a -> known_at e' i a.
Proof. exact extends_pointwise. Qed.

(* Flow::check answers NoMatch exactly for conflicting flows, and Match exactly when the entry already covers the flow *)
Theorem c15_check_decides : forall e f, (check e f = NoMatch <-> conflict e f) /\ (check e f = Match <-> covers e f).
Proof. intros e f. split; [apply check_nomatch_iff|apply check_match_iff]. Qed.

(* Flow::merge position by position: a known address is kept, an unknown position takes the round's address if it has
   one, positions beyond the end of the entry are appended *)
Theorem c15_merge_pointwise : forall e f i,
  nth_error (merge e f) i =
  match nth_error e i with
  | Some (FKnown a) => Some (FKnown a)
  | Some FUnknown => match nth_error f i with Some (FKnown b) => Some (FKnown b) | _ => Some FUnknown end
  | None => nth_error f i
  end.
Proof. exact merge_pointwise. Qed.

(* which identifier a round gets, as a short rule: the first registered flow it does not conflict with; otherwise the
   next new identifier if the registry has room; otherwise none *)
Theorem c15_attribution_rule : forall s r, dense (st_registry s) ->
  attributed s r =
  match first_fit (regl s) (round_flow r) with
  | Some k => Some k
  | None => if Z.of_nat (length (regl s)) <? st_max_flows s then Some (Z.of_nat (length (regl s)) + 1) else None
  end.
Proof. exact attributed_spec. Qed.

Theorem c15_first_fit_meaning : forall fl f,
  match first_fit fl f with
  | Some k => exists n e, nth_error fl n = Some (e, k) /\ ~ conflict e f /\
                forall i x, (i < n)%nat -> nth_error fl i = Some x -> conflict (fst x) f
  | None => Forall (fun x => conflict (fst x) f) fl
  end.
Proof. exact first_fit_spec. Qed.

(* for every history: identifiers stay dense, the bound holds, max_flows is never touched, and every entry keeps its
   position and identifier while what it records is only ever extended *)
Theorem c15_history_registry : forall rs s s', dense (st_registry s) -> cap s -> st_run s rs = Ok s' ->
  dense (st_registry s') /\ cap s' /\ st_max_flows s' = st_max_flows s /\ reg_le (regl s) (regl s').
Proof. exact st_run_registry. Qed.

(* identifiers are never reassigned, renumbered or removed *)
Theorem c15_ids_never_change : forall rs s s' e id, dense (st_registry s) -> cap s -> st_run s rs = Ok s' ->
  In (e, id) (regl s) ->
  exists e', In (e', id) (regl s') /\ extends e e' /\
    firstn (length (regl s)) (map snd (regl s')) = map snd (regl s).
Proof. exact ids_never_change. Qed.

(* STABLE: once a round's flow has been given identifier k, every later round with the same flow is given k, whatever
   happened in between (new flows, merges, saturation) - and such a round changes nothing in the registry *)
Theorem c15_flow_id_stable : forall s r s1 k rs s2 r', dense (st_registry s) -> cap s ->
  update_from_round s r = Ok s1 -> attributed s r = Some k -> st_run s1 rs = Ok s2 ->
  round_flow r' = round_flow r ->
  attributed s2 r' = Some k /\
  forall s3, update_from_round s2 r' = Ok s3 -> regl s3 = regl s2 /\ st_round_flow_id s3 = k.
Proof. exact flow_id_stable. Qed.

(* a later round whose flow EXTENDS the flow that was given k is never given an earlier identifier: it is given k
   exactly when it does not conflict with what entry k records by then, otherwise an identifier issued after k or none *)
Theorem c15_extended_flow_attribution : forall s r s1 k rs s2 r', dense (st_registry s) -> cap s ->
  update_from_round s r = Ok s1 -> attributed s r = Some k -> st_run s1 rs = Ok s2 ->
  extends (round_flow r) (round_flow r') ->
  exists e, In (e, k) (regl s2) /\ covers e (round_flow r) /\
    match attributed s2 r' with
    | Some j => (j = k /\ ~ conflict e (round_flow r')) \/ (k < j /\ conflict e (round_flow r'))
    | None => conflict e (round_flow r')
    end.
Proof. exact extended_flow_attribution. Qed.

(* ... and the stronger reading "an extended flow always keeps the identifier" is false: [a,?] -> id 1; [a,b] merges into
   id 1; [a,c] extends [a,?] but conflicts with what id 1 has become and is given id 2 *)
Theorem c15_extension_stability_refuted :
  exists s r s1 k rs s2 r', dense (st_registry s) /\ cap s /\
    update_from_round s r = Ok s1 /\ attributed s r = Some k /\ st_run s1 rs = Ok s2 /\
    extends (round_flow r) (round_flow r') /\ attributed s2 r' = Some (k + 1).
Proof. exact extension_stability_refuted. Qed.

(* the entry of identifier id stays consistent with EVERY round that was attributed to id during the history *)
Theorem c15_entry_covers_attributed_rounds : forall rs s s' id, dense (st_registry s) -> cap s ->
  st_run s rs = Ok s' -> id <> 0 ->
  forall r, In r (flow_rounds id s rs) -> exists e, In (e, id) (regl s') /\ covers e (round_flow r).
Proof. exact entry_covers_attributed_rounds. Qed.

(* CONSISTENT, after every history from a fresh State: two different identifiers never hold compatible entries *)
Theorem c15_distinct_ids_conflict : forall rs ms mf s' e1 id1 e2 id2, st_run (state_new ms mf) rs = Ok s' ->
  In (e1, id1) (regl s') -> In (e2, id2) (regl s') -> id1 <> id2 -> conflict e1 e2.
Proof. exact distinct_ids_conflict. Qed.

(* the moment an identifier is created: the round's flow conflicts with every existing entry, the new entry is that
   flow, appended, under the next identifier, and it is the round's flow id *)
Theorem c15_new_id_conflicts_with_all : forall s r s', dense (st_registry s) -> update_from_round s r = Ok s' ->
  (length (regl s) < length (regl s'))%nat ->
  Forall (fun x => conflict (fst x) (round_flow r)) (regl s) /\
  regl s' = regl s ++ [(round_flow r, Z.of_nat (length (regl s)) + 1)] /\
  st_round_flow_id s' = Z.of_nat (length (regl s)) + 1.
Proof. exact new_id_conflicts_with_all. Qed.

(* BOUNDED, for every history: at most max(0, max_flows) entries, identifiers exactly 1..n in order *)
Theorem c15_history_bounded : forall rs ms mf s', st_run (state_new ms mf) rs = Ok s' ->
  Z.of_nat (length (regl s')) <= Z.max 0 mf /\ dense (st_registry s') /\
  map snd (regl s') = zseq 1 (length (regl s')).
Proof. exact history_bounded. Qed.

(* a round that arrives when the registry is full, exactly: no identifier is created; if some registered flow does not
   conflict with it the FIRST such flow gets it (and is extended by it); otherwise it is attributed to no flow - registry,
   current-round flow id and every flow state except the default flow 0 are untouched *)
Theorem c15_saturated_round : forall s r s', dense (st_registry s) -> cap s ->
  st_max_flows s <= Z.of_nat (length (regl s)) -> update_from_round s r = Ok s' ->
  length (regl s') = length (regl s) /\ map snd (regl s') = map snd (regl s) /\
  match first_fit (regl s) (round_flow r) with
  | Some k => attributed s r = Some k /\ st_round_flow_id s' = k /\ owns (regl s') k (round_flow r)
  | None => attributed s r = None /\ st_registry s' = st_registry s /\ st_round_flow_id s' = st_round_flow_id s /\
            forall id, id <> 0 -> flow_or_new s' id = flow_or_new s id
  end.
Proof. exact saturated_round. Qed.

(* once full, the registry keeps its length and identifiers for ever *)
Theorem c15_saturated_forever : forall rs s s', dense (st_registry s) -> cap s ->
  st_max_flows s <= Z.of_nat (length (regl s)) -> st_run s rs = Ok s' ->
  length (regl s') = length (regl s) /\ map snd (regl s') = map snd (regl s).
Proof. exact saturated_forever. Qed.

(* the last clause of the property in one piece: the state recorded under a non-default identifier is the fold, over a
   fresh flow state, of exactly the rounds whose attribution is that identifier, in order; flow 0 is the fold of all
   rounds - so the round count and every hop statistic of a flow are those of exactly these rounds *)
Theorem c15_per_flow_statistics : forall rs ms mf s' id, st_run (state_new ms mf) rs = Ok s' -> id <> 0 ->
  fs_run (flow_state_new ms)
         (map fst (filter (picked id) (combine rs (attr_trace (state_new ms mf) rs)))) = Ok (flow_or_new s' id) /\
  fs_run (flow_state_new ms) rs = Ok (flow_or_new s' 0).
Proof. exact per_flow_statistics. Qed.

(* round counts: a flow's count is the number of rounds attributed to it, flow 0 counts every round *)
Theorem c15_flow_round_counts : forall rs ms mf s' id, st_run (state_new ms mf) rs = Ok s' ->
  fs_round_count (flow_or_new s' id) = Z.of_nat (length (flow_rounds id (state_new ms mf) rs)) /\
  fs_round_count (flow_or_new s' 0) = Z.of_nat (length rs) /\
  (id <> 0 -> length (flow_rounds id (state_new ms mf) rs) =
              length (filter (fun o => match o with Some j => j =? id | None => false end) (attr_trace (state_new ms mf) rs))).
Proof. exact flow_round_counts. Qed.

(* State::round_flow_id() is the identifier of the LAST round that was attributed (stale while rounds go unattributed) *)
Theorem c15_round_flow_id_is_last_attributed : forall rs s s', st_run s rs = Ok s' ->
  st_round_flow_id s' = last_some (attr_trace s rs) (st_round_flow_id s).
Proof. exact round_flow_id_is_last_attributed. Qed.

(* per-flow states are never removed; they exist exactly for flow 0 and for the identifiers that received a round *)
Theorem c15_flow_keys : forall rs s s' id, st_run s rs = Ok s' ->
  (flows_get (st_flows s') id <> None <->
   flows_get (st_flows s) id <> None \/ (id = 0 /\ rs <> []) \/ In (Some id) (attr_trace s rs)).
Proof. exact flow_keys. Qed.

(* REFINEMENT to a specification that never looks at the State: the abstract registry is a plain list of flows (the
   identifier of an entry is its position + 1); a flow goes to the first entry it does not clash with (which absorbs
   it), else is appended if fewer than max_flows entries exist, else is dropped.  The identifiers given to the rounds
   of ANY history and the flows the real registry ends up holding are those of this first-fit run *)
Theorem c15_attribution_refines_spec : forall rs ms mf s', st_run (state_new ms mf) rs = Ok s' ->
  spec_trace mf [] (map round_flow rs) = (attr_trace (state_new ms mf) rs, map fst (regl s')).
Proof. exact attribution_refines_spec_fresh. Qed.

(* the first clause of the property.  sent_hosts r: the hosts of the probes of the round that were put on the wire, in
   order (None: unanswered).  The flow a round is attributed to is the current-round flow id, is at least as long as the
   round's flow and records, at every position below the round's path length, the address that answered there *)
Theorem c15_round_agrees_pointwise : forall s r s' k, dense (st_registry s) -> cap s -> update_from_round s r = Ok s' ->
  attributed s r = Some k ->
  exists e, In (e, k) (regl s') /\ st_round_flow_id s' = k /\ (length (round_flow r) <= length e)%nat /\
    forall i a, (i < Z.to_nat (rr_largest_ttl r))%nat -> nth_error (sent_hosts r) i = Some (Some a) -> known_at e i a.
Proof. exact round_agrees_pointwise. Qed.

(* "position" is the index among the probes of the round that stand for a hop: answered probes, awaited probes and - since
   the repair F20 - probes whose send failed (abandoned TCP slots, whose ttl is probed again, have none).  For the rounds the
   strategy publishes (consecutive ttls from the first ttl of the round, C06) that index is ttl - first ttl.  Witness of the
   repaired behaviour: over the path [a, b], the round [send of ttl 1 failed, b at ttl 2] has the flow [unknown, b] and
   keeps identifier 1 (before the repair its flow was [b], which conflicts with [a, b] at position 0: a new identifier) *)
Theorem c15_failed_probe_keeps_position :
  exists r1 r2, (forall t a, host_at r2 t = Some a -> host_at r1 t = Some a) /\
    attr_trace (state_new 10 4) [r1; r2] = [Some 1; Some 1] /\
    round_flow r1 = [FKnown fh_a; FKnown fh_b] /\ round_flow r2 = [FUnknown; FKnown fh_b].
Proof. exact failed_probe_keeps_position. Qed.

(* non-vacuity: max_flows = 2 and five rounds over three paths - ids 1 and 2 are created, the third path is left
   unattributed, a later round of the first path is still attributed to id 1; counts 3 of 5 for flow 1 *)
Example c15_history_example :
  let s0 := state_new 10 2 in
  attr_trace s0 [fh_r1; fh_r4; fh_r3; fh_r2; fh_r1] = [Some 1; Some 2; Some 1; None; Some 1] /\
  map snd (regl (fh_get (st_run s0 [fh_r1; fh_r4; fh_r3; fh_r2; fh_r1]))) = [1; 2] /\
  st_round_flow_id (fh_get (st_run s0 [fh_r1; fh_r4; fh_r3; fh_r2; fh_r1])) = 1 /\
  fs_round_count (flow_or_new (fh_get (st_run s0 [fh_r1; fh_r4; fh_r3; fh_r2; fh_r1])) 1) = 3 /\
  fs_round_count (flow_or_new (fh_get (st_run s0 [fh_r1; fh_r4; fh_r3; fh_r2; fh_r1])) 0) = 5.
Proof. exact fh_history_example. Qed.

Example c15_spec_example :
  fst (spec_trace 2 [] (map round_flow [fh_r1; fh_r4; fh_r3; fh_r2; fh_r1])) = [Some 1; Some 2; Some 1; None; Some 1] /\
  snd (spec_trace 2 [] (map round_flow [fh_r1; fh_r4; fh_r3; fh_r2; fh_r1])) =
    [[FKnown fh_a; FKnown fh_c]; [FKnown fh_d; FKnown fh_b]].
Proof. exact fh_spec_example. Qed.
