(* C15 - Flow identifiers are stable, consistent and bounded.
   Model: TV.Core.Flows (flows.rs) and Core.State.update_from_round (state.rs, with the repaired saturation
   behaviour).  "Position" is the position defined by Flow::from_hops: the index of the probe among the
   Awaited/Complete probes of the round (with first_ttl > 1 or failed probes that is not ttl - 1). *)
From TV Require Import Base.Result Core.Types Core.Flows Core.State Proofs.FlowsProofs Proofs.StateProofs Proofs.FlowAttr.

(* covers e f: e is at least as long as f and agrees with f at every position where f is known;
   extends e e' := covers e' e *)
Theorem c15_check_sound : forall e f,
  match check e f with
  | Match => covers e f
  | MatchMerge => covers (merge e f) f /\ extends e (merge e f)
  | NoMatch => True
  end.
Proof. exact check_covers. Qed.

(* registration: ids dense from 1 in order, the returned entry covers the flow, at most one entry is added,
   every existing entry keeps its id and is only ever extended *)
Theorem c15_register : forall r f r' id, dense r -> register r f = (r', id) ->
  dense r' /\
  (exists e', In (e', id) (reg_flows r') /\ covers e' f) /\
  (length (reg_flows r) <= length (reg_flows r') <= S (length (reg_flows r)))%nat /\
  Forall2 (fun old new => snd old = snd new /\ extends (fst old) (fst new))
          (reg_flows r) (firstn (length (reg_flows r)) (reg_flows r')).
Proof. exact register_spec. Qed.

(* every round: ids stay dense, the number of flows never exceeds max_flows, identifiers keep denoting
   extensions of what they denoted, and the round is attributed to a flow covering it - including when the
   registry is saturated; it is left unattributed only when saturated and no existing flow matches *)
Theorem c15_update_from_round : forall s r s', dense (st_registry s) ->
  Z.of_nat (length (reg_flows (st_registry s))) <= Z.max 0 (st_max_flows s) ->
  update_from_round s r = Ok s' ->
  dense (st_registry s') /\ st_max_flows s' = st_max_flows s /\
  Z.of_nat (length (reg_flows (st_registry s'))) <= Z.max 0 (st_max_flows s') /\
  Forall2 (fun old new => snd old = snd new /\ extends (fst old) (fst new))
          (reg_flows (st_registry s)) (firstn (length (reg_flows (st_registry s))) (reg_flows (st_registry s'))) /\
  ((exists e', In (e', st_round_flow_id s') (reg_flows (st_registry s')) /\ covers e' (round_flow r))
   \/ (st_round_flow_id s' = st_round_flow_id s /\ st_registry s' = st_registry s /\
       st_max_flows s <= Z.of_nat (length (reg_flows (st_registry s))) /\
       find_merge (reg_flows (st_registry s)) (round_flow r) = None)).
Proof. exact update_from_round_flows. Qed.

(* the initial state satisfies the hypotheses *)
Theorem c15_initial : forall ms mf, dense (st_registry (state_new ms mf)) /\
  Z.of_nat (length (reg_flows (st_registry (state_new ms mf)))) <= Z.max 0 (st_max_flows (state_new ms mf)).
Proof. intros. split; [apply dense_new|cbn; lia]. Qed.

(* unmatched = every entry conflicts *)
Theorem c15_unattributed_means_conflict : forall fl f, find_merge fl f = None ->
  Forall (fun e => check (fst e) f = NoMatch) fl.
Proof. exact find_merge_none. Qed.

(* the last clause: for ANY history of rounds applied to a fresh State, the default flow (id 0) has received every
   round, and the state recorded under every other identifier is exactly the result of applying, in order, the
   rounds attributed to that identifier ([attributed]: the id the registry returns for the round's flow) to a fresh
   flow state - so its round count and hop statistics are those of exactly these rounds (C05 / C10 apply per flow) *)
Theorem c15_flows_are_their_rounds : forall rs ms mf s' id, st_run (state_new ms mf) rs = Ok s' ->
  fs_run (flow_state_new ms) (flow_rounds id (state_new ms mf) rs) = Ok (flow_or_new s' id) /\
  flow_rounds 0 (state_new ms mf) rs = rs.
Proof.
  intros rs ms mf s' id H. split; [|exact (flow_rounds_default rs _ _ H)].
  pose proof (flows_are_their_rounds rs (state_new ms mf) s' id dense_new ltac:(cbn; lia) H) as F.
  assert (E : flow_or_new (state_new ms mf) id = flow_state_new ms).
  { unfold flow_or_new, state_new. cbn [st_flows st_max_samples flows_get]. destruct (0 =? id); reflexivity. }
  rewrite E in F. exact F.
Qed.

(* one round: flow 0 and the attributed flow receive it, every other flow is untouched *)
Theorem c15_round_goes_to_default_and_attributed_flow : forall s r s' id, dense (st_registry s) ->
  update_from_round s r = Ok s' ->
  if selects id s r then fs_apply (flow_or_new s id) r = Ok (flow_or_new s' id)
  else flow_or_new s' id = flow_or_new s id.
Proof. intros s r s' id Hd H. exact (proj2 (update_from_round_per_flow s r s' id Hd H)). Qed.

Example c15_example :
  let a := [1;1;1;1] in let b := [2;2;2;2] in
  check [FKnown a; FUnknown] [FKnown a; FKnown b; FUnknown] = MatchMerge /\
  merge [FKnown a; FUnknown] [FKnown a; FKnown b; FUnknown] = [FKnown a; FKnown b; FUnknown].
Proof. split; reflexivity. Qed.
