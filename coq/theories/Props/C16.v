(* C16 - Option precedence is CLI over file over default; accepted configurations can run.
   Model: TV.Tui.Layer.{cfg_layer, cfg_layer_opt, cfg_layer_bool_flag, layer, build_config, TuiTheme_from,
   TuiBindings_from, start_tracer_cfg}, TV.Tui.Validate.validate_*, TV.Core.Builder.builder_accepts (repaired
   Builder::build, docs/integration/C16_fix_1.patch) and the strategy model of C03..C09.
   Specification vocabulary (option inventory, option maps, documented defaults): TV.Tui.LayerSpec. *)
From TV Require Import Base.Result Core.Types Core.TracerState Core.Strategy Core.Builder
  Tui.ConfigTypes Tui.Validate Tui.Layer Tui.LayerSpec Proofs.StrategyInv Proofs.LayerProofs.

(* ------------------------------------------------------------------ precedence *)
(* For every one of the 44 options: the value build_config works with is the command-line entry if there is
   one, else the file entry if there is one (an absent section counts as no entry - the sections' own Default
   tables agree with the documented defaults), else the documented default.  `norm` only identifies
   tui-max-addrs = 0 with "auto". *)
Theorem c16_precedence : forall o a f,
  norm o (lget o (layer_cfg a f)) = norm o (first_of (cli_get o a) (file_get o f) (doc_default o)).
Proof. exact layer_precedence. Qed.

(* ... and that value is what the accepted TrippyConfig carries, for every option the record stores by itself *)
Theorem c16_precedence_config : forall o tz a f p pid c v,
  build_config tz a f p pid = COk c -> cfg_get o c = Some v ->
  v = first_of (cli_get o a) (file_get o f) (doc_default o).
Proof. exact config_precedence. Qed.

(* the options cfg_get cannot read back are exactly the five derived ones, treated below *)
Theorem c16_derived_inventory : forall o c, cfg_get o c = None <-> derived o = true.
Proof. exact cfg_get_derived. Qed.

(* the three layering functions are the rule itself *)
Theorem c16_cfg_layer : forall (T : Type) (fst snd : option T) def,
  cfg_layer fst snd def = match fst with Some v => v | None => match snd with Some v => v | None => def end end.
Proof. intros T. exact cfg_layer_spec. Qed.
Theorem c16_cfg_layer_opt : forall (T : Type) (fst snd : option T),
  cfg_layer_opt fst snd = match fst with Some v => Some v | None => snd end.
Proof. intros T. exact cfg_layer_opt_spec. Qed.
Theorem c16_cfg_layer_bool_flag : forall fst snd def,
  cfg_layer_bool_flag fst snd def = if fst then true else match snd with Some v => v | None => def end.
Proof. exact cfg_layer_bool_flag_spec. Qed.

(* ------------------------------------------------------------------ non-interference *)
(* changing the command-line / file entries of any OTHER options (a' f' arbitrary apart from option o)
   does not change the value of o *)
Theorem c16_independent : forall o a a' f f',
  cli_get o a = cli_get o a' -> file_get o f = file_get o f' ->
  norm o (lget o (layer_cfg a f)) = norm o (lget o (layer_cfg a' f')).
Proof. exact layer_independent. Qed.

Theorem c16_independent_config : forall o tz tz' a a' f f' p p' pid pid' c c',
  build_config tz a f p pid = COk c -> build_config tz' a' f' p' pid' = COk c' ->
  cli_get o a = cli_get o a' -> file_get o f = file_get o f' -> cfg_get o c = cfg_get o c'.
Proof. exact config_independent. Qed.

(* ------------------------------------------------------------------ the derived fields and their exact dependency sets *)
(* protocol: {--udp, --tcp, --icmp, --protocol, file protocol}; the shortcut flags count as "given on the command line" *)
Theorem c16_derived_protocol : forall tz a f p pid c, build_config tz a f p pid = COk c ->
  tc_protocol c = first_of_ (cli_protocol a) (file_protocol f) Icmp.
Proof. exact config_protocol. Qed.

(* address family: {-4, -6, --addr-family, file addr-family} *)
Theorem c16_derived_addr_family : forall tz a f p pid c, build_config tz a f p pid = COk c ->
  tc_addr_family c = first_of_ (cli_family a) (file_family f) Ipv4thenIpv6.
Proof. exact config_addr_family. Qed.

(* port direction: {effective protocol, source_port, target_port, multipath strategy, pid}, by the documented rule *)
Theorem c16_derived_port_direction : forall tz a f p pid c, build_config tz a f p pid = COk c ->
  exists src dst,
    first_of (cli_get OSourcePort a) (file_get OSourcePort f) VNone = ov VInt src /\
    first_of (cli_get OTargetPort a) (file_get OTargetPort f) VNone = ov VInt dst /\
    port_rule pid (tc_protocol c) src dst (tc_multipath_strategy c) (tc_port_direction c).
Proof. exact config_port_direction. Qed.
Theorem c16_port_rule_functional : forall pid pr s d m x y,
  port_rule pid pr s d m x -> port_rule pid pr s d m y -> x = y.
Proof. exact port_rule_functional. Qed.

(* max_rounds: {mode, report_cycles} *)
Theorem c16_derived_max_rounds : forall tz a f p pid c, build_config tz a f p pid = COk c ->
  tc_max_rounds c = match tc_mode c with MTui | MStream => None | _ => Some (tc_report_cycles c) end.
Proof. exact config_max_rounds. Qed.

(* tui_max_addrs: {tui_max_addrs} with 0 => none *)
Theorem c16_derived_tui_max_addrs : forall tz a f p pid c, build_config tz a f p pid = COk c ->
  ov VInt (tc_tui_max_addrs c) =
  norm OTuiMaxAddrs (first_of (cli_get OTuiMaxAddrs a) (file_get OTuiMaxAddrs f) (doc_default OTuiMaxAddrs)).
Proof. exact config_tui_max_addrs. Qed.

(* effective max_flows: {max_flows, multipath strategy} *)
Theorem c16_derived_max_flows : forall c,
  TrippyConfig_max_flows c = match tc_multipath_strategy c with Classic => 1 | _ => tc_max_flows c end.
Proof. reflexivity. Qed.

(* ------------------------------------------------------------------ theme colours and key bindings, item by item *)
Theorem c16_theme_precedence : forall tz a f p pid c i d, build_config tz a f p pid = COk c ->
  nth_error TuiTheme_default i = Some d ->
  nth_error (tc_tui_theme c) i = Some (item_rule (a_tui_theme_colors a) (cf_theme_colors f) d i).
Proof. exact config_theme. Qed.

Theorem c16_bindings_precedence : forall tz a f p pid c i d, build_config tz a f p pid = COk c ->
  nth_error TuiBindings_default i = Some d ->
  nth_error (tc_tui_bindings c) i = Some (item_rule (a_tui_key_bindings a) (option_map cb_items (cf_bindings f)) d i).
Proof. exact config_bindings. Qed.

Theorem c16_bindings_distinct : forall tz a f p pid c, build_config tz a f p pid = COk c -> NoDup (tc_tui_bindings c).
Proof. exact config_bindings_distinct. Qed.

(* ------------------------------------------------------------------ validators against independent statements *)
Theorem c16_validate_ttl : forall f m, validate_ttl f m = true <-> 1 <= f <= m /\ m <= 254.
Proof. exact validate_ttl_spec. Qed.
Theorem c16_validate_bindings : forall b, validate_bindings b = true <-> NoDup b.
Proof. exact validate_bindings_spec. Qed.
Theorem c16_validate_custom_columns : forall cols, validate_tui_custom_columns cols = true <-> cols <> [] /\ NoDup cols.
Proof. exact validate_tui_custom_columns_spec. Qed.
Theorem c16_columns_parse : forall s cols,
  TuiColumns_try_from s = Some cols <-> cols = s /\ Forall (fun c => In c COLUMN_CODES) s.
Proof. exact TuiColumns_try_from_spec. Qed.
Theorem c16_port_direction_rule : forall proto s d m pid pd,
  derive_port_direction proto s d m pid = COk pd <-> port_rule pid proto s d (derive_multipath_strategy m) pd.
Proof. exact derive_port_direction_spec. Qed.

(* ------------------------------------------------------------------ command-line acceptance versus the builder *)
(* A configuration accepted by the command-line layer (values in the ranges of their Rust types) satisfies
   every builder check except possibly the two on the initial sequence (`initial_sequence <= 64511`, and non-zero for
   Paris over IPv6), which the command-line layer does not make: the builder then answers with Error::BadConfig
   before tracing starts. *)
Theorem c16_cli_accepts_implies_builder_accepts : forall tz a f p pid c tgt tid,
  build_config tz a f p pid = COk c -> args_in_range a -> file_in_range f -> u16 pid -> u16 tid ->
  builder_accepts (start_tracer_cfg c tgt tid) =
    (tc_initial_sequence c <=? MAX_INITIAL_SEQUENCE) && negb (paris6_zero (start_tracer_cfg c tgt tid)) /\
  cfg_wf (start_tracer_cfg c tgt tid).
Proof. exact cli_accept_builder. Qed.

(* ------------------------------------------------------------------ accepted configurations run *)
(* library users: whatever the builder accepts runs every loop iteration without a fault, for every history *)
Theorem c16_builder_step : forall c s i, Accept c -> Inv c s ->
  exists s' ev e, step c s i = Ok (s', ev, e) /\ Inv c s'.
Proof. exact step_ok. Qed.

Theorem c16_builder_runs : forall c t0 is, Accept c ->
  let '(ev, o, sf) := run c t0 is in Inv c sf /\ forall f, o <> Faulted f.
Proof. intros c t0 is HA. apply run_from_inv; [assumption|apply inv_new; assumption]. Qed.

(* command line + builder *)
Theorem c16_cli_runs : forall tz a f p pid c tgt tid t0 is,
  build_config tz a f p pid = COk c -> args_in_range a -> file_in_range f -> u16 pid -> u16 tid ->
  tc_initial_sequence c <= MAX_INITIAL_SEQUENCE -> paris6_zero (start_tracer_cfg c tgt tid) = false ->
  let '(ev, o, sf) := run (start_tracer_cfg c tgt tid) t0 is in forall x, o <> Faulted x.
Proof. exact cli_runs. Qed.

(* the three unsupported classes are refused up front by the (repaired) builder *)
Theorem c16_builder_rejects_unsupported : forall c,
  (proto c = Tcp /\ exists s d, port_direction c = FixedBoth s d) \/
  (proto c = Udp /\ multipath c = Classic /\ exists s d, port_direction c = FixedBoth s d) \/
  first_ttl c <= 0 ->
  builder_accepts c = false.
Proof.
  intros c [[Hp (s & d & Hd)]|[[Hp [Hm (s & d & Hd)]]|Ht]]; unfold builder_accepts, portdir_ok.
  - rewrite Hp, Hd. reflexivity.
  - rewrite Hp, Hm, Hd. reflexivity.
  - replace (1 <=? first_ttl c) with false by (symmetry; apply Z.leb_gt; lia).
    rewrite Bool.andb_false_r. reflexivity.
Qed.

(* F9: on the pinned tree Builder::build() accepted configurations whose first probe hits unimplemented!() *)
Definition f9_tcp_both : scfg := {|
  target_addr := [10; 0; 0; 1]; proto := Tcp; trace_identifier := 0; max_rounds := Some 3; first_ttl := 1; max_ttl := 8;
  grace_duration := 1000000; max_inflight := 24; initial_sequence := 33434; multipath := Classic;
  port_direction := FixedBoth 5000 80; min_round_duration := 1000000; max_round_duration := 2000000 |}.
Definition f9_udp_classic_both : scfg := {|
  target_addr := [10; 0; 0; 1]; proto := Udp; trace_identifier := 0; max_rounds := Some 3; first_ttl := 1; max_ttl := 8;
  grace_duration := 1000000; max_inflight := 24; initial_sequence := 33434; multipath := Classic;
  port_direction := FixedBoth 5000 33000; min_round_duration := 1000000; max_round_duration := 2000000 |}.

Theorem c16_pinned_builder_refuted :
  (builder_accepts_pinned f9_tcp_both = true /\ next_probe f9_tcp_both (ts_new f9_tcp_both 0) 0 = Fault Unimplemented) /\
  (builder_accepts_pinned f9_udp_classic_both = true /\
   next_probe f9_udp_classic_both (ts_new f9_udp_classic_both 0) 0 = Fault Unimplemented) /\
  builder_accepts f9_tcp_both = false /\ builder_accepts f9_udp_classic_both = false.
Proof. repeat split; vm_compute; reflexivity. Qed.

(* ------------------------------------------------------------------ non-vacuity *)
Definition no_args : Args := {|
  a_targets := [[101]]; a_mode := None; a_unprivileged := false; a_protocol := None; a_udp := false; a_tcp := false;
  a_icmp := false; a_addr_family := None; a_ipv4 := false; a_ipv6 := false; a_target_port := None; a_source_port := None;
  a_source_address := None; a_interface := None; a_min_round_duration := None; a_max_round_duration := None;
  a_grace_duration := None; a_initial_sequence := None; a_multipath_strategy := None; a_max_inflight := None;
  a_first_ttl := None; a_max_ttl := None; a_packet_size := None; a_payload_pattern := None; a_tos := None;
  a_icmp_extensions := false; a_read_timeout := None; a_dns_resolve_method := None; a_dns_resolve_all := false;
  a_dns_timeout := None; a_dns_ttl := None; a_dns_lookup_as_info := false; a_max_samples := None; a_max_flows := None;
  a_tui_address_mode := None; a_tui_as_mode := None; a_tui_custom_columns := None; a_tui_icmp_extension_mode := None;
  a_tui_geoip_mode := None; a_tui_max_addrs := None; a_tui_preserve_screen := false; a_tui_refresh_rate := None;
  a_tui_privacy_max_ttl := None; a_tui_locale := None; a_tui_timezone := None; a_tui_theme_colors := [];
  a_tui_key_bindings := []; a_report_cycles := None; a_geoip_mmdb_file := None; a_log_format := None; a_log_filter := None;
  a_log_span_events := None; a_verbose := false |}.
Definition no_file : ConfigFile := {|
  cf_trippy := None; cf_strategy := None; cf_theme_colors := None; cf_bindings := None; cf_tui := None; cf_dns := None;
  cf_report := None |}.
Definition root : PlatformPrivilege := {| has_privileges := true; needs_privileges := false |}.
Definition no_tz (s : str) := false.

(* the documented defaults are an accepted configuration (with and without a configuration file) *)
Example c16_defaults_accepted :
  (exists c, build_config no_tz no_args no_file root 4242 = COk c) /\
  (exists c, build_config no_tz no_args ConfigFile_default root 4242 = COk c).
Proof. split; eexists; vm_compute; reflexivity. Qed.

(* --udp -R paris -S 5000 -P 33000 with `first-ttl = 3` in the file: both ports fixed, ttl from the file *)
Definition udp_paris_args : Args :=
  let a := no_args in {|
  a_targets := a_targets a; a_mode := None; a_unprivileged := false; a_protocol := None; a_udp := true; a_tcp := false;
  a_icmp := false; a_addr_family := None; a_ipv4 := false; a_ipv6 := false; a_target_port := Some 33000;
  a_source_port := Some 5000; a_source_address := None; a_interface := None; a_min_round_duration := None;
  a_max_round_duration := None; a_grace_duration := None; a_initial_sequence := None;
  a_multipath_strategy := Some MsParis; a_max_inflight := None; a_first_ttl := None; a_max_ttl := None;
  a_packet_size := None; a_payload_pattern := None; a_tos := None; a_icmp_extensions := false; a_read_timeout := None;
  a_dns_resolve_method := None; a_dns_resolve_all := false; a_dns_timeout := None; a_dns_ttl := None;
  a_dns_lookup_as_info := false; a_max_samples := None; a_max_flows := None; a_tui_address_mode := None;
  a_tui_as_mode := None; a_tui_custom_columns := None; a_tui_icmp_extension_mode := None; a_tui_geoip_mode := None;
  a_tui_max_addrs := None; a_tui_preserve_screen := false; a_tui_refresh_rate := None; a_tui_privacy_max_ttl := None;
  a_tui_locale := None; a_tui_timezone := None; a_tui_theme_colors := []; a_tui_key_bindings := [];
  a_report_cycles := None; a_geoip_mmdb_file := None; a_log_format := None; a_log_filter := None;
  a_log_span_events := None; a_verbose := false |}.
Definition ttl3_file : ConfigFile := {|
  cf_trippy := None;
  cf_strategy := Some {|
    cs_protocol := Some PcTcp; cs_addr_family := None; cs_target_port := None; cs_source_port := None;
    cs_source_address := None; cs_interface := None; cs_min_round_duration := None; cs_max_round_duration := None;
    cs_initial_sequence := None; cs_multipath_strategy := None; cs_grace_duration := None; cs_max_inflight := None;
    cs_first_ttl := Some 3; cs_max_ttl := None; cs_packet_size := None; cs_payload_pattern := None; cs_tos := None;
    cs_icmp_extensions := None; cs_read_timeout := None; cs_max_samples := None; cs_max_flows := None |};
  cf_theme_colors := None; cf_bindings := None; cf_tui := None; cf_dns := None; cf_report := None |}.

Example c16_udp_paris_both_ports :
  exists c, build_config no_tz udp_paris_args ttl3_file root 4242 = COk c /\
    tc_protocol c = Udp /\ tc_first_ttl c = 3 /\ tc_port_direction c = FixedBoth 5000 33000 /\
    builder_accepts (start_tracer_cfg c [10; 0; 0; 1] 4242) = true.
Proof. eexists; repeat split; vm_compute; reflexivity. Qed.

(* the same command line with the classic strategy (the default) is refused by the command-line layer *)
Example c16_cli_rejects_udp_classic_both_ports :
  derive_port_direction Udp (Some 5000) (Some 33000) MsClassic 4242 = CErr EPorts /\
  derive_port_direction Tcp (Some 5000) (Some 80) MsClassic 4242 = CErr EPorts /\
  validate_ttl 0 64 = false.
Proof. repeat split; reflexivity. Qed.

(* the gap of c16_cli_accepts_implies_builder_accepts is real: --initial-sequence 65000 passes the command-line
   layer and is refused by the builder (with a configuration error, before tracing starts) *)
Definition seq65000_file : ConfigFile := {|
  cf_trippy := None;
  cf_strategy := Some {|
    cs_protocol := None; cs_addr_family := None; cs_target_port := None; cs_source_port := None;
    cs_source_address := None; cs_interface := None; cs_min_round_duration := None; cs_max_round_duration := None;
    cs_initial_sequence := Some 65000; cs_multipath_strategy := None; cs_grace_duration := None; cs_max_inflight := None;
    cs_first_ttl := None; cs_max_ttl := None; cs_packet_size := None; cs_payload_pattern := None; cs_tos := None;
    cs_icmp_extensions := None; cs_read_timeout := None; cs_max_samples := None; cs_max_flows := None |};
  cf_theme_colors := None; cf_bindings := None; cf_tui := None; cf_dns := None; cf_report := None |}.
Example c16_cli_accepts_builder_rejects_sequence :
  exists c, build_config no_tz no_args seq65000_file root 4242 = COk c /\
    builder_accepts (start_tracer_cfg c [10; 0; 0; 1] 4242) = false.
Proof. eexists; split; vm_compute; reflexivity. Qed.

(* each member of a dependency set matters (the sets are exact) *)
Example c16_port_direction_depends_on_each :
  derive_port_direction Udp None None MsClassic 4242 <> derive_port_direction Tcp None None MsClassic 4242 /\
  derive_port_direction Udp None None MsClassic 4242 <> derive_port_direction Udp (Some 5000) None MsClassic 4242 /\
  derive_port_direction Udp None None MsClassic 4242 <> derive_port_direction Udp None (Some 80) MsClassic 4242 /\
  derive_port_direction Udp (Some 5000) (Some 80) MsClassic 4242 <> derive_port_direction Udp (Some 5000) (Some 80) MsParis 4242 /\
  derive_port_direction Udp None None MsClassic 4242 <> derive_port_direction Udp None None MsClassic 5000.
Proof. repeat split; vm_compute; discriminate. Qed.
Example c16_max_rounds_depends_on_each :
  derive_max_rounds MTui 10 <> derive_max_rounds MJson 10 /\ derive_max_rounds MJson 10 <> derive_max_rounds MJson 5.
Proof. split; vm_compute; discriminate. Qed.
