(* C16 - Option precedence is CLI over file over default; accepted configurations can run.
   Model: TV.Tui.Layer.{cfg_layer, cfg_layer_opt, cfg_layer_bool_flag, layer, build_config, TuiTheme_from,
   TuiBindings_from, start_tracer_cfg}, TV.Tui.Validate.validate_*, TV.Core.Builder.builder_accepts (repaired
   Builder::build, docs/integration/C16_fix_1.patch) and the strategy model of C03..C09.
   Specification vocabulary (option inventory, option maps, documented defaults): TV.Tui.LayerSpec. *)
From TV Require Import Base.Result Core.Types Core.TracerState Core.Strategy Core.Builder
  Tui.ConfigTypes Tui.Validate Tui.Layer Tui.LayerSpec Proofs.StrategyInv Proofs.LayerProofs.

(* ------------------------------------------------------------------ precedence *)
(* For every one of the 44 options: the value build_config works with is the command-line entry if there is
   one, else the file entry if there is one (an absent section counts as no entry - the sections' own Default
   tables agree with the documented defaults), else the documented default.  `norm` only identifies
   tui-max-addrs = 0 with "auto". *)
Theorem c16_precedence : forall o a f,
  norm o (lget o (layer_cfg a f)) = norm o (first_of (cli_get o a) (file_get o f) (doc_default o)).
Proof. exact layer_precedence. Qed.

(* ... and that value is what the accepted TrippyConfig carries, for every option the record stores by itself *)
Theorem c16_precedence_config : forall o tz a f p pid c v,
  build_config tz a f p pid = COk c -> cfg_get o c = Some v ->
  v = first_of (cli_get o a) (file_get o f) (doc_default o).
Proof. exact config_precedence. Qed.

(* the options cfg_get cannot read back are exactly the five derived ones, treated below *)
Theorem c16_derived_inventory : forall o c, cfg_get o c = None <-> derived o = true.
Proof. exact cfg_get_derived. Qed.

(* the three layering functions are the rule itself *)
Theorem c16_cfg_layer : forall (T : Type) (fst snd : option T) def,
  cfg_layer fst snd def = match fst with Some v => v | None => match snd with Some v => v | None => def end end.
Proof. intros T. exact cfg_layer_spec. Qed.
Theorem c16_cfg_layer_opt : forall (T : Type) (fst snd : option T),
  cfg_layer_opt fst snd = match fst with Some v => Some v | None => snd end.
Proof. intros T. exact cfg_layer_opt_spec. Qed.
Theorem c16_cfg_layer_bool_flag : forall fst snd def,
  cfg_layer_bool_flag fst snd def = if fst then true else match snd with Some v => v | None => def end.
Proof. exact cfg_layer_bool_flag_spec. Qed.

(* ------------------------------------------------------------------ non-interference *)
(* changing the command-line / file entries of any OTHER options (a' f' arbitrary apart from option o)
   does not change the value of o *)
Theorem c16_independent : forall o a a' f f',
  cli_get o a = cli_get o a' -> file_get o f = file_get o f' ->
  norm o (lget o (layer_cfg a f)) = norm o (lget o (layer_cfg a' f')).
Proof. exact layer_independent. Qed.

Theorem c16_independent_config : forall o tz tz' a a' f f' p p' pid pid' c c',
  build_config tz a f p pid = COk c -> build_config tz' a' f' p' pid' = COk c' ->
  cli_get o a = cli_get o a' -> file_get o f = file_get o f' -> cfg_get o c = cfg_get o c'.
Proof. exact config_independent. Qed.

(* ------------------------------------------------------------------ the derived fields and their exact dependency sets *)
(* protocol: {--udp, --tcp, --icmp, --protocol, file protocol}; the shortcut flags count as "given on the command line" *)
Theorem c16_derived_protocol : forall tz a f p pid c, build_config tz a f p pid = COk c ->
  tc_protocol c = first_of_ (cli_protocol a) (file_protocol f) Icmp.
Proof. exact config_protocol. Qed.

(* address family: {-4, -6, --addr-family, file addr-family} *)
Theorem c16_derived_addr_family : forall tz a f p pid c, build_config tz a f p pid = COk c ->
  tc_addr_family c = first_of_ (cli_family a) (file_family f) Ipv4thenIpv6.
Proof. exact config_addr_family. Qed.

(* port direction: {effective protocol, source_port, target_port, multipath strategy, pid}, by the documented rule *)
Theorem c16_derived_port_direction : forall tz a f p pid c, build_config tz a f p pid = COk c ->
  exists src dst,
    first_of (cli_get OSourcePort a) (file_get OSourcePort f) VNone = ov VInt src /\
    first_of (cli_get OTargetPort a) (file_get OTargetPort f) VNone = ov VInt dst /\
    port_rule pid (tc_protocol c) src dst (tc_multipath_strategy c) (tc_port_direction c).
Proof. exact config_port_direction. Qed.
Theorem c16_port_rule_functional : forall pid pr s d m x y,
  port_rule pid pr s d m x -> port_rule pid pr s d m y -> x = y.
Proof. exact port_rule_functional. Qed.

(* max_rounds: {mode, report_cycles} *)
Theorem c16_derived_max_rounds : forall tz a f p pid c, build_config tz a f p pid = COk c ->
  tc_max_rounds c = match tc_mode c with MTui | MStream => None | _ => Some (tc_report_cycles c) end.
Proof. exact config_max_rounds. Qed.

(* tui_max_addrs: {tui_max_addrs} with 0 => none *)
Theorem c16_derived_tui_max_addrs : forall tz a f p pid c, build_config tz a f p pid = COk c ->
  ov VInt (tc_tui_max_addrs c) =
  norm OTuiMaxAddrs (first_of (cli_get OTuiMaxAddrs a) (file_get OTuiMaxAddrs f) (doc_default OTuiMaxAddrs)).
Proof. exact config_tui_max_addrs. Qed.

(* effective max_flows: {max_flows, multipath strategy} *)
Theorem c16_derived_max_flows : forall c,
  TrippyConfig_max_flows c = match tc_multipath_strategy c with Classic => 1 | _ => tc_max_flows c end.
Proof. reflexivity. Qed.

(* ------------------------------------------------------------------ theme colours and key bindings, item by item *)
Theorem c16_theme_precedence : forall tz a f p pid c i d, build_config tz a f p pid = COk c ->
  nth_error TuiTheme_default i = Some d ->
  nth_error (tc_tui_theme c) i = Some (item_rule (a_tui_theme_colors a) (cf_theme_colors f) d i).
Proof. exact config_theme. Qed.

Theorem c16_bindings_precedence : forall tz a f p pid c i d, build_config tz a f p pid = COk c ->
  nth_error TuiBindings_default i = Some d ->
  nth_error (tc_tui_bindings c) i = Some (item_rule (a_tui_key_bindings a) (option_map cb_items (cf_bindings f)) d i).
Proof. exact config_bindings. Qed.

Theorem c16_bindings_distinct : forall tz a f p pid c, build_config tz a f p pid = COk c -> NoDup (tc_tui_bindings c).
Proof. exact config_bindings_distinct. Qed.

(* ------------------------------------------------------------------ validators against independent statements *)
Theorem c16_validate_ttl : forall f m, validate_ttl f m = true <-> 1 <= f <= m /\ m <= 254.
Proof. exact validate_ttl_spec. Qed.
Theorem c16_validate_bindings : forall b, validate_bindings b = true <-> NoDup b.
Proof. exact validate_bindings_spec. Qed.
Theorem c16_validate_custom_columns : forall cols, validate_tui_custom_columns cols = true <-> cols <> [] /\ NoDup cols.
Proof. exact validate_tui_custom_columns_spec. Qed.
Theorem c16_columns_parse : forall s cols,
  TuiColumns_try_from s = Some cols <-> cols = s /\ Forall (fun c => In c COLUMN_CODES) s.
Proof. exact TuiColumns_try_from_spec. Qed.
Theorem c16_port_direction_rule : forall proto s d m pid pd,
  derive_port_direction proto s d m pid = COk pd <-> port_rule pid proto s d (derive_multipath_strategy m) pd.
Proof. exact derive_port_direction_spec. Qed.

(* ------------------------------------------------------------------ command-line acceptance versus the builder *)
(* A configuration accepted by the command-line layer (values in the ranges of their Rust types) satisfies
   every builder check except possibly the two on the initial sequence (`initial_sequence <= 64511`, and non-zero for
   Paris over IPv6), which the command-line layer does not make: the builder then answers with Error::BadConfig
   before tracing starts. *)
Theorem c16_cli_accepts_implies_builder_accepts : forall tz a f p pid c tgt tid,
  build_config tz a f p pid = COk c -> args_in_range a -> file_in_range f -> u16 pid -> u16 tid ->
  builder_accepts (start_tracer_cfg c tgt tid) =
    (tc_initial_sequence c <=? MAX_INITIAL_SEQUENCE) && negb (paris6_zero (start_tracer_cfg c tgt tid)) /\
  cfg_wf (start_tracer_cfg c tgt tid).
Proof. exact cli_accept_builder. Qed.

(* ------------------------------------------------------------------ accepted configurations run *)
(* library users: whatever the builder accepts runs every loop iteration without a fault, for every history *)
Theorem c16_builder_step : forall c s i, Accept c -> Inv c s ->
  exists s' ev e, step c s i = Ok (s', ev, e) /\ Inv c s'.
Proof. exact step_ok. Qed.

Theorem c16_builder_runs : forall c t0 is, Accept c ->
  let '(ev, o, sf) := run c t0 is in Inv c sf /\ forall f, o <> Faulted f.
Proof. intros c t0 is HA. apply run_from_inv; [assumption|apply inv_new; assumption]. Qed.

(* command line + builder *)
Theorem c16_cli_runs : forall tz a f p pid c tgt tid t0 is,
  build_config tz a f p pid = COk c -> args_in_range a -> file_in_range f -> u16 pid -> u16 tid ->
  tc_initial_sequence c <= MAX_INITIAL_SEQUENCE -> paris6_zero (start_tracer_cfg c tgt tid) = false ->
  let '(ev, o, sf) := run (start_tracer_cfg c tgt tid) t0 is in forall x, o <> Faulted x.
Proof. exact cli_runs. Qed.

(* the three unsupported classes are refused up front by the (repaired) builder *)
Theorem c16_builder_rejects_unsupported : forall c,
  (proto c = Tcp /\ exists s d, port_direction c = FixedBoth s d) \/
  (proto c = Udp /\ multipath c = Classic /\ exists s d, port_direction c = FixedBoth s d) \/
  first_ttl c <= 0 ->
  builder_accepts c = false.
Proof.
  intros c [[Hp (s & d & Hd)]|[[Hp [Hm (s & d & Hd)]]|Ht]]; unfold builder_accepts, portdir_ok.
  - rewrite Hp, Hd. reflexivity.
  - rewrite Hp, Hm, Hd. reflexivity.
  - replace (1 <=? first_ttl c) with false by (symmetry; apply Z.leb_gt; lia).
    rewrite Bool.andb_false_r. reflexivity.
Qed.

(* F9: on the pinned tree Builder::build() accepted configurations whose first probe hits unimplemented!() *)
Definition f9_tcp_both : scfg := {|
  target_addr := [10; 0; 0; 1]; proto := Tcp; trace_identifier := 0; max_rounds := Some 3; first_ttl := 1; max_ttl := 8;
  grace_duration := 1000000; max_inflight := 24; initial_sequence := 33434; multipath := Classic;
  port_direction := FixedBoth 5000 80; min_round_duration := 1000000; max_round_duration := 2000000 |}.
Definition f9_udp_classic_both : scfg := {|
  target_addr := [10; 0; 0; 1]; proto := Udp; trace_identifier := 0; max_rounds := Some 3; first_ttl := 1; max_ttl := 8;
  grace_duration := 1000000; max_inflight := 24; initial_sequence := 33434; multipath := Classic;
  port_direction := FixedBoth 5000 33000; min_round_duration := 1000000; max_round_duration := 2000000 |}.

Theorem c16_pinned_builder_refuted :
  (builder_accepts_pinned f9_tcp_both = true /\ next_probe f9_tcp_both (ts_new f9_tcp_both 0) 0 = Fault Unimplemented) /\
  (builder_accepts_pinned f9_udp_classic_both = true /\
   next_probe f9_udp_classic_both (ts_new f9_udp_classic_both 0) 0 = Fault Unimplemented) /\
  builder_accepts f9_tcp_both = false /\ builder_accepts f9_udp_classic_both = false.
Proof. repeat split; vm_compute; reflexivity. Qed.

(* ------------------------------------------------------------------ non-vacuity *)
Definition no_args : Args := {|
  a_targets := [[101]]; a_mode := None; a_unprivileged := false; a_protocol := None; a_udp := false; a_tcp := false;
  a_icmp := false; a_addr_family := None; a_ipv4 := false; a_ipv6 := false; a_target_port := None; a_source_port := None;
  a_source_address := None; a_interface := None; a_min_round_duration := None; a_max_round_duration := None;
  a_grace_duration := None; a_initial_sequence := None; a_multipath_strategy := None; a_max_inflight := None;
  a_first_ttl := None; a_max_ttl := None; a_packet_size := None; a_payload_pattern := None; a_tos := None;
  a_icmp_extensions := false; a_read_timeout := None; a_dns_resolve_method := None; a_dns_resolve_all := false;
  a_dns_timeout := None; a_dns_ttl := None; a_dns_lookup_as_info := false; a_max_samples := None; a_max_flows := None;
  a_tui_address_mode := None; a_tui_as_mode := None; a_tui_custom_columns := None; a_tui_icmp_extension_mode := None;
  a_tui_geoip_mode := None; a_tui_max_addrs := None; a_tui_preserve_screen := false; a_tui_refresh_rate := None;
  a_tui_privacy_max_ttl := None; a_tui_locale := None; a_tui_timezone := None; a_tui_theme_colors := [];
  a_tui_key_bindings := []; a_report_cycles := None; a_geoip_mmdb_file := None; a_log_format := None; a_log_filter := None;
  a_log_span_events := None; a_verbose := false |}.
Definition no_file : ConfigFile := {|
  cf_trippy := None; cf_strategy := None; cf_theme_colors := None; cf_bindings := None; cf_tui := None; cf_dns := None;
  cf_report := None |}.
Definition root : PlatformPrivilege := {| has_privileges := true; needs_privileges := false |}.
Definition no_tz (s : str) := false.

(* the documented defaults are an accepted configuration (with and without a configuration file) *)
Example c16_defaults_accepted :
  (exists c, build_config no_tz no_args no_file root 4242 = COk c) /\
  (exists c, build_config no_tz no_args ConfigFile_default root 4242 = COk c).
Proof. split; eexists; vm_compute; reflexivity. Qed.

(* --udp -R paris -S 5000 -P 33000 with `first-ttl = 3` in the file: both ports fixed, ttl from the file *)
Definition udp_paris_args : Args :=
  let a := no_args in {|
  a_targets := a_targets a; a_mode := None; a_unprivileged := false; a_protocol := None; a_udp := true; a_tcp := false;
  a_icmp := false; a_addr_family := None; a_ipv4 := false; a_ipv6 := false; a_target_port := Some 33000;
  a_source_port := Some 5000; a_source_address := None; a_interface := None; a_min_round_duration := None;
  a_max_round_duration := None; a_grace_duration := None; a_initial_sequence := None;
  a_multipath_strategy := Some MsParis; a_max_inflight := None; a_first_ttl := None; a_max_ttl := None;
  a_packet_size := None; a_payload_pattern := None; a_tos := None; a_icmp_extensions := false; a_read_timeout := None;
  a_dns_resolve_method := None; a_dns_resolve_all := false; a_dns_timeout := None; a_dns_ttl := None;
  a_dns_lookup_as_info := false; a_max_samples := None; a_max_flows := None; a_tui_address_mode := None;
  a_tui_as_mode := None; a_tui_custom_columns := None; a_tui_icmp_extension_mode := None; a_tui_geoip_mode := None;
  a_tui_max_addrs := None; a_tui_preserve_screen := false; a_tui_refresh_rate := None; a_tui_privacy_max_ttl := None;
  a_tui_locale := None; a_tui_timezone := None; a_tui_theme_colors := []; a_tui_key_bindings := [];
  a_report_cycles := None; a_geoip_mmdb_file := None; a_log_format := None; a_log_filter := None;
  a_log_span_events := None; a_verbose := false |}.
Definition ttl3_file : ConfigFile := {|
  cf_trippy := None;
  cf_strategy := Some {|
    cs_protocol := Some PcTcp; cs_addr_family := None; cs_target_port := None; cs_source_port := None;
    cs_source_address := None; cs_interface := None; cs_min_round_duration := None; cs_max_round_duration := None;
    cs_initial_sequence := None; cs_multipath_strategy := None; cs_grace_duration := None; cs_max_inflight := None;
    cs_first_ttl := Some 3; cs_max_ttl := None; cs_packet_size := None; cs_payload_pattern := None; cs_tos := None;
    cs_icmp_extensions := None; cs_read_timeout := None; cs_max_samples := None; cs_max_flows := None |};
  cf_theme_colors := None; cf_bindings := None; cf_tui := None; cf_dns := None; cf_report := None |}.

Example c16_udp_paris_both_ports :
  exists c, build_config no_tz udp_paris_args ttl3_file root 4242 = COk c /\
    tc_protocol c = Udp /\ tc_first_ttl c = 3 /\ tc_port_direction c = FixedBoth 5000 33000 /\
    builder_accepts (start_tracer_cfg c [10; 0; 0; 1] 4242) = true.
Proof. eexists; repeat split; vm_compute; reflexivity. Qed.

(* the same command line with the classic strategy (the default) is refused by the command-line layer *)
Example c16_cli_rejects_udp_classic_both_ports :
  derive_port_direction Udp (Some 5000) (Some 33000) MsClassic 4242 = CErr EPorts /\
  derive_port_direction Tcp (Some 5000) (Some 80) MsClassic 4242 = CErr EPorts /\
  validate_ttl 0 64 = false.
Proof. repeat split; reflexivity. Qed.

(* the gap of c16_cli_accepts_implies_builder_accepts is real: --initial-sequence 65000 passes the command-line
   layer and is refused by the builder (with a configuration error, before tracing starts) *)
Definition seq65000_file : ConfigFile := {|
  cf_trippy := None;
  cf_strategy := Some {|
    cs_protocol := None; cs_addr_family := None; cs_target_port := None; cs_source_port := None;
    cs_source_address := None; cs_interface := None; cs_min_round_duration := None; cs_max_round_duration := None;
    cs_initial_sequence := Some 65000; cs_multipath_strategy := None; cs_grace_duration := None; cs_max_inflight := None;
    cs_first_ttl := None; cs_max_ttl := None; cs_packet_size := None; cs_payload_pattern := None; cs_tos := None;
    cs_icmp_extensions := None; cs_read_timeout := None; cs_max_samples := None; cs_max_flows := None |};
  cf_theme_colors := None; cf_bindings := None; cf_tui := None; cf_dns := None; cf_report := None |}.
Example c16_cli_accepts_builder_rejects_sequence :
  exists c, build_config no_tz no_args seq65000_file root 4242 = COk c /\
    builder_accepts (start_tracer_cfg c [10; 0; 0; 1] 4242) = false.
Proof. eexists; split; vm_compute; reflexivity. Qed.

(* each member of a dependency set matters (the sets are exact) *)
Example c16_port_direction_depends_on_each :
  derive_port_direction Udp None None MsClassic 4242 <> derive_port_direction Tcp None None MsClassic 4242 /\
  derive_port_direction Udp None None MsClassic 4242 <> derive_port_direction Udp (Some 5000) None MsClassic 4242 /\
  derive_port_direction Udp None None MsClassic 4242 <> derive_port_direction Udp None (Some 80) MsClassic 4242 /\
  derive_port_direction Udp (Some 5000) (Some 80) MsClassic 4242 <> derive_port_direction Udp (Some 5000) (Some 80) MsParis 4242 /\
  derive_port_direction Udp None None MsClassic 4242 <> derive_port_direction Udp None None MsClassic 5000.
Proof. repeat split; vm_compute; discriminate. Qed.
Example c16_max_rounds_depends_on_each :
  derive_max_rounds MTui 10 <> derive_max_rounds MJson 10 /\ derive_max_rounds MJson 10 <> derive_max_rounds MJson 5.
Proof. split; vm_compute; discriminate. Qed.

(* ====================================================================================================
   Second part.  Precedence over the COMPLETE inventory of layered settings, the verdict of build_config as the first
   documented rule that fires on the effective values (Proofs/ConfigRules.v), and the chain
   build_config -> start_tracer -> Builder::build -> strategy loop / Channel::connect (Proofs/AcceptedRuns.v).
   Vocabulary (all of it specification, defined without reference to how build_config is written):
   [eff o a f] the effective value of plain option o; [xopt] a layered setting (plain option, protocol / address family
   with their shortcut flags, theme item, key binding) with [x_cli], [x_file], [x_default], [x_read]; [view_of a f] the
   effective values a verdict may depend on; [rules tz p V] the documented rejection conditions in code order;
   [first_rule rs e]: e is the error of the first rule of rs whose condition holds; [none_fires rs];
   [idle_cfg c]: a configuration that can never send (max_ttl < first_ttl or max_inflight = 0); [empty_round r];
   [runs_well sc mr]: for every start time and environment the run of sc does not fault, publishes at most mr rounds,
   exactly mr when it returns success, and does return success after exactly mr rounds when the environment injects
   nothing fatal and lets mr rounds expire (TCP: or ends with the capacity error); without a limit it never returns
   success by itself.
   ==================================================================================================== *)
From TV Require Import Proofs.StrategyProps Proofs.RunSemantics Proofs.ConfigRules Proofs.AcceptedRuns.
From TV Require Net.Sock Net.ChannelSend Net.Dispatch4 Net.Dispatch6.

(* ------------------------------------------------------------------ precedence, every layered setting *)
(* ONE statement for every setting an accepted TrippyConfig stores - the 40 plain options stored in a field of their
   own, protocol with --udp/--tcp/--icmp, address family with -4/-6, each of the 34 theme colours, each of the 38 key
   bindings: the stored value is the command-line value if given, else the file value if given, else the documented
   default (x_norm only identifies tui-max-addrs 0 with "auto"). *)
Theorem c16_precedence_all : forall x tz a f p pid c d v, build_config tz a f p pid = COk c ->
  x_default x = Some d -> x_read x c = Some v ->
  v = x_norm x (first_of (x_cli x a) (x_file x f) d).
Proof. exact x_precedence. Qed.

(* the inventory: 114 settings, each with a documented default and readable from every accepted configuration (so the
   statement above says something for each of them); the two options missing from it, source-port and target-port, are
   stored through port_direction only (c16_derived_port_direction, c16_derived_effective) *)
Theorem c16_inventory_complete : forall tz a f p pid c, build_config tz a f p pid = COk c ->
  length all_xopts = 114%nat /\
  Forall (fun x => (exists d, x_default x = Some d) /\ (exists v, x_read x c = Some v)) all_xopts.
Proof. exact x_inventory. Qed.

(* the five shortcut flags: a flag that is given decides the field whatever --protocol / --addr-family and the file
   say (in the order udp, tcp, icmp and 4, 6 of the code's match); without flags the field is the plain option *)
Theorem c16_shortcut_flags : forall tz a f p pid c, build_config tz a f p pid = COk c ->
  (a_udp a = true -> tc_protocol c = Udp) /\
  (a_udp a = false -> a_tcp a = true -> tc_protocol c = Tcp) /\
  (a_udp a = false -> a_tcp a = false -> a_icmp a = true -> tc_protocol c = Icmp) /\
  (a_udp a = false -> a_tcp a = false -> a_icmp a = false -> tc_protocol c = vprotocol (eff OProtocol a f)) /\
  (a_ipv4 a = true -> tc_addr_family c = Ipv4Only) /\
  (a_ipv4 a = false -> a_ipv6 a = true -> tc_addr_family c = Ipv6Only) /\
  (a_ipv4 a = false -> a_ipv6 a = false -> tc_addr_family c = vfamily (eff OAddrFamily a f)).
Proof. exact shortcut_flags. Qed.

(* on a command line clap lets through (conflicts_with) the flags and the plain option exclude one another, so the
   order of the match arms is never observable *)
Theorem c16_flags_exclusive : forall a, args_conflict a = false ->
  (a_udp a = true -> a_tcp a = false /\ a_icmp a = false /\ a_protocol a = None) /\
  (a_tcp a = true -> a_udp a = false /\ a_icmp a = false /\ a_protocol a = None) /\
  (a_icmp a = true -> a_udp a = false /\ a_tcp a = false /\ a_protocol a = None) /\
  (a_ipv4 a = true -> a_ipv6 a = false /\ a_addr_family a = None) /\
  (a_ipv6 a = true -> a_ipv4 a = false /\ a_addr_family a = None).
Proof. exact no_conflict_exclusive. Qed.

(* every derived field of an accepted configuration as a function of the effective values: protocol, address family,
   port direction (the documented port rule on the effective protocol / ports / strategy and the pid), max_rounds (mode
   and report-cycles), tui_max_addrs (0 => none), the effective max_flows (1 for classic), the key bindings *)
Theorem c16_derived_effective : forall tz a f p pid c, build_config tz a f p pid = COk c ->
  tc_protocol c = v_protocol (view_of a f) /\
  tc_addr_family c = v_family (view_of a f) /\
  port_rule pid (v_protocol (view_of a f)) (voint (eff OSourcePort a f)) (voint (eff OTargetPort a f))
            (derive_multipath_strategy (vstrategy (eff OMultipathStrategy a f))) (tc_port_direction c) /\
  tc_max_rounds c = match vmode (eff OMode a f) with MTui | MStream => None | _ => Some (vint (eff OReportCycles a f)) end /\
  tc_tui_max_addrs c = match voint (eff OTuiMaxAddrs a f) with Some n => if 0 <? n then Some n else None | None => None end /\
  TrippyConfig_max_flows c = match vstrategy (eff OMultipathStrategy a f) with MsClassic => 1 | _ => vint (eff OMaxFlows a f) end /\
  tc_tui_bindings c = v_bindings (view_of a f).
Proof. exact derived_effective. Qed.

(* ------------------------------------------------------------------ the verdict of build_config *)
(* build_config answers with error e exactly when e is the error of the FIRST documented rule, in the order of the
   code, whose condition holds - and every condition is one on the effective values (view_of a f), the timezone table
   and the privileges of the platform: each validator fires iff its documented condition holds there, and when several
   hold the earliest in the list wins *)
Theorem c16_first_error : forall tz a f p pid e,
  build_config tz a f p pid = CErr e <-> first_rule (rules tz p (view_of a f)) e.
Proof. exact build_config_error_iff. Qed.

(* ... and it accepts exactly when no rule fires *)
Theorem c16_accepts_iff_no_rule : forall tz a f p pid,
  (exists c, build_config tz a f p pid = COk c) <-> none_fires (rules tz p (view_of a f)).
Proof. exact build_config_accepts_iff. Qed.

(* deprecated keys ([tui] tui-max-samples, [tui] tui-max-flows, [bindings] toggle-privacy): refused whatever else is
   said, and before every other complaint *)
Theorem c16_deprecated_rejected : forall tz a f p pid, deprecated_present f = true ->
  build_config tz a f p pid = CErr EDeprecated.
Proof. exact deprecated_rejected. Qed.

(* the verdict does not depend on the layer a value comes from: two command-line / file pairs with the same effective
   values are both accepted or both refused with the same error (also under different pids) *)
Theorem c16_verdict_effective_only : forall tz p a f pid a' f' pid', same_view (view_of a f) (view_of a' f') ->
  (forall e, build_config tz a f p pid = CErr e <-> build_config tz a' f' p pid' = CErr e) /\
  ((exists c, build_config tz a f p pid = COk c) <-> (exists c, build_config tz a' f' p pid' = COk c)).
Proof. exact verdict_same_view. Qed.

(* ------------------------------------------------------------------ the builder seen from the command line *)
(* exactly which configurations accepted by the command-line layer the builder refuses (with Error::BadConfig, before
   tracing starts): an initial sequence above 64511, or sequence 0 with udp / paris towards an IPv6 target *)
Theorem c16_builder_refuses_iff : forall tz a f p pid c tgt tid, build_config tz a f p pid = COk c ->
  (builder_accepts (start_tracer_cfg c tgt tid) = false <->
   64511 < tc_initial_sequence c \/
   (tc_protocol c = Udp /\ tc_multipath_strategy c = Paris /\ is_v6 tgt = true /\ tc_initial_sequence c = 0)).
Proof. exact cli_builder_refuses_iff. Qed.

(* a configuration accepted by the command-line layer can always send: it is never one of the degenerate
   configurations the builder accepts from library users *)
Theorem c16_cli_never_degenerate : forall tz a f p pid c tgt tid,
  build_config tz a f p pid = COk c -> args_in_range a -> file_in_range f -> u16 pid -> u16 tid ->
  1 <= tc_first_ttl c <= tc_max_ttl c /\ tc_max_ttl c <= 254 /\ 1 <= tc_max_inflight c <= 255 /\
  ~ idle_cfg (start_tracer_cfg c tgt tid).
Proof. exact cli_not_idle. Qed.

(* ------------------------------------------------------------------ every builder-accepted configuration runs *)
(* `Accept`, the hypothesis of the strategy theorems (C03..C09), is builder acceptance plus the ranges of the Rust types
   and nothing else: in particular it does not ask for first_ttl <= max_ttl, max_ttl >= 1 or max_inflight >= 1 *)
Theorem c16_accept_is_builder_and_ranges : forall c, Accept c <-> builder_accepts c = true /\ cfg_wf c.
Proof. intros c. unfold Accept. tauto. Qed.

(* library users: whatever the builder accepts runs well, for every environment *)
Theorem c16_builder_runs_well : forall c, builder_accepts c = true -> cfg_wf c -> runs_well c (max_rounds c).
Proof. exact builder_runs_well. Qed.

(* ... including the configurations that can never send a probe (max_ttl < first_ttl, so also max_ttl = 0; max_inflight
   = 0): no fault, no probe is ever handed to the network, every published round is empty and closed by the timing
   policy, the run ends with an error only if the environment injects a fatal receive error, and with a round limit n and
   a clock that lets n rounds expire it publishes exactly n rounds and returns success *)
Theorem c16_idle_runs : forall c t0 is, Accept c -> idle_cfg c ->
  let '(ev, o, sf) := run c t0 is in
  ev_probes ev = [] /\ Forall empty_round (pubs ev) /\ (forall x, o <> Faulted x) /\
  (forall e, o = Failed_with e -> exists i, In i is /\ i_recv i = FatalR e) /\
  (forall n, max_rounds c = Some n -> Forall (fun i => forall e, i_recv i <> FatalR e) is ->
     n <= Z.of_nat (count_expired c t0 is) -> o = Finished /\ Z.of_nat (length (pubs ev)) = n).
Proof. exact idle_runs. Qed.

(* ------------------------------------------------------------------ the composed statement *)
(* command line / file --build_config--> TrippyConfig --start_tracer--> Builder::build --> strategy loop.
   Either the builder refuses (configuration error before tracing starts, exactly in the two cases above), or the
   strategy configuration can send and runs well for every start time and every environment. *)
Theorem c16_accepted_runs : forall tz a f p pid c tgt tid,
  build_config tz a f p pid = COk c -> args_in_range a -> file_in_range f -> u16 pid -> u16 tid ->
  (builder_accepts (start_tracer_cfg c tgt tid) = false /\
   (64511 < tc_initial_sequence c \/
    (tc_protocol c = Udp /\ tc_multipath_strategy c = Paris /\ is_v6 tgt = true /\ tc_initial_sequence c = 0))) \/
  (builder_accepts (start_tracer_cfg c tgt tid) = true /\ ~ idle_cfg (start_tracer_cfg c tgt tid) /\
   runs_well (start_tracer_cfg c tgt tid) (tc_max_rounds c)).
Proof. exact accepted_runs. Qed.

(* the same, read forwards: accepted by build_config, sequence within the builder's bound -> accepted by the builder,
   and for every environment the run does not fault and, with a round limit, publishes exactly n rounds *)
Theorem c16_accepted_runs_builder : forall tz a f p pid c tgt tid,
  build_config tz a f p pid = COk c -> args_in_range a -> file_in_range f -> u16 pid -> u16 tid ->
  tc_initial_sequence c <= 64511 ->
  ~ (tc_protocol c = Udp /\ tc_multipath_strategy c = Paris /\ is_v6 tgt = true /\ tc_initial_sequence c = 0) ->
  builder_accepts (start_tracer_cfg c tgt tid) = true /\ runs_well (start_tracer_cfg c tgt tid) (tc_max_rounds c).
Proof. exact accepted_runs_builder. Qed.

(* ------------------------------------------------------------------ the channel configuration *)
(* the packet size of an accepted configuration passes the guard of Channel::connect and the minimum sizes of the IPv4
   dispatchers, and those of the IPv6 dispatchers unless the address family is ipv4-only *)
Theorem c16_channel_sizes : forall tz a f p pid c src tgt, build_config tz a f p pid = COk c ->
  (ChannelSend.cc_packet_size (start_tracer_chan c src tgt) >? Sock.MAX_PACKET_SIZE) = false /\
  Dispatch4.MIN_PACKET_SIZE_ICMP4 <= ChannelSend.cc_packet_size (start_tracer_chan c src tgt) /\
  Dispatch4.MIN_PACKET_SIZE_UDP4 <= ChannelSend.cc_packet_size (start_tracer_chan c src tgt) /\
  (tc_addr_family c <> Ipv4Only ->
   Dispatch6.MIN_PACKET_SIZE_ICMP6 <= ChannelSend.cc_packet_size (start_tracer_chan c src tgt) /\
   Dispatch6.MIN_PACKET_SIZE_UDP6 <= ChannelSend.cc_packet_size (start_tracer_chan c src tgt)).
Proof. exact cli_channel_sizes. Qed.

(* Channel::connect for an accepted configuration (no socket call failing): with a source address of the family of the
   target it returns the channel - never "invalid packet size"; with a source address of the other family it reaches
   unreachable!() *)
Theorem c16_channel_connect : forall tz a f p pid c src tgt bo ops, build_config tz a f p pid = COk c ->
  let cfg := start_tracer_chan c src tgt in
  (is_v6 (ChannelSend.cc_source cfg) = is_v6 tgt ->
     exists ch, snd (ChannelSend.connect bo cfg {| Sock.w_ops := ops; Sock.w_inject := [] |}) = Ok ch /\
                ChannelSend.ch_protocol ch = tc_protocol c) /\
  (is_v6 (ChannelSend.cc_source cfg) <> is_v6 tgt ->
     snd (ChannelSend.connect bo cfg {| Sock.w_ops := ops; Sock.w_inject := [] |}) = Fault Unreachable).
Proof. exact cli_channel_connect. Qed.

(* ------------------------------------------------------------------ non-vacuity of the second part *)
(* a command line `trip <target> ...` with the listed arguments and nothing else *)
Definition args_ex (targets : list str) (udp tcp : bool) (src_addr : option addr) (ms : option MultipathStrategyConfig)
    (seq ft mt ps : option Z) (mode : option Mode) (theme keys : list (Z * Z)) : Args := {|
  a_targets := targets; a_mode := mode; a_unprivileged := false; a_protocol := None; a_udp := udp; a_tcp := tcp;
  a_icmp := false; a_addr_family := None; a_ipv4 := false; a_ipv6 := false; a_target_port := None; a_source_port := None;
  a_source_address := src_addr; a_interface := None; a_min_round_duration := None; a_max_round_duration := None;
  a_grace_duration := None; a_initial_sequence := seq; a_multipath_strategy := ms; a_max_inflight := None;
  a_first_ttl := ft; a_max_ttl := mt; a_packet_size := ps; a_payload_pattern := None; a_tos := None;
  a_icmp_extensions := false; a_read_timeout := None; a_dns_resolve_method := None; a_dns_resolve_all := false;
  a_dns_timeout := None; a_dns_ttl := None; a_dns_lookup_as_info := false; a_max_samples := None; a_max_flows := None;
  a_tui_address_mode := None; a_tui_as_mode := None; a_tui_custom_columns := None; a_tui_icmp_extension_mode := None;
  a_tui_geoip_mode := None; a_tui_max_addrs := None; a_tui_preserve_screen := false; a_tui_refresh_rate := None;
  a_tui_privacy_max_ttl := None; a_tui_locale := None; a_tui_timezone := None; a_tui_theme_colors := theme;
  a_tui_key_bindings := keys; a_report_cycles := None; a_geoip_mmdb_file := None; a_log_format := None; a_log_filter := None;
  a_log_span_events := None; a_verbose := false |}.
(* a file with a [strategy] section holding the listed keys only *)
Definition file_ex (proto : option ProtocolConfig) (ft mt ps : option Z) : ConfigFile := {|
  cf_trippy := None;
  cf_strategy := Some {|
    cs_protocol := proto; cs_addr_family := None; cs_target_port := None; cs_source_port := None;
    cs_source_address := None; cs_interface := None; cs_min_round_duration := None; cs_max_round_duration := None;
    cs_initial_sequence := None; cs_multipath_strategy := None; cs_grace_duration := None; cs_max_inflight := None;
    cs_first_ttl := ft; cs_max_ttl := mt; cs_packet_size := ps; cs_payload_pattern := None; cs_tos := None;
    cs_icmp_extensions := None; cs_read_timeout := None; cs_max_samples := None; cs_max_flows := None |};
  cf_theme_colors := None; cf_bindings := None; cf_tui := None; cf_dns := None; cf_report := None |}.
Definition t101 : list str := [[101]].

(* c16_precedence_all at three settings of different kinds: `--tcp` over `protocol = "udp"` in the file; theme item 3
   (tab_text, default green = 2) set to 9 on the command line; command 36 (quit, default 'q') left alone *)
Example c16_precedence_all_instances :
  exists c, build_config no_tz (args_ex t101 false true None None None None None None None [(3, 9)] []) (file_ex (Some PcUdp) None None None) root 4242 = COk c /\
    x_read XProtocol c = Some (VProtocol PcTcp) /\
    x_cli XProtocol (args_ex t101 false true None None None None None None None [(3, 9)] []) = Some (VProtocol PcTcp) /\
    x_file XProtocol (file_ex (Some PcUdp) None None None) = Some (VProtocol PcUdp) /\
    x_read (XTheme 3) c = Some (VInt 9) /\ x_default (XTheme 3) = Some (VInt 2) /\
    x_read (XBinding 36) c = x_default (XBinding 36).
Proof. eexists; repeat split; vm_compute; reflexivity. Qed.

(* validation order and "effective values, not layers":
   - `--first-ttl 0 --packet-size 5000` breaks two rules; the ttl rule comes first in the code;
   - the same two values written in the file give the same answer;
   - `first-ttl = 10` in the file with `--max-ttl 5` on the command line: each layer alone is fine (with the defaults
     1 and 64), the effective pair is not;
   - a deprecated key wins over everything *)
Example c16_rule_order_instances :
  build_config no_tz (args_ex t101 false false None None None (Some 0) None (Some 5000) None [] []) no_file root 4242 = CErr ETtl /\
  build_config no_tz no_args (file_ex None (Some 0) None (Some 5000)) root 4242 = CErr ETtl /\
  build_config no_tz (args_ex t101 false false None None None None (Some 5) None None [] []) (file_ex None (Some 10) None None) root 4242 = CErr ETtl /\
  (exists c, build_config no_tz (args_ex t101 false false None None None None (Some 5) None None [] []) no_file root 4242 = COk c) /\
  (exists c, build_config no_tz no_args (file_ex None (Some 10) None None) root 4242 = COk c) /\
  build_config no_tz (args_ex t101 false false None None None None None (Some 5000) None [] []) no_file root 4242 = CErr EPacketSize.
Proof. repeat split; try (eexists; vm_compute; reflexivity); vm_compute; reflexivity. Qed.

(* same_view is satisfiable by genuinely different inputs: `--first-ttl 3` on the command line against `first-ttl = 3`
   in the file *)
Example c16_same_view_instance :
  same_view (view_of (args_ex t101 false false None None None (Some 3) None None None [] []) no_file)
            (view_of no_args (file_ex None (Some 3) None None)).
Proof. constructor; try reflexivity. intros o; destruct o; reflexivity. Qed.

(* the builder's second refusal is real too: `--udp -R paris --initial-sequence 0` towards an IPv6 target *)
Definition v6_target : addr := [32; 1; 13; 184; 0; 0; 0; 0; 0; 0; 0; 0; 0; 0; 0; 1].
Example c16_cli_accepts_builder_rejects_paris6_zero :
  exists c, build_config no_tz (args_ex t101 true false None (Some MsParis) (Some 0) None None None None [] []) no_file root 4242 = COk c /\
    builder_accepts (start_tracer_cfg c v6_target 4242) = false /\
    builder_accepts (start_tracer_cfg c [10; 0; 0; 1] 4242) = true.
Proof. eexists; repeat split; vm_compute; reflexivity. Qed.

(* a builder-accepted configuration that can never send: first_ttl 5 > max_ttl 3 and max_inflight 0.  The run below
   (three rounds expire) publishes three empty rounds and returns success. *)
Definition idle_example : scfg := {|
  target_addr := [10; 0; 0; 1]; proto := Icmp; trace_identifier := 7; max_rounds := Some 3; first_ttl := 5; max_ttl := 3;
  grace_duration := 100; max_inflight := 0; initial_sequence := 33434; multipath := Classic; port_direction := PdNone;
  min_round_duration := 1000; max_round_duration := 1000 |}.
Definition idle_env : list iter_in :=
  map (fun t => {| i_clock := [t]; i_sends := [FatalS (EIo 9)]; i_recv := Timeout; i_update := t; i_advance := t |})
      [10; 1500; 1600; 2700; 4000; 9000].
Example c16_idle_instance :
  Accept idle_example /\ idle_cfg idle_example /\ ~ (first_ttl idle_example <= max_ttl idle_example) /\
  Forall (fun i => forall e, i_recv i <> FatalR e) idle_env /\ 3 <= Z.of_nat (count_expired idle_example 0 idle_env) /\
  let '(ev, o, sf) := run idle_example 0 idle_env in
  o = Finished /\ map rr_probes (pubs ev) = [[]; []; []] /\ ev_probes ev = [].
Proof.
  split; [split; [reflexivity|unfold cfg_wf, u8, u16; cbn; lia]|].
  split; [left; cbn; lia|]. split; [cbn; lia|].
  split; [repeat constructor; intros e; discriminate|].
  split; [vm_compute; discriminate|]. vm_compute. repeat split; reflexivity.
Qed.

(* the hypotheses of c16_accepted_runs / c16_accepted_runs_builder are satisfiable: `--udp -R paris -S 5000 -P 33000` with
   `first-ttl = 3` in the file (TUI mode: no round limit), and `--mode json` (round limit = the default report-cycles);
   the builder accepts both *)
Example c16_accepted_runs_instance :
  exists c, build_config no_tz udp_paris_args ttl3_file root 4242 = COk c /\
    args_in_range udp_paris_args /\ file_in_range ttl3_file /\ u16 4242 /\
    builder_accepts (start_tracer_cfg c [10; 0; 0; 1] 4242) = true /\ tc_max_rounds c = None /\
  exists c', build_config no_tz (args_ex t101 false false None None None None None None (Some MJson) [] []) no_file root 4242 = COk c' /\
    tc_max_rounds c' = Some 10 /\ builder_accepts (start_tracer_cfg c' [10; 0; 0; 1] 4242) = true.
Proof.
  eexists. split; [vm_compute; reflexivity|].
  split; [constructor; cbn; unfold u16, u8, nonneg; try exact I; lia|].
  split; [split; [constructor; cbn; unfold u16, u8, nonneg; try exact I; lia|exact I]|].
  split; [unfold u16; lia|]. split; [vm_compute; reflexivity|]. split; [vm_compute; reflexivity|].
  eexists. repeat split; vm_compute; reflexivity.
Qed.

(* ------------------------------------------------------------------ a configuration that is accepted and cannot run *)
(* F22 (repaired in /repo): `trip ::1 --source-address 127.0.0.1` (any IPv6 target with an IPv4 source address, or the
   reverse) was accepted by build_config AND by Builder::build; SourceAddr::validate only checks that the address can be
   bound, and Channel::connect then matched (source, target) on (V4, V4) | (V6, V6) and reached unreachable!() - a panic in
   the tracer thread once tracing had started.  Builder::build now refuses a source address of the other family
   (builder_accepts_src): the former witness is refused with a configuration error ... *)
Definition v6_loopback : addr := [0; 0; 0; 0; 0; 0; 0; 0; 0; 0; 0; 0; 0; 0; 0; 1].
Theorem c16_family_mismatch_refused :
  exists a f c, args_conflict a = false /\ build_config no_tz a f root 4242 = COk c /\
    builder_accepts (start_tracer_cfg c v6_loopback 4242) = true /\
    tc_source_addr c = Some [127; 0; 0; 1] /\
    builder_accepts_src (start_tracer_cfg c v6_loopback 4242) (tc_source_addr c) = false.
Proof.
  exists (args_ex [[58; 58; 49]] false false (Some [127; 0; 0; 1]) None None None None None None [] []), no_file.
  eexists. split; [reflexivity|]. split; [vm_compute; reflexivity|]. split; [vm_compute; reflexivity|].
  split; [reflexivity|]. vm_compute. reflexivity.
Qed.

(* ... and whatever the builder accepts with a source address has the family of the target, which is the hypothesis under
   which c16_channel_connect shows that Channel::connect returns the channel *)
Theorem c16_source_family : forall c tgt tid s,
  builder_accepts_src (start_tracer_cfg c tgt tid) (Some s) = true -> Types.is_v6 s = Types.is_v6 tgt.
Proof.
  intros c tgt tid s H. unfold builder_accepts_src in H. apply andb_prop in H. destruct H as [_ H].
  unfold source_family_ok in H. cbn [start_tracer_cfg target_addr] in H. apply Bool.eqb_prop in H. exact H.
Qed.

(* ---------------------------------------------------------------------------------------------- *)
(* WHICH FILE is layered under the command line (TrippyConfig::from, model Tui/FileChoice.v): the file named with
   -c / --config-file whenever one is named, whatever lies in the default locations; otherwise the first default
   location, in the documented order, that holds a file; otherwise the built-in defaults.  Tied to the code by the c16loc
   lines (real files in all 2^8 combinations of the eight default locations, with and without a named file). *)
From TV Require Import Tui.FileChoice Proofs.FileChoiceProofs.

Theorem c16_named_file_wins : forall (A : Type) (dflt f : A) locations, choose_file dflt (Some f) locations = f.
Proof. exact @named_file_wins. Qed.

Theorem c16_first_default_location : forall (A : Type) (dflt f : A) pre post,
  Forall (fun l => l = None) pre -> choose_file dflt None (pre ++ Some f :: post) = f.
Proof. exact @unnamed_takes_first_location. Qed.

Theorem c16_no_file_is_default : forall (A : Type) (dflt : A) locations,
  Forall (fun l => l = None) locations -> choose_file dflt None locations = dflt.
Proof. exact @nothing_found_is_default. Qed.

(* the source index the correspondence prints is that choice *)
Theorem c16_chosen_source_index : forall locations,
  chosen_source true locations = 0%nat /\
  let k := first_present_index locations 0 in
  chosen_source false locations = S k /\ (k <= length locations)%nat /\
  (forall j, (j < k)%nat -> nth j locations false = false) /\
  ((k < length locations)%nat -> nth k locations false = true).
Proof.
  intros locations. split; [reflexivity|]. cbv zeta. split; [reflexivity|].
  destruct (first_present_index_spec locations 0) as (R & B & T). cbv zeta in R, B, T.
  rewrite Nat.sub_0_r in B, T. cbn [plus] in R, T. split; [apply R|]. split; [exact B|exact T].
Qed.

Example c16_example_file_choice :
  choose_file 64 (Some 30) [None; Some 41; Some 42] = 30 /\ choose_file 64 None [None; Some 41; Some 42] = 41 /\
  choose_file 64 None [None; None] = 64.
Proof. repeat split. Qed.
