(* C17 - The terminal UI never crashes, whatever the trace, keys or window size.

   Model: TV.Tui.App (TuiApp's selection state machine as a function of the SHAPE of the trace data,
   the run_app frame prologue and key dispatch, the State accessors indexed by flow id), of the code
   after docs/integration/C17_fix_1..4.patch.

   PROVED here, for ALL histories: any interleaving, of any length, of data-shape changes (new
   rounds, clear, new flows, growing / shrinking paths: `OData t s` replaces the shape of tracer t by
   an arbitrary well-formed shape), calls of any TuiApp method, key events through the run_app
   dispatch and frames (prologue unless frozen, then the accessors the views evaluate) -
     * no step is a Fault (missing flow key, index out of bounds, usize underflow, unwrap on None);
     * after every step every selection index refers to an existing entry of the data on display.
   NOT proved (only executed by harness/htui on a ratatui TestBackend): that the drawing code as a
   whole - ratatui layout, widgets, chart, canvas, unicode width - neither panics nor hangs.  Terminal
   width and height therefore do not occur in these statements. *)
From TV Require Import Base.Result Tui.Privacy Tui.App Proofs.TuiAppProofs.
Import TuiPrivacy TuiApp.

(* The property statement in plain terms, independent of how Proofs/TuiAppProofs.v phrases its
   invariant: what "every selection refers to an entry that exists" means for an app state `a`
   displaying `data a`, with `nt` traces. *)
Definition selection_refers_to_existing_entries (nt : Z) (a : app) : Prop :=
  let s := a_sel a in let st := a_sett a in
  (* the selected trace is one of the traces *)
  0 <= trace_selected s < nt /\
  (* the selected flow is a key of the State map on display *)
  (exists hs, hops_for_flow (data a) (sel_flow s) = Ok hs /\
     (* the selected hop is a row of that flow, the selected hop address one of its addresses
        (index 0 when the hop has none; no address selected without a hop) *)
     match table_sel s with
     | Some i => exists h, 0 <= i /\ nth_error hs (Z.to_nat i) = Some h /\ 0 <= hop_addr s < Z.max 1 (hs_addrs h)
     | None => hop_addr s = 0
     end) /\
  (* while the flows are shown the selected flow is one of the bars, and every bar is a flow of the data *)
  (show_flows s = true -> In (sel_flow s) (map fst (flow_counts s))) /\
  (forall id, In id (map fst (flow_counts s)) -> exists hs, hops_for_flow (data a) id = Ok hs) /\
  (* the settings tab exists, the selected settings item is one of the items of that tab *)
  (exists n, nth_error settings_tabs (Z.to_nat (settings_tab st)) = Some n /\ 0 <= settings_tab st) /\
  match setting_sel st with
  | Some i => 0 <= i < (if settings_tab st =? SETTINGS_TAB_COLUMNS then zlen (columns st)
                        else nth (Z.to_nat (settings_tab st)) settings_tabs 0)
  | None => True
  end.

Theorem c17_valid_meaning : forall w a, valid w a -> selection_refers_to_existing_entries (zlen w) a.
Proof.
  intros w a (Hw & Hd & (Ht & (Hf & Hfc & Hsh) & Hh) & (Htab & Hc & Hsel)).
  unfold selection_refers_to_existing_entries. cbv zeta.
  split; [exact Ht|]. split.
  { destruct (has_flow_hops _ _ Hf) as [hs Hhs]. exists hs. split; [exact Hhs|].
    unfold hop_ok in Hh. destruct (table_sel (a_sel a)) as [i|]; [|exact Hh].
    destruct Hh as (hs' & h & Hhs' & Hi & Hn & Ha). rewrite Hhs in Hhs'. inversion Hhs'; subst hs'.
    exists h. split; [lia|]. split; [exact Hn|exact Ha]. }
  split; [exact Hsh|]. split.
  { intros id Hin. apply has_flow_hops. destruct Hd as (_ & Hreg & _). apply Hreg. apply Hfc. exact Hin. }
  split.
  { pose proof (settings_tabs_index _ Htab) as E. apply zindex_inv in E. destruct E as [_ E]. eexists. split; [exact E|lia]. }
  exact Hsel.
Qed.

(* Main theorem: TuiApp::new, the first frame, then ANY history.  Hypotheses: the environment
   assumption on the shapes trippy-core's State can have (wf_shape: flow 0 and every registered flow
   are in the map, registered ids are non-zero and include 1, at most max_flows of them, at most 254
   hops per flow - checked by the harness oracle on every observed State), at least one trace, at
   least one column, and show_settings_columns only ever called with a tab index 0..6 (op_wf). *)
Theorem c17_selection_valid : forall w cols p m mode asinfo sys ops,
  wf_traces w -> 0 < zlen cols -> Forall op_wf ops ->
  exists w' a', run (OFrame :: ops) w (tui_new cols p m mode asinfo sys) = Ok (w', a') /\
                valid w' a' /\ selection_refers_to_existing_entries (zlen w') a'.
Proof.
  intros w cols p m mode asinfo sys ops Hw Hc Ho.
  destruct (first_frame_ok w cols p m mode asinfo sys Hw Hc) as (a1 & Hf & V1).
  cbn [run step]. rewrite Hf. cbn [bind fst snd].
  destruct (run_ok ops w a1 V1 Ho) as (w' & a' & Hr & V'). exists w', a'.
  split; [exact Hr|]. split; [exact V'|]. apply c17_valid_meaning; exact V'.
Qed.

(* The same for every intermediate state: no step of the history is a fault (the trace has one
   entry per op, none of them a Fault) and every state on the way is valid. *)
Theorem c17_every_step : forall w cols p m mode asinfo sys ops,
  wf_traces w -> 0 < zlen cols -> Forall op_wf ops ->
  let tr := run_trace (OFrame :: ops) w (tui_new cols p m mode asinfo sys) in
  length tr = S (length ops) /\
  Forall (fun r => exists a', r = Ok a' /\ exists w', valid w' a' /\ selection_refers_to_existing_entries (zlen w') a') tr.
Proof.
  intros w cols p m mode asinfo sys ops Hw Hc Ho. cbv zeta.
  destruct (first_frame_ok w cols p m mode asinfo sys Hw Hc) as (a1 & Hf & V1).
  cbn [run_trace step]. rewrite Hf. cbn [bind fst snd].
  destruct (run_trace_ok ops w a1 V1 Ho) as [H1 H2].
  split; [simpl; congruence|].
  constructor.
  - exists a1. split; [reflexivity|]. exists w. split; [exact V1|apply c17_valid_meaning; exact V1].
  - eapply Forall_impl; [|exact H1]. intros r (a' & Hr & w' & V'). exists a'. split; [exact Hr|].
    exists w'. split; [exact V'|apply c17_valid_meaning; exact V'].
Qed.

(* One step from any valid state: nothing faults and validity is kept (the inductive core). *)
Theorem c17_step_preserves : forall o w a, valid w a -> op_wf o ->
  exists w' a', step o w a = Ok (w', a') /\ valid w' a'.
Proof. exact step_ok. Qed.

(* Drawing: none of the State / TuiApp accessors the views evaluate is a fault in a valid state,
   in particular `self.state[&flow_id]` always finds its key. *)
Theorem c17_draw_accessors_no_fault : forall w a, valid w a ->
  draw w a = Ok tt /\ (exists hs, hops_for_flow (data a) (sel_flow (a_sel a)) = Ok hs) /\
  (exists sh, selected_hop a = Ok sh) /\ selected_hop_or_target a = Ok tt.
Proof.
  intros w a V. split; [apply draw_ok; exact V|]. split.
  { destruct (valid_hops w a V) as (hs & H & _). eauto. }
  pose proof (valid_selected_hop w a V) as Hs.
  assert (selected_hop_or_target a = Ok tt) as E.
  { pose proof (draw_ok w a V) as D. unfold draw in D.
    destruct (hops_for_flow (data a) (sel_flow (a_sel a))); try discriminate. cbn [bind] in D.
    destruct (tracer_config w a); try discriminate. cbn [bind] in D.
    destruct (if sh_error (data a) then Ok tt else let* _ := hops (data a) in Ok tt); try discriminate. cbn [bind] in D.
    destruct (selected_hop a); try discriminate. cbn [bind] in D.
    destruct (selected_hop_or_target a) as [[]| |]; try discriminate. reflexivity. }
  split; [|exact E].
  destruct (table_sel (a_sel a)); [destruct Hs as (h & Hs & _)|]; eauto.
Qed.

(* The frame prologue alone re-establishes validity from much less than validity: whatever happened
   to the data since the last frame (flows gone, path shorter, hop with fewer addresses, trace
   cleared), a selection that is merely non-negative is clamped back onto existing entries. *)
Theorem c17_prologue_clamps : forall w a,
  wf_traces w -> 0 <= trace_selected (a_sel a) < zlen w -> sel_nonneg (a_sel a) ->
  (show_flows (a_sel a) = true -> sel_flow (a_sel a) <> 0) -> sett_inv (a_sett a) ->
  frozen (a_view a) = false ->
  exists a', frame w a = Ok a' /\ valid w a'.
Proof.
  intros w a Hw Ht Hn Hs Hst Hfz. apply frame_ok; auto. rewrite Hfz. intros C; discriminate C.
Qed.

(* ---- non-vacuity: the hypotheses are satisfiable and the model computes ---- *)

Definition ex_flow (id rc : Z) (addrs : list Z) : flow_shape :=
  mk_flow id rc (map (fun p => mk_hop (fst p) (snd p)) (combine addrs (map Z.of_nat (seq 1 (length addrs))))).
(* two flows of 3 and 6 hops under the default flow *)
Definition ex_shape : shape :=
  mk_shape 4 false [1; 2] [ex_flow 0 5 [1; 2; 1; 1; 0; 1]; ex_flow 1 3 [1; 1; 1]; ex_flow 2 2 [1; 1; 1; 1; 0; 1]].
Definition ex_cols : list (Z * bool) := [(104, true); (111, true); (108, false)].

Example ex_shape_wf : wf_shape ex_shape.
Proof.
  unfold wf_shape, has_flow, ex_shape. cbn [sh_flows sh_registry sh_max_flows].
  split; [eexists; reflexivity|]. split.
  { intros id [H|[H|[]]]; subst; (split; [eexists; reflexivity|lia]). }
  split; [unfold zlen; simpl; lia|]. split; [intros _; simpl; auto|].
  intros f x H. cbn [find_flow] in H.
  repeat match type of H with
  | (if ?c then _ else _) = _ => destruct c; [inversion H; subst; vm_compute; intros C; discriminate C|]
  end. discriminate H.
Qed.

Example ex_traces_wf : wf_traces [ex_shape].
Proof. split; [constructor; [exact ex_shape_wf|constructor]|unfold zlen; simpl; lia]. Qed.

(* a history through the repaired spots: last row of the long flow, freeze, switch to the short flow,
   draw; then clear the trace data while the flows are shown and draw again *)
Definition ex_ops : list op :=
  [OKey KPreviousHop; OFrame; OKey KToggleFreeze; OKey KToggleFlows; OFrame; OKey KToggleFreeze; OFrame;
   OMethod MClearTraceData; OFrame; OKey KNextHop; OKey KNextHopAddress; OFrame].

Example ex_ops_wf : Forall op_wf ex_ops.
Proof. repeat constructor. Qed.

Example ex_run :
  match run (OFrame :: ex_ops) [ex_shape] (tui_new ex_cols None None 0 false true) with
  | Ok (_, a) => table_sel (a_sel a) = None /\ sel_flow (a_sel a) = 0 /\ show_flows (a_sel a) = false
  | _ => False
  end.
Proof. vm_compute. repeat split. Qed.

(* ---- the defects the repairs remove, as computations on the pinned functions ---- *)

(* F10: flows shown (flow 1 selected), trace data cleared, next frame: `self.state[&flow_id]` has no key 1 *)
Example pinned_flows_then_clear_faults :
  let a := with_sel (with_data (tui_new ex_cols None None 0 false true) ex_shape)
                    (mk_sel 0 None 0 1 [(1, 3); (2, 2)] true) in
  prologue_pinned [clear_shape ex_shape] a = Fault MissingKey /\
  exists a', prologue [clear_shape ex_shape] a = Ok a' /\ sel_flow (a_sel a') = 0.
Proof. cbv zeta. split; [vm_compute; reflexivity|]. eexists. split; [vm_compute; reflexivity|reflexivity]. Qed.

(* a selected row and a trace that lost all its hops: `hop_count - 1` underflows *)
Example pinned_clamp_on_empty_trace_faults :
  let a := with_sel (with_data (tui_new ex_cols None None 0 false true) ex_shape)
                    (mk_sel 0 (Some 2) 0 0 [] false) in
  prologue_pinned [clear_shape ex_shape] a = Fault Underflow.
Proof. vm_compute. reflexivity. Qed.

(* frozen display, row 5 of flow 0 selected, flows toggled on: flow 1 has 3 rows and nothing clamps *)
Example pinned_toggle_flows_leaves_stale_row :
  let a := with_sel (with_data (tui_new ex_cols None None 0 false true) ex_shape)
                    (mk_sel 0 (Some 5) 0 0 [(1, 3); (2, 2)] false) in
  (exists a', toggle_flows_pinned [ex_shape] a = Ok a' /\ draw [ex_shape] a' = Fault OutOfBounds) /\
  (exists a', toggle_flows [ex_shape] a = Ok a' /\ draw [ex_shape] a' = Ok tt /\ table_sel (a_sel a') = Some 2).
Proof.
  cbv zeta. split; eexists; (split; [vm_compute; reflexivity|]); [vm_compute; reflexivity|].
  split; vm_compute; reflexivity.
Qed.

(* next_hop_address on a hop that never answered (row 4 of flow 0 has no address): `addr_count() - 1` *)
Example pinned_next_hop_address_faults :
  let a := with_sel (with_data (tui_new ex_cols None None 0 false true) ex_shape)
                    (mk_sel 0 (Some 4) 0 0 [] false) in
  next_hop_address_pinned a = Fault Underflow /\ next_hop_address a = Ok a.
Proof. cbv zeta. split; vm_compute; reflexivity. Qed.

(* ==================================================================================================
   Extensions: the environment assumption discharged against the core State model, the full
   interleaving statement over `Cmd | Data` events, every index expression spelt out, what a frame
   displays, the divisor of the chart, and the limits (`..._refuted`).

   New proof files: Proofs/TuiShapeOfState.v (shape of a core State, reachable States),
   Proofs/TuiFrameLemmas.v (what each command / key / frame leaves untouched),
   Proofs/TuiInterleave.v (events, interleavings, display), Proofs/TuiHostsProofs.v (max_addrs and
   the row-height clamp; uses the NEW model file Tui/Views.v, which is not part of the extracted
   model run by the harness).
   ================================================================================================== *)
From TV Require Import Core.Types Core.State Tui.Views
  Proofs.StateProofs Proofs.TuiShapeOfState Proofs.TuiFrameLemmas Proofs.TuiInterleave Proofs.TuiHostsProofs.

(* ---- the data underneath: what trippy-core guarantees, proved instead of assumed ---- *)

(* Every State a tracer can hold - State::new, then published rounds (update_from_round; rounds of the
   form the strategy publishes, wf_round: c10_strategy_rounds_wf), Tracer::clear and set_error in any
   order - has a shape (`hops()` of every flow never faults) and that shape satisfies wf_shape: flow 0
   and every registered flow are keys of the `state` map, registered ids are 1, 2, .. and at most
   max_flows of them, no flow shows more than 254 hops.  This is the hypothesis `op_wf (OData t s)`
   of the theorems above; it is no longer an assumption about trippy-core. *)
Theorem c17_core_state_shape_wf : forall ms mf s, 0 <= mf -> reach ms mf s ->
  exists d, shape_of_state s = Ok d /\ wf_shape d.
Proof. exact reach_shape_wf. Qed.

(* ... and State::update_from_round itself never panics on such a State (`self.state[..]`, the hop
   vector index, FlowRegistry::register), whatever well-formed round comes next. *)
Theorem c17_core_round_never_faults : forall ms mf s r, 0 <= mf -> reach ms mf s -> wf_round r ->
  exists s', update_from_round s r = Ok s' /\ reach ms mf s'.
Proof. exact reach_round_total. Qed.

(* Growing / shrinking paths: a published round never removes a row from any flow (the window
   lowest_ttl..highest_ttl only widens), so between two frames the number of rows of the selected flow
   can only shrink through Tracer::clear, a flow switch or a trace switch - the three places where the
   code clamps. hop_count_of is the number of rows the shape has for that flow. *)
Theorem c17_rounds_only_grow_paths : forall ms mf s r s', 0 <= mf -> reach ms mf s -> wf_round r ->
  update_from_round s r = Ok s' -> forall id, hop_count_of s id <= hop_count_of s' id.
Proof. exact reach_count_mono. Qed.

Theorem c17_shape_rows_are_hop_count : forall ms mf s d id hs, 0 <= mf -> reach ms mf s -> shape_of_state s = Ok d ->
  TuiApp.hops_for_flow d id = Ok hs -> TuiApp.zlen hs = hop_count_of s id.
Proof. exact reach_shape_hop_count. Qed.

(* Tracer::clear (State::new again) gives exactly the shape the model's clear_trace_data writes into
   the world, and set_error only flips the error flag (the bsod view) of the shape. *)
Theorem c17_clear_and_error_shapes :
  (forall ms mf d, TuiApp.sh_max_flows d = mf -> shape_of_state (state_new ms mf) = Ok (TuiApp.clear_shape d)) /\
  (forall s e d, shape_of_state s = Ok d ->
     shape_of_state (set_error s e) =
       Ok (TuiApp.mk_shape (TuiApp.sh_max_flows d) (match e with Some _ => true | None => false end)
             (TuiApp.sh_registry d) (TuiApp.sh_flows d))).
Proof. split; [exact shape_of_state_new|exact shape_of_set_error]. Qed.

(* The world the TUI starts with - one snapshot per tracer, each of a reachable State - is well formed. *)
Theorem c17_initial_world : forall (ss : list state) (w : traces),
  Forall2 (fun s d => core_state s /\ shape_of_state s = Ok d) ss w -> ss <> [] -> wf_traces w.
Proof. exact world_of_states_wf. Qed.

(* ---- the full interleaving statement ---- *)

(* Events: `Cmd k` = key k goes through the run_app dispatch; `Data t s` = the State of tracer t is now
   s (ANY State the core can reach: new rounds, clear, growing path, new flows, failure), followed by
   what the loop does next: prologue (snapshot, clamp_selected_flow, clamp_selected_hop,
   update_order_flow_counts) unless frozen, and draw.  From TuiApp::new and the first frame, for EVERY
   finite interleaving of such events: no event is a fault (one Ok entry per event in ev_trace), Sel
   (`valid`) holds after the first frame and after every event, and so at the end of the run. *)
Theorem c17_interleaving : forall w cols p m mode asinfo sys evs,
  wf_traces w -> 0 < zlen cols -> Forall ev_ok evs ->
  exists a1, frame w (tui_new cols p m mode asinfo sys) = Ok a1 /\ valid w a1 /\
    length (ev_trace evs w a1) = length evs /\
    Forall (fun r => exists w' a', r = Ok (w', a') /\ valid w' a') (ev_trace evs w a1) /\
    exists w' a', run (OFrame :: flat_map ev_ops evs) w (tui_new cols p m mode asinfo sys) = Ok (w', a') /\ valid w' a'.
Proof. exact interleaving_ok. Qed.

(* The inductive step: one event (command, or data change + frame) from any state satisfying Sel. *)
Theorem c17_event_preserves : forall e w a, valid w a -> ev_ok e ->
  exists w' a', run (ev_ops e) w a = Ok (w', a') /\ valid w' a' /\ selection_refers_to_existing_entries (zlen w') a'.
Proof.
  intros e w a V H. destruct (ev_step_ok e w a V H) as (w' & a' & E & V'). exists w', a'.
  split; [exact E|]. split; [exact V'|apply c17_valid_meaning; exact V'].
Qed.

(* Every index expression of tui_app.rs / columns.rs, one by one, under Sel: trace_info[trace_selected];
   the `state` map lookup of the selected flow; hops[selected] and `hop_count - 1`; the selected hop
   address below addr_count (or 0); find_position().unwrap(), `flow_counts.len() - 1`,
   flow_counts[cur + 1] / [cur - 1] and the flow behind them; `trace_info.len() - 1`,
   `trace_selected - 1`; settings_tabs()[tab], `tabs.len() - 1`, the item count of the tab and the
   selected item below it; Columns::toggle / move_down / move_up and `count - 1`. *)
Theorem c17_index_arithmetic : forall w a, valid w a ->
  (exists d, tracer_config w a = Ok d) /\
  (exists hs, hops_for_flow (data a) (sel_flow (a_sel a)) = Ok hs /\
     (forall i, table_sel (a_sel a) = Some i ->
        (exists h, zindex i hs = Ok h /\ 0 <= hop_addr (a_sel a) < Z.max 1 (hs_addrs h)) /\
        sub_w (zlen hs) 1 = Ok (zlen hs - 1) /\ 0 <= i <= zlen hs - 1)) /\
  (show_flows (a_sel a) = true ->
     exists cur, find_position (flow_counts (a_sel a)) (sel_flow (a_sel a)) 0 = Ok cur /\
       0 <= cur < zlen (flow_counts (a_sel a)) /\
       sub_w (zlen (flow_counts (a_sel a))) 1 = Ok (zlen (flow_counts (a_sel a)) - 1) /\
       (cur < zlen (flow_counts (a_sel a)) - 1 ->
          exists e, zindex (cur + 1) (flow_counts (a_sel a)) = Ok e /\ has_flow (data a) (fst e)) /\
       (cur > 0 -> sub_w cur 1 = Ok (cur - 1) /\
          exists e, zindex (cur - 1) (flow_counts (a_sel a)) = Ok e /\ has_flow (data a) (fst e))) /\
  (sub_w (zlen w) 1 = Ok (zlen w - 1) /\
   (trace_selected (a_sel a) > 0 -> sub_w (trace_selected (a_sel a)) 1 = Ok (trace_selected (a_sel a) - 1))) /\
  (exists n, get_settings_items_count a = Ok n /\ 0 < n /\
     zindex (settings_tab (a_sett a)) settings_tabs = Ok (nth (Z.to_nat (settings_tab (a_sett a))) settings_tabs 0) /\
     sub_w (zlen settings_tabs) 1 = Ok 6 /\
     (forall s, setting_sel (a_sett a) = Some s -> 0 <= s < n)) /\
  (settings_tab (a_sett a) = SETTINGS_TAB_COLUMNS -> forall s, setting_sel (a_sett a) = Some s ->
     (exists c, zindex s (columns (a_sett a)) = Ok c) /\
     sub_w (zlen (columns (a_sett a))) 1 = Ok (zlen (columns (a_sett a)) - 1) /\
     (s < zlen (columns (a_sett a)) - 1 -> exists c, columns_move_down (columns (a_sett a)) s = Ok c /\ zlen c = zlen (columns (a_sett a))) /\
     (s > 0 -> exists c, columns_move_up (columns (a_sett a)) s = Ok c /\ zlen c = zlen (columns (a_sett a)))).
Proof. exact valid_index_arithmetic. Qed.

(* ---- what is displayed ---- *)

(* A frame that is not frozen displays exactly the current State of the selected trace
   (trace_info[trace_selected].data.snapshot()), and the flow bars are exactly its registered flows -
   none dropped by `take(max_flows)`, none invented - each with the round count of its flow. *)
Theorem c17_frame_displays_selected_trace : forall w a a', valid w a -> frame w a = Ok a' -> frozen (a_view a) = false ->
  zindex (trace_selected (a_sel a')) w = Ok (data a') /\
  Permutation.Permutation (map fst (flow_counts (a_sel a'))) (sh_registry (data a')) /\
  Forall (fun pr => round_count (data a') (fst pr) = Ok (snd pr)) (flow_counts (a_sel a')).
Proof. exact frame_display. Qed.

(* A frozen frame changes nothing: neither the snapshot nor any selection. *)
Theorem c17_frozen_frame_changes_nothing : forall w a a', frame w a = Ok a' -> frozen (a_view a) = true -> a' = a.
Proof. exact frame_frozen. Qed.

(* chart.rs computes `max_samples() / zoom_factor`: from TuiApp::new, along ANY history (no validity
   needed) the zoom factor stays within 1..16, so the division is never by zero. *)
Theorem c17_zoom_factor_positive : forall ops w cols p m mode asinfo sys w' a',
  run ops w (tui_new cols p m mode asinfo sys) = Ok (w', a') -> 1 <= zoom (a_view a') <= 16.
Proof. exact run_zoom_new. Qed.

(* ---- limits ---- *)

(* Sel is an invariant of the pair (application, SNAPSHOT it displays).  Relative to the LIVE data of
   the tracer it does not survive a data event: row 2 selected, the trace is cleared - the selected row
   does not exist in the tracer's State any more, while the app, which only ever indexes its snapshot,
   is still valid; the next frame re-clamps (selection None on the cleared data).  Any code path that
   indexed live tracer data with TuiApp's indices would be a defect; the model has none. *)
Theorem c17_live_data_refuted :
  exists (w : traces) (a : app) (d : shape),
    valid w a /\ wf_shape d /\ table_sel (a_sel a) = Some 2 /\
    valid (upd_nth 0 d w) a /\ ~ hop_ok d (a_sel a) /\
    exists a', frame (upd_nth 0 d w) a = Ok a' /\ data a' = d /\ table_sel (a_sel a') = None /\ valid (upd_nth 0 d w) a'.
Proof. exact live_data_counterexample. Qed.

(* "The data being displayed is that of the selected trace" is false while frozen: freeze, next_trace,
   frame - trace_selected is 1 (header, tabs and settings dialog show trace 1) but the hop table still
   shows the frozen snapshot of trace 0.  No index is invalid (Sel holds, nothing panics); recorded as
   an observation about the freeze feature, not as a crash. *)
Theorem c17_frozen_trace_switch_refuted :
  exists (w : traces) (ops : list op) (w' : traces) (a' : app),
    wf_traces w /\ Forall op_wf ops /\ run (OFrame :: ops) w lv_new = Ok (w', a') /\ valid w' a' /\
    trace_selected (a_sel a') = 1 /\ frozen (a_view a') = true /\
    zindex 0 w' = Ok (data a') /\ zindex (trace_selected (a_sel a')) w' <> Ok (data a').
Proof. exact frozen_trace_switch_counterexample. Qed.

(* table.rs: the height of a row is `hop.addr_count().clamp(1, max_addr)`, and Ord::clamp panics for
   max_addr = 0.  Along EVERY history (commands and data in any order, any States) max_addrs is never Some 0
   and no row height faults (host_rows: model Tui/Views.v).  Before the repair F21 this needed the assumption
   that each flow that shows hops shows one with an address - which the strategy does NOT guarantee: after the
   target distance is known it keeps reporting the carried path length while nothing answers, and a clear
   during the outage leaves hops without any address; `expand_hosts_max` then stored max_hosts() = Some(0)
   and the first hop to answer made the frame panic in clamp(1, 0) (shown on the real code, corpus/C17). *)
Theorem c17_max_addrs_never_zero : forall ops w a w' a', run ops w a = Ok (w', a') -> hosts_inv a ->
  hosts_inv a' /\ max_addrs (a_view a') <> Some 0 /\
  forall h, exists n, TuiViews.host_rows (cfg_of a') h = Ok n /\ 1 <= n.
Proof. exact run_hosts_ok. Qed.

(* the former counterexample after the repair: a State showing only hops that never answered, the
   `expand_hosts_max` key: max_addrs stays None (no maximum while no hop has an address) and every row has a height *)
Theorem c17_max_addrs_silent_hops :
  exists w ops w' a', wf_traces w /\ Forall op_wf ops /\
    run (OFrame :: ops) w (tui_new [(104, true)] None None 0 false true) = Ok (w', a') /\ valid w' a' /\
    max_addrs (a_view a') = None /\
    forall h, exists n, TuiViews.host_rows (cfg_of a') h = Ok n /\ 1 <= n.
Proof. exact expand_hosts_max_silent. Qed.

(* ---- non-vacuity of the extensions ---- *)

(* a reachable core State (one published round: three hops, the second silent), its shape, and an
   interleaving over it: data, keys, clear, data again *)
Example c17_ex_core_state : core_state lv_state /\ wf_round ex_round /\ answered lv_shape.
Proof.
  split; [exact lv_state_core|]. split; [exact ex_round_wf|].
  assert (EQ : lv_shape = mk_shape 4 false [1] [mk_flow 0 1 [mk_hop 1 1; mk_hop 0 2; mk_hop 1 3]; mk_flow 1 1 [mk_hop 1 1; mk_hop 0 2; mk_hop 1 3]])
    by (vm_compute; reflexivity).
  rewrite EQ. intros f hs H Hne. unfold hops_for_flow in H. cbn [sh_flows find_flow fs_id] in H.
  destruct (0 =? f); [cbn in H; inversion H; subst; exists (mk_hop 1 1); split; [left; reflexivity|cbn; lia]|].
  destruct (1 =? f); [cbn in H; inversion H; subst; exists (mk_hop 1 1); split; [left; reflexivity|cbn; lia]|].
  discriminate H.
Qed.

Definition c17_ex_events : list ev :=
  [Data 0 lv_state; Cmd KNextHop; Cmd KNextHop; Cmd KToggleHopDetails; Cmd KNextHopAddress;
   Data 0 (state_new 10 4); Cmd KPreviousHop; Data 0 lv_state; Cmd KToggleFlows; Cmd KNextTrace; Cmd KClearTraceData].

Example c17_ex_events_ok : Forall ev_ok c17_ex_events.
Proof.
  assert (core_state (state_new 10 4)) as C by (exists 10, 4; split; [lia|apply reach_new]).
  unfold c17_ex_events. repeat (apply Forall_cons; [first [exact lv_state_core|exact C|exact I]|]). apply Forall_nil.
Qed.

Example c17_ex_events_run :
  match run (OFrame :: flat_map ev_ops c17_ex_events) [lv_clear] lv_new with
  | Ok (_, a) => table_sel (a_sel a) = None /\ show_flows (a_sel a) = true /\ sel_flow (a_sel a) = 1
  | _ => False
  end.
Proof. vm_compute. repeat split. Qed.
