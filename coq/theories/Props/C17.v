(* C17 - The terminal UI never crashes, whatever the trace, keys or window size.

   Model: TV.Tui.App (TuiApp's selection state machine as a function of the SHAPE of the trace data,
   the run_app frame prologue and key dispatch, the State accessors indexed by flow id), of the code
   after docs/integration/C17_fix_1..4.patch.

   PROVED here, for ALL histories: any interleaving, of any length, of data-shape changes (new
   rounds, clear, new flows, growing / shrinking paths: `OData t s` replaces the shape of tracer t by
   an arbitrary well-formed shape), calls of any TuiApp method, key events through the run_app
   dispatch and frames (prologue unless frozen, then the accessors the views evaluate) -
     * no step is a Fault (missing flow key, index out of bounds, usize underflow, unwrap on None);
     * after every step every selection index refers to an existing entry of the data on display.
   NOT proved (only executed by harness/htui on a ratatui TestBackend): that the drawing code as a
   whole - ratatui layout, widgets, chart, canvas, unicode width - neither panics nor hangs.  Terminal
   width and height therefore do not occur in these statements. *)
From TV Require Import Base.Result Tui.Privacy Tui.App Proofs.TuiAppProofs.
Import TuiPrivacy TuiApp.

(* The property statement in plain terms, independent of how Proofs/TuiAppProofs.v phrases its
   invariant: what "every selection refers to an entry that exists" means for an app state `a`
   displaying `data a`, with `nt` traces. *)
Definition selection_refers_to_existing_entries (nt : Z) (a : app) : Prop :=
  let s := a_sel a in let st := a_sett a in
  (* the selected trace is one of the traces *)
  0 <= trace_selected s < nt /\
  (* the selected flow is a key of the State map on display *)
  (exists hs, hops_for_flow (data a) (sel_flow s) = Ok hs /\
     (* the selected hop is a row of that flow, the selected hop address one of its addresses
        (index 0 when the hop has none; no address selected without a hop) *)
     match table_sel s with
     | Some i => exists h, 0 <= i /\ nth_error hs (Z.to_nat i) = Some h /\ 0 <= hop_addr s < Z.max 1 (hs_addrs h)
     | None => hop_addr s = 0
     end) /\
  (* while the flows are shown the selected flow is one of the bars, and every bar is a flow of the data *)
  (show_flows s = true -> In (sel_flow s) (map fst (flow_counts s))) /\
  (forall id, In id (map fst (flow_counts s)) -> exists hs, hops_for_flow (data a) id = Ok hs) /\
  (* the settings tab exists, the selected settings item is one of the items of that tab *)
  (exists n, nth_error settings_tabs (Z.to_nat (settings_tab st)) = Some n /\ 0 <= settings_tab st) /\
  match setting_sel st with
  | Some i => 0 <= i < (if settings_tab st =? SETTINGS_TAB_COLUMNS then zlen (columns st)
                        else nth (Z.to_nat (settings_tab st)) settings_tabs 0)
  | None => True
  end.

Theorem c17_valid_meaning : forall w a, valid w a -> selection_refers_to_existing_entries (zlen w) a.
Proof.
  intros w a (Hw & Hd & (Ht & (Hf & Hfc & Hsh) & Hh) & (Htab & Hc & Hsel)).
  unfold selection_refers_to_existing_entries. cbv zeta.
  split; [exact Ht|]. split.
  { destruct (has_flow_hops _ _ Hf) as [hs Hhs]. exists hs. split; [exact Hhs|].
    unfold hop_ok in Hh. destruct (table_sel (a_sel a)) as [i|]; [|exact Hh].
    destruct Hh as (hs' & h & Hhs' & Hi & Hn & Ha). rewrite Hhs in Hhs'. inversion Hhs'; subst hs'.
    exists h. split; [lia|]. split; [exact Hn|exact Ha]. }
  split; [exact Hsh|]. split.
  { intros id Hin. apply has_flow_hops. destruct Hd as (_ & Hreg & _). apply Hreg. apply Hfc. exact Hin. }
  split.
  { pose proof (settings_tabs_index _ Htab) as E. apply zindex_inv in E. destruct E as [_ E]. eexists. split; [exact E|lia]. }
  exact Hsel.
Qed.

(* Main theorem: TuiApp::new, the first frame, then ANY history.  Hypotheses: the environment
   assumption on the shapes trippy-core's State can have (wf_shape: flow 0 and every registered flow
   are in the map, registered ids are non-zero and include 1, at most max_flows of them, at most 254
   hops per flow - checked by the harness oracle on every observed State), at least one trace, at
   least one column, and show_settings_columns only ever called with a tab index 0..6 (op_wf). *)
Theorem c17_selection_valid : forall w cols p m mode asinfo sys ops,
  wf_traces w -> 0 < zlen cols -> Forall op_wf ops ->
  exists w' a', run (OFrame :: ops) w (tui_new cols p m mode asinfo sys) = Ok (w', a') /\
                valid w' a' /\ selection_refers_to_existing_entries (zlen w') a'.
Proof.
  intros w cols p m mode asinfo sys ops Hw Hc Ho.
  destruct (first_frame_ok w cols p m mode asinfo sys Hw Hc) as (a1 & Hf & V1).
  cbn [run step]. rewrite Hf. cbn [bind fst snd].
  destruct (run_ok ops w a1 V1 Ho) as (w' & a' & Hr & V'). exists w', a'.
  split; [exact Hr|]. split; [exact V'|]. apply c17_valid_meaning; exact V'.
Qed.

(* The same for every intermediate state: no step of the history is a fault (the trace has one
   entry per op, none of them a Fault) and every state on the way is valid. *)
Theorem c17_every_step : forall w cols p m mode asinfo sys ops,
  wf_traces w -> 0 < zlen cols -> Forall op_wf ops ->
  let tr := run_trace (OFrame :: ops) w (tui_new cols p m mode asinfo sys) in
  length tr = S (length ops) /\
  Forall (fun r => exists a', r = Ok a' /\ exists w', valid w' a' /\ selection_refers_to_existing_entries (zlen w') a') tr.
Proof.
  intros w cols p m mode asinfo sys ops Hw Hc Ho. cbv zeta.
  destruct (first_frame_ok w cols p m mode asinfo sys Hw Hc) as (a1 & Hf & V1).
  cbn [run_trace step]. rewrite Hf. cbn [bind fst snd].
  destruct (run_trace_ok ops w a1 V1 Ho) as [H1 H2].
  split; [simpl; congruence|].
  constructor.
  - exists a1. split; [reflexivity|]. exists w. split; [exact V1|apply c17_valid_meaning; exact V1].
  - eapply Forall_impl; [|exact H1]. intros r (a' & Hr & w' & V'). exists a'. split; [exact Hr|].
    exists w'. split; [exact V'|apply c17_valid_meaning; exact V'].
Qed.

(* One step from any valid state: nothing faults and validity is kept (the inductive core). *)
Theorem c17_step_preserves : forall o w a, valid w a -> op_wf o ->
  exists w' a', step o w a = Ok (w', a') /\ valid w' a'.
Proof. exact step_ok. Qed.

(* Drawing: none of the State / TuiApp accessors the views evaluate is a fault in a valid state,
   in particular `self.state[&flow_id]` always finds its key. *)
Theorem c17_draw_accessors_no_fault : forall w a, valid w a ->
  draw w a = Ok tt /\ (exists hs, hops_for_flow (data a) (sel_flow (a_sel a)) = Ok hs) /\
  (exists sh, selected_hop a = Ok sh) /\ selected_hop_or_target a = Ok tt.
Proof.
  intros w a V. split; [apply draw_ok; exact V|]. split.
  { destruct (valid_hops w a V) as (hs & H & _). eauto. }
  pose proof (valid_selected_hop w a V) as Hs.
  assert (selected_hop_or_target a = Ok tt) as E.
  { pose proof (draw_ok w a V) as D. unfold draw in D.
    destruct (hops_for_flow (data a) (sel_flow (a_sel a))); try discriminate. cbn [bind] in D.
    destruct (tracer_config w a); try discriminate. cbn [bind] in D.
    destruct (if sh_error (data a) then Ok tt else let* _ := hops (data a) in Ok tt); try discriminate. cbn [bind] in D.
    destruct (selected_hop a); try discriminate. cbn [bind] in D.
    destruct (selected_hop_or_target a) as [[]| |]; try discriminate. reflexivity. }
  split; [|exact E].
  destruct (table_sel (a_sel a)); [destruct Hs as (h & Hs & _)|]; eauto.
Qed.

(* The frame prologue alone re-establishes validity from much less than validity: whatever happened
   to the data since the last frame (flows gone, path shorter, hop with fewer addresses, trace
   cleared), a selection that is merely non-negative is clamped back onto existing entries. *)
Theorem c17_prologue_clamps : forall w a,
  wf_traces w -> 0 <= trace_selected (a_sel a) < zlen w -> sel_nonneg (a_sel a) ->
  (show_flows (a_sel a) = true -> sel_flow (a_sel a) <> 0) -> sett_inv (a_sett a) ->
  frozen (a_view a) = false ->
  exists a', frame w a = Ok a' /\ valid w a'.
Proof.
  intros w a Hw Ht Hn Hs Hst Hfz. apply frame_ok; auto. rewrite Hfz. intros C; discriminate C.
Qed.

(* ---- non-vacuity: the hypotheses are satisfiable and the model computes ---- *)

Definition ex_flow (id rc : Z) (addrs : list Z) : flow_shape :=
  mk_flow id rc (map (fun p => mk_hop (fst p) (snd p)) (combine addrs (map Z.of_nat (seq 1 (length addrs))))).
(* two flows of 3 and 6 hops under the default flow *)
Definition ex_shape : shape :=
  mk_shape 4 false [1; 2] [ex_flow 0 5 [1; 2; 1; 1; 0; 1]; ex_flow 1 3 [1; 1; 1]; ex_flow 2 2 [1; 1; 1; 1; 0; 1]].
Definition ex_cols : list (Z * bool) := [(104, true); (111, true); (108, false)].

Example ex_shape_wf : wf_shape ex_shape.
Proof.
  unfold wf_shape, has_flow, ex_shape. cbn [sh_flows sh_registry sh_max_flows].
  split; [eexists; reflexivity|]. split.
  { intros id [H|[H|[]]]; subst; (split; [eexists; reflexivity|lia]). }
  split; [unfold zlen; simpl; lia|]. split; [intros _; simpl; auto|].
  intros f x H. cbn [find_flow] in H.
  repeat match type of H with
  | (if ?c then _ else _) = _ => destruct c; [inversion H; subst; vm_compute; intros C; discriminate C|]
  end. discriminate H.
Qed.

Example ex_traces_wf : wf_traces [ex_shape].
Proof. split; [constructor; [exact ex_shape_wf|constructor]|unfold zlen; simpl; lia]. Qed.

(* a history through the repaired spots: last row of the long flow, freeze, switch to the short flow,
   draw; then clear the trace data while the flows are shown and draw again *)
Definition ex_ops : list op :=
  [OKey KPreviousHop; OFrame; OKey KToggleFreeze; OKey KToggleFlows; OFrame; OKey KToggleFreeze; OFrame;
   OMethod MClearTraceData; OFrame; OKey KNextHop; OKey KNextHopAddress; OFrame].

Example ex_ops_wf : Forall op_wf ex_ops.
Proof. repeat constructor. Qed.

Example ex_run :
  match run (OFrame :: ex_ops) [ex_shape] (tui_new ex_cols None None 0 false true) with
  | Ok (_, a) => table_sel (a_sel a) = None /\ sel_flow (a_sel a) = 0 /\ show_flows (a_sel a) = false
  | _ => False
  end.
Proof. vm_compute. repeat split. Qed.

(* ---- the defects the repairs remove, as computations on the pinned functions ---- *)

(* F10: flows shown (flow 1 selected), trace data cleared, next frame: `self.state[&flow_id]` has no key 1 *)
Example pinned_flows_then_clear_faults :
  let a := with_sel (with_data (tui_new ex_cols None None 0 false true) ex_shape)
                    (mk_sel 0 None 0 1 [(1, 3); (2, 2)] true) in
  prologue_pinned [clear_shape ex_shape] a = Fault MissingKey /\
  exists a', prologue [clear_shape ex_shape] a = Ok a' /\ sel_flow (a_sel a') = 0.
Proof. cbv zeta. split; [vm_compute; reflexivity|]. eexists. split; [vm_compute; reflexivity|reflexivity]. Qed.

(* a selected row and a trace that lost all its hops: `hop_count - 1` underflows *)
Example pinned_clamp_on_empty_trace_faults :
  let a := with_sel (with_data (tui_new ex_cols None None 0 false true) ex_shape)
                    (mk_sel 0 (Some 2) 0 0 [] false) in
  prologue_pinned [clear_shape ex_shape] a = Fault Underflow.
Proof. vm_compute. reflexivity. Qed.

(* frozen display, row 5 of flow 0 selected, flows toggled on: flow 1 has 3 rows and nothing clamps *)
Example pinned_toggle_flows_leaves_stale_row :
  let a := with_sel (with_data (tui_new ex_cols None None 0 false true) ex_shape)
                    (mk_sel 0 (Some 5) 0 0 [(1, 3); (2, 2)] false) in
  (exists a', toggle_flows_pinned [ex_shape] a = Ok a' /\ draw [ex_shape] a' = Fault OutOfBounds) /\
  (exists a', toggle_flows [ex_shape] a = Ok a' /\ draw [ex_shape] a' = Ok tt /\ table_sel (a_sel a') = Some 2).
Proof.
  cbv zeta. split; eexists; (split; [vm_compute; reflexivity|]); [vm_compute; reflexivity|].
  split; vm_compute; reflexivity.
Qed.

(* next_hop_address on a hop that never answered (row 4 of flow 0 has no address): `addr_count() - 1` *)
Example pinned_next_hop_address_faults :
  let a := with_sel (with_data (tui_new ex_cols None None 0 false true) ex_shape)
                    (mk_sel 0 (Some 4) 0 0 [] false) in
  next_hop_address_pinned a = Fault Underflow /\ next_hop_address a = Ok a.
Proof. cbv zeta. split; vm_compute; reflexivity. Qed.
