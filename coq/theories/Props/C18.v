(* C18 - Hop privacy: hidden hops never reach the screen.

   Model: TV.Tui.Privacy - the privacy comparison `privacy_max_ttl >= Some(hop.ttl())` with Rust's
   Option ordering, the decision each view makes with it (Host cell of the hop table with and
   without details, map pin filter, map info panel, source and destination in the header) and
   expand_privacy / contract_privacy.

   PROVED here: every one of these decisions picks the placeholder for a hop with ttl <= n whatever
   the hop's address / hostname / AS / GeoIP strings are (the normal branch `fmt`, which is what
   prints them, is an ARBITRARY function and is not evaluated), picks the normal branch above n, the
   source is hidden iff privacy is on; expand / contract move n by exactly one along
   off, 0, 1, .., hop_count and never leave that range.
   NOT proved (only executed by harness/htui: sentinel strings searched in the TestBackend cells of
   every view): that no OTHER code path of the drawing code writes such strings into the frame. *)
From Coq Require Import ZifyBool.
From TV Require Import Base.Result Tui.Privacy Proofs.TuiPrivacyProofs.
Import TuiPrivacy.

(* Hidden hops.  Two hops that differ only in what can be printed about them (h_info: address,
   reverse-DNS names, AS, GeoIP, ...) get the same text from every view, and that text is the
   placeholder - for every formatting function fmt of the normal branch. *)
Theorem c18_decision_hidden : forall (I T : Type) (n : Z) (fmt : hop I -> T) (h1 h2 : hop I),
  h_ttl h1 = h_ttl h2 -> h_total_recv h1 = h_total_recv h2 -> h_ttl h1 <= n ->
  render_hostname (Some n) fmt h1 = render_hostname (Some n) fmt h2 /\
  render_hostname_with_details (Some n) fmt h1 = render_hostname_with_details (Some n) fmt h2 /\
  render_map_info_panel (Some n) fmt h1 = render_map_info_panel (Some n) fmt h2 /\
  render_map_info_panel (Some n) fmt h1 = Hidden /\
  (0 < h_total_recv h1 ->
     render_hostname (Some n) fmt h1 = Hidden /\ render_hostname_with_details (Some n) fmt h1 = Hidden) /\
  (h_total_recv h1 <= 0 ->
     render_hostname (Some n) fmt h1 = NoResponse /\ render_hostname_with_details (Some n) fmt h1 = NoResponse).
Proof.
  intros I T n fmt h1 h2 Et Er Hn.
  unfold render_hostname, render_hostname_with_details, render_map_info_panel.
  rewrite <- Et, <- Er, hidden_some.
  destruct (h_ttl h1 <=? n) eqn:E; [|lia].
  destruct (h_total_recv h1 >? 0) eqn:R; repeat split; auto; intros; try lia.
Qed.

(* Hops above n (and every hop when privacy is off) are rendered by the normal branch. *)
Theorem c18_decision_shown : forall (I T : Type) (p : option Z) (fmt : hop I -> T) (h : hop I),
  (p = None \/ exists n, p = Some n /\ n < h_ttl h) ->
  render_map_info_panel p fmt h = Shown (fmt h) /\
  (0 < h_total_recv h ->
     render_hostname p fmt h = Shown (fmt h) /\ render_hostname_with_details p fmt h = Shown (fmt h)).
Proof.
  intros I T p fmt h Hp.
  assert (hidden p (h_ttl h) = false) as Hh.
  { destruct Hp as [E|(n & E & L)]; subst p; [reflexivity|]. rewrite hidden_some. destruct (h_ttl h <=? n) eqn:E; [lia|reflexivity]. }
  unfold render_hostname, render_hostname_with_details, render_map_info_panel. rewrite Hh.
  split; [reflexivity|]. intros R. destruct (h_total_recv h >? 0) eqn:E; [split; reflexivity|lia].
Qed.

(* The comparison itself is the one the property states: hidden iff privacy is Some n and ttl <= n. *)
Theorem c18_hidden_iff : forall p ttl, hidden p ttl = true <-> exists n, p = Some n /\ ttl <= n.
Proof. exact hidden_iff. Qed.

(* Map: a location gets no pin, radius or selection box when all its hops are hidden, and gets
   them as soon as one of its hops is visible. *)
Theorem c18_map_pins : forall n hs,
  ((forall t, In t hs -> t <= n) -> map_pin_shown (Some n) hs = false) /\
  (forall t, In t hs -> n < t -> map_pin_shown (Some n) hs = true) /\
  (hs <> [] -> map_pin_shown None hs = true).
Proof.
  intros n hs. split; [apply map_pin_shown_false|]. split.
  - intros t Hin Hlt. apply (map_pin_shown_true (Some n) hs t Hin). rewrite hidden_some. destruct (t <=? n) eqn:E; [lia|reflexivity].
  - destruct hs as [|t r]; [congruence|]. intros _. apply (map_pin_shown_true None (t :: r) t); [left|]; reflexivity.
Qed.

(* Header: the source is hidden iff privacy is on (at any value, including 0). *)
Theorem c18_source : forall (T : Type) (p : option Z) (src : T),
  (p <> None -> render_source p src = Hidden) /\ (p = None -> render_source p src = Shown src).
Proof. intros T [n|] src; cbn; split; intros H; congruence. Qed.

(* expand / contract: exactly one step on the scale off(-1), 0, 1, .., never a fault, expand stops at
   the hop count, contract stops at off. *)
Theorem c18_steps : forall hop_count p,
  0 <= hop_count <= 254 -> (forall n, p = Some n -> 0 <= n) ->
  (exists q, expand_privacy_step hop_count p = Ok q /\
     (level p < hop_count -> level q = level p + 1) /\ (hop_count <= level p -> q = p) /\ q <> None) /\
  (0 <= level p -> level (contract_privacy_step p) = level p - 1) /\
  (p = None -> contract_privacy_step p = None).
Proof.
  intros hc p Hhc Hn. split.
  - apply expand_step_spec. lia.
  - destruct (contract_step_spec p Hn) as (H1 & H2 & _). split; assumption.
Qed.

(* ... and never outside: along any sequence of expand / contract commands, with hop counts that may
   change between the commands but stay within H, every value reached lies on off, 0, .., H. *)
Theorem c18_steps_range : forall H steps p,
  H <= 254 -> Forall (pstep_ok H) steps -> -1 <= level p <= H -> (forall n, p = Some n -> 0 <= n) ->
  exists r, privacy_walk steps p = Ok r /\ length r = length steps /\ Forall (fun q => -1 <= level q <= H) r.
Proof. exact privacy_walk_range. Qed.

(* Known limit of the feature (recorded finding, not repaired): the destination in the header has no
   privacy branch, so when the target hop itself is within the hidden range its address is on screen. *)
Theorem c18_destination_refuted : exists (n ttl : Z),
  hidden (Some n) ttl = true /\ forall (T : Type) (dest : T), render_destination (Some n) dest = Shown dest.
Proof. exists 5, 5. split; reflexivity. Qed.

(* ---- non-vacuity ---- *)
Example ex_hidden : render_hostname (Some 3) (fun h : hop Z => h_info h) (mk_hop_view 2 7 1234) = Hidden.
Proof. reflexivity. Qed.
Example ex_shown : render_hostname (Some 3) (fun h : hop Z => h_info h) (mk_hop_view 4 7 1234) = Shown 1234.
Proof. reflexivity. Qed.
Example ex_zero_hides_source_only :
  render_source (Some 0) 99 = Hidden /\ render_hostname (Some 0) (fun h : hop Z => h_info h) (mk_hop_view 1 1 5) = Shown 5.
Proof. split; reflexivity. Qed.
Example ex_walk : privacy_walk [PExpand 2; PExpand 2; PExpand 2; PExpand 2; PContract; PContract; PContract; PContract; PContract] None
  = Ok [Some 0; Some 1; Some 2; Some 2; Some 1; Some 0; None; None; None].
Proof. reflexivity. Qed.

(* ==================================================================================================
   Extensions.

   (a) What reaches the screen, view by view: Tui/Views.v (its table and map parts are by now extracted and
       compared with the real frames, see part (c) at the end) renders a whole frame - header, tabs | flows, bsod |
       splash | chart | map | hop table (with the detail lines of the selected row), history and
       frequency titles, info bar, settings | help - as a list of fragments tagged with what they were
       computed from (literal; address / host names / AS / GeoIP of the hop with ttl t; map location
       printed for hop t; source; target of trace i).  The privacy decisions inside it are the
       functions of Tui/Privacy.v above; Views.v supplies what their normal branches print, in every
       address / AS / GeoIP mode, for every resolver and GeoIP answer.
   (b) How the level moves along histories of the application model Tui/App.v.
   New proof files: Proofs/TuiViewsProofs.v, Proofs/TuiPrivacyHistory.v, Proofs/TuiFrameLemmas.v.
   ================================================================================================== *)
From TV Require Import Tui.Views Tui.App Proofs.TuiAppProofs Proofs.TuiFrameLemmas Proofs.TuiViewsProofs Proofs.TuiPrivacyHistory.
Import TuiViews.

(* ---- (a) frames ---- *)

(* For EVERY application state (any view, any selection, any hop list, any configuration, any resolver
   and GeoIP answers) with privacy ttl n in force: no fragment of the frame is the address, a host
   name, the AS info or GeoIP data (table cell, detail line, map info panel) of a hop with ttl <= n,
   and the source is not on screen.  (The target - header and tab titles - is outside the claim: F18.) *)
Theorem c18_frame_no_hidden_hop_data : forall st fr mk n, render st = Ok (fr, mk) -> c_privacy (s_cfg st) = Some n ->
  (forall f t, In f fr -> frag_ttl f = Some t -> n < t) /\ ~ In FSrc fr.
Proof. exact render_no_hidden_hop_data. Qed.

(* The same for any privacy value, as one predicate on fragments: literals and targets always, the
   source only with privacy off, hop data only of hops that are not hidden. *)
Theorem c18_frame_admissible : forall st fr mk, render st = Ok (fr, mk) -> frags_ok (c_privacy (s_cfg st)) fr.
Proof. exact render_ok. Qed.

(* Row by row: the text of a table row - Host cell by render_hostname, or the seven detail lines of
   render_hostname_with_details when the row is selected in detail mode - is admissible, whatever the
   selected hop address index, address mode, max_addrs, DNS and GeoIP answers are. *)
Theorem c18_table_row_admissible : forall st sel h r, table_row st sel h = Ok r -> frags_ok (c_privacy (s_cfg st)) (fst r).
Proof. exact table_row_ok. Qed.

(* The map info panel (title "Hop n", location, or "no data for hop n (addresses)") likewise. *)
Theorem c18_map_info_admissible : forall c es sel, frags_ok (c_privacy c) (map_info c es sel).
Proof. exact map_info_ok. Qed.

(* Map markers: every pin, accuracy circle and selection box of a frame belongs to a location at which
   at least one VISIBLE hop is; a location all of whose hops are hidden leaves no mark at all. *)
Theorem c18_map_marks_visible_location : forall st fr mk m, render st = Ok (fr, mk) -> In m mk ->
  exists name ts, In (name, ts) (build_map_entries (s_cfg st) (s_hops st)) /\
    (exists t, In t ts /\ hidden (c_privacy (s_cfg st)) t = false) /\
    (m = MPin name \/ m = MRadius name \/ exists t, m = MSelBox name t).
Proof. exact render_marks. Qed.

Theorem c18_map_hidden_location_no_mark : forall c name ts sel_ttl,
  (forall t, In t ts -> hidden (c_privacy c) t = true) -> map_marks c [(name, ts)] sel_ttl = [].
Proof. exact map_marks_hidden_entry. Qed.

(* REFUTED: "no marker is drawn FOR a hidden hop".  Hops 2 and 5 are geolocated at the same place,
   privacy ttl 3, hop 2 selected, map shown: the location has a visible hop (5), so its pin is drawn -
   and render_map_canvas_selected draws the selection rectangle around it because the SELECTED hop (2,
   hidden) is one of the location's hops.  Together with the panel title "Hop 2" the frame tells where
   GeoIP puts the hidden hop 2.  world.rs tests `entry.hops.contains(selected_hop.ttl())` without a
   privacy test.  Candidate finding (graphical, not text: the sentinel search of the harness cannot see it). *)
Theorem c18_map_selection_box_refuted :
  exists st fr mk name t, render st = Ok (fr, mk) /\ In (MSelBox name t) mk /\ hidden (c_privacy (s_cfg st)) t = true /\
    In (name, [t; 5]) (build_map_entries (s_cfg st) (s_hops st)).
Proof. exact map_selection_box_leak. Qed.

(* Hops beyond the limit are drawn exactly as without privacy: the whole table row (text and height),
   the map info panel, and the marks of a location with a hop beyond the limit. *)
Theorem c18_row_beyond_limit_unchanged : forall st sel h n, n < h_ttl h ->
  table_row (st_with_privacy st (Some n)) sel h = table_row (st_with_privacy st None) sel h.
Proof. exact table_row_above. Qed.

Theorem c18_map_beyond_limit_unchanged :
  (forall c es sel n, n < h_ttl sel -> map_info (with_privacy c (Some n)) es sel = map_info (with_privacy c None) es sel) /\
  (forall c name ts sel_ttl n t, In t ts -> n < t ->
     map_marks (with_privacy c (Some n)) [(name, ts)] sel_ttl = map_marks (with_privacy c None) [(name, ts)] sel_ttl).
Proof. split; [exact map_info_above|exact map_marks_above]. Qed.

(* A hidden row does not depend on the hidden hop's addresses at all - neither its text nor its
   HEIGHT (1, or 7 for the selected row in detail mode), so the number of addresses does not leak
   through the layout either. *)
Theorem c18_hidden_row_independent : forall st sel h1 h2,
  h_ttl h1 = h_ttl h2 -> h_total_recv h1 = h_total_recv h2 -> hidden (c_privacy (s_cfg st)) (h_ttl h1) = true ->
  table_row st sel h1 = table_row st sel h2 /\
  (0 < h_total_recv h1 -> forall r, table_row st sel h1 = Ok r ->
     snd r = (if match sel with Some s => h_ttl s =? h_ttl h1 | None => false end && s_details st then 7 else 1)).
Proof. exact table_row_hidden_independent. Qed.

(* ---- (b) the level along histories of the application ---- *)

(* The code has no configuration switch for the privacy keys; what it defines is: the level moves only
   by expand_privacy / contract_privacy - called directly, or through their two keys while neither the
   help nor the settings dialog is open.  Along any history none of whose ops is such an op in the state
   where it is executed (all other keys and methods, data changes, frames) the level stays as it was. *)
Theorem c18_level_moves_only_by_privacy_ops : forall ops w a w' a', TuiApp.run ops w a = Ok (w', a') ->
  run_no_privacy_op ops w a -> TuiApp.privacy (TuiApp.a_view a') = TuiApp.privacy (TuiApp.a_view a).
Proof. exact run_privacy. Qed.

Theorem c18_dialog_blocks_privacy_keys : forall k w a w' a',
  (TuiApp.show_help (TuiApp.a_view a) = true \/ TuiApp.show_settings (TuiApp.a_view a) = true) ->
  TuiApp.handle_key k w a = Ok (w', a') -> TuiApp.privacy (TuiApp.a_view a') = TuiApp.privacy (TuiApp.a_view a).
Proof. exact key_dialog_keeps_privacy. Qed.

(* In the main view the two keys are exactly the step functions of c18_steps, with the hop count of
   the flow on display (at most 254, so `privacy_max_ttl + 1` cannot overflow) - nothing else changes. *)
Theorem c18_keys_are_the_step_functions : forall w a, valid w a ->
  TuiApp.show_help (TuiApp.a_view a) = false -> TuiApp.show_settings (TuiApp.a_view a) = false ->
  (exists hs q, TuiApp.hops_for_flow (TuiApp.data a) (TuiApp.sel_flow (TuiApp.a_sel a)) = Ok hs /\ TuiApp.zlen hs <= 254 /\
     expand_privacy_step (TuiApp.zlen hs) (TuiApp.privacy (TuiApp.a_view a)) = Ok q /\
     TuiApp.handle_key TuiApp.KExpandPrivacy w a = Ok (w, TuiApp.with_view a (TuiApp.set_privacy (TuiApp.a_view a) q))) /\
  TuiApp.handle_key TuiApp.KContractPrivacy w a =
    Ok (w, TuiApp.with_view a (TuiApp.set_privacy (TuiApp.a_view a) (contract_privacy_step (TuiApp.privacy (TuiApp.a_view a))))).
Proof.
  intros w a V Hh Hs. split; [apply key_expand_privacy; assumption|apply key_contract_privacy; assumption].
Qed.

(* Along EVERY history (data changes, keys, methods, frames) the level stays a u8: between 0 and
   max(start value, 254) whenever it is on. *)
Theorem c18_level_stays_u8 : forall B ops w a w' a', valid w a -> Forall op_wf ops -> TuiApp.run ops w a = Ok (w', a') ->
  priv_inv B a -> priv_inv B a'.
Proof. exact run_priv_inv. Qed.

(* What is hidden grows with the level and is a prefix of the table: expand only hides more, contract
   only reveals more, and a hop is never hidden while a nearer one is shown. *)
Theorem c18_hidden_monotone :
  (forall p q t, level p <= level q -> (forall n, p = Some n -> 0 <= n) -> hidden p t = true -> hidden q t = true) /\
  (forall p t t', hidden p t = true -> t' <= t -> hidden p t' = true) /\
  (forall hc p q t, expand_privacy_step hc p = Ok q -> hidden p t = true -> hidden q t = true) /\
  (forall p t, hidden (contract_privacy_step p) t = true -> hidden p t = true).
Proof.
  split; [exact hidden_monotone|]. split; [exact hidden_prefix|]. split; [exact expand_hides_more|exact contract_reveals_more].
Qed.

(* The keyboard stops at the hop COUNT: however often the keys are pressed while the flow shows hc
   hops, a hop whose ttl is above hc is never hidden. *)
Theorem c18_keyboard_limit_is_hop_count : forall hc steps, 0 <= hc <= 254 -> Forall (pstep_ok hc) steps ->
  exists r, privacy_walk steps None = Ok r /\ length r = length steps /\
    Forall (fun q => forall t, hc < t -> hidden q t = false) r.
Proof. exact walk_never_above_count. Qed.

(* REFUTED: "the keyboard can hide every displayed hop".  With --first-ttl 3 the table shows ttl 3, 4, 5:
   three hops, expand stops at 3, and the hops with ttl 4 and 5 - the far end of the path, the target
   included - can never be hidden from the keyboard (only --tui-privacy-max-ttl can).  expand_privacy
   compares the level with hops.len() instead of the highest ttl shown.  Observation, not a leak. *)
Theorem c18_first_ttl_tail_refuted :
  exists first_ttl hc ttl, 1 < first_ttl /\ first_ttl <= ttl < first_ttl + hc /\
    forall steps, Forall (pstep_ok hc) steps ->
      exists r, privacy_walk steps None = Ok r /\ Forall (fun q => hidden q ttl = false) r.
Proof. exact first_ttl_tail_never_hidden. Qed.

(* ---- non-vacuity of the extensions ---- *)

(* a frame of the hop table (columns #, Host, Loss%): hop 2 hidden, hop 5 printed *)
Example c18_ex_table_frame :
  table_view (ex_table_state (Some 3)) =
    Ok [FLit 1; FLit 0; FLit 2;  FLit 1; FLit L_HIDDEN; FLit 2;  FLit 1; FAddr 5 51; FLit 2].
Proof. exact ex_table_frame. Qed.

(* the whole frame of the map view renders, hides the source, prints the target *)
Example c18_ex_map_frame :
  match render (ex_map_state (Some 3)) with
  | Ok (fr, mk) => In (FDest 0) fr /\ In (FLit L_HIDDEN) fr /\ mk = [MPin 7; MRadius 7; MSelBox 7 2]
  | _ => False
  end.
Proof. vm_compute. split; [|split]; auto 10. Qed.

(* a history of the application in which the level moves only at the privacy keys *)
Example c18_ex_history :
  match TuiApp.run [TuiApp.OFrame; TuiApp.OKey TuiApp.KExpandPrivacy; TuiApp.OKey TuiApp.KExpandPrivacy; TuiApp.OKey TuiApp.KToggleHelp;
                    TuiApp.OKey TuiApp.KExpandPrivacy; TuiApp.OKey TuiApp.KToggleHelp; TuiApp.OKey TuiApp.KContractPrivacy]
          [TuiApp.mk_shape 1 false [] [TuiApp.mk_flow 0 1 [TuiApp.mk_hop 1 1; TuiApp.mk_hop 1 2]]]
          (TuiApp.tui_new [(104, true)] None None 0 false true) with
  | Ok (_, a) => TuiApp.privacy (TuiApp.a_view a) = Some 0
  | _ => False
  end.
Proof. vm_compute. reflexivity. Qed.

(* ==================================================================================================
   (c) The TEXT of the frames.  Tui/Views.v is now part of the extracted model: the Host cell of every
       table row (render_hostname, format_address, format_dns_entry, render_hostname_with_details,
       format_details / fmt_details_line) with its row height, and the info panel of the map
       (build_map_entries, render_map_info_panel), are computed by TuiFrames.frame_body (Tui/Frames.v)
       from the state of the application model Tui/App.v and compared TEXT FOR TEXT with reference
       screens of the real TuiApp after every frame of every c18 scenario (harness/htui/src/m_c18.rs
       `text_reference`, ocaml/d_tui.ml `frame_text`).  A fragment stands for a definite piece of text
       (the renderer of the correspondence, `txt` in d_tui.ml, is a function of the fragment alone).
       Lemmas: Proofs/TuiViewsText.v.
   ================================================================================================== *)
From TV Require Import Tui.Frames Proofs.TuiViewsText.

(* Whatever the strings of the hidden hops are.  `txt1` and `txt2` are two renderers of fragments into
   characters - two worlds in which IP addresses, host names, AS and GeoIP data (and, with privacy on, the
   source) are different strings for the hops with ttl <= n, and the same strings for everything else.
   The text of the WHOLE frame (every view) is the same in both worlds: the frame tells nothing about
   those strings. *)
Theorem c18_frame_text_independent_of_hidden_strings : forall (S : Type) st fr mk (txt1 txt2 : frag -> list S),
  render st = Ok (fr, mk) -> (forall f, frag_ok (c_privacy (s_cfg st)) f -> txt1 f = txt2 f) ->
  text_of txt1 fr = text_of txt2 fr.
Proof. exact render_text_independent. Qed.

(* The same, cell by cell, for what the correspondence reads off the real frames: the text of the Host
   cell of every row of the hop table, the title and text of the map's info panel (and the chart). *)
Theorem c18_cell_text_independent_of_hidden_strings : forall (S : Type) st b (txt1 txt2 : frag -> list S),
  body_struct st = Ok b -> (forall f, frag_ok (c_privacy (s_cfg st)) f -> txt1 f = txt2 f) ->
  match b with
  | BTable rows => map (fun r => text_of txt1 (fst r)) rows = map (fun r => text_of txt2 (fst r)) rows
  | BMap info _ => text_of txt1 info = text_of txt2 info
  | BChart t => text_of txt1 t = text_of txt2 t
  | _ => True
  end.
Proof. exact body_text_independent. Qed.

(* The structured body that is extracted and compared with the real frames (which view; the rows one by
   one with their heights; the panel) is the body that `render` - the function the theorems of part (a)
   are about - puts into the frame: body.rs transcribed once, seen twice. *)
Theorem c18_compared_body_is_the_body_of_render : forall st,
  body_view st = let* b := body_struct st in Ok (body_flat (s_cols st) b).
Proof. exact body_view_struct. Qed.

(* A reference screen computed from ANY state of the application model (whatever the keys, methods, data
   changes and frames before did to address mode, AS info, max_addrs, hop details, selection, flows),
   with any override of the display settings, any resolver / GeoIP answers and any hop data: every row
   of the table, the map panel, the chart are admissible for the privacy level the APPLICATION has -
   no override of a display setting gets around it. *)
Theorem c18_reference_screen_admissible : forall a nt o d hops target b,
  TuiFrames.frame_body a nt o d hops target = Ok b -> body_ok (TuiApp.privacy (TuiApp.a_view a)) b.
Proof. exact frame_body_ok. Qed.

(* ... and the hop data such a screen is computed from is the data of that state: the hops of the flow on
   display, row for row with the ttl and the number of addresses the application model keeps (otherwise
   frame_body refuses), under the application's privacy level. *)
Theorem c18_reference_screen_data_fits_the_state : forall a nt o d hops target st,
  TuiFrames.vstate_of_app a nt o d hops target = Ok st ->
  c_privacy (s_cfg st) = TuiApp.privacy (TuiApp.a_view a) /\ s_hops st = hops /\
  exists sh, TuiApp.hops_for_flow (TuiApp.data a) (TuiApp.sel_flow (TuiApp.a_sel a)) = Ok sh /\
    Forall2 (fun s h => TuiApp.hs_ttl s = h_ttl h /\ TuiApp.hs_addrs s = zlen (h_info h)) sh hops.
Proof.
  intros a nt o d hops target st H. destruct (vstate_of_app_inv _ _ _ _ _ _ _ H) as (Hp & Hh & _ & sh & Hs & Ha).
  split; [exact Hp|]. split; [exact Hh|]. exists sh. split; [exact Hs|apply hops_agree_spec; exact Ha].
Qed.

(* A hidden row is the placeholder and NOTHING else: one fragment, one line, row height 1 - with or
   without hop details, in every address / AS / GeoIP mode, for every max_addrs, whatever the resolver
   and the GeoIP lookup answer; a hop that never answered prints "No response" the same way. *)
Theorem c18_hidden_row_is_the_placeholder : forall c h o,
  (0 < h_total_recv h -> hidden (c_privacy c) (h_ttl h) = true ->
     host_cell c h = [FLit L_HIDDEN] /\ host_cell_details c h o = [FLit L_HIDDEN] /\ host_rows c h = Ok 1) /\
  (h_total_recv h <= 0 ->
     host_cell c h = [FLit L_NO_RESPONSE] /\ host_cell_details c h o = [FLit L_NO_RESPONSE] /\ host_rows c h = Ok 1).
Proof. intros c h o. split; [apply hidden_row_text|apply silent_row_text]. Qed.

(* The info panel of the map for a hidden hop: the title "Hop n" and the placeholder - nothing of the map
   entries, the hop's addresses, the GeoIP configuration. *)
Theorem c18_hidden_panel_is_the_placeholder : forall c es sel, hidden (c_privacy c) (h_ttl sel) = true ->
  map_info c es sel = [FLit L_HOP; FLit L_SP; FNum (h_ttl sel); FLit L_NL; FLit L_HIDDEN].
Proof. exact hidden_panel_text. Qed.

(* The "Target: source -> destination" line of the header, computed from any state of the application
   model (it is drawn on every screen, also the error and the splash screen): with privacy on - at any
   level, 0 included - the source is the placeholder; with privacy off the source is printed.  The
   destination is printed in both (F18). *)
Theorem c18_target_line : forall a,
  (TuiApp.privacy (TuiApp.a_view a) <> None ->
     TuiFrames.frame_target_line a = [FLit L_TARGET; FLit L_COLON; FLit L_HIDDEN; FLit L_ARROW; FDest (TuiApp.trace_selected (TuiApp.a_sel a))]) /\
  (TuiApp.privacy (TuiApp.a_view a) = None ->
     TuiFrames.frame_target_line a = [FLit L_TARGET; FLit L_COLON; FSrc; FLit L_ARROW; FDest (TuiApp.trace_selected (TuiApp.a_sel a))]).
Proof. exact target_line_text. Qed.

(* The Host cell has exactly as many text lines as render_hostname makes the row high (a hidden row: 1 and
   1): no line is clipped and no line of a neighbouring row can show through.  For a visible responding
   hop this needs what trippy-core guarantees (at least one address, at most 255 - the u8 clamp) and that
   the sort is a permutation. *)
Theorem c18_cell_lines_eq_row_height : forall c h n,
  (0 < h_total_recv h -> hidden (c_privacy c) (h_ttl h) = false -> 1 <= zlen (h_info h) <= 255) ->
  (forall l, length (c_order c l) = length l) ->
  host_rows c h = Ok n -> nlines (host_cell c h) = n.
Proof. exact host_cell_lines_eq_height. Qed.

(* The detail cell (row height 7) has its 7 lines, or a single one (placeholder, "No response", a failed or
   timed-out lookup, a stale address index): never more than the row is high. *)
Theorem c18_detail_cell_lines : forall c h o,
  nlines (host_cell_details c h o) = 7 \/ nlines (host_cell_details c h o) = 1.
Proof. exact host_cell_details_lines. Qed.

(* Raising the level never makes more text admissible: what may be on screen at a stricter level may be
   on screen at every laxer one. *)
Theorem c18_admissible_monotone : forall p q l, level p <= level q -> (forall n, p = Some n -> 0 <= n) ->
  frags_ok q l -> frags_ok p l.
Proof. exact frags_ok_mono. Qed.

(* "Hops above n are shown normally": every address render_hostname selects for a visible responding hop
   is on screen, by its IP address or by its host name, in every address mode. *)
Theorem c18_visible_row_names_its_addresses : forall c h af,
  0 < h_total_recv h -> hidden (c_privacy c) (h_ttl h) = false -> In af (shown_addrs c h) ->
  In (FAddr (h_ttl h) (fst af)) (host_cell c h) \/ In (FHost (h_ttl h) (fst af)) (host_cell c h).
Proof. exact visible_row_names_every_shown_address. Qed.

(* The hop table as a whole (every row's text and height, faults included) is a function of the VISIBLE
   hops' data: replace the addresses and counts of every hidden hop by anything else (also more or
   fewer addresses) - the rows are the same, whichever row is selected, with or without hop details. *)
Theorem c18_table_is_a_function_of_the_visible_hops : forall st hs1 hs2,
  Forall2 (same_visible (c_privacy (s_cfg st))) hs1 hs2 ->
  table_rows (with_hops st hs1) = table_rows (with_hops st hs2).
Proof. exact table_rows_same_visible. Qed.

(* The keys move the placeholder by one row: after expand_privacy (below the hop count) the responding
   row with ttl = old level + 1 - and every nearer one - is the one-line placeholder; after
   contract_privacy the row with ttl = old level is drawn by the normal branch again. *)
Theorem c18_keys_move_the_placeholder :
  (forall hc p q c h o, expand_privacy_step hc p = Ok q -> level p < hc -> (forall n, p = Some n -> 0 <= n) ->
     c_privacy c = q -> h_ttl h <= level p + 1 -> 0 < h_total_recv h ->
     host_cell c h = [FLit L_HIDDEN] /\ host_cell_details c h o = [FLit L_HIDDEN] /\ host_rows c h = Ok 1) /\
  (forall p c h, 0 <= level p -> c_privacy c = contract_privacy_step p -> level p <= h_ttl h -> 0 < h_total_recv h ->
     host_cell c h = host_lines c h).
Proof. split; [exact expand_hides_next_row|exact contract_reveals_last_row]. Qed.

(* ---- non-vacuity of part (c) ---- *)

(* rows as the correspondence sees them: hop 2 hidden; hop 4 with two addresses (host name in front of the
   address, GeoIP short name, frequencies), two lines, height 2 *)
Example c18_ex_text_rows :
  table_rows (mk_vstate (ex_text_cfg (Some 3)) [COL_HOST] [mk_hop_view 2 4 [(21, 4)]; mk_hop_view 4 4 [(41, 3); (42, 1)]] None 0
                (mk_hop_view 4 4 [(41, 3); (42, 1)]) false false false false false false false false 1 0 []) =
  Ok [([FLit L_HIDDEN], 1);
      ([FAs 4 41 AS_TABLE; FLit L_SP; FHost 4 41; FLit L_LPAR; FAddr 4 41; FLit L_RPAR; FLit L_LBR; FGeo 4 41 1; FLit L_RBR; FLit L_LBR; FPct 3 4; FLit L_RBR;
        FLit L_NL;
        FAddr 4 42; FLit L_LPAR; FAddr 4 42; FLit L_RPAR; FLit L_LBR; FPct 1 4; FLit L_RBR], 2)].
Proof. exact ex_text_rows. Qed.

(* two renderers that print different strings for the hidden hops and agree on everything admissible *)
Example c18_ex_renderers_agree : forall f, frag_ok (Some 3) f -> ex_txt 111 f = ex_txt 222 f.
Proof. exact ex_txt_agree. Qed.

(* a reference screen computed from a state of the application model (privacy 3, row 1 selected, details on) *)
Example c18_ex_reference_screen :
  match TuiFrames.frame_body ex_app 1 ex_oracle ex_draw [mk_hop_view 2 4 [(21, 4)]; mk_hop_view 4 4 [(41, 3); (42, 1)]] (mk_hop_view 4 4 [(41, 3); (42, 1)]) with
  | Ok (BTable [(r1, 1); (r2, 7)]) => r1 = [FLit L_HIDDEN] /\ nlines r2 = 7
  | _ => False
  end.
Proof. vm_compute. split; reflexivity. Qed.

(* hidden hops answering from other addresses: the same table *)
Example c18_ex_same_visible :
  Forall2 (same_visible (Some 3)) [mk_hop_view 2 4 [(21, 4)]; mk_hop_view 4 4 [(41, 3); (42, 1)]]
                                  [mk_hop_view 2 4 [(22, 1); (23, 3)]; mk_hop_view 4 4 [(41, 3); (42, 1)]].
Proof. exact ex_same_visible. Qed.
