(* C18 - Hop privacy: hidden hops never reach the screen.

   Model: TV.Tui.Privacy - the privacy comparison `privacy_max_ttl >= Some(hop.ttl())` with Rust's
   Option ordering, the decision each view makes with it (Host cell of the hop table with and
   without details, map pin filter, map info panel, source and destination in the header) and
   expand_privacy / contract_privacy.

   PROVED here: every one of these decisions picks the placeholder for a hop with ttl <= n whatever
   the hop's address / hostname / AS / GeoIP strings are (the normal branch `fmt`, which is what
   prints them, is an ARBITRARY function and is not evaluated), picks the normal branch above n, the
   source is hidden iff privacy is on; expand / contract move n by exactly one along
   off, 0, 1, .., hop_count and never leave that range.
   NOT proved (only executed by harness/htui: sentinel strings searched in the TestBackend cells of
   every view): that no OTHER code path of the drawing code writes such strings into the frame. *)
From Coq Require Import ZifyBool.
From TV Require Import Base.Result Tui.Privacy Proofs.TuiPrivacyProofs.
Import TuiPrivacy.

(* Hidden hops.  Two hops that differ only in what can be printed about them (h_info: address,
   reverse-DNS names, AS, GeoIP, ...) get the same text from every view, and that text is the
   placeholder - for every formatting function fmt of the normal branch. *)
Theorem c18_decision_hidden : forall (I T : Type) (n : Z) (fmt : hop I -> T) (h1 h2 : hop I),
  h_ttl h1 = h_ttl h2 -> h_total_recv h1 = h_total_recv h2 -> h_ttl h1 <= n ->
  render_hostname (Some n) fmt h1 = render_hostname (Some n) fmt h2 /\
  render_hostname_with_details (Some n) fmt h1 = render_hostname_with_details (Some n) fmt h2 /\
  render_map_info_panel (Some n) fmt h1 = render_map_info_panel (Some n) fmt h2 /\
  render_map_info_panel (Some n) fmt h1 = Hidden /\
  (0 < h_total_recv h1 ->
     render_hostname (Some n) fmt h1 = Hidden /\ render_hostname_with_details (Some n) fmt h1 = Hidden) /\
  (h_total_recv h1 <= 0 ->
     render_hostname (Some n) fmt h1 = NoResponse /\ render_hostname_with_details (Some n) fmt h1 = NoResponse).
Proof.
  intros I T n fmt h1 h2 Et Er Hn.
  unfold render_hostname, render_hostname_with_details, render_map_info_panel.
  rewrite <- Et, <- Er, hidden_some.
  destruct (h_ttl h1 <=? n) eqn:E; [|lia].
  destruct (h_total_recv h1 >? 0) eqn:R; repeat split; auto; intros; try lia.
Qed.

(* Hops above n (and every hop when privacy is off) are rendered by the normal branch. *)
Theorem c18_decision_shown : forall (I T : Type) (p : option Z) (fmt : hop I -> T) (h : hop I),
  (p = None \/ exists n, p = Some n /\ n < h_ttl h) ->
  render_map_info_panel p fmt h = Shown (fmt h) /\
  (0 < h_total_recv h ->
     render_hostname p fmt h = Shown (fmt h) /\ render_hostname_with_details p fmt h = Shown (fmt h)).
Proof.
  intros I T p fmt h Hp.
  assert (hidden p (h_ttl h) = false) as Hh.
  { destruct Hp as [E|(n & E & L)]; subst p; [reflexivity|]. rewrite hidden_some. destruct (h_ttl h <=? n) eqn:E; [lia|reflexivity]. }
  unfold render_hostname, render_hostname_with_details, render_map_info_panel. rewrite Hh.
  split; [reflexivity|]. intros R. destruct (h_total_recv h >? 0) eqn:E; [split; reflexivity|lia].
Qed.

(* The comparison itself is the one the property states: hidden iff privacy is Some n and ttl <= n. *)
Theorem c18_hidden_iff : forall p ttl, hidden p ttl = true <-> exists n, p = Some n /\ ttl <= n.
Proof. exact hidden_iff. Qed.

(* Map: a location gets no pin, radius or selection box when all its hops are hidden, and gets
   them as soon as one of its hops is visible. *)
Theorem c18_map_pins : forall n hs,
  ((forall t, In t hs -> t <= n) -> map_pin_shown (Some n) hs = false) /\
  (forall t, In t hs -> n < t -> map_pin_shown (Some n) hs = true) /\
  (hs <> [] -> map_pin_shown None hs = true).
Proof.
  intros n hs. split; [apply map_pin_shown_false|]. split.
  - intros t Hin Hlt. apply (map_pin_shown_true (Some n) hs t Hin). rewrite hidden_some. destruct (t <=? n) eqn:E; [lia|reflexivity].
  - destruct hs as [|t r]; [congruence|]. intros _. apply (map_pin_shown_true None (t :: r) t); [left|]; reflexivity.
Qed.

(* Header: the source is hidden iff privacy is on (at any value, including 0). *)
Theorem c18_source : forall (T : Type) (p : option Z) (src : T),
  (p <> None -> render_source p src = Hidden) /\ (p = None -> render_source p src = Shown src).
Proof. intros T [n|] src; cbn; split; intros H; congruence. Qed.

(* expand / contract: exactly one step on the scale off(-1), 0, 1, .., never a fault, expand stops at
   the hop count, contract stops at off. *)
Theorem c18_steps : forall hop_count p,
  0 <= hop_count <= 254 -> (forall n, p = Some n -> 0 <= n) ->
  (exists q, expand_privacy_step hop_count p = Ok q /\
     (level p < hop_count -> level q = level p + 1) /\ (hop_count <= level p -> q = p) /\ q <> None) /\
  (0 <= level p -> level (contract_privacy_step p) = level p - 1) /\
  (p = None -> contract_privacy_step p = None).
Proof.
  intros hc p Hhc Hn. split.
  - apply expand_step_spec. lia.
  - destruct (contract_step_spec p Hn) as (H1 & H2 & _). split; assumption.
Qed.

(* ... and never outside: along any sequence of expand / contract commands, with hop counts that may
   change between the commands but stay within H, every value reached lies on off, 0, .., H. *)
Theorem c18_steps_range : forall H steps p,
  H <= 254 -> Forall (pstep_ok H) steps -> -1 <= level p <= H -> (forall n, p = Some n -> 0 <= n) ->
  exists r, privacy_walk steps p = Ok r /\ length r = length steps /\ Forall (fun q => -1 <= level q <= H) r.
Proof. exact privacy_walk_range. Qed.

(* Known limit of the feature (recorded finding, not repaired): the destination in the header has no
   privacy branch, so when the target hop itself is within the hidden range its address is on screen. *)
Theorem c18_destination_refuted : exists (n ttl : Z),
  hidden (Some n) ttl = true /\ forall (T : Type) (dest : T), render_destination (Some n) dest = Shown dest.
Proof. exists 5, 5. split; reflexivity. Qed.

(* ---- non-vacuity ---- *)
Example ex_hidden : render_hostname (Some 3) (fun h : hop Z => h_info h) (mk_hop_view 2 7 1234) = Hidden.
Proof. reflexivity. Qed.
Example ex_shown : render_hostname (Some 3) (fun h : hop Z => h_info h) (mk_hop_view 4 7 1234) = Shown 1234.
Proof. reflexivity. Qed.
Example ex_zero_hides_source_only :
  render_source (Some 0) 99 = Hidden /\ render_hostname (Some 0) (fun h : hop Z => h_info h) (mk_hop_view 1 1 5) = Shown 5.
Proof. split; reflexivity. Qed.
Example ex_walk : privacy_walk [PExpand 2; PExpand 2; PExpand 2; PExpand 2; PContract; PContract; PContract; PContract; PContract] None
  = Ok [Some 0; Some 1; Some 2; Some 2; Some 1; Some 0; None; None; None].
Proof. reflexivity. Qed.
