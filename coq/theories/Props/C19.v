(* C19 - NAT is flagged at the first hop that sees a rewritten datagram.
   Model: TV.Core.State.{nat_status_of, update_for_probe} (state.rs) and Core.Strategy.proto_sresp (strategy.rs:
   only IPv4/UDP/Dublin responses carry expected/actual checksums). *)
From TV Require Packet.Checksum Net.RecvCommon Net.Recv4 Net.RfcPeer Proofs.RecvRoundtrip Proofs.NatLink.
From TV Require Import Base.Result Core.Types Core.Flows Core.State Core.Strategy Proofs.StateProofs.

(* per hop: Detected iff the quoted checksum differs from the previous responding hop's (first hop: from the
   checksum of the probe as sent); the checksum carried forward is always the one just quoted *)
Theorem c19_status : forall e a prev,
  nat_status_of e a prev = ((if a =? nat_reference e prev then NatNotDetected else NatDetected), a).
Proof. exact nat_status_of_spec. Qed.

(* per round: folding the code's function over the responding hops equals the declarative specification *)
Theorem c19_round : forall l prev, nat_fold prev l = nat_spec prev l.
Proof. exact nat_fold_is_spec. Qed.

(* the aggregator applies exactly that to a completed probe with both checksums, and records it on the hop *)
Theorem c19_updater : forall all u c e a i, hop_index (p_ttl (c_probe c)) = Ok i ->
  c_expected c = Some e -> c_actual c = Some a ->
  exists u', update_for_probe all u (Complete c) = Ok u' /\
    u_prev_cksum u' = Some a /\ u_fwd_loss u' = u_fwd_loss u /\
    (forall h, nth_error (fs_hops (u_fs u)) i = Some h ->
       exists h', nth_error (fs_hops (u_fs u')) i = Some h' /\
         h_last_nat h' = (if a =? nat_reference e (u_prev_cksum u) then NatNotDetected else NatDetected)).
Proof. exact update_for_probe_nat. Qed.

(* every other configuration: the status is left at its initial NotApplicable and nothing is carried *)
Theorem c19_not_applicable : forall all u c i, hop_index (p_ttl (c_probe c)) = Ok i ->
  (c_expected c = None \/ c_actual c = None) ->
  exists u', update_for_probe all u (Complete c) = Ok u' /\ u_prev_cksum u' = u_prev_cksum u /\
    (forall h, nth_error (fs_hops (u_fs u)) i = Some h ->
       exists h', nth_error (fs_hops (u_fs u')) i = Some h' /\ h_last_nat h' = h_last_nat h).
Proof. exact update_for_probe_no_nat. Qed.

Theorem c19_only_dublin_v4 : forall c p tid q tos ex ac,
  proto_sresp c p = Ok (tid, q, tos, ex, ac) -> (ex <> None \/ ac <> None) ->
  multipath c = Dublin /\ is_v6 (target_addr c) = false /\ exists id da sp dp t e a pl m, p = PUdp id da sp dp t e a pl m.
Proof. exact only_dublin_v4_has_checksums. Qed.

(* a path without rewriting never shows NAT *)
Theorem c19_no_nat : forall l e0, Forall (fun ea => fst ea = e0 /\ snd ea = e0) l ->
  Forall (fun s => s = NatNotDetected) (nat_spec None l).
Proof. intros l e0 H. apply (nat_no_rewrite l None e0 H). left; reflexivity. Qed.

(* a single rewriting device: Detected exactly at the first responding hop at or beyond it *)
Theorem c19_single_nat : forall before after e0 a1, a1 <> e0 ->
  Forall (fun ea => fst ea = e0 /\ snd ea = e0) before ->
  Forall (fun ea => fst ea = e0 /\ snd ea = a1) after ->
  nat_spec None (before ++ after) =
    repeat NatNotDetected (length before) ++
    match after with [] => [] | _ :: r => NatDetected :: repeat NatNotDetected (length r) end.
Proof. exact nat_single_rewrite. Qed.

(* ---- the byte-level link (receive-path model Net/Recv4.v, peer specification Net/RfcPeer.v) ----
   A Dublin/IPv4 probe as dispatched (configured source and destination, pattern payload of k octets, the UDP checksum
   the dispatch computes) that crosses NO rewriting device and is quoted by a standards-conforming router - any
   quotation length from IP header + 8 octets, TTL / TOS / header checksum rewritten, with or without extensions,
   outer IPv4 options - is decoded into a response whose expected checksum (recomputed by calc_udp_checksum from the
   quoted ports, length and the configured pattern) EQUALS the quoted one.  With c19_status / c19_no_nat: a path
   without address or port rewriting never shows NAT. *)
Theorem c19_unrewritten_probe_checksums_agree : forall c now me p tos ttl hck ipid sp dp k E,
  RecvCommon.rc_proto c = Udp -> length (RecvCommon.rc_src c) = 4%nat -> length (RecvCommon.rc_dest c) = 4%nat ->
  RecvRoundtrip.peer4_ok me p -> 0 <= k <= 996 ->
  let payload := repeat (RecvCommon.rc_pattern c) (Z.to_nat k) in
  let uck := Checksum.udp_ipv4_checksum (RfcPeer.udp_dgram sp dp 0 payload) (RecvCommon.rc_src c) (RecvCommon.rc_dest c) in
  let dg := RfcPeer.udp4_probe (RecvCommon.rc_src c) (RecvCommon.rc_dest c) tos ttl hck ipid sp dp uck payload in
  RecvCommon.zlen (RfcPeer.quote4 me p dg) <= 1024 ->
  RecvRoundtrip.ext_result c (RfcPeer.q_ext p) (RecvCommon.ztake (RfcPeer.q_n p) (RfcPeer.transit4 (RfcPeer.q_transit p) dg)) = Ok E ->
  Recv4.recv4 c now (RfcPeer.quote4 me p dg) =
  Ok (Some (RecvRoundtrip.mk_err (RecvRoundtrip.is_du p) (RecvCommon.mk_resp_data now (RfcPeer.q_router p)
              (PUdp ipid (RecvCommon.rc_dest c) sp dp (Some (RfcPeer.t_tos (RfcPeer.q_transit p))) uck uck k false))
              (RecvRoundtrip.code_of p) E)).
Proof. exact NatLink.unrewritten_probe_checksums_agree. Qed.

Theorem c19_unrewritten_first_hop : forall ck, nat_status_of ck ck None = (NatNotDetected, ck).
Proof. intros ck. rewrite nat_status_of_spec. unfold nat_reference. rewrite Z.eqb_refl. reflexivity. Qed.

Example c19_example : nat_fold None [(7, 7); (7, 7); (7, 9); (7, 9)] = [NatNotDetected; NatNotDetected; NatDetected; NatNotDetected].
Proof. reflexivity. Qed.
