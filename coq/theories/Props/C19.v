(* C19 - NAT is flagged at the first hop that sees a rewritten datagram.
   Model: TV.Core.State.{nat_status_of, update_for_probe} (state.rs) and Core.Strategy.proto_sresp (strategy.rs:
   only IPv4/UDP/Dublin responses carry expected/actual checksums). *)
From TV Require Import Base.Result Core.Types Core.Flows Core.State Core.Strategy Proofs.StateProofs.

(* per hop: Detected iff the quoted checksum differs from the previous responding hop's (first hop: from the
   checksum of the probe as sent); the checksum carried forward is always the one just quoted *)
Theorem c19_status : forall e a prev,
  nat_status_of e a prev = ((if a =? nat_reference e prev then NatNotDetected else NatDetected), a).
Proof. exact nat_status_of_spec. Qed.

(* per round: folding the code's function over the responding hops equals the declarative specification *)
Theorem c19_round : forall l prev, nat_fold prev l = nat_spec prev l.
Proof. exact nat_fold_is_spec. Qed.

(* the aggregator applies exactly that to a completed probe with both checksums, and records it on the hop *)
Theorem c19_updater : forall all u c e a i, hop_index (p_ttl (c_probe c)) = Ok i ->
  c_expected c = Some e -> c_actual c = Some a ->
  exists u', update_for_probe all u (Complete c) = Ok u' /\
    u_prev_cksum u' = Some a /\ u_fwd_loss u' = u_fwd_loss u /\
    (forall h, nth_error (fs_hops (u_fs u)) i = Some h ->
       exists h', nth_error (fs_hops (u_fs u')) i = Some h' /\
         h_last_nat h' = (if a =? nat_reference e (u_prev_cksum u) then NatNotDetected else NatDetected)).
Proof. exact update_for_probe_nat. Qed.

(* every other configuration: the status is left at its initial NotApplicable and nothing is carried *)
Theorem c19_not_applicable : forall all u c i, hop_index (p_ttl (c_probe c)) = Ok i ->
  (c_expected c = None \/ c_actual c = None) ->
  exists u', update_for_probe all u (Complete c) = Ok u' /\ u_prev_cksum u' = u_prev_cksum u /\
    (forall h, nth_error (fs_hops (u_fs u)) i = Some h ->
       exists h', nth_error (fs_hops (u_fs u')) i = Some h' /\ h_last_nat h' = h_last_nat h).
Proof. exact update_for_probe_no_nat. Qed.

Theorem c19_only_dublin_v4 : forall c p tid q tos ex ac,
  proto_sresp c p = Ok (tid, q, tos, ex, ac) -> (ex <> None \/ ac <> None) ->
  multipath c = Dublin /\ is_v6 (target_addr c) = false /\ exists id da sp dp t e a pl m, p = PUdp id da sp dp t e a pl m.
Proof. exact only_dublin_v4_has_checksums. Qed.

(* a path without rewriting never shows NAT *)
Theorem c19_no_nat : forall l e0, Forall (fun ea => fst ea = e0 /\ snd ea = e0) l ->
  Forall (fun s => s = NatNotDetected) (nat_spec None l).
Proof. intros l e0 H. apply (nat_no_rewrite l None e0 H). left; reflexivity. Qed.

(* a single rewriting device: Detected exactly at the first responding hop at or beyond it *)
Theorem c19_single_nat : forall before after e0 a1, a1 <> e0 ->
  Forall (fun ea => fst ea = e0 /\ snd ea = e0) before ->
  Forall (fun ea => fst ea = e0 /\ snd ea = a1) after ->
  nat_spec None (before ++ after) =
    repeat NatNotDetected (length before) ++
    match after with [] => [] | _ :: r => NatDetected :: repeat NatNotDetected (length r) end.
Proof. exact nat_single_rewrite. Qed.

Example c19_example : nat_fold None [(7, 7); (7, 7); (7, 9); (7, 9)] = [NatNotDetected; NatNotDetected; NatDetected; NatNotDetected].
Proof. reflexivity. Qed.
