(* C19 - NAT is flagged at the first hop that sees a rewritten datagram.
   Model: TV.Core.State.{nat_status_of, update_for_probe} (state.rs) and Core.Strategy.proto_sresp (strategy.rs:
   only IPv4/UDP/Dublin responses carry expected/actual checksums). *)
From TV Require Packet.Checksum Net.RecvCommon Net.Recv4 Net.RfcPeer Proofs.RecvRoundtrip Proofs.NatLink.
From TV Require Import Base.Result Core.Types Core.Flows Core.State Core.Strategy Proofs.StateProofs.

(* per hop: Detected iff the quoted checksum differs from the previous responding hop's (first hop: from the
   checksum of the probe as sent); the checksum carried forward is always the one just quoted *)
Theorem c19_status : forall e a prev,
  nat_status_of e a prev = ((if a =? nat_reference e prev then NatNotDetected else NatDetected), a).
Proof. exact nat_status_of_spec. Qed.

(* per round: folding the code's function over the responding hops equals the declarative specification *)
Theorem c19_round : forall l prev, nat_fold prev l = nat_spec prev l.
Proof. exact nat_fold_is_spec. Qed.

(* the aggregator applies exactly that to a completed probe with both checksums, and records it on the hop *)
Theorem c19_updater : forall all u c e a i, hop_index (p_ttl (c_probe c)) = Ok i ->
  c_expected c = Some e -> c_actual c = Some a ->
  exists u', update_for_probe all u (Complete c) = Ok u' /\
    u_prev_cksum u' = Some a /\ u_fwd_loss u' = u_fwd_loss u /\
    (forall h, nth_error (fs_hops (u_fs u)) i = Some h ->
       exists h', nth_error (fs_hops (u_fs u')) i = Some h' /\
         h_last_nat h' = (if a =? nat_reference e (u_prev_cksum u) then NatNotDetected else NatDetected)).
Proof. exact update_for_probe_nat. Qed.

(* every other configuration: the status is left at its initial NotApplicable and nothing is carried *)
Theorem c19_not_applicable : forall all u c i, hop_index (p_ttl (c_probe c)) = Ok i ->
  (c_expected c = None \/ c_actual c = None) ->
  exists u', update_for_probe all u (Complete c) = Ok u' /\ u_prev_cksum u' = u_prev_cksum u /\
    (forall h, nth_error (fs_hops (u_fs u)) i = Some h ->
       exists h', nth_error (fs_hops (u_fs u')) i = Some h' /\ h_last_nat h' = h_last_nat h).
Proof. exact update_for_probe_no_nat. Qed.

Theorem c19_only_dublin_v4 : forall c p tid q tos ex ac,
  proto_sresp c p = Ok (tid, q, tos, ex, ac) -> (ex <> None \/ ac <> None) ->
  multipath c = Dublin /\ is_v6 (target_addr c) = false /\ exists id da sp dp t e a pl m, p = PUdp id da sp dp t e a pl m.
Proof. exact only_dublin_v4_has_checksums. Qed.

(* a path without rewriting never shows NAT *)
Theorem c19_no_nat : forall l e0, Forall (fun ea => fst ea = e0 /\ snd ea = e0) l ->
  Forall (fun s => s = NatNotDetected) (nat_spec None l).
Proof. intros l e0 H. apply (nat_no_rewrite l None e0 H). left; reflexivity. Qed.

(* a single rewriting device: Detected exactly at the first responding hop at or beyond it *)
Theorem c19_single_nat : forall before after e0 a1, a1 <> e0 ->
  Forall (fun ea => fst ea = e0 /\ snd ea = e0) before ->
  Forall (fun ea => fst ea = e0 /\ snd ea = a1) after ->
  nat_spec None (before ++ after) =
    repeat NatNotDetected (length before) ++
    match after with [] => [] | _ :: r => NatDetected :: repeat NatNotDetected (length r) end.
Proof. exact nat_single_rewrite. Qed.

(* ---- the byte-level link (receive-path model Net/Recv4.v, peer specification Net/RfcPeer.v) ----
   A Dublin/IPv4 probe as dispatched (configured source and destination, pattern payload of k octets, the UDP checksum
   the dispatch computes) that crosses NO rewriting device and is quoted by a standards-conforming router - any
   quotation length from IP header + 8 octets, TTL / TOS / header checksum rewritten, with or without extensions,
   outer IPv4 options - is decoded into a response whose expected checksum (recomputed by calc_udp_checksum from the
   quoted ports, length and the configured pattern) EQUALS the quoted one.  With c19_status / c19_no_nat: a path
   without address or port rewriting never shows NAT. *)
Theorem c19_unrewritten_probe_checksums_agree : forall c now me p tos ttl hck ipid sp dp k E,
  RecvCommon.rc_proto c = Udp -> length (RecvCommon.rc_src c) = 4%nat -> length (RecvCommon.rc_dest c) = 4%nat ->
  RecvRoundtrip.peer4_ok me p -> 0 <= k <= 996 ->
  let payload := repeat (RecvCommon.rc_pattern c) (Z.to_nat k) in
  let uck := Checksum.udp_ipv4_checksum (RfcPeer.udp_dgram sp dp 0 payload) (RecvCommon.rc_src c) (RecvCommon.rc_dest c) in
  let dg := RfcPeer.udp4_probe (RecvCommon.rc_src c) (RecvCommon.rc_dest c) tos ttl hck ipid sp dp uck payload in
  RecvCommon.zlen (RfcPeer.quote4 me p dg) <= 1024 ->
  RecvRoundtrip.ext_result c (RfcPeer.q_ext p) (RecvCommon.ztake (RfcPeer.q_n p) (RfcPeer.transit4 (RfcPeer.q_transit p) dg)) = Ok E ->
  Recv4.recv4 c now (RfcPeer.quote4 me p dg) =
  Ok (Some (RecvRoundtrip.mk_err (RecvRoundtrip.is_du p) (RecvCommon.mk_resp_data now (RfcPeer.q_router p)
              (PUdp ipid (RecvCommon.rc_dest c) sp dp (Some (RfcPeer.t_tos (RfcPeer.q_transit p))) uck uck k false))
              (RecvRoundtrip.code_of p) E)).
Proof. exact NatLink.unrewritten_probe_checksums_agree. Qed.

Theorem c19_unrewritten_first_hop : forall ck, nat_status_of ck ck None = (NatNotDetected, ck).
Proof. intros ck. rewrite nat_status_of_spec. unfold nat_reference. rewrite Z.eqb_refl. reflexivity. Qed.

Example c19_example : nat_fold None [(7, 7); (7, 7); (7, 9); (7, 9)] = [NatNotDetected; NatNotDetected; NatDetected; NatNotDetected].
Proof. reflexivity. Qed.

(* ======================================================================================================================
   The link from c19_round to the real loop over a published round (Proofs/RoundFold.v, Proofs/RoundNat.v).
   Vocabulary, read off the round alone:
     responders ps   the (expected, actual) pairs of the probes that carry both checksums, in round order;
     resp_ttls ps    their distances;           round_nat ps = combine (resp_ttls ps) (nat_spec None (responders ps));
     nat_at l t old  the status hop t shows after the pairs of l were written in order (a hop that is not in l keeps old);
     reference_of l j e = e for j = 0, the checksum quoted by responder j-1 otherwise. *)
From TV Require Import Proofs.FlowsProofs Proofs.FlowAttr Proofs.RoundFold Proofs.RoundNat.

(* StateUpdater::apply on one round: the status of every hop afterwards is what nat_spec, started from None, assigns to
   the round's responding probes - the carried checksum is reset at the start of every round *)
Theorem c19_round_fold : forall f r f', fs_apply f r = Ok f' ->
  forall i, option_map h_last_nat (nth_error (fs_hops f') i) =
            option_map (fun h => nat_at (round_nat (rr_probes r)) (Z.of_nat i + 1) (h_last_nat h)) (nth_error (fs_hops f) i).
Proof. exact fs_apply_nat. Qed.

(* any number of rounds: each one is evaluated on its own *)
Theorem c19_rounds_fold : forall rs f f', fs_run f rs = Ok f' ->
  forall i, option_map h_last_nat (nth_error (fs_hops f') i) =
            option_map (fun h => fold_left (fun acc r => nat_at (round_nat (rr_probes r)) (Z.of_nat i + 1) acc) rs (h_last_nat h))
                       (nth_error (fs_hops f) i).
Proof. exact fs_run_nat. Qed.

(* ... and per flow: State::update_from_round evaluates the round from None in the default flow and in the flow it is
   attributed to, and leaves every other flow alone *)
Theorem c19_per_flow : forall s r s' id, dense (st_registry s) -> update_from_round s r = Ok s' ->
  if selects id s r
  then forall i, option_map h_last_nat (nth_error (fs_hops (flow_or_new s' id)) i) =
                 option_map (fun h => nat_at (round_nat (rr_probes r)) (Z.of_nat i + 1) (h_last_nat h))
                            (nth_error (fs_hops (flow_or_new s id)) i)
  else flow_or_new s' id = flow_or_new s id.
Proof. exact update_from_round_nat. Qed.

(* the property's wording for nat_spec: the j-th responding probe is NAT-detected exactly when the checksum it quotes
   differs from the one quoted by the previous responding probe (the first: from the checksum of the probe as sent) *)
Theorem c19_responder_status : forall l j e a, nth_error l j = Some (e, a) ->
  nth_error (nat_spec None l) j = Some (if a =? reference_of l j e then NatNotDetected else NatDetected).
Proof. exact nat_spec_nth. Qed.

(* with one probe per distance, the hop of the j-th responding probe shows exactly that after the round; a hop that did
   not respond keeps its status *)
Theorem c19_round_hop_status : forall ps j t e a old, NoDup (resp_ttls ps) ->
  nth_error (resp_ttls ps) j = Some t -> nth_error (responders ps) j = Some (e, a) ->
  nat_at (round_nat ps) t old = if a =? reference_of (responders ps) j e then NatNotDetected else NatDetected.
Proof. exact round_nat_responder. Qed.

Theorem c19_round_silent_hop : forall ps t old, ~ In t (resp_ttls ps) -> nat_at (round_nat ps) t old = old.
Proof. exact round_nat_silent. Qed.

(* no rewriting: every hop that responds in the round shows NotDetected (any round shape) *)
Theorem c19_round_no_nat : forall ps e0 t old, Forall (fun ea => fst ea = e0 /\ snd ea = e0) (responders ps) ->
  In t (resp_ttls ps) -> nat_at (round_nat ps) t old = NatNotDetected.
Proof. exact round_nat_no_rewrite. Qed.

(* a single rewriting device: Detected at the hop of the first responding probe at or beyond it, NotDetected at every
   other responding hop of the round *)
Theorem c19_round_single_nat : forall ps before after e0 a1 j t old, a1 <> e0 ->
  NoDup (resp_ttls ps) -> responders ps = before ++ after ->
  Forall (fun ea => fst ea = e0 /\ snd ea = e0) before ->
  Forall (fun ea => fst ea = e0 /\ snd ea = a1) after ->
  nth_error (resp_ttls ps) j = Some t ->
  nat_at (round_nat ps) t old = if (j =? length before)%nat then NatDetected else NatNotDetected.
Proof. exact round_nat_single_rewrite. Qed.

(* every other configuration (no response carries a checksum pair): NotApplicable on every hop, whatever the history *)
Theorem c19_rounds_not_applicable : forall ms rs f', Forall (fun r => responders (rr_probes r) = []) rs ->
  fs_run (flow_state_new ms) rs = Ok f' ->
  forall i h, nth_error (fs_hops f') i = Some h -> h_last_nat h = NatNotApplicable.
Proof. exact fs_run_not_applicable. Qed.

(* non-vacuity: a device at distance 3 (hop 2 silent, hop 5 without checksums); the second round starts from None again *)
Example c19_round_example :
  let pr t := {| p_sequence := 33000 + t; p_identifier := 0; p_src_port := 0; p_dest_port := 0; p_ttl := t; p_round := 0; p_sent := 0; p_flags := 0 |} in
  let c t e a := Complete {| c_probe := pr t; c_host := [10;0;0;t]; c_received := 1000; c_icmp := ITimeExceeded 0; c_tos := None; c_expected := e; c_actual := a; c_exts := None |} in
  let ps := [c 1 (Some 7) (Some 7); Awaited (pr 2); c 3 (Some 7) (Some 9); c 4 (Some 7) (Some 9); c 5 None None; c 6 (Some 7) (Some 9)] in
  let rd := {| rr_probes := ps; rr_largest_ttl := 6; rr_reason := TargetFound |} in
  let nat f := match f with Ok f => map h_last_nat (firstn 6 (fs_hops f)) | _ => [] end in
  let expected := [NatNotDetected; NatNotApplicable; NatDetected; NatNotDetected; NatNotApplicable; NatNotDetected] in
  round_nat ps = [(1, NatNotDetected); (3, NatDetected); (4, NatNotDetected); (6, NatNotDetected)] /\
  nat (fs_apply (flow_state_new 10) rd) = expected /\ nat (fs_run (flow_state_new 10) [rd; rd]) = expected /\
  NoDup (resp_ttls ps).
Proof.
  cbv zeta. split; [vm_compute; reflexivity|]. split; [vm_compute; reflexivity|]. split; [vm_compute; reflexivity|].
  cbn. repeat (constructor; [cbn; lia|]). constructor.
Qed.

(* the side condition of c19_round_hop_status / c19_round_single_nat holds for every round in ascending distance order,
   which is every round the strategy publishes (Props/C05.v, c05_strategy_rounds_ascending) *)
Theorem c19_ascending_round_distinct : forall ps, ascending ps -> NoDup (resp_ttls ps).
Proof. exact ascending_resp_nodup. Qed.
