(* C19 - NAT is flagged at the first hop that sees a rewritten datagram.
   Model: TV.Core.State.{nat_status_of, update_for_probe} (state.rs) and Core.Strategy.proto_sresp (strategy.rs:
   only IPv4/UDP/Dublin responses carry expected/actual checksums). *)
From TV Require Packet.Checksum Net.RecvCommon Net.Recv4 Net.RfcPeer Proofs.RecvRoundtrip Proofs.NatLink.
From TV Require Import Base.Result Core.Types Core.Flows Core.State Core.Strategy Proofs.StateProofs.

(* per hop: Detected iff the quoted checksum differs from the previous responding hop's (first hop: from the
   checksum of the probe as sent); the checksum carried forward is always the one just quoted *)
Theorem c19_status : forall e a prev,
  nat_status_of e a prev = ((if a =? nat_reference e prev then NatNotDetected else NatDetected), a).
Proof. exact nat_status_of_spec. Qed.

(* per round: folding the code's function over the responding hops equals the declarative specification *)
Theorem c19_round : forall l prev, nat_fold prev l = nat_spec prev l.
Proof. exact nat_fold_is_spec. Qed.

(* the aggregator applies exactly that to a completed probe with both checksums, and records it on the hop *)
Theorem c19_updater : forall all u c e a i, hop_index (p_ttl (c_probe c)) = Ok i ->
  c_expected c = Some e -> c_actual c = Some a ->
  exists u', update_for_probe all u (Complete c) = Ok u' /\
    u_prev_cksum u' = Some a /\ u_fwd_loss u' = u_fwd_loss u /\
    (forall h, nth_error (fs_hops (u_fs u)) i = Some h ->
       exists h', nth_error (fs_hops (u_fs u')) i = Some h' /\
         h_last_nat h' = (if a =? nat_reference e (u_prev_cksum u) then NatNotDetected else NatDetected)).
Proof. exact update_for_probe_nat. Qed.

(* every other configuration: the status is left at its initial NotApplicable and nothing is carried *)
Theorem c19_not_applicable : forall all u c i, hop_index (p_ttl (c_probe c)) = Ok i ->
  (c_expected c = None \/ c_actual c = None) ->
  exists u', update_for_probe all u (Complete c) = Ok u' /\ u_prev_cksum u' = u_prev_cksum u /\
    (forall h, nth_error (fs_hops (u_fs u)) i = Some h ->
       exists h', nth_error (fs_hops (u_fs u')) i = Some h' /\ h_last_nat h' = h_last_nat h).
Proof. exact update_for_probe_no_nat. Qed.

Theorem c19_only_dublin_v4 : forall c p tid q tos ex ac,
  proto_sresp c p = Ok (tid, q, tos, ex, ac) -> (ex <> None \/ ac <> None) ->
  multipath c = Dublin /\ is_v6 (target_addr c) = false /\ exists id da sp dp t e a pl m, p = PUdp id da sp dp t e a pl m.
Proof. exact only_dublin_v4_has_checksums. Qed.

(* a path without rewriting never shows NAT *)
Theorem c19_no_nat : forall l e0, Forall (fun ea => fst ea = e0 /\ snd ea = e0) l ->
  Forall (fun s => s = NatNotDetected) (nat_spec None l).
Proof. intros l e0 H. apply (nat_no_rewrite l None e0 H). left; reflexivity. Qed.

(* a single rewriting device: Detected exactly at the first responding hop at or beyond it *)
Theorem c19_single_nat : forall before after e0 a1, a1 <> e0 ->
  Forall (fun ea => fst ea = e0 /\ snd ea = e0) before ->
  Forall (fun ea => fst ea = e0 /\ snd ea = a1) after ->
  nat_spec None (before ++ after) =
    repeat NatNotDetected (length before) ++
    match after with [] => [] | _ :: r => NatDetected :: repeat NatNotDetected (length r) end.
Proof. exact nat_single_rewrite. Qed.

(* ---- the byte-level link (receive-path model Net/Recv4.v, peer specification Net/RfcPeer.v) ----
   A Dublin/IPv4 probe as dispatched (configured source and destination, pattern payload of k octets, the UDP checksum
   the dispatch computes) that crosses NO rewriting device and is quoted by a standards-conforming router - any
   quotation length from IP header + 8 octets, TTL / TOS / header checksum rewritten, with or without extensions,
   outer IPv4 options - is decoded into a response whose expected checksum (recomputed by calc_udp_checksum from the
   quoted ports, length and the configured pattern) EQUALS the quoted one.  With c19_status / c19_no_nat: a path
   without address or port rewriting never shows NAT. *)
Theorem c19_unrewritten_probe_checksums_agree : forall c now me p tos ttl hck ipid sp dp k E,
  RecvCommon.rc_proto c = Udp -> length (RecvCommon.rc_src c) = 4%nat -> length (RecvCommon.rc_dest c) = 4%nat ->
  RecvRoundtrip.peer4_ok me p -> 0 <= k <= 996 ->
  let payload := repeat (RecvCommon.rc_pattern c) (Z.to_nat k) in
  let uck := Checksum.udp_ipv4_checksum (RfcPeer.udp_dgram sp dp 0 payload) (RecvCommon.rc_src c) (RecvCommon.rc_dest c) in
  let dg := RfcPeer.udp4_probe (RecvCommon.rc_src c) (RecvCommon.rc_dest c) tos ttl hck ipid sp dp uck payload in
  RecvCommon.zlen (RfcPeer.quote4 me p dg) <= 1024 ->
  RecvRoundtrip.ext_result c (RfcPeer.q_ext p) (RecvCommon.ztake (RfcPeer.q_n p) (RfcPeer.transit4 (RfcPeer.q_transit p) dg)) = Ok E ->
  Recv4.recv4 c now (RfcPeer.quote4 me p dg) =
  Ok (Some (RecvRoundtrip.mk_err (RecvRoundtrip.is_du p) (RecvCommon.mk_resp_data now (RfcPeer.q_router p)
              (PUdp ipid (RecvCommon.rc_dest c) sp dp (Some (RfcPeer.t_tos (RfcPeer.q_transit p))) uck uck k false))
              (RecvRoundtrip.code_of p) E)).
Proof. exact NatLink.unrewritten_probe_checksums_agree. Qed.

Theorem c19_unrewritten_first_hop : forall ck, nat_status_of ck ck None = (NatNotDetected, ck).
Proof. intros ck. rewrite nat_status_of_spec. unfold nat_reference. rewrite Z.eqb_refl. reflexivity. Qed.

Example c19_example : nat_fold None [(7, 7); (7, 7); (7, 9); (7, 9)] = [NatNotDetected; NatNotDetected; NatDetected; NatNotDetected].
Proof. reflexivity. Qed.

(* ======================================================================================================================
   The link from c19_round to the real loop over a published round (Proofs/RoundFold.v, Proofs/RoundNat.v).
   Vocabulary, read off the round alone:
     responders ps   the (expected, actual) pairs of the probes that carry both checksums, in round order;
     resp_ttls ps    their distances;           round_nat ps = combine (resp_ttls ps) (nat_spec None (responders ps));
     nat_at l t old  the status hop t shows after the pairs of l were written in order (a hop that is not in l keeps old);
     reference_of l j e = e for j = 0, the checksum quoted by responder j-1 otherwise. *)
From TV Require Import Proofs.FlowsProofs Proofs.FlowAttr Proofs.RoundFold Proofs.RoundNat.

(* StateUpdater::apply on one round: the status of every hop afterwards is what nat_spec, started from None, assigns to
   the round's responding probes - the carried checksum is reset at the start of every round *)
Theorem c19_round_fold : forall f r f', fs_apply f r = Ok f' ->
  forall i, option_map h_last_nat (nth_error (fs_hops f') i) =
            option_map (fun h => nat_at (round_nat (rr_probes r)) (Z.of_nat i + 1) (h_last_nat h)) (nth_error (fs_hops f) i).
Proof. exact fs_apply_nat. Qed.

(* any number of rounds: each one is evaluated on its own *)
Theorem c19_rounds_fold : forall rs f f', fs_run f rs = Ok f' ->
  forall i, option_map h_last_nat (nth_error (fs_hops f') i) =
            option_map (fun h => fold_left (fun acc r => nat_at (round_nat (rr_probes r)) (Z.of_nat i + 1) acc) rs (h_last_nat h))
                       (nth_error (fs_hops f) i).
Proof. exact fs_run_nat. Qed.

(* ... and per flow: State::update_from_round evaluates the round from None in the default flow and in the flow it is
   attributed to, and leaves every other flow alone *)
Theorem c19_per_flow : forall s r s' id, dense (st_registry s) -> update_from_round s r = Ok s' ->
  if selects id s r
  then forall i, option_map h_last_nat (nth_error (fs_hops (flow_or_new s' id)) i) =
                 option_map (fun h => nat_at (round_nat (rr_probes r)) (Z.of_nat i + 1) (h_last_nat h))
                            (nth_error (fs_hops (flow_or_new s id)) i)
  else flow_or_new s' id = flow_or_new s id.
Proof. exact update_from_round_nat. Qed.

(* the property's wording for nat_spec: the j-th responding probe is NAT-detected exactly when the checksum it quotes
   differs from the one quoted by the previous responding probe (the first: from the checksum of the probe as sent) *)
Theorem c19_responder_status : forall l j e a, nth_error l j = Some (e, a) ->
  nth_error (nat_spec None l) j = Some (if a =? reference_of l j e then NatNotDetected else NatDetected).
Proof. exact nat_spec_nth. Qed.

(* with one probe per distance, the hop of the j-th responding probe shows exactly that after the round; a hop that did
   not respond keeps its status *)
Theorem c19_round_hop_status : forall ps j t e a old, NoDup (resp_ttls ps) ->
  nth_error (resp_ttls ps) j = Some t -> nth_error (responders ps) j = Some (e, a) ->
  nat_at (round_nat ps) t old = if a =? reference_of (responders ps) j e then NatNotDetected else NatDetected.
Proof. exact round_nat_responder. Qed.

Theorem c19_round_silent_hop : forall ps t old, ~ In t (resp_ttls ps) -> nat_at (round_nat ps) t old = old.
Proof. exact round_nat_silent. Qed.

(* no rewriting: every hop that responds in the round shows NotDetected (any round shape) *)
Theorem c19_round_no_nat : forall ps e0 t old, Forall (fun ea => fst ea = e0 /\ snd ea = e0) (responders ps) ->
  In t (resp_ttls ps) -> nat_at (round_nat ps) t old = NatNotDetected.
Proof. exact round_nat_no_rewrite. Qed.

(* a single rewriting device: Detected at the hop of the first responding probe at or beyond it, NotDetected at every
   other responding hop of the round *)
Theorem c19_round_single_nat : forall ps before after e0 a1 j t old, a1 <> e0 ->
  NoDup (resp_ttls ps) -> responders ps = before ++ after ->
  Forall (fun ea => fst ea = e0 /\ snd ea = e0) before ->
  Forall (fun ea => fst ea = e0 /\ snd ea = a1) after ->
  nth_error (resp_ttls ps) j = Some t ->
  nat_at (round_nat ps) t old = if (j =? length before)%nat then NatDetected else NatNotDetected.
Proof. exact round_nat_single_rewrite. Qed.

(* every other configuration (no response carries a checksum pair): NotApplicable on every hop, whatever the history *)
Theorem c19_rounds_not_applicable : forall ms rs f', Forall (fun r => responders (rr_probes r) = []) rs ->
  fs_run (flow_state_new ms) rs = Ok f' ->
  forall i h, nth_error (fs_hops f') i = Some h -> h_last_nat h = NatNotApplicable.
Proof. exact fs_run_not_applicable. Qed.

(* non-vacuity: a device at distance 3 (hop 2 silent, hop 5 without checksums); the second round starts from None again *)
Example c19_round_example :
  let pr t := {| p_sequence := 33000 + t; p_identifier := 0; p_src_port := 0; p_dest_port := 0; p_ttl := t; p_round := 0; p_sent := 0; p_flags := 0 |} in
  let c t e a := Complete {| c_probe := pr t; c_host := [10;0;0;t]; c_received := 1000; c_icmp := ITimeExceeded 0; c_tos := None; c_expected := e; c_actual := a; c_exts := None |} in
  let ps := [c 1 (Some 7) (Some 7); Awaited (pr 2); c 3 (Some 7) (Some 9); c 4 (Some 7) (Some 9); c 5 None None; c 6 (Some 7) (Some 9)] in
  let rd := {| rr_probes := ps; rr_largest_ttl := 6; rr_reason := TargetFound |} in
  let nat f := match f with Ok f => map h_last_nat (firstn 6 (fs_hops f)) | _ => [] end in
  let expected := [NatNotDetected; NatNotApplicable; NatDetected; NatNotDetected; NatNotApplicable; NatNotDetected] in
  round_nat ps = [(1, NatNotDetected); (3, NatDetected); (4, NatNotDetected); (6, NatNotDetected)] /\
  nat (fs_apply (flow_state_new 10) rd) = expected /\ nat (fs_run (flow_state_new 10) [rd; rd]) = expected /\
  NoDup (resp_ttls ps).
Proof.
  cbv zeta. split; [vm_compute; reflexivity|]. split; [vm_compute; reflexivity|]. split; [vm_compute; reflexivity|].
  cbn. repeat (constructor; [cbn; lia|]). constructor.
Qed.

(* the side condition of c19_round_hop_status / c19_round_single_nat holds for every round in ascending distance order,
   which is every round the strategy publishes (Props/C05.v, c05_strategy_rounds_ascending) *)
Theorem c19_ascending_round_distinct : forall ps, ascending ps -> NoDup (resp_ttls ps).
Proof. exact ascending_resp_nodup. Qed.

(* ======================================================================================================================
   END TO END (Proofs/NatDevice.v, Proofs/NatE2E.v; vocabulary of Props/C02.v: issued, same_trace, run_send).
     nat_answer sc res p from ex ac acc   res = Ok (Some r); Strategy::validate on r gives acc; StrategyResponse::from(r)
                                          names p's sequence and carries expected_udp_checksum = ex, actual = ac;
                                          the response came from [from];
     snat4 a sp' d                        the datagram d after a source-NAT device: source address a, source port sp',
                                          UDP checksum updated incrementally per RFC 1624 (Proofs/NatDevice.v);
     unrewritten_round / single_nat_round shapes of a published round, read off its (expected, actual) pairs. *)
From TV Require Import Base.Bytes Packet.Checksum Net.Sock Net.ChannelSend Net.SendSpec Net.RecvCommon Net.Recv4 Net.RfcPeer.
From TV Require Import Proofs.ChecksumProofs Proofs.RecvRoundtrip Proofs.WireShapes Proofs.WireE2E Proofs.NatDevice Proofs.NatE2E.

(* A Dublin/IPv4 probe as the strategy issues it and Ipv4::dispatch_udp_probe builds it (IP identification = sequence,
   UDP checksum = what make_udp_packet computes over the pattern payload, zero included), crossing NO rewriting device
   and quoted by any conforming router: the response is accepted, names the probe, and the checksum calc_udp_checksum
   recomputes from the quoted ports / length / configured pattern EQUALS the quoted one - for every packet size,
   pattern, port direction, address.  With c19_status: never marked. *)
Theorem c19_e2e_unrewritten : forall sc cfg rc p,
  issued sc p -> proto sc = Udp -> multipath sc = Dublin -> same_trace sc cfg rc -> cfg_v4 cfg ->
  cc_privilege cfg = Privileged -> 28 <= cc_packet_size cfg <= 1024 ->
  let payload := repeat (cc_payload_pattern cfg) (Z.to_nat (cc_packet_size cfg - 28)) in
  let ck := udp4_wire_checksum cfg p payload in
  exists b,
    run_send BoNetwork cfg [] p = (connect_ops false cfg ++ [SendTo b (cc_target cfg) (p_dest_port p)], Ok tt) /\
    RecvRoundtrip.u16 b 26 = ck /\
    forall now me peer, peer4_conforming me peer -> zlen (quote4 me peer b) <= 1024 ->
      nat_answer sc (recv4 rc now (quote4 me peer b)) p (q_router peer) ck ck true.
Proof. exact e2e_dublin4_unrewritten. Qed.

(* The same probe after a source-NAT device (new source address a, new source port sp'), quoted by any conforming router
   beyond it: the quoted checksum is the one of the rewritten datagram; the EXPECTED checksum is recomputed with the
   tracer's own source address but the QUOTED (rewritten) source port.  The response still passes Strategy::validate
   exactly when the port direction does not fix the source port or the port was left alone - behind a port-rewriting
   device a trace with a fixed source port gets no accepted response at all. *)
Theorem c19_e2e_rewritten : forall sc cfg rc p a sp',
  issued sc p -> proto sc = Udp -> multipath sc = Dublin -> same_trace sc cfg rc -> cfg_v4 cfg ->
  cc_privilege cfg = Privileged -> 28 <= cc_packet_size cfg <= 1024 ->
  length a = 4%nat -> bytes a -> 0 <= sp' < 65536 ->
  let payload := repeat (cc_payload_pattern cfg) (Z.to_nat (cc_packet_size cfg - 28)) in
  let ex := udp_ipv4_checksum (udp_dgram sp' (p_dest_port p) 0 payload) (cc_source cfg) (cc_target cfg) in
  let ac := udp_ipv4_checksum (udp_dgram sp' (p_dest_port p) 0 payload) a (cc_target cfg) in
  exists b,
    run_send BoNetwork cfg [] p = (connect_ops false cfg ++ [SendTo b (cc_target cfg) (p_dest_port p)], Ok tt) /\
    RecvRoundtrip.u16 (snat4 a sp' b) 26 = ac /\
    forall now me peer, peer4_conforming me peer -> zlen (quote4 me peer (snat4 a sp' b)) <= 1024 ->
      nat_answer sc (recv4 rc now (quote4 me peer (snat4 a sp' b))) p (q_router peer) ex ac
        (match port_direction sc with FixedDest _ => true | _ => p_src_port p =? sp' end).
Proof. exact e2e_dublin4_rewritten. Qed.

(* the device model is faithful: three incremental updates per RFC 1624 eqn. 3 (two address words, the port) of the
   checksum of a dispatched probe give exactly the checksum recomputed over the rewritten datagram *)
Theorem c19_rfc1624_update_is_recomputation : forall src dst a sp' tos ttl hck ipid sp dp payload,
  length src = 4%nat -> length dst = 4%nat -> length a = 4%nat -> bytes src -> bytes dst -> bytes a ->
  0 <= sp < 65536 -> 0 <= dp < 65536 -> 0 <= sp' < 65536 -> bytes payload -> zlen payload <= 996 ->
  let uck := udp_ipv4_checksum (udp_dgram sp dp 0 payload) src dst in
  snat4_checksum a sp' (udp4_probe src dst tos ttl hck ipid sp dp uck payload) =
  udp_ipv4_checksum (udp_dgram sp' dp 0 payload) a dst.
Proof. exact snat4_checksum_is_recomputed. Qed.

(* WHEN the first responding hop of a round beyond an address-rewriting device is marked: exactly when the 16-bit word
   sums of the new and the configured source address differ modulo 65535 (one's-complement arithmetic); whether the
   port was rewritten too plays no role there *)
Theorem c19_rewrite_detected_at_first_hop_iff : forall src a dst sp' dp payload,
  length src = 4%nat -> length dst = 4%nat -> length a = 4%nat -> bytes src -> bytes dst -> bytes a ->
  0 <= sp' < 65536 -> 0 <= dp < 65536 -> bytes payload -> zlen payload <= 996 ->
  let ex := udp_ipv4_checksum (udp_dgram sp' dp 0 payload) src dst in
  let ac := udp_ipv4_checksum (udp_dgram sp' dp 0 payload) a dst in
  (fst (nat_status_of ex ac None) = NatDetected <-> (word_sum a - word_sum src) mod 65535 <> 0).
Proof. exact rewrite_detected_at_first_hop_iff. Qed.

(* ... and when a hop in front of the device responded earlier in the round (it quoted the checksum as sent): exactly
   when address word sum plus port changed modulo 65535 *)
Theorem c19_rewrite_detected_after_responder_iff : forall src a dst sp sp' dp payload ex,
  length src = 4%nat -> length dst = 4%nat -> length a = 4%nat -> bytes src -> bytes dst -> bytes a ->
  0 <= sp < 65536 -> 0 <= sp' < 65536 -> 0 <= dp < 65536 -> bytes payload -> zlen payload <= 996 ->
  let ck0 := udp_ipv4_checksum (udp_dgram sp dp 0 payload) src dst in
  let ac := udp_ipv4_checksum (udp_dgram sp' dp 0 payload) a dst in
  (fst (nat_status_of ex ac (Some ck0)) = NatDetected <-> (word_sum a + sp' - word_sum src - sp) mod 65535 <> 0).
Proof. exact rewrite_detected_after_responder_iff. Qed.

(* a device that rewrites ONLY the source port, seen by the first responding hop of a round: the quoted checksum differs
   from the checksum of the probe as sent, yet expected = actual and the hop is NOT marked (the expected value follows
   the quoted port) *)
Theorem c19_port_only_rewrite_invisible_at_first_hop : forall src dst sp sp' dp payload,
  length src = 4%nat -> length dst = 4%nat -> bytes src -> bytes dst ->
  0 <= sp < 65536 -> 0 <= sp' < 65536 -> 0 <= dp < 65536 -> bytes payload -> zlen payload <= 996 ->
  let sent := udp_ipv4_checksum (udp_dgram sp dp 0 payload) src dst in
  let ex := udp_ipv4_checksum (udp_dgram sp' dp 0 payload) src dst in
  let ac := udp_ipv4_checksum (udp_dgram sp' dp 0 payload) src dst in
  fst (nat_status_of ex ac None) = NatNotDetected /\ (ac <> sent <-> (sp' - sp) mod 65535 <> 0).
Proof. exact port_only_rewrite_invisible_at_first_hop. Qed.

(* FALSE on the code - the property's "for the first responding hop, [differs] from the checksum of the probe as sent":
   concrete witness, end to end (issued probe, dispatched datagram b, port 33434 rewritten to 40000 in front of the first
   responding hop): the probe left with checksum 58934, the hop quotes 52368, the response is accepted with
   expected = actual = 52368 and the hop is reported NotDetected *)
Theorem c19_port_only_rewrite_refuted :
  issued nat_sc nat_p /\ same_trace nat_sc ex_cfg4 ex_rc4 /\ peer4_conforming [10; 0; 0; 1] nat_peer /\
  exists b, run_send BoNetwork ex_cfg4 [] nat_p = (connect_ops false ex_cfg4 ++ [SendTo b [10; 0; 0; 2] 33434], Ok tt) /\
    RecvRoundtrip.u16 b 26 = 58934 /\
    RecvRoundtrip.u16 (snat4 [10; 0; 0; 1] 40000 b) 26 = 52368 /\
    nat_outcome (snat4 [10; 0; 0; 1] 40000 b) 52368 52368 /\
    fst (nat_status_of 52368 52368 None) = NatNotDetected.
Proof. exact port_only_rewrite_refuted. Qed.

(* FALSE on the code - "a single rewriting device at distance k shows it at the first responding hop at or beyond k":
   a device that maps 10.0.0.1 to 0.1.10.0 (same 16-bit word sum) leaves the UDP checksum unchanged; every hop beyond
   it quotes 58934 = expected = the checksum as sent, so no hop is marked whether or not a hop in front responded *)
Theorem c19_sum_preserving_rewrite_refuted :
  issued nat_sc nat_p /\ same_trace nat_sc ex_cfg4 ex_rc4 /\ peer4_conforming [10; 0; 0; 1] nat_peer /\
  exists b, run_send BoNetwork ex_cfg4 [] nat_p = (connect_ops false ex_cfg4 ++ [SendTo b [10; 0; 0; 2] 33434], Ok tt) /\
    RecvRoundtrip.u16 b 26 = 58934 /\
    firstn 4 (skipn 12 (snat4 [0; 1; 10; 0] 33434 b)) = [0; 1; 10; 0] /\
    nat_outcome (snat4 [0; 1; 10; 0] 33434 b) 58934 58934 /\
    fst (nat_status_of 58934 58934 None) = NatNotDetected /\ fst (nat_status_of 58934 58934 (Some 58934)) = NatNotDetected.
Proof. exact sum_preserving_rewrite_refuted. Qed.

(* all probes of one round leave with the same UDP checksum (the ports are a function of the round): the e0 below *)
Theorem c19_same_round_same_checksum : forall sc cfg p1 p2 payload,
  issued sc p1 -> issued sc p2 -> proto sc = Udp -> multipath sc = Dublin -> p_round p1 = p_round p2 ->
  udp4_wire_checksum cfg p1 payload = udp4_wire_checksum cfg p2 payload.
Proof. exact same_round_same_checksum. Qed.

(* WHOLE HISTORIES.  A path without rewriting (every responding probe of every round carries expected = actual = the
   round's checksum): after any number of rounds through State::update_from_round, in the default flow and in every
   registered flow, no hop is ever Detected *)
Theorem c19_history_unrewritten_never_detected : forall ms mf rs s' id,
  st_run (state_new ms mf) rs = Ok s' -> Forall unrewritten_round rs ->
  forall i h, nth_error (fs_hops (flow_or_new s' id)) i = Some h -> h_last_nat h <> NatDetected.
Proof. exact st_run_unrewritten. Qed.

(* one device, general form (the expected values beyond the device are arbitrary: they are recomputed from the quoted,
   possibly rewritten, port; when no hop in front of the device responds e0 is what the first responding hop recomputes) *)
Theorem c19_single_device_general : forall before after e0 a1, a1 <> e0 ->
  Forall (fun ea => fst ea = e0 /\ snd ea = e0) before ->
  Forall (fun ea => snd ea = a1) after ->
  (before = [] -> match after with [] => True | ea :: _ => fst ea = e0 end) ->
  nat_spec None (before ++ after) =
    repeat NatNotDetected (length before) ++
    match after with [] => [] | _ :: r => NatDetected :: repeat NatNotDetected (length r) end.
Proof. exact nat_single_rewrite_gen. Qed.

(* ... over any non-empty history of rounds in which the first responding probe beyond the device sits at distance t0:
   hop t0 shows Detected, no other hop ever does - the mark stays attributed to that hop *)
Theorem c19_single_device_history : forall ms rs f' t0, Forall (single_nat_round t0) rs -> rs <> [] ->
  fs_run (flow_state_new ms) rs = Ok f' ->
  forall i h, nth_error (fs_hops f') i = Some h ->
    if Z.of_nat i + 1 =? t0 then h_last_nat h = NatDetected else h_last_nat h <> NatDetected.
Proof. exact fs_run_single_device. Qed.

(* two devices.  [before] (non-empty) in front of the first, [mid] between them (quote a1), [after] beyond the second
   (quote a2): each segment carries at most one mark, on its first hop, by comparison with what the previous segment
   quoted.  With a responding hop between the devices: two marks (when a1 <> e0 and a2 <> a1).  With none: ONE
   comparison a2 against e0 - the two devices show as one, or as none when the second undoes the first *)
Theorem c19_two_devices : forall before mid after e0 a1 a2, before <> [] ->
  Forall (fun ea => fst ea = e0 /\ snd ea = e0) before ->
  Forall (fun ea => snd ea = a1) mid -> Forall (fun ea => snd ea = a2) after ->
  nat_spec None (before ++ mid ++ after) =
    repeat NatNotDetected (length before) ++ seg_status e0 a1 (length mid)
      ++ seg_status (match mid with [] => e0 | _ => a1 end) a2 (length after).
Proof. exact nat_two_rewrites. Qed.

(* PER FLOW.  State::update_from_round runs one StateUpdater pass per flow the round goes to (the default flow and the
   attributed flow): each pass starts with prev_hop_checksum = None and ends carrying the last quoted checksum; nothing
   is carried from one pass, flow or round into another *)
Theorem c19_each_pass_starts_from_none : forall s r s' id, dense (st_registry s) -> update_from_round s r = Ok s' ->
  selects id s r = true ->
  u_prev_cksum (pass_start (flow_or_new s id) r) = None /\
  exists u, fold_probes (rr_probes r) (pass_start (flow_or_new s id) r) (rr_probes r) = Ok u /\
            flow_or_new s' id = u_fs u /\ u_prev_cksum u = carried (responders (rr_probes r)).
Proof. exact each_pass_starts_from_none. Qed.

(* ... hence the table of the flow a round is attributed to agrees with the default flow on every hop that responded *)
Theorem c19_flows_agree_on_round : forall s r s' id i h h0, dense (st_registry s) -> update_from_round s r = Ok s' ->
  selects id s r = true -> In (Z.of_nat i + 1) (resp_ttls (rr_probes r)) ->
  nth_error (fs_hops (flow_or_new s' id)) i = Some h -> nth_error (fs_hops (flow_or_new s' 0)) i = Some h0 ->
  h_last_nat h = h_last_nat h0.
Proof. exact flows_agree_on_round. Qed.

(* ---------------------------------------------------------------- non-vacuity *)
(* an ordinary address rewrite (10.0.0.1 -> 192.0.2.1) end to end: unrewritten (58934, 58934), rewritten (58934, 11830), marked *)
Example c19_e2e_example_rewrite :
  exists b, run_send BoNetwork ex_cfg4 [] nat_p = (connect_ops false ex_cfg4 ++ [SendTo b [10; 0; 0; 2] 33434], Ok tt) /\
    nat_outcome b 58934 58934 /\ nat_outcome (snat4 [192; 0; 2; 1] 33434 b) 58934 11830 /\
    fst (nat_status_of 58934 11830 None) = NatDetected /\ (word_sum [192; 0; 2; 1] - word_sum [10; 0; 0; 1]) mod 65535 <> 0.
Proof. exact address_rewrite_example. Qed.

(* the computed-zero case: the dispatch transmits checksum 0, the receive path recomputes 0, the hop is not marked *)
Example c19_e2e_example_computed_zero :
  issued zero_sc zero_p /\ same_trace zero_sc zero_cfg ex_rc4 /\ cfg_v4 zero_cfg /\
  udp4_wire_checksum zero_cfg zero_p (repeat 0 56) = 0 /\
  exists b, run_send BoNetwork zero_cfg [] zero_p = (connect_ops false zero_cfg ++ [SendTo b [10; 0; 0; 2] 55267], Ok tt) /\
    RecvRoundtrip.u16 b 26 = 0 /\
    nat_answer zero_sc (recv4 ex_rc4 0 (quote4 [10; 0; 0; 1] nat_peer b)) zero_p [10; 0; 0; 9] 0 0 true /\
    fst (nat_status_of 0 0 None) = NatNotDetected.
Proof. exact computed_zero_example. Qed.

(* two devices with and without a responding hop between them; a device whose effect the second one undoes *)
Example c19_two_devices_example :
  nat_spec None ([(7, 7)] ++ [(7, 9)] ++ [(7, 4); (7, 4)]) = [NatNotDetected; NatDetected; NatDetected; NatNotDetected] /\
  nat_spec None ([(7, 7)] ++ [] ++ [(7, 4); (7, 4)]) = [NatNotDetected; NatDetected; NatNotDetected] /\
  nat_spec None ([(7, 7)] ++ [] ++ [(7, 7); (7, 7)]) = [NatNotDetected; NatNotDetected; NatNotDetected].
Proof. repeat split; reflexivity. Qed.

(* the hypothesis "the first responding hop beyond the device is the same in every round" of c19_single_device_history
   matters: when that hop is silent in a later round the next responding hop is marked too and the earlier mark stays *)
Example c19_mark_moves_with_loss_example :
  let pr t := {| p_sequence := 33000 + t; p_identifier := 0; p_src_port := 0; p_dest_port := 0; p_ttl := t; p_round := 0; p_sent := 0; p_flags := 0 |} in
  let c t e a := Complete {| c_probe := pr t; c_host := [10;0;0;t]; c_received := 1000; c_icmp := ITimeExceeded 0; c_tos := None; c_expected := Some e; c_actual := Some a; c_exts := None |} in
  let r1 := {| rr_probes := [c 1 7 7; c 2 7 9; c 3 7 9]; rr_largest_ttl := 3; rr_reason := RoundTimeLimitExceeded |} in
  let r2 := {| rr_probes := [c 1 7 7; Awaited (pr 2); c 3 7 9]; rr_largest_ttl := 3; rr_reason := RoundTimeLimitExceeded |} in
  single_nat_round 2 r1 /\ single_nat_round 3 r2 /\
  match fs_run (flow_state_new 10) [r1; r2] with
  | Ok f => map h_last_nat (firstn 3 (fs_hops f)) = [NatNotDetected; NatDetected; NatDetected]
  | _ => False
  end.
Proof. exact mark_moves_with_loss_example. Qed.
