(* C20 - Snapshots are round-atomic while the tracer runs.
   Model: TV.Conc.Tracer - an interleaving semantics of the three critical sections of tracer.rs
   (handler: write lock around the whole update_from_round, cut into its sub-updates; snapshot: clone under the
   read lock; clear: store an empty State under the write lock) over a writer-exclusive / reader-shared lock,
   for any number of reader and clearer threads and ANY schedule.  The fidelity of this lock semantics to
   parking_lot::RwLock and the Rust memory model is assumed (partial claim). *)
From Coq Require Import List Arith Lia.
Import ListNotations.
From TV Require Import Conc.Tracer Proofs.TracerProofs.
From TV Require Import Conc.TracerRich Proofs.TracerOrder Proofs.TracerRichProofs Proofs.TracerLive Proofs.TracerFlows Proofs.TracerExamples.

(* every value a snapshot returns is the result of applying the whole consecutive rounds b..r-1 to an empty
   state, where b is the handler's round index at the last clear completed before the snapshot: never part of
   a round, never a mixture of data from before and after a clear *)
Theorem c20_atomic : forall nrounds m nr nc sched v b r,
  In (v, b, r) (obs (texec nrounds m nr nc sched)) -> v = rounds_state m b r /\ b <= r.
Proof.
  intros nrounds m nr nc sched v b r Hin.
  destruct (exec_inv nrounds m nr nc sched) as (_ & _ & Ho).
  rewrite Forall_forall in Ho. exact (Ho (v, b, r) Hin).
Qed.

(* the lock discipline behind it, for every schedule: while the handler or a clearer holds the write lock no
   reader holds the lock; readers only hold it between whole rounds; whenever the lock is free or held by readers
   the cell is exactly the whole rounds base..r-1 (r = the handler's next round) *)
Theorem c20_lock_discipline : forall nrounds m nr nc sched,
  let s := texec nrounds m nr nc sched in
  base s <= hround (hd s) /\
  match lk s with
  | Free => (exists r, hd s = HIdle r) /\ count is_rhold (rds s) = 0 /\ count is_chold (cls s) = 0 /\
            cell s = rounds_state m (base s) (hround (hd s))
  | Readers n => (exists r, hd s = HIdle r) /\ count is_rhold (rds s) = n /\ 0 < n /\ count is_chold (cls s) = 0 /\
                 cell s = rounds_state m (base s) (hround (hd s))
  | Writer => count is_rhold (rds s) = 0
  end.
Proof.
  intros nrounds m nr nc sched s. destruct (exec_inv nrounds m nr nc sched) as (Hb & Hl & _).
  fold s in Hb, Hl. split; [exact Hb|]. destruct (lk s); [exact Hl|exact Hl|exact (proj1 Hl)].
Qed.

(* non-vacuity: a reader blocked while the handler writes observes exactly round 0; after a clear between
   the rounds the next snapshot holds round 1 only (base 1) *)
Example c20_example :
  obs (texec 2 (fun _ => 2) 1 1 [TH; TH; TR 0; TH; TH; TR 0; TR 0; TR 0; TC 0; TC 0; TC 0; TH; TH; TH; TH; TR 0; TR 0]) =
    [([(0,0); (0,1)], 0, 1); ([(1,0); (1,1)], 1, 2)].
Proof. reflexivity. Qed.

(* a torn value is representable in the model: dropping the handler's lock makes the invariant fail - the
   sub-update list of a round in progress is not a whole-rounds state *)
Example c20_torn_is_not_whole : [(0,0)] <> rounds_state (fun _ => 2) 0 1 /\ [(0,0)] <> rounds_state (fun _ => 2) 0 0.
Proof. split; discriminate. Qed.


(* ====================================================================================================
   Order, freshness, clear, per-round / per-flow atomicity and deadlock freedom, proved about the same
   model Conc/Tracer.v (every schedule, any number of reader and clearer threads).  The list [obs] holds the
   snapshots in the order of their clones; an entry (v, b, r) carries the value, the handler's round index at
   the last clear completed before the clone (b) and the handler's round index at the clone (r).
   ==================================================================================================== *)

(* monotonicity: of any two snapshots, the one cloned later was taken at a later-or-equal clear marker and a
   later-or-equal round index, and both are whole-rounds states.  In particular two snapshots taken by the same
   reader thread one after the other (program order implies clone order) never go back in rounds. *)
Theorem c20_snapshots_monotone : forall nrounds m nr nc sched o1 v1 b1 r1 o2 v2 b2 r2 o3,
  obs (texec nrounds m nr nc sched) = o1 ++ (v1, b1, r1) :: o2 ++ (v2, b2, r2) :: o3 ->
  b1 <= b2 /\ r1 <= r2 /\ b1 <= r1 /\ b2 <= r2 /\ v1 = rounds_state m b1 r1 /\ v2 = rounds_state m b2 r2.
Proof. exact obs_monotone. Qed.

(* no clear completed between the two snapshots (same marker b): the later one shows at least as many rounds and
   its value is the earlier value followed by the whole rounds r1..r2-1 (prefix order on the list of rounds) *)
Theorem c20_later_snapshot_extends : forall nrounds m nr nc sched o1 v1 b r1 o2 v2 r2 o3,
  obs (texec nrounds m nr nc sched) = o1 ++ (v1, b, r1) :: o2 ++ (v2, b, r2) :: o3 ->
  r1 - b <= r2 - b /\ v2 = v1 ++ rounds_state m r1 r2.
Proof. exact obs_prefix. Qed.

(* with clears in between: the later snapshot is the earlier one with the cleared whole rounds b1..b2-1 removed from
   the front and the new whole rounds r1..r2-1 appended - never anything but whole rounds changes *)
Theorem c20_cut_and_extend : forall nrounds m nr nc sched o1 v1 b1 r1 o2 v2 b2 r2 o3,
  obs (texec nrounds m nr nc sched) = o1 ++ (v1, b1, r1) :: o2 ++ (v2, b2, r2) :: o3 ->
  b2 <= r1 ->
  v1 = rounds_state m b1 b2 ++ rounds_state m b2 r1 /\ v2 = rounds_state m b2 r1 ++ rounds_state m r1 r2.
Proof. exact obs_cut_extend. Qed.

(* cut the schedule anywhere (s1 = what happened so far): every snapshot cloned later is a whole-rounds state whose
   clear marker and round index are at least those reached at the cut *)
Theorem c20_snapshots_after : forall nrounds m nr nc s1 s2,
  exists ext, obs (texec nrounds m nr nc (s1 ++ s2)) = obs (texec nrounds m nr nc s1) ++ ext /\
    Forall (fun o => let '(v, b, r) := o in
              base (texec nrounds m nr nc s1) <= b /\ hround (hd (texec nrounds m nr nc s1)) <= r /\
              b <= r /\ v = rounds_state m b r) ext.
Proof. exact obs_after. Qed.

(* freshness: once the handler has released the write lock after round q (its index has passed q), every snapshot
   cloned afterwards - so every snapshot() that starts afterwards - contains all sub-updates of round q, unless a
   clear completed after round q (then b > q) *)
Theorem c20_fresh : forall nrounds m nr nc s1 s2 q v b r,
  q < hround (hd (texec nrounds m nr nc s1)) ->
  In (v, b, r) (obs (texec nrounds m nr nc (s1 ++ s2))) ->
  In (v, b, r) (obs (texec nrounds m nr nc s1)) \/
  (q < r /\ (b <= q -> forall k, k < m q -> In (q, k) v)).
Proof. exact obs_fresh. Qed.

(* clear: once a clear has completed with the handler at index c (marker base = c), no snapshot cloned afterwards
   shows any sub-update of a round q < c, i.e. of a round published before that clear *)
Theorem c20_cleared : forall nrounds m nr nc s1 s2 v b r q k,
  q < base (texec nrounds m nr nc s1) ->
  In (v, b, r) (obs (texec nrounds m nr nc (s1 ++ s2))) ->
  In (v, b, r) (obs (texec nrounds m nr nc s1)) \/ ~ In (q, k) v.
Proof. exact obs_cleared. Qed.

(* a snapshot contains either all sub-updates of a round or none of them *)
Theorem c20_round_all_or_none : forall nrounds m nr nc sched v b r q k1 k2,
  In (v, b, r) (obs (texec nrounds m nr nc sched)) -> k1 < m q -> k2 < m q ->
  (In (q, k1) v <-> In (q, k2) v).
Proof. exact obs_all_or_none. Qed.

(* the per-flow sub-updates of State::update_from_round: let tgt say which flow entry each sub-update writes (for
   trippy: the first writes flow 0, the last the round's own flow; any number of flows).  No snapshot shows flow f
   updated with round q while flow g has not seen round q, and vice versa. *)
Theorem c20_flows_agree : forall nrounds m tgt nr nc sched v b r q k1 k2 f g,
  In (v, b, r) (obs (texec nrounds m nr nc sched)) ->
  k1 < m q -> k2 < m q -> tgt q k1 = Some f -> tgt q k2 = Some g ->
  (In q (flow_view tgt f v) <-> In q (flow_view tgt g v)).
Proof. exact obs_flows_agree. Qed.

(* deadlock freedom of the discipline: in every reachable state some thread can take a step that changes the
   state, unless the tracer has published all rounds, the lock is free and there are no reader / clearer threads
   (in this model readers and clearers call again and again, so they are never "done") *)
Theorem c20_deadlock_free : forall nrounds m nr nc sched,
  let s := texec nrounds m nr nc sched in
  (exists t, tstep nrounds m s t <> s) \/
  (exists r, hd s = HIdle r /\ nrounds <= r /\ lk s = Free /\ nr = 0 /\ nc = 0).
Proof. exact core_deadlock_free. Qed.

(* a reader holds the read lock while the writer waits: the handler's step and every idle clearer's step change
   nothing (blocked), a further reader is admitted (count + 1), and some holder can go on *)
Theorem c20_writer_waits_for_readers : forall nrounds m nr nc sched n,
  let s := texec nrounds m nr nc sched in
  lk s = Readers n ->
  tstep nrounds m s TH = s /\
  (forall j, nth_error (cls s) j = Some CIdle -> tstep nrounds m s (TC j) = s) /\
  (forall i, nth_error (rds s) i = Some RIdle -> lk (tstep nrounds m s (TR i)) = Readers (S n)) /\
  (exists i, tstep nrounds m s (TR i) <> s).
Proof. exact core_writer_waits. Qed.

(* non-vacuity: three rounds of two sub-updates, two readers, one clearer.  Reader 0 acquires while the handler
   writes round 0 (blocked), reader 1 joins it under the read lock while the handler waits; a clear between rounds 1
   and 2; reader 0 again.  Snapshots 1 and 2 share the marker 0 (the second extends nothing: same rounds), snapshot
   3 extends them by round 1, snapshot 4 is taken after the clear (marker 2): rounds 0 and 1 are gone. *)
Definition c20_schedA : list tid :=
  [TH; TR 0; TH; TH; TH; TR 0; TR 1; TH; TR 0; TR 1; TR 0; TR 1; TH; TH; TH; TH; TR 1; TR 1; TR 1;
   TC 0; TC 0; TC 0; TH; TR 0; TH; TH; TH; TR 0; TR 0; TR 0].
Example c20_order_example :
  obs (texec 3 (fun _ => 2) 2 1 c20_schedA) =
    [([(0,0); (0,1)], 0, 1); ([(0,0); (0,1)], 0, 1); ([(0,0); (0,1); (1,0); (1,1)], 0, 2); ([(2,0); (2,1)], 2, 3)].
Proof. reflexivity. Qed.
(* at the cut after 19 steps the handler's index is 2 and no clear has completed; afterwards the marker is 2 *)
Example c20_cut_example :
  hround (hd (texec 3 (fun _ => 2) 2 1 (firstn 19 c20_schedA))) = 2 /\ base (texec 3 (fun _ => 2) 2 1 (firstn 19 c20_schedA)) = 0 /\
  base (texec 3 (fun _ => 2) 2 1 (firstn 22 c20_schedA)) = 2.
Proof. repeat split; reflexivity. Qed.
(* flows: sub-update 0 writes flow 0, sub-update 1 writes flow 7 (the round's own flow) *)
Example c20_flows_example :
  flow_view (fun _ k => if k =? 0 then Some 0 else Some 7) 0 [(0,0); (0,1); (1,0); (1,1)] = [0; 1] /\
  flow_view (fun _ k => if k =? 0 then Some 0 else Some 7) 7 [(0,0); (0,1); (1,0); (1,1)] = [0; 1].
Proof. split; reflexivity. Qed.
(* a reachable state in which a reader holds the lock and the handler has rounds left: the writer waits *)
Example c20_writer_waits_example :
  lk (texec 3 (fun _ => 2) 2 1 (firstn 6 c20_schedA)) = Readers 1 /\ hd (texec 3 (fun _ => 2) 2 1 (firstn 6 c20_schedA)) = HIdle 1.
Proof. split; reflexivity. Qed.

(* ====================================================================================================
   The richer model Conc/TracerRich.v: Conc/Tracer.v plus a history of events with thread identities, the error
   hand-off of Tracer::run (handle_error sets the error component [err] under the write lock, in one more critical
   section after the last round), Tracer::clear as repaired in commit 70dc05f (one write-locked section: the round
   data are emptied, the error is kept), parked writers with deferring (XR i true) and non-deferring (XR i false)
   reader acquisitions, and finite call budgets rb / cb of the reader / clearer threads.  A snapshot event
   ESnap i v e carries the round data v and the error flag e, both read under the same read lock.
   ==================================================================================================== *)

(* simulation: the lock, the round data and the program counters of the richer model move only by steps of
   Conc/Tracer.v (the error section being one more section, without round sub-updates): every execution projects
   onto an execution of Conc/Tracer.v that is not longer *)
Theorem c20_rich_simulated : forall nrounds m fails rb cb sched,
  exists sched', length sched' <= length sched /\
    co (rexec nrounds m fails rb cb sched) = texec (nsec nrounds fails) (msec nrounds m) (length rb) (length cb) sched'.
Proof. exact rexec_simulates. Qed.

(* and the round data of the snapshots of the history are exactly the observations of that Conc/Tracer.v component *)
Theorem c20_rich_snapshots_are_observations : forall nrounds m fails rb cb sched,
  snap_vals (log (rexec nrounds m fails rb cb sched)) =
  map (fun o => fst (fst o)) (obs (co (rexec nrounds m fails rb cb sched))).
Proof. exact rich_snaps_are_obs. Qed.

(* linearizability: whatever the schedule, the pair (round data, error) a snapshot returns is the sequential replay
   of the history before its clone: each published round appended whole (at the handler's release), each clear
   emptying the round data and keeping the error (at clear()'s release), the error set (at handle_error's release) *)
Theorem c20_linearizable : forall nrounds m fails rb cb sched l1 i v e l2,
  log (rexec nrounds m fails rb cb sched) = l1 ++ ESnap i v e :: l2 -> (v, e) = replay m l1.
Proof. exact rich_linearizable. Qed.

(* hence the round data are the whole rounds b..p-1 (b <= p <= nrounds); a snapshot that shows the error comes from a
   failed run and has p = nrounds: the error together with ALL rounds since the last clear - never the error with a
   half round, never the error without the last round *)
Theorem c20_rich_whole_rounds : forall nrounds m fails rb cb sched l1 i v e l2,
  log (rexec nrounds m fails rb cb sched) = l1 ++ ESnap i v e :: l2 ->
  exists b p, b <= p /\ p <= nrounds /\ v = rounds_state m b p /\ (e = true -> fails = true /\ p = nrounds).
Proof. exact rich_whole. Qed.

(* monotonicity per reader: two snapshots i1 = i2 of the same reader in program order (or of two readers, in clone
   order) with no clear() returning between them: the later round data are the earlier ones followed by exactly the
   sub-updates of the rounds published in between, so it shows at least as many rounds; an error shown stays shown *)
Theorem c20_reader_monotone : forall nrounds m fails rb cb sched l1 i1 v1 e1 l2 i2 v2 e2 l3,
  log (rexec nrounds m fails rb cb sched) = l1 ++ ESnap i1 v1 e1 :: l2 ++ ESnap i2 v2 e2 :: l3 -> no_clear l2 ->
  v2 = v1 ++ flat_map (ev_atoms m) l2 /\ length v1 <= length v2 /\ (e1 = true -> e2 = true).
Proof. exact rich_monotone. Qed.

(* freshness: a snapshot cloned after the handler released the lock for round r, no clear() returning in between,
   contains every sub-update of round r *)
Theorem c20_fresh_after_release : forall nrounds m fails rb cb sched l1 r l2 i v e l3,
  log (rexec nrounds m fails rb cb sched) = l1 ++ EPub r :: l2 ++ ESnap i v e :: l3 -> no_clear l2 ->
  forall k, k < m r -> In (r, k) v.
Proof. exact rich_fresh. Qed.

(* the same, word for word: reader i CALLS snapshot() after the release of round r, and this call returns v *)
Theorem c20_fresh_after_call : forall nrounds m fails rb cb sched l1 r l2 i l3 v e l4,
  log (rexec nrounds m fails rb cb sched) = l1 ++ EPub r :: l2 ++ EStart i :: l3 ++ ESnap i v e :: l4 ->
  no_clear l2 -> no_clear l3 -> forall k, k < m r -> In (r, k) v.
Proof. exact rich_fresh_started. Qed.

(* clear: a snapshot cloned after a clear() returned never shows a sub-update of a round published before that
   clear; an error stored before that clear it DOES show (the repaired clear keeps the error) *)
Theorem c20_clear_hides_older_rounds : forall nrounds m fails rb cb sched l1 j l2 i v e l3,
  log (rexec nrounds m fails rb cb sched) = l1 ++ EClr j :: l2 ++ ESnap i v e :: l3 ->
  (forall r k, In (EPub r) l1 -> ~ In (r, k) v) /\ (In EErr l1 -> e = true).
Proof. exact rich_clear. Qed.

(* error hand-off: a snapshot cloned after handle_error released the lock, no clear() returning in between, shows
   the error together with exactly the state handle_error found: ALL rounds of the run since the last clear, whole *)
Theorem c20_error_handoff : forall nrounds m fails rb cb sched l1 l2 i v e l3,
  log (rexec nrounds m fails rb cb sched) = l1 ++ EErr :: l2 ++ ESnap i v e :: l3 -> no_clear l2 ->
  e = true /\ v = fst (replay m l1) /\ exists b, b <= nrounds /\ v = rounds_state m b nrounds.
Proof. exact rich_error. Qed.

(* the error survives every clear (repaired Tracer::clear): every snapshot cloned - a fortiori every snapshot() called -
   after handle_error released the lock shows the error, whatever clears happen before, between or after; its round data
   are exactly the whole rounds published since the last completed clear: what handle_error found if no clear returned
   since, nothing if one did (no round is published after the error) *)
Theorem c20_error_survives_clear : forall nrounds m fails rb cb sched l1 l2 i v e l3,
  log (rexec nrounds m fails rb cb sched) = l1 ++ EErr :: l2 ++ ESnap i v e :: l3 ->
  e = true /\
  (no_clear l2 -> v = fst (replay m l1)) /\
  ((exists j, In (EClr j) l2) -> v = []) /\
  exists b, b <= nrounds /\ v = rounds_state m b nrounds.
Proof. exact rich_error_survives_clear. Qed.

(* a snapshot shows the error exactly when handle_error released the lock before its clone: one cloned before
   handle_error never shows it (no early or half-stored error), one cloned after always does *)
Theorem c20_error_iff_handed_off : forall nrounds m fails rb cb sched l1 i v e l2,
  log (rexec nrounds m fails rb cb sched) = l1 ++ ESnap i v e :: l2 -> (e = true <-> In EErr l1).
Proof. exact rich_error_iff. Qed.

(* once a snapshot has shown the error every later snapshot shows it, whatever clears happen in between *)
Theorem c20_error_is_stable : forall nrounds m fails rb cb sched l1 i1 v1 e1 l2 i2 v2 e2 l3,
  log (rexec nrounds m fails rb cb sched) = l1 ++ ESnap i1 v1 e1 :: l2 ++ ESnap i2 v2 e2 :: l3 -> e1 = true -> e2 = true.
Proof. exact rich_error_stable. Qed.

(* per-flow sub-updates in the richer model: flows f and g written by sub-updates of round q have both seen round q
   or neither has, in every snapshot of every history *)
Theorem c20_rich_flows_agree : forall nrounds m tgt fails rb cb sched l1 i v e l2 q k1 k2 f g,
  log (rexec nrounds m fails rb cb sched) = l1 ++ ESnap i v e :: l2 ->
  k1 < m q -> k2 < m q -> tgt q k1 = Some f -> tgt q k2 = Some g ->
  (forall k, m q <= k -> tgt q k = None) ->
  (In q (flow_view tgt f v) <-> In q (flow_view tgt g v)).
Proof. exact rich_flows_agree. Qed.

(* deadlock freedom with parked writers: in every reachable state either every thread is done (tracer finished,
   all budgets used up, nobody inside a call) or some thread has an enabled step - even if every reader acquisition
   defers to parked writers *)
Theorem c20_rich_deadlock_free : forall nrounds m fails rb cb sched,
  let s := rexec nrounds m fails rb cb sched in
  all_done nrounds fails s = true \/ exists t, polite_only t /\ renabled nrounds fails s t = true.
Proof. exact rich_deadlock_free. Qed.

(* a step that is not enabled is a blocked acquisition or a finished thread: nothing but a parked flag changes *)
Theorem c20_blocked_step_is_parking : forall nrounds m fails s t,
  renabled nrounds fails s t = false ->
  co (rstep nrounds m fails s t) = co s /\ log (rstep nrounds m fails s t) = log s.
Proof. exact rich_blocked_is_parking. Qed.

(* reader holds, writer waits, both parking_lot behaviours: the tracer thread parks (its step leaves lock and cell
   alone, it is not enabled); then a deferring acquisition of another reader is refused (the state does not change)
   while a non-deferring one is admitted (reader count + 1) *)
Theorem c20_parked_writer_both_policies : forall nrounds m fails s n r i bud,
  lk (co s) = Readers n -> hd (co s) = HIdle r -> r < nsec nrounds fails ->
  nth_error (rds (co s)) i = Some RIdle -> nth i (rx s) (false, 0) = (true, bud) ->
  let s' := rstep nrounds m fails s XH in
  co s' = co s /\ hpark s' = true /\ renabled nrounds fails s' XH = false /\
  rstep nrounds m fails s' (XR i true) = s' /\ renabled nrounds fails s' (XR i true) = false /\
  lk (co (rstep nrounds m fails s' (XR i false))) = Readers (S n) /\ renabled nrounds fails s' (XR i false) = true.
Proof. exact rich_parked_writer. Qed.

(* every enabled step of a reachable state consumes exactly one unit of the remaining work *)
Theorem c20_work_decreases : forall nrounds m fails rb cb sched t,
  let s := rexec nrounds m fails rb cb sched in
  renabled nrounds fails s t = true -> work nrounds m fails (rstep nrounds m fails s t) + 1 = work nrounds m fails s.
Proof. exact rich_work_decreases. Qed.

(* so a run of enabled steps from a reachable state is never longer than the remaining work (no livelock) *)
Theorem c20_enabled_runs_bounded : forall nrounds m fails rb cb l sched,
  enabled_run nrounds m fails (rexec nrounds m fails rb cb sched) l ->
  work nrounds m fails (rexec nrounds m fails rb cb (sched ++ l)) + length l = work nrounds m fails (rexec nrounds m fails rb cb sched).
Proof. exact rich_enabled_run_bound. Qed.

(* and when the work is used up every thread is done: scheduling enabled steps (one always exists otherwise) ends,
   after exactly work-many steps, with the tracer finished and all snapshot() / clear() calls returned *)
Theorem c20_no_work_all_done : forall nrounds m fails rb cb sched,
  work nrounds m fails (rexec nrounds m fails rb cb sched) = 0 -> all_done nrounds fails (rexec nrounds m fails rb cb sched) = true.
Proof. exact rich_no_work_all_done. Qed.

(* non-vacuity: schedS (Proofs/TracerExamples.v): two rounds, the run fails, readers 0 and 1 overlap each other and
   the handler, the tracer thread parks behind two readers, a clearer parks behind a reader *)
Example c20_history_example : log sysS =
  [EStart 0; EStart 1; EPub 0; ESnap 1 r0 false; ESnap 0 r0 false; EStart 1; EPub 1; EStart 0; ESnap 0 r01 false; EErr;
   ESnap 1 r01 true; EClr 0; EStart 0; ESnap 0 [] true].
Proof. exact logS. Qed.
(* reader 0, first and second snapshot, no clear in between: extended by round 1 *)
Example c20_reader_monotone_example :
  log sysS = [EStart 0; EStart 1; EPub 0; ESnap 1 r0 false] ++ ESnap 0 r0 false :: [EStart 1; EPub 1; EStart 0] ++ ESnap 0 r01 false :: [EErr; ESnap 1 r01 true; EClr 0; EStart 0; ESnap 0 [] true]
  /\ no_clear [EStart 1; EPub 1; EStart 0] /\ r01 = r0 ++ flat_map (ev_atoms (fun _ => 2)) [EStart 1; EPub 1; EStart 0].
Proof. split; [exact logS|]. split; [no_clear_tac|reflexivity]. Qed.
(* reader 0 calls snapshot() after round 1 was released *)
Example c20_fresh_example :
  log sysS = [EStart 0; EStart 1; EPub 0; ESnap 1 r0 false; ESnap 0 r0 false; EStart 1] ++ EPub 1 :: [] ++ EStart 0 :: [] ++ ESnap 0 r01 false :: [EErr; ESnap 1 r01 true; EClr 0; EStart 0; ESnap 0 [] true]
  /\ no_clear [] /\ In (1, 1) r01.
Proof. split; [exact logS|]. split; [no_clear_tac|cbn; auto]. Qed.
(* reader 1 clones after handle_error: the error and both rounds *)
Example c20_error_example :
  log sysS = [EStart 0; EStart 1; EPub 0; ESnap 1 r0 false; ESnap 0 r0 false; EStart 1; EPub 1; EStart 0; ESnap 0 r01 false] ++ EErr :: [] ++ ESnap 1 r01 true :: [EClr 0; EStart 0; ESnap 0 [] true]
  /\ no_clear [] /\ r01 = rounds_state (fun _ => 2) 0 2.
Proof. split; [exact logS|]. split; [no_clear_tac|reflexivity]. Qed.
(* reader 0 calls and clones after the clear that followed handle_error: no round data, the error still there *)
Example c20_clear_example :
  log sysS = [EStart 0; EStart 1; EPub 0; ESnap 1 r0 false; ESnap 0 r0 false; EStart 1; EPub 1; EStart 0; ESnap 0 r01 false; EErr; ESnap 1 r01 true] ++ EClr 0 :: [EStart 0] ++ ESnap 0 [] true :: [].
Proof. exact logS. Qed.
(* clears before, after and again after handle_error (err_clear_sched): reader 1 cloned before handle_error sees
   round 0 and no error; reader 0, called after the clear that followed handle_error, sees the error and no round data,
   and again after a second clear by another clearer *)
Example c20_error_survives_clear_example :
  log sysE = [EClr 0; EPub 0; EStart 1; ESnap 1 [(0, 0)] false] ++ EErr :: [EClr 0; EStart 0] ++ ESnap 0 [] true :: [EClr 1; EStart 0; ESnap 0 [] true]
  /\ log sysE = [EClr 0; EPub 0; EStart 1; ESnap 1 [(0, 0)] false] ++ EErr :: [EClr 0; EStart 0; ESnap 0 [] true; EClr 1; EStart 0] ++ ESnap 0 [] true :: []
  /\ (exists j, In (EClr j) [EClr 0; EStart 0]).
Proof. split; [exact logE|]. split; [exact logE|]. exists 0. left. reflexivity. Qed.
(* at the end every thread is done and no work is left; initially there were 34 units, and schedS has 39 steps:
   34 enabled ones and 5 blocked attempts *)
Example c20_done_example :
  all_done 2 true sysS = true /\ work 2 (fun _ => 2) true sysS = 0 /\
  work 2 (fun _ => 2) true (rinit [3; 2] [1]) = 34 /\ length schedS = 39.
Proof. repeat split; vm_compute; reflexivity. Qed.
(* reader 0 holds the read lock, reader 1 is inside snapshot(), the tracer thread has parked: the handler and the
   clearer are not enabled, the holder is, reader 1 is refused when deferring and admitted when not *)
Example c20_parked_example :
  let s := rexec 2 (fun _ => 2) true [3; 2] [1] [XR 0 false; XR 1 false; XR 0 true; XH] in
  hpark s = true /\ lk (co s) = Readers 1 /\
  map (renabled 2 true s) [XH; XR 0 true; XR 1 true; XR 1 false; XC 0] = [false; true; false; true; false].
Proof. repeat split; vm_compute; reflexivity. Qed.

(* ====================================================================================================
   NEGATIVE examples: the theorems are about the lock discipline, not true by construction.
   ==================================================================================================== *)

(* a handler that releases the write lock between the two sub-updates of a round (per-flow locking, torn_step in
   Conc/TracerRich.v; readers and clearers unchanged) admits a schedule with a torn snapshot: the value is no
   whole-rounds state for any marker, flow 0 has seen round 0 and the round's own flow 1 has not *)
Theorem c20_split_lock_refuted :
  exists v b r, In (v, b, r) (obs (fst (torn_exec 1 (fun _ => 2) 1 0 torn_sched))) /\
    (forall b' r', v <> rounds_state (fun _ => 2) b' r') /\
    In 0 (flow_view (fun _ k => Some k) 0 v) /\ ~ In 0 (flow_view (fun _ k => Some k) 1 v).
Proof. exact torn_refuted. Qed.

(* a clone-modify-store handler (clone under the read lock, update the copy unlocked, store under the write lock;
   cms_step) admits a schedule in which a snapshot taken after a completed clear (marker b = 1) shows round 0,
   published before that clear: the "mixture of data from before and after a clear" *)
Theorem c20_clone_modify_store_refuted :
  exists v b r, In (v, b, r) (obs (fst (cms_exec 2 (fun _ => 1) 1 1 cms_sched))) /\
    0 < b /\ In (0, 0) v /\ v <> rounds_state (fun _ => 1) b r.
Proof. exact cms_refuted. Qed.

(* the same two schedules under the real discipline *)
Example c20_split_lock_schedule_ok :
  map (fun o => fst (fst o)) (obs (texec 1 (fun _ => 2) 1 0 torn_sched)) = [[(0, 0); (0, 1)]].
Proof. reflexivity. Qed.
Example c20_clone_modify_store_schedule_ok :
  obs (texec 2 (fun _ => 1) 1 1 cms_sched) = [([], 2, 2)].
Proof. reflexivity. Qed.
