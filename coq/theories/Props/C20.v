(* C20 - Snapshots are round-atomic while the tracer runs.
   Model: TV.Conc.Tracer - an interleaving semantics of the three critical sections of tracer.rs
   (handler: write lock around the whole update_from_round, cut into its sub-updates; snapshot: clone under the
   read lock; clear: store an empty State under the write lock) over a writer-exclusive / reader-shared lock,
   for any number of reader and clearer threads and ANY schedule.  The fidelity of this lock semantics to
   parking_lot::RwLock and the Rust memory model is assumed (partial claim). *)
From Coq Require Import List Arith Lia.
Import ListNotations.
From TV Require Import Conc.Tracer Proofs.TracerProofs.

(* every value a snapshot returns is the result of applying the whole consecutive rounds b..r-1 to an empty
   state, where b is the handler's round index at the last clear completed before the snapshot: never part of
   a round, never a mixture of data from before and after a clear *)
Theorem c20_atomic : forall nrounds m nr nc sched v b r,
  In (v, b, r) (obs (texec nrounds m nr nc sched)) -> v = rounds_state m b r /\ b <= r.
Proof.
  intros nrounds m nr nc sched v b r Hin.
  destruct (exec_inv nrounds m nr nc sched) as (_ & _ & Ho).
  rewrite Forall_forall in Ho. exact (Ho (v, b, r) Hin).
Qed.

(* the lock discipline behind it, for every schedule: while the handler or a clearer holds the write lock no
   reader holds the lock; readers only hold it between whole rounds; whenever the lock is free or held by readers
   the cell is exactly the whole rounds base..r-1 (r = the handler's next round) *)
Theorem c20_lock_discipline : forall nrounds m nr nc sched,
  let s := texec nrounds m nr nc sched in
  base s <= hround (hd s) /\
  match lk s with
  | Free => (exists r, hd s = HIdle r) /\ count is_rhold (rds s) = 0 /\ count is_chold (cls s) = 0 /\
            cell s = rounds_state m (base s) (hround (hd s))
  | Readers n => (exists r, hd s = HIdle r) /\ count is_rhold (rds s) = n /\ 0 < n /\ count is_chold (cls s) = 0 /\
                 cell s = rounds_state m (base s) (hround (hd s))
  | Writer => count is_rhold (rds s) = 0
  end.
Proof.
  intros nrounds m nr nc sched s. destruct (exec_inv nrounds m nr nc sched) as (Hb & Hl & _).
  fold s in Hb, Hl. split; [exact Hb|]. destruct (lk s); [exact Hl|exact Hl|exact (proj1 Hl)].
Qed.

(* non-vacuity: a reader blocked while the handler writes observes exactly round 0; after a clear between
   the rounds the next snapshot holds round 1 only (base 1) *)
Example c20_example :
  obs (texec 2 (fun _ => 2) 1 1 [TH; TH; TR 0; TH; TH; TR 0; TR 0; TR 0; TC 0; TC 0; TC 0; TH; TH; TH; TH; TR 0; TR 0]) =
    [([(0,0); (0,1)], 0, 1); ([(1,0); (1,1)], 1, 2)].
Proof. reflexivity. Qed.

(* a torn value is representable in the model: dropping the handler's lock makes the invariant fail - the
   sub-update list of a round in progress is not a whole-rounds state *)
Example c20_torn_is_not_whole : [(0,0)] <> rounds_state (fun _ => 2) 0 1 /\ [(0,0)] <> rounds_state (fun _ => 2) 0 0.
Proof. split; discriminate. Qed.
